/-
  C02 — Unix timestamps and UTC date-times correspond one-to-one.
  Property statements only (helper lemmas: Proofs/TimestampL.lean and Proofs/TimestampL2.lean, on top of
  Proofs/DateL.lean).

  Model: `NaiveDT.{from_timestamp, from_timestamp_millis/_micros/_nanos, timestamp, timestamp_millis/_micros,
  timestamp_nanos_opt, timestamp_subsec_*}` (Model/DateTime.lean) and the wrappers / `SystemTime` conversions of
  Model/Timestamp.lean; every machine step that could overflow goes through `ckI64/ckI32/ckU32/ckU64`, so
  "`= .ok …`" includes "no intermediate overflow, no panic".
  Specification (Spec/InstantSpec.lean, Spec/TimestampSpec.lean; nothing of chrono's code in it):
    `instSecs dt = (dayNum(date) − 719163)·86400 + seconds of day`, `instNs dt = instSecs dt·10⁹ + frac`
  with `dayNum` the closed-form proleptic-Gregorian day number of Spec/Calendar.lean;
  `NDTInv` = representation invariant (date of the supported range, time of day < 86400 s, frac < 2·10⁹),
  `TStrict` = leap-second representation (frac ≥ 10⁹) only on a second 59, `NonLeap` = frac < 10⁹;
  `TS_MIN/TS_MAX` = first/last representable second; `/` and `%` on `Int` are floor division and its
  non-negative remainder.
-/
import Chrono.Proofs.TimestampL2
import Chrono.Extracted.TsLits
import Chrono.Props.GenDate
import Chrono.Props.GenTime

namespace Chrono.Props.C02
open Chrono Chrono.M Chrono.Spec Chrono.Spec.Ts Chrono.Proofs Chrono.Proofs.Ts Chrono.Proofs.Ts2 Chrono.Extracted

/-! ## data tie -/

/-- the integer literals of the timestamp functions and the epoch day, as re-extracted from the Rust
source on this run, are the ones the model was written against -/
theorem literals_ok :
    UNIX_EPOCH_DAY = 719163 ∧
    TS_LITS_timestamp = [86400] ∧ TS_LITS_timestamp_millis = [1000] ∧ TS_LITS_timestamp_micros = [1000000] ∧
    TS_LITS_timestamp_nanos_opt = [1000000000] ∧
    TS_LITS_timestamp_subsec_millis = [1000000] ∧ TS_LITS_timestamp_subsec_micros = [1000] ∧
    TS_LITS_from_timestamp = [86400, 86400] ∧ TS_LITS_from_timestamp_millis = [1000, 1000, 1000000] ∧
    TS_LITS_from_timestamp_micros = [1000000, 1000000, 1000] ∧
    TS_LITS_from_timestamp_nanos = [1000000000, 1000000000] ∧
    TS_LITS_from_system_time = [0, 0, 1, 1000000000] ∧ TS_LITS_to_system_time = [0, 0, 0] ∧
    TS_LITS_naive_from_timestamp_micros = [1000000, 1000000, 1000] ∧
    TS_LITS_naive_from_timestamp_nanos = [1000000000, 1000000000] := by decide

/-- the epoch and the range: chrono's `UNIX_EPOCH_DAY` is the specification's day number of
1970-01-01; `NaiveDateTime::MIN/MAX` are valid and sit on the first/last representable second -/
theorem epoch_and_range :
    UNIX_EPOCH_DAY = EPOCH_DAY ∧ dayNum 1970 1 1 = EPOCH_DAY ∧
    instNs ⟨dateOfYo 1970 1, Time.MIN⟩ = 0 ∧
    TS_MIN = -8334601228800 ∧ TS_MAX = 8210266876799 ∧
    NDTInv NaiveDT.MIN ∧ NDTInv NaiveDT.MAX ∧ instSecs NaiveDT.MIN = TS_MIN ∧ instSecs NaiveDT.MAX = TS_MAX ∧
    NaiveDT.MAX.time.frac = 999999999 := by decide

/-! ## seconds: construction -/

/-- `from_timestamp`, every `i64` count and every `u32` nanosecond field: never panics; when it
yields a value, that value is valid, its calendar and clock fields lie exactly `secs` seconds from the
epoch, and its nanosecond field is `nsecs` (a leap-second representation only on a second 59) -/
theorem from_ts_meaning (secs nsecs : Int) (hs : isI64 secs) (hn : isU32 nsecs) :
    ∃ r, NaiveDT.from_timestamp secs nsecs = .ok r ∧
      ∀ dt, r = some dt →
        NDTInv dt ∧ TStrict dt.time ∧ instSecs dt = secs ∧ dt.time.frac = nsecs := by
  obtain ⟨r, h1, _, h3⟩ := from_timestamp_spec secs nsecs hs hn.1
  exact ⟨r, h1, h3⟩

/-- construction fails exactly when the instant is outside the representable range or the nanosecond
field is invalid (≥ 2·10⁹, or ≥ 10⁹ on a second other than 59) -/
theorem from_ts_fails_iff (secs nsecs : Int) (hs : isI64 secs) (hn : isU32 nsecs) :
    NaiveDT.from_timestamp secs nsecs = .ok none ↔
      (secs < TS_MIN ∨ secs > TS_MAX ∨ nsecs ≥ 2000000000 ∨ (nsecs ≥ 1000000000 ∧ secs % 60 ≠ 59)) := by
  obtain ⟨r, h1, h2, _⟩ := from_timestamp_spec secs nsecs hs hn.1
  rw [h1]
  have : (Res.ok r = Res.ok (none : Option NaiveDT)) ↔ r = none := by
    constructor
    · intro h; injection h
    · intro h; rw [h]
  rw [this, h2]
  unfold tsOk nanosOk
  constructor <;> intro h <;> omega

/-- one value per instant: valid values with the same second count and the same nanosecond field are
the same value (so the value described by `from_ts_meaning` is unique) -/
theorem instant_unique (a b : NaiveDT) (ha : NDTInv a) (hb : NDTInv b)
    (h : instSecs a = instSecs b) (hf : a.time.frac = b.time.frac) : a = b := inst_inj a b ha hb h hf

/-! ## seconds: reading -/

/-- the accessors of every valid value (leap-second representations included): `timestamp` is the
second count, the sub-second accessors are the nanosecond field truncated to the unit, and
`timestamp_millis/_micros` are the floor of the exact nanosecond position in that unit — all without
intermediate overflow -/
theorem timestamp_meaning (dt : NaiveDT) (h : NDTInv dt) :
    NaiveDT.timestamp dt = .ok (instSecs dt) ∧
    NaiveDT.timestamp_subsec_nanos dt = dt.time.frac ∧
    NaiveDT.timestamp_subsec_micros dt = dt.time.frac / 1000 ∧
    NaiveDT.timestamp_subsec_millis dt = dt.time.frac / 1000000 ∧
    NaiveDT.timestamp_millis dt = .ok (instNs dt / 1000000) ∧
    NaiveDT.timestamp_micros dt = .ok (instNs dt / 1000) ∧
    TS_MIN ≤ instSecs dt ∧ instSecs dt ≤ TS_MAX :=
  ⟨timestamp_spec dt h, rfl, rfl, rfl, timestamp_millis_spec dt h, timestamp_micros_spec dt h,
    instSecs_range dt h⟩

/-- round trip, seconds, direction count → value → count: whatever `from_timestamp` builds reads back
as the same `(secs, nsecs)` -/
theorem ts_roundtrip_from (secs nsecs : Int) (hs : isI64 secs) (hn : isU32 nsecs) (dt : NaiveDT)
    (h : NaiveDT.from_timestamp secs nsecs = .ok (some dt)) :
    NaiveDT.timestamp dt = .ok secs ∧ NaiveDT.timestamp_subsec_nanos dt = nsecs := by
  obtain ⟨r, h1, _, h3⟩ := from_timestamp_spec secs nsecs hs hn.1
  rw [h1] at h
  injection h with h
  obtain ⟨i1, _, i3, i4⟩ := h3 dt h
  exact ⟨by rw [timestamp_spec dt i1, i3], i4⟩

/-- round trip, seconds, direction value → count → value: every valid value as the constructors build
it (leap-second representation at most on a second 59) is rebuilt from its own `timestamp()` and
`timestamp_subsec_nanos()` -/
theorem ts_roundtrip_to (dt : NaiveDT) (h : NDTInv dt) (hs : TStrict dt.time) :
    ∃ s, NaiveDT.timestamp dt = .ok s ∧ isI64 s ∧ isU32 (NaiveDT.timestamp_subsec_nanos dt) ∧
      NaiveDT.from_timestamp s (NaiveDT.timestamp_subsec_nanos dt) = .ok (some dt) := by
  have hr := instSecs_range dt h
  rw [ts_min_val, ts_max_val] at hr
  obtain ⟨_, _, _, t3, t4⟩ := id h
  refine ⟨instSecs dt, timestamp_spec dt h, by unfold isI64; omega, ?_, from_timestamp_of_inv dt h hs⟩
  unfold isU32 NaiveDT.timestamp_subsec_nanos Time.nanosecond; omega

/-! ## milliseconds, microseconds, nanoseconds: floor semantics -/

/-- `from_timestamp_millis`, every `i64`: never panics; fails exactly when the floor second
`ms / 1000` is outside the range; otherwise the value is non-leap and lies exactly `ms` milliseconds
from the epoch (so a negative fractional count rounds toward −∞, not toward zero) -/
theorem from_millis_floor (ms : Int) (h : isI64 ms) :
    ∃ r, NaiveDT.from_timestamp_millis ms = .ok r ∧
      (r = none ↔ (ms / 1000 < TS_MIN ∨ ms / 1000 > TS_MAX)) ∧
      (∀ dt, r = some dt → NDTInv dt ∧ NonLeap dt ∧ instNs dt = ms * 1000000) := by
  unfold isI64 at h
  obtain ⟨r, e1, e2, e3⟩ := from_sub_spec (ms / 1000) (ms % 1000 * 1000000) (by unfold isI64; omega)
    (by omega) (by omega)
  refine ⟨r, by rw [from_millis_eq, e1], e2, ?_⟩
  intro dt hdt
  obtain ⟨i1, i2, i3⟩ := e3 dt hdt
  exact ⟨i1, i2, by rw [i3]; omega⟩

/-- `from_timestamp_micros`, every `i64` -/
theorem from_micros_floor (us : Int) (h : isI64 us) :
    ∃ r, NaiveDT.from_timestamp_micros us = .ok r ∧
      (r = none ↔ (us / 1000000 < TS_MIN ∨ us / 1000000 > TS_MAX)) ∧
      (∀ dt, r = some dt → NDTInv dt ∧ NonLeap dt ∧ instNs dt = us * 1000) := by
  unfold isI64 at h
  obtain ⟨r, e1, e2, e3⟩ := from_sub_spec (us / 1000000) (us % 1000000 * 1000) (by unfold isI64; omega)
    (by omega) (by omega)
  refine ⟨r, by rw [from_micros_eq, e1], e2, ?_⟩
  intro dt hdt
  obtain ⟨i1, i2, i3⟩ := e3 dt hdt
  exact ⟨i1, i2, by rw [i3]; omega⟩

/-- `from_timestamp_nanos`, every `i64`: total (its `expect` never fires: the whole `i64` nanosecond
window lies inside the range) and exact -/
theorem from_nanos_exact (ns : Int) (h : isI64 ns) :
    ∃ dt, NaiveDT.from_timestamp_nanos ns = .ok dt ∧ NDTInv dt ∧ NonLeap dt ∧ instNs dt = ns :=
  from_nanos_total ns h

/-- round trip in the three sub-second units, direction count → value → count -/
theorem ts_roundtrip_units_from (x : Int) (h : isI64 x) :
    (∀ dt, NaiveDT.from_timestamp_millis x = .ok (some dt) → NaiveDT.timestamp_millis dt = .ok x) ∧
    (∀ dt, NaiveDT.from_timestamp_micros x = .ok (some dt) → NaiveDT.timestamp_micros dt = .ok x) ∧
    (∀ dt, NaiveDT.from_timestamp_nanos x = .ok dt → NaiveDT.timestamp_nanos_opt dt = .ok (some x)) := by
  refine ⟨?_, ?_, ?_⟩
  · intro dt hdt
    obtain ⟨r, e1, _, e3⟩ := from_millis_floor x h
    rw [e1] at hdt; injection hdt with hdt
    obtain ⟨i1, _, i3⟩ := e3 dt hdt
    rw [timestamp_millis_spec dt i1, i3]; congr 1; omega
  · intro dt hdt
    obtain ⟨r, e1, _, e3⟩ := from_micros_floor x h
    rw [e1] at hdt; injection hdt with hdt
    obtain ⟨i1, _, i3⟩ := e3 dt hdt
    rw [timestamp_micros_spec dt i1, i3]; congr 1; omega
  · intro dt hdt
    obtain ⟨dt', e1, i1, i2, i3⟩ := from_nanos_total x h
    rw [e1] at hdt; injection hdt with hdt
    subst hdt
    rw [nanos_opt_spec dt' i1 ⟨i1.2, Or.inl i2⟩, i3]
    unfold isI64 at h
    rw [if_pos h]

/-- round trip in the three sub-second units, direction value → count → value, every valid non-leap
value: the count read in a unit rebuilds the value truncated to that unit (the value itself for
nanoseconds, whenever the nanosecond count exists) -/
theorem ts_roundtrip_units_to (dt : NaiveDT) (h : NDTInv dt) (hl : NonLeap dt) :
    (∃ m, NaiveDT.timestamp_millis dt = .ok m ∧ isI64 m ∧
      NaiveDT.from_timestamp_millis m = .ok (some (truncFrac dt 1000000))) ∧
    (∃ u, NaiveDT.timestamp_micros dt = .ok u ∧ isI64 u ∧
      NaiveDT.from_timestamp_micros u = .ok (some (truncFrac dt 1000))) ∧
    (∀ n, NaiveDT.timestamp_nanos_opt dt = .ok (some n) → isI64 n ∧ NaiveDT.from_timestamp_nanos n = .ok dt) := by
  have hr := instSecs_range dt h
  rw [ts_min_val, ts_max_val] at hr
  obtain ⟨_, _, _, t3, t4⟩ := id h
  refine ⟨⟨_, timestamp_millis_spec dt h, ?_, millis_back dt h hl⟩,
    ⟨_, timestamp_micros_spec dt h, ?_, micros_back dt h hl⟩, ?_⟩
  · unfold isI64 instNs; omega
  · unfold isI64 instNs; omega
  · intro n hn
    rw [nanos_opt_spec dt h ⟨h.2, Or.inl hl⟩] at hn
    injection hn with hn
    split at hn
    · injection hn with hn
      subst hn
      exact ⟨by unfold isI64; assumption, nanos_back dt h hl⟩
    · cases hn

/-! ## the 64-bit nanosecond window -/

/-- `timestamp_nanos_opt` on every valid value as the constructors build it: the exact nanosecond
count when that count fits in `i64`, absence otherwise; no intermediate step overflows (this is what
the negative-timestamp workaround is for: `ts·10⁹` alone would leave `i64` for counts just above
`i64::MIN`) -/
theorem nanos_opt_exact (dt : NaiveDT) (h : NDTInv dt) (hs : TStrict dt.time) :
    NaiveDT.timestamp_nanos_opt dt =
      .ok (if -9223372036854775808 ≤ instNs dt ∧ instNs dt ≤ 9223372036854775807
           then some (instNs dt) else none) := nanos_opt_spec dt h hs

/-- absence exactly when the count does not fit in 64 bits -/
theorem nanos_opt_none_iff (dt : NaiveDT) (h : NDTInv dt) (hs : TStrict dt.time) :
    NaiveDT.timestamp_nanos_opt dt = .ok none ↔
      (instNs dt < -9223372036854775808 ∨ instNs dt > 9223372036854775807) := by
  rw [nanos_opt_spec dt h hs]
  constructor
  · intro hx
    injection hx with hx
    split at hx
    · cases hx
    · omega
  · intro hx
    rw [if_neg (by omega)]

/-- Regression witness of finding F27 (repaired by 32de816): a leap-second *representation* on a second
other than 59 — which only `with_nanosecond` can build — on the second -9223372038 has a count that
fits `i64`; the former negative-timestamp workaround `(ts+1)·10⁹` left `i64` there and `None` was
returned.  The count is now formed in 128 bits and the value is reported. -/
theorem nanos_opt_nonstrict_leap_witness :
    let dt : NaiveDT := ⟨⟨13742219⟩, ⟨762, 1500000000⟩⟩
    NDTInv dt ∧ ¬ TStrict dt.time ∧ isI64 (instNs dt) ∧ NaiveDT.timestamp_nanos_opt dt = .ok (some (instNs dt)) := by
  decide +kernel

/-! ## the system clock type -/

/-- `From<DateTime<Tz>> for SystemTime`, every valid value: no panic, and the result `(S, N)` is a
well-formed system time denoting the same instant (for a leap-second representation: `frac`
nanoseconds after the start of its second, i.e. inside the following second) -/
theorem to_system_time_exact (dt : NaiveDT) (h : NDTInv dt) :
    ∃ p, Ts.to_system_time dt = .ok p ∧ stValid p ∧ stNs p = instNs dt := by
  have hr := instSecs_range dt h
  rw [ts_min_val, ts_max_val] at hr
  obtain ⟨_, _, _, t3, t4⟩ := id h
  refine ⟨_, to_system_time_spec dt h, ?_, ?_⟩
  · unfold stValid isI64; dsimp only; omega
  · unfold stNs instNs; dsimp only; omega

/-- `From<SystemTime> for DateTime<Utc>`, every system time with `i64` seconds: inside the range the
result is the valid non-leap value at that instant; outside it the conversion panics (`unwrap`) -/
theorem from_system_time_exact (S N : Int) (hS : isI64 S) (hN : 0 ≤ N ∧ N < 1000000000) :
    (TS_MIN ≤ S ∧ S ≤ TS_MAX →
      ∃ dt, Ts.from_system_time S N = .ok dt ∧ NDTInv dt ∧ NonLeap dt ∧ instNs dt = stNs (S, N)) ∧
    (S < TS_MIN ∨ S > TS_MAX → Ts.from_system_time S N = .panic) := by
  rw [from_system_time_eq S N hS hN]
  obtain ⟨r, e1, e2, e3⟩ := from_sub_spec S N hS hN.1 hN.2
  rw [e1]
  constructor
  · intro hr
    cases r with
    | none => have := e2.1 rfl; omega
    | some dt => exact ⟨dt, rfl, e3 dt rfl⟩
  · intro hr
    rw [e2.2 hr]; rfl

/-- conversion to and from the system clock type preserves the instant, both directions -/
theorem systemtime_roundtrip :
    (∀ dt, NDTInv dt → NonLeap dt →
      ∃ p, Ts.to_system_time dt = .ok p ∧ Ts.from_system_time p.1 p.2 = .ok dt) ∧
    (∀ S N, isI64 S → 0 ≤ N ∧ N < 1000000000 → TS_MIN ≤ S ∧ S ≤ TS_MAX →
      ∃ dt, Ts.from_system_time S N = .ok dt ∧ Ts.to_system_time dt = .ok (S, N)) := by
  constructor
  · intro dt h hl
    have hr := instSecs_range dt h
    rw [ts_min_val, ts_max_val] at hr
    obtain ⟨_, _, _, t3, _⟩ := id h
    unfold NonLeap at hl
    refine ⟨_, to_system_time_spec dt h, ?_⟩
    dsimp only
    have e1 : instSecs dt + dt.time.frac / 1000000000 = instSecs dt := by omega
    have e2 : dt.time.frac % 1000000000 = dt.time.frac := by omega
    rw [e1, e2, from_system_time_eq _ _ (by unfold isI64; omega) (by omega),
      from_timestamp_of_inv dt h ⟨h.2, Or.inl hl⟩]
    rfl
  · intro S N hS hN hr
    obtain ⟨dt, e1, i1, i2, i3⟩ := (from_system_time_exact S N hS hN).1 hr
    refine ⟨dt, e1, ?_⟩
    rw [to_system_time_spec dt i1]
    obtain ⟨_, _, _, t3, _⟩ := id i1
    unfold NonLeap at i2
    unfold instNs stNs at i3
    dsimp only at i3
    congr 2 <;> omega

/-! ## wrappers -/

/-- the `TimeZone::timestamp*` wrappers for a fixed offset (`Utc` = offset 0) attach the offset to
what `DateTime::from_timestamp*` builds; the `unwrap` forms panic exactly on absence; the accessors
of a zone-aware value do not look at the offset; `and_utc`/`naive_utc` are inverse; the deprecated
`NaiveDateTime` constructors (two of which repeat the Euclidean split) agree with the `DateTime` ones -/
theorem wrappers_ok (off : Int) :
    (∀ s n, Ts.timestamp_opt off s n = (NaiveDT.from_timestamp s n).bind fun o => .ok (o.map fun dt => ⟨dt, off⟩)) ∧
    (∀ x, Ts.timestamp_millis_opt off x = (NaiveDT.from_timestamp_millis x).bind fun o => .ok (o.map fun dt => ⟨dt, off⟩)) ∧
    (∀ x, Ts.timestamp_micros off x = (NaiveDT.from_timestamp_micros x).bind fun o => .ok (o.map fun dt => ⟨dt, off⟩)) ∧
    (∀ x, Ts.timestamp_nanos off x = (NaiveDT.from_timestamp_nanos x).bind fun dt => .ok ⟨dt, off⟩) ∧
    (∀ s n, Ts.timestamp off s n = Ts.unwrap (Ts.timestamp_opt off s n)) ∧
    (∀ dt : NaiveDT, Ts.ztimestamp ⟨dt, off⟩ = NaiveDT.timestamp dt ∧
      Ts.ztimestamp_millis ⟨dt, off⟩ = NaiveDT.timestamp_millis dt ∧
      Ts.ztimestamp_micros ⟨dt, off⟩ = NaiveDT.timestamp_micros dt ∧
      Ts.ztimestamp_nanos_opt ⟨dt, off⟩ = NaiveDT.timestamp_nanos_opt dt ∧
      Ts.naive_utc (Ts.and_utc dt) = dt) ∧
    (∀ s n, Ts.naive_from_timestamp_opt s n = NaiveDT.from_timestamp s n) ∧
    (∀ x, Ts.naive_from_timestamp_millis x = NaiveDT.from_timestamp_millis x) ∧
    (∀ x, Ts.naive_from_timestamp_micros x = NaiveDT.from_timestamp_micros x) ∧
    (∀ x, isI64 x → Ts.naive_from_timestamp_nanos x = (NaiveDT.from_timestamp_nanos x).bind fun dt => .ok (some dt)) := by
  have hmap : ∀ r : Res (Option NaiveDT),
      (r.bind fun o => Res.ok (o.map fun dt => Ts.naive_utc (Ts.and_utc dt))) = r := by
    intro r
    cases r with
    | panic => rfl
    | ok o => cases o <;> rfl
  refine ⟨fun _ _ => rfl, fun _ => rfl, fun _ => rfl, fun _ => rfl, fun _ _ => rfl,
    fun _ => ⟨rfl, rfl, rfl, rfl, rfl⟩, fun s n => hmap _, fun x => hmap _, ?_, ?_⟩
  · intro x
    unfold Ts.naive_from_timestamp_micros NaiveDT.from_timestamp_micros Ts.naive_from_timestamp_opt
    cases ckU32 (x % 1000000 * 1000) with
    | panic => rfl
    | ok n => exact hmap _
  · intro x hx
    obtain ⟨dt, e1, _⟩ := from_nanos_total x hx
    rw [e1]
    unfold NaiveDT.from_timestamp_nanos at e1
    unfold Ts.naive_from_timestamp_nanos Ts.naive_from_timestamp_opt
    rw [hmap]
    cases hft : NaiveDT.from_timestamp (x / 1000000000) (x % 1000000000) with
    | panic => rw [hft] at e1; cases e1
    | ok o =>
      rw [hft] at e1
      cases o with
      | none => cases e1
      | some d => injection e1 with e1; rw [e1]; rfl

/-! ## non-vacuity: the hypotheses are met by non-trivial values, and both outcomes occur -/

/-- one second and one nanosecond before the epoch; a leap second on :59 and its refusal on :58;
both range ends and the first second beyond each -/
example :
    NaiveDT.from_timestamp (-1) 999999999 = .ok (some ⟨dateOfYo 1969 365, ⟨86399, 999999999⟩⟩) ∧
    NaiveDT.from_timestamp 1435708799 1500000000 = .ok (some ⟨dateOfYo 2015 181, ⟨86399, 1500000000⟩⟩) ∧
    NaiveDT.from_timestamp 1435708798 1000000000 = .ok none ∧
    NaiveDT.from_timestamp 0 2000000000 = .ok none ∧
    NaiveDT.from_timestamp TS_MAX 1999999999 = .ok (some ⟨Date.MAX, ⟨86399, 1999999999⟩⟩) ∧
    NaiveDT.from_timestamp (TS_MAX + 1) 0 = .ok none ∧
    NaiveDT.from_timestamp TS_MIN 0 = .ok (some NaiveDT.MIN) ∧
    NaiveDT.from_timestamp (TS_MIN - 1) 0 = .ok none ∧
    NaiveDT.from_timestamp (-9223372036854775808) 0 = .ok none ∧
    isI64 TS_MAX ∧ isU32 1999999999 ∧ tsOk TS_MAX 1999999999 ∧ ¬ tsOk 1435708798 1000000000 := by
  decide +kernel

/-- floor, not truncation: −1 ms is 23:59:59.999 of 1969-12-31 and reads back as −1; −1 µs, −1 ns alike -/
example :
    NaiveDT.from_timestamp_millis (-1) = .ok (some ⟨dateOfYo 1969 365, ⟨86399, 999000000⟩⟩) ∧
    NaiveDT.timestamp_millis ⟨dateOfYo 1969 365, ⟨86399, 999000000⟩⟩ = .ok (-1) ∧
    NaiveDT.from_timestamp_micros (-1) = .ok (some ⟨dateOfYo 1969 365, ⟨86399, 999999000⟩⟩) ∧
    NaiveDT.timestamp_micros ⟨dateOfYo 1969 365, ⟨86399, 999999000⟩⟩ = .ok (-1) ∧
    NaiveDT.from_timestamp_nanos (-1) = .ok ⟨dateOfYo 1969 365, ⟨86399, 999999999⟩⟩ ∧
    NaiveDT.timestamp_nanos_opt ⟨dateOfYo 1969 365, ⟨86399, 999999999⟩⟩ = .ok (some (-1)) ∧
    NaiveDT.from_timestamp_millis 9223372036854775807 = .ok none ∧
    NaiveDT.from_timestamp_micros (-9223372036854775808) = .ok none := by
  decide +kernel

/-- both ends of the 64-bit nanosecond window (1677-09-21T00:12:43.145224192 and
2262-04-11T23:47:16.854775807): present at the end, absent one nanosecond beyond, no panic -/
example :
    NaiveDT.from_timestamp_nanos (-9223372036854775808) = .ok ⟨dateOfYo 1677 264, ⟨763, 145224192⟩⟩ ∧
    NaiveDT.timestamp_nanos_opt ⟨dateOfYo 1677 264, ⟨763, 145224192⟩⟩ = .ok (some (-9223372036854775808)) ∧
    NaiveDT.timestamp_nanos_opt ⟨dateOfYo 1677 264, ⟨763, 145224191⟩⟩ = .ok none ∧
    NaiveDT.from_timestamp_nanos 9223372036854775807 = .ok ⟨dateOfYo 2262 101, ⟨85636, 854775807⟩⟩ ∧
    NaiveDT.timestamp_nanos_opt ⟨dateOfYo 2262 101, ⟨85636, 854775807⟩⟩ = .ok (some 9223372036854775807) ∧
    NaiveDT.timestamp_nanos_opt ⟨dateOfYo 2262 101, ⟨85636, 854775808⟩⟩ = .ok none ∧
    NaiveDT.timestamp_nanos_opt NaiveDT.MIN = .ok none ∧ NaiveDT.timestamp_nanos_opt NaiveDT.MAX = .ok none ∧
    NDTInv ⟨dateOfYo 1677 264, ⟨763, 145224191⟩⟩ ∧ TStrict (⟨763, 145224191⟩ : Time) := by
  decide +kernel

/-- the system clock: half a second before the epoch takes the `Err` branch with a borrow; a leap
second lands in the following second; outside the range the conversion panics -/
example :
    Ts.from_system_time (-1) 500000000 = .ok ⟨dateOfYo 1969 365, ⟨86399, 500000000⟩⟩ ∧
    Ts.to_system_time ⟨dateOfYo 1969 365, ⟨86399, 500000000⟩⟩ = .ok (-1, 500000000) ∧
    Ts.to_system_time ⟨dateOfYo 2015 181, ⟨86399, 1500000000⟩⟩ = .ok (1435708800, 500000000) ∧
    Ts.from_system_time (TS_MAX + 1) 0 = .panic ∧
    Ts.from_system_time (-9223372036854775808) 0 = .panic ∧
    Ts.timestamp_opt 3600 0 0 = .ok (some ⟨⟨dateOfYo 1970 1, ⟨0, 0⟩⟩, 3600⟩) ∧
    Ts.timestamp 3600 0 2000000000 = .panic := by
  decide +kernel

/-! ## audit gaps (audit/C02.md), closed 2026-09-30 -/

/-! ### the 64-bit nanosecond window on the whole quantifier domain -/

/-- `timestamp_nanos_opt` on EVERY representable value (no assumption on where a leap-second
representation sits; this is `nanos_opt_exact` without its `TStrict` hypothesis): the exact nanosecond
count when that count fits in `i64`, absence otherwise, never a panic.  Holds since fix 32de816 (the
count is formed in 128 bits); for the former body see `nanos_opt_pinned_formula`. -/
theorem nanos_opt_exact_all (dt : NaiveDT) (h : NDTInv dt) :
    NaiveDT.timestamp_nanos_opt dt = .ok (if isI64 (instNs dt) then some (instNs dt) else none) :=
  nanos_opt_spec_all dt h

/-- absence exactly when the count does not fit in 64 bits; presence exactly with the count -/
theorem nanos_opt_none_iff_all (dt : NaiveDT) (h : NDTInv dt) :
    (NaiveDT.timestamp_nanos_opt dt = .ok none ↔ ¬ isI64 (instNs dt)) ∧
    (∀ n, NaiveDT.timestamp_nanos_opt dt = .ok (some n) ↔ (n = instNs dt ∧ isI64 n)) := by
  rw [nanos_opt_spec_all dt h]
  by_cases hi : isI64 (instNs dt)
  · rw [if_pos hi]
    refine ⟨⟨fun hx => (by injection hx with hx; cases hx), fun hx => absurd hi hx⟩, ?_⟩
    intro n
    constructor
    · intro hx; injection hx with hx; injection hx with hx; subst hx; exact ⟨rfl, hi⟩
    · rintro ⟨rfl, _⟩; rfl
  · rw [if_neg hi]
    refine ⟨⟨fun _ => hi, fun _ => rfl⟩, ?_⟩
    intro n
    constructor
    · intro hx; injection hx with hx; cases hx
    · rintro ⟨rfl, hn⟩; exact absurd hn hi

/-- The FORMER body of `timestamp_nanos_opt` (before 32de816; `nanosOptPinned` in
Proofs/TimestampL2.lean transcribes it: `if ts < 0 { sub -= 10⁹; ts += 1 }` then `checked_mul`,
`checked_add` in `i64`) — statement about the OLD formula only, kept as the record of finding F27: it
agrees with the present one on every representable value except those on the second -9223372038 with
a nanosecond field ≥ 1145224192 (necessarily a leap-second representation off second 59), where it
returned `None` although the count fits `i64`. -/
theorem nanos_opt_pinned_formula (dt : NaiveDT) (h : NDTInv dt) :
    (¬ (instSecs dt = -9223372038 ∧ dt.time.frac ≥ 1145224192) →
      nanosOptPinned dt = NaiveDT.timestamp_nanos_opt dt) ∧
    ((instSecs dt = -9223372038 ∧ dt.time.frac ≥ 1145224192) →
      nanosOptPinned dt = .ok none ∧ NaiveDT.timestamp_nanos_opt dt = .ok (some (instNs dt)) ∧
      ¬ TStrict dt.time) := by
  constructor
  · intro hx
    rw [nanosOptPinned_spec dt h hx, nanos_opt_spec_all dt h]
  · intro hx
    obtain ⟨e1, e2⟩ := nanosOptPinned_exceptional dt h hx
    refine ⟨e1, by rw [nanos_opt_spec_all dt h, if_pos e2], ?_⟩
    intro hs
    have h60 : instSecs dt % 60 = dt.time.secs % 60 := by unfold instSecs; omega
    obtain ⟨_, hl⟩ := hs
    omega

/-- F27's input under the OLD formula (kernel-evaluated): `None`; compare
`nanos_opt_nonstrict_leap_witness` for the present code -/
theorem nanos_opt_pinned_formula_witness :
    nanosOptPinned ⟨⟨13742219⟩, ⟨762, 1500000000⟩⟩ = .ok none ∧
    NaiveDT.timestamp_nanos_opt ⟨⟨13742219⟩, ⟨762, 1500000000⟩⟩ = .ok (some (-9223372036500000000)) ∧
    nanosOptPinned ⟨⟨13742219⟩, ⟨762, 1145224192⟩⟩ = .ok none ∧
    nanosOptPinned ⟨⟨13742219⟩, ⟨762, 1145224191⟩⟩ = .ok none ∧
    NaiveDT.timestamp_nanos_opt ⟨⟨13742219⟩, ⟨762, 1145224192⟩⟩ = .ok (some (-9223372036854775808)) ∧
    NaiveDT.timestamp_nanos_opt ⟨⟨13742219⟩, ⟨762, 1145224191⟩⟩ = .ok none := by
  decide +kernel

/-! ### the reverse round trip has an exact boundary -/

/-- value → count → value holds EXACTLY for the values whose leap-second representation, if any, sits
on a second 59 (what every timestamp constructor builds); a value with a leap-second representation on
another second (only `with_nanosecond`/`with_second`/offset shifts build one) is refused by
`from_timestamp` on its own `(timestamp(), timestamp_subsec_nanos())`.  So the `TStrict` hypothesis of
`ts_roundtrip_to` is necessary, not a convenience. -/
theorem ts_roundtrip_to_iff (dt : NaiveDT) (h : NDTInv dt) :
    NaiveDT.timestamp dt = .ok (instSecs dt) ∧
    (NaiveDT.from_timestamp (instSecs dt) (NaiveDT.timestamp_subsec_nanos dt) = .ok (some dt) ↔
      TStrict dt.time) ∧
    (¬ TStrict dt.time →
      NaiveDT.from_timestamp (instSecs dt) (NaiveDT.timestamp_subsec_nanos dt) = .ok none) :=
  ⟨timestamp_spec dt h, from_timestamp_back_iff dt h, from_timestamp_of_nonstrict dt h⟩

/-- the nanosecond unit: value → count → value holds exactly for the non-leap values (a leap-second
value's count names the instant inside the following second, which `from_timestamp_nanos` builds as a
non-leap value); so the `NonLeap` hypothesis of `ts_roundtrip_units_to` is necessary -/
theorem ts_roundtrip_nanos_to_iff (dt : NaiveDT) (h : NDTInv dt) (n : Int)
    (hn : NaiveDT.timestamp_nanos_opt dt = .ok (some n)) :
    n = instNs dt ∧ (NaiveDT.from_timestamp_nanos n = .ok dt ↔ NonLeap dt) ∧
    (∃ dt', NaiveDT.from_timestamp_nanos n = .ok dt' ∧ NonLeap dt' ∧ instNs dt' = instNs dt) := by
  obtain ⟨e, hi⟩ := ((nanos_opt_none_iff_all dt h).2 n).1 hn
  subst e
  obtain ⟨dt', e1, _, e2, e3⟩ := from_nanos_total (instNs dt) hi
  exact ⟨rfl, nanos_back_iff dt h hi, dt', e1, e2, e3⟩

/-- milliseconds / microseconds: the count read in the unit rebuilds the value truncated to the unit
EXACTLY for the non-leap values (for a leap-second value the constructor yields a non-leap value inside
the following second instead) -/
theorem ts_roundtrip_units_to_iff (dt : NaiveDT) (h : NDTInv dt) :
    NaiveDT.timestamp_millis dt = .ok (instNs dt / 1000000) ∧
    NaiveDT.timestamp_micros dt = .ok (instNs dt / 1000) ∧
    (NaiveDT.from_timestamp_millis (instNs dt / 1000000) = .ok (some (truncFrac dt 1000000)) ↔ NonLeap dt) ∧
    (NaiveDT.from_timestamp_micros (instNs dt / 1000) = .ok (some (truncFrac dt 1000)) ↔ NonLeap dt) := by
  have hr := instSecs_range dt h
  rw [ts_min_val, ts_max_val] at hr
  obtain ⟨_, _, _, t3, t4⟩ := id h
  refine ⟨timestamp_millis_spec dt h, timestamp_micros_spec dt h, ⟨?_, millis_back dt h⟩, ⟨?_, micros_back dt h⟩⟩
  · intro hx
    obtain ⟨r, e1, _, e3⟩ := from_millis_floor (instNs dt / 1000000) (by unfold isI64 instNs; omega)
    rw [e1] at hx; injection hx with hx
    obtain ⟨_, i2, _⟩ := e3 _ hx
    unfold NonLeap truncFrac at i2; dsimp only at i2
    unfold NonLeap; omega
  · intro hx
    obtain ⟨r, e1, _, e3⟩ := from_micros_floor (instNs dt / 1000) (by unfold isI64 instNs; omega)
    rw [e1] at hx; injection hx with hx
    obtain ⟨_, i2, _⟩ := e3 _ hx
    unfold NonLeap truncFrac at i2; dsimp only at i2
    unfold NonLeap; omega

/-! ### calendar and clock fields through C01's specification -/

/-- bridge to C01: a packed date satisfies the representation invariant exactly when it is
`dateOfYo y o` for a year of the range and an existing ordinal, and then `y`, `o` are its own year and
ordinal — so C01's `accessors_ok` (stated for `dateOfYo y o`) applies to every date C02 speaks about -/
theorem date_repr (d : Date) :
    (DateInv d ↔ ∃ (y : Int) (o : Nat), d = dateOfYo y o ∧ MIN_YEAR ≤ y ∧ y ≤ MAX_YEAR ∧ 1 ≤ o ∧ o ≤ yearLen y) ∧
    (DateInv d → d = dateOfYo d.year d.ordinal.toNat ∧ (d.ordinal.toNat : Int) = d.ordinal ∧
      MIN_YEAR ≤ d.year ∧ d.year ≤ MAX_YEAR ∧ 1 ≤ d.ordinal.toNat ∧ d.ordinal.toNat ≤ yearLen d.year) :=
  ⟨dateInv_iff d, dateInv_repr' d⟩

/-- the calendar and clock fields of every representable value: `month()`/`day()` never panic and
are a valid calendar date (C01's `validYmd`, namely C01's `monthOfYo/dayOfYo` of the ordinal) whose
closed-form day number `dayNum`, together with `hour():minute():second()`, is exactly `instSecs` -/
theorem fields_meaning (dt : NaiveDT) (h : NDTInv dt) :
    ∃ m d : Nat, dt.date.month = .ok m ∧ dt.date.day = .ok d ∧ validYmd dt.date.year m d = true ∧
      m = monthOfYo dt.date.year dt.date.ordinal.toNat ∧ d = dayOfYo dt.date.year dt.date.ordinal.toNat ∧
      instSecs dt = (dayNum dt.date.year m d - 719163) * 86400
        + dt.time.hour * 3600 + dt.time.minute * 60 + dt.time.second ∧
      0 ≤ dt.time.hour ∧ dt.time.hour < 24 ∧ 0 ≤ dt.time.minute ∧ dt.time.minute < 60 ∧
      0 ≤ dt.time.second ∧ dt.time.second < 60 ∧ dt.time.nanosecond = dt.time.frac := by
  obtain ⟨m, d, c1, c2, c3, c4, c5, c6⟩ := date_calendar dt.date h.1
  obtain ⟨k1, k2⟩ := time_clock dt.time h.2
  refine ⟨m, d, c1, c2, c3, c4, c5, ?_, k2⟩
  have hE' : EPOCH_DAY = 719163 := rfl
  unfold instSecs
  rw [c6, hE']
  omega

/-- clause 1 of the statement with calendar fields: the value `from_timestamp` builds has the
calendar date (year, month, day — valid by C01's specification) whose day number is the floor day
`secs / 86400` after 1970-01-01 (day 719163), the clock fields of the second of day `secs % 86400`,
and the given nanosecond field -/
theorem from_ts_fields (secs nsecs : Int) (hs : isI64 secs) (hn : isU32 nsecs) (dt : NaiveDT)
    (h : NaiveDT.from_timestamp secs nsecs = .ok (some dt)) :
    ∃ m d : Nat, dt.date.month = .ok m ∧ dt.date.day = .ok d ∧ validYmd dt.date.year m d = true ∧
      dayNum dt.date.year m d = 719163 + secs / 86400 ∧
      dt.time.hour = secs % 86400 / 3600 ∧ dt.time.minute = secs % 3600 / 60 ∧
      dt.time.second = secs % 60 ∧ dt.time.nanosecond = nsecs := by
  obtain ⟨r, h1, _, h3⟩ := from_timestamp_spec secs nsecs hs hn.1
  rw [h1] at h
  injection h with h
  obtain ⟨i1, _, i3, i4⟩ := h3 dt h
  obtain ⟨m, d, c1, c2, c3, _, _, c6, k1, k2, k3, k4, k5, k6, k7⟩ := fields_meaning dt i1
  refine ⟨m, d, c1, c2, c3, ?_, ?_, ?_, ?_, by rw [k7, i4]⟩
  · omega
  · omega
  · omega
  · omega

/-! ### zone-aware values: the count is that of the UTC reading (offset-independence: by construction of
the model, compared with the crate — not proved) -/

/-- every timestamp accessor of a zone-aware value (`DateTime<FixedOffset>`, `DateTime<Local>`,
`DateTime<Utc>`: UTC reading + offset) is the specification's count of the instant `zonedInstNs`
(the UTC reading alone): conjuncts 1–5 are proved against the specification; conjuncts 6–8
(`timestamp_subsec_*`) are `rfl` — one division each, tied to the code by literal extraction and ops.

HONEST LABEL for the rest (second audit, audit2/C02.md §2): the block "for every offset `off'` …"
(conjunct 9) and the deprecated `NaiveDateTime::timestamp*` twins (conjuncts 10–14) are `rfl`, i.e. they
hold BY CONSTRUCTION OF THE MODEL (`Ts.ztimestamp* z := NaiveDT.timestamp* z.utc`,
`Ts.naive_timestamp* dt := Ts.ztimestamp* (and_utc dt)`): the model never reads `z.off`, for
`FixedOffset` as much as for `Utc`/`Local`.  They prove nothing about the crate.  That the Rust bodies of
`DateTime<Tz>::timestamp*` read `self.datetime` only is carried by the source pins, by the ops
`ts.zget` / `ts.zsub` / `ts.nget` (the model is asked about the value WITH the offset the implementation
attached) and by the direct oracles "the timestamp of a zone-aware value depends on its offset" of
harness/src/props/c02.rs — compared, not proved.  The same holds for conjuncts 4–5 of
`timestamp_nanos_expect_iff` and conjunct 6 of `wrappers_ok`. -/
theorem zoned_timestamp_meaning (z : Zoned) (h : NDTInv z.utc) :
    Ts.ztimestamp z = .ok (zonedInstNs z / 1000000000 - (if z.utc.time.frac ≥ 1000000000 then 1 else 0)) ∧
    Ts.ztimestamp z = .ok (instSecs z.utc) ∧
    Ts.ztimestamp_millis z = .ok (zonedInstNs z / 1000000) ∧
    Ts.ztimestamp_micros z = .ok (zonedInstNs z / 1000) ∧
    Ts.ztimestamp_nanos_opt z = .ok (if isI64 (zonedInstNs z) then some (zonedInstNs z) else none) ∧
    Ts.ztimestamp_subsec_nanos z = z.utc.time.frac ∧
    Ts.ztimestamp_subsec_micros z = z.utc.time.frac / 1000 ∧
    Ts.ztimestamp_subsec_millis z = z.utc.time.frac / 1000000 ∧
    (∀ off', Ts.ztimestamp ⟨z.utc, off'⟩ = Ts.ztimestamp z ∧
      Ts.ztimestamp_millis ⟨z.utc, off'⟩ = Ts.ztimestamp_millis z ∧
      Ts.ztimestamp_micros ⟨z.utc, off'⟩ = Ts.ztimestamp_micros z ∧
      Ts.ztimestamp_nanos_opt ⟨z.utc, off'⟩ = Ts.ztimestamp_nanos_opt z) ∧
    Ts.naive_timestamp z.utc = Ts.ztimestamp z ∧ Ts.naive_timestamp_millis z.utc = Ts.ztimestamp_millis z ∧
    Ts.naive_timestamp_micros z.utc = Ts.ztimestamp_micros z ∧
    Ts.naive_timestamp_nanos_opt z.utc = Ts.ztimestamp_nanos_opt z ∧
    Ts.naive_timestamp_subsec_nanos z.utc = Ts.ztimestamp_subsec_nanos z := by
  obtain ⟨_, _, _, t3, t4⟩ := id h
  refine ⟨?_, timestamp_spec z.utc h, timestamp_millis_spec z.utc h, timestamp_micros_spec z.utc h,
    nanos_opt_spec_all z.utc h, rfl, rfl, rfl, fun _ => ⟨rfl, rfl, rfl, rfl⟩, rfl, rfl, rfl, rfl, rfl⟩
  unfold Ts.ztimestamp zonedInstNs instNs
  rw [timestamp_spec z.utc h]
  congr 1
  split <;> omega

/-- `TimeZone::timestamp_opt` / `timestamp_millis_opt` / `timestamp_micros` / `timestamp_nanos` for a
fixed offset (`MappedLocalTime::Single` or `None`, never `Ambiguous`, never a panic), against the
specification: `None` exactly when the instant is not representable / the nanosecond field invalid;
otherwise the single value carries the zone's offset and its UTC reading is the value at that instant -/
theorem tz_timestamp_meaning (off : Int) :
    (∀ s n, isI64 s → isU32 n → ∃ r, Ts.timestamp_opt off s n = .ok r ∧ (r = none ↔ ¬ tsOk s n) ∧
      ∀ z, r = some z → z.off = off ∧ IsAt z.utc s n) ∧
    (∀ ms, isI64 ms → ∃ r, Ts.timestamp_millis_opt off ms = .ok r ∧
      (r = none ↔ (ms / 1000 < TS_MIN ∨ ms / 1000 > TS_MAX)) ∧
      ∀ z, r = some z → z.off = off ∧ NDTInv z.utc ∧ NonLeap z.utc ∧ zonedInstNs z = ms * 1000000) ∧
    (∀ us, isI64 us → ∃ r, Ts.timestamp_micros off us = .ok r ∧
      (r = none ↔ (us / 1000000 < TS_MIN ∨ us / 1000000 > TS_MAX)) ∧
      ∀ z, r = some z → z.off = off ∧ NDTInv z.utc ∧ NonLeap z.utc ∧ zonedInstNs z = us * 1000) ∧
    (∀ ns, isI64 ns → ∃ z, Ts.timestamp_nanos off ns = .ok z ∧ z.off = off ∧ NDTInv z.utc ∧ NonLeap z.utc ∧
      zonedInstNs z = ns) := by
  refine ⟨?_, ?_, ?_, ?_⟩
  · intro s n hs hn
    obtain ⟨r, e1, e2, e3⟩ := from_timestamp_spec s n hs hn.1
    refine ⟨r.map fun dt => ⟨dt, off⟩, by unfold Ts.timestamp_opt; rw [e1, single_ok], ?_, ?_⟩
    · rw [← e2]; cases r <;> simp
    · intro z hz
      cases r with
      | none => cases hz
      | some dt => injection hz with hz; subst hz; exact ⟨rfl, e3 dt rfl⟩
  · intro ms hms
    obtain ⟨r, e1, e2, e3⟩ := from_millis_floor ms hms
    refine ⟨r.map fun dt => ⟨dt, off⟩, by unfold Ts.timestamp_millis_opt; rw [e1, single_ok], ?_, ?_⟩
    · rw [← e2]; cases r <;> simp
    · intro z hz
      cases r with
      | none => cases hz
      | some dt => injection hz with hz; subst hz; exact ⟨rfl, e3 dt rfl⟩
  · intro us hus
    obtain ⟨r, e1, e2, e3⟩ := from_micros_floor us hus
    refine ⟨r.map fun dt => ⟨dt, off⟩, by unfold Ts.timestamp_micros; rw [e1, single_ok], ?_, ?_⟩
    · rw [← e2]; cases r <;> simp
    · intro z hz
      cases r with
      | none => cases hz
      | some dt => injection hz with hz; subst hz; exact ⟨rfl, e3 dt rfl⟩
  · intro ns hns
    obtain ⟨dt, e1, e2, e3, e4⟩ := from_nanos_total ns hns
    exact ⟨⟨dt, off⟩, by unfold Ts.timestamp_nanos; rw [e1]; rfl, rfl, e2, e3, e4⟩

/-! ### the `unwrap` / `expect` forms panic exactly when the `_opt` form is `None` -/

/-- `TimeZone::timestamp` (deprecated, `timestamp_opt(..).unwrap()`), every `i64` × `u32`: panics
exactly when `timestamp_opt` is `None`, i.e. exactly when the instant is not representable or the
nanosecond field is invalid; otherwise returns the very value `timestamp_opt` holds -/
theorem tz_timestamp_unwrap (off s n : Int) (hs : isI64 s) (hn : isU32 n) :
    (Ts.timestamp off s n = .panic ↔ Ts.timestamp_opt off s n = .ok none) ∧
    (Ts.timestamp off s n = .panic ↔ ¬ tsOk s n) ∧
    (∀ z, Ts.timestamp off s n = .ok z ↔ Ts.timestamp_opt off s n = .ok (some z)) := by
  obtain ⟨r, e1, e2, _⟩ := (tz_timestamp_meaning off).1 s n hs hn
  obtain ⟨u1, u2⟩ := unwrap_ok r
  unfold Ts.timestamp
  rw [e1]
  refine ⟨?_, by rw [u1, e2], ?_⟩
  · rw [u1]; constructor
    · intro hx; rw [hx]
    · intro hx; injection hx
  · intro z; rw [u2 z]; constructor
    · intro hx; rw [hx]
    · intro hx; injection hx

/-- `TimeZone::timestamp_millis` (deprecated, `.unwrap()`), every `i64` -/
theorem tz_timestamp_millis_unwrap (off ms : Int) (h : isI64 ms) :
    (Ts.timestamp_millis off ms = .panic ↔ Ts.timestamp_millis_opt off ms = .ok none) ∧
    (Ts.timestamp_millis off ms = .panic ↔ (ms / 1000 < TS_MIN ∨ ms / 1000 > TS_MAX)) ∧
    (∀ z, Ts.timestamp_millis off ms = .ok z ↔ Ts.timestamp_millis_opt off ms = .ok (some z)) := by
  obtain ⟨r, e1, e2, _⟩ := (tz_timestamp_meaning off).2.1 ms h
  obtain ⟨u1, u2⟩ := unwrap_ok r
  unfold Ts.timestamp_millis
  rw [e1]
  refine ⟨?_, by rw [u1, e2], ?_⟩
  · rw [u1]; constructor
    · intro hx; rw [hx]
    · intro hx; injection hx
  · intro z; rw [u2 z]; constructor
    · intro hx; rw [hx]
    · intro hx; injection hx

/-- `DateTime::timestamp_nanos` (deprecated, `expect(timestamp_nanos_opt())`), every representable
value read through any offset: panics exactly when `timestamp_nanos_opt` is `None`, i.e. exactly when
the count does not fit 64 bits; otherwise returns the count -/
theorem timestamp_nanos_expect_iff (dt : NaiveDT) (h : NDTInv dt) :
    (Ts.timestamp_nanos_expect dt = .panic ↔ NaiveDT.timestamp_nanos_opt dt = .ok none) ∧
    (Ts.timestamp_nanos_expect dt = .panic ↔ ¬ isI64 (instNs dt)) ∧
    (isI64 (instNs dt) → Ts.timestamp_nanos_expect dt = .ok (instNs dt)) ∧
    (∀ off, Ts.ztimestamp_nanos_expect ⟨dt, off⟩ = Ts.timestamp_nanos_expect dt) ∧
    Ts.naive_timestamp_nanos dt = Ts.timestamp_nanos_expect dt := by
  have e := nanos_opt_spec_all dt h
  refine ⟨?_, ?_, ?_, fun _ => rfl, rfl⟩ <;> unfold Ts.timestamp_nanos_expect <;> rw [e]
  · by_cases hi : isI64 (instNs dt)
    · rw [if_pos hi]
      constructor
      · intro hx; cases hx
      · intro hx; injection hx with hx; cases hx
    · rw [if_neg hi]
      exact ⟨fun _ => rfl, fun _ => rfl⟩
  · by_cases hi : isI64 (instNs dt)
    · rw [if_pos hi]
      constructor
      · intro hx; cases hx
      · intro hx; exact absurd hi hx
    · rw [if_neg hi]
      exact ⟨fun _ => hi, fun _ => rfl⟩
  · intro hi
    rw [if_pos hi]; rfl

/-- the deprecated `NaiveDateTime::from_timestamp` (`expect`), every `i64` × `u32`: panics exactly
when `from_timestamp_opt` / `DateTime::from_timestamp` is `None`; otherwise returns that value; and the
`Option`-returning deprecated constructors are the `DateTime` ones -/
theorem naive_from_timestamp_unwrap (s n : Int) (hs : isI64 s) (hn : isU32 n) :
    (Ts.naive_from_timestamp s n = .panic ↔ Ts.naive_from_timestamp_opt s n = .ok none) ∧
    (Ts.naive_from_timestamp s n = .panic ↔ NaiveDT.from_timestamp s n = .ok none) ∧
    (Ts.naive_from_timestamp s n = .panic ↔ ¬ tsOk s n) ∧
    (∀ dt, Ts.naive_from_timestamp s n = .ok dt ↔ NaiveDT.from_timestamp s n = .ok (some dt)) := by
  obtain ⟨r, e1, e2, _⟩ := from_timestamp_spec s n hs hn.1
  have e0 : Ts.naive_from_timestamp_opt s n = NaiveDT.from_timestamp s n := (wrappers_ok 0).2.2.2.2.2.2.1 s n
  obtain ⟨u1, u2⟩ := unwrap_ok r
  unfold Ts.naive_from_timestamp
  rw [e0, e1]
  have a : (Res.ok r = Res.ok (none : Option NaiveDT)) ↔ r = none :=
    ⟨fun hx => by injection hx, fun hx => by rw [hx]⟩
  refine ⟨by rw [u1, a], by rw [u1, a], by rw [u1, e2], ?_⟩
  intro dt; rw [u2 dt]
  exact ⟨fun hx => by rw [hx], fun hx => by injection hx⟩

/-- `TimeZone::timestamp_nanos` and `DateTime::from_timestamp_nanos` contain an `expect` that never
fires on `i64`; `From<SystemTime>`'s `unwrap` fires exactly outside the range (`from_system_time_exact`) -/
theorem nanos_expect_never_fires (off ns : Int) (h : isI64 ns) :
    NaiveDT.from_timestamp_nanos ns ≠ .panic ∧ Ts.timestamp_nanos off ns ≠ .panic := by
  obtain ⟨dt, e1, _⟩ := from_nanos_total ns h
  obtain ⟨z, e2, _⟩ := (tz_timestamp_meaning off).2.2.2 ns h
  rw [e1, e2]
  exact ⟨fun hx => (by cases hx), fun hx => (by cases hx)⟩

/-! ### non-vacuity of the 2026-09-30 families -/

/-- a leap-second representation on second :42 (not strict): the nanosecond count exists, the
reverse round trip is refused; the same field on :59 is rebuilt; and the nanosecond unit maps a
leap-second value to the following second -/
example :
    NDTInv ⟨dateOfYo 2015 181, ⟨86382, 1500000000⟩⟩ ∧ ¬ TStrict (⟨86382, 1500000000⟩ : Time) ∧
    NaiveDT.timestamp_nanos_opt ⟨dateOfYo 2015 181, ⟨86382, 1500000000⟩⟩ = .ok (some 1435708783500000000) ∧
    NaiveDT.from_timestamp 1435708782 1500000000 = .ok none ∧
    NaiveDT.timestamp ⟨dateOfYo 2015 181, ⟨86382, 1500000000⟩⟩ = .ok 1435708782 ∧
    NaiveDT.from_timestamp_nanos 1435708800500000000 = .ok ⟨dateOfYo 2015 182, ⟨0, 500000000⟩⟩ ∧
    NaiveDT.timestamp_nanos_opt ⟨dateOfYo 2015 181, ⟨86399, 1500000000⟩⟩ = .ok (some 1435708800500000000) ∧
    ¬ isI64 (instNs NaiveDT.MAX) ∧ isI64 (instNs ⟨⟨13742219⟩, ⟨762, 1145224192⟩⟩) := by
  decide +kernel

/-- calendar fields: 2015-06-30T23:59:59 (leap second) and 1969-12-31T23:59:59 -/
example :
    (dateOfYo 2015 181).month = .ok 6 ∧ (dateOfYo 2015 181).day = .ok 30 ∧ validYmd 2015 6 30 = true ∧
    dayNum 2015 6 30 = 719163 + 1435708799 / 86400 ∧
    Time.hour ⟨86399, 1500000000⟩ = 23 ∧ Time.minute ⟨86399, 1500000000⟩ = 59 ∧
    Time.second ⟨86399, 1500000000⟩ = 59 ∧
    dayNum 1969 12 31 = 719163 + (-1) / 86400 ∧ DateInv (dateOfYo 1969 365) ∧
    (dateOfYo 1969 365).year = 1969 ∧ (dateOfYo 1969 365).ordinal = 365 := by
  decide +kernel

/-- unwrap forms: both outcomes; a non-zero offset is attached and does not enter the count -/
example :
    Ts.timestamp 3600 (-1) 999999999 = .ok ⟨⟨dateOfYo 1969 365, ⟨86399, 999999999⟩⟩, 3600⟩ ∧
    Ts.timestamp 3600 (TS_MAX + 1) 0 = .panic ∧ Ts.timestamp_opt 3600 (TS_MAX + 1) 0 = .ok none ∧
    Ts.timestamp_millis (-3600) (-1) = .ok ⟨⟨dateOfYo 1969 365, ⟨86399, 999000000⟩⟩, -3600⟩ ∧
    Ts.timestamp_millis 0 9223372036854775807 = .panic ∧
    Ts.timestamp_nanos_expect NaiveDT.MAX = .panic ∧
    Ts.timestamp_nanos_expect ⟨dateOfYo 1969 365, ⟨86399, 999999999⟩⟩ = .ok (-1) ∧
    Ts.naive_from_timestamp 0 2000000000 = .panic ∧
    Ts.naive_from_timestamp 59 1999999999 = .ok ⟨dateOfYo 1970 1, ⟨59, 1999999999⟩⟩ ∧
    Ts.ztimestamp ⟨⟨dateOfYo 1969 365, ⟨86399, 999999999⟩⟩, 86399⟩ = .ok (-1) ∧
    Ts.ztimestamp_subsec_millis ⟨⟨dateOfYo 2015 181, ⟨86399, 1500000000⟩⟩, -86399⟩ = 1500 := by
  decide +kernel

/-! ## second audit (audit2/C02.md), closed 2026-09-30 (round 2) -/

/-! ### one value per instant among the non-leap values -/

/-- "yields THE date-time": two valid non-leap values at the same nanosecond position are the same
value (`instant_unique` needs equal second counts and equal nanosecond fields; here both follow from
the one number `instNs`) -/
theorem nonleap_unique (a b : NaiveDT) (ha : NDTInv a) (hb : NDTInv b) (la : NonLeap a) (lb : NonLeap b)
    (h : instNs a = instNs b) : a = b := by
  obtain ⟨_, _, _, a3, _⟩ := id ha
  obtain ⟨_, _, _, b3, _⟩ := id hb
  unfold NonLeap at la lb
  unfold instNs at h
  exact instant_unique a b ha hb (by omega) (by omega)

/-- the sub-second constructors build THE value of the statement: every valid non-leap value lying
exactly `x` milliseconds / microseconds / nanoseconds from the epoch is what the constructor returns
for `x` (with `from_millis_floor` / `from_micros_floor` / `from_nanos_exact`: it returns nothing else) -/
theorem from_units_unique (x : Int) (hx : isI64 x) (dt : NaiveDT) (h : NDTInv dt) (hl : NonLeap dt) :
    (instNs dt = x * 1000000 → NaiveDT.from_timestamp_millis x = .ok (some dt)) ∧
    (instNs dt = x * 1000 → NaiveDT.from_timestamp_micros x = .ok (some dt)) ∧
    (instNs dt = x → NaiveDT.from_timestamp_nanos x = .ok dt) := by
  have hr := instSecs_range dt h
  obtain ⟨_, _, _, t3, _⟩ := id h
  have hl' := hl
  unfold NonLeap at hl'
  refine ⟨?_, ?_, ?_⟩
  · intro hi
    obtain ⟨r, e1, e2, e3⟩ := from_millis_floor x hx
    unfold instNs at hi
    cases r with
    | none => have := e2.1 rfl; omega
    | some d =>
      obtain ⟨i1, i2, i3⟩ := e3 d rfl
      rw [e1, nonleap_unique d dt i1 h i2 hl (by rw [i3]; unfold instNs; omega)]
  · intro hi
    obtain ⟨r, e1, e2, e3⟩ := from_micros_floor x hx
    unfold instNs at hi
    cases r with
    | none => have := e2.1 rfl; omega
    | some d =>
      obtain ⟨i1, i2, i3⟩ := e3 d rfl
      rw [e1, nonleap_unique d dt i1 h i2 hl (by rw [i3]; unfold instNs; omega)]
  · intro hi
    obtain ⟨d, e1, i1, i2, i3⟩ := from_nanos_total x hx
    rw [e1, nonleap_unique d dt i1 h i2 hl (by rw [i3, hi])]

/-! ### the system clock type: the exact boundary of the round trip, and the leap-second values -/

/-- `DateTime → SystemTime → DateTime<Utc>` on EVERY representable value: the first step never
panics and keeps the position `instNs`; the composition gives the value back EXACTLY for the
non-leap values (so the `NonLeap` hypothesis of `systemtime_roundtrip` is necessary; what happens
otherwise is `leap_st_back`) -/
theorem systemtime_roundtrip_iff (dt : NaiveDT) (h : NDTInv dt) :
    ∃ p, Ts.to_system_time dt = .ok p ∧ stValid p ∧ stNs p = instNs dt ∧
      (Ts.from_system_time p.1 p.2 = .ok dt ↔ NonLeap dt) := by
  obtain ⟨p, e1, v, e2⟩ := to_system_time_exact dt h
  refine ⟨p, e1, v, e2, ?_, ?_⟩
  · intro hb
    obtain ⟨f1, f2⟩ := from_system_time_exact p.1 p.2 v.1 v.2
    by_cases hr : TS_MIN ≤ p.1 ∧ p.1 ≤ TS_MAX
    · obtain ⟨dt', g1, _, g3, _⟩ := f1 hr
      rw [g1] at hb
      injection hb with hb
      rw [← hb]; exact g3
    · rw [f2 (by omega)] at hb
      cases hb
  · intro hl
    obtain ⟨p', g1, g2⟩ := systemtime_roundtrip.1 dt h hl
    rw [e1] at g1
    injection g1 with g1
    rw [g1]; exact g2

/-- a leap-second representation (on ANY second; `frac ≥ 10⁹`) through the system clock type: it
converts — without a panic — to the system time `frac − 10⁹` ns into the FOLLOWING second (a system time
cannot carry a leap second; DESIGN §9 observation c).  Converting back: whenever that following second is
representable (`instSecs dt < TS_MAX`) the result is the valid NON-leap value at the same position
`instNs`, on the following second with nanosecond field `frac − 10⁹`; for a leap-second value on the
last representable second `TS_MAX` (+262142-12-31T23:59:60.x) the following second `TS_MAX + 1` is
outside the representable range and `From<SystemTime> for DateTime<Utc>` panics — the same panic
`from_system_time_exact` states for every system time outside the range (the instant is not
representable as a timestamp-built value; this is the statement's "fails exactly when the instant is
outside the representable range", the conversion being infallible by signature) -/
theorem leap_st_back (dt : NaiveDT) (h : NDTInv dt) (hl : ¬ NonLeap dt) :
    ∃ p, Ts.to_system_time dt = .ok p ∧ p.1 = instSecs dt + 1 ∧ p.2 = dt.time.frac - 1000000000 ∧
      stNs p = instNs dt ∧
      (instSecs dt < TS_MAX →
        ∃ dt', Ts.from_system_time p.1 p.2 = .ok dt' ∧ NDTInv dt' ∧ NonLeap dt' ∧ instNs dt' = instNs dt ∧
          instSecs dt' = instSecs dt + 1 ∧ dt'.time.frac = dt.time.frac - 1000000000 ∧ dt' ≠ dt) ∧
      (instSecs dt = TS_MAX → Ts.from_system_time p.1 p.2 = .panic) := by
  have hr := instSecs_range dt h
  have hr' := hr
  rw [ts_min_val, ts_max_val] at hr'
  obtain ⟨_, _, _, t3, t4⟩ := id h
  unfold NonLeap at hl
  have e1 : dt.time.frac / 1000000000 = 1 := by omega
  have e2 : dt.time.frac % 1000000000 = dt.time.frac - 1000000000 := by omega
  have hS : isI64 (instSecs dt + 1) := by unfold isI64; omega
  have hN : 0 ≤ dt.time.frac - 1000000000 ∧ dt.time.frac - 1000000000 < 1000000000 := by omega
  obtain ⟨f1, f2⟩ := from_system_time_exact (instSecs dt + 1) (dt.time.frac - 1000000000) hS hN
  refine ⟨(instSecs dt + 1, dt.time.frac - 1000000000), by rw [to_system_time_spec dt h, e1, e2], rfl, rfl,
    by unfold stNs instNs; dsimp only; omega, ?_, ?_⟩
  · intro hlt
    obtain ⟨dt', g1, g2, g3, g4⟩ := f1 (by omega)
    obtain ⟨_, _, _, u3, _⟩ := id g2
    have g3' := g3
    unfold NonLeap at g3'
    have g4' := g4
    unfold stNs instNs at g4'
    dsimp only at g4'
    refine ⟨dt', g1, g2, g3, by rw [g4]; unfold stNs instNs; dsimp only; omega, by omega, by omega, ?_⟩
    intro hx
    rw [hx] at g3'
    omega
  · intro heq
    exact f2 (Or.inr (by omega))

/-- kernel-evaluated: the one class of values on which `DateTime → SystemTime → DateTime<Utc>` panics
(+262142-12-31T23:59:60.5 → system time (8210266876800, 500000000), one second past the range); a
leap second on 2015-06-30T23:59:60.5 comes back as 2015-07-01T00:00:00.5; a leap-second representation
on a second :42 (only `with_nanosecond` builds one) likewise lands in the following second -/
theorem leap_st_back_witness :
    NDTInv ⟨Date.MAX, ⟨86399, 1500000000⟩⟩ ∧ ¬ NonLeap ⟨Date.MAX, ⟨86399, 1500000000⟩⟩ ∧
    instSecs ⟨Date.MAX, ⟨86399, 1500000000⟩⟩ = TS_MAX ∧
    Ts.to_system_time ⟨Date.MAX, ⟨86399, 1500000000⟩⟩ = .ok (8210266876800, 500000000) ∧
    Ts.from_system_time 8210266876800 500000000 = .panic ∧
    Ts.from_system_time_local 3600 8210266876800 500000000 = .panic ∧
    Ts.to_system_time ⟨dateOfYo 2015 181, ⟨86399, 1500000000⟩⟩ = .ok (1435708800, 500000000) ∧
    Ts.from_system_time 1435708800 500000000 = .ok ⟨dateOfYo 2015 182, ⟨0, 500000000⟩⟩ ∧
    Ts.to_system_time ⟨dateOfYo 2015 181, ⟨86382, 1999999999⟩⟩ = .ok (1435708783, 999999999) ∧
    Ts.from_system_time 1435708783 999999999 = .ok ⟨dateOfYo 2015 181, ⟨86383, 999999999⟩⟩ := by
  decide +kernel

/-! ### `From<SystemTime> for DateTime<Local>` -/

/-- `impl From<SystemTime> for DateTime<Local>` (`DateTime::<Utc>::from(t).with_timezone(&Local)`), for
every system time with `i64` seconds and whatever offset `off` the zone prescribes: it panics exactly
when the instant is outside the representable range (conj. 2; conj. 1 — "exactly when the `Utc`
conversion panics" — and conj. 3 — "the UTC reading is the `Utc` conversion's value, the offset is the
zone's" — restate how the model composes the two calls and are tied to the code by op
`ts.from_st_local` and the oracle only); inside the range the result is a value with that offset whose
UTC reading is the valid non-leap value at the system time's instant, and converting it back to a
system time gives the same system time -/
theorem from_system_time_local_exact (off S N : Int) (hS : isI64 S) (hN : 0 ≤ N ∧ N < 1000000000) :
    (Ts.from_system_time_local off S N = .panic ↔ Ts.from_system_time S N = .panic) ∧
    (Ts.from_system_time_local off S N = .panic ↔ (S < TS_MIN ∨ S > TS_MAX)) ∧
    (∀ z, Ts.from_system_time_local off S N = .ok z ↔ (z.off = off ∧ Ts.from_system_time S N = .ok z.utc)) ∧
    (TS_MIN ≤ S ∧ S ≤ TS_MAX →
      ∃ z, Ts.from_system_time_local off S N = .ok z ∧ z.off = off ∧ NDTInv z.utc ∧ NonLeap z.utc ∧
        zonedInstNs z = stNs (S, N) ∧ Ts.to_system_time z.utc = .ok (S, N)) := by
  obtain ⟨f1, f2⟩ := from_system_time_exact S N hS hN
  have hcomp : ∀ r : Res NaiveDT,
      ((r.bind fun dt => Res.ok (Zoned.with_timezone (Ts.and_utc dt) off)) = .panic ↔ r = .panic) ∧
      (∀ z : Zoned, (r.bind fun dt => Res.ok (Zoned.with_timezone (Ts.and_utc dt) off)) = .ok z ↔
        (z.off = off ∧ r = .ok z.utc)) := by
    intro r
    cases r with
    | panic =>
      refine ⟨⟨fun _ => rfl, fun _ => rfl⟩, fun z => ⟨fun hx => (by cases hx), fun hx => (by cases hx.2)⟩⟩
    | ok d =>
      refine ⟨⟨fun hx => (by cases hx), fun hx => (by cases hx)⟩, fun z => ⟨?_, ?_⟩⟩
      · intro hx
        injection hx with hx
        subst hx
        exact ⟨rfl, rfl⟩
      · rintro ⟨h1, h2⟩
        injection h2 with h2
        cases z with
        | mk u o =>
          dsimp only at h1 h2
          subst h1; subst h2; rfl
  obtain ⟨c1, c2⟩ := hcomp (Ts.from_system_time S N)
  refine ⟨c1, ?_, c2, ?_⟩
  · unfold Ts.from_system_time_local
    rw [c1]
    constructor
    · intro hp
      by_cases hr : TS_MIN ≤ S ∧ S ≤ TS_MAX
      · obtain ⟨dt, g1, _⟩ := f1 hr
        rw [g1] at hp; cases hp
      · omega
    · exact f2
  · intro hr
    obtain ⟨dt, g1, g2, g3, g4⟩ := f1 hr
    obtain ⟨dt2, k1, k2⟩ := systemtime_roundtrip.2 S N hS hN hr
    rw [g1] at k1
    injection k1 with k1
    subst k1
    exact ⟨⟨dt, off⟩, (c2 ⟨dt, off⟩).2 ⟨rfl, g1⟩, rfl, g2, g3, g4, k2⟩

/-- non-vacuity: half a second before the epoch through a zone at +13:00 (the `Err` branch of
`duration_since`, the borrow), the last representable nanosecond, and both panics -/
example :
    Ts.from_system_time_local 46800 (-1) 500000000 = .ok ⟨⟨dateOfYo 1969 365, ⟨86399, 500000000⟩⟩, 46800⟩ ∧
    Ts.from_system_time_local (-37800) TS_MAX 999999999 = .ok ⟨NaiveDT.MAX, -37800⟩ ∧
    Ts.from_system_time_local 0 (TS_MAX + 1) 0 = .panic ∧
    Ts.from_system_time_local 3600 (TS_MIN - 1) 999999999 = .panic ∧
    Ts.from_system_time_local 3600 TS_MIN 0 = .ok ⟨NaiveDT.MIN, 3600⟩ ∧
    isI64 (TS_MAX + 1) ∧ isI64 (-1) := by
  decide +kernel

/-- non-vacuity of `from_units_unique` / `nonleap_unique`: −1 ms, −1 µs, −1 ns -/
example :
    NDTInv ⟨dateOfYo 1969 365, ⟨86399, 999000000⟩⟩ ∧ NonLeap ⟨dateOfYo 1969 365, ⟨86399, 999000000⟩⟩ ∧
    instNs ⟨dateOfYo 1969 365, ⟨86399, 999000000⟩⟩ = (-1) * 1000000 ∧
    instNs ⟨dateOfYo 1969 365, ⟨86399, 999999000⟩⟩ = (-1) * 1000 ∧
    instNs ⟨dateOfYo 1969 365, ⟨86399, 999999999⟩⟩ = -1 := by
  decide +kernel

/-! ## generated code = specification (end-to-end compositions with Props/GenDate.lean, Props/GenTime.lean)

`Gen.*` are the definitions tools/extractors/rust2lean.py regenerates from the Rust source on every run.
None of the 14 top-level timestamp bodies is translated yet (audit2/C02.md gap 1); their callees are.  The
two theorems below therefore speak about the TRANSLATED callees and accessors and leave exactly the glue of
`from_timestamp` (the Euclidean split, `+ 719163`, the `i32` test) to the hand model. -/

/-- the TRANSLATED date and time constructors, applied to the Euclidean split of any `i64` count whose
day number fits `i32` (otherwise `from_timestamp` returns `None` before calling them): no panic; one of
them yields `None` exactly when the instant is not representable / the nanosecond field invalid; and
when both yield a value, the pair is (the packed word and the two fields of) the valid value exactly
`secs` seconds from the epoch with nanosecond field `nsecs` — the specification's `IsAt` -/
theorem gen_from_ts_callees (secs nsecs : Int) (hs : isI64 secs) (hn : isU32 nsecs)
    (hd : -2147483648 ≤ secs / 86400 + 719163 ∧ secs / 86400 + 719163 ≤ 2147483647) :
    ∃ od, Gen.naive_date.NaiveDate.from_num_days_from_ce_opt (secs / 86400 + 719163) = .ok od ∧
      ((od = none ∨ Gen.naive_time.NaiveTime.from_num_seconds_from_midnight_opt (secs % 86400) nsecs = none)
        ↔ ¬ tsOk secs nsecs) ∧
      ∀ y t, od = some y →
        Gen.naive_time.NaiveTime.from_num_seconds_from_midnight_opt (secs % 86400) nsecs = some t →
        ∃ dt : NaiveDT, y = dt.date.yof ∧ t = Chrono.Proofs.GenTimeL.tG dt.time ∧ IsAt dt secs nsecs := by
  obtain ⟨r, e1, e2, e3⟩ := from_timestamp_spec secs nsecs hs hn.1
  have hE : UNIX_EPOCH_DAY = 719163 := rfl
  have hmin : I32_MIN = -2147483648 := rfl
  have hmax : I32_MAX = 2147483647 := rfl
  rw [GenDate.gen_from_num_days_from_ce_opt_eq _ hd, GenTime.gen_from_num_seconds_from_midnight_opt_eq]
  unfold NaiveDT.from_timestamp at e1
  rw [hE, ckI64_ok (by omega) (by omega)] at e1
  simp only [Res.bind] at e1
  rw [if_neg (by omega)] at e1
  cases hdate : Date.from_num_days_from_ce_opt (secs / 86400 + 719163) with
  | panic => rw [hdate] at e1; cases e1
  | ok od =>
    rw [hdate] at e1
    simp only [] at e1
    refine ⟨od.map Date.yof, rfl, ?_, ?_⟩
    · rw [← e2]
      cases od with
      | none =>
        cases ht : Time.from_num_seconds_from_midnight_opt (secs % 86400) nsecs <;>
          (rw [ht] at e1; injection e1 with e1; simp [← e1])
      | some d =>
        cases ht : Time.from_num_seconds_from_midnight_opt (secs % 86400) nsecs with
        | none => rw [ht] at e1; injection e1 with e1; simp [← e1]
        | some t => rw [ht] at e1; injection e1 with e1; simp [← e1]
    · intro y t hy ht
      cases od with
      | none => cases hy
      | some d =>
        cases htt : Time.from_num_seconds_from_midnight_opt (secs % 86400) nsecs with
        | none => rw [htt] at ht; cases ht
        | some t' =>
          rw [htt] at ht e1
          injection e1 with e1
          injection hy with hy
          injection ht with ht
          exact ⟨⟨d, t'⟩, hy.symm, ht.symm, e3 _ e1.symm⟩

/-- the TRANSLATED accessors (`NaiveDate::year/month/day`, `NaiveTime::hour/minute/second/nanosecond`)
read on the value `from_timestamp` builds: `month`/`day` do not panic and, with `year`, form a valid
calendar date whose closed-form day number is the floor day `719163 + secs / 86400`; the clock fields
are those of the second of day `secs % 86400`; the nanosecond field is `nsecs` (this is `from_ts_fields`
with the model's accessors replaced by the generated code) -/
theorem gen_from_ts_fields (secs nsecs : Int) (hs : isI64 secs) (hn : isU32 nsecs) (dt : NaiveDT)
    (h : NaiveDT.from_timestamp secs nsecs = .ok (some dt)) :
    ∃ m d : Nat, Gen.naive_date.NaiveDate.month dt.date.yof = .ok (m : Int) ∧
      Gen.naive_date.NaiveDate.day dt.date.yof = .ok (d : Int) ∧
      validYmd (Gen.naive_date.NaiveDate.year dt.date.yof) m d = true ∧
      dayNum (Gen.naive_date.NaiveDate.year dt.date.yof) m d = 719163 + secs / 86400 ∧
      Gen.naive_time.NaiveTime.Timelike.hour (Chrono.Proofs.GenTimeL.tG dt.time) = secs % 86400 / 3600 ∧
      Gen.naive_time.NaiveTime.Timelike.minute (Chrono.Proofs.GenTimeL.tG dt.time) = secs % 3600 / 60 ∧
      Gen.naive_time.NaiveTime.Timelike.second (Chrono.Proofs.GenTimeL.tG dt.time) = secs % 60 ∧
      Gen.naive_time.NaiveTime.Timelike.nanosecond (Chrono.Proofs.GenTimeL.tG dt.time) = nsecs := by
  obtain ⟨m, d, c1, c2, c3, c4, k1, k2, k3, k4⟩ := from_ts_fields secs nsecs hs hn dt h
  refine ⟨m, d, ?_, ?_, ?_, ?_, ?_, ?_, ?_, ?_⟩
  · rw [GenDate.gen_month_eq, c1]; rfl
  · rw [GenDate.gen_day_eq, c2]; rfl
  · rw [GenDate.gen_year_eq]; exact c3
  · rw [GenDate.gen_year_eq]; exact c4
  · rw [GenTime.gen_hour_eq]; exact k1
  · rw [GenTime.gen_minute_eq]; exact k2
  · rw [GenTime.gen_second_eq]; exact k3
  · rw [(GenTime.gen_nanosecond_eq dt.time).1]; exact k4

/-- non-vacuity: the generated callees on the split of −1 s with 999999999 ns, of the leap second
1435708799 + 1.5·10⁹ ns, of the last second, and a refusal (leap field on :58) -/
example :
    Gen.naive_date.NaiveDate.from_num_days_from_ce_opt ((-1) / 86400 + 719163) = .ok (some (dateOfYo 1969 365).yof) ∧
    Gen.naive_time.NaiveTime.from_num_seconds_from_midnight_opt ((-1) % 86400) 999999999 = some ⟨86399, 999999999⟩ ∧
    Gen.naive_time.NaiveTime.from_num_seconds_from_midnight_opt (1435708799 % 86400) 1500000000 = some ⟨86399, 1500000000⟩ ∧
    Gen.naive_time.NaiveTime.from_num_seconds_from_midnight_opt (1435708798 % 86400) 1000000000 = none ∧
    Gen.naive_date.NaiveDate.from_num_days_from_ce_opt (TS_MAX / 86400 + 719163) = .ok (some Date.MAX.yof) ∧
    Gen.naive_date.NaiveDate.from_num_days_from_ce_opt ((TS_MAX + 1) / 86400 + 719163) = .ok none := by
  decide +kernel

end Chrono.Props.C02
