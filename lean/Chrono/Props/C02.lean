/-
  C02 — Unix timestamps and UTC date-times correspond one-to-one.
  Property statements only (helper lemmas: Proofs/TimestampL.lean, on top of Proofs/DateL.lean).

  Model: `NaiveDT.{from_timestamp, from_timestamp_millis/_micros/_nanos, timestamp, timestamp_millis/_micros,
  timestamp_nanos_opt, timestamp_subsec_*}` (Model/DateTime.lean) and the wrappers / `SystemTime` conversions of
  Model/Timestamp.lean; every machine step that could overflow goes through `ckI64/ckI32/ckU32/ckU64`, so
  "`= .ok …`" includes "no intermediate overflow, no panic".
  Specification (Spec/InstantSpec.lean, Spec/TimestampSpec.lean; nothing of chrono's code in it):
    `instSecs dt = (dayNum(date) − 719163)·86400 + seconds of day`, `instNs dt = instSecs dt·10⁹ + frac`
  with `dayNum` the closed-form proleptic-Gregorian day number of Spec/Calendar.lean;
  `NDTInv` = representation invariant (date of the supported range, time of day < 86400 s, frac < 2·10⁹),
  `TStrict` = leap-second representation (frac ≥ 10⁹) only on a second 59, `NonLeap` = frac < 10⁹;
  `TS_MIN/TS_MAX` = first/last representable second; `/` and `%` on `Int` are floor division and its
  non-negative remainder.
-/
import Chrono.Proofs.TimestampL
import Chrono.Extracted.TsLits

namespace Chrono.Props.C02
open Chrono Chrono.M Chrono.Spec Chrono.Spec.Ts Chrono.Proofs Chrono.Proofs.Ts Chrono.Extracted

/-! ## data tie -/

/-- the integer literals of the timestamp functions and the epoch day, as re-extracted from the Rust
source on this run, are the ones the model was written against -/
theorem literals_ok :
    UNIX_EPOCH_DAY = 719163 ∧
    TS_LITS_timestamp = [86400] ∧ TS_LITS_timestamp_millis = [1000] ∧ TS_LITS_timestamp_micros = [1000000] ∧
    TS_LITS_timestamp_nanos_opt = [1000000000] ∧
    TS_LITS_timestamp_subsec_millis = [1000000] ∧ TS_LITS_timestamp_subsec_micros = [1000] ∧
    TS_LITS_from_timestamp = [86400, 86400] ∧ TS_LITS_from_timestamp_millis = [1000, 1000, 1000000] ∧
    TS_LITS_from_timestamp_micros = [1000000, 1000000, 1000] ∧
    TS_LITS_from_timestamp_nanos = [1000000000, 1000000000] ∧
    TS_LITS_from_system_time = [0, 0, 1, 1000000000] ∧ TS_LITS_to_system_time = [0, 0, 0] ∧
    TS_LITS_naive_from_timestamp_micros = [1000000, 1000000, 1000] ∧
    TS_LITS_naive_from_timestamp_nanos = [1000000000, 1000000000] := by decide

/-- the epoch and the range: chrono's `UNIX_EPOCH_DAY` is the specification's day number of
1970-01-01; `NaiveDateTime::MIN/MAX` are valid and sit on the first/last representable second -/
theorem epoch_and_range :
    UNIX_EPOCH_DAY = EPOCH_DAY ∧ dayNum 1970 1 1 = EPOCH_DAY ∧
    instNs ⟨dateOfYo 1970 1, Time.MIN⟩ = 0 ∧
    TS_MIN = -8334601228800 ∧ TS_MAX = 8210266876799 ∧
    NDTInv NaiveDT.MIN ∧ NDTInv NaiveDT.MAX ∧ instSecs NaiveDT.MIN = TS_MIN ∧ instSecs NaiveDT.MAX = TS_MAX ∧
    NaiveDT.MAX.time.frac = 999999999 := by decide

/-! ## seconds: construction -/

/-- `from_timestamp`, every `i64` count and every `u32` nanosecond field: never panics; when it
yields a value, that value is valid, its calendar and clock fields lie exactly `secs` seconds from the
epoch, and its nanosecond field is `nsecs` (a leap-second representation only on a second 59) -/
theorem from_ts_meaning (secs nsecs : Int) (hs : isI64 secs) (hn : isU32 nsecs) :
    ∃ r, NaiveDT.from_timestamp secs nsecs = .ok r ∧
      ∀ dt, r = some dt →
        NDTInv dt ∧ TStrict dt.time ∧ instSecs dt = secs ∧ dt.time.frac = nsecs := by
  obtain ⟨r, h1, _, h3⟩ := from_timestamp_spec secs nsecs hs hn.1
  exact ⟨r, h1, h3⟩

/-- construction fails exactly when the instant is outside the representable range or the nanosecond
field is invalid (≥ 2·10⁹, or ≥ 10⁹ on a second other than 59) -/
theorem from_ts_fails_iff (secs nsecs : Int) (hs : isI64 secs) (hn : isU32 nsecs) :
    NaiveDT.from_timestamp secs nsecs = .ok none ↔
      (secs < TS_MIN ∨ secs > TS_MAX ∨ nsecs ≥ 2000000000 ∨ (nsecs ≥ 1000000000 ∧ secs % 60 ≠ 59)) := by
  obtain ⟨r, h1, h2, _⟩ := from_timestamp_spec secs nsecs hs hn.1
  rw [h1]
  have : (Res.ok r = Res.ok (none : Option NaiveDT)) ↔ r = none := by
    constructor
    · intro h; injection h
    · intro h; rw [h]
  rw [this, h2]
  unfold tsOk nanosOk
  constructor <;> intro h <;> omega

/-- one value per instant: valid values with the same second count and the same nanosecond field are
the same value (so the value described by `from_ts_meaning` is unique) -/
theorem instant_unique (a b : NaiveDT) (ha : NDTInv a) (hb : NDTInv b)
    (h : instSecs a = instSecs b) (hf : a.time.frac = b.time.frac) : a = b := inst_inj a b ha hb h hf

/-! ## seconds: reading -/

/-- the accessors of every valid value (leap-second representations included): `timestamp` is the
second count, the sub-second accessors are the nanosecond field truncated to the unit, and
`timestamp_millis/_micros` are the floor of the exact nanosecond position in that unit — all without
intermediate overflow -/
theorem timestamp_meaning (dt : NaiveDT) (h : NDTInv dt) :
    NaiveDT.timestamp dt = .ok (instSecs dt) ∧
    NaiveDT.timestamp_subsec_nanos dt = dt.time.frac ∧
    NaiveDT.timestamp_subsec_micros dt = dt.time.frac / 1000 ∧
    NaiveDT.timestamp_subsec_millis dt = dt.time.frac / 1000000 ∧
    NaiveDT.timestamp_millis dt = .ok (instNs dt / 1000000) ∧
    NaiveDT.timestamp_micros dt = .ok (instNs dt / 1000) ∧
    TS_MIN ≤ instSecs dt ∧ instSecs dt ≤ TS_MAX :=
  ⟨timestamp_spec dt h, rfl, rfl, rfl, timestamp_millis_spec dt h, timestamp_micros_spec dt h,
    instSecs_range dt h⟩

/-- round trip, seconds, direction count → value → count: whatever `from_timestamp` builds reads back
as the same `(secs, nsecs)` -/
theorem ts_roundtrip_from (secs nsecs : Int) (hs : isI64 secs) (hn : isU32 nsecs) (dt : NaiveDT)
    (h : NaiveDT.from_timestamp secs nsecs = .ok (some dt)) :
    NaiveDT.timestamp dt = .ok secs ∧ NaiveDT.timestamp_subsec_nanos dt = nsecs := by
  obtain ⟨r, h1, _, h3⟩ := from_timestamp_spec secs nsecs hs hn.1
  rw [h1] at h
  injection h with h
  obtain ⟨i1, _, i3, i4⟩ := h3 dt h
  exact ⟨by rw [timestamp_spec dt i1, i3], i4⟩

/-- round trip, seconds, direction value → count → value: every valid value as the constructors build
it (leap-second representation at most on a second 59) is rebuilt from its own `timestamp()` and
`timestamp_subsec_nanos()` -/
theorem ts_roundtrip_to (dt : NaiveDT) (h : NDTInv dt) (hs : TStrict dt.time) :
    ∃ s, NaiveDT.timestamp dt = .ok s ∧ isI64 s ∧ isU32 (NaiveDT.timestamp_subsec_nanos dt) ∧
      NaiveDT.from_timestamp s (NaiveDT.timestamp_subsec_nanos dt) = .ok (some dt) := by
  have hr := instSecs_range dt h
  rw [ts_min_val, ts_max_val] at hr
  obtain ⟨_, _, _, t3, t4⟩ := id h
  refine ⟨instSecs dt, timestamp_spec dt h, by unfold isI64; omega, ?_, from_timestamp_of_inv dt h hs⟩
  unfold isU32 NaiveDT.timestamp_subsec_nanos Time.nanosecond; omega

/-! ## milliseconds, microseconds, nanoseconds: floor semantics -/

/-- `from_timestamp_millis`, every `i64`: never panics; fails exactly when the floor second
`ms / 1000` is outside the range; otherwise the value is non-leap and lies exactly `ms` milliseconds
from the epoch (so a negative fractional count rounds toward −∞, not toward zero) -/
theorem from_millis_floor (ms : Int) (h : isI64 ms) :
    ∃ r, NaiveDT.from_timestamp_millis ms = .ok r ∧
      (r = none ↔ (ms / 1000 < TS_MIN ∨ ms / 1000 > TS_MAX)) ∧
      (∀ dt, r = some dt → NDTInv dt ∧ NonLeap dt ∧ instNs dt = ms * 1000000) := by
  unfold isI64 at h
  obtain ⟨r, e1, e2, e3⟩ := from_sub_spec (ms / 1000) (ms % 1000 * 1000000) (by unfold isI64; omega)
    (by omega) (by omega)
  refine ⟨r, by rw [from_millis_eq, e1], e2, ?_⟩
  intro dt hdt
  obtain ⟨i1, i2, i3⟩ := e3 dt hdt
  exact ⟨i1, i2, by rw [i3]; omega⟩

/-- `from_timestamp_micros`, every `i64` -/
theorem from_micros_floor (us : Int) (h : isI64 us) :
    ∃ r, NaiveDT.from_timestamp_micros us = .ok r ∧
      (r = none ↔ (us / 1000000 < TS_MIN ∨ us / 1000000 > TS_MAX)) ∧
      (∀ dt, r = some dt → NDTInv dt ∧ NonLeap dt ∧ instNs dt = us * 1000) := by
  unfold isI64 at h
  obtain ⟨r, e1, e2, e3⟩ := from_sub_spec (us / 1000000) (us % 1000000 * 1000) (by unfold isI64; omega)
    (by omega) (by omega)
  refine ⟨r, by rw [from_micros_eq, e1], e2, ?_⟩
  intro dt hdt
  obtain ⟨i1, i2, i3⟩ := e3 dt hdt
  exact ⟨i1, i2, by rw [i3]; omega⟩

/-- `from_timestamp_nanos`, every `i64`: total (its `expect` never fires: the whole `i64` nanosecond
window lies inside the range) and exact -/
theorem from_nanos_exact (ns : Int) (h : isI64 ns) :
    ∃ dt, NaiveDT.from_timestamp_nanos ns = .ok dt ∧ NDTInv dt ∧ NonLeap dt ∧ instNs dt = ns :=
  from_nanos_total ns h

/-- round trip in the three sub-second units, direction count → value → count -/
theorem ts_roundtrip_units_from (x : Int) (h : isI64 x) :
    (∀ dt, NaiveDT.from_timestamp_millis x = .ok (some dt) → NaiveDT.timestamp_millis dt = .ok x) ∧
    (∀ dt, NaiveDT.from_timestamp_micros x = .ok (some dt) → NaiveDT.timestamp_micros dt = .ok x) ∧
    (∀ dt, NaiveDT.from_timestamp_nanos x = .ok dt → NaiveDT.timestamp_nanos_opt dt = .ok (some x)) := by
  refine ⟨?_, ?_, ?_⟩
  · intro dt hdt
    obtain ⟨r, e1, _, e3⟩ := from_millis_floor x h
    rw [e1] at hdt; injection hdt with hdt
    obtain ⟨i1, _, i3⟩ := e3 dt hdt
    rw [timestamp_millis_spec dt i1, i3]; congr 1; omega
  · intro dt hdt
    obtain ⟨r, e1, _, e3⟩ := from_micros_floor x h
    rw [e1] at hdt; injection hdt with hdt
    obtain ⟨i1, _, i3⟩ := e3 dt hdt
    rw [timestamp_micros_spec dt i1, i3]; congr 1; omega
  · intro dt hdt
    obtain ⟨dt', e1, i1, i2, i3⟩ := from_nanos_total x h
    rw [e1] at hdt; injection hdt with hdt
    subst hdt
    rw [nanos_opt_spec dt' i1 ⟨i1.2, Or.inl i2⟩, i3]
    unfold isI64 at h
    rw [if_pos h]

/-- round trip in the three sub-second units, direction value → count → value, every valid non-leap
value: the count read in a unit rebuilds the value truncated to that unit (the value itself for
nanoseconds, whenever the nanosecond count exists) -/
theorem ts_roundtrip_units_to (dt : NaiveDT) (h : NDTInv dt) (hl : NonLeap dt) :
    (∃ m, NaiveDT.timestamp_millis dt = .ok m ∧ isI64 m ∧
      NaiveDT.from_timestamp_millis m = .ok (some (truncFrac dt 1000000))) ∧
    (∃ u, NaiveDT.timestamp_micros dt = .ok u ∧ isI64 u ∧
      NaiveDT.from_timestamp_micros u = .ok (some (truncFrac dt 1000))) ∧
    (∀ n, NaiveDT.timestamp_nanos_opt dt = .ok (some n) → isI64 n ∧ NaiveDT.from_timestamp_nanos n = .ok dt) := by
  have hr := instSecs_range dt h
  rw [ts_min_val, ts_max_val] at hr
  obtain ⟨_, _, _, t3, t4⟩ := id h
  refine ⟨⟨_, timestamp_millis_spec dt h, ?_, millis_back dt h hl⟩,
    ⟨_, timestamp_micros_spec dt h, ?_, micros_back dt h hl⟩, ?_⟩
  · unfold isI64 instNs; omega
  · unfold isI64 instNs; omega
  · intro n hn
    rw [nanos_opt_spec dt h ⟨h.2, Or.inl hl⟩] at hn
    injection hn with hn
    split at hn
    · injection hn with hn
      subst hn
      exact ⟨by unfold isI64; assumption, nanos_back dt h hl⟩
    · cases hn

/-! ## the 64-bit nanosecond window -/

/-- `timestamp_nanos_opt` on every valid value as the constructors build it: the exact nanosecond
count when that count fits in `i64`, absence otherwise; no intermediate step overflows (this is what
the negative-timestamp workaround is for: `ts·10⁹` alone would leave `i64` for counts just above
`i64::MIN`) -/
theorem nanos_opt_exact (dt : NaiveDT) (h : NDTInv dt) (hs : TStrict dt.time) :
    NaiveDT.timestamp_nanos_opt dt =
      .ok (if -9223372036854775808 ≤ instNs dt ∧ instNs dt ≤ 9223372036854775807
           then some (instNs dt) else none) := nanos_opt_spec dt h hs

/-- absence exactly when the count does not fit in 64 bits -/
theorem nanos_opt_none_iff (dt : NaiveDT) (h : NDTInv dt) (hs : TStrict dt.time) :
    NaiveDT.timestamp_nanos_opt dt = .ok none ↔
      (instNs dt < -9223372036854775808 ∨ instNs dt > 9223372036854775807) := by
  rw [nanos_opt_spec dt h hs]
  constructor
  · intro hx
    injection hx with hx
    split at hx
    · cases hx
    · omega
  · intro hx
    rw [if_neg (by omega)]

/-- Regression witness of finding F27 (repaired by 32de816): a leap-second *representation* on a second
other than 59 — which only `with_nanosecond` can build — on the second -9223372038 has a count that
fits `i64`; the former negative-timestamp workaround `(ts+1)·10⁹` left `i64` there and `None` was
returned.  The count is now formed in 128 bits and the value is reported. -/
theorem nanos_opt_nonstrict_leap_witness :
    let dt : NaiveDT := ⟨⟨13742219⟩, ⟨762, 1500000000⟩⟩
    NDTInv dt ∧ ¬ TStrict dt.time ∧ isI64 (instNs dt) ∧ NaiveDT.timestamp_nanos_opt dt = .ok (some (instNs dt)) := by
  decide +kernel

/-! ## the system clock type -/

/-- `From<DateTime<Tz>> for SystemTime`, every valid value: no panic, and the result `(S, N)` is a
well-formed system time denoting the same instant (for a leap-second representation: `frac`
nanoseconds after the start of its second, i.e. inside the following second) -/
theorem to_system_time_exact (dt : NaiveDT) (h : NDTInv dt) :
    ∃ p, Ts.to_system_time dt = .ok p ∧ stValid p ∧ stNs p = instNs dt := by
  have hr := instSecs_range dt h
  rw [ts_min_val, ts_max_val] at hr
  obtain ⟨_, _, _, t3, t4⟩ := id h
  refine ⟨_, to_system_time_spec dt h, ?_, ?_⟩
  · unfold stValid isI64; dsimp only; omega
  · unfold stNs instNs; dsimp only; omega

/-- `From<SystemTime> for DateTime<Utc>`, every system time with `i64` seconds: inside the range the
result is the valid non-leap value at that instant; outside it the conversion panics (`unwrap`) -/
theorem from_system_time_exact (S N : Int) (hS : isI64 S) (hN : 0 ≤ N ∧ N < 1000000000) :
    (TS_MIN ≤ S ∧ S ≤ TS_MAX →
      ∃ dt, Ts.from_system_time S N = .ok dt ∧ NDTInv dt ∧ NonLeap dt ∧ instNs dt = stNs (S, N)) ∧
    (S < TS_MIN ∨ S > TS_MAX → Ts.from_system_time S N = .panic) := by
  rw [from_system_time_eq S N hS hN]
  obtain ⟨r, e1, e2, e3⟩ := from_sub_spec S N hS hN.1 hN.2
  rw [e1]
  constructor
  · intro hr
    cases r with
    | none => have := e2.1 rfl; omega
    | some dt => exact ⟨dt, rfl, e3 dt rfl⟩
  · intro hr
    rw [e2.2 hr]; rfl

/-- conversion to and from the system clock type preserves the instant, both directions -/
theorem systemtime_roundtrip :
    (∀ dt, NDTInv dt → NonLeap dt →
      ∃ p, Ts.to_system_time dt = .ok p ∧ Ts.from_system_time p.1 p.2 = .ok dt) ∧
    (∀ S N, isI64 S → 0 ≤ N ∧ N < 1000000000 → TS_MIN ≤ S ∧ S ≤ TS_MAX →
      ∃ dt, Ts.from_system_time S N = .ok dt ∧ Ts.to_system_time dt = .ok (S, N)) := by
  constructor
  · intro dt h hl
    have hr := instSecs_range dt h
    rw [ts_min_val, ts_max_val] at hr
    obtain ⟨_, _, _, t3, _⟩ := id h
    unfold NonLeap at hl
    refine ⟨_, to_system_time_spec dt h, ?_⟩
    dsimp only
    have e1 : instSecs dt + dt.time.frac / 1000000000 = instSecs dt := by omega
    have e2 : dt.time.frac % 1000000000 = dt.time.frac := by omega
    rw [e1, e2, from_system_time_eq _ _ (by unfold isI64; omega) (by omega),
      from_timestamp_of_inv dt h ⟨h.2, Or.inl hl⟩]
    rfl
  · intro S N hS hN hr
    obtain ⟨dt, e1, i1, i2, i3⟩ := (from_system_time_exact S N hS hN).1 hr
    refine ⟨dt, e1, ?_⟩
    rw [to_system_time_spec dt i1]
    obtain ⟨_, _, _, t3, _⟩ := id i1
    unfold NonLeap at i2
    unfold instNs stNs at i3
    dsimp only at i3
    congr 2 <;> omega

/-! ## wrappers -/

/-- the `TimeZone::timestamp*` wrappers for a fixed offset (`Utc` = offset 0) attach the offset to
what `DateTime::from_timestamp*` builds; the `unwrap` forms panic exactly on absence; the accessors
of a zone-aware value do not look at the offset; `and_utc`/`naive_utc` are inverse; the deprecated
`NaiveDateTime` constructors (two of which repeat the Euclidean split) agree with the `DateTime` ones -/
theorem wrappers_ok (off : Int) :
    (∀ s n, Ts.timestamp_opt off s n = (NaiveDT.from_timestamp s n).bind fun o => .ok (o.map fun dt => ⟨dt, off⟩)) ∧
    (∀ x, Ts.timestamp_millis_opt off x = (NaiveDT.from_timestamp_millis x).bind fun o => .ok (o.map fun dt => ⟨dt, off⟩)) ∧
    (∀ x, Ts.timestamp_micros off x = (NaiveDT.from_timestamp_micros x).bind fun o => .ok (o.map fun dt => ⟨dt, off⟩)) ∧
    (∀ x, Ts.timestamp_nanos off x = (NaiveDT.from_timestamp_nanos x).bind fun dt => .ok ⟨dt, off⟩) ∧
    (∀ s n, Ts.timestamp off s n = Ts.unwrap (Ts.timestamp_opt off s n)) ∧
    (∀ dt : NaiveDT, Ts.ztimestamp ⟨dt, off⟩ = NaiveDT.timestamp dt ∧
      Ts.ztimestamp_millis ⟨dt, off⟩ = NaiveDT.timestamp_millis dt ∧
      Ts.ztimestamp_micros ⟨dt, off⟩ = NaiveDT.timestamp_micros dt ∧
      Ts.ztimestamp_nanos_opt ⟨dt, off⟩ = NaiveDT.timestamp_nanos_opt dt ∧
      Ts.naive_utc (Ts.and_utc dt) = dt) ∧
    (∀ s n, Ts.naive_from_timestamp_opt s n = NaiveDT.from_timestamp s n) ∧
    (∀ x, Ts.naive_from_timestamp_millis x = NaiveDT.from_timestamp_millis x) ∧
    (∀ x, Ts.naive_from_timestamp_micros x = NaiveDT.from_timestamp_micros x) ∧
    (∀ x, isI64 x → Ts.naive_from_timestamp_nanos x = (NaiveDT.from_timestamp_nanos x).bind fun dt => .ok (some dt)) := by
  have hmap : ∀ r : Res (Option NaiveDT),
      (r.bind fun o => Res.ok (o.map fun dt => Ts.naive_utc (Ts.and_utc dt))) = r := by
    intro r
    cases r with
    | panic => rfl
    | ok o => cases o <;> rfl
  refine ⟨fun _ _ => rfl, fun _ => rfl, fun _ => rfl, fun _ => rfl, fun _ _ => rfl,
    fun _ => ⟨rfl, rfl, rfl, rfl, rfl⟩, fun s n => hmap _, fun x => hmap _, ?_, ?_⟩
  · intro x
    unfold Ts.naive_from_timestamp_micros NaiveDT.from_timestamp_micros Ts.naive_from_timestamp_opt
    cases ckU32 (x % 1000000 * 1000) with
    | panic => rfl
    | ok n => exact hmap _
  · intro x hx
    obtain ⟨dt, e1, _⟩ := from_nanos_total x hx
    rw [e1]
    unfold NaiveDT.from_timestamp_nanos at e1
    unfold Ts.naive_from_timestamp_nanos Ts.naive_from_timestamp_opt
    rw [hmap]
    cases hft : NaiveDT.from_timestamp (x / 1000000000) (x % 1000000000) with
    | panic => rw [hft] at e1; cases e1
    | ok o =>
      rw [hft] at e1
      cases o with
      | none => cases e1
      | some d => injection e1 with e1; rw [e1]; rfl

/-! ## non-vacuity: the hypotheses are met by non-trivial values, and both outcomes occur -/

/-- one second and one nanosecond before the epoch; a leap second on :59 and its refusal on :58;
both range ends and the first second beyond each -/
example :
    NaiveDT.from_timestamp (-1) 999999999 = .ok (some ⟨dateOfYo 1969 365, ⟨86399, 999999999⟩⟩) ∧
    NaiveDT.from_timestamp 1435708799 1500000000 = .ok (some ⟨dateOfYo 2015 181, ⟨86399, 1500000000⟩⟩) ∧
    NaiveDT.from_timestamp 1435708798 1000000000 = .ok none ∧
    NaiveDT.from_timestamp 0 2000000000 = .ok none ∧
    NaiveDT.from_timestamp TS_MAX 1999999999 = .ok (some ⟨Date.MAX, ⟨86399, 1999999999⟩⟩) ∧
    NaiveDT.from_timestamp (TS_MAX + 1) 0 = .ok none ∧
    NaiveDT.from_timestamp TS_MIN 0 = .ok (some NaiveDT.MIN) ∧
    NaiveDT.from_timestamp (TS_MIN - 1) 0 = .ok none ∧
    NaiveDT.from_timestamp (-9223372036854775808) 0 = .ok none ∧
    isI64 TS_MAX ∧ isU32 1999999999 ∧ tsOk TS_MAX 1999999999 ∧ ¬ tsOk 1435708798 1000000000 := by
  decide +kernel

/-- floor, not truncation: −1 ms is 23:59:59.999 of 1969-12-31 and reads back as −1; −1 µs, −1 ns alike -/
example :
    NaiveDT.from_timestamp_millis (-1) = .ok (some ⟨dateOfYo 1969 365, ⟨86399, 999000000⟩⟩) ∧
    NaiveDT.timestamp_millis ⟨dateOfYo 1969 365, ⟨86399, 999000000⟩⟩ = .ok (-1) ∧
    NaiveDT.from_timestamp_micros (-1) = .ok (some ⟨dateOfYo 1969 365, ⟨86399, 999999000⟩⟩) ∧
    NaiveDT.timestamp_micros ⟨dateOfYo 1969 365, ⟨86399, 999999000⟩⟩ = .ok (-1) ∧
    NaiveDT.from_timestamp_nanos (-1) = .ok ⟨dateOfYo 1969 365, ⟨86399, 999999999⟩⟩ ∧
    NaiveDT.timestamp_nanos_opt ⟨dateOfYo 1969 365, ⟨86399, 999999999⟩⟩ = .ok (some (-1)) ∧
    NaiveDT.from_timestamp_millis 9223372036854775807 = .ok none ∧
    NaiveDT.from_timestamp_micros (-9223372036854775808) = .ok none := by
  decide +kernel

/-- both ends of the 64-bit nanosecond window (1677-09-21T00:12:43.145224192 and
2262-04-11T23:47:16.854775807): present at the end, absent one nanosecond beyond, no panic -/
example :
    NaiveDT.from_timestamp_nanos (-9223372036854775808) = .ok ⟨dateOfYo 1677 264, ⟨763, 145224192⟩⟩ ∧
    NaiveDT.timestamp_nanos_opt ⟨dateOfYo 1677 264, ⟨763, 145224192⟩⟩ = .ok (some (-9223372036854775808)) ∧
    NaiveDT.timestamp_nanos_opt ⟨dateOfYo 1677 264, ⟨763, 145224191⟩⟩ = .ok none ∧
    NaiveDT.from_timestamp_nanos 9223372036854775807 = .ok ⟨dateOfYo 2262 101, ⟨85636, 854775807⟩⟩ ∧
    NaiveDT.timestamp_nanos_opt ⟨dateOfYo 2262 101, ⟨85636, 854775807⟩⟩ = .ok (some 9223372036854775807) ∧
    NaiveDT.timestamp_nanos_opt ⟨dateOfYo 2262 101, ⟨85636, 854775808⟩⟩ = .ok none ∧
    NaiveDT.timestamp_nanos_opt NaiveDT.MIN = .ok none ∧ NaiveDT.timestamp_nanos_opt NaiveDT.MAX = .ok none ∧
    NDTInv ⟨dateOfYo 1677 264, ⟨763, 145224191⟩⟩ ∧ TStrict (⟨763, 145224191⟩ : Time) := by
  decide +kernel

/-- the system clock: half a second before the epoch takes the `Err` branch with a borrow; a leap
second lands in the following second; outside the range the conversion panics -/
example :
    Ts.from_system_time (-1) 500000000 = .ok ⟨dateOfYo 1969 365, ⟨86399, 500000000⟩⟩ ∧
    Ts.to_system_time ⟨dateOfYo 1969 365, ⟨86399, 500000000⟩⟩ = .ok (-1, 500000000) ∧
    Ts.to_system_time ⟨dateOfYo 2015 181, ⟨86399, 1500000000⟩⟩ = .ok (1435708800, 500000000) ∧
    Ts.from_system_time (TS_MAX + 1) 0 = .panic ∧
    Ts.from_system_time (-9223372036854775808) 0 = .panic ∧
    Ts.timestamp_opt 3600 0 0 = .ok (some ⟨⟨dateOfYo 1970 1, ⟨0, 0⟩⟩, 3600⟩) ∧
    Ts.timestamp 3600 0 2000000000 = .panic := by
  decide +kernel

end Chrono.Props.C02
