/-
  C08, code translation tie for `impl Datelike for NaiveDateTime` / `impl Timelike for NaiveDateTime`
  (src/naive/datetime/mod.rs): the eleven `with_*` methods — each `self.date.with_x(v).map(|d| NaiveDateTime { date:
  d, ..*self })` resp. `self.time.with_x(v).map(|t| NaiveDateTime { time: t, ..*self })`, the closure read by
  tools/extractors/rust2lean.py as the `match` that defines `Option::map` — as regenerated from the Rust source
  text on every run equal the hand-written models (Model/ZonedOps.lean `NaiveDT.with_*`) for all arguments of the
  machine types.  Hypotheses: those of the `NaiveDate` / `NaiveTime` theorems they delegate to.
-/
import Chrono.Props.GenDateTime
import Chrono.Model.ZonedOps

namespace Chrono.Props.GenDateTimeWith
open Chrono Chrono.M Chrono.Extracted Chrono.Proofs.GenL Chrono.Proofs.GenTimeL Chrono.Props.GenDateTime

def I32 (x : Int) : Prop := -2147483648 ≤ x ∧ x ≤ 2147483647

theorem date_tail (dt : NaiveDT) (r : Res (Option Date)) (g : Res (Option Int))
    (h : g = rmap (Option.map Date.yof) r) :
    (Res.bind g fun r1 =>
      match r1 with
      | some d => Res.ok (some (Gen.naive_datetime.NaiveDateTime.mk d (ndtG dt).time))
      | none => Res.ok none)
    = rmap (Option.map ndtG) (NaiveDT.mapDate dt r) := by
  subst h
  cases r with
  | panic => rfl
  | ok o => cases o <;> rfl

theorem time_tail (dt : NaiveDT) (o : Option Time) (g : Res (Option Gen.naive_time.NaiveTime))
    (h : g = .ok (o.map tG)) :
    (Res.bind g fun r1 =>
      match r1 with
      | some t => Res.ok (some (Gen.naive_datetime.NaiveDateTime.mk (ndtG dt).date t))
      | none => Res.ok none)
    = rmap (Option.map ndtG) (NaiveDT.mapTime dt o) := by
  subst h
  cases o <;> rfl

theorem gen_dt_with_year_eq (dt : NaiveDT) (year : Int) :
    Gen.naive_datetime.NaiveDateTime.Datelike.with_year (ndtG dt) year
      = rmap (Option.map ndtG) (dt.with_year year) :=
  date_tail dt _ _ (GenDateOps.gen_with_year_eq dt.date year)

theorem gen_dt_with_month_eq (dt : NaiveDT) (month : Nat) (hd : I32 dt.date.yof) (hm : month ≤ 4294967295) :
    Gen.naive_datetime.NaiveDateTime.Datelike.with_month (ndtG dt) month
      = rmap (Option.map ndtG) (dt.with_month month) :=
  date_tail dt _ _ (GenDateOps.gen_with_month_eq dt.date month hd hm)

theorem gen_dt_with_month0_eq (dt : NaiveDT) (month0 : Nat) (hd : I32 dt.date.yof) (hm : month0 ≤ 4294967295) :
    Gen.naive_datetime.NaiveDateTime.Datelike.with_month0 (ndtG dt) month0
      = rmap (Option.map ndtG) (dt.with_month0 month0) :=
  date_tail dt _ _ (GenDateOps.gen_with_month0_eq dt.date month0 hd hm)

theorem gen_dt_with_day_eq (dt : NaiveDT) (day : Nat) (hd : I32 dt.date.yof) (hm : day ≤ 4294967295) :
    Gen.naive_datetime.NaiveDateTime.Datelike.with_day (ndtG dt) day
      = rmap (Option.map ndtG) (dt.with_day day) :=
  date_tail dt _ _ (GenDateOps.gen_with_day_eq dt.date day hd hm)

theorem gen_dt_with_day0_eq (dt : NaiveDT) (day0 : Nat) (hd : I32 dt.date.yof) (hm : day0 ≤ 4294967295) :
    Gen.naive_datetime.NaiveDateTime.Datelike.with_day0 (ndtG dt) day0
      = rmap (Option.map ndtG) (dt.with_day0 day0) :=
  date_tail dt _ _ (GenDateOps.gen_with_day0_eq dt.date day0 hd hm)

theorem gen_dt_with_ordinal_eq (dt : NaiveDT) (ordinal : Nat) (hd : I32 dt.date.yof) (ho : ordinal ≤ 4294967295) :
    Gen.naive_datetime.NaiveDateTime.Datelike.with_ordinal (ndtG dt) ordinal
      = rmap (Option.map ndtG) (dt.with_ordinal ordinal) :=
  date_tail dt _ _ (GenDateOps.gen_with_ordinal_eq dt.date ordinal hd ho)

theorem gen_dt_with_ordinal0_eq (dt : NaiveDT) (ordinal0 : Nat) (hd : I32 dt.date.yof)
    (ho : ordinal0 ≤ 4294967295) :
    Gen.naive_datetime.NaiveDateTime.Datelike.with_ordinal0 (ndtG dt) ordinal0
      = rmap (Option.map ndtG) (dt.with_ordinal0 ordinal0) :=
  date_tail dt _ _ (GenDateOps.gen_with_ordinal0_eq dt.date ordinal0 hd ho)

theorem gen_dt_with_hour_eq (dt : NaiveDT) (hour : Int) (ht : U32Fields dt.time)
    (hh : 0 ≤ hour ∧ hour ≤ 4294967295) :
    Gen.naive_datetime.NaiveDateTime.Timelike.with_hour (ndtG dt) hour
      = rmap (Option.map ndtG) (dt.with_hour hour) :=
  time_tail dt _ _ (GenTime.gen_with_hour_eq dt.time hour ht hh)

theorem gen_dt_with_minute_eq (dt : NaiveDT) (min : Int) (ht : Inv dt.time) (hm : 0 ≤ min ∧ min ≤ 4294967295) :
    Gen.naive_datetime.NaiveDateTime.Timelike.with_minute (ndtG dt) min
      = rmap (Option.map ndtG) (dt.with_minute min) :=
  time_tail dt _ _ (GenTime.gen_with_minute_eq dt.time min ht hm)

theorem gen_dt_with_second_eq (dt : NaiveDT) (sec : Int) (ht : Inv dt.time) (hm : 0 ≤ sec ∧ sec ≤ 4294967295) :
    Gen.naive_datetime.NaiveDateTime.Timelike.with_second (ndtG dt) sec
      = rmap (Option.map ndtG) (dt.with_second sec) :=
  time_tail dt _ _ (GenTime.gen_with_second_eq dt.time sec ht hm)

theorem gen_dt_with_nanosecond_eq (dt : NaiveDT) (nano : Int) :
    Res.ok (Gen.naive_datetime.NaiveDateTime.Timelike.with_nanosecond (ndtG dt) nano)
      = rmap (Option.map ndtG) (dt.with_nanosecond nano) := by
  unfold Gen.naive_datetime.NaiveDateTime.Timelike.with_nanosecond NaiveDT.with_nanosecond NaiveDT.mapTime
  rw [GenTime.gen_with_nanosecond_eq]
  cases Time.with_nanosecond dt.time nano <;> rfl

/-- non-trivial values: 2020-02-29 12:00 — year 2021 has no 29 February, hour 23 keeps the date -/
example : Gen.naive_datetime.NaiveDateTime.Datelike.with_year ⟨16548801, ⟨43200, 0⟩⟩ 2021 = .ok none
    ∧ Gen.naive_datetime.NaiveDateTime.Timelike.with_hour ⟨16548801, ⟨43200, 7⟩⟩ 23
      = .ok (some ⟨16548801, ⟨82800, 7⟩⟩)
    ∧ Gen.naive_datetime.NaiveDateTime.Datelike.with_day ⟨16548801, ⟨43200, 0⟩⟩ 1
      = .ok (some ⟨16548801 - 28 * 16, ⟨43200, 0⟩⟩) := by decide +kernel

end Chrono.Props.GenDateTimeWith
