/-
  C12 — every strftime specifier renders the documented field.

  Property statements only.  Models: Model/Strftime.lean (`StrftimeItems`), Model/Format.lean
  (`DelayedFormat::write_to` …).  Specification: Spec/StrftimeSpec.lean (`renderNumeric`,
  `renderFixed`, `renderOffset`: the documentation table over the independent calendar of
  Spec/Calendar.lean; numerals are core's `Nat.toDigits 10`).  Lemmas: Proofs/FormatL.lean,
  Proofs/FormatFin.lean, Proofs/FormatIsoL.lean (ISO week), Proofs/StrftimeL.lean (iterator progress).
  `%+`/RFC 3339 and the RFC 2822 item are proved equal to their expansions into the specifiers above
  (`rfc3339_item_is_expansion`, `rfc2822_item_text`; Proofs/FormatRfcL.lean).  A date is `dateOfYo y o` (the `o`-th day of year `y`) as in C01, a time any
  `TValid` value (leap-second representation allowed on any second), an offset any `|off| < 86400`.

  `wok text` = the text was written; `werr` = `Err(fmt::Error)`.
-/
import Chrono.Proofs.FormatL
import Chrono.Proofs.StrftimeL
import Chrono.Proofs.FormatIsoL
import Chrono.Proofs.FormatRfcL
import Chrono.Extracted.SpecTable
import Chrono.Extracted.DocTable
import Chrono.Proofs.StrftimeDocL
import Chrono.Proofs.StrftimeAppendL
import Chrono.Proofs.StrftimeNoRfcL
import Chrono.Proofs.StrftimeTextL
import Chrono.Proofs.StrftimeHeadroomL
import Chrono.Proofs.ZonedDateL
import Chrono.Model.ParseFrom
import Chrono.Model.FormatUtc

namespace Chrono.Props.C12
open Chrono Chrono.M Chrono.M.Format Chrono.M.Strftime Chrono.Spec Chrono.Spec.Strftime Chrono.Extracted
open Chrono.Proofs Chrono.Spec.StrftimeDoc Chrono.M.ParseFrom

/-! ### the specifier table is the one in the source -/

/-- the model's letter → item table, `z` arm, padding modifiers and composite slices are exactly what
the translator reads from strftime.rs on this run (every byte value, so also: no other letter has an
arm) -/
theorem spec_table_ok :
    (∀ c < 256, specTable c = match SPEC_TABLE.lookup c with | some (it :: q) => some (it, q) | _ => none) ∧
    SPEC_Z = [(true, zItem true), (false, zItem false)] ∧
    SPEC_COLON = [([58, 58, 122], fixed .timezoneOffsetTripleColon), ([58, 122], fixed .timezoneOffsetDoubleColon),
                  ([122], fixed .timezoneOffsetColon)] ∧
    SPEC_DOT = [(51, fixed .nanosecond3), (54, fixed .nanosecond6), (57, fixed .nanosecond9), (102, fixed .nanosecond)] ∧
    SPEC_FRAC = [(51, fixed .nanosecond3NoDot), (54, fixed .nanosecond6NoDot), (57, fixed .nanosecond9NoDot)] ∧
    (∀ c < 256, padOf c = SPEC_PAD.lookup c) ∧ SPEC_ALTERNATES = [122] ∧
    SPEC_SLICES.map (·.2) = [D_FMT, D_T_FMT, T_FMT, T_FMT_AMPM] := by decide +kernel

/-- every specifier of the documentation table is accepted (no `Item::Error`), and the padding
modifiers `-`, `0`, `_` in front of a numeric specifier replace its padding and nothing else -/
theorem documented_accepted :
    (∀ s ∈ documented, Item.error ∉ items (37 :: str s)) ∧
    (∀ c < 256, ∀ n p, items [37, c] = [Item.numeric n p] →
      items [37, 45, c] = [Item.numeric n .none] ∧ items [37, 48, c] = [Item.numeric n .zero] ∧
      items [37, 95, c] = [Item.numeric n .space]) := by
  constructor
  · decide
  · intro c hc n p h
    have key : ∀ c < 256, ∀ n ∈ Numeric.all, ∀ p ∈ [Pad.none, Pad.zero, Pad.space],
        items [37, c] = [Item.numeric n p] →
        items [37, 45, c] = [Item.numeric n .none] ∧ items [37, 48, c] = [Item.numeric n .zero] ∧
        items [37, 95, c] = [Item.numeric n .space] := by decide +kernel
    exact key c hc n (by cases n <;> decide) p (FormatL.pad_mem p) h

/-! ### numeric specifiers -/

/-- `%Y %C %y %q %m %d %w %u %j` (with any padding modifier) show the documented calendar field of
every date: sign and width rule of `%Y`, floor division for `%C`, `%y` for years ≥ 0.  The `as u8`
narrowings lose nothing because month ≤ 12, day ≤ 31, … (C01). -/
theorem numeric_ok_calendar (y : Int) (o : Nat) (hy : MIN_YEAR ≤ y ∧ y ≤ MAX_YEAR) (ho : 1 ≤ o ∧ o ≤ yearLen y)
    (t : Option Time) (off : Option Int) (tt : Time) (oo : Int) (pad : Pad) (n : Numeric)
    (hn : n ∈ [Numeric.year, .yearDiv100, .yearMod100, .quarter, .month, .day, .numDaysFromSun,
               .weekdayFromMon, .ordinal])
    (_hy0 : n = .yearMod100 → 0 ≤ y) :
    format_numeric (some (dateOfYo y o)) t off n pad = wok (renderNumeric n pad y o tt oo) :=
  FormatL.numeric_calendar y o hy ho t off tt oo pad n hn

/-- `NaiveDate::weeks_from`: the number of `day`-weekdays among the days 1..o of the year (so week 0
is the days before the first one) -/
theorem weeks_from_spec (y : Int) (o : Nat) (hy : MIN_YEAR ≤ y ∧ y ≤ MAX_YEAR) (ho : 1 ≤ o ∧ o ≤ yearLen y)
    (day : Weekday) : weeks_from (dateOfYo y o) day = (countStarts y o day.toNat : Int) :=
  FormatL.weeks_from_closed y o hy ho day

/-- `%U %W` -/
theorem numeric_ok_weeks (y : Int) (o : Nat) (hy : MIN_YEAR ≤ y ∧ y ≤ MAX_YEAR) (ho : 1 ≤ o ∧ o ≤ yearLen y)
    (t : Option Time) (off : Option Int) (tt : Time) (oo : Int) (pad : Pad) (n : Numeric)
    (hn : n ∈ [Numeric.weekFromSun, .weekFromMon]) :
    format_numeric (some (dateOfYo y o)) t off n pad = wok (renderNumeric n pad y o tt oo) :=
  FormatL.numeric_weeks y o hy ho t off tt oo pad n hn

/-- `NaiveDate::iso_week` (flag-bit arithmetic on the packed word) is the ISO 8601 week date: the
year and the week number of the Thursday of the date's Monday-based week; never panics -/
theorem iso_week_spec (y : Int) (o : Nat) (hy : MIN_YEAR ≤ y ∧ y ≤ MAX_YEAR) (ho : 1 ≤ o ∧ o ≤ yearLen y) :
    ∃ ywf, (dateOfYo y o).iso_week = .ok ywf ∧ IsoWeek.year ywf = isoYear y o ∧
      IsoWeek.week ywf = isoWeek y o :=
  FormatIsoL.iso_week_spec y o hy ho

/-- `%G %g %V` (and the ISO century item): `%g` for ISO years ≥ 0 -/
theorem numeric_ok_iso (y : Int) (o : Nat) (hy : MIN_YEAR ≤ y ∧ y ≤ MAX_YEAR) (ho : 1 ≤ o ∧ o ≤ yearLen y)
    (t : Option Time) (off : Option Int) (tt : Time) (oo : Int) (pad : Pad) (n : Numeric)
    (hn : n ∈ [Numeric.isoYear, .isoYearDiv100, .isoYearMod100, .isoWeek])
    (_hy0 : n = .isoYearMod100 → 0 ≤ isoYear y o) :
    format_numeric (some (dateOfYo y o)) t off n pad = wok (renderNumeric n pad y o tt oo) :=
  FormatIsoL.numeric_iso y o hy ho t off tt oo pad n hn

/-- `%H %k %I %l %M %S %f`: 12-hour clock 12,1,…,11; second 60 for a leap second; nanoseconds since
the last whole second -/
theorem numeric_ok_clock (t : Time) (ht : TValid t) (d : Option Date) (off : Option Int) (y : Int) (o : Nat)
    (oo : Int) (pad : Pad) (n : Numeric) (hn : n ∈ [Numeric.hour, .hour12, .minute, .second, .nanosecond]) :
    format_numeric d (some t) off n pad = wok (renderNumeric n pad y o t oo) :=
  FormatL.numeric_clock t ht d off y o oo pad n hn

/-- `%s`: seconds since 1970-01-01T00:00 UTC of the local date and time at the given offset (UTC if
the value has no offset); no intermediate `i64` overflow -/
theorem numeric_ok_timestamp (y : Int) (o : Nat) (hy : MIN_YEAR ≤ y ∧ y ≤ MAX_YEAR) (ho : 1 ≤ o ∧ o ≤ yearLen y)
    (t : Time) (ht : TValid t) (off : Option Int) (hoff : ∀ v, off = some v → -86400 < v ∧ v < 86400) (pad : Pad) :
    format_numeric (some (dateOfYo y o)) (some t) off .timestamp pad =
      wok (renderNumeric .timestamp pad y o t (off.getD 0)) :=
  FormatL.numeric_timestamp y o hy ho t ht off hoff pad

/-- **every numeric item, every padding, every value**: a zone-aware date-time (any date of the
range, any time incl. leap seconds, any offset) formatted with any of the 21 numeric items and any
padding modifier gives exactly the documented text (`%y`/`%g` stated for years ≥ 0 as in the
property) — the five families above in one statement -/
theorem numeric_ok (y : Int) (o : Nat) (hy : MIN_YEAR ≤ y ∧ y ≤ MAX_YEAR) (ho : 1 ≤ o ∧ o ≤ yearLen y)
    (t : Time) (ht : TValid t) (off : Option Int) (hoff : ∀ v, off = some v → -86400 < v ∧ v < 86400)
    (n : Numeric) (pad : Pad) (_h1 : n = .yearMod100 → 0 ≤ y) (_h2 : n = .isoYearMod100 → 0 ≤ isoYear y o) :
    format_numeric (some (dateOfYo y o)) (some t) off n pad = wok (renderNumeric n pad y o t (off.getD 0)) := by
  cases n
  case timestamp => exact FormatL.numeric_timestamp y o hy ho t ht off hoff pad
  case hour => exact FormatL.numeric_clock t ht _ off y o _ pad _ (by decide)
  case hour12 => exact FormatL.numeric_clock t ht _ off y o _ pad _ (by decide)
  case minute => exact FormatL.numeric_clock t ht _ off y o _ pad _ (by decide)
  case second => exact FormatL.numeric_clock t ht _ off y o _ pad _ (by decide)
  case nanosecond => exact FormatL.numeric_clock t ht _ off y o _ pad _ (by decide)
  case weekFromSun => exact FormatL.numeric_weeks y o hy ho _ off t _ pad _ (by decide)
  case weekFromMon => exact FormatL.numeric_weeks y o hy ho _ off t _ pad _ (by decide)
  case isoYear => exact FormatIsoL.numeric_iso y o hy ho _ off t _ pad _ (by decide)
  case isoYearDiv100 => exact FormatIsoL.numeric_iso y o hy ho _ off t _ pad _ (by decide)
  case isoYearMod100 => exact FormatIsoL.numeric_iso y o hy ho _ off t _ pad _ (by decide)
  case isoWeek => exact FormatIsoL.numeric_iso y o hy ho _ off t _ pad _ (by decide)
  all_goals exact FormatL.numeric_calendar y o hy ho _ off t _ pad _ (by decide)

/-! ### fixed specifiers -/

/-- `%b %h %B %a %A`, `%P %p`, `%.f %.3f %.6f %.9f %3f %6f %9f` -/
theorem fixed_ok :
    (∀ (y : Int) (o : Nat), MIN_YEAR ≤ y ∧ y ≤ MAX_YEAR → 1 ≤ o ∧ o ≤ yearLen y →
      ∀ (t : Option Time) (off : Option (List Nat × Int)) (tt : Time) (oo : Int) (f : Fixed),
      f ∈ [Fixed.shortMonthName, .longMonthName, .shortWeekdayName, .longWeekdayName] →
      some (format_fixed (some (dateOfYo y o)) t off f) = (renderFixed f y o tt oo).map wok) ∧
    (∀ (t : Time), TValid t → ∀ (d : Option Date) (off : Option (List Nat × Int)) (y : Int) (o : Nat) (oo : Int)
      (f : Fixed),
      f ∈ [Fixed.lowerAmPm, .upperAmPm, .nanosecond, .nanosecond3, .nanosecond6, .nanosecond9,
           .nanosecond3NoDot, .nanosecond6NoDot, .nanosecond9NoDot] →
      some (format_fixed d (some t) off f) = (renderFixed f y o t oo).map wok) :=
  ⟨fun y o hy ho t off tt oo f hf => FormatL.fixed_names y o hy ho t off tt oo f hf,
   fun t ht d off y o oo f hf => FormatL.fixed_clock t ht d off y o oo f hf⟩

/-- `%z %:z %::z %:::z` (and the `Z`-for-zero variants used by RFC 3339 output) for every offset a
`FixedOffset` can hold, including offsets with seconds: `%z`/`%:z` round to the nearest minute (ties
away from zero), `%::z` shows the seconds, `%:::z` truncates to the hour -/
theorem offset_ok (off : Int) (h : -86400 < off ∧ off < 86400) (d : Option Date) (t : Option Time) (name : List Nat)
    (y : Int) (o : Nat) (tt : Time) (f : Fixed)
    (hf : f ∈ [Fixed.timezoneOffset, .timezoneOffsetColon, .timezoneOffsetDoubleColon, .timezoneOffsetTripleColon,
               .timezoneOffsetZ, .timezoneOffsetColonZ]) :
    some (format_fixed d t (some (name, off)) f) = (renderFixed f y o tt off).map wok :=
  FormatL.offset_ok off h d t name y o tt f hf

/-- `%Z` prints the zone's name as given -/
theorem zone_name_ok (d : Option Date) (t : Option Time) (name : List Nat) (off : Int) :
    format_fixed d t (some (name, off)) .timezoneName = wok name := by
  cases d <;> cases t <;> rfl

/-! ### composite specifiers, literals, failure -/

/-- every composite specifier yields the same items as its documented expansion, hence the same
text (or the same failure) for every value -/
theorem composite_eq_expansion :
    (∀ e ∈ expansions, items (str e.1) = items (str e.2)) ∧
    (∀ e ∈ expansions, ∀ d t off, formatItems d t off (items (str e.1)) = formatItems d t off (items (str e.2))) := by
  have h : ∀ e ∈ expansions, items (str e.1) = items (str e.2) := by decide
  exact ⟨h, fun e he d t off => by rw [h e he]⟩

/-- `%t %n %%` are a tab, a newline and a percent sign -/
theorem special_specifiers (d : Option Date) (t : Option Time) (off : Option (List Nat × Int)) :
    formatItems d t off (items [37, 116]) = some [9] ∧ formatItems d t off (items [37, 110]) = some [10] ∧
    formatItems d t off (items [37, 37]) = some [37] := by
  refine ⟨?_, ?_, ?_⟩ <;> rfl

/-- literal text (anything without `%`: any Unicode, any white space) is copied unchanged, in strict
and in lenient mode, whatever the value is -/
theorem literal_copied (s : List Nat) (hs : ∀ b ∈ s, b ≠ 37) (d : Option Date) (t : Option Time)
    (off : Option (List Nat × Int)) :
    formatItems d t off (items s) = some s ∧ formatItems d t off (itemsLenient s) = some s := by
  unfold formatItems items itemsLenient
  rw [FormatL.literal_copied_aux false d t off _ s (by omega) hs,
    FormatL.literal_copied_aux true d t off _ s (by omega) hs]
  exact ⟨rfl, rfl⟩

/-- an unknown specifier or a field the value does not have makes formatting fail:
(1) a letter without an arm (and a bare modifier) is `Item::Error` in strict mode;
(2) a list containing `Item::Error` is never formatted;
(3) date specifiers fail without a date, clock specifiers without a time, offset specifiers without
an offset, `%s`/`%+` without any of the views they need -/
theorem unknown_or_missing_fails :
    (∀ c < 256, specTable c = none → c ≠ 122 → items [37, c] = [Item.error]) ∧
    (∀ d t off (is : List Item), Item.error ∈ is → formatItems d t off is = none) ∧
    (∀ t off n pad, n ∉ [Numeric.hour, .hour12, .minute, .second, .nanosecond] →
      format_numeric none t off n pad = werr) ∧
    (∀ d off n pad, n ∈ [Numeric.hour, .hour12, .minute, .second, .nanosecond, .timestamp] →
      format_numeric d none off n pad = werr) ∧
    (∀ t off f, f ∈ [Fixed.shortMonthName, .longMonthName, .shortWeekdayName, .longWeekdayName, .rfc2822, .rfc3339] →
      format_fixed none t off f = werr) ∧
    (∀ d off f, f ∈ [Fixed.lowerAmPm, .upperAmPm, .nanosecond, .nanosecond3, .nanosecond6, .nanosecond9,
        .nanosecond3NoDot, .nanosecond6NoDot, .nanosecond9NoDot, .rfc2822, .rfc3339] →
      format_fixed d none off f = werr) ∧
    (∀ d t f, f ∈ [Fixed.timezoneName, .timezoneOffset, .timezoneOffsetColon, .timezoneOffsetDoubleColon,
        .timezoneOffsetTripleColon, .timezoneOffsetZ, .timezoneOffsetColonZ, .rfc2822, .rfc3339] →
      format_fixed d t none f = werr) ∧
    (∀ d t off, format_fixed d t off .timezoneOffsetPermissive = werr) := by
  refine ⟨by decide +kernel, fun d t off is h => FormatL.formatItems_error d t off is h, ?_, ?_, ?_, ?_, ?_, ?_⟩
  · intro t off n pad hn
    cases n <;> first | rfl | (exfalso; apply hn; decide)
  · intro d off n pad hn
    cases d <;> cases n <;> first | rfl | (exfalso; revert hn; decide)
  · intro t off f hf
    cases f <;> first | rfl | (exfalso; revert hf; decide)
  · intro d off f hf
    cases d <;> cases f <;> first | rfl | (exfalso; revert hf; decide)
  · intro d t f hf
    cases d <;> cases t <;> cases f <;> first | rfl | (exfalso; revert hf; decide)
  · intro d t off
    cases d <;> cases t <;> cases off <;> rfl

/-! ### the two composite fixed items: `%+` (RFC 3339) and RFC 2822 -/

/-- **`%+` is its documented expansion `%Y-%m-%dT%H:%M:%S%.f%:z`**, for EVERY zone-aware value: any
date of the range (negative and five/six-digit years: both print a sign and at least four digits),
any time incl. the leap-second representation (`:60`, fraction taken modulo one second), and ANY
offset incl. offsets with seconds (both round to the nearest minute).  Same bytes, same `Err`, same
panic (`formatItemsR` keeps the three apart; `formatItems` is the `Option` the harness observes).
No exception was found: the two year writers (`{:+05}` outside 0..=9999 versus `write_n(4, …,
always_sign)`), the two fraction selectors and the two offset formats coincide everywhere. -/
theorem rfc3339_item_is_expansion (y : Int) (o : Nat) (hy : MIN_YEAR ≤ y ∧ y ≤ MAX_YEAR)
    (ho : 1 ≤ o ∧ o ≤ yearLen y) (t : Time) (ht : TValid t) (name : List Nat) (off : Int) :
    items (str "%+") = [.fixed .rfc3339] ∧
    formatItemsR (some (dateOfYo y o)) (some t) (some (name, off)) (items (str "%+")) =
      formatItemsR (some (dateOfYo y o)) (some t) (some (name, off)) (items (str "%Y-%m-%dT%H:%M:%S%.f%:z")) ∧
    formatItems (some (dateOfYo y o)) (some t) (some (name, off)) (items (str "%+")) =
      formatItems (some (dateOfYo y o)) (some t) (some (name, off)) (items (str "%Y-%m-%dT%H:%M:%S%.f%:z")) := by
  obtain ⟨_, _, _, hm, hd, hv, _, _, _⟩ := Props.C01.accessors_ok y o hy ho
  have hb := Proofs.valid_bounds y _ _ hv
  have h := FormatRfc.rfc3339_expansion (dateOfYo y o) t name off _ _ hm hd (by omega) (by omega) ht
  rw [FormatRfc.items_fin.1, FormatRfc.items_fin.2.1]
  refine ⟨rfl, h, ?_⟩
  unfold formatItems
  rw [h]

/-- **the RFC 2822 item** (`Fixed::RFC2822`, what `to_rfc2822` writes) is the text of
`%a, %-d %b %Y %H:%M:%S %z` — day of month WITHOUT padding, four-digit year, seconds `60` on a leap
second, offset `±hhmm` rounded to the minute — exactly on years 0..=9999; on every other year it is
`Err(fmt::Error)` while the expansion would still print -/
theorem rfc2822_item_text (y : Int) (o : Nat) (hy : MIN_YEAR ≤ y ∧ y ≤ MAX_YEAR)
    (ho : 1 ≤ o ∧ o ≤ yearLen y) (t : Time) (ht : TValid t) (name : List Nat) (off : Int) :
    (0 ≤ y ∧ y ≤ 9999 →
      formatItemsR (some (dateOfYo y o)) (some t) (some (name, off)) [.fixed .rfc2822] =
        formatItemsR (some (dateOfYo y o)) (some t) (some (name, off)) (items (str "%a, %-d %b %Y %H:%M:%S %z")) ∧
      formatItems (some (dateOfYo y o)) (some t) (some (name, off)) [.fixed .rfc2822] =
        formatItems (some (dateOfYo y o)) (some t) (some (name, off)) (items (str "%a, %-d %b %Y %H:%M:%S %z"))) ∧
    (¬ (0 ≤ y ∧ y ≤ 9999) →
      formatItems (some (dateOfYo y o)) (some t) (some (name, off)) [.fixed .rfc2822] = none) := by
  obtain ⟨hyr, _, _, hm, hd, hv, _, _, _⟩ := Props.C01.accessors_ok y o hy ho
  have hb := Proofs.valid_bounds y _ _ hv
  constructor
  · intro h09
    have h := FormatRfc.rfc2822_expansion (dateOfYo y o) t name off _ _ hm hd (by omega) ht (by rw [hyr]; exact h09)
    rw [FormatRfc.items_fin.2.2]
    refine ⟨h, ?_⟩
    unfold formatItems
    rw [h]
  · intro h09
    unfold formatItems
    rw [FormatRfc.rfc2822_out_of_range (dateOfYo y o) t name off (by rw [hyr]; exact h09)]
    rfl

/-- non-vacuity (kernel evaluation; the three texts are what the crate itself prints for these values):
year 12345 with a leap second and a half-hour offset; year −5 with an offset that rounds to 24:00
(RFC 2822 refuses the year); the documentation's leap-second example in RFC 2822 form -/
example :
    let t : Time := ⟨2099, 1026490000⟩
    formatItems (some (dateOfYo 12345 189)) (some t) (some ([], 34200)) (items (str "%+"))
      = some (str "+12345-07-08T00:34:60.026490+09:30") ∧
    formatItems (some (dateOfYo (-5) 63)) (some ⟨2099, 0⟩) (some ([], -86370)) (items (str "%+"))
      = some (str "-0005-03-04T00:34:59-24:00") ∧
    formatItems (some (dateOfYo (-5) 63)) (some ⟨2099, 0⟩) (some ([], -86370)) [.fixed .rfc2822] = none ∧
    formatItems (some (dateOfYo 2001 189)) (some ⟨2099, 1000000000⟩) (some ([], 3600)) [.fixed .rfc2822]
      = some (str "Sun, 8 Jul 2001 00:34:60 +0100") := by
  decide +kernel

/-! ### the item iterator ends (also used by C15) -/

/-- for every format byte string, strict or lenient: each `parse_next_item` call consumes at least
one byte and queues at most 12 items; so the fuel `byte length + 1` of `items` is never exhausted
(more fuel changes nothing), there are at most 13·len items (`%c` = 13 items from 2 bytes), and the
real iterator (`next` on remainder + queue) yields exactly these items and then ends within
13·len + 1 calls -/
theorem strftime_terminates (l : Bool) (s : List Nat) :
    (∀ r, parse_next_item l s = some r → r.1.length < s.length ∧ r.2.2.length ≤ 12) ∧
    (∀ k, itemsAux l (s.length + 1 + k) s = itemsAux l (s.length + 1) s) ∧
    (itemsAux l (s.length + 1) s).length ≤ 13 * s.length ∧
    (∀ n, 13 * s.length < n → drain l n ⟨s, []⟩ = itemsAux l (s.length + 1) s) := by
  refine ⟨fun r h => StrftimeL.parse_next_item_progress l s r h,
    fun k => StrftimeL.itemsAux_fuel l _ _ s (by omega) (by omega),
    StrftimeL.itemsAux_length l _ s, fun n hn => ?_⟩
  have := StrftimeL.drain_eq l n ⟨s, []⟩ (by simpa using hn)
  simpa using this

/-- the error path ends the iteration: in strict mode an unknown specifier yields `Item::Error` and
nothing after it (finding #3 repaired), in lenient mode the text is kept as literals -/
example : items (str "%Y%Qabc %d") = [.numeric .year .zero, .error] ∧
    itemsLenient (str "%Y%Qabc %d") = [.numeric .year .zero, .literal (str "%"), .literal (str "Qabc"),
      .space (str " "), .numeric .day .zero] ∧
    drain false 200 ⟨str "%c", []⟩ = items (str "%c") ∧ (items (str "%c")).length = 13 := by decide +kernel

/-! ### non-vacuity -/

/-- 2001-07-08 (a Sunday, day 189) 00:34:60.026490 +09:30, the example row of the documentation -/
example :
    let d := dateOfYo 2001 189
    let t : Time := ⟨2099, 1026490000⟩
    let off : Option (List Nat × Int) := some (fixedOffsetName 34200, 34200)
    (MIN_YEAR ≤ 2001 ∧ (2001 : Int) ≤ MAX_YEAR) ∧ (1 ≤ 189 ∧ 189 ≤ yearLen 2001) ∧ TValid t ∧
    formatItems (some d) (some t) off (items (str "%Y-%m-%d %U %W %j %a %b %e %I:%M:%S%.f %p %z %:::z %s %%"))
      = some (str "2001-07-08 27 27 189 Sun Jul  8 12:34:60.026490 AM +0930 +09 994518299 %") ∧
    renderNumeric .weekFromSun .zero 2001 189 t 0 = str "27" ∧
    renderFixed .timezoneOffset 2001 189 t (-86370) = some (str "-2400") ∧
    formatItems (some (dateOfYo (-99) 1)) none none (items (str "%Y %C %-C %_m")) = some (str "-0099 -1 -1  1") ∧
    formatItems (some d) none none (items (str "%H")) = none ∧
    formatItems (some d) (some t) off (items (str "%Q")) = none ∧
    items (str "%-D") = [Item.error, .literal [47], .numeric .day .zero, .literal [47], .numeric .yearMod100 .zero] := by
  decide +kernel

/-! ### the documentation table: specifier TEXT → documented text (audit gap HIGH-1) -/

/-- the Spec's transcription of the documentation (`docRows`: specifier, example cell, description cell,
each with its formal reading) is character for character the table that the translator reads from the
module doc comment of strftime.rs on this run — rows, order, examples, sentences; likewise the
padding-modifier table; the documentation's own "Same as `…`." sentences (and footnote 5 for `%+`)
are among the readings; the older name list `documented` is the first column; footnote 7's example -/
theorem doc_table_is_source :
    DOC_TABLE = docRows.map (fun r => (r.spec, r.ex, r.descr)) ∧
    DOC_MODIFIERS.map (fun m => (str m.1, m.2)) = docModifiers.map (fun m => ([m.1], m.2.2)) ∧
    (∀ e ∈ DOC_SAME_AS, e ∈ docComposites ∨ e ∈ expansions ∨ e = ("%+", "%Y-%m-%dT%H:%M:%S%.f%:z")) ∧
    (∀ e ∈ docComposites, e ∈ expansions) ∧
    documented = docRows.map (·.spec) ∧ DOC_FOOTNOTE7 = footnote7 := by decide +kernel

/-- **the tokenizer gives every documented specifier TEXT the item of its documentation row**:
`items "%m" = [Numeric Month, zero-padded]`, `items "%e" = [Day, space-padded]`, `%P` lower / `%p`
upper, `%U` Sunday / `%W` Monday, `%.3f` …; a composite row yields exactly the items of the format
string it is documented to be the same as (none of them `Item::Error`).  Exchanging two arms of
`parse_next_item` breaks this theorem (the Spec side does not move with the source). -/
theorem documented_items :
    (∀ e ∈ docTable, items (37 :: str e.1) = [e.2]) ∧
    (∀ e ∈ docComposites, items (str e.1) = items (str e.2) ∧ Item.error ∉ items (str e.2)) := by
  decide +kernel

/-- **`%<specifier>` prints the documented text** — the statement is about the format string, not
about an item: for every row of the documentation table that describes one field (all but the nine
composites, which `documented_items`/`composite_eq_expansion` reduce to these), every date of the
range, every time incl. leap seconds, every offset: formatting a zone-aware value with the
two-to-five-byte format string `%…` gives exactly `renderItem` of the row's reading (`renderNumeric`,
`renderFixed`, `zoneText` for `%Z`, `rfc3339Text` for `%+`; failure for the parsing-only `%#z`).
`%y`/`%g` as in the property for years ≥ 0 (the hypotheses are not used: the text is `year mod 100`
with floor semantics on every year, which is what footnote 1 says and its example contradicts). -/
theorem specifier_ok (e : String × Item) (he : e ∈ docTable)
    (y : Int) (o : Nat) (hy : MIN_YEAR ≤ y ∧ y ≤ MAX_YEAR) (ho : 1 ≤ o ∧ o ≤ yearLen y)
    (t : Time) (ht : TValid t) (off : Int) (hoff : -86400 < off ∧ off < 86400)
    (_h1 : e.1 = "y" → 0 ≤ y) (_h2 : e.1 = "g" → 0 ≤ isoYear y o) :
    formatItems (some (dateOfYo y o)) (some t) (some (fixedOffsetName off, off)) (items (37 :: str e.1)) =
      renderItem e.2 y o t off := by
  have hne : ∀ e ∈ docTable, e.2 ≠ Item.fixed .rfc2822 := by decide
  rw [documented_items.1 e he]
  unfold formatItems
  rw [StrftimeDoc.single]
  have := StrftimeDoc.item_on y o hy ho t ht off hoff ⟨true, true, true⟩ e.2 (hne e he)
  simp only [StrftimeDoc.dOf, StrftimeDoc.tOf, StrftimeDoc.oOf, if_true] at this
  rw [this]
  rw [StrftimeDoc.renderItemOn_full]
  cases renderItem e.2 y o t off <;> rfl

/-- **padding modifiers** (`%-?`, `%_?`, `%0?` of the documentation's modifier table): in front of a
numeric specifier the modifier replaces the padding and nothing else — items and text; in front of
any other documented specifier (names, am/pm, fractions, offsets, `%+`, `%t %n %%`, composites) the
result is `Item::Error` ("This is not allowed for other specifiers and will result in the
`BAD_FORMAT` error") -/
theorem specifier_pad_ok :
    (∀ e ∈ docTable, ∀ m ∈ docModifiers, ∀ n p, e.2 = Item.numeric n p →
      items (37 :: m.1 :: str e.1) = [Item.numeric n m.2.1] ∧
      ∀ (y : Int) (o : Nat), MIN_YEAR ≤ y ∧ y ≤ MAX_YEAR → 1 ≤ o ∧ o ≤ yearLen y →
      ∀ (t : Time), TValid t → ∀ (off : Int), -86400 < off ∧ off < 86400 →
        formatItems (some (dateOfYo y o)) (some t) (some (fixedOffsetName off, off)) (items (37 :: m.1 :: str e.1)) =
          some (renderNumeric n m.2.1 y o t off)) ∧
    (∀ e ∈ docTable, ∀ m ∈ docModifiers, (∀ n p, e.2 ≠ Item.numeric n p) →
      Item.error ∈ items (37 :: m.1 :: str e.1)) ∧
    (∀ e ∈ docComposites, ∀ m ∈ docModifiers, Item.error ∈ items (37 :: m.1 :: (str e.1).tail)) := by
  have key : ∀ e ∈ docTable, ∀ m ∈ docModifiers,
      (match e.2 with
       | .numeric n _ => decide (items (37 :: m.1 :: str e.1) = [Item.numeric n m.2.1])
       | _ => decide (Item.error ∈ items (37 :: m.1 :: str e.1))) = true := by decide +kernel
  refine ⟨fun e he m hm n p hn => ?_, fun e he m hm hn => ?_, by decide +kernel⟩
  · have k := key e he m hm
    rw [hn] at k
    have hi : items (37 :: m.1 :: str e.1) = [Item.numeric n m.2.1] := of_decide_eq_true k
    refine ⟨hi, fun y o hy ho t ht off hoff => ?_⟩
    rw [hi]
    unfold formatItems
    rw [StrftimeDoc.single]
    have := StrftimeDoc.item_on y o hy ho t ht off hoff ⟨true, true, true⟩ (.numeric n m.2.1) (by simp)
    simp only [StrftimeDoc.dOf, StrftimeDoc.tOf, StrftimeDoc.oOf, if_true] at this
    rw [this, StrftimeDoc.renderItemOn_full]
    rfl
  · have k := key e he m hm
    cases h : e.2 with
    | numeric n p => exact absurd h (hn n p)
    | literal s => rw [h] at k; exact of_decide_eq_true k
    | space s => rw [h] at k; exact of_decide_eq_true k
    | fixed f => rw [h] at k; exact of_decide_eq_true k
    | error => rw [h] at k; exact of_decide_eq_true k

/-- **the Example column of the documentation is what formatting prints**: for the documentation's
example value 2001-07-08T00:34:60.026490+09:30 EVERY row's specifier prints exactly its Example cell
(rows with a non-empty cell; `%t %n %%` have none) — with the two exceptions the documentation itself
explains: `%Z` (cell `ACST`; footnote 8: only the offset is printed, "identical to `%:z`": `+09:30`) and
the parsing-only `%#z` (cannot be formatted).  Footnote 7's example (7 µs with `%f` and `%.f`, as read
from the source on this run, `doc_table_is_source`) is what the model prints too.  Full statement
since the repair of finding F31 (/repo 9d96a4b); before it the cells of `%q %U %f` were wrong, see
`doc_examples_pinned_before_F31`. -/
theorem doc_examples_ok :
    (∀ r ∈ docRows, r.ex ≠ "" → r.spec ∉ exampleDivergent.map (·.1) → r.spec ∉ exampleParsingOnly →
      formatItems (some (dateOfYo exYear exOrdinal)) (some exTime) (some (fixedOffsetName exOff, exOff))
        (items (37 :: str r.spec)) = some (str r.ex)) ∧
    (∀ x ∈ exampleDivergent,
      formatItems (some (dateOfYo exYear exOrdinal)) (some exTime) (some (fixedOffsetName exOff, exOff))
        (items (37 :: str x.1)) = some (str x.2) ∧
      formatItems (some (dateOfYo exYear exOrdinal)) (some exTime) (some (fixedOffsetName exOff, exOff))
        (items (str "%:z")) = some (str x.2)) ∧
    (∀ s ∈ exampleParsingOnly,
      formatItems (some (dateOfYo exYear exOrdinal)) (some exTime) (some (fixedOffsetName exOff, exOff))
        (items (37 :: str s)) = none) ∧
    formatItems none (some ⟨0, 7000⟩) none (items (str "%f")) = some (str DOC_FOOTNOTE7.1) ∧
    formatItems none (some ⟨0, 7000⟩) none (items (str "%.f")) = some (str DOC_FOOTNOTE7.2) := by
  decide +kernel

/-- PINNED PRE-FIX DOCUMENTATION (finding F31, repaired by /repo 9d96a4b): the Example cells `%q` = `1`,
`%U` = `28`, `%f` = `26490000` and footnote 7's `7000` of the documentation before the repair are not
what formatting prints (July is quarter 3; 2001-07-08 is the 27th Sunday of 2001; `%f` is zero-padded
to nine digits) — and they are no longer in the table -/
theorem doc_examples_pinned_before_F31 :
    (∀ x ∈ exampleBeforeF31,
      formatItems (some (dateOfYo exYear exOrdinal)) (some exTime) (some (fixedOffsetName exOff, exOff))
        (items (37 :: str x.1)) ≠ some (str x.2) ∧ ∀ r ∈ docRows, r.spec = x.1 → r.ex ≠ x.2) ∧
    formatItems none (some ⟨0, 7000⟩) none (items (str "%f")) ≠ some (str footnote7BeforeF31) := by
  decide +kernel

/-! ### the entry points `NaiveDate / NaiveTime / NaiveDateTime / DateTime ::format` (audit gap MEDIUM-3) -/

/-- **`value.format(fmt)` for each of the four types** (`ParseFrom.format`, the model of
`format_with_items(StrftimeItems::new(fmt))` written into a `String`, compared with the crate by C13's
`pf.f` / `pf.rt` ops): a `NaiveDate` is shown with the date view only, a `NaiveTime` with
the time view only, a `NaiveDateTime` with both, a `DateTime` through its wall clock
(`overflowing_naive_local`) with its offset, the zone name being the offset's `Display`.  The result is
the concatenation of the documented texts of the items of `fmt` (`renderItemsOn`), and
`Err(fmt::Error)` as soon as one item reads a view the type does not have (e.g. `%H` on a `NaiveDate`,
`%z` on a `NaiveDateTime`) — never a panic, never other text.  `%s` on a `NaiveDateTime` counts from
UTC.  (`hf`: the RFC 2822 item is not produced by any specifier; it is decidable for a given `fmt`
and holds for every string of `format_string_items`.) -/
theorem entry_points_ok (fmt : List Nat) (hf : Item.fixed .rfc2822 ∉ items fmt)
    (Y : Int) (o : Nat) (hY : MIN_YEAR ≤ Y ∧ Y ≤ MAX_YEAR) (ho : 1 ≤ o ∧ o ≤ yearLen Y) (t : Time) (ht : TValid t)
    (off : Int) (hoff : -86400 < off ∧ off < 86400) :
    ParseFrom.format (.date (dateOfYo Y o)) fmt = (renderItemsOn dateViews (items fmt) Y o t off).elim werr wok ∧
    ParseFrom.format (.time t) fmt = (renderItemsOn timeViews (items fmt) Y o t off).elim werr wok ∧
    ParseFrom.format (.naive ⟨dateOfYo Y o, t⟩) fmt = (renderItemsOn naiveViews (items fmt) Y o t off).elim werr wok ∧
    (∀ z : Zoned, z.overflowing_naive_local = .ok ⟨dateOfYo Y o, t⟩ → z.off = off →
      ParseFrom.format (.zoned z) fmt = (renderItemsOn zonedViews (items fmt) Y o t off).elim werr wok) := by
  have h := fun hv => StrftimeDoc.items_on Y o hY ho t ht off hoff hv (items fmt) hf
  refine ⟨?_, ?_, ?_, fun z hl hz => ?_⟩
  · rw [← StrftimeDoc.toW_elim, ← h dateViews]; rfl
  · rw [← StrftimeDoc.toW_elim, ← h timeViews]; rfl
  · rw [← StrftimeDoc.toW_elim, ← h naiveViews]; rfl
  · rw [← StrftimeDoc.toW_elim, ← h zonedViews]
    simp only [ParseFrom.format, formatItemsOf, hl, hz, W.ofRes]; rfl

/-- **one documented specifier on each type, and which specifiers each type can print**: the text is
`renderItemOn`; the specifiers a `NaiveDate` prints are exactly the DATE SPECIFIERS (and `%t %n %%`),
a `NaiveTime` the TIME SPECIFIERS, a `NaiveDateTime` both plus `%s`, a `DateTime` everything except
the parsing-only `%#z`; every other documented specifier fails on that type -/
theorem entry_point_specifier (e : String × Item) (he : e ∈ docTable)
    (Y : Int) (o : Nat) (hY : MIN_YEAR ≤ Y ∧ Y ≤ MAX_YEAR) (ho : 1 ≤ o ∧ o ≤ yearLen Y) (t : Time) (ht : TValid t)
    (off : Int) (hoff : -86400 < off ∧ off < 86400) :
    (ParseFrom.format (.date (dateOfYo Y o)) (37 :: str e.1) = (renderItemOn dateViews e.2 Y o t off).elim werr wok ∧
     ParseFrom.format (.time t) (37 :: str e.1) = (renderItemOn timeViews e.2 Y o t off).elim werr wok ∧
     ParseFrom.format (.naive ⟨dateOfYo Y o, t⟩) (37 :: str e.1) = (renderItemOn naiveViews e.2 Y o t off).elim werr wok ∧
     (∀ z : Zoned, z.overflowing_naive_local = .ok ⟨dateOfYo Y o, t⟩ → z.off = off →
       ParseFrom.format (.zoned z) (37 :: str e.1) = (renderItemOn zonedViews e.2 Y o t off).elim werr wok)) ∧
    ((renderItemOn dateViews e.2 Y o t off).isSome ↔
       e.1 ∈ ["Y", "C", "y", "q", "m", "b", "B", "h", "d", "e", "a", "A", "w", "u", "U", "W", "G", "g", "V", "j", "t", "n", "%"]) ∧
    ((renderItemOn timeViews e.2 Y o t off).isSome ↔
       e.1 ∈ ["H", "k", "I", "l", "P", "p", "M", "S", "f", ".f", ".3f", ".6f", ".9f", "3f", "6f", "9f", "t", "n", "%"]) ∧
    ((renderItemOn naiveViews e.2 Y o t off).isSome ↔ e.1 ∉ ["Z", "z", ":z", "::z", ":::z", "#z", "+"]) ∧
    ((renderItemOn zonedViews e.2 Y o t off).isSome ↔ e.1 ≠ "#z") := by
  have hne : ∀ e ∈ docTable, e.2 ≠ Item.fixed .rfc2822 := by decide
  have h := fun hv => StrftimeDoc.item_on Y o hY ho t ht off hoff hv e.2 (hne e he)
  refine ⟨⟨?_, ?_, ?_, fun z hl hz => ?_⟩, ?_⟩
  · rw [← StrftimeDoc.toW_elim, ← h dateViews]
    unfold ParseFrom.format
    rw [documented_items.1 e he]
    exact StrftimeDoc.single _ _ _ _
  · rw [← StrftimeDoc.toW_elim, ← h timeViews]
    unfold ParseFrom.format
    rw [documented_items.1 e he]
    exact StrftimeDoc.single _ _ _ _
  · rw [← StrftimeDoc.toW_elim, ← h naiveViews]
    unfold ParseFrom.format
    rw [documented_items.1 e he]
    exact StrftimeDoc.single _ _ _ _
  · rw [← StrftimeDoc.toW_elim, ← h zonedViews]
    simp only [ParseFrom.format, formatItemsOf, hl, hz, W.ofRes, documented_items.1 e he]
    exact StrftimeDoc.single _ _ _ _
  · have key : ∀ e ∈ docTable,
        ((viewsOf e.2).le dateViews = true ↔
          e.1 ∈ ["Y", "C", "y", "q", "m", "b", "B", "h", "d", "e", "a", "A", "w", "u", "U", "W", "G", "g", "V", "j", "t", "n", "%"]) ∧
        ((viewsOf e.2).le timeViews = true ↔
          e.1 ∈ ["H", "k", "I", "l", "P", "p", "M", "S", "f", ".f", ".3f", ".6f", ".9f", "3f", "6f", "9f", "t", "n", "%"]) ∧
        ((viewsOf e.2).le naiveViews = true ↔ e.1 ∉ ["Z", "z", ":z", "::z", ":::z", "#z", "+"]) ∧
        ((viewsOf e.2).le zonedViews = true ∧ e.2 ≠ .fixed .timezoneOffsetPermissive ↔ e.1 ≠ "#z") ∧
        (e.2 = .fixed .timezoneOffsetPermissive → (viewsOf e.2).le dateViews = false ∧
          (viewsOf e.2).le timeViews = false ∧ (viewsOf e.2).le naiveViews = false) ∧ e.2 ≠ .error := by
      decide +kernel
    obtain ⟨k1, k2, k3, k4, k5, k6⟩ := key e he
    have some_iff : ∀ hv : Views, (renderItemOn hv e.2 Y o t off).isSome ↔
        ((viewsOf e.2).le hv = true ∧ e.2 ≠ .fixed .timezoneOffsetPermissive) := by
      intro hv
      unfold renderItemOn
      cases hle : (viewsOf e.2).le hv
      · simp
      · simp only [if_true, true_and]
        cases h2 : e.2 with
        | literal s => simp [renderItem]
        | space s => simp [renderItem]
        | numeric n p => simp [renderItem]
        | error => exact absurd h2 k6
        | fixed f =>
          have : f ≠ .rfc2822 := fun hh => hne e he (by rw [h2, hh])
          cases f <;> simp [renderItem, renderFixed] <;> exact absurd rfl this
    refine ⟨?_, ?_, ?_, ?_⟩
    · rw [some_iff, ← k1]
      constructor
      · exact fun h => h.1
      · intro h; exact ⟨h, fun hp => by rw [(k5 hp).1] at h; cases h⟩
    · rw [some_iff, ← k2]
      constructor
      · exact fun h => h.1
      · intro h; exact ⟨h, fun hp => by rw [(k5 hp).2.1] at h; cases h⟩
    · rw [some_iff, ← k3]
      constructor
      · exact fun h => h.1
      · intro h; exact ⟨h, fun hp => by rw [(k5 hp).2.2] at h; cases h⟩
    · rw [some_iff, ← k4]


/-- non-vacuity of the documentation-table and entry-point families: the table has 47 single-item rows
and 9 composite rows; `%m`, `%e`, `%-j`, `%_j` as TEXT on 2001-01-12; a `NaiveDate` prints `%j` and
fails on `%H`; a `NaiveDateTime` prints `%s` from UTC and fails on `%z`; a `DateTime` whose hypotheses
are met (2024-01-31T23:59:50 UTC at +00:00:17 reads 2024-02-01T00:00:07) -/
example :
    docTable.length = 47 ∧ docComposites.length = 9 ∧ ("m", Item.numeric .month .zero) ∈ docTable ∧
    ("e", Item.numeric .day .space) ∈ docTable ∧
    renderItem (.numeric .day .space) 2001 12 ⟨0, 0⟩ 0 = str "12" ∧
    renderNumeric .ordinal .none 2001 12 ⟨0, 0⟩ 0 = str "12" ∧ renderNumeric .ordinal .space 2001 12 ⟨0, 0⟩ 0 = str " 12" ∧
    ParseFrom.format (.date (dateOfYo 2001 12)) (str "%j") = wok (str "012") ∧
    ParseFrom.format (.date (dateOfYo 2001 12)) (str "%H") = werr ∧
    ParseFrom.format (.naive ⟨dateOfYo 2001 189, ⟨2099, 1026490000⟩⟩) (str "%s") = wok (str "994552499") ∧
    ParseFrom.format (.naive ⟨dateOfYo 2001 189, ⟨2099, 0⟩⟩) (str "%z") = werr ∧
    Zoned.overflowing_naive_local ⟨⟨dateOfYo 2024 31, ⟨86390, 0⟩⟩, 17⟩ = .ok ⟨dateOfYo 2024 32, ⟨7, 0⟩⟩ ∧
    ParseFrom.format (.zoned ⟨⟨dateOfYo 2024 31, ⟨86390, 0⟩⟩, 17⟩) (str "%F %T %Z") =
      wok (str "2024-02-01 00:00:07 +00:00:17") ∧
    renderItemsOn zonedViews (items (str "%F %T %Z")) 2024 32 ⟨7, 0⟩ 17 = some (str "2024-02-01 00:00:07 +00:00:17") := by
  decide +kernel


/-! ### whole format strings (audit gap MEDIUM-2) and unknown specifiers (audit gap MEDIUM-4) -/

/-- **the tokenizer on `specifier ++ rest`**: for every complete documented specifier text `a`
(`specTexts`: `%` + a row of the table, or `%` + padding modifier + a numeric row; 125 strings) and
EVERY continuation `b`, the items are those of `a` followed by those of `b`, and so the text is the
text of `a` followed by the text of `b` (same failure, same panic) -/
theorem items_append (a b : List Nat) (ha : a ∈ specTexts) :
    items (a ++ b) = items a ++ items b ∧
    ∀ d t off, formatItemsR d t off (items (a ++ b)) =
      (formatItemsR d t off (items a)).seq (formatItemsR d t off (items b)) := by
  have h := StrftimeAppend.items_append a b ha
  exact ⟨h, fun d t off => by rw [h, FormatL.formatItemsR_append]⟩

/-- **format strings built from the documented specifiers**: a string that is any sequence of
complete specifier texts followed by `%`-free text `lit` tokenizes specifier by specifier, its text is
the concatenation of the specifier texts (each given by `specifier_ok` / `composite_eq_expansion`)
followed by `lit` unchanged, and no item is the RFC 2822 item (the hypothesis of `entry_points_ok`).
`_partial`: literal text BETWEEN two specifiers is not covered (only text after the last one; `%t %n
%%` and the composites do carry separators) — that needs the alignment of the literal / white-space
run scanners with the `%` that ends the run, which is not proved; the harness compares such strings
(oracle "text of a format string is not the concatenation of its items"). -/
theorem format_string_partial (chunks : List (List Nat)) (hc : ∀ a ∈ chunks, a ∈ specTexts)
    (lit : List Nat) (hl : ∀ b ∈ lit, b ≠ 37) :
    items (chunks.flatten ++ lit) = (chunks.map items).flatten ++ items lit ∧
    (∀ d t off, formatItemsR d t off (items (chunks.flatten ++ lit)) =
      chunks.foldr (fun a acc => (formatItemsR d t off (items a)).seq acc) (wok lit)) ∧
    Item.fixed .rfc2822 ∉ items chunks.flatten := by
  have h1 := StrftimeAppend.items_flatten chunks hc lit
  refine ⟨h1, fun d t off => ?_, ?_⟩
  · rw [h1]
    have hlit : formatItemsR d t off (items lit) = wok lit := by
      unfold items
      exact FormatL.literal_copied_aux false d t off _ lit (by omega) hl
    clear h1
    induction chunks with
    | nil => simpa using hlit
    | cons a rest ih =>
      simp only [List.map_cons, List.flatten_cons, List.append_assoc, List.foldr_cons]
      rw [FormatL.formatItemsR_append, ih (fun x hx => hc x (List.mem_cons_of_mem _ hx))]
  · have h0 := StrftimeAppend.items_flatten chunks hc []
    rw [List.append_nil] at h0
    rw [h0]
    have key : ∀ a ∈ StrftimeAppend.specTextsLit, Item.fixed .rfc2822 ∉ items a := by decide +kernel
    intro hmem
    rw [show items [] = [] from rfl, List.append_nil, List.mem_flatten] at hmem
    obtain ⟨l, hl1, hl2⟩ := hmem
    rw [List.mem_map] at hl1
    obtain ⟨a, ha, rfl⟩ := hl1
    exact key a (by rw [← StrftimeAppend.specTexts_eq]; exact hc a ha) hl2

/-- **an unknown or malformed specifier makes formatting fail, wherever it stands** (strict mode,
the mode of every `format` method):
(1) a byte after `%` that has no arm and is not a modifier or one of `z : . 3 6 9` — every
undocumented letter and EVERY non-ASCII lead byte (any value ≥ 123) — turns the whole rest of the
string into one `Item::Error`, whatever follows;
(2) the same behind a padding modifier (`%-Q…`, `%0é…`);
(3) exhaustively over all byte values: the truncated specifiers (`%`, `%-`, `%.`, `%.3`, `%:`, `%::`,
`%#` … at the end of the string) and every one-byte continuation of `%`, `%-` `%0` `%_` `%#`, `%.`,
`%.3 %.6 %.9`, `%3 %6 %9`, `%:`, `%::`, `%:::` start with `Item::Error` unless the bytes are one of the
documented specifier texts — in particular a padding modifier on a non-numeric or composite specifier
(`%-a`, `%0Z`, `%-D`, `%_%`) and `#` on anything but `z`;
(4) after any sequence of complete specifiers the error is still there and nothing is formatted. -/
theorem unknown_fails :
    (∀ c rest, specTable c = none → c ∉ [45, 48, 95, 35, 122, 58, 46, 51, 54, 57] →
      items (37 :: c :: rest) = [Item.error]) ∧
    (∀ c rest, 123 ≤ c → items (37 :: c :: rest) = [Item.error]) ∧
    (∀ m ∈ [45, 48, 95], ∀ c rest, (specTable c = none ∧ c ∉ [122, 58, 46, 51, 54, 57] ∨ 123 ≤ c) →
      items (37 :: m :: c :: rest) = [Item.error]) ∧
    ((∀ a ∈ [[37], [37, 45], [37, 48], [37, 95], [37, 35], [37, 46], [37, 51], [37, 54], [37, 57], [37, 46, 51],
            [37, 46, 54], [37, 46, 57], [37, 58], [37, 58, 58], [37, 58, 58, 58], [37, 45, 46], [37, 35, 58],
            [37, 45, 51], [37, 45, 58]],
      (items a).head? = some Item.error) ∧
     (∀ c < 256, items [37, c] = [Item.error] ∨ [37, c] ∈ specTexts) ∧
     (∀ m ∈ [45, 48, 95, 35], ∀ c < 256, (items [37, m, c]).head? = some Item.error ∨ [37, m, c] ∈ specTexts) ∧
     (∀ c < 256, (items [37, 46, c]).head? = some Item.error ∨ [37, 46, c] ∈ specTexts) ∧
     (∀ d ∈ [51, 54, 57], ∀ c < 256,
       ((items [37, 46, d, c]).head? = some Item.error ∨ [37, 46, d, c] ∈ specTexts) ∧
       ((items [37, d, c]).head? = some Item.error ∨ [37, d, c] ∈ specTexts)) ∧
     (∀ c < 256, (items [37, 58, c]).head? = some Item.error ∨ [37, 58, c] ∈ specTexts) ∧
     (∀ c < 256, (items [37, 58, 58, c]).head? = some Item.error ∨ [37, 58, 58, c] ∈ specTexts) ∧
     (∀ c < 256, (items [37, 58, 58, 58, c]).head? = some Item.error ∨ [37, 58, 58, 58, c] ∈ specTexts)) ∧
    (∀ (chunks : List (List Nat)), (∀ a ∈ chunks, a ∈ specTexts) → ∀ bad, Item.error ∈ items bad →
      ∀ d t off, Item.error ∈ items (chunks.flatten ++ bad) ∧
        formatItems d t off (items (chunks.flatten ++ bad)) = none) := by
  have hbig : ∀ c, 123 ≤ c → specTable c = none ∧ c ∉ [45, 48, 95, 35, 122, 58, 46, 51, 54, 57] := by
    intro c hc
    refine ⟨StrftimeAppend.specTable_none_of_gt c (by omega), ?_⟩
    simp only [List.mem_cons, List.mem_nil_iff, or_false, not_or]
    omega
  refine ⟨fun c rest hs hc => StrftimeAppend.unknown_letter c rest hs hc,
    fun c rest hc => StrftimeAppend.unknown_letter c rest (hbig c hc).1 (hbig c hc).2, ?_, ?_, ?_⟩
  · intro m hm c rest h
    rcases h with ⟨hs, hc⟩ | hc
    · exact StrftimeAppend.unknown_after_modifier m c rest hm hs hc
    · refine StrftimeAppend.unknown_after_modifier m c rest hm (hbig c hc).1 ?_
      simp only [List.mem_cons, List.mem_nil_iff, or_false, not_or]
      omega
  · rw [StrftimeAppend.specTexts_eq]
    exact StrftimeAppend.unknown_fin
  · intro chunks hc bad hb d t off
    have h := StrftimeAppend.items_flatten chunks hc bad
    have hm : Item.error ∈ items (chunks.flatten ++ bad) := by
      rw [h]; exact List.mem_append_right _ hb
    exact ⟨hm, FormatL.formatItems_error d t off _ hm⟩

/-- non-vacuity: `%Y-%m-%d` is not in the chunk grammar (literal `-` between specifiers) but
`%Y%m%d`, `%F%t%T%n%-j%%` followed by trailing text are; `%-D`, `%0Z`, `%.3x`, `%é`, `%-é` fail, also
after `%Y%m` -/
example :
    [str "%F", str "%t", str "%T", str "%n", str "%-j", str "%%"].all (· ∈ specTexts) = true ∧
    items ([str "%F", str "%t", str "%T", str "%n", str "%-j", str "%%"].flatten ++ str " ok") =
      ([str "%F", str "%t", str "%T", str "%n", str "%-j", str "%%"].map items).flatten ++ items (str " ok") ∧
    formatItems (some (dateOfYo 2001 12)) (some ⟨2099, 0⟩) none (items (str "%F%t%T%n%-j%% ok")) =
      some (str "2001-01-12\t00:34:59\n12% ok") ∧
    items (str "%é") = [Item.error] ∧ items (str "%-é") = [Item.error] ∧ items (str "%.3x") = [Item.error] ∧
    Item.error ∈ items (str "%Y%m%0Z") ∧ specTable 81 = none ∧
    formatItems (some (dateOfYo 2001 12)) (some ⟨2099, 0⟩) none (items (str "%Y%m%-D")) = none := by
  decide +kernel


/-! ### round 3: arbitrary format strings -/

/-- **`StrftimeItems` never yields the RFC 2822 item** — for EVERY format string (any bytes, also
malformed specifiers and ill-formed UTF-8), strict (`StrftimeItems::new`, the mode of every `format`
method) and lenient: proved from the model of `parse_next_item` (every arm of the specifier table, the
`z : . 3 6 9` arms, the padding rewrite, the error path, the text arms; `Fixed::RFC2822` is only written
by `to_rfc2822`).  This is the hypothesis `hf` of `entry_points_ok`, now discharged for arbitrary
strings. -/
theorem strftime_never_rfc2822 (fmt : List Nat) :
    Item.fixed .rfc2822 ∉ items fmt ∧ Item.fixed .rfc2822 ∉ itemsLenient fmt ∧
    (∀ (l : Bool) (s : List Nat) r, parse_next_item l s = some r →
      r.2.1 ≠ Item.fixed .rfc2822 ∧ Item.fixed .rfc2822 ∉ r.2.2) := by
  refine ⟨StrftimeNoRfc.no_rfc2822 false _ fmt, StrftimeNoRfc.no_rfc2822 true _ fmt, fun l s r h => ?_⟩
  obtain ⟨h1, h2⟩ := StrftimeNoRfc.parse_next_item_ok l s r h
  refine ⟨(StrftimeNoRfc.okB_iff _).mp h1, fun hm => ?_⟩
  have := List.all_eq_true.mp h2 _ hm
  cases this

/-- **the entry points on ARBITRARY format strings**: `entry_points_ok` without its hypothesis on the
item list — for every byte string `fmt` whatsoever (unknown specifiers included: then `renderItemsOn`
is `none` and formatting fails) `value.format(fmt)` of a `NaiveDate`, `NaiveTime`, `NaiveDateTime`,
`DateTime` is the concatenation of the documented item texts on the views the type has, or
`Err(fmt::Error)`; never a panic, never other text -/
theorem entry_points_any_string (fmt : List Nat)
    (Y : Int) (o : Nat) (hY : MIN_YEAR ≤ Y ∧ Y ≤ MAX_YEAR) (ho : 1 ≤ o ∧ o ≤ yearLen Y) (t : Time) (ht : TValid t)
    (off : Int) (hoff : -86400 < off ∧ off < 86400) :
    ParseFrom.format (.date (dateOfYo Y o)) fmt = (renderItemsOn dateViews (items fmt) Y o t off).elim werr wok ∧
    ParseFrom.format (.time t) fmt = (renderItemsOn timeViews (items fmt) Y o t off).elim werr wok ∧
    ParseFrom.format (.naive ⟨dateOfYo Y o, t⟩) fmt = (renderItemsOn naiveViews (items fmt) Y o t off).elim werr wok ∧
    (∀ z : Zoned, z.overflowing_naive_local = .ok ⟨dateOfYo Y o, t⟩ → z.off = off →
      ParseFrom.format (.zoned z) fmt = (renderItemsOn zonedViews (items fmt) Y o t off).elim werr wok) :=
  entry_points_ok fmt (strftime_never_rfc2822 fmt).1 Y o hY ho t ht off hoff

/-- **format strings built from the documented specifiers, literal text and white space in any
order** (the property's "arbitrary format strings built from them"): a format string given as a list of
segments `(text, specifier)` — `text` any `%`-free run of well-formed UTF-8 (literal characters and white
space mixed, any Unicode, possibly empty), `specifier` a complete documented specifier text (`specTexts`,
125 strings: `%` + a row of the table or `%` + padding modifier + numeric row) — followed by trailing
`%`-free text `lit`:
(1) the tokenizer cuts it segment by segment: the items of each text run, then the items of the
    specifier (the run scanners `litSpan` / `wsSpan` stop at the `%`, the specifier reader consumes
    exactly the specifier);
(2) the formatted text is, for every value, each text run copied UNCHANGED followed by the text of its
    specifier (given by `specifier_ok` / `specifier_pad_ok` / `composite_eq_expansion`), then `lit`
    unchanged — with the same failure and the same panic behaviour (`W.seq`);
(3) no item is `Item::Error` and none is the RFC 2822 item, so `entry_points_ok` applies.
Well-formedness of the text runs is the only hypothesis beyond the grammar (a Rust `&str` cut at the
ASCII byte `%` always satisfies it); it is needed: after a stray lead byte the literal scanner would
step over the `%`.  Supersedes `format_string_partial` (text only after the last specifier). -/
theorem format_string_ok (segs : List (List Nat × List Nat)) (lit : List Nat)
    (hs : ∀ p ∈ segs, (∀ b ∈ p.1, b ≠ 37) ∧ Chrono.M.Tz.validUtf8 p.1 = true ∧ p.2 ∈ specTexts)
    (hl : ∀ b ∈ lit, b ≠ 37) :
    items ((segs.map fun p => p.1 ++ p.2).flatten ++ lit) =
      (segs.map fun p => items p.1 ++ items p.2).flatten ++ items lit ∧
    (∀ d t off, formatItemsR d t off (items ((segs.map fun p => p.1 ++ p.2).flatten ++ lit)) =
      segs.foldr (fun p acc => (wok p.1).seq ((formatItemsR d t off (items p.2)).seq acc)) (wok lit)) ∧
    Item.error ∉ items ((segs.map fun p => p.1 ++ p.2).flatten ++ lit) ∧
    Item.fixed .rfc2822 ∉ items ((segs.map fun p => p.1 ++ p.2).flatten ++ lit) := by
  have h1 := StrftimeText.items_segments segs hs lit
  have hcopy : ∀ (s : List Nat), (∀ b ∈ s, b ≠ 37) → ∀ d t off, formatItemsR d t off (items s) = wok s := by
    intro s hs d t off
    unfold items
    exact FormatL.literal_copied_aux false d t off _ s (by omega) hs
  refine ⟨h1, fun d t off => ?_, ?_, (strftime_never_rfc2822 _).1⟩
  · rw [h1]
    clear h1
    induction segs with
    | nil => simpa using hcopy lit hl d t off
    | cons p rest ih =>
      simp only [List.map_cons, List.flatten_cons, List.append_assoc, List.foldr_cons]
      rw [FormatL.formatItemsR_append, FormatL.formatItemsR_append, hcopy p.1 (hs p (by simp)).1,
        ih (fun x hx => hs x (List.mem_cons_of_mem _ hx))]
  · rw [h1]
    have hne : ∀ (s : List Nat), (∀ b ∈ s, b ≠ 37) → Item.error ∉ items s := by
      intro s hs hm
      have h := hcopy s hs none none none
      have := FormatL.formatItems_error none none none _ hm
      unfold formatItems at this
      rw [h] at this
      cases this
    have key : ∀ a ∈ StrftimeAppend.specTextsLit, Item.error ∉ items a := by decide +kernel
    intro hm
    rw [List.mem_append, List.mem_flatten] at hm
    rcases hm with ⟨l, hl1, hl2⟩ | hm
    · rw [List.mem_map] at hl1
      obtain ⟨p, hp, rfl⟩ := hl1
      rw [List.mem_append] at hl2
      rcases hl2 with h | h
      · exact hne p.1 (hs p hp).1 h
      · exact key p.2 (by rw [← StrftimeAppend.specTexts_eq]; exact (hs p hp).2.2) h
    · exact hne lit hl hm

/-- non-vacuity of `format_string_ok`: `%Y-%m-%d` (literal `-` between specifiers), the documentation's
`%d/%m/%Y %H:%M`, and a string with Unicode text and mixed white space between specifiers (space, `é` =
C3 A9, U+3000 = E3 80 80, tab, ` x `) are in the grammar; the text is the concatenation -/
example :
    let u : List Nat := [32, 195, 169, 227, 128, 128, 9, 32, 120, 32]
    let segs : List (List Nat × List Nat) :=
      [([], str "%Y"), (str "-", str "%m"), (str "-", str "%d"), (u, str "%H"), (str ":", str "%-M")]
    (∀ p ∈ segs, (∀ b ∈ p.1, b ≠ 37) ∧ Chrono.M.Tz.validUtf8 p.1 = true ∧ p.2 ∈ specTexts) ∧
    (segs.map fun p => p.1 ++ p.2).flatten ++ str " h" = str "%Y-%m-%d" ++ u ++ str "%H:%-M h" ∧
    formatItems (some (dateOfYo 2001 12)) (some ⟨2099, 0⟩) none (items (str "%Y-%m-%d" ++ u ++ str "%H:%-M h")) =
      some (str "2001-01-12" ++ u ++ str "00:34 h") ∧
    items (str "%d" ++ u ++ str "%m") = [.numeric .day .zero, .space [32], .literal [195, 169], .space [227, 128, 128, 9, 32],
      .literal [120], .space [32], .numeric .month .zero] ∧
    items (str "%d/%m/%Y %H:%M") = [.numeric .day .zero, .literal [47], .numeric .month .zero, .literal [47],
      .numeric .year .zero, .space [32], .numeric .hour .zero, .literal [58], .numeric .minute .zero] ∧
    Item.fixed .rfc2822 ∉ items (str "%Q%") ∧
    -- ill-formed text: after the stray lead byte C3 the literal scanner steps over the `%`
    items ([195] ++ str "%d") = [.literal [195, 37, 100]] := by
  decide +kernel


/-! ### round 3: every wall clock a `DateTime` can have, and `DateTime<Utc>` -/

/-- **the two headroom wall-clock dates**: a `DateTime` whose wall clock (`overflowing_naive_local`)
lies one day outside the range — `Date.BEFORE_MIN` = -262144-12-31 for a value within |offset| of
`MIN_UTC` viewed at a negative offset, `Date.AFTER_MAX` = +262143-01-01 near `MAX_UTC` at a positive
offset — is formatted, for EVERY format string, as the calendar's own day 366 of year `MIN_YEAR − 1`
resp. day 1 of year `MAX_YEAR + 1`: the same `renderItemsOn` as inside the range (all numeric items
with all paddings, names, `%s`, `%+`, offsets), never a panic.  The date-only items are settled by
kernel evaluation against the Spec calendar (`StrftimeHeadroom.head_eval`; C04's
`format_headroom_dates` pins the same texts as literals for 22 specifiers), `%s` and `%+` by the
generic arguments (no `i64` overflow: |day number| ≤ 95 746 130). -/
theorem entry_points_headroom (fmt : List Nat) (t : Time) (ht : TValid t) (z : Zoned)
    (hoff : -86400 < z.off ∧ z.off < 86400) :
    (z.overflowing_naive_local = .ok ⟨Date.BEFORE_MIN, t⟩ →
      ParseFrom.format (.zoned z) fmt =
        (renderItemsOn zonedViews (items fmt) (MIN_YEAR - 1) 366 t z.off).elim werr wok) ∧
    (z.overflowing_naive_local = .ok ⟨Date.AFTER_MAX, t⟩ →
      ParseFrom.format (.zoned z) fmt =
        (renderItemsOn zonedViews (items fmt) (MAX_YEAR + 1) 1 t z.off).elim werr wok) := by
  have hf := (strftime_never_rfc2822 fmt).1
  constructor
  · intro hl
    simp only [ParseFrom.format, formatItemsOf, hl, W.ofRes]
    rw [StrftimeHeadroom.items_full _ _ _ StrftimeHeadroom.dateOk_before_min t ht z.off hoff _ hf,
      StrftimeDoc.toW_elim]
  · intro hl
    simp only [ParseFrom.format, formatItemsOf, hl, W.ofRes]
    rw [StrftimeHeadroom.items_full _ _ _ StrftimeHeadroom.dateOk_after_max t ht z.off hoff _ hf,
      StrftimeDoc.toW_elim]

/-- **`DateTime::format` is total and documented on EVERY well-formed value and EVERY format string**:
for any `DateTime<FixedOffset>` satisfying the type's invariant (`ZInv`: UTC reading in the range, valid
time, |offset| < 86400) the wall clock exists, is a valid time on a date `(Y, o)` that is a date of the
range or one of the two headroom days, and `format(fmt)` is the concatenation of the documented item
texts for that date, time and offset — or `Err(fmt::Error)` exactly when `renderItemsOn` is `none`
(unknown specifier, parsing-only `%#z`); never a panic.  No hypothesis on `fmt`, none on the wall
clock. -/
theorem datetime_format_total (z : Zoned) (hz : ZInv z) (fmt : List Nat) :
    ∃ (l : NaiveDT) (Y : Int) (o : Nat), z.overflowing_naive_local = .ok l ∧ TValid l.time ∧
      ((MIN_YEAR ≤ Y ∧ Y ≤ MAX_YEAR) ∧ (1 ≤ o ∧ o ≤ yearLen Y) ∧ l.date = dateOfYo Y o ∨
       l.date = Date.BEFORE_MIN ∧ Y = MIN_YEAR - 1 ∧ o = 366 ∨
       l.date = Date.AFTER_MAX ∧ Y = MAX_YEAR + 1 ∧ o = 1) ∧
      ParseFrom.format (.zoned z) fmt = (renderItemsOn zonedViews (items fmt) Y o l.time z.off).elim werr wok := by
  obtain ⟨l, h1, h2, _⟩ := Proofs.naive_local_spec z hz
  obtain ⟨_, _, _, hho, _⟩ := Proofs.ZN.wall_date_cases z hz l h1
  obtain ⟨ld, lt⟩ := l
  have ht : TValid lt := h2.2
  have hoff : -86400 < z.off ∧ z.off < 86400 := hz.2
  rcases hho with hin | hb | ha
  · obtain ⟨o, he, _, hy1, hy2, ho1, ho2⟩ := Proofs.Ts.dateInv_repr ld hin
    try dsimp only at he
    refine ⟨⟨ld, lt⟩, ld.year, o, h1, ht, Or.inl ⟨⟨hy1, hy2⟩, ⟨ho1, ho2⟩, he⟩, ?_⟩
    exact (entry_points_any_string fmt ld.year o ⟨hy1, hy2⟩ ⟨ho1, ho2⟩ lt ht z.off hoff).2.2.2 z
      (by rw [h1, ← he]) rfl
  · try dsimp only at hb
    subst hb
    exact ⟨_, _, _, h1, ht, Or.inr (Or.inl ⟨rfl, rfl, rfl⟩), (entry_points_headroom fmt lt ht z hoff).1 h1⟩
  · try dsimp only at ha
    subst ha
    exact ⟨_, _, _, h1, ht, Or.inr (Or.inr ⟨rfl, rfl, rfl⟩), (entry_points_headroom fmt lt ht z hoff).2 h1⟩

/-- **`DateTime<Utc>`: `%Z` prints `UTC`** (`ParseFrom.formatUtc`: the name handed to the formatter is
`Utc`'s `Display`, the offset is 0).  For every date of the range, every time and EVERY format string
the text is `renderItemsNamed utcName`: `%Z` items print the three bytes `UTC`, every other item prints
what it prints for the offset `+00:00` (`%z` = `+0000`, `%:z` = `+00:00`, `%s` from UTC, `%+` with
`+00:00`); the wall clock of a `DateTime<Utc>` is its UTC reading (never a headroom day).
Note: the documentation row of `%Z` says "Identical to `%:z` when formatting" (footnote 8: "only prints
the offset"); that sentence describes `FixedOffset` (`specifier_ok`: `zoneText`), for `Utc` the code
prints the name `UTC`, not `+00:00` — stated here as what it is. -/
theorem utc_format_ok (fmt : List Nat) (t : Time) (ht : TValid t) :
    (∀ (Y : Int) (o : Nat), MIN_YEAR ≤ Y ∧ Y ≤ MAX_YEAR → 1 ≤ o ∧ o ≤ yearLen Y →
      ParseFrom.formatUtc ⟨dateOfYo Y o, t⟩ fmt = (renderItemsNamed utcName (items fmt) Y o t 0).elim werr wok) ∧
    (∀ d : Date, ParseFrom.formatUtc ⟨d, t⟩ (str "%Z") = wok (str "UTC")) ∧
    (∀ d : Date, Zoned.overflowing_naive_local ⟨⟨d, t⟩, 0⟩ = .ok ⟨d, t⟩) ∧
    TextForms.utc_display = utcName ∧ utcName = str "UTC" := by
  refine ⟨fun Y o hY ho => ?_, fun d => ?_, fun d => StrftimeHeadroom.utc_wall d t ht, by decide, by decide⟩
  · unfold ParseFrom.formatUtc
    rw [StrftimeHeadroom.utc_wall _ t ht]
    simp only [W.ofRes]
    rw [StrftimeHeadroom.items_named _ _ _ (StrftimeHeadroom.dateOk_range Y o hY ho) t ht 0 (by omega) _ _
      (strftime_never_rfc2822 fmt).1, StrftimeDoc.toW_elim]
    rfl
  · unfold ParseFrom.formatUtc
    rw [StrftimeHeadroom.utc_wall _ t ht]
    have : items (str "%Z") = [.fixed .timezoneName] := by decide
    simp only [W.ofRes, this]
    rfl

/-- non-vacuity of the round-3 entry-point families: `MAX_UTC` viewed at +01:00 reads
+262143-01-01T00:59:59 (the input of the fixed findings F04/F06), `MIN_UTC` at −00:00:01 reads
-262144-12-31T23:59:59; a `DateTime<Utc>` prints `UTC` for `%Z` where the same instant at
`FixedOffset` 0 prints `+00:00` -/
example :
    ZInv ⟨NaiveDT.MAX, 3600⟩ ∧
    Zoned.overflowing_naive_local ⟨NaiveDT.MAX, 3600⟩ = .ok ⟨Date.AFTER_MAX, ⟨3599, 999999999⟩⟩ ∧
    ParseFrom.format (.zoned ⟨NaiveDT.MAX, 3600⟩) (str "%Y-%m-%d %j %a %U %G-W%V %_C|%y %H:%M:%S %z") =
      wok (str "+262143-01-01 001 Tue 00 +262143-W01 2621|43 00:59:59 +0100") ∧
    renderItemsOn zonedViews (items (str "%F %A %-d %s")) (MAX_YEAR + 1) 1 ⟨3599, 0⟩ 3600 =
      some (str "+262143-01-01 Tuesday 1 8210266876799") ∧
    Zoned.overflowing_naive_local ⟨NaiveDT.MIN, -1⟩ = .ok ⟨Date.BEFORE_MIN, ⟨86399, 0⟩⟩ ∧
    ParseFrom.format (.zoned ⟨NaiveDT.MIN, -1⟩) (str "%F %j %A %W %G %g %C %Z") =
      wok (str "-262144-12-31 366 Wednesday 52 -262143 57 -2622 -00:00:01") ∧
    ParseFrom.formatUtc ⟨dateOfYo 2001 189, ⟨2099, 0⟩⟩ (str "%F %T %Z %z %:z") =
      wok (str "2001-07-08 00:34:59 UTC +0000 +00:00") ∧
    ParseFrom.format (.zoned ⟨⟨dateOfYo 2001 189, ⟨2099, 0⟩⟩, 0⟩) (str "%Z") = wok (str "+00:00") := by
  decide +kernel


end Chrono.Props.C12
