/-
  C12 — every strftime specifier renders the documented field (stage 1: models + correspondence;
  the property theorems are added in the following stages).
-/
import Chrono.Model.Strftime
import Chrono.Model.Format
namespace Chrono.Props.C12
open Chrono Chrono.M Chrono.M.Strftime

/-- `%F` is `%Y-%m-%d` item for item (placeholder obligation of stage 1) -/
theorem composite_F : items [37, 70] = items [37, 89, 45, 37, 109, 45, 37, 100] := by decide

end Chrono.Props.C12
