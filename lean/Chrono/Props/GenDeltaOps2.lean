/-
  C06, code translation tie, third part: the operator impls of `TimeDelta` — `impl Add`, `impl Sub` (the METHOD
  `Option::expect`), `impl AddAssign`, `impl SubAssign` (`&mut self`: read as the function from the old value of
  `*self` to the new one) and `impl Mul<i32>`, `impl Div<i32>` (impls whose only generic part is the trait's
  argument) — as regenerated from src/time_delta.rs on every run (lean/Chrono/Extracted/GenDeltaOps.lean) equal the
  hand-written model (Model/DeltaOps.lean) for all arguments of the machine types.  Nothing of the second target
  list is refused any more (`refused_ops_none`).
-/
import Chrono.Props.GenDeltaOps

namespace Chrono.Props.GenDeltaOps2
open Chrono Chrono.M Chrono.Extracted Chrono.Proofs.GenL Chrono.Props.GenDelta

theorem expect_tail (r : Res (Option Delta)) (g : Res (Option Gen.time_delta.TimeDelta))
    (h : g = rmap (Option.map dG) r) :
    (Res.bind g fun r1 =>
      match r1 with
      | some r2 => Res.ok r2
      | none => Res.panic)
    = rmap dG (r.bind fun o => Delta.expect o) := by
  subst h
  cases r with
  | panic => rfl
  | ok o => cases o <;> rfl

theorem gen_op_add_eq (a b : Delta) :
    Gen.time_delta.TimeDelta.Add.add (dG a) (dG b) = rmap dG (Delta.add a b) :=
  expect_tail _ _ (gen_checked_add_eq a b)

theorem gen_op_sub_eq (a b : Delta) :
    Gen.time_delta.TimeDelta.Sub.sub (dG a) (dG b) = rmap dG (Delta.sub a b) :=
  expect_tail _ _ (gen_checked_sub_eq a b)

/-- `a += b`: the new value of `a` -/
theorem gen_op_add_assign_eq (a b : Delta) :
    Gen.time_delta.TimeDelta.AddAssign.add_assign (dG a) (dG b) = rmap dG (Delta.add_assign a b) := by
  unfold Gen.time_delta.TimeDelta.AddAssign.add_assign Delta.add_assign
  rw [gen_checked_add_eq a b]
  cases Delta.checked_add a b with
  | panic => rfl
  | ok o => cases o <;> rfl

theorem gen_op_sub_assign_eq (a b : Delta) :
    Gen.time_delta.TimeDelta.SubAssign.sub_assign (dG a) (dG b) = rmap dG (Delta.sub_assign a b) := by
  unfold Gen.time_delta.TimeDelta.SubAssign.sub_assign Delta.sub_assign
  rw [gen_checked_sub_eq a b]
  cases Delta.checked_sub a b with
  | panic => rfl
  | ok o => cases o <;> rfl

theorem gen_op_mul_eq (a : Delta) (rhs : Int)
    (hs : -9223372036854775808 ≤ a.secs ∧ a.secs ≤ 9223372036854775807)
    (hr : -2147483648 ≤ rhs ∧ rhs ≤ 2147483647) :
    Gen.time_delta.TimeDelta.Mul.mul (dG a) rhs = rmap dG (Delta.mul a rhs) :=
  expect_tail _ _ (gen_checked_mul_eq a rhs hs hr)

theorem gen_op_div_eq (a : Delta) (rhs : Int)
    (hn : -2147483648 < a.nanos ∧ a.nanos ≤ 2147483647)
    (hs : -9223372036854775808 ≤ a.secs ∧ a.secs ≤ 9223372036854775807) :
    Gen.time_delta.TimeDelta.Div.div (dG a) rhs = rmap dG (Delta.div a rhs) :=
  expect_tail _ _ (gen_checked_div_eq a rhs hn hs)

/-- nothing of the second target list is outside the translated subset any more -/
theorem refused_ops_none : Gen.refusedDeltaOps = [] := by decide

/-- non-vacuity: `MAX + 1 ns` panics, `MAX − MAX` is zero, `x /= 0` panics, `(1 s) * -3` -/
example : Gen.time_delta.TimeDelta.Add.add ⟨9223372036854775, 807000000⟩ ⟨0, 1⟩ = .panic
    ∧ Gen.time_delta.TimeDelta.SubAssign.sub_assign ⟨9223372036854775, 807000000⟩ ⟨9223372036854775, 807000000⟩
      = .ok ⟨0, 0⟩
    ∧ Gen.time_delta.TimeDelta.Div.div ⟨1, 0⟩ 0 = .panic
    ∧ Gen.time_delta.TimeDelta.Mul.mul ⟨1, 0⟩ (-3) = .ok ⟨-3, 0⟩ := by decide

end Chrono.Props.GenDeltaOps2
