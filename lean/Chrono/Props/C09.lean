/-
  C09 — default text forms parse back to the same value (stage 1: model + correspondence).
-/
import Chrono.Model.TextForms
namespace Chrono.Props.C09
open Chrono Chrono.M Chrono.M.TextForms

/-- the model's item lists are the ones found in the Rust source on this run -/
theorem items_match_source :
    DATE_ITEMS.map itemCode = Extracted.TF_ITEMS_naive_date ∧
    HOUR_AND_MINUTE.map itemCode = Extracted.TF_ITEMS_naive_time_hm ∧
    SECOND_AND_NANOS.map itemCode = Extracted.TF_ITEMS_naive_time_sn ∧
    TRAILING_WHITESPACE.map itemCode = Extracted.TF_ITEMS_naive_time_ws ∧
    DATETIME_ITEMS.map itemCode = Extracted.TF_ITEMS_naive_datetime ∧
    Parse.DATE_ITEMS.map itemCode = Extracted.TF_ITEMS_relaxed_date ∧
    Parse.TIME_ITEMS.map itemCode = Extracted.TF_ITEMS_relaxed_time := by decide

end Chrono.Props.C09
