/-
  C09 — default text forms parse back to the same value.

  Vocabulary.  `Spec.Text` (Spec/TextFormsSpec.lean) writes down the text of each value straight from
  the property statement: `dateTextOf d`, `timeText t`, `naiveText sep dt` (`sep` = 84 `T` for `Debug`,
  32 space for `Display`), `offsetText off`.  `TextForms.*_debug` / `*_display` are the models of chrono's
  `Debug` / `Display` impls, `TextForms.*_from_str` the models of its `FromStr` impls
  (Model/TextForms.lean, Model/TextFormsExt.lean, compared with the crate by the `tx.*`
  correspondence).  For `NaiveDate`, `NaiveTime` and `FixedOffset` `Display` forwards to `Debug`
  (`date_display`, `time_display`, `offset_display`; `roundtrip_Display_forms` — definitional).
  `Spec.Shape` (Spec/TextShapeSpec.lean) states the shape clause of the property as predicates on a
  byte string (`DateShape`, `TimeShapeOf`, `OffsetShape`); the `*_text_shape` theorems apply them to
  what the writers print.

  Side conditions of the property: `DateInv` / `TStrict` / `NDTInv` / `ZInv` are the representation
  invariants (a leap second only on second 59), `WholeMinute` the whole-minute offsets of less than a
  day.  For zone-aware values the wall clock must fall on a `NaiveDate`: `InRangeSecs (wallSecs z)` in
  specification terms (`roundtrip_DateTime_FixedOffset_spec`), `Zoned.naive_local z = .ok l` in the
  model's.  The values for which it does not are the known finding F25:
  `fixed_out_of_range_never_parses_back` (every such value, both range ends, both forms),
  `fixed_parses_back_iff` (the side condition is exact), witnesses further down.
-/
import Chrono.Proofs.TextFormsExtL
import Chrono.Proofs.TextFormsStL
import Chrono.Proofs.TextShapeL
import Chrono.Proofs.TextFormsCodeL
import Chrono.Proofs.TextFormsMoreL
import Chrono.Proofs.TextFormsSecsL
namespace Chrono.Props.C09
open Chrono Chrono.M Chrono.M.Format Chrono.M.TextForms
open Chrono.Proofs Chrono.Proofs.TextForms Chrono.Proofs.TextFormsExt Chrono.Spec Chrono.Spec.Text Chrono.Extracted
open Chrono.Spec.Shape Chrono.Proofs.TextShape

/-! ### data tie -/

/-- the model's item lists are the ones found in the Rust source on this run (dropped, reordered or
changed items of a `FromStr` impl make this fail on the re-extracted data); the variant names that the
derived `Debug` of `Weekday` / `Month` prints are the names `Display` / `Month::name` print -/
theorem items_match_source :
    DATE_ITEMS.map itemCode = Extracted.TF_ITEMS_naive_date ∧
    HOUR_AND_MINUTE.map itemCode = Extracted.TF_ITEMS_naive_time_hm ∧
    SECOND_AND_NANOS.map itemCode = Extracted.TF_ITEMS_naive_time_sn ∧
    TRAILING_WHITESPACE.map itemCode = Extracted.TF_ITEMS_naive_time_ws ∧
    DATETIME_ITEMS.map itemCode = Extracted.TF_ITEMS_naive_datetime ∧
    Parse.DATE_ITEMS.map itemCode = Extracted.TF_ITEMS_relaxed_date ∧
    Parse.TIME_ITEMS.map itemCode = Extracted.TF_ITEMS_relaxed_time ∧
    Extracted.TF_WEEKDAY_VARIANTS = Extracted.WEEKDAY_DISPLAY ∧
    Extracted.TF_MONTH_VARIANTS = Extracted.MONTH_NAMES := by decide

/-- **the item code is faithful** (audit gap L3): `itemCode` is injective on items and on item lists,
so the equalities of CODES in `items_match_source` pin the model's item lists themselves; `Numeric.all`
and `Fixed.all` list every variant; and the three index orders behind the code coincide — the model's
enumeration (`Numeric.all`, the first 19 = public entries of `Fixed.all`, `padIdx`), the tables
tools/extractors/textforms.py indexes into (`TF_*_INDEX`), and the variant order of the Rust enums
`Numeric` / `Fixed` / `Pad` in src/format/mod.rs as found on this run (`TF_*_ENUM`) -/
theorem item_codes_faithful :
    (∀ a b : Item, itemCode a = itemCode b → a = b) ∧
    (∀ l1 l2 : List Item, l1.map itemCode = l2.map itemCode → l1 = l2) ∧
    (∀ n : Numeric, n ∈ Numeric.all) ∧ (∀ f : Fixed, f ∈ Fixed.all) ∧
    Numeric.all.map (fun n => asciiBytes n.name) = TF_NUMERIC_INDEX ∧ TF_NUMERIC_INDEX = TF_NUMERIC_ENUM ∧
    (Fixed.all.take 19).map (fun f => asciiBytes f.name) = TF_FIXED_INDEX ∧ TF_FIXED_INDEX = TF_FIXED_ENUM ∧
    [Pad.none, Pad.zero, Pad.space].map padIdx = [0, 1, 2] ∧
    TF_PAD_INDEX = [asciiBytes "None", asciiBytes "Zero", asciiBytes "Space"] ∧ TF_PAD_INDEX = TF_PAD_ENUM :=
  ⟨TextFormsCode.itemCode_inj, TextFormsCode.itemCodes_inj, TextFormsCode.numeric_complete,
    TextFormsCode.fixed_complete, by decide +kernel, by decide +kernel, by decide +kernel, by decide +kernel,
    by decide, by decide +kernel, by decide +kernel⟩

/-- the item lists found in the Rust source determine the model's item lists: any item list with the
extracted codes IS the model's list -/
theorem items_determined_by_source (l : List Item) :
    (l.map itemCode = Extracted.TF_ITEMS_naive_date → l = DATE_ITEMS) ∧
    (l.map itemCode = Extracted.TF_ITEMS_naive_time_hm → l = HOUR_AND_MINUTE) ∧
    (l.map itemCode = Extracted.TF_ITEMS_naive_time_sn → l = SECOND_AND_NANOS) ∧
    (l.map itemCode = Extracted.TF_ITEMS_naive_time_ws → l = TRAILING_WHITESPACE) ∧
    (l.map itemCode = Extracted.TF_ITEMS_naive_datetime → l = DATETIME_ITEMS) ∧
    (l.map itemCode = Extracted.TF_ITEMS_relaxed_date → l = Parse.DATE_ITEMS) ∧
    (l.map itemCode = Extracted.TF_ITEMS_relaxed_time → l = Parse.TIME_ITEMS) := by
  obtain ⟨h1, h2, h3, h4, h5, h6, h7, _, _⟩ := items_match_source
  exact ⟨fun h => TextFormsCode.itemCodes_inj _ _ (h.trans h1.symm),
    fun h => TextFormsCode.itemCodes_inj _ _ (h.trans h2.symm),
    fun h => TextFormsCode.itemCodes_inj _ _ (h.trans h3.symm),
    fun h => TextFormsCode.itemCodes_inj _ _ (h.trans h4.symm),
    fun h => TextFormsCode.itemCodes_inj _ _ (h.trans h5.symm),
    fun h => TextFormsCode.itemCodes_inj _ _ (h.trans h6.symm),
    fun h => TextFormsCode.itemCodes_inj _ _ (h.trans h7.symm)⟩

/-! ### round trips -/

/-- **NaiveDate** (`Debug` = `Display`): for every date of the supported range the text is
`[sign]YYYY-MM-DD` as specified and `FromStr` reads it back as the same date -/
theorem roundtrip_NaiveDate (d : Date) (hd : DateInv d) :
    date_debug d = wok (dateTextOf d) ∧ date_from_str (dateTextOf d) = .ok (.ok d) := by
  obtain ⟨hvd, he⟩ := date_of_inv d hd
  have ht := dateTextOf_yo d.year d.ordinal.toNat hvd
  rw [← he] at ht
  rw [ht]
  refine ⟨?_, ?_⟩
  · conv => lhs; rw [he]
    exact date_debug_text _ _ ⟨hvd.1, hvd.2.1⟩ hvd.2.2
  · conv => rhs; rw [he]
    exact date_roundtrip _ _ hvd

example : DateInv (dateOfYo (-262143) 1) ∧ dateTextOf (dateOfYo (-262143) 1) = asciiBytes "-262143-01-01" ∧
    DateInv (dateOfYo 12345 60) ∧ dateTextOf (dateOfYo 12345 60) = asciiBytes "+12345-03-01" ∧
    dateTextOf (dateOfYo 0 366) = asciiBytes "0000-12-31" := by decide +kernel

/-- **NaiveTime** (`Debug` = `Display`): for every time of day, a leap second on second 59 included,
the text is `HH:MM:SS[.fraction]` as specified and `FromStr` reads it back as the same value -/
theorem roundtrip_NaiveTime (t : Time) (ht : TStrict t) :
    time_debug t = wok (timeText t) ∧ time_from_str (timeText t) = .ok t :=
  ⟨time_debug_text t ht.1, time_roundtrip t ht⟩

example : TStrict ⟨86399, 1500000000⟩ ∧ timeText ⟨86399, 1500000000⟩ = asciiBytes "23:59:60.500" ∧
    timeText ⟨3661, 1000⟩ = asciiBytes "01:01:01.000001" := by decide +kernel

/-- **NaiveDateTime, `Debug`** (date `T` time) reads back as the same value -/
theorem roundtrip_NaiveDateTime_debug (dt : NaiveDT) (h : NDTInv dt) (hs : TStrict dt.time) :
    naive_debug dt = wok (naiveText 84 dt) ∧ naive_from_str (naiveText 84 dt) = .ok (.ok dt) := by
  obtain ⟨hvd, he, ht, _⟩ := naive_of_inv dt h
  rw [ht]
  refine ⟨?_, ?_⟩
  · conv => lhs; rw [he]
    exact naive_debug_text _ _ hvd _ hs.1
  · conv => rhs; rw [he]
    exact naive_debug_roundtrip _ _ hvd _ hs

/-- **NaiveDateTime, `Display`** (date, space, time) does NOT read back: for every value `FromStr`
answers `Err(Invalid)` (it skips the space and then insists on a literal `T`).  Known finding F13: the
property asks for `.ok (.ok dt)` here; chrono's own suite pins the rejection. -/
theorem roundtrip_NaiveDateTime_display_fails (dt : NaiveDT) (h : NDTInv dt) (hs : TStrict dt.time) :
    naive_display dt = wok (naiveText 32 dt) ∧ naive_from_str (naiveText 32 dt) = .ok (.error .invalid) := by
  obtain ⟨hvd, he, _, ht⟩ := naive_of_inv dt h
  rw [ht]
  refine ⟨?_, ?_⟩
  · conv => lhs; rw [he]
    exact naive_display_text _ _ hvd _ hs.1
  · exact naive_display_rejected _ _ hvd _ hs

/-- the finding on the suite's own literal: `2015-09-18 23:56:04` -/
theorem naive_datetime_display_does_not_parse_back :
    naive_display ⟨dateOfYo 2015 261, ⟨86164, 0⟩⟩ = wok (asciiBytes "2015-09-18 23:56:04") ∧
    naive_from_str (asciiBytes "2015-09-18 23:56:04") = .ok (.error .invalid) ∧
    naive_from_str (asciiBytes "2015-09-18T23:56:04") = .ok (.ok ⟨dateOfYo 2015 261, ⟨86164, 0⟩⟩) := by
  have hi : NDTInv ⟨dateOfYo 2015 261, ⟨86164, 0⟩⟩ ∧ TStrict (⟨86164, 0⟩ : Time) := by
    unfold NDTInv; decide +kernel
  have t32 : naiveText 32 ⟨dateOfYo 2015 261, ⟨86164, 0⟩⟩ = asciiBytes "2015-09-18 23:56:04" := by decide +kernel
  have t84 : naiveText 84 ⟨dateOfYo 2015 261, ⟨86164, 0⟩⟩ = asciiBytes "2015-09-18T23:56:04" := by decide +kernel
  obtain ⟨a, b⟩ := roundtrip_NaiveDateTime_display_fails _ hi.1 hi.2
  obtain ⟨_, c⟩ := roundtrip_NaiveDateTime_debug _ hi.1 hi.2
  rw [t32] at a b
  rw [t84] at c
  exact ⟨a, b, c⟩

/-- **DateTime<FixedOffset>**, both forms: for a whole-minute offset and a wall clock `l` inside
`NaiveDate`'s range the text is the wall clock followed by `+hh:mm` (`Debug`), resp. by a space and
`+hh:mm` (`Display`), and `FromStr` reads either back as the same instant with the same offset -/
theorem roundtrip_DateTime_FixedOffset (z : Zoned) (hz : ZInv z) (hm : WholeMinute z.off)
    (hs : TStrict z.utc.time) (l : NaiveDT) (hl : Zoned.naive_local z = .ok l) :
    fixed_debug z = wok (naiveText 84 l ++ offsetText z.off) ∧
    fixed_from_str (naiveText 84 l ++ offsetText z.off) = .ok (.ok z) ∧
    fixed_display z = wok (naiveText 32 l ++ (32 :: offsetText z.off)) ∧
    fixed_from_str (naiveText 32 l ++ (32 :: offsetText z.off)) = .ok (.ok z) := by
  obtain ⟨Y, O, hvd, he, hst, hov⟩ := local_facts z hz hm.2.2 hs l hl
  obtain ⟨ftext, fread⟩ := offset_fin z.off hm
  have htxt : offset_debug z.off = offsetText z.off := by
    unfold offsetTextOk at ftext; exact of_decide_eq_true (by simpa using ftext)
  unfold offsetReadOk at fread
  simp only [Bool.and_eq_true, Bool.not_eq_true', beq_iff_eq] at fread
  obtain ⟨⟨⟨⟨r1, _⟩, r3⟩, r4⟩, r5⟩ := fread
  obtain ⟨c, tl, hc⟩ : ∃ c tl, offsetText z.off = c :: tl := ⟨_, _, rfl⟩
  have htail : TailOk (offsetText z.off) := by
    rw [hc] at r5 ⊢
    simp only [Bool.and_eq_true, Bool.not_eq_true', bne_iff_ne, ne_eq] at r5
    exact tailOk_cons c tl r5.1 r5.2
  have htrim := trimStart_of_wsLen_zero _ r3
  have hT : (if (offsetText z.off).length ≥ 3 ∧ lowerS (List.take 3 (offsetText z.off)) = [117, 116, 99] then
        Except.ok (List.drop 3 (offsetText z.off), (0 : Int))
      else Scan.timezone_offset (offsetText z.off) .colonOrSpace true false true) = .ok ([], z.off) := by
    have hno : ¬ ((offsetText z.off).length ≥ 3 ∧ lowerS (List.take 3 (offsetText z.off)) = [117, 116, 99]) := by
      intro hh
      simp only [Bool.and_eq_false_iff, decide_eq_false_iff_not] at r4
      rcases r4 with r4 | r4
      · exact r4 hh.1
      · rw [hh.2] at r4; simp at r4
    rw [if_neg hno]
    revert r1
    cases Scan.timezone_offset (offsetText z.off) .colonOrSpace true false true with
    | error e => intro h; cases h
    | ok r =>
      obtain ⟨rs, v⟩ := r
      cases rs with
      | nil => intro h; simp only [beq_iff_eq] at h; rw [h]
      | cons _ _ => intro h; cases h
  have hdbg : l = ⟨dateOfYo Y O, l.time⟩ := he
  refine ⟨?_, ?_, ?_, ?_⟩
  · unfold fixed_debug zoned_debug
    rw [hov, htxt]
    simp only [W.ofRes]
    conv => lhs; rw [hdbg]
    rw [naive_debug_text Y O hvd _ hst.1, seq_wok]
    congr 2
    unfold naiveText
    have : l.date = dateOfYo Y O := by rw [he]
    rw [this, dateTextOf_yo Y O hvd]
  · exact fixed_from_text z hz hm.2.2 hs l hl 84 (Or.inl rfl) _ _ htail (by rw [htrim, htrim]) hT
  · unfold fixed_display zoned_display
    rw [hov, htxt]
    simp only [W.ofRes]
    conv => lhs; rw [hdbg]
    rw [naive_display_text Y O hvd _ hst.1, seq_wok, seq_wok]
    congr 1
    unfold naiveText
    have : l.date = dateOfYo Y O := by rw [he]
    rw [this, dateTextOf_yo Y O hvd]
    simp only [List.append_assoc, List.cons_append, List.nil_append]
  · exact fixed_from_text z hz hm.2.2 hs l hl 32 (Or.inr rfl) _ _ (tailOk_cons 32 _ (by decide) (by decide))
      (by rw [trimStart_space _ r3, htrim]) hT

/-! ### zone-aware values on the whole quantifier domain (audit gaps M1, M2)

`wallSecs z = instSecs z.utc + z.off` is the wall clock in whole seconds since the epoch and
`InRangeSecs s` says that the reading `s` falls on a date of `NaiveDate::MIN..=MAX`
(Spec/ZonedSpec.lean; plain arithmetic on day numbers, no chrono code).  Every well-formed value with a
whole-minute offset satisfies exactly one of `InRangeSecs (wallSecs z)` / `¬ InRangeSecs (wallSecs z)`;
the first case round-trips (`roundtrip_DateTime_FixedOffset_spec`), the second is the known finding F25
(`fixed_out_of_range_never_parses_back`). -/

/-- **DateTime<FixedOffset>, domain in specification terms.**  For every well-formed value with a
whole-minute offset whose wall clock falls on a `NaiveDate`, the wall clock `l` (the reading of
`wallSecs z` with the fraction field of `z`) is what both forms print, and `FromStr` reads either
form back as the same instant with the same offset.  Same conclusion as
`roundtrip_DateTime_FixedOffset`, with the side condition no longer phrased through the model's
`naive_local`. -/
theorem roundtrip_DateTime_FixedOffset_spec (z : Zoned) (hz : ZInv z) (hm : WholeMinute z.off)
    (hs : TStrict z.utc.time) (hr : InRangeSecs (wallSecs z)) :
    ∃ l, NDTInv l ∧ instSecs l = wallSecs z ∧ l.time.frac = z.utc.time.frac ∧
      fixed_debug z = wok (naiveText 84 l ++ offsetText z.off) ∧
      fixed_from_str (naiveText 84 l ++ offsetText z.off) = .ok (.ok z) ∧
      fixed_display z = wok (naiveText 32 l ++ (32 :: offsetText z.off)) ∧
      fixed_from_str (naiveText 32 l ++ (32 :: offsetText z.off)) = .ok (.ok z) := by
  obtain ⟨l, _, hext, h3, h4, _, _, _, h5, h6⟩ := local_facts_ext z hz hm.2.2 hs
  have hl : Zoned.naive_local z = .ok l := by rw [h5, if_pos hr]
  exact ⟨l, ⟨(dateInv_iff l.date).mpr ⟨hext.1, h6.mp hr⟩, hext.2⟩, h3, h4,
    roundtrip_DateTime_FixedOffset z hz hm hs l hl⟩

/-- the wall clock named by `roundtrip_DateTime_FixedOffset_spec` is unique: a well-formed naive
date-time is determined by its whole seconds and its fraction field -/
theorem wall_clock_unique (a b : NaiveDT) (ha : NDTInv a) (hb : NDTInv b)
    (h1 : instSecs a = instSecs b) (h2 : a.time.frac = b.time.frac) : a = b :=
  ndt_unique a b ⟨((dateInv_iff a.date).mp ha.1).1, ha.2⟩ ⟨((dateInv_iff b.date).mp hb.1).1, hb.2⟩ h1 h2

/-- non-vacuity of `roundtrip_DateTime_FixedOffset_spec`, on the last in-range wall-clock second:
`MAX_UTC` − 1 min seen at +00:01 -/
example : ZInv ⟨⟨Date.MAX, ⟨86339, 999999999⟩⟩, 60⟩ ∧ WholeMinute 60 ∧ TStrict (⟨86339, 999999999⟩ : Time) ∧
    InRangeSecs (wallSecs ⟨⟨Date.MAX, ⟨86339, 999999999⟩⟩, 60⟩) ∧
    wallSecs ⟨⟨Date.MAX, ⟨86339, 999999999⟩⟩, 60⟩ = SECS_MAX := by
  unfold ZInv NDTInv OffValid WholeMinute
  decide +kernel

/-- **Known finding F25, universally.**  For EVERY well-formed value with a whole-minute offset whose
wall clock does not fall on a `NaiveDate` (`¬ InRangeSecs (wallSecs z)`: the UTC reading is within
|offset| of `MIN_UTC` / `MAX_UTC`), both forms print the wall clock `l` of the extended calendar —
year `MIN_YEAR − 1 = -262144` or `MAX_YEAR + 1 = +262143`, same specified text shape — and `FromStr`
answers `Err(OutOfRange)` for the `Debug` and for the `Display` text.  The property asks for
`.ok (.ok z)`; together with `roundtrip_DateTime_FixedOffset_spec` this makes the side condition
exact (`fixed_parses_back_iff`). -/
theorem fixed_out_of_range_never_parses_back (z : Zoned) (hz : ZInv z) (hm : WholeMinute z.off)
    (hs : TStrict z.utc.time) (hr : ¬ InRangeSecs (wallSecs z)) :
    ∃ l, Zoned.overflowing_naive_local z = .ok l ∧ ExtNDTInv l ∧ instSecs l = wallSecs z ∧
      l.time.frac = z.utc.time.frac ∧
      (l.date.year = MIN_YEAR - 1 ∨ l.date.year = MAX_YEAR + 1) ∧
      Zoned.naive_local z = .panic ∧
      fixed_debug z = wok (naiveText 84 l ++ offsetText z.off) ∧
      fixed_from_str (naiveText 84 l ++ offsetText z.off) = .ok (.error .outOfRange) ∧
      fixed_display z = wok (naiveText 32 l ++ (32 :: offsetText z.off)) ∧
      fixed_from_str (naiveText 32 l ++ (32 :: offsetText z.off)) = .ok (.error .outOfRange) := by
  obtain ⟨l, hov, hext, h3, h4, hst, hv, he, h5, h6⟩ := local_facts_ext z hz hm.2.2 hs
  obtain ⟨htxt, htail, hws, htrim, hT⟩ := offset_tail z.off hm
  have hY : ¬ (MIN_YEAR ≤ l.date.year ∧ l.date.year ≤ MAX_YEAR) := fun h => hr (h6.mpr h)
  have hyr : l.date.year = MIN_YEAR - 1 ∨ l.date.year = MAX_YEAR + 1 := by
    have := hv.1; have := hv.2.1; omega
  refine ⟨l, hov, hext, h3, h4, hyr, by rw [h5, if_neg hr], ?_, ?_, ?_, ?_⟩
  · unfold fixed_debug zoned_debug
    rw [hov, htxt]
    simp only [W.ofRes]
    obtain ⟨Y, O, hv', he'⟩ : ∃ Y O, VYO Y O ∧ l = ⟨dateOfYo Y O, l.time⟩ := ⟨_, _, hv, he⟩
    rw [he', naive_debug_text_ext Y O hv' _ hst.1, seq_wok]
  · exact fixed_from_text_oor l hv he hY hst z.off hz.2 84 (Or.inl rfl) _ _ htail (by rw [htrim, htrim]) hT
  · unfold fixed_display zoned_display
    rw [hov, htxt]
    simp only [W.ofRes]
    obtain ⟨Y, O, hv', he'⟩ : ∃ Y O, VYO Y O ∧ l = ⟨dateOfYo Y O, l.time⟩ := ⟨_, _, hv, he⟩
    rw [he', naive_display_text_ext Y O hv' _ hst.1, seq_wok, seq_wok]
    simp only [List.cons_append, List.nil_append]
  · exact fixed_from_text_oor l hv he hY hst z.off hz.2 32 (Or.inr rfl) _ _
      (tailOk_cons 32 _ (by decide) (by decide)) (by rw [trimStart_space _ hws, htrim]) hT

/-- **the side condition is exact**: over the whole quantifier domain (well-formed value, whole-minute
offset, leap second only on second 59) the printed text — `Debug` or `Display` — of the wall clock `l`
reads back as the value if and only if the wall clock falls on a `NaiveDate` -/
theorem fixed_parses_back_iff (z : Zoned) (hz : ZInv z) (hm : WholeMinute z.off) (hs : TStrict z.utc.time) :
    ∃ l, Zoned.overflowing_naive_local z = .ok l ∧
      fixed_debug z = wok (naiveText 84 l ++ offsetText z.off) ∧
      fixed_display z = wok (naiveText 32 l ++ (32 :: offsetText z.off)) ∧
      (fixed_from_str (naiveText 84 l ++ offsetText z.off) = .ok (.ok z) ↔ InRangeSecs (wallSecs z)) ∧
      (fixed_from_str (naiveText 32 l ++ (32 :: offsetText z.off)) = .ok (.ok z) ↔ InRangeSecs (wallSecs z)) := by
  by_cases hr : InRangeSecs (wallSecs z)
  · obtain ⟨l, hov, _, _, _, _, _, _, h5, _⟩ := local_facts_ext z hz hm.2.2 hs
    have hl : Zoned.naive_local z = .ok l := by rw [h5, if_pos hr]
    obtain ⟨a, b, c, d⟩ := roundtrip_DateTime_FixedOffset z hz hm hs l hl
    exact ⟨l, hov, a, c, ⟨fun _ => hr, fun _ => b⟩, ⟨fun _ => hr, fun _ => d⟩⟩
  · obtain ⟨l, hov, _, _, _, _, _, a, b, c, d⟩ := fixed_out_of_range_never_parses_back z hz hm hs hr
    refine ⟨l, hov, a, c, ⟨fun h => ?_, fun h => absurd h hr⟩, ⟨fun h => ?_, fun h => absurd h hr⟩⟩
    · rw [b] at h; cases h
    · rw [d] at h; cases h

/-- F25 on the MIN side, both forms: `MIN_UTC` seen at -00:01 prints the wall-clock year -262144 -/
theorem fixed_local_before_min_does_not_parse_back :
    ZInv ⟨NaiveDT.MIN, -60⟩ ∧ WholeMinute (-60) ∧ TStrict NaiveDT.MIN.time ∧
    ¬ InRangeSecs (wallSecs ⟨NaiveDT.MIN, -60⟩) ∧
    fixed_debug ⟨NaiveDT.MIN, -60⟩ = wok (asciiBytes "-262144-12-31T23:59:00-00:01") ∧
    fixed_from_str (asciiBytes "-262144-12-31T23:59:00-00:01") = .ok (.error .outOfRange) ∧
    fixed_display ⟨NaiveDT.MIN, -60⟩ = wok (asciiBytes "-262144-12-31 23:59:00 -00:01") ∧
    fixed_from_str (asciiBytes "-262144-12-31 23:59:00 -00:01") = .ok (.error .outOfRange) := by
  have hz : ZInv ⟨NaiveDT.MIN, -60⟩ := by unfold ZInv NDTInv OffValid; decide +kernel
  have hm : WholeMinute (-60) := by unfold WholeMinute; decide
  have hs : TStrict NaiveDT.MIN.time := by decide +kernel
  have hr : ¬ InRangeSecs (wallSecs ⟨NaiveDT.MIN, -60⟩) := by decide +kernel
  obtain ⟨l, hov, _, _, _, _, _, a, b, c, d⟩ :=
    fixed_out_of_range_never_parses_back ⟨NaiveDT.MIN, -60⟩ hz hm hs hr
  have hl : Zoned.overflowing_naive_local ⟨NaiveDT.MIN, -60⟩ = .ok ⟨dateOfYo (-262144) 366, ⟨86340, 0⟩⟩ := by
    decide +kernel
  rw [hl] at hov
  injection hov with hov
  subst hov
  have t84 : naiveText 84 ⟨dateOfYo (-262144) 366, ⟨86340, 0⟩⟩ ++ offsetText (-60) =
      asciiBytes "-262144-12-31T23:59:00-00:01" := by decide +kernel
  have t32 : naiveText 32 ⟨dateOfYo (-262144) 366, ⟨86340, 0⟩⟩ ++ (32 :: offsetText (-60)) =
      asciiBytes "-262144-12-31 23:59:00 -00:01" := by decide +kernel
  rw [t84] at a b
  rw [t32] at c d
  exact ⟨hz, hm, hs, hr, a, b, c, d⟩

/-- F25 on the MAX side in the `Display` form (the `Debug` form is
`fixed_local_out_of_range_does_not_parse_back` below) -/
theorem fixed_local_after_max_display_does_not_parse_back :
    ¬ InRangeSecs (wallSecs ⟨NaiveDT.MAX, 60⟩) ∧
    fixed_display ⟨NaiveDT.MAX, 60⟩ = wok (asciiBytes "+262143-01-01 00:00:59.999999999 +00:01") ∧
    fixed_from_str (asciiBytes "+262143-01-01 00:00:59.999999999 +00:01") = .ok (.error .outOfRange) := by
  have hz : ZInv ⟨NaiveDT.MAX, 60⟩ := by unfold ZInv NDTInv OffValid; decide +kernel
  have hm : WholeMinute 60 := by unfold WholeMinute; decide
  have hs : TStrict NaiveDT.MAX.time := by decide +kernel
  have hr : ¬ InRangeSecs (wallSecs ⟨NaiveDT.MAX, 60⟩) := by decide +kernel
  obtain ⟨l, hov, _, _, _, _, _, _, _, c, d⟩ :=
    fixed_out_of_range_never_parses_back ⟨NaiveDT.MAX, 60⟩ hz hm hs hr
  have hl : Zoned.overflowing_naive_local ⟨NaiveDT.MAX, 60⟩ = .ok ⟨dateOfYo 262143 1, ⟨59, 999999999⟩⟩ := by
    decide +kernel
  rw [hl] at hov
  injection hov with hov
  subst hov
  have t32 : naiveText 32 ⟨dateOfYo 262143 1, ⟨59, 999999999⟩⟩ ++ (32 :: offsetText 60) =
      asciiBytes "+262143-01-01 00:00:59.999999999 +00:01" := by decide +kernel
  rw [t32] at c d
  exact ⟨hr, c, d⟩

/-- **DateTime<Local>, without assuming where the offset came from.**  `Local`'s values print through
the generic `DateTime<Tz>` impls with a `FixedOffset` as offset, and `FromStr for DateTime<Local>` is the
fixed-offset reader followed by `with_timezone(&Local)`.  For every value of the round-trip domain — the
offset field being ANY whole-minute offset, e.g. a foreign one put there by
`DateTime::<Local>::from_naive_utc_and_offset` — both texts are the `DateTime<FixedOffset>` texts, and
both read back as the same instant carrying the offset the zone prescribes at that instant
(`localOff z.utc`; the zone is a parameter, the zone database is not modelled).  So the text reads back
as the value exactly when the value's offset is the zone's (`↔` in the last two conjuncts). -/
theorem roundtrip_DateTime_Local_zone_offset (localOff : NaiveDT → Int) (z : Zoned) (hz : ZInv z)
    (hm : WholeMinute z.off) (hs : TStrict z.utc.time) (hr : InRangeSecs (wallSecs z)) :
    local_dt_debug z = fixed_debug z ∧ local_dt_display z = fixed_display z ∧
    ∃ l, NDTInv l ∧ instSecs l = wallSecs z ∧ l.time.frac = z.utc.time.frac ∧
      local_dt_debug z = wok (naiveText 84 l ++ offsetText z.off) ∧
      local_from_str localOff (naiveText 84 l ++ offsetText z.off) = .ok (.ok ⟨z.utc, localOff z.utc⟩) ∧
      local_dt_display z = wok (naiveText 32 l ++ (32 :: offsetText z.off)) ∧
      local_from_str localOff (naiveText 32 l ++ (32 :: offsetText z.off)) = .ok (.ok ⟨z.utc, localOff z.utc⟩) ∧
      (local_from_str localOff (naiveText 84 l ++ offsetText z.off) = .ok (.ok z) ↔ localOff z.utc = z.off) ∧
      (local_from_str localOff (naiveText 32 l ++ (32 :: offsetText z.off)) = .ok (.ok z) ↔
        localOff z.utc = z.off) := by
  obtain ⟨l, a1, a2, a3, b1, b2, b3, b4⟩ := roundtrip_DateTime_FixedOffset_spec z hz hm hs hr
  have r84 : local_from_str localOff (naiveText 84 l ++ offsetText z.off) = .ok (.ok ⟨z.utc, localOff z.utc⟩) := by
    unfold local_from_str; rw [b2]; rfl
  have r32 : local_from_str localOff (naiveText 32 l ++ (32 :: offsetText z.off)) =
      .ok (.ok ⟨z.utc, localOff z.utc⟩) := by
    unfold local_from_str; rw [b4]; rfl
  have key : ((Res.ok (Except.ok (⟨z.utc, localOff z.utc⟩ : Zoned)) : Parsed.RP Zoned) = .ok (.ok z)) ↔
      localOff z.utc = z.off := by
    constructor
    · intro h
      injection h with h
      injection h with h
      exact congrArg Zoned.off h
    · intro h; rw [h]
  refine ⟨rfl, rfl, l, a1, a2, a3, b1, r84, b3, r32, ?_, ?_⟩
  · rw [r84]; exact key
  · rw [r32]; exact key

/-- **DateTime<Local>**, both forms: the round trip, under the hypothesis `hloc : localOff z.utc = z.off`
— the value's offset is the one the zone prescribes at its instant.  `hloc` is a HYPOTHESIS on the value,
not a fact about every `DateTime<Local>`: it holds for everything `Local` itself builds
(`from_utc_datetime`, `from_local_datetime`, `now`, `with_timezone(&Local)` — each asks the zone at the
value's instant), and fails for a value given a foreign offset through `from_naive_utc_and_offset`, which
by `roundtrip_DateTime_Local_zone_offset` reads back with the zone's offset instead
(`local_foreign_offset_does_not_parse_back`).  `DateTime<Local>` is not among the types the property
lists; the zone itself is a parameter. -/
theorem roundtrip_DateTime_Local (localOff : NaiveDT → Int) (z : Zoned) (hz : ZInv z) (hm : WholeMinute z.off)
    (hs : TStrict z.utc.time) (hr : InRangeSecs (wallSecs z)) (hloc : localOff z.utc = z.off) :
    local_dt_debug z = fixed_debug z ∧ local_dt_display z = fixed_display z ∧
    ∃ l, NDTInv l ∧ instSecs l = wallSecs z ∧ l.time.frac = z.utc.time.frac ∧
      local_dt_debug z = wok (naiveText 84 l ++ offsetText z.off) ∧
      local_from_str localOff (naiveText 84 l ++ offsetText z.off) = .ok (.ok z) ∧
      local_dt_display z = wok (naiveText 32 l ++ (32 :: offsetText z.off)) ∧
      local_from_str localOff (naiveText 32 l ++ (32 :: offsetText z.off)) = .ok (.ok z) := by
  obtain ⟨e1, e2, l, a1, a2, a3, b1, _, b3, _, k84, k32⟩ :=
    roundtrip_DateTime_Local_zone_offset localOff z hz hm hs hr
  exact ⟨e1, e2, l, a1, a2, a3, b1, k84.mpr hloc, b3, k32.mpr hloc⟩

/-- the negative witness (second review, G5): 2020-01-01T00:00:00 UTC held in a `DateTime<Local>` with
the foreign offset +01:00 while the zone is UTC prints `2020-01-01T01:00:00+01:00` and reads back as the
same instant with offset 0 — not the value (`==` on `DateTime` compares instants only) -/
theorem local_foreign_offset_does_not_parse_back :
    local_dt_debug ⟨⟨dateOfYo 2020 1, ⟨0, 0⟩⟩, 3600⟩ = wok (asciiBytes "2020-01-01T01:00:00+01:00") ∧
    local_from_str (fun _ => 0) (asciiBytes "2020-01-01T01:00:00+01:00") = .ok (.ok ⟨⟨dateOfYo 2020 1, ⟨0, 0⟩⟩, 0⟩) ∧
    local_from_str (fun _ => 0) (asciiBytes "2020-01-01T01:00:00+01:00") ≠ .ok (.ok ⟨⟨dateOfYo 2020 1, ⟨0, 0⟩⟩, 3600⟩) := by
  have hz : ZInv ⟨⟨dateOfYo 2020 1, ⟨0, 0⟩⟩, 3600⟩ := by unfold ZInv NDTInv OffValid; decide +kernel
  have hm : WholeMinute 3600 := by unfold WholeMinute; decide
  have hs : TStrict (⟨0, 0⟩ : Time) := by decide +kernel
  have hr : InRangeSecs (wallSecs ⟨⟨dateOfYo 2020 1, ⟨0, 0⟩⟩, 3600⟩) := by decide +kernel
  obtain ⟨_, _, l, a1, a2, a3, b1, b2, _, _, k84, _⟩ :=
    roundtrip_DateTime_Local_zone_offset (fun _ => 0) ⟨⟨dateOfYo 2020 1, ⟨0, 0⟩⟩, 3600⟩ hz hm hs hr
  have hl : l = ⟨dateOfYo 2020 1, ⟨3600, 0⟩⟩ :=
    wall_clock_unique l ⟨dateOfYo 2020 1, ⟨3600, 0⟩⟩ a1 (by unfold NDTInv; decide +kernel)
      (a2.trans (by decide +kernel)) a3
  subst hl
  have t84 : naiveText 84 ⟨dateOfYo 2020 1, ⟨3600, 0⟩⟩ ++ offsetText 3600 = asciiBytes "2020-01-01T01:00:00+01:00" := by
    decide +kernel
  rw [t84] at b1 b2 k84
  refine ⟨b1, b2, fun h => ?_⟩
  have := k84.mp h
  revert this
  decide

/-- **DateTime<Utc>**, both forms: the text is the UTC reading followed by `Z` (`Debug`), resp. by
` UTC` (`Display`), and `FromStr` reads either back as the same value -/
theorem roundtrip_DateTime_Utc (u : NaiveDT) (hu : NDTInv u) (hs : TStrict u.time) :
    utc_dt_debug u = wok (naiveText 84 u ++ [90]) ∧
    utc_from_str (naiveText 84 u ++ [90]) = .ok (.ok ⟨u, 0⟩) ∧
    utc_dt_display u = wok (naiveText 32 u ++ [32, 85, 84, 67]) ∧
    utc_from_str (naiveText 32 u ++ [32, 85, 84, 67]) = .ok (.ok ⟨u, 0⟩) := by
  have hz : ZInv ⟨u, 0⟩ := ⟨hu, by show OffValid 0; unfold OffValid; omega⟩
  have hext : ExtNDTInv u := ⟨((dateInv_iff u.date).mp hu.1).1, hu.2⟩
  have hov : Zoned.overflowing_naive_local ⟨u, 0⟩ = .ok u :=
    local_back ⟨u, 0⟩ hz u hext (by show instSecs u = instSecs u - 0; omega) rfl
  obtain ⟨l', h1, _, _, _, h5, h6⟩ := naive_local_spec ⟨u, 0⟩ hz
  rw [hov] at h1
  injection h1 with h1
  subst h1
  have hl : Zoned.naive_local ⟨u, 0⟩ = .ok u := by rw [h5, if_pos (h6.mp hu.1)]
  obtain ⟨hvd, he, t84, t32⟩ := naive_of_inv u hu
  have hf84 := fixed_from_text ⟨u, 0⟩ hz (by show (0 : Int) % 60 = 0; decide) hs u hl 84 (Or.inl rfl) [90] [90]
    (tailOk_cons 90 _ (by decide) (by decide)) (by decide) (by show _ = Except.ok ([], (0 : Int)); rfl)
  have hf32 := fixed_from_text ⟨u, 0⟩ hz (by show (0 : Int) % 60 = 0; decide) hs u hl 32 (Or.inr rfl)
    [32, 85, 84, 67] [85, 84, 67] (tailOk_cons 32 _ (by decide) (by decide)) (by decide)
    (by show _ = Except.ok ([], (0 : Int)); rfl)
  refine ⟨?_, ?_, ?_, ?_⟩
  · unfold utc_dt_debug zoned_debug
    rw [hov]
    simp only [W.ofRes]
    conv => lhs; rw [he]
    rw [naive_debug_text _ _ hvd _ hs.1, seq_wok, t84]
    rfl
  · unfold utc_from_str; rw [hf84]; rfl
  · unfold utc_dt_display zoned_display
    rw [hov]
    simp only [W.ofRes]
    conv => lhs; rw [he]
    rw [naive_display_text _ _ hvd _ hs.1, seq_wok, seq_wok, t32]
    simp only [utc_display, List.append_assoc, List.cons_append, List.nil_append]
  · unfold utc_from_str; rw [hf32]; rfl

/-- non-vacuity of the zone-aware theorems: 2016-12-31T23:59:60.5Z seen at +05:30 -/
example : ZInv ⟨⟨dateOfYo 2016 366, ⟨86399, 1500000000⟩⟩, 19800⟩ ∧ WholeMinute 19800 ∧
    TStrict (⟨86399, 1500000000⟩ : Time) ∧
    Zoned.naive_local ⟨⟨dateOfYo 2016 366, ⟨86399, 1500000000⟩⟩, 19800⟩ =
      .ok ⟨dateOfYo 2017 1, ⟨19799, 1500000000⟩⟩ ∧
    naiveText 32 ⟨dateOfYo 2017 1, ⟨19799, 1500000000⟩⟩ ++ (32 :: offsetText 19800) =
      asciiBytes "2017-01-01 05:29:60.500 +05:30" := by
  unfold ZInv NDTInv OffValid WholeMinute
  decide +kernel

/-- **FixedOffset** (`Debug` = `Display`), all 2 879 whole-minute offsets of less than a day: the text
is `+hh:mm` / `-hh:mm` and `FromStr` reads it back as the same offset -/
theorem roundtrip_FixedOffset (off : Int) (h : WholeMinute off) :
    offset_debug off = offsetText off ∧ offset_from_str (offsetText off) = .ok off := by
  obtain ⟨ftext, fread⟩ := offset_fin off h
  refine ⟨by unfold offsetTextOk at ftext; exact of_decide_eq_true (by simpa using ftext), ?_⟩
  unfold offsetReadOk at fread
  simp only [Bool.and_eq_true] at fread
  obtain ⟨⟨⟨⟨_, r2⟩, _⟩, _⟩, _⟩ := fread
  revert r2
  cases offset_from_str (offsetText off) with
  | error e => intro h; cases h
  | ok v => intro h; simp only [beq_iff_eq] at h; rw [h]

example : WholeMinute (-34200) ∧ offsetText (-34200) = asciiBytes "-09:30" := by
  unfold WholeMinute; decide +kernel

/-! ### `Display` forwards to `Debug` (audit gap L2), the stateful `NaiveTime` reader (L4) -/

/-- **NaiveDate, NaiveTime, FixedOffset: the `Display` column.**  NOT a new fact: in the source each of
the three `Display` impls is the one-line forward `fmt::Debug::fmt(self, f)`, and its model
(`date_display`, `time_display`, `offset_display`, Model/TextFormsExt.lean) is the same forward, so the
middle conjuncts `*_display = *_debug` hold by DEFINITION (`rfl`) and the outer ones repeat
`roundtrip_NaiveDate` / `roundtrip_NaiveTime` / `roundtrip_FixedOffset`.  That the source forwards is
tied to the code by the pins of the three impls (Pins/C09) and by the harness comparing the `{}` column
of every value (and, in the exhaustive digests `tx.blockdate` / `tx.blocktime`, of every date and of
every second × fraction class), not by this theorem.  Kept so that the `Display` column the driver
prints is named in a theorem. -/
theorem roundtrip_Display_forms :
    (∀ d : Date, DateInv d → date_display d = wok (dateTextOf d) ∧ date_display d = date_debug d ∧
      date_from_str (dateTextOf d) = .ok (.ok d)) ∧
    (∀ t : Time, TStrict t → time_display t = wok (timeText t) ∧ time_display t = time_debug t ∧
      time_from_str (timeText t) = .ok t) ∧
    (∀ off : Int, WholeMinute off → offset_display off = offsetText off ∧ offset_display off = offset_debug off ∧
      offset_from_str (offsetText off) = .ok off) :=
  ⟨fun d hd => ⟨(roundtrip_NaiveDate d hd).1, rfl, (roundtrip_NaiveDate d hd).2⟩,
   fun t ht => ⟨(roundtrip_NaiveTime t ht).1, rfl, (roundtrip_NaiveTime t ht).2⟩,
   fun off h => ⟨(roundtrip_FixedOffset off h).1, rfl, (roundtrip_FixedOffset off h).2⟩⟩

/-- **NaiveTime's `FromStr` with the parse state threaded through.**  `time_from_str_st`
(Model/TextFormsExt.lean; the function the driver runs) carries the `Parsed` record of a failed
optional seconds run into the trailing-white-space parse and `to_naive_time`, as the code does;
`time_from_str` (used in the theorems above) drops it.  They agree on EVERY input, and the round trip
holds for the stateful reader -/
theorem time_from_str_stateful :
    (∀ s : List Nat, time_from_str_st s = time_from_str s) ∧
    (∀ t : Time, TStrict t → time_from_str_st (timeText t) = .ok t) :=
  ⟨TextFormsSt.time_from_str_st_eq,
   fun t ht => by rw [TextFormsSt.time_from_str_st_eq]; exact (roundtrip_NaiveTime t ht).2⟩

/-- the stateful reader on a leap second with a fraction, through the theorem -/
example : time_from_str_st (asciiBytes "23:59:60.500") = .ok ⟨86399, 1500000000⟩ := by
  have := time_from_str_stateful.2 ⟨86399, 1500000000⟩ (by decide)
  rwa [show timeText ⟨86399, 1500000000⟩ = asciiBytes "23:59:60.500" by decide +kernel] at this

/-! ### beyond the printed form: what `FromStr` accepts in addition (characterisations)

The property is about the printed form; its text also mentions the readers.  These theorems pin, for
every value, three spellings the readers accept that the writers never produce: a time of day without
seconds, the lower-case separator `t`, and `z` / `utc` for the zero offset. -/

/-- **NaiveTime without seconds**: `HH:MM` reads as `HH:MM:00`, for each of the 1 440 minutes of a day;
this is the path on which the optional seconds run fails (`time_from_str_st` and `time_from_str`
agree on it) -/
theorem NaiveTime_reads_without_seconds (h mi : Nat) (hh : h ≤ 23) (hmi : mi ≤ 59) :
    time_from_str (decN 2 h ++ [58] ++ decN 2 mi) = .ok ⟨(h : Int) * 3600 + (mi : Int) * 60, 0⟩ ∧
    time_from_str_st (decN 2 h ++ [58] ++ decN 2 mi) = .ok ⟨(h : Int) * 3600 + (mi : Int) * 60, 0⟩ := by
  have e : decN 2 h ++ [58] ++ decN 2 mi = RenderScan.two h ++ (58 :: RenderScan.two mi) := by
    rw [decN_two h (by omega), decN_two mi (by omega)]
    simp only [List.append_assoc, List.cons_append, List.nil_append]
  rw [TextFormsSt.time_from_str_st_eq, e]
  exact ⟨TextFormsMore.time_without_seconds h mi hh hmi, TextFormsMore.time_without_seconds h mi hh hmi⟩

example : decN 2 23 ++ [58] ++ decN 2 56 = asciiBytes "23:56" := by decide

/-- **outside the side condition "leap second only on second 59"** (a value only `with_nanosecond` can
build): the text is the canonical text of the ordinary time one second later, so `FromStr` returns THAT
value — a round trip is impossible, which is why the property (and `TStrict`) excludes these values -/
theorem NaiveTime_leap_off_59_reads_as_next_second (t : Time) (ht : TValid t) (hl : t.frac ≥ 1000000000)
    (h59 : t.secs % 60 ≠ 59) :
    TStrict ⟨t.secs + 1, t.frac - 1000000000⟩ ∧
    time_debug t = wok (timeText ⟨t.secs + 1, t.frac - 1000000000⟩) ∧
    time_from_str (timeText ⟨t.secs + 1, t.frac - 1000000000⟩) = .ok ⟨t.secs + 1, t.frac - 1000000000⟩ ∧
    (⟨t.secs + 1, t.frac - 1000000000⟩ : Time) ≠ t := by
  have hs : TStrict ⟨t.secs + 1, t.frac - 1000000000⟩ := by
    obtain ⟨t0, t1, t2, t3⟩ := ht
    exact ⟨⟨by dsimp only; omega, by dsimp only; omega, by dsimp only; omega, by dsimp only; omega⟩,
      Or.inl (by dsimp only; omega)⟩
  refine ⟨hs, ?_, (roundtrip_NaiveTime _ hs).2, ?_⟩
  · rw [TextFormsMore.time_debug_leap_off_59 t ht hl h59]; exact (roundtrip_NaiveTime _ hs).1
  · intro h
    have := congrArg Time.secs h
    dsimp only at this
    omega

example : TValid ⟨45240, 1500000000⟩ ∧ (45240 : Int) % 60 ≠ 59 ∧
    timeText ⟨45241, 500000000⟩ = asciiBytes "12:34:01.500" := by decide +kernel

/-- **outside the side condition "whole-minute offset"**: a `FixedOffset` with a seconds part prints
`±hh:mm:ss`, and `FixedOffset::from_str` — which does not look at what follows the minutes — returns
the offset truncated (toward zero) to a whole minute: never the value itself.  Universal over all
169 920 such offsets. -/
theorem FixedOffset_with_seconds_reads_truncated (off : Int) (h : -86400 < off ∧ off < 86400)
    (hs : off % 60 ≠ 0) :
    offset_debug off = (if off < 0 then 45 else 43) ::
      (decN 2 (off.natAbs / 3600) ++ [58] ++ decN 2 (off.natAbs / 60 % 60) ++ [58] ++ decN 2 (off.natAbs % 60)) ∧
    offset_display off = offset_debug off ∧
    offset_from_str (offset_debug off) =
      .ok (if off < 0 then -((off.natAbs : Int) - (off.natAbs : Int) % 60)
           else (off.natAbs : Int) - (off.natAbs : Int) % 60) ∧
    offset_from_str (offset_debug off) ≠ .ok off := by
  have hr := TextFormsMore.offset_with_seconds_reads_truncated off h hs
  refine ⟨?_, rfl, hr, ?_⟩
  · rw [TextFormsMore.offset_debug_with_seconds off h hs, decN_two _ (by omega), decN_two _ (by omega),
      decN_two _ (by omega)]
    simp only [List.append_assoc, List.cons_append, List.nil_append]
  · rw [hr]
    intro he
    injection he with he
    split at he <;> omega

example : offset_debug 19815 = asciiBytes "+05:30:15" ∧ offset_debug (-61) = asciiBytes "-00:01:01" := by
  decide +kernel

/-- **outside the side condition "whole-minute offset", zone-aware values** (second review, G4): for
EVERY well-formed `DateTime<FixedOffset>` whose offset has a seconds part (any time of day, leap
representations included, wall clock in range or not) both forms print the wall clock `l` followed by
`±hh:mm:ss`, and `DateTime::from_str` answers `Err(TooLong)` for both — it reads `±hh:mm` as the offset
and finds `:ss` left over.  (Unlike `FixedOffset::from_str`, which ignores what follows and returns the
truncated offset: `FixedOffset_with_seconds_reads_truncated`.)  So no such value reads back, which is
why the property restricts the offset to whole minutes. -/
theorem DateTime_FixedOffset_with_seconds_rejected (z : Zoned) (hz : ZInv z) (h : z.off % 60 ≠ 0) :
    ∃ l, Zoned.overflowing_naive_local z = .ok l ∧ ExtNDTInv l ∧ instSecs l = wallSecs z ∧
      l.time.frac = z.utc.time.frac ∧
      fixed_debug z = wok (naiveText 84 l ++ offset_debug z.off) ∧
      fixed_from_str (naiveText 84 l ++ offset_debug z.off) = .ok (.error .tooLong) ∧
      fixed_display z = wok (naiveText 32 l ++ (32 :: offset_debug z.off)) ∧
      fixed_from_str (naiveText 32 l ++ (32 :: offset_debug z.off)) = .ok (.error .tooLong) := by
  obtain ⟨l, hov, hext, h3, h4, _, _⟩ := naive_local_spec z hz
  obtain ⟨e1, hv⟩ := ext_eq l.date hext.1
  have he : l = ⟨dateOfYo l.date.year l.date.ordinal.toNat, l.time⟩ := by
    cases l with
    | mk d t => simp only [NaiveDT.mk.injEq, and_true]; exact e1
  obtain ⟨htail, htrim, v, hv1, hv2, hT⟩ := TextFormsSecs.offset_tail_secs z.off hz.2 h
  obtain ⟨htrim32, hrest⟩ := TextFormsSecs.offset_tail_secs_space z.off hz.2 h
  refine ⟨l, hov, hext, h3, h4, ?_, ?_, ?_, ?_⟩
  · unfold fixed_debug zoned_debug
    rw [hov]
    simp only [W.ofRes]
    obtain ⟨Y, O, hv', he'⟩ : ∃ Y O, VYO Y O ∧ l = ⟨dateOfYo Y O, l.time⟩ := ⟨_, _, hv, he⟩
    rw [he', naive_debug_text_ext Y O hv' _ hext.2, seq_wok]
  · exact TextFormsSecs.fixed_from_text_too_long l hv he hext.2 84 (Or.inr (Or.inl rfl)) _ _ _ v ⟨hv1, hv2⟩ hrest
      htail htrim hT
  · unfold fixed_display zoned_display
    rw [hov]
    simp only [W.ofRes]
    obtain ⟨Y, O, hv', he'⟩ : ∃ Y O, VYO Y O ∧ l = ⟨dateOfYo Y O, l.time⟩ := ⟨_, _, hv, he⟩
    rw [he', naive_display_text_ext Y O hv' _ hext.2, seq_wok, seq_wok]
    simp only [List.cons_append, List.nil_append]
  · exact TextFormsSecs.fixed_from_text_too_long l hv he hext.2 32 (Or.inr (Or.inr rfl)) _ _ _ v ⟨hv1, hv2⟩ hrest
      (tailOk_cons 32 _ (by decide) (by decide)) htrim32 hT

/-- non-vacuity: the review's instance `2020-01-01T05:30:15+05:30:15` (midnight UTC seen at +05:30:15),
and a leap second landing on second 30 of the wall clock at -00:00:29 (printed as second 31) -/
example : ZInv ⟨⟨dateOfYo 2020 1, ⟨0, 0⟩⟩, 19815⟩ ∧ (19815 : Int) % 60 ≠ 0 ∧
    Zoned.overflowing_naive_local ⟨⟨dateOfYo 2020 1, ⟨0, 0⟩⟩, 19815⟩ = .ok ⟨dateOfYo 2020 1, ⟨19815, 0⟩⟩ ∧
    naiveText 84 ⟨dateOfYo 2020 1, ⟨19815, 0⟩⟩ ++ offset_debug 19815 = asciiBytes "2020-01-01T05:30:15+05:30:15" ∧
    ZInv ⟨⟨dateOfYo 2020 1, ⟨59, 1500000000⟩⟩, -29⟩ ∧
    Zoned.overflowing_naive_local ⟨⟨dateOfYo 2020 1, ⟨59, 1500000000⟩⟩, -29⟩ = .ok ⟨dateOfYo 2020 1, ⟨30, 1500000000⟩⟩ ∧
    naiveText 32 ⟨dateOfYo 2020 1, ⟨30, 1500000000⟩⟩ ++ (32 :: offset_debug (-29)) =
      asciiBytes "2020-01-01 00:00:31.500 -00:00:29" := by
  unfold ZInv NDTInv OffValid
  decide +kernel

/-- **DateTime<FixedOffset> with a lower-case `t`**: for every value of the round-trip domain the wall
clock written with `t` between date and time, followed by the offset, reads back as the value -/
theorem DateTime_FixedOffset_reads_lowercase_t (z : Zoned) (hz : ZInv z) (hm : WholeMinute z.off)
    (hs : TStrict z.utc.time) (hr : InRangeSecs (wallSecs z)) :
    ∃ l, NDTInv l ∧ instSecs l = wallSecs z ∧ l.time.frac = z.utc.time.frac ∧
      fixed_from_str (naiveText 116 l ++ offsetText z.off) = .ok (.ok z) := by
  obtain ⟨l, _, hext, h3, h4, _, _, _, h5, h6⟩ := local_facts_ext z hz hm.2.2 hs
  have hl : Zoned.naive_local z = .ok l := by rw [h5, if_pos hr]
  obtain ⟨_, htail, _, htrim, hT⟩ := offset_tail z.off hm
  exact ⟨l, ⟨(dateInv_iff l.date).mpr ⟨hext.1, h6.mp hr⟩, hext.2⟩, h3, h4,
    TextFormsMore.fixed_from_text3 z hz hm.2.2 hs l hl 116 (Or.inl rfl) _ _ htail (by rw [htrim, htrim]) hT⟩

/-- **DateTime<Utc> / zero offset in lower case**: `…t…z`, `…T…z`, `… utc` and `…Tutc`-less forms —
for every UTC value the Debug text with `t` and/or `z` in lower case and the Display text with `utc` in
lower case read back as the value (through `DateTime<Utc>`'s and `DateTime<FixedOffset>`'s `FromStr`) -/
theorem DateTime_Utc_reads_lowercase (u : NaiveDT) (hu : NDTInv u) (hs : TStrict u.time) :
    utc_from_str (naiveText 116 u ++ asciiBytes "z") = .ok (.ok ⟨u, 0⟩) ∧
    utc_from_str (naiveText 84 u ++ asciiBytes "z") = .ok (.ok ⟨u, 0⟩) ∧
    utc_from_str (naiveText 116 u ++ asciiBytes "Z") = .ok (.ok ⟨u, 0⟩) ∧
    utc_from_str (naiveText 32 u ++ asciiBytes " utc") = .ok (.ok ⟨u, 0⟩) ∧
    fixed_from_str (naiveText 116 u ++ asciiBytes "z") = .ok (.ok ⟨u, 0⟩) ∧
    fixed_from_str (naiveText 32 u ++ asciiBytes " utc") = .ok (.ok ⟨u, 0⟩) := by
  have hz : ZInv ⟨u, 0⟩ := ⟨hu, by show OffValid 0; unfold OffValid; omega⟩
  have hext : ExtNDTInv u := ⟨((dateInv_iff u.date).mp hu.1).1, hu.2⟩
  have hov : Zoned.overflowing_naive_local ⟨u, 0⟩ = .ok u :=
    local_back ⟨u, 0⟩ hz u hext (by show instSecs u = instSecs u - 0; omega) rfl
  obtain ⟨l', h1, _, _, _, h5, h6⟩ := naive_local_spec ⟨u, 0⟩ hz
  rw [hov] at h1
  injection h1 with h1
  subst h1
  have hl : Zoned.naive_local ⟨u, 0⟩ = .ok u := by rw [h5, if_pos (h6.mp hu.1)]
  have hm0 : (⟨u, 0⟩ : Zoned).off % 60 = 0 := by show (0 : Int) % 60 = 0; decide
  have f1 := TextFormsMore.fixed_from_text3 ⟨u, 0⟩ hz hm0 hs u hl 116 (Or.inl rfl) (asciiBytes "z") [122]
    (tailOk_cons 122 _ (by decide) (by decide)) (by decide) (by show _ = Except.ok ([], (0 : Int)); rfl)
  have f2 := TextFormsMore.fixed_from_text3 ⟨u, 0⟩ hz hm0 hs u hl 84 (Or.inr (Or.inl rfl)) (asciiBytes "z") [122]
    (tailOk_cons 122 _ (by decide) (by decide)) (by decide) (by show _ = Except.ok ([], (0 : Int)); rfl)
  have f3 := TextFormsMore.fixed_from_text3 ⟨u, 0⟩ hz hm0 hs u hl 116 (Or.inl rfl) (asciiBytes "Z") [90]
    (tailOk_cons 90 _ (by decide) (by decide)) (by decide) (by show _ = Except.ok ([], (0 : Int)); rfl)
  have f4 := TextFormsMore.fixed_from_text3 ⟨u, 0⟩ hz hm0 hs u hl 32 (Or.inr (Or.inr rfl)) (asciiBytes " utc")
    [117, 116, 99] (tailOk_cons 32 _ (by decide) (by decide)) (by decide)
    (by show _ = Except.ok ([], (0 : Int)); rfl)
  refine ⟨?_, ?_, ?_, ?_, f1, f4⟩
  · unfold utc_from_str; rw [f1]; rfl
  · unfold utc_from_str; rw [f2]; rfl
  · unfold utc_from_str; rw [f3]; rfl
  · unfold utc_from_str; rw [f4]; rfl

example : naiveText 116 ⟨dateOfYo 2015 261, ⟨86164, 500000000⟩⟩ ++ asciiBytes "z" =
    asciiBytes "2015-09-18t23:56:04.500z" := by decide +kernel

/-- **Weekday**: both the derived `Debug` name and the `Display` name read back -/
theorem roundtrip_Weekday (w : Weekday) :
    Weekday.parse (weekday_debug w) = some w ∧ Weekday.parse w.display = some w :=
  weekday_fin w (by cases w <;> decide)

/-- **Month**: both the derived `Debug` name and `Month::name` read back -/
theorem roundtrip_Month (m : Month) : Month.parse (month_debug m) = some m ∧ Month.parse m.name = some m :=
  month_fin m (by cases m <;> decide)

/-- `Utc` prints `Z` (`Debug`) and `UTC` (`Display`); both are accepted as the offset of a date-time
(`roundtrip_DateTime_Utc`) -/
theorem utc_names : utc_debug = asciiBytes "Z" ∧ utc_display = asciiBytes "UTC" := by decide

/-! ### shape of the printed form -/

/-- the year carries an explicit sign exactly outside 0..=9999 (`-` for negative years), and at least
four digits follow -/
theorem print_shape_year_sign (y : Int) (hy : -1000000 < y ∧ y < 1000000) :
    ((∃ ds, yearText y = 45 :: ds ∧ 4 ≤ ds.length) ↔ y < 0) ∧
    ((∃ ds, yearText y = 43 :: ds ∧ 4 ≤ ds.length) ↔ 9999 < y) ∧
    ((yearText y).length = 4 ∧ (∀ c ∈ yearText y, 48 ≤ c ∧ c ≤ 57) ↔ (0 ≤ y ∧ y ≤ 9999)) := by
  obtain ⟨w4, _, _⟩ := yearWidth_spec y.natAbs (by omega)
  have hdig : ∀ w n, ∀ c ∈ decN w n, 48 ≤ c ∧ c ≤ 57 := fun w n c hc =>
    (RenderScan.isDigit_iff c).mp (decN_allDigits w n c hc)
  unfold yearText
  by_cases h4 : 0 ≤ y ∧ y ≤ 9999
  · rw [if_pos h4]
    have hd0 := decN4 y.toNat
    refine ⟨⟨?_, fun h => by omega⟩, ⟨?_, fun h => by omega⟩, ⟨fun _ => h4, fun _ => ⟨decN_length _ _, hdig _ _⟩⟩⟩
    · rintro ⟨ds, h, _⟩; rw [hd0] at h; injection h with h _; omega
    · rintro ⟨ds, h, _⟩; rw [hd0] at h; injection h with h _; omega
  · rw [if_neg h4]
    by_cases hn : y < 0
    · rw [if_pos hn]
      refine ⟨⟨fun _ => hn, fun _ => ⟨_, rfl, by rw [decN_length]; exact w4⟩⟩,
        ⟨?_, fun h => by omega⟩, ⟨?_, fun h => absurd h h4⟩⟩
      · rintro ⟨ds, h, _⟩; injection h with h _; omega
      · rintro ⟨_, h⟩; have := h 45 (List.mem_cons_self ..); omega
    · rw [if_neg hn]
      refine ⟨⟨?_, fun h => absurd h hn⟩, ⟨fun _ => by omega, fun _ => ⟨_, rfl, by rw [decN_length]; exact w4⟩⟩,
        ⟨?_, fun h => absurd h h4⟩⟩
      · rintro ⟨ds, h, _⟩; injection h with h _; omega
      · rintro ⟨_, h⟩; have := h 43 (List.mem_cons_self ..); omega

/-- the fraction is printed with 0, 3, 6 or 9 digits; nothing is lost; no smaller choice loses nothing -/
theorem print_shape_fraction (nano : Nat) (_h : nano < 1000000000) :
    (fracDigits nano = 0 ∨ fracDigits nano = 3 ∨ fracDigits nano = 6 ∨ fracDigits nano = 9) ∧
    (fracText nano).length = (if fracDigits nano = 0 then 0 else fracDigits nano + 1) ∧
    nano / 10 ^ (9 - fracDigits nano) * 10 ^ (9 - fracDigits nano) = nano ∧
    (∀ k, k = 0 ∨ k = 3 ∨ k = 6 ∨ k = 9 → nano % 10 ^ (9 - k) = 0 → fracDigits nano ≤ k) := by
  have hc := fracDigits_cases nano
  refine ⟨by rcases hc with h | h | h | h <;> omega, ?_, ?_, ?_⟩
  · unfold fracText
    split
    · rfl
    · simp [decN_length]
  · rcases hc with h' | h' | h' | h'
    · rw [h'.1]; omega
    · rw [h'.1]; norm_num; omega
    · rw [h'.1]; norm_num; omega
    · rw [h']; norm_num
  · intro k hk hz
    unfold Text.fracDigits
    rcases hk with rfl | rfl | rfl | rfl <;> norm_num at hz <;> repeat' split
    all_goals omega

/-- a leap second (fraction field ≥ 10⁹, on second 59) is printed as second 60 with the sub-second
part as fraction; any other value prints its own second, below 60 -/
theorem print_shape_leap_second (t : Time) (ht : TStrict t) :
    (t.frac ≥ 1000000000 → shownSecond t = 60 ∧ (shownNano t : Int) = t.frac - 1000000000) ∧
    (t.frac < 1000000000 → (shownSecond t : Int) = secondOf t ∧ shownSecond t < 60 ∧ (shownNano t : Int) = t.frac) := by
  obtain ⟨⟨t0, t1, t2, t3⟩, hl⟩ := ht
  unfold shownSecond shownNano secondOf
  constructor
  · intro h; rw [if_pos h]; omega
  · intro h; rw [if_neg (by omega)]; omega

/-! ### the shape of what the writers print (audit gap L1)

The three theorems above are about the specification's text functions.  Below, the shape predicates of
Spec/TextShapeSpec.lean (`DateShape`, `TimeShapeOf`, `OffsetShape`: plain statements about bytes,
digits and the numbers they denote — sign exactly outside 0..=9999, fewest of 0/3/6/9 exact fraction
digits, second 60 for a leap second) are stated directly on the output of the `Debug` / `Display`
models. -/

/-- NaiveDate, both forms: `[sign]YYYY-MM-DD` with the sign rule of the property -/
theorem NaiveDate_text_shape (d : Date) (hd : DateInv d) :
    ∃ s, date_debug d = wok s ∧ date_display d = wok s ∧
      DateShape d.year (monthOfYo d.year d.ordinal.toNat) (dayOfYo d.year d.ordinal.toNat) s := by
  obtain ⟨hvd, _⟩ := date_of_inv d hd
  obtain ⟨a1, a2, _, a4, _, a6⟩ := vd_month_day _ _ hvd
  exact ⟨_, (roundtrip_NaiveDate d hd).1, (roundtrip_NaiveDate d hd).1,
    dateShape_dateText _ ⟨a1, a2⟩ _ _ (by omega) (by omega)⟩

/-- NaiveTime, both forms: `HH:MM:SS[.fraction]`, minimal exact fraction, second 60 for a leap second -/
theorem NaiveTime_text_shape (t : Time) (ht : TStrict t) :
    ∃ s, time_debug t = wok s ∧ time_display t = wok s ∧ TimeShapeOf t s :=
  ⟨_, (roundtrip_NaiveTime t ht).1, (roundtrip_NaiveTime t ht).1, timeShape_timeText t ht⟩

/-- NaiveDateTime: date, `T` (`Debug`) or space (`Display`), time -/
theorem NaiveDateTime_text_shape (dt : NaiveDT) (h : NDTInv dt) (hs : TStrict dt.time) :
    ∃ ds ts, naive_debug dt = wok (ds ++ 84 :: ts) ∧ naive_display dt = wok (ds ++ 32 :: ts) ∧
      DateShape dt.date.year (monthOfYo dt.date.year dt.date.ordinal.toNat)
        (dayOfYo dt.date.year dt.date.ordinal.toNat) ds ∧ TimeShapeOf dt.time ts := by
  obtain ⟨hvd, _⟩ := date_of_inv dt.date h.1
  obtain ⟨a1, a2, _, a4, _, a6⟩ := vd_month_day _ _ hvd
  exact ⟨dateTextOf dt.date, timeText dt.time, (roundtrip_NaiveDateTime_debug dt h hs).1,
    (roundtrip_NaiveDateTime_display_fails dt h hs).1,
    dateShape_dateText _ ⟨a1, a2⟩ _ _ (by omega) (by omega), timeShape_timeText _ hs⟩

/-- DateTime<FixedOffset>, the WHOLE quantifier domain (the F25 band included: there the year shown
is -262144 or +262143, six digits with its sign): wall-clock date, `T` / space, wall-clock time,
nothing / space, `±hh:mm`; the wall clock `l` is the reading of `wallSecs z` on the extended calendar
with the fraction field of the value -/
theorem DateTime_FixedOffset_text_shape (z : Zoned) (hz : ZInv z) (hm : WholeMinute z.off)
    (hs : TStrict z.utc.time) :
    ∃ l ds ts os, ExtNDTInv l ∧ instSecs l = wallSecs z ∧ l.time.frac = z.utc.time.frac ∧
      fixed_debug z = wok (ds ++ 84 :: (ts ++ os)) ∧ fixed_display z = wok (ds ++ 32 :: (ts ++ 32 :: os)) ∧
      DateShape l.date.year (monthOfYo l.date.year l.date.ordinal.toNat)
        (dayOfYo l.date.year l.date.ordinal.toNat) ds ∧ TimeShapeOf l.time ts ∧ OffsetShape z.off os := by
  obtain ⟨l, _, hext, h3, h4, hst, hv, hd, hp⟩ := fixed_texts_ext z hz hm hs
  obtain ⟨a1, a2, _, a4, _, a6⟩ := vyo_month_day _ _ hv
  refine ⟨l, dateTextOf l.date, timeText l.time, offsetText z.off, hext, h3, h4, ?_, ?_,
    dateShape_dateText _ ⟨a1, a2⟩ _ _ (by omega) (by omega), timeShape_timeText _ hst,
    offsetShape_offsetText _ hz.2⟩
  · rw [hd]; simp only [naiveText, List.append_assoc, List.cons_append]
  · rw [hp]; simp only [naiveText, List.append_assoc, List.cons_append]

/-- DateTime<Utc>: date, `T` / space, time, `Z` / ` UTC` -/
theorem DateTime_Utc_text_shape (u : NaiveDT) (hu : NDTInv u) (hs : TStrict u.time) :
    ∃ ds ts, utc_dt_debug u = wok (ds ++ 84 :: (ts ++ asciiBytes "Z")) ∧
      utc_dt_display u = wok (ds ++ 32 :: (ts ++ asciiBytes " UTC")) ∧
      DateShape u.date.year (monthOfYo u.date.year u.date.ordinal.toNat)
        (dayOfYo u.date.year u.date.ordinal.toNat) ds ∧ TimeShapeOf u.time ts := by
  obtain ⟨hvd, _⟩ := date_of_inv u.date hu.1
  obtain ⟨a1, a2, _, a4, _, a6⟩ := vd_month_day _ _ hvd
  obtain ⟨b1, _, b3, _⟩ := roundtrip_DateTime_Utc u hu hs
  refine ⟨dateTextOf u.date, timeText u.time, ?_, ?_,
    dateShape_dateText _ ⟨a1, a2⟩ _ _ (by omega) (by omega), timeShape_timeText _ hs⟩
  · rw [b1]; simp only [naiveText, List.append_assoc, List.cons_append]; rfl
  · rw [b3]; simp only [naiveText, List.append_assoc, List.cons_append]; rfl

/-- FixedOffset, both forms: `±hh:mm` -/
theorem FixedOffset_text_shape (off : Int) (h : WholeMinute off) :
    offset_display off = offset_debug off ∧ OffsetShape off (offset_debug off) := by
  refine ⟨rfl, ?_⟩
  rw [(roundtrip_FixedOffset off h).1]
  exact offsetShape_offsetText off ⟨h.1, h.2.1⟩

/-- what the shape predicates say on concrete text: year 12345 shows `+` and five digits, a fraction
of 500 ms shows exactly `.500`, a leap second shows second 60; -0001 keeps four digits -/
example : DateShape 12345 3 1 (asciiBytes "+12345-03-01") ∧ ¬ DateShape 12345 3 1 (asciiBytes "12345-03-01") ∧
    TimeShapeOf ⟨86399, 1500000000⟩ (asciiBytes "23:59:60.500") ∧
    ¬ FracShape 500000000 (asciiBytes ".500000") ∧ ¬ FracShape 500000000 (asciiBytes ".5") ∧
    DateShape (-1) 12 31 (asciiBytes "-0001-12-31") := by
  refine ⟨?_, ?_, ?_, ?_, ?_, ?_⟩
  · have := dateShape_dateText 12345 (by omega) 3 1 (by omega) (by omega)
    rwa [show dateText 12345 3 1 = asciiBytes "+12345-03-01" by decide +kernel] at this
  · rintro ⟨ys, ms, ds, he, ⟨sign, dg, hy, _, _, _, _, _, hplus, _⟩, ⟨hml, _, _⟩, ⟨hdl, _, _⟩⟩
    have hsign : sign = [43] := hplus.mpr (by omega)
    subst hsign; subst hy
    have : asciiBytes "12345-03-01" = [49, 50, 51, 52, 53, 45, 48, 51, 45, 48, 49] := by decide
    rw [this] at he
    simp only [List.cons_append, List.nil_append, List.cons.injEq] at he
    omega
  · have := timeShape_timeText ⟨86399, 1500000000⟩ (by decide)
    rwa [show timeText ⟨86399, 1500000000⟩ = asciiBytes "23:59:60.500" by decide +kernel] at this
  · rintro (⟨h, _⟩ | ⟨_, k, ds, he, _, hl, _, _, hmin⟩)
    · omega
    · have : asciiBytes ".500000" = [46, 53, 48, 48, 48, 48, 48] := by decide
      rw [this] at he
      injection he with _ he
      subst he
      simp only [List.length_cons, List.length_nil] at hl
      have := hmin 3 (Or.inl rfl) (by omega)
      omega
  · rintro (⟨h, _⟩ | ⟨_, k, ds, he, _, hl, hk, _, _⟩)
    · omega
    · have : asciiBytes ".5" = [46, 53] := by decide
      rw [this] at he
      injection he with _ he
      subst he
      simp only [List.length_cons, List.length_nil] at hl
      omega
  · have := dateShape_dateText (-1) (by omega) 12 31 (by omega) (by omega)
    rwa [show dateText (-1) 12 31 = asciiBytes "-0001-12-31" by decide +kernel] at this

/-! ### known finding F25: a wall clock outside `NaiveDate`'s range -/

/-- `DateTime::<Utc>::MAX_UTC` seen at +00:01 prints the wall-clock year +262143 and `FromStr` answers
`Err(OutOfRange)` (the reader resolves the local date first); the side condition
`Zoned.naive_local z = .ok l` of `roundtrip_DateTime_FixedOffset` excludes exactly these values
(`fixed_parses_back_iff`; universal form `fixed_out_of_range_never_parses_back`, MIN side and
`Display` form `fixed_local_before_min_does_not_parse_back`,
`fixed_local_after_max_display_does_not_parse_back`) -/
theorem fixed_local_out_of_range_does_not_parse_back :
    ZInv ⟨NaiveDT.MAX, 60⟩ ∧ WholeMinute 60 ∧ TStrict NaiveDT.MAX.time ∧
    Zoned.naive_local ⟨NaiveDT.MAX, 60⟩ = .panic ∧
    fixed_debug ⟨NaiveDT.MAX, 60⟩ = wok (asciiBytes "+262143-01-01T00:00:59.999999999+00:01") ∧
    fixed_from_str (asciiBytes "+262143-01-01T00:00:59.999999999+00:01") = .ok (.error .outOfRange) := by
  refine ⟨by unfold ZInv NDTInv OffValid; decide +kernel, by unfold WholeMinute; decide, by decide +kernel,
    by decide +kernel, by decide +kernel, ?_⟩
  have htext : asciiBytes "+262143-01-01T00:00:59.999999999+00:01" =
      dateText 262143 1 1 ++ (84 :: (timeText ⟨59, 999999999⟩ ++ offsetText 60)) := by decide +kernel
  have hrel := relaxed_on_text 262143 (by omega) 1 1 (by omega) (by omega) ⟨59, 999999999⟩ (by decide) 84
    (Or.inl rfl) (offsetText 60) (offsetText 60) 60 (by omega) (tailOk_cons 43 _ (by decide) (by decide))
    (by decide +kernel) (by show _ = Except.ok ([], (60 : Int)); rfl)
  unfold fixed_from_str
  rw [htext, hrel]
  simp only [Scan.trimStart, Scan.trimStartAux, List.length_nil, ne_eq, not_true_eq_false, if_false]
  decide +kernel

end Chrono.Props.C09
