/-
  C04 — zone-aware date-times: one instant, many wall clocks.
  Property statements only (helper lemmas: Proofs/ZonedL.lean, on top of the proved packed-date
  specification of C01 — Proofs/DateL.lean — and the proved offset shift of C07 — Proofs/TimeL.lean).

  Vocabulary (Spec/InstantSpec.lean, Spec/ZonedSpec.lean):
    `instSecs dt`      whole seconds since 1970-01-01T00:00:00 of a naive reading, through the
                       closed-form day number of Spec/Calendar.lean (independent of chrono's tables);
    `wallSecs z`       `instSecs z.utc + z.off` — the wall clock of a zone-aware value;
    `ExtNDTInv`        a well-formed reading of the calendar *extended by one year at each end*
                       (year, existing ordinal, the flags — leap bit and weekday — of that year);
    `NDTInv`/`DateInv` the same inside the supported range;  `ZInv z` = `NDTInv z.utc ∧ |off| < 86400`;
    `InRangeSecs s`    the date of second `s` lies in `[NaiveDate::MIN, NaiveDate::MAX]`;
    `InUtcRange s f`   `MIN_UTC ≤ (s, f) ≤ MAX_UTC` in `NaiveDateTime`'s derived order;
    `cmpKey`           lexicographic three-way comparison of (second, nanosecond field).
  `Zoned` is `DateTime<FixedOffset>`; `DateTime<Utc>` is the case `off = 0`.
-/
import Chrono.Proofs.ZonedL

namespace Chrono.Props.C04
open Chrono Chrono.M Chrono.Spec Chrono.Proofs Chrono.Extracted

/-! ### Offsets -/

/-- `FixedOffset::east_opt` / `west_opt` accept exactly the offsets strictly between −24 h and +24 h
(every integer argument); `west` stores the negated value -/
theorem east_opt_iff (s : Int) :
    (Zoned.east_opt s = if -86400 < s ∧ s < 86400 then some s else none) ∧
    (Zoned.west_opt s = if -86400 < s ∧ s < 86400 then some (-s) else none) ∧
    (∀ o, Zoned.east_opt s = some o → OffValid o) ∧ (∀ o, Zoned.west_opt s = some o → OffValid o) := by
  refine ⟨rfl, rfl, ?_, ?_⟩
  · intro o h
    unfold Zoned.east_opt at h
    unfold OffValid
    split at h <;> simp at h
    omega
  · intro o h
    unfold Zoned.west_opt at h
    unfold OffValid
    split at h <;> simp at h
    omega

example : Zoned.east_opt 86399 = some 86399 ∧ Zoned.east_opt 86400 = none ∧
    Zoned.west_opt (-86399) = some 86399 ∧ Zoned.east_opt (-86400) = none := by decide

/-! ### The headroom day at each end of the range -/

/-- the two constants that stand for "one day before MIN" and "one day after MAX" are the
calendar's own days: last day (ordinal 366) of the leap year `MIN_YEAR − 1` and first day of
`MAX_YEAR + 1`, with the flags (leap bit, weekday) of those years, adjacent in day number to the range
ends, with the right weekday -/
theorem headroom_dates :
    Date.BEFORE_MIN = dateOfYo (MIN_YEAR - 1) 366 ∧ Date.AFTER_MAX = dateOfYo (MAX_YEAR + 1) 1 ∧
    ExtDateInv Date.BEFORE_MIN ∧ ExtDateInv Date.AFTER_MAX ∧
    dayNumOf Date.BEFORE_MIN = DAY_MIN - 1 ∧ dayNumOf Date.AFTER_MAX = DAY_MAX + 1 ∧
    yearLen (MIN_YEAR - 1) = 366 ∧ Date.BEFORE_MIN.leap_year = true ∧ Date.AFTER_MAX.leap_year = false ∧
    (Date.BEFORE_MIN.weekday.toNat : Int) = weekdayOf (DAY_MIN - 1) ∧
    (Date.AFTER_MAX.weekday.toNat : Int) = weekdayOf (DAY_MAX + 1) ∧
    instSecs NaiveDT.MIN = SECS_MIN ∧ instSecs NaiveDT.MAX = SECS_MAX := by decide

/-- **headroom_sound.**  For every in-range UTC reading and every offset of less than a day,
`overflowing_naive_local` never panics and is *the* wall clock: a well-formed reading of the extended
calendar whose second count is `instant + offset` and whose nanosecond field (hence a leap second) is
untouched.  `naive_local` returns the same reading when its date is in the supported range and panics
exactly otherwise. -/
theorem headroom_sound (z : Zoned) (hz : ZInv z) :
    ∃ l, Zoned.overflowing_naive_local z = .ok l ∧ ExtNDTInv l ∧ instSecs l = wallSecs z ∧
      l.time.frac = z.utc.time.frac ∧
      Zoned.naive_local z = (if InRangeSecs (wallSecs z) then .ok l else .panic) ∧
      (DateInv l.date ↔ InRangeSecs (wallSecs z)) :=
  naive_local_spec z hz

/-- a reading of the extended calendar is determined by its second count and nanosecond field, so
`headroom_sound` characterises the wall clock uniquely -/
theorem reading_unique (a b : NaiveDT) (ha : ExtNDTInv a) (hb : ExtNDTInv b)
    (hs : instSecs a = instSecs b) (hf : a.time.frac = b.time.frac) : a = b :=
  ndt_unique a b ha hb hs hf

/-- **Field accessors read the wall clock** (also in the headroom day): with `n` the day number and
`s` the second of day of `instant + offset`, the year/ordinal are the unique pair with that day
number, month and day its calendar form, the weekday that of `n`, the `Datelike` day count is `n`
(no `i32` overflow), hour/minute/second decompose `s`, the nanosecond field is the stored one. -/
theorem accessors_read_wall_clock (z : Zoned) (hz : ZInv z) :
    ∃ (y : Int) (o : Nat), MIN_YEAR - 1 ≤ y ∧ y ≤ MAX_YEAR + 1 ∧ 1 ≤ o ∧ o ≤ yearLen y ∧
      dayNumYo y o = EPOCH_DAY + wallSecs z / 86400 ∧
      Zoned.year z = .ok y ∧ Zoned.ordinal z = .ok o ∧
      Zoned.month z = .ok (monthOfYo y o) ∧ Zoned.day z = .ok (dayOfYo y o) ∧
      (∃ w, Zoned.weekday z = .ok w ∧ (w.toNat : Int) = weekdayOf (EPOCH_DAY + wallSecs z / 86400)) ∧
      Zoned.num_days_from_ce z = .ok (EPOCH_DAY + wallSecs z / 86400) ∧
      Zoned.hour z = .ok (wallSecs z % 86400 / 3600) ∧
      Zoned.minute z = .ok (wallSecs z % 86400 / 60 % 60) ∧
      Zoned.second z = .ok (wallSecs z % 86400 % 60) ∧
      Zoned.nanosecond z = .ok z.utc.time.frac := by
  obtain ⟨l, h1, h2, h3, h4, _, _⟩ := naive_local_spec z hz
  obtain ⟨e, v1, v2, v3, v4⟩ := ext_eq l.date h2.1
  obtain ⟨t1, t2, _, _⟩ := h2.2
  have hyl := yearLen_ge l.date.year
  have hsecs := instSecs_ext l h2.1
  rw [h3] at hsecs
  have hday : dayNumYo l.date.year l.date.ordinal.toNat = EPOCH_DAY + wallSecs z / 86400 := by omega
  have hsod : l.time.secs = wallSecs z % 86400 := by omega
  obtain ⟨f1, f2, _⟩ := dateOfYo_fields l.date.year l.date.ordinal.toNat (by omega)
  obtain ⟨m1, m2, _, _⟩ := month_day_spec l.date.year l.date.ordinal.toNat v3 v4
  have hw := weekday_spec l.date.year l.date.ordinal.toNat (by omega)
  rw [← e] at m1 m2 hw
  have hMIN : MIN_YEAR = -262143 := rfl
  have hMAX : MAX_YEAR = 262142 := rfl
  have hn := num_days_spec (dateOfYo l.date.year l.date.ordinal.toNat) (by rw [f1]; omega)
    (by rw [f1]; omega) (by rw [f2]; omega)
  rw [f1, f2] at hn
  obtain ⟨a1, a2, a3, a4, _⟩ := accessors' l.time h2.2
  refine ⟨l.date.year, l.date.ordinal.toNat, v1, v2, v3, v4, hday, ?_, ?_, ?_, ?_, ?_, ?_, ?_, ?_, ?_, ?_⟩
  · unfold Zoned.year; rw [h1]; rfl
  · unfold Zoned.ordinal; rw [h1]
    show Res.ok l.date.ordinal = _
    rw [Int.toNat_of_nonneg (by have := h2.1.2.2.1; omega)]
  · unfold Zoned.month; rw [h1]; exact m1
  · unfold Zoned.day; rw [h1]; exact m2
  · refine ⟨l.date.weekday, ?_, ?_⟩
    · unfold Zoned.weekday; rw [h1]; rfl
    · rw [← hday]; exact hw
  · unfold Zoned.num_days_from_ce; rw [h1]; show l.date.num_days_from_ce = _; rw [e, hn, hday]
  · unfold Zoned.hour; rw [h1]; show Res.ok l.time.hour = _; rw [a1, ← hsod]; rfl
  · unfold Zoned.minute; rw [h1]; show Res.ok l.time.minute = _; rw [a2, ← hsod]; rfl
  · unfold Zoned.second; rw [h1]; show Res.ok l.time.second = _; rw [a3, ← hsod]; rfl
  · unfold Zoned.nanosecond; rw [h1]; show Res.ok l.time.nanosecond = _; rw [a4, h4]

/-- non-vacuity of `headroom_sound` / `accessors_read_wall_clock`: `MIN_UTC` seen at −01:00 reads
Dec 31 of the year before, 23:00, and `naive_local` panics; `MAX_UTC` at +00:00:01 reads Jan 1 -/
example :
    ZInv ⟨NaiveDT.MIN, -3600⟩ ∧
    Zoned.overflowing_naive_local ⟨NaiveDT.MIN, -3600⟩ = .ok ⟨Date.BEFORE_MIN, ⟨82800, 0⟩⟩ ∧
    Zoned.naive_local ⟨NaiveDT.MIN, -3600⟩ = .panic ∧
    Zoned.month ⟨NaiveDT.MIN, -3600⟩ = .ok 12 ∧ Zoned.day ⟨NaiveDT.MIN, -3600⟩ = .ok 31 ∧
    Zoned.overflowing_naive_local ⟨NaiveDT.MAX, 1⟩ = .ok ⟨Date.AFTER_MAX, ⟨0, 999999999⟩⟩ ∧
    Zoned.naive_local ⟨NaiveDT.MAX, 0⟩ = .ok NaiveDT.MAX := by decide +kernel

/-! ### Construction from a wall clock / from UTC -/

/-- **fromLocal_fails_iff.**  `from_local_datetime` (for any offset of less than a day and any
in-range wall clock) never panics and fails exactly when `wall clock − offset`, the UTC reading,
would leave the supported range. -/
theorem fromLocal_fails_iff (off : Int) (ℓ : NaiveDT) (ho : OffValid off) (hℓ : NDTInv ℓ) :
    ∃ r, Zoned.from_local_datetime off ℓ = .ok r ∧
      (r = none ↔ ¬ InRangeSecs (instSecs ℓ - off)) := by
  have hext : ExtNDTInv ℓ := ⟨((dateInv_iff ℓ.date).mp hℓ.1).1, hℓ.2⟩
  obtain ⟨r, h1, _, h3, h4⟩ := from_local_spec off ℓ ho hext
  refine ⟨r, h1, h3, ?_⟩
  intro hn
  by_contra hne
  exact hn (h4 hℓ.1 hne)

/-- **local_of_fromLocal.**  Building from a wall clock and reading the wall clock back is the
identity; the value carries the given offset, is well formed, and denotes the instant
`wall clock − offset`. -/
theorem local_of_fromLocal (off : Int) (ℓ : NaiveDT) (ho : OffValid off) (hℓ : NDTInv ℓ) (z : Zoned)
    (h : Zoned.from_local_datetime off ℓ = .ok (some z)) :
    z.off = off ∧ ZInv z ∧ Zoned.naive_local z = .ok ℓ ∧ Zoned.overflowing_naive_local z = .ok ℓ ∧
    instSecs z.utc = instSecs ℓ - off ∧ z.utc.time.frac = ℓ.time.frac := by
  have hext : ExtNDTInv ℓ := ⟨((dateInv_iff ℓ.date).mp hℓ.1).1, hℓ.2⟩
  obtain ⟨r, h1, h2, _, _⟩ := from_local_spec off ℓ ho hext
  rw [h] at h1
  obtain ⟨a, b, c, d, e⟩ := h2 z (by injection h1 with h1; exact h1.symm)
  have hzi : ZInv z := ⟨⟨e hℓ.1, b.2⟩, by rw [a]; exact ho⟩
  have hback := local_back z hzi ℓ hext (by rw [a]; exact c) d
  obtain ⟨l, l1, _, l3, _, l5, l6⟩ := naive_local_spec z hzi
  rw [hback] at l1
  injection l1 with l1
  subst l1
  refine ⟨a, hzi, ?_, hback, c, d⟩
  rw [l5, if_pos (l6.mp hℓ.1)]

/-- **utc_of_fromUtc.**  Building from a UTC reading and reading UTC back is the identity (and cannot
fail); moreover, whenever the wall clock of that value is in range, building from that wall clock
gives the same value back. -/
theorem utc_of_fromUtc (off : Int) (u : NaiveDT) (ho : OffValid off) (hu : NDTInv u) :
    (Zoned.from_utc_datetime off u).naive_utc = u ∧ (Zoned.from_utc_datetime off u).off = off ∧
    ∀ l, Zoned.naive_local (Zoned.from_utc_datetime off u) = .ok l →
      Zoned.from_local_datetime off l = .ok (some (Zoned.from_utc_datetime off u)) := by
  refine ⟨rfl, rfl, ?_⟩
  intro l hl
  have hzi : ZInv (Zoned.from_utc_datetime off u) := ⟨hu, ho⟩
  obtain ⟨l', l1, l2, l3, l4, l5, l6⟩ := naive_local_spec _ hzi
  rw [l5] at hl
  by_cases hin : InRangeSecs (wallSecs (Zoned.from_utc_datetime off u))
  · rw [if_pos hin] at hl
    injection hl with hl
    subst hl
    have hdl := l6.mpr hin
    obtain ⟨r, h1, h2, _, h4⟩ := from_local_spec off l' ho l2
    have hw : wallSecs (Zoned.from_utc_datetime off u) = instSecs u + off := rfl
    have hne : r ≠ none := by
      intro hr
      have hh : r = none → ¬ InRangeSecs (instSecs l' - off) := by assumption
      apply hh hr
      rw [l3, hw, show instSecs u + off - off = instSecs u by omega]
      have := (filter_spec u 0 ⟨((dateInv_iff u.date).mp hu.1).1, hu.2⟩)
      obtain ⟨eu, vu⟩ := ext_eq u.date ((dateInv_iff u.date).mp hu.1).1
      rw [instSecs_ext u ((dateInv_iff u.date).mp hu.1).1, inrange_iff _ _ ⟨hu.2.1, hu.2.2.1⟩,
        range_iff _ _ ⟨vu.2.2.1, vu.2.2.2⟩]
      exact ⟨hu.1.1, hu.1.2.1⟩
    cases r with
    | none => exact absurd rfl hne
    | some z =>
      obtain ⟨a, b, c, d, _⟩ := h2 z rfl
      rw [h1]
      congr 2
      have hzu : z.utc = u := by
        apply ndt_unique z.utc u b ⟨((dateInv_iff u.date).mp hu.1).1, hu.2⟩
        · rw [c, l3, hw]; omega
        · rw [d, l4]; rfl
      cases z; simp only [Zoned.from_utc_datetime, Zoned.mk.injEq]; exact ⟨hzu, a⟩
  · rw [if_neg hin] at hl; cases hl

/-- non-vacuity: 1970-01-01T00:30 at +01:00 is 1969-12-31T23:30Z and reads back; `MIN` as a wall
clock at +00:00:01 has no UTC reading, at −00:00:01 it has -/
example :
    Zoned.from_local_datetime 3600 ⟨dateOfYo 1970 1, ⟨1800, 7⟩⟩ = .ok (some ⟨⟨dateOfYo 1969 365, ⟨84600, 7⟩⟩, 3600⟩) ∧
    Zoned.naive_local ⟨⟨dateOfYo 1969 365, ⟨84600, 7⟩⟩, 3600⟩ = .ok ⟨dateOfYo 1970 1, ⟨1800, 7⟩⟩ ∧
    Zoned.from_local_datetime 1 NaiveDT.MIN = .ok none ∧
    Zoned.from_local_datetime (-1) NaiveDT.MIN = .ok (some ⟨⟨Date.MIN, ⟨1, 0⟩⟩, -1⟩) ∧
    NDTInv NaiveDT.MIN ∧ ¬ InRangeSecs (instSecs NaiveDT.MIN - 1) := by decide +kernel

/-! ### Equality, ordering, hashing; changing the zone -/

/-- **cmp_by_instant.**  Equality, ordering and hashing of zone-aware values are functions of the
UTC readings alone (the offsets do not enter), and on well-formed values they are equality / order
of the instants: the comparison is the lexicographic comparison of (second, nanosecond field), two
values are equal iff both agree, and the hashed words agree iff the values are equal. -/
theorem cmp_by_instant (a b : Zoned) (ha : ZInv a) (hb : ZInv b) :
    (∀ oa ob, Zoned.cmp ⟨a.utc, oa⟩ ⟨b.utc, ob⟩ = Zoned.cmp a b ∧
              Zoned.eq ⟨a.utc, oa⟩ ⟨b.utc, ob⟩ = Zoned.eq a b ∧
              Zoned.hashWords ⟨a.utc, oa⟩ = Zoned.hashWords a) ∧
    Zoned.cmp a b = cmpKey (instSecs a.utc) a.utc.time.frac (instSecs b.utc) b.utc.time.frac ∧
    (Zoned.eq a b = true ↔ instSecs a.utc = instSecs b.utc ∧ a.utc.time.frac = b.utc.time.frac) ∧
    (Zoned.eq a b = true ↔ Zoned.cmp a b = 0) ∧
    (Zoned.hashWords a = Zoned.hashWords b ↔ Zoned.eq a b = true) := by
  have ea : ExtNDTInv a.utc := ⟨((dateInv_iff a.utc.date).mp ha.1.1).1, ha.1.2⟩
  have eb : ExtNDTInv b.utc := ⟨((dateInv_iff b.utc.date).mp hb.1.1).1, hb.1.2⟩
  have hcmp : Zoned.cmp a b = cmpKey (instSecs a.utc) a.utc.time.frac (instSecs b.utc) b.utc.time.frac :=
    cmp_spec a.utc b.utc ea eb
  have heq : Zoned.eq a b = true ↔ instSecs a.utc = instSecs b.utc ∧ a.utc.time.frac = b.utc.time.frac := by
    unfold Zoned.eq
    simp only [decide_eq_true_eq]
    constructor
    · intro h; rw [h]; exact ⟨rfl, rfl⟩
    · intro h; exact ndt_unique _ _ ea eb h.1 h.2
  refine ⟨fun _ _ => ⟨rfl, rfl, rfl⟩, hcmp, heq, ?_, ?_⟩
  · rw [heq, hcmp]; unfold cmpKey
    constructor
    · intro h; rw [h.1, h.2]; simp
    · intro h; constructor <;> omega
  · unfold Zoned.hashWords NaiveDT.hashWords Zoned.eq
    simp only [decide_eq_true_eq]
    constructor
    · intro h
      simp only [List.cons.injEq, and_true] at h
      obtain ⟨h1, h2, h3⟩ := h
      cases a with | mk au ao => cases b with | mk bu bo =>
        cases au with | mk ad at_ => cases bu with | mk bd bt =>
          cases ad; cases bd; cases at_; cases bt
          simp_all
    · intro h; rw [h]

/-- **with_timezone_keeps_instant.**  Converting to another zone keeps the stored UTC reading, hence
the instant; the new value compares equal to the old one, hashes the same, and its wall clock moves by
exactly the offset difference. -/
theorem with_timezone_keeps_instant (z : Zoned) (off' : Int) :
    (Zoned.with_timezone z off').utc = z.utc ∧ (Zoned.with_timezone z off').off = off' ∧
    zonedInstNs (Zoned.with_timezone z off') = zonedInstNs z ∧
    wallSecs (Zoned.with_timezone z off') = wallSecs z - z.off + off' ∧
    Zoned.eq (Zoned.with_timezone z off') z = true ∧ Zoned.cmp (Zoned.with_timezone z off') z = 0 ∧
    Zoned.hashWords (Zoned.with_timezone z off') = Zoned.hashWords z ∧
    (Zoned.to_utc z).utc = z.utc ∧ (Zoned.fixed_offset z) = z := by
  refine ⟨rfl, rfl, rfl, ?_, ?_, ?_, rfl, rfl, rfl⟩
  · unfold wallSecs Zoned.with_timezone; dsimp only; omega
  · unfold Zoned.eq Zoned.with_timezone; simp
  · unfold Zoned.cmp Zoned.with_timezone NaiveDT.cmp Date.cmp Time.cmp; simp

example : Zoned.cmp ⟨⟨dateOfYo 2024 60, ⟨0, 0⟩⟩, 3600⟩ ⟨⟨dateOfYo 2024 60, ⟨0, 0⟩⟩, -7200⟩ = 0 ∧
    Zoned.cmp ⟨⟨dateOfYo 2024 60, ⟨0, 0⟩⟩, 3600⟩ ⟨⟨dateOfYo 2024 59, ⟨86399, 1999999999⟩⟩, 0⟩ = 1 ∧
    Zoned.eq ⟨⟨dateOfYo 2024 60, ⟨0, 1⟩⟩, 0⟩ ⟨⟨dateOfYo 2024 60, ⟨0, 0⟩⟩, 0⟩ = false ∧
    Zoned.hashWords ⟨⟨dateOfYo 2024 60, ⟨5, 6⟩⟩, 3600⟩ = [(dateOfYo 2024 60).yof, 5, 6] := by decide +kernel

/-! ### Field replacement acts on the wall clock -/

/-- **map_local_spec.**  Let `l` be the wall clock of a well-formed `z` and let the replacement `f`
turn it into `r0` (a well-formed reading of the extended calendar, or a refusal).  Then `map_local`
never panics; a result has the same offset, is well formed and inside `MIN_UTC ..= MAX_UTC`, denotes
the instant `new wall clock − offset`, and its wall clock *is* the reading `f` produced; and there is
no result exactly when `f` refused or that instant is outside `MIN_UTC ..= MAX_UTC`. -/
theorem map_local_spec (z : Zoned) (hz : ZInv z) (f : NaiveDT → Res (Option NaiveDT)) (l : NaiveDT)
    (r0 : Option NaiveDT) (hl : Zoned.overflowing_naive_local z = .ok l) (hf : f l = .ok r0)
    (hv : ∀ nl, r0 = some nl → ExtNDTInv nl) :
    ∃ r, Zoned.map_local z f = .ok r ∧
      (∀ z', r = some z' → ∃ nl, r0 = some nl ∧ z'.off = z.off ∧ ZInv z' ∧
        Zoned.overflowing_naive_local z' = .ok nl ∧ instSecs z'.utc = instSecs nl - z.off ∧
        z'.utc.time.frac = nl.time.frac ∧ InUtcRange (instSecs z'.utc) z'.utc.time.frac) ∧
      (r = none ↔ (r0 = none ∨ ∃ nl, r0 = some nl ∧ ¬ InUtcRange (instSecs nl - z.off) nl.time.frac)) := by
  unfold Zoned.map_local
  rw [hl, bind_ok', hf, bind_ok']
  cases r0 with
  | none => exact ⟨none, rfl, by intro z' h; simp at h, by simp⟩
  | some nl =>
    obtain ⟨r, h1, h2, h3⟩ := back_filtered z hz nl (hv nl rfl)
    refine ⟨r, h1, ?_, ?_⟩
    · intro z' hz'; exact ⟨nl, rfl, h2 z' hz'⟩
    · rw [h3]; simp

/-- **with_time_spec** (the code after the repair of finding #14).  `with_time t` replaces the time
of day of the wall clock (keeping its date, also a headroom date) and filters the result to
`MIN_UTC ..= MAX_UTC`: never panics, fails exactly when `(wall-clock date, t) − offset` is outside. -/
theorem with_time_spec (z : Zoned) (hz : ZInv z) (t : Time) (ht : TValid t) :
    ∃ l, Zoned.overflowing_naive_local z = .ok l ∧ ExtNDTInv l ∧ instSecs l = wallSecs z ∧
    ∃ r, Zoned.with_time z t = .ok r ∧
      (∀ z', r = some z' → z'.off = z.off ∧ ZInv z' ∧
        Zoned.overflowing_naive_local z' = .ok ⟨l.date, t⟩ ∧
        instSecs z'.utc = instSecs ⟨l.date, t⟩ - z.off ∧ z'.utc.time.frac = t.frac ∧
        InUtcRange (instSecs z'.utc) z'.utc.time.frac) ∧
      (r = none ↔ ¬ InUtcRange (instSecs ⟨l.date, t⟩ - z.off) t.frac) := by
  obtain ⟨l, h1, h2, h3, _⟩ := naive_local_spec z hz
  refine ⟨l, h1, h2, h3, ?_⟩
  obtain ⟨r, a, b, c⟩ := back_filtered z hz ⟨l.date, t⟩ ⟨h2.1, ht⟩
  refine ⟨r, ?_, b, c⟩
  unfold Zoned.with_time
  rw [h1, bind_ok']
  exact a

/-- the time-field replacements are `with_time` with that one field of the wall-clock time changed
(`ofFields`, `hourOf`, … are C07's field vocabulary), refused when the field is out of range -/
theorem with_time_field_spec (z : Zoned) (hz : ZInv z) (v : Int) (hv : 0 ≤ v) :
    ∃ l, Zoned.overflowing_naive_local z = .ok l ∧ TValid l.time ∧
    Zoned.with_hour z v = (if v < 24 then
      Zoned.with_time z (ofFields v (minuteOf l.time) (secondOf l.time) l.time.frac) else .ok none) ∧
    Zoned.with_minute z v = (if v < 60 then
      Zoned.with_time z (ofFields (hourOf l.time) v (secondOf l.time) l.time.frac) else .ok none) ∧
    Zoned.with_second z v = (if v < 60 then
      Zoned.with_time z (ofFields (hourOf l.time) (minuteOf l.time) v l.time.frac) else .ok none) ∧
    Zoned.with_nanosecond z v = (if v < 2000000000 then
      Zoned.with_time z (ofFields (hourOf l.time) (minuteOf l.time) (secondOf l.time) v) else .ok none) := by
  obtain ⟨l, h1, h2, _⟩ := naive_local_spec z hz
  obtain ⟨w1, w2, w3, w4⟩ := with_field' l.time v h2.2 hv
  refine ⟨l, h1, h2.2, ?_, ?_, ?_, ?_⟩
  · unfold Zoned.with_hour Zoned.map_local Zoned.with_time NaiveDT.with_hour NaiveDT.mapTime
    rw [h1, bind_ok', bind_ok', w1, bind_ok']
    by_cases h : v < 24
    · rw [if_pos h, if_pos h]; rfl
    · rw [if_neg h, if_neg h]; rfl
  · unfold Zoned.with_minute Zoned.map_local Zoned.with_time NaiveDT.with_minute NaiveDT.mapTime
    rw [h1, bind_ok', bind_ok', w2, bind_ok']
    by_cases h : v < 60
    · rw [if_pos h, if_pos h]; rfl
    · rw [if_neg h, if_neg h]; rfl
  · unfold Zoned.with_second Zoned.map_local Zoned.with_time NaiveDT.with_second NaiveDT.mapTime
    rw [h1, bind_ok', bind_ok', w3, bind_ok']
    by_cases h : v < 60
    · rw [if_pos h, if_pos h]; rfl
    · rw [if_neg h, if_neg h]; rfl
  · unfold Zoned.with_nanosecond Zoned.map_local Zoned.with_time NaiveDT.with_nanosecond NaiveDT.mapTime
    rw [h1, bind_ok', bind_ok', w4, bind_ok']
    by_cases h : v < 2000000000
    · rw [if_pos h, if_pos h]; rfl
    · rw [if_neg h, if_neg h]; rfl

/-- non-vacuity, and the two inputs of finding #14 on the repaired code: `MAX_UTC` seen at +01:00,
`with_time(23:00:00)` would be 22:00 UTC on the day after MAX — refused; `MIN_UTC` at −01:00,
`with_time(00:00:00)` would be 01:00 UTC on the day before MIN — refused; `with_time(23:30)` on the
latter is in range; `with_hour(0)` on a headroom wall clock is refused, `with_hour(23)` keeps it -/
example :
    Zoned.with_time ⟨NaiveDT.MAX, 3600⟩ ⟨82800, 0⟩ = .ok none ∧
    Zoned.with_time ⟨NaiveDT.MIN, -3600⟩ ⟨0, 0⟩ = .ok none ∧
    Zoned.with_time ⟨NaiveDT.MIN, -3600⟩ ⟨84600, 0⟩ = .ok (some ⟨⟨Date.MIN, ⟨1800, 0⟩⟩, -3600⟩) ∧
    Zoned.with_hour ⟨NaiveDT.MIN, -3600⟩ 0 = .ok none ∧
    Zoned.with_hour ⟨NaiveDT.MIN, -3600⟩ 23 = .ok (some ⟨NaiveDT.MIN, -3600⟩) ∧
    Zoned.with_time ⟨⟨dateOfYo 2024 60, ⟨3600, 0⟩⟩, 7200⟩ ⟨0, 5⟩ = .ok (some ⟨⟨dateOfYo 2024 59, ⟨79200, 5⟩⟩, 7200⟩) := by
  decide +kernel

/-! ### Day and month stepping, calendar-field replacement: compared, partly proved -/

/-- PARTIAL.  What is proved about day / month stepping: `Days(0)` / `Months(0)` give the value back
(for `checked_sub_days(0)` and the month forms this goes through the wall clock and back, also from a
headroom wall clock).  Missing for the full statement "the wall clock moves by n days / n months with
the day clamped, filtered to the range": the specification of `NaiveDate::add_days` (C03) and of
`diff_months` (C08) on the extended calendar; with those, `map_local_spec`'s argument applies
verbatim.  All four operations, `with_year/month/day/ordinal(0)` and `with_ymd_and_hms` are compared
with the crate and checked by the independent wall-clock oracle of the harness. -/
theorem stepping_zero_partial (z : Zoned) (hz : ZInv z) :
    Zoned.checked_add_days z 0 = .ok (some z) ∧
    Zoned.checked_add_months z 0 = .ok (some z) ∧ Zoned.checked_sub_months z 0 = .ok (some z) := by
  obtain ⟨l, h1, h2, h3, h4, _, _⟩ := naive_local_spec z hz
  have hback : Zoned.from_local_datetime z.off l = .ok (some z) := by
    obtain ⟨r, a, b, c, _⟩ := from_local_spec z.off l hz.2 h2
    have hin : InRangeSecs (instSecs l - z.off) := by
      rw [h3]; unfold wallSecs
      rw [show instSecs z.utc + z.off - z.off = instSecs z.utc by omega]
      have hue := ((dateInv_iff z.utc.date).mp hz.1.1)
      obtain ⟨eu, vu⟩ := ext_eq z.utc.date hue.1
      rw [instSecs_ext z.utc hue.1, inrange_iff _ _ ⟨hz.1.2.1, hz.1.2.2.1⟩, range_iff _ _ ⟨vu.2.2.1, vu.2.2.2⟩]
      exact hue.2
    cases r with
    | none => exact absurd hin (c rfl)
    | some z' =>
      obtain ⟨b1, b2, b3, b4, _⟩ := b z' rfl
      rw [a]; congr 2
      have : z'.utc = z.utc := by
        apply ndt_unique _ _ b2 ⟨((dateInv_iff z.utc.date).mp hz.1.1).1, hz.1.2⟩
        · rw [b3, h3]; unfold wallSecs; omega
        · rw [b4, h4]
      cases z'; cases z; simp_all
  refine ⟨rfl, ?_, ?_⟩
  · unfold Zoned.checked_add_months NaiveDT.checked_add_months NaiveDT.mapDate ZF.checked_add_months
    rw [h1, bind_ok', if_pos rfl, bind_ok', bind_ok']
    exact hback
  · unfold Zoned.checked_sub_months NaiveDT.checked_sub_months NaiveDT.mapDate ZF.checked_sub_months
    rw [h1, bind_ok', if_pos rfl, bind_ok', bind_ok']
    exact hback

example : Zoned.checked_sub_days ⟨NaiveDT.MIN, -3600⟩ 0 = .ok (some ⟨NaiveDT.MIN, -3600⟩) ∧
    Zoned.checked_add_days ⟨NaiveDT.MIN, -3600⟩ 1 = .ok (some ⟨⟨dateOfYo MIN_YEAR 2, ⟨0, 0⟩⟩, -3600⟩) ∧
    Zoned.checked_add_days ⟨NaiveDT.MAX, 3600⟩ 1 = .ok none ∧
    Zoned.checked_add_months ⟨⟨dateOfYo 2024 31, ⟨0, 0⟩⟩, -3600⟩ 1 =
      .ok (some ⟨⟨dateOfYo 2024 61, ⟨0, 0⟩⟩, -3600⟩) ∧
    Zoned.with_ordinal ⟨NaiveDT.MIN, -3600⟩ 366 = .ok (some ⟨NaiveDT.MIN, -3600⟩) ∧
    Zoned.with_ordinal ⟨NaiveDT.MIN, -3600⟩ 365 = .ok none ∧
    Zoned.with_year ⟨NaiveDT.MIN, -3600⟩ (MIN_YEAR - 1) = .ok (some ⟨NaiveDT.MIN, -3600⟩) ∧
    Zoned.with_ymd_and_hms 3600 1970 1 1 0 30 0 = .ok (some ⟨⟨dateOfYo 1969 365, ⟨84600, 0⟩⟩, 3600⟩) := by
  decide +kernel

end Chrono.Props.C04
