/-
  C04 — zone-aware date-times: one instant, many wall clocks.
  Property statements only (helper lemmas: Proofs/ZonedL.lean, Proofs/ZonedDateL.lean,
  Proofs/ZonedStepL.lean, on top of the proved packed-date specification of C01 — Proofs/DateL.lean —,
  the proved offset shift of C07 — Proofs/TimeL.lean —, the proved day arithmetic of C03 —
  Proofs/DateArithL.lean — and the proved month stepping / field replacement of C08 —
  Proofs/DateOpsL.lean; the latter two are extended to the two headroom years in ZonedDateL).

  Vocabulary (Spec/InstantSpec.lean, Spec/ZonedSpec.lean):
    `instSecs dt`      whole seconds since 1970-01-01T00:00:00 of a naive reading, through the
                       closed-form day number of Spec/Calendar.lean (independent of chrono's tables);
    `wallSecs z`       `instSecs z.utc + z.off` — the wall clock of a zone-aware value;
    `ExtNDTInv`        a well-formed reading of the calendar *extended by one year at each end*
                       (year, existing ordinal, the flags — leap bit and weekday — of that year);
    `NDTInv`/`DateInv` the same inside the supported range;  `ZInv z` = `NDTInv z.utc ∧ |off| < 86400`;
    `InRangeSecs s`    the date of second `s` lies in `[NaiveDate::MIN, NaiveDate::MAX]`;
    `InUtcRange s f`   `MIN_UTC ≤ (s, f) ≤ MAX_UTC` in `NaiveDateTime`'s derived order;
    `cmpKey`           lexicographic three-way comparison of (second, nanosecond field);
    `GeMinUtc`/`LeMaxUtc`  the two halves of `InUtcRange` (`utc_range_halves`);
    `ActsOnWall z t r` "`r` is the value at `z`'s offset whose wall clock is the target reading `t`,
                       filtered to `MIN_UTC ..= MAX_UTC`" (`ActsOnWallWith ok` for another filter);
    `ymdReading?`/`yoReading?`/`yearReading?`  target readings of the calendar-field replacements;
    `SteppedDays z l z' k`  `z'` is `z` with its wall clock `l` moved by `k` whole days;
    `addMonths?` (C08) month stepping with clamped day; `dayNumOf` (C01) day number of a date.
  `Zoned` is `DateTime<FixedOffset>`; `DateTime<Utc>` is the case `off = 0`.
-/
import Chrono.Proofs.ZonedStepL

namespace Chrono.Props.C04
open Chrono Chrono.M Chrono.Spec Chrono.Proofs Chrono.Proofs.ZN Chrono.Extracted

/-! ### Offsets -/

/-- `FixedOffset::east_opt` / `west_opt` accept exactly the offsets strictly between −24 h and +24 h
(every integer argument); `west` stores the negated value -/
theorem east_opt_iff (s : Int) :
    (Zoned.east_opt s = if -86400 < s ∧ s < 86400 then some s else none) ∧
    (Zoned.west_opt s = if -86400 < s ∧ s < 86400 then some (-s) else none) ∧
    (∀ o, Zoned.east_opt s = some o → OffValid o) ∧ (∀ o, Zoned.west_opt s = some o → OffValid o) := by
  refine ⟨rfl, rfl, ?_, ?_⟩
  · intro o h
    unfold Zoned.east_opt at h
    unfold OffValid
    split at h <;> simp at h
    omega
  · intro o h
    unfold Zoned.west_opt at h
    unfold OffValid
    split at h <;> simp at h
    omega

example : Zoned.east_opt 86399 = some 86399 ∧ Zoned.east_opt 86400 = none ∧
    Zoned.west_opt (-86399) = some 86399 ∧ Zoned.east_opt (-86400) = none := by decide

/-! ### The headroom day at each end of the range -/

/-- the two constants that stand for "one day before MIN" and "one day after MAX" are the
calendar's own days: last day (ordinal 366) of the leap year `MIN_YEAR − 1` and first day of
`MAX_YEAR + 1`, with the flags (leap bit, weekday) of those years, adjacent in day number to the range
ends, with the right weekday -/
theorem headroom_dates :
    Date.BEFORE_MIN = dateOfYo (MIN_YEAR - 1) 366 ∧ Date.AFTER_MAX = dateOfYo (MAX_YEAR + 1) 1 ∧
    ExtDateInv Date.BEFORE_MIN ∧ ExtDateInv Date.AFTER_MAX ∧
    dayNumOf Date.BEFORE_MIN = DAY_MIN - 1 ∧ dayNumOf Date.AFTER_MAX = DAY_MAX + 1 ∧
    yearLen (MIN_YEAR - 1) = 366 ∧ Date.BEFORE_MIN.leap_year = true ∧ Date.AFTER_MAX.leap_year = false ∧
    (Date.BEFORE_MIN.weekday.toNat : Int) = weekdayOf (DAY_MIN - 1) ∧
    (Date.AFTER_MAX.weekday.toNat : Int) = weekdayOf (DAY_MAX + 1) ∧
    instSecs NaiveDT.MIN = SECS_MIN ∧ instSecs NaiveDT.MAX = SECS_MAX := by decide

/-- **headroom_sound.**  For every in-range UTC reading and every offset of less than a day,
`overflowing_naive_local` never panics and is *the* wall clock: a well-formed reading of the extended
calendar whose second count is `instant + offset` and whose nanosecond field (hence a leap second) is
untouched.  `naive_local` returns the same reading when its date is in the supported range and panics
exactly otherwise. -/
theorem headroom_sound (z : Zoned) (hz : ZInv z) :
    ∃ l, Zoned.overflowing_naive_local z = .ok l ∧ ExtNDTInv l ∧ instSecs l = wallSecs z ∧
      l.time.frac = z.utc.time.frac ∧
      Zoned.naive_local z = (if InRangeSecs (wallSecs z) then .ok l else .panic) ∧
      (DateInv l.date ↔ InRangeSecs (wallSecs z)) :=
  naive_local_spec z hz

/-- a reading of the extended calendar is determined by its second count and nanosecond field, so
`headroom_sound` characterises the wall clock uniquely -/
theorem reading_unique (a b : NaiveDT) (ha : ExtNDTInv a) (hb : ExtNDTInv b)
    (hs : instSecs a = instSecs b) (hf : a.time.frac = b.time.frac) : a = b :=
  ndt_unique a b ha hb hs hf

/-- **Field accessors read the wall clock** (also in the headroom day): with `n` the day number and
`s` the second of day of `instant + offset`, the year/ordinal are the unique pair with that day
number, month and day its calendar form, the weekday that of `n`, the `Datelike` day count is `n`
(no `i32` overflow), hour/minute/second decompose `s`, the nanosecond field is the stored one. -/
theorem accessors_read_wall_clock (z : Zoned) (hz : ZInv z) :
    ∃ (y : Int) (o : Nat), MIN_YEAR - 1 ≤ y ∧ y ≤ MAX_YEAR + 1 ∧ 1 ≤ o ∧ o ≤ yearLen y ∧
      dayNumYo y o = EPOCH_DAY + wallSecs z / 86400 ∧
      Zoned.year z = .ok y ∧ Zoned.ordinal z = .ok o ∧
      Zoned.month z = .ok (monthOfYo y o) ∧ Zoned.day z = .ok (dayOfYo y o) ∧
      (∃ w, Zoned.weekday z = .ok w ∧ (w.toNat : Int) = weekdayOf (EPOCH_DAY + wallSecs z / 86400)) ∧
      Zoned.num_days_from_ce z = .ok (EPOCH_DAY + wallSecs z / 86400) ∧
      Zoned.hour z = .ok (wallSecs z % 86400 / 3600) ∧
      Zoned.minute z = .ok (wallSecs z % 86400 / 60 % 60) ∧
      Zoned.second z = .ok (wallSecs z % 86400 % 60) ∧
      Zoned.nanosecond z = .ok z.utc.time.frac := by
  obtain ⟨l, h1, h2, h3, h4, _, _⟩ := naive_local_spec z hz
  obtain ⟨e, v1, v2, v3, v4⟩ := ext_eq l.date h2.1
  obtain ⟨t1, t2, _, _⟩ := h2.2
  have hyl := yearLen_ge l.date.year
  have hsecs := instSecs_ext l h2.1
  rw [h3] at hsecs
  have hday : dayNumYo l.date.year l.date.ordinal.toNat = EPOCH_DAY + wallSecs z / 86400 := by omega
  have hsod : l.time.secs = wallSecs z % 86400 := by omega
  obtain ⟨f1, f2, _⟩ := dateOfYo_fields l.date.year l.date.ordinal.toNat (by omega)
  obtain ⟨m1, m2, _, _⟩ := month_day_spec l.date.year l.date.ordinal.toNat v3 v4
  have hw := weekday_spec l.date.year l.date.ordinal.toNat (by omega)
  rw [← e] at m1 m2 hw
  have hMIN : MIN_YEAR = -262143 := rfl
  have hMAX : MAX_YEAR = 262142 := rfl
  have hn := num_days_spec (dateOfYo l.date.year l.date.ordinal.toNat) (by rw [f1]; omega)
    (by rw [f1]; omega) (by rw [f2]; omega)
  rw [f1, f2] at hn
  obtain ⟨a1, a2, a3, a4, _⟩ := accessors' l.time h2.2
  refine ⟨l.date.year, l.date.ordinal.toNat, v1, v2, v3, v4, hday, ?_, ?_, ?_, ?_, ?_, ?_, ?_, ?_, ?_, ?_⟩
  · unfold Zoned.year; rw [h1]; rfl
  · unfold Zoned.ordinal; rw [h1]
    show Res.ok l.date.ordinal = _
    rw [Int.toNat_of_nonneg (by have := h2.1.2.2.1; omega)]
  · unfold Zoned.month; rw [h1]; exact m1
  · unfold Zoned.day; rw [h1]; exact m2
  · refine ⟨l.date.weekday, ?_, ?_⟩
    · unfold Zoned.weekday; rw [h1]; rfl
    · rw [← hday]; exact hw
  · unfold Zoned.num_days_from_ce; rw [h1]; show l.date.num_days_from_ce = _; rw [e, hn, hday]
  · unfold Zoned.hour; rw [h1]; show Res.ok l.time.hour = _; rw [a1, ← hsod]; rfl
  · unfold Zoned.minute; rw [h1]; show Res.ok l.time.minute = _; rw [a2, ← hsod]; rfl
  · unfold Zoned.second; rw [h1]; show Res.ok l.time.second = _; rw [a3, ← hsod]; rfl
  · unfold Zoned.nanosecond; rw [h1]; show Res.ok l.time.nanosecond = _; rw [a4, h4]

/-- non-vacuity of `headroom_sound` / `accessors_read_wall_clock`: `MIN_UTC` seen at −01:00 reads
Dec 31 of the year before, 23:00, and `naive_local` panics; `MAX_UTC` at +00:00:01 reads Jan 1 -/
example :
    ZInv ⟨NaiveDT.MIN, -3600⟩ ∧
    Zoned.overflowing_naive_local ⟨NaiveDT.MIN, -3600⟩ = .ok ⟨Date.BEFORE_MIN, ⟨82800, 0⟩⟩ ∧
    Zoned.naive_local ⟨NaiveDT.MIN, -3600⟩ = .panic ∧
    Zoned.month ⟨NaiveDT.MIN, -3600⟩ = .ok 12 ∧ Zoned.day ⟨NaiveDT.MIN, -3600⟩ = .ok 31 ∧
    Zoned.overflowing_naive_local ⟨NaiveDT.MAX, 1⟩ = .ok ⟨Date.AFTER_MAX, ⟨0, 999999999⟩⟩ ∧
    Zoned.naive_local ⟨NaiveDT.MAX, 0⟩ = .ok NaiveDT.MAX := by decide +kernel

/-! ### Construction from a wall clock / from UTC -/

/-- **fromLocal_fails_iff.**  `from_local_datetime` (for any offset of less than a day and any
in-range wall clock) never panics and fails exactly when `wall clock − offset`, the UTC reading,
would leave the supported range. -/
theorem fromLocal_fails_iff (off : Int) (ℓ : NaiveDT) (ho : OffValid off) (hℓ : NDTInv ℓ) :
    ∃ r, Zoned.from_local_datetime off ℓ = .ok r ∧
      (r = none ↔ ¬ InRangeSecs (instSecs ℓ - off)) := by
  have hext : ExtNDTInv ℓ := ⟨((dateInv_iff ℓ.date).mp hℓ.1).1, hℓ.2⟩
  obtain ⟨r, h1, _, h3, h4⟩ := from_local_spec off ℓ ho hext
  refine ⟨r, h1, h3, ?_⟩
  intro hn
  by_contra hne
  exact hn (h4 hℓ.1 hne)

/-- **local_of_fromLocal.**  Building from a wall clock and reading the wall clock back is the
identity; the value carries the given offset, is well formed, and denotes the instant
`wall clock − offset`. -/
theorem local_of_fromLocal (off : Int) (ℓ : NaiveDT) (ho : OffValid off) (hℓ : NDTInv ℓ) (z : Zoned)
    (h : Zoned.from_local_datetime off ℓ = .ok (some z)) :
    z.off = off ∧ ZInv z ∧ Zoned.naive_local z = .ok ℓ ∧ Zoned.overflowing_naive_local z = .ok ℓ ∧
    instSecs z.utc = instSecs ℓ - off ∧ z.utc.time.frac = ℓ.time.frac := by
  have hext : ExtNDTInv ℓ := ⟨((dateInv_iff ℓ.date).mp hℓ.1).1, hℓ.2⟩
  obtain ⟨r, h1, h2, _, _⟩ := from_local_spec off ℓ ho hext
  rw [h] at h1
  obtain ⟨a, b, c, d, e⟩ := h2 z (by injection h1 with h1; exact h1.symm)
  have hzi : ZInv z := ⟨⟨e hℓ.1, b.2⟩, by rw [a]; exact ho⟩
  have hback := local_back z hzi ℓ hext (by rw [a]; exact c) d
  obtain ⟨l, l1, _, l3, _, l5, l6⟩ := naive_local_spec z hzi
  rw [hback] at l1
  injection l1 with l1
  subst l1
  refine ⟨a, hzi, ?_, hback, c, d⟩
  rw [l5, if_pos (l6.mp hℓ.1)]

/-- **utc_of_fromUtc.**  Building from a UTC reading and reading UTC back is the identity (and cannot
fail); moreover, whenever the wall clock of that value is in range, building from that wall clock
gives the same value back. -/
theorem utc_of_fromUtc (off : Int) (u : NaiveDT) (ho : OffValid off) (hu : NDTInv u) :
    (Zoned.from_utc_datetime off u).naive_utc = u ∧ (Zoned.from_utc_datetime off u).off = off ∧
    ∀ l, Zoned.naive_local (Zoned.from_utc_datetime off u) = .ok l →
      Zoned.from_local_datetime off l = .ok (some (Zoned.from_utc_datetime off u)) := by
  refine ⟨rfl, rfl, ?_⟩
  intro l hl
  have hzi : ZInv (Zoned.from_utc_datetime off u) := ⟨hu, ho⟩
  obtain ⟨l', l1, l2, l3, l4, l5, l6⟩ := naive_local_spec _ hzi
  rw [l5] at hl
  by_cases hin : InRangeSecs (wallSecs (Zoned.from_utc_datetime off u))
  · rw [if_pos hin] at hl
    injection hl with hl
    subst hl
    have hdl := l6.mpr hin
    obtain ⟨r, h1, h2, _, h4⟩ := from_local_spec off l' ho l2
    have hw : wallSecs (Zoned.from_utc_datetime off u) = instSecs u + off := rfl
    have hne : r ≠ none := by
      intro hr
      have hh : r = none → ¬ InRangeSecs (instSecs l' - off) := by assumption
      apply hh hr
      rw [l3, hw, show instSecs u + off - off = instSecs u by omega]
      have := (filter_spec u 0 ⟨((dateInv_iff u.date).mp hu.1).1, hu.2⟩)
      obtain ⟨eu, vu⟩ := ext_eq u.date ((dateInv_iff u.date).mp hu.1).1
      rw [instSecs_ext u ((dateInv_iff u.date).mp hu.1).1, inrange_iff _ _ ⟨hu.2.1, hu.2.2.1⟩,
        range_iff _ _ ⟨vu.2.2.1, vu.2.2.2⟩]
      exact ⟨hu.1.1, hu.1.2.1⟩
    cases r with
    | none => exact absurd rfl hne
    | some z =>
      obtain ⟨a, b, c, d, _⟩ := h2 z rfl
      rw [h1]
      congr 2
      have hzu : z.utc = u := by
        apply ndt_unique z.utc u b ⟨((dateInv_iff u.date).mp hu.1).1, hu.2⟩
        · rw [c, l3, hw]; omega
        · rw [d, l4]; rfl
      cases z; simp only [Zoned.from_utc_datetime, Zoned.mk.injEq]; exact ⟨hzu, a⟩
  · rw [if_neg hin] at hl; cases hl

/-- non-vacuity: 1970-01-01T00:30 at +01:00 is 1969-12-31T23:30Z and reads back; `MIN` as a wall
clock at +00:00:01 has no UTC reading, at −00:00:01 it has -/
example :
    Zoned.from_local_datetime 3600 ⟨dateOfYo 1970 1, ⟨1800, 7⟩⟩ = .ok (some ⟨⟨dateOfYo 1969 365, ⟨84600, 7⟩⟩, 3600⟩) ∧
    Zoned.naive_local ⟨⟨dateOfYo 1969 365, ⟨84600, 7⟩⟩, 3600⟩ = .ok ⟨dateOfYo 1970 1, ⟨1800, 7⟩⟩ ∧
    Zoned.from_local_datetime 1 NaiveDT.MIN = .ok none ∧
    Zoned.from_local_datetime (-1) NaiveDT.MIN = .ok (some ⟨⟨Date.MIN, ⟨1, 0⟩⟩, -1⟩) ∧
    NDTInv NaiveDT.MIN ∧ ¬ InRangeSecs (instSecs NaiveDT.MIN - 1) := by decide +kernel

/-! ### Equality, ordering, hashing; changing the zone -/

/-- **cmp_by_instant.**  Equality, ordering and hashing of zone-aware values are functions of the
UTC readings alone (the offsets do not enter), and on well-formed values they are equality / order
of the instants: the comparison is the lexicographic comparison of (second, nanosecond field), two
values are equal iff both agree, and the hashed words agree iff the values are equal. -/
theorem cmp_by_instant (a b : Zoned) (ha : ZInv a) (hb : ZInv b) :
    (∀ oa ob, Zoned.cmp ⟨a.utc, oa⟩ ⟨b.utc, ob⟩ = Zoned.cmp a b ∧
              Zoned.eq ⟨a.utc, oa⟩ ⟨b.utc, ob⟩ = Zoned.eq a b ∧
              Zoned.hashWords ⟨a.utc, oa⟩ = Zoned.hashWords a) ∧
    Zoned.cmp a b = cmpKey (instSecs a.utc) a.utc.time.frac (instSecs b.utc) b.utc.time.frac ∧
    (Zoned.eq a b = true ↔ instSecs a.utc = instSecs b.utc ∧ a.utc.time.frac = b.utc.time.frac) ∧
    (Zoned.eq a b = true ↔ Zoned.cmp a b = 0) ∧
    (Zoned.hashWords a = Zoned.hashWords b ↔ Zoned.eq a b = true) := by
  have ea : ExtNDTInv a.utc := ⟨((dateInv_iff a.utc.date).mp ha.1.1).1, ha.1.2⟩
  have eb : ExtNDTInv b.utc := ⟨((dateInv_iff b.utc.date).mp hb.1.1).1, hb.1.2⟩
  have hcmp : Zoned.cmp a b = cmpKey (instSecs a.utc) a.utc.time.frac (instSecs b.utc) b.utc.time.frac :=
    cmp_spec a.utc b.utc ea eb
  have heq : Zoned.eq a b = true ↔ instSecs a.utc = instSecs b.utc ∧ a.utc.time.frac = b.utc.time.frac := by
    unfold Zoned.eq
    simp only [decide_eq_true_eq]
    constructor
    · intro h; rw [h]; exact ⟨rfl, rfl⟩
    · intro h; exact ndt_unique _ _ ea eb h.1 h.2
  refine ⟨fun _ _ => ⟨rfl, rfl, rfl⟩, hcmp, heq, ?_, ?_⟩
  · rw [heq, hcmp]; unfold cmpKey
    constructor
    · intro h; rw [h.1, h.2]; simp
    · intro h; constructor <;> omega
  · unfold Zoned.hashWords NaiveDT.hashWords Zoned.eq
    simp only [decide_eq_true_eq]
    constructor
    · intro h
      simp only [List.cons.injEq, and_true] at h
      obtain ⟨h1, h2, h3⟩ := h
      cases a with | mk au ao => cases b with | mk bu bo =>
        cases au with | mk ad at_ => cases bu with | mk bd bt =>
          cases ad; cases bd; cases at_; cases bt
          simp_all
    · intro h; rw [h]

/-- **with_timezone_keeps_instant.**  Converting to another zone keeps the stored UTC reading, hence
the instant; the new value compares equal to the old one, hashes the same, and its wall clock moves by
exactly the offset difference. -/
theorem with_timezone_keeps_instant (z : Zoned) (off' : Int) :
    (Zoned.with_timezone z off').utc = z.utc ∧ (Zoned.with_timezone z off').off = off' ∧
    zonedInstNs (Zoned.with_timezone z off') = zonedInstNs z ∧
    wallSecs (Zoned.with_timezone z off') = wallSecs z - z.off + off' ∧
    Zoned.eq (Zoned.with_timezone z off') z = true ∧ Zoned.cmp (Zoned.with_timezone z off') z = 0 ∧
    Zoned.hashWords (Zoned.with_timezone z off') = Zoned.hashWords z ∧
    (Zoned.to_utc z).utc = z.utc ∧ (Zoned.fixed_offset z) = z := by
  refine ⟨rfl, rfl, rfl, ?_, ?_, ?_, rfl, rfl, rfl⟩
  · unfold wallSecs Zoned.with_timezone; dsimp only; omega
  · unfold Zoned.eq Zoned.with_timezone; simp
  · unfold Zoned.cmp Zoned.with_timezone NaiveDT.cmp Date.cmp Time.cmp; simp

example : Zoned.cmp ⟨⟨dateOfYo 2024 60, ⟨0, 0⟩⟩, 3600⟩ ⟨⟨dateOfYo 2024 60, ⟨0, 0⟩⟩, -7200⟩ = 0 ∧
    Zoned.cmp ⟨⟨dateOfYo 2024 60, ⟨0, 0⟩⟩, 3600⟩ ⟨⟨dateOfYo 2024 59, ⟨86399, 1999999999⟩⟩, 0⟩ = 1 ∧
    Zoned.eq ⟨⟨dateOfYo 2024 60, ⟨0, 1⟩⟩, 0⟩ ⟨⟨dateOfYo 2024 60, ⟨0, 0⟩⟩, 0⟩ = false ∧
    Zoned.hashWords ⟨⟨dateOfYo 2024 60, ⟨5, 6⟩⟩, 3600⟩ = [(dateOfYo 2024 60).yof, 5, 6] := by decide +kernel

/-! ### Field replacement acts on the wall clock -/

/-- **map_local_spec.**  Let `l` be the wall clock of a well-formed `z` and let the replacement `f`
turn it into `r0` (a well-formed reading of the extended calendar, or a refusal).  Then `map_local`
never panics; a result has the same offset, is well formed and inside `MIN_UTC ..= MAX_UTC`, denotes
the instant `new wall clock − offset`, and its wall clock *is* the reading `f` produced; and there is
no result exactly when `f` refused or that instant is outside `MIN_UTC ..= MAX_UTC`. -/
theorem map_local_spec (z : Zoned) (hz : ZInv z) (f : NaiveDT → Res (Option NaiveDT)) (l : NaiveDT)
    (r0 : Option NaiveDT) (hl : Zoned.overflowing_naive_local z = .ok l) (hf : f l = .ok r0)
    (hv : ∀ nl, r0 = some nl → ExtNDTInv nl) :
    ∃ r, Zoned.map_local z f = .ok r ∧
      (∀ z', r = some z' → ∃ nl, r0 = some nl ∧ z'.off = z.off ∧ ZInv z' ∧
        Zoned.overflowing_naive_local z' = .ok nl ∧ instSecs z'.utc = instSecs nl - z.off ∧
        z'.utc.time.frac = nl.time.frac ∧ InUtcRange (instSecs z'.utc) z'.utc.time.frac) ∧
      (r = none ↔ (r0 = none ∨ ∃ nl, r0 = some nl ∧ ¬ InUtcRange (instSecs nl - z.off) nl.time.frac)) := by
  unfold Zoned.map_local
  rw [hl, bind_ok', hf, bind_ok']
  cases r0 with
  | none => exact ⟨none, rfl, by intro z' h; simp at h, by simp⟩
  | some nl =>
    obtain ⟨r, h1, h2, h3⟩ := back_filtered z hz nl (hv nl rfl)
    refine ⟨r, h1, ?_, ?_⟩
    · intro z' hz'; exact ⟨nl, rfl, h2 z' hz'⟩
    · rw [h3]; simp

/-- **with_time_spec** (the code after the repair of finding #14).  `with_time t` replaces the time
of day of the wall clock (keeping its date, also a headroom date) and filters the result to
`MIN_UTC ..= MAX_UTC`: never panics, fails exactly when `(wall-clock date, t) − offset` is outside. -/
theorem with_time_spec (z : Zoned) (hz : ZInv z) (t : Time) (ht : TValid t) :
    ∃ l, Zoned.overflowing_naive_local z = .ok l ∧ ExtNDTInv l ∧ instSecs l = wallSecs z ∧
    ∃ r, Zoned.with_time z t = .ok r ∧
      (∀ z', r = some z' → z'.off = z.off ∧ ZInv z' ∧
        Zoned.overflowing_naive_local z' = .ok ⟨l.date, t⟩ ∧
        instSecs z'.utc = instSecs ⟨l.date, t⟩ - z.off ∧ z'.utc.time.frac = t.frac ∧
        InUtcRange (instSecs z'.utc) z'.utc.time.frac) ∧
      (r = none ↔ ¬ InUtcRange (instSecs ⟨l.date, t⟩ - z.off) t.frac) := by
  obtain ⟨l, h1, h2, h3, _⟩ := naive_local_spec z hz
  refine ⟨l, h1, h2, h3, ?_⟩
  obtain ⟨r, a, b, c⟩ := back_filtered z hz ⟨l.date, t⟩ ⟨h2.1, ht⟩
  refine ⟨r, ?_, b, c⟩
  unfold Zoned.with_time
  rw [h1, bind_ok']
  exact a

/-- the time-field replacements are `with_time` with that one field of the wall-clock time changed
(`ofFields`, `hourOf`, … are C07's field vocabulary), refused when the field is out of range -/
theorem with_time_field_spec (z : Zoned) (hz : ZInv z) (v : Int) (hv : 0 ≤ v) :
    ∃ l, Zoned.overflowing_naive_local z = .ok l ∧ TValid l.time ∧
    Zoned.with_hour z v = (if v < 24 then
      Zoned.with_time z (ofFields v (minuteOf l.time) (secondOf l.time) l.time.frac) else .ok none) ∧
    Zoned.with_minute z v = (if v < 60 then
      Zoned.with_time z (ofFields (hourOf l.time) v (secondOf l.time) l.time.frac) else .ok none) ∧
    Zoned.with_second z v = (if v < 60 then
      Zoned.with_time z (ofFields (hourOf l.time) (minuteOf l.time) v l.time.frac) else .ok none) ∧
    Zoned.with_nanosecond z v = (if v < 2000000000 then
      Zoned.with_time z (ofFields (hourOf l.time) (minuteOf l.time) (secondOf l.time) v) else .ok none) := by
  obtain ⟨l, h1, h2, _⟩ := naive_local_spec z hz
  obtain ⟨w1, w2, w3, w4⟩ := with_field' l.time v h2.2 hv
  refine ⟨l, h1, h2.2, ?_, ?_, ?_, ?_⟩
  · unfold Zoned.with_hour Zoned.map_local Zoned.with_time NaiveDT.with_hour NaiveDT.mapTime
    rw [h1, bind_ok', bind_ok', w1, bind_ok']
    by_cases h : v < 24
    · rw [if_pos h, if_pos h]; rfl
    · rw [if_neg h, if_neg h]; rfl
  · unfold Zoned.with_minute Zoned.map_local Zoned.with_time NaiveDT.with_minute NaiveDT.mapTime
    rw [h1, bind_ok', bind_ok', w2, bind_ok']
    by_cases h : v < 60
    · rw [if_pos h, if_pos h]; rfl
    · rw [if_neg h, if_neg h]; rfl
  · unfold Zoned.with_second Zoned.map_local Zoned.with_time NaiveDT.with_second NaiveDT.mapTime
    rw [h1, bind_ok', bind_ok', w3, bind_ok']
    by_cases h : v < 60
    · rw [if_pos h, if_pos h]; rfl
    · rw [if_neg h, if_neg h]; rfl
  · unfold Zoned.with_nanosecond Zoned.map_local Zoned.with_time NaiveDT.with_nanosecond NaiveDT.mapTime
    rw [h1, bind_ok', bind_ok', w4, bind_ok']
    by_cases h : v < 2000000000
    · rw [if_pos h, if_pos h]; rfl
    · rw [if_neg h, if_neg h]; rfl

/-- non-vacuity, and the two inputs of finding #14 on the repaired code: `MAX_UTC` seen at +01:00,
`with_time(23:00:00)` would be 22:00 UTC on the day after MAX — refused; `MIN_UTC` at −01:00,
`with_time(00:00:00)` would be 01:00 UTC on the day before MIN — refused; `with_time(23:30)` on the
latter is in range; `with_hour(0)` on a headroom wall clock is refused, `with_hour(23)` keeps it -/
example :
    Zoned.with_time ⟨NaiveDT.MAX, 3600⟩ ⟨82800, 0⟩ = .ok none ∧
    Zoned.with_time ⟨NaiveDT.MIN, -3600⟩ ⟨0, 0⟩ = .ok none ∧
    Zoned.with_time ⟨NaiveDT.MIN, -3600⟩ ⟨84600, 0⟩ = .ok (some ⟨⟨Date.MIN, ⟨1800, 0⟩⟩, -3600⟩) ∧
    Zoned.with_hour ⟨NaiveDT.MIN, -3600⟩ 0 = .ok none ∧
    Zoned.with_hour ⟨NaiveDT.MIN, -3600⟩ 23 = .ok (some ⟨NaiveDT.MIN, -3600⟩) ∧
    Zoned.with_time ⟨⟨dateOfYo 2024 60, ⟨3600, 0⟩⟩, 7200⟩ ⟨0, 5⟩ = .ok (some ⟨⟨dateOfYo 2024 59, ⟨79200, 5⟩⟩, 7200⟩) := by
  decide +kernel

/-! ### Calendar-field replacement -/

/-- what the target readings of the calendar-field replacements are: `ymdReading? y m d t` exists
exactly when (m, d) is a date of year `y` (any year of the extended calendar) and then has exactly
those fields and the time `t`; `yoReading? y o t` likewise for the ordinal -/
theorem reading_fields (y : Int) (m d o : Nat) (t : Time) :
    (ymdReading? y m d t = none ↔ ¬ (1 ≤ m ∧ m ≤ 12 ∧ 1 ≤ d ∧ d ≤ monthLen y m)) ∧
    (∀ nl, ymdReading? y m d t = some nl →
      nl.date.year = y ∧ nl.date.month = .ok m ∧ nl.date.day = .ok d ∧ nl.time = t) ∧
    (yoReading? y o t = none ↔ ¬ (1 ≤ o ∧ o ≤ yearLen y)) ∧
    (∀ nl, yoReading? y o t = some nl → nl.date.year = y ∧ nl.date.ordinal = o ∧ nl.time = t) := by
  have hyl := yearLen_ge y
  refine ⟨?_, ?_, ?_, ?_⟩
  · unfold ymdReading?
    rw [← valid_iff]
    constructor
    · intro h hc; rw [if_pos hc] at h; cases h
    · intro h; exact ite_neg' _ _ h
  · intro nl h
    unfold ymdReading? at h
    by_cases hc : validYmd y m d = true
    · rw [if_pos hc] at h
      have := Option.some.inj h
      subst this
      obtain ⟨f1, f2, f3, _⟩ := ymd_fields y m d hc
      exact ⟨f1, f2, f3, rfl⟩
    · rw [if_neg hc] at h; cases h
  · unfold yoReading?
    constructor
    · intro h hc; rw [if_pos hc] at h; cases h
    · intro h; exact ite_neg' _ _ h
  · intro nl h
    unfold yoReading? at h
    by_cases hc : 1 ≤ o ∧ o ≤ yearLen y
    · rw [if_pos hc] at h
      have := Option.some.inj h
      subst this
      obtain ⟨f1, f2, _⟩ := dateOfYo_fields y o (by omega)
      exact ⟨f1, f2, rfl⟩
    · rw [if_neg hc] at h; cases h

/-- **with_date_field_spec.**  `with_year / with_month(0) / with_day(0) / with_ordinal(0)` are instances
of `map_local_spec` with C08's calendar meaning.  With `l` the wall clock of `z` (possibly in a headroom
day), `y` its year, `m`, `d` its month and day: the target reading keeps the time of day and all
calendar fields but the named one (`ymdReading?` / `yoReading?`, see `reading_fields`; the 0-based forms
aim at `v + 1`, and `u32::MAX` has no target); `with_year` keeps the wall clock itself when the year
is unchanged — also a headroom year — and otherwise accepts only years of the supported range
(`yearReading?`).  `ActsOnWall z target r` says: a result keeps the offset, is well formed, lies in
`MIN_UTC ..= MAX_UTC`, denotes `target − offset` and its wall clock IS the target; `None` exactly when
there is no such date or that instant is outside `MIN_UTC ..= MAX_UTC`.  Never a panic, every `u32`
(indeed every natural) argument, every `i32` (indeed every integer) year. -/
theorem with_date_field_spec (z : Zoned) (hz : ZInv z) (v : Nat) (y' : Int) :
    ∃ l, Zoned.overflowing_naive_local z = .ok l ∧ ExtNDTInv l ∧ instSecs l = wallSecs z ∧
    (∃ r, Zoned.with_year z y' = .ok r ∧ ActsOnWall z (yearReading? l y') r) ∧
    (∃ r, Zoned.with_month z v = .ok r ∧ ActsOnWall z
      (ymdReading? l.date.year v (dayOfYo l.date.year l.date.ordinal.toNat) l.time) r) ∧
    (∃ r, Zoned.with_month0 z v = .ok r ∧ ActsOnWall z
      (ymdReading? l.date.year (v + 1) (dayOfYo l.date.year l.date.ordinal.toNat) l.time) r) ∧
    (∃ r, Zoned.with_day z v = .ok r ∧ ActsOnWall z
      (ymdReading? l.date.year (monthOfYo l.date.year l.date.ordinal.toNat) v l.time) r) ∧
    (∃ r, Zoned.with_day0 z v = .ok r ∧ ActsOnWall z
      (ymdReading? l.date.year (monthOfYo l.date.year l.date.ordinal.toNat) (v + 1) l.time) r) ∧
    (∃ r, Zoned.with_ordinal z v = .ok r ∧ ActsOnWall z (yoReading? l.date.year v l.time) r) ∧
    (∃ r, Zoned.with_ordinal0 z v = .ok r ∧ ActsOnWall z (yoReading? l.date.year (v + 1) l.time) r) := by
  obtain ⟨l, h1, h2, h3, _⟩ := naive_local_spec z hz
  exact ⟨l, h1, h2, h3, zoned_with_date_fields z hz l h1 v y'⟩

/-- the wall clock's own month and day are `monthOfYo` / `dayOfYo` of its year and ordinal (C01), so
the targets above are "same month", "same day" -/
theorem wall_month_day (z : Zoned) (hz : ZInv z) (l : NaiveDT)
    (hl : Zoned.overflowing_naive_local z = .ok l) :
    l.date.month = .ok (monthOfYo l.date.year l.date.ordinal.toNat) ∧
    l.date.day = .ok (dayOfYo l.date.year l.date.ordinal.toNat) := by
  obtain ⟨hext, _⟩ := wall_date_cases z hz l hl
  obtain ⟨el, vl⟩ := ext_eq l.date hext.1
  obtain ⟨m1, m2, _, _⟩ := month_day_spec l.date.year l.date.ordinal.toNat vl.2.2.1 vl.2.2.2
  rw [← el] at m1 m2
  exact ⟨m1, m2⟩

/-- non-vacuity: leap day → `with_year` to a common year has no target; Jan 31 → `with_month(2)` has
none; replacement across midnight at +02:00 (28 Feb 23:00Z is 29 Feb 01:00 local; day 1 gives 1 Feb 01:00 local = 31 Jan 23:00Z); headroom wall clock: `with_ordinal(366)` keeps it,
`with_ordinal(365)` and `with_month(11)` leave the range, `with_year(MIN_YEAR − 1)` (unchanged year)
keeps the value, `with_year(MIN_YEAR)` moves into the range; `u32::MAX` -/
example :
    Zoned.with_year ⟨⟨dateOfYo 2024 60, ⟨0, 0⟩⟩, 0⟩ 2023 = .ok none ∧
    Zoned.with_year ⟨⟨dateOfYo 2024 60, ⟨0, 0⟩⟩, 0⟩ 2028 = .ok (some ⟨⟨dateOfYo 2028 60, ⟨0, 0⟩⟩, 0⟩) ∧
    Zoned.with_month ⟨⟨dateOfYo 2024 31, ⟨0, 0⟩⟩, 0⟩ 2 = .ok none ∧
    Zoned.with_day ⟨⟨dateOfYo 2024 59, ⟨82800, 0⟩⟩, 7200⟩ 1 = .ok (some ⟨⟨dateOfYo 2024 31, ⟨82800, 0⟩⟩, 7200⟩) ∧
    Zoned.with_ordinal ⟨NaiveDT.MIN, -3600⟩ 366 = .ok (some ⟨NaiveDT.MIN, -3600⟩) ∧
    Zoned.with_ordinal ⟨NaiveDT.MIN, -3600⟩ 365 = .ok none ∧
    Zoned.with_month ⟨NaiveDT.MIN, -3600⟩ 11 = .ok none ∧
    Zoned.with_year ⟨NaiveDT.MIN, -3600⟩ (MIN_YEAR - 1) = .ok (some ⟨NaiveDT.MIN, -3600⟩) ∧
    Zoned.with_year ⟨NaiveDT.MIN, -3600⟩ MIN_YEAR = .ok (some ⟨⟨dateOfYo (MIN_YEAR + 1) 1, ⟨0, 0⟩⟩, -3600⟩) ∧
    Zoned.with_month0 ⟨⟨dateOfYo 2024 31, ⟨0, 0⟩⟩, 0⟩ 4294967295 = .ok none ∧
    Zoned.with_day0 ⟨⟨dateOfYo 2024 31, ⟨0, 0⟩⟩, 0⟩ 0 = .ok (some ⟨⟨dateOfYo 2024 1, ⟨0, 0⟩⟩, 0⟩) := by
  decide +kernel

/-! ### Day and month stepping -/

/-- **stepping_spec.**  With `l` the wall clock of a well-formed `z` (possibly in a headroom day):

* `checked_add_days(Days(0))` returns `z`.  For `n > 0` the wall-clock *date* moves by `n` days, time of
  day and offset are kept (`SteppedDays`: the instant moves by `n·86400` s).  It succeeds exactly when
  (a) the stepped wall-clock date is itself a date of the supported range — a result whose own wall
  clock would fall in the headroom day is refused, because `NaiveDate::add_days` validates the year —
  and (b) the stepped instant is `≤ MAX_UTC` (the only filter this operation applies; `≥ MIN_UTC`
  holds automatically).
* `checked_sub_days(Days(n))`, every `n ≥ 0` (the code has no short cut for 0, `Days(0)` goes through the
  wall clock and back and returns `z`, also from a headroom wall clock): succeeds exactly when
  (a) `n = 0` or the stepped wall-clock date is a date of the supported range, and (b) the stepped
  instant is `≥ MIN_UTC` (the only filter applied; a leap-second reading in the last second of MAX
  is not filtered here).
* `checked_add_months` / `checked_sub_months`: `Months(0)` returns `z`; otherwise the wall-clock date
  is stepped by C08's `addMonths?` (year-month index moved by `k`, day clamped to the target month,
  `None` when the target year leaves the supported range — C08 `months_target`), the time of day is
  kept, and the result exists exactly when that date exists and `new wall clock − offset` is
  representable (`InRangeSecs`; no `MIN_UTC ..= MAX_UTC` filter is applied).

Counts: all of `u64` for days, all of `u32` (indeed every natural) for months.  Never a panic. -/
theorem stepping_spec (z : Zoned) (hz : ZInv z) :
    ∃ l, Zoned.overflowing_naive_local z = .ok l ∧ ExtNDTInv l ∧ instSecs l = wallSecs z ∧
    Zoned.checked_add_days z 0 = .ok (some z) ∧
    (∀ n : Int, 0 < n → n ≤ 18446744073709551615 →
      ∃ r, Zoned.checked_add_days z n = .ok r ∧
        (r = none ↔ ¬ ((DAY_MIN ≤ dayNumOf l.date + n ∧ dayNumOf l.date + n ≤ DAY_MAX) ∧
                       LeMaxUtc (instSecs z.utc + n * 86400) z.utc.time.frac)) ∧
        ∀ z', r = some z' → SteppedDays z l z' n) ∧
    (∀ n : Int, 0 ≤ n → n ≤ 18446744073709551615 →
      ∃ r, Zoned.checked_sub_days z n = .ok r ∧
        (r = none ↔ ¬ ((n = 0 ∨ (DAY_MIN ≤ dayNumOf l.date - n ∧ dayNumOf l.date - n ≤ DAY_MAX)) ∧
                       GeMinUtc (instSecs z.utc - n * 86400))) ∧
        ∀ z', r = some z' → SteppedDays z l z' (-n)) ∧
    (∀ k : Nat,
      (∃ r, Zoned.checked_add_months z k = .ok r ∧ (k = 0 → r = some z) ∧
        (0 < k → ActsOnWallWith (fun s _ => InRangeSecs s) z
          ((addMonths? l.date.year (monthOfYo l.date.year l.date.ordinal.toNat)
              (dayOfYo l.date.year l.date.ordinal.toNat) k).map fun nd => ⟨nd, l.time⟩) r)) ∧
      (∃ r, Zoned.checked_sub_months z k = .ok r ∧ (k = 0 → r = some z) ∧
        (0 < k → ActsOnWallWith (fun s _ => InRangeSecs s) z
          ((addMonths? l.date.year (monthOfYo l.date.year l.date.ordinal.toNat)
              (dayOfYo l.date.year l.date.ordinal.toNat) (-(k : Int))).map fun nd => ⟨nd, l.time⟩) r))) := by
  obtain ⟨l, h1, h2, h3, _⟩ := naive_local_spec z hz
  refine ⟨l, h1, h2, h3, rfl, ?_, ?_, ?_⟩
  · intro n hn1 hn2; exact zoned_add_days z hz l h1 n ⟨hn1, hn2⟩
  · intro n hn1 hn2; exact zoned_sub_days z hz l h1 n ⟨hn1, hn2⟩
  · intro k; exact zoned_months z hz l h1 k

/-- the range filter splits into the two one-sided filters used by the day steppers -/
theorem utc_range_halves (s f : Int) : InUtcRange s f ↔ GeMinUtc s ∧ LeMaxUtc s f := inUtc_iff s f

/-- non-vacuity and the boundary cases: from a headroom wall clock forwards into the range and with
`Days(0)` backwards; a step that would land in the headroom day is refused although the instant is in
range (`MIN+2d 01:00Z` at −02:00, minus 2 days); `MAX_UTC` reached exactly and missed by a day;
`2³²` and `u64::MAX` days are not folded; month stepping clamps the day (wall clock Jan 30 23:00 →
Feb 29 23:00) and `Months(0)` returns the value -/
example :
    Zoned.checked_sub_days ⟨NaiveDT.MIN, -3600⟩ 0 = .ok (some ⟨NaiveDT.MIN, -3600⟩) ∧
    Zoned.checked_add_days ⟨NaiveDT.MIN, -3600⟩ 1 = .ok (some ⟨⟨dateOfYo MIN_YEAR 2, ⟨0, 0⟩⟩, -3600⟩) ∧
    Zoned.checked_sub_days ⟨NaiveDT.MIN, -3600⟩ 1 = .ok none ∧
    Zoned.checked_sub_days ⟨⟨dateOfYo MIN_YEAR 3, ⟨3600, 0⟩⟩, -7200⟩ 2 = .ok none ∧
    Zoned.checked_sub_days ⟨⟨dateOfYo MIN_YEAR 3, ⟨3600, 0⟩⟩, 0⟩ 2 = .ok (some ⟨⟨dateOfYo MIN_YEAR 1, ⟨3600, 0⟩⟩, 0⟩) ∧
    Zoned.checked_add_days ⟨⟨dateOfYo MAX_YEAR 364, ⟨86399, 999999999⟩⟩, -3600⟩ 1 = .ok (some ⟨NaiveDT.MAX, -3600⟩) ∧
    Zoned.checked_add_days ⟨NaiveDT.MAX, 3600⟩ 1 = .ok none ∧
    Zoned.checked_add_days ⟨NaiveDT.MIN, 0⟩ 4294967296 = .ok none ∧
    Zoned.checked_sub_days ⟨NaiveDT.MAX, 0⟩ 18446744073709551615 = .ok none ∧
    Zoned.checked_add_days ⟨NaiveDT.MIN, 0⟩ 191491528 = .ok (some ⟨⟨Date.MAX, ⟨0, 0⟩⟩, 0⟩) ∧
    Zoned.checked_add_months ⟨⟨dateOfYo 2024 31, ⟨0, 0⟩⟩, -3600⟩ 1 =
      .ok (some ⟨⟨dateOfYo 2024 61, ⟨0, 0⟩⟩, -3600⟩) ∧
    Zoned.checked_sub_months ⟨NaiveDT.MIN, -3600⟩ 0 = .ok (some ⟨NaiveDT.MIN, -3600⟩) ∧
    Zoned.checked_sub_months ⟨NaiveDT.MIN, 0⟩ 1 = .ok none ∧
    Zoned.checked_add_months ⟨NaiveDT.MIN, -3600⟩ 1 = .ok (some ⟨⟨dateOfYo MIN_YEAR 32, ⟨0, 0⟩⟩, -3600⟩) := by
  decide +kernel

/-! ### `with_ymd_and_hms` -/

/-- **with_ymd_and_hms_spec.**  `TimeZone::with_ymd_and_hms` for a fixed offset (`Utc`: offset 0), every
`i32` year and every `u32` (indeed every natural / non-negative) month, day, hour, minute, second:
never panics; there is a result exactly when the year is in the supported range, (month, day) is a
date of that year, hour < 24, minute < 60, second < 60 (no leap second through this constructor) and
`wall clock − offset` is representable; the result has the given offset, is well formed, denotes
`wall clock − offset`, and `naive_local` reads the wall clock — that calendar date at that time, nanosecond
0 — back. -/
theorem with_ymd_and_hms_spec (off : Int) (ho : OffValid off) (y : Int) (m d : Nat) (h mi s : Int)
    (hh : 0 ≤ h) (hmi : 0 ≤ mi) (hs : 0 ≤ s) :
    ∃ r, Zoned.with_ymd_and_hms off y m d h mi s = .ok r ∧
      (r = none ↔ ¬ ((MIN_YEAR ≤ y ∧ y ≤ MAX_YEAR ∧ validYmd y m d = true ∧ h < 24 ∧ mi < 60 ∧ s < 60) ∧
        InRangeSecs (instSecs ⟨dateOfYo y (ordinalOf y m d), ofFields h mi s 0⟩ - off))) ∧
      ∀ z, r = some z →
        (MIN_YEAR ≤ y ∧ y ≤ MAX_YEAR ∧ validYmd y m d = true ∧ h < 24 ∧ mi < 60 ∧ s < 60) ∧
        z.off = off ∧ ZInv z ∧
        Zoned.naive_local z = .ok ⟨dateOfYo y (ordinalOf y m d), ofFields h mi s 0⟩ ∧
        instSecs z.utc = instSecs ⟨dateOfYo y (ordinalOf y m d), ofFields h mi s 0⟩ - off ∧
        z.utc.time.frac = 0 := by
  unfold Zoned.with_ymd_and_hms
  rw [ctor_ymd', bind_ok', hms_iff']
  by_cases hd : MIN_YEAR ≤ y ∧ y ≤ MAX_YEAR ∧ validYmd y m d = true
  · rw [if_pos hd]
    by_cases ht : h < 24 ∧ mi < 60 ∧ s < 60
    · rw [if_pos ht]
      dsimp only
      have hb := ordinal_bounds_c08 y m d hd.2.2
      have hn : NDTInv ⟨dateOfYo y (ordinalOf y m d), ofFields h mi s 0⟩ :=
        ⟨(inv_of_yo y _ ⟨hd.1, hd.2.1⟩ hb).1,
         (ofFields_valid h mi s 0 ⟨hh, ht.1⟩ ⟨hmi, ht.2.1⟩ ⟨hs, ht.2.2⟩ (by omega)).1⟩
      obtain ⟨r, a, b⟩ := fromLocal_fails_iff off _ ho hn
      refine ⟨r, a, ?_, ?_⟩
      · rw [b]
        constructor
        · intro h1 h2; exact h1 h2.2
        · intro h1 h2; exact h1 ⟨⟨hd.1, hd.2.1, hd.2.2, ht⟩, h2⟩
      · intro z hz
        rw [hz] at a
        obtain ⟨c1, c2, c3, _, c5, c6⟩ := local_of_fromLocal off _ ho hn z a
        exact ⟨⟨hd.1, hd.2.1, hd.2.2, ht⟩, c1, c2, c3, c5, c6⟩
    · rw [if_neg ht]
      refine ⟨none, rfl, ?_, by intro z h; cases h⟩
      simp only [true_iff]
      intro h1; exact ht h1.1.2.2.2
  · rw [if_neg hd]
    refine ⟨none, rfl, ?_, by intro z h; cases h⟩
    simp only [true_iff]
    intro h1; exact hd ⟨h1.1.1, h1.1.2.1, h1.1.2.2.1⟩

example : Zoned.with_ymd_and_hms 3600 1970 1 1 0 30 0 = .ok (some ⟨⟨dateOfYo 1969 365, ⟨84600, 0⟩⟩, 3600⟩) ∧
    Zoned.with_ymd_and_hms 0 2023 2 29 0 0 0 = .ok none ∧ Zoned.with_ymd_and_hms 0 2024 2 29 23 59 60 = .ok none ∧
    Zoned.with_ymd_and_hms 1 MIN_YEAR 1 1 0 0 0 = .ok none ∧
    Zoned.with_ymd_and_hms (-1) MIN_YEAR 1 1 0 0 0 = .ok (some ⟨⟨Date.MIN, ⟨1, 0⟩⟩, -1⟩) ∧
    Zoned.with_ymd_and_hms 0 (MAX_YEAR + 1) 1 1 0 0 0 = .ok none := by decide +kernel

end Chrono.Props.C04
