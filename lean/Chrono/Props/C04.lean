/-
  C04 — zone-aware date-times: one instant, many wall clocks.  (stage 1: first theorems)
-/
import Chrono.Model.ZonedOps
import Chrono.Spec.InstantSpec

namespace Chrono.Props.C04
open Chrono Chrono.M Chrono.Spec Chrono.Extracted

/-- `FixedOffset::east_opt` / `west_opt` accept exactly the offsets strictly between −24 h and +24 h -/
theorem east_opt_iff (s : Int) :
    (Zoned.east_opt s = if -86400 < s ∧ s < 86400 then some s else none) ∧
    (Zoned.west_opt s = if -86400 < s ∧ s < 86400 then some (-s) else none) := ⟨rfl, rfl⟩

end Chrono.Props.C04
