/-
  C04 — zone-aware date-times: one instant, many wall clocks.
  Property statements only (helper lemmas: Proofs/ZonedL.lean, Proofs/ZonedDateL.lean,
  Proofs/ZonedStepL.lean, on top of the proved packed-date specification of C01 — Proofs/DateL.lean —,
  the proved offset shift of C07 — Proofs/TimeL.lean —, the proved day arithmetic of C03 —
  Proofs/DateArithL.lean — and the proved month stepping / field replacement of C08 —
  Proofs/DateOpsL.lean; the latter two are extended to the two headroom years in ZonedDateL).

  Vocabulary (Spec/InstantSpec.lean, Spec/ZonedSpec.lean):
    `instSecs dt`      whole seconds since 1970-01-01T00:00:00 of a naive reading, through the
                       closed-form day number of Spec/Calendar.lean (independent of chrono's tables);
    `wallSecs z`       `instSecs z.utc + z.off` — the wall clock of a zone-aware value;
    `ExtNDTInv`        a well-formed reading of the calendar *extended by one year at each end*
                       (year, existing ordinal, the flags — leap bit and weekday — of that year);
    `NDTInv`/`DateInv` the same inside the supported range;  `ZInv z` = `NDTInv z.utc ∧ |off| < 86400`;
    `InRangeSecs s`    the date of second `s` lies in `[NaiveDate::MIN, NaiveDate::MAX]`;
    `InUtcRange s f`   `MIN_UTC ≤ (s, f) ≤ MAX_UTC` in `NaiveDateTime`'s derived order;
    `cmpKey`           lexicographic three-way comparison of (second, nanosecond field);
    `GeMinUtc`/`LeMaxUtc`  the two halves of `InUtcRange` (`utc_range_halves`);
    `ActsOnWall z t r` "`r` is the value at `z`'s offset whose wall clock is the target reading `t`,
                       filtered to `MIN_UTC ..= MAX_UTC`" (`ActsOnWallWith ok` for another filter);
    `ymdReading?`/`yoReading?`/`yearReading?`  target readings of the calendar-field replacements;
    `SteppedDays z l z' k`  `z'` is `z` with its wall clock `l` moved by `k` whole days;
    `addMonths?` (C08) month stepping with clamped day; `dayNumOf` (C01) day number of a date.
  `Zoned` is `DateTime<FixedOffset>`; `DateTime<Utc>` is the case `off = 0`.

  Added by the audit of 2026-09-30 (helper lemmas Proofs/ZonedFormatL.lean, ZonedRuleL.lean,
  ZonedViewsL.lean; model Model/ZonedDerived.lean): `format_reads_wall_clock` (every text writer reads
  `overflowing_naive_local`, text of `Debug` / `Display` also in the headroom day), the stepping failure set
  against the rule "stepped instant in `MIN_UTC ..= MAX_UTC` and stepped wall clock in the nominal range"
  with its exceptions (`day_stepping_vs_rule`, `month_stepping_vs_rule`, `…_exceptions`, `…_partial`),
  `iso_week_reads_wall_clock`, `derived_accessors_read_wall_clock`, `zone_change_views`.
-/
import Chrono.Proofs.ZonedStepL
import Chrono.Proofs.ZonedFormatL
import Chrono.Proofs.ZonedRuleL
import Chrono.Proofs.ZonedViewsL
import Chrono.Proofs.ZonedConvL
import Chrono.Extracted.ZonedShape

namespace Chrono.Props.C04
open Chrono Chrono.M Chrono.Spec Chrono.Proofs Chrono.Proofs.ZN Chrono.Extracted

/-! ### Offsets -/

/-- `FixedOffset::east_opt` / `west_opt` accept exactly the offsets strictly between −24 h and +24 h
(every integer argument); `west` stores the negated value -/
theorem east_opt_iff (s : Int) :
    (Zoned.east_opt s = if -86400 < s ∧ s < 86400 then some s else none) ∧
    (Zoned.west_opt s = if -86400 < s ∧ s < 86400 then some (-s) else none) ∧
    (∀ o, Zoned.east_opt s = some o → OffValid o) ∧ (∀ o, Zoned.west_opt s = some o → OffValid o) := by
  refine ⟨rfl, rfl, ?_, ?_⟩
  · intro o h
    unfold Zoned.east_opt at h
    unfold OffValid
    split at h <;> simp at h
    omega
  · intro o h
    unfold Zoned.west_opt at h
    unfold OffValid
    split at h <;> simp at h
    omega

example : Zoned.east_opt 86399 = some 86399 ∧ Zoned.east_opt 86400 = none ∧
    Zoned.west_opt (-86399) = some 86399 ∧ Zoned.east_opt (-86400) = none := by decide

/-! ### The headroom day at each end of the range -/

/-- the two constants that stand for "one day before MIN" and "one day after MAX" are the
calendar's own days: last day (ordinal 366) of the leap year `MIN_YEAR − 1` and first day of
`MAX_YEAR + 1`, with the flags (leap bit, weekday) of those years, adjacent in day number to the range
ends, with the right weekday -/
theorem headroom_dates :
    Date.BEFORE_MIN = dateOfYo (MIN_YEAR - 1) 366 ∧ Date.AFTER_MAX = dateOfYo (MAX_YEAR + 1) 1 ∧
    ExtDateInv Date.BEFORE_MIN ∧ ExtDateInv Date.AFTER_MAX ∧
    dayNumOf Date.BEFORE_MIN = DAY_MIN - 1 ∧ dayNumOf Date.AFTER_MAX = DAY_MAX + 1 ∧
    yearLen (MIN_YEAR - 1) = 366 ∧ Date.BEFORE_MIN.leap_year = true ∧ Date.AFTER_MAX.leap_year = false ∧
    (Date.BEFORE_MIN.weekday.toNat : Int) = weekdayOf (DAY_MIN - 1) ∧
    (Date.AFTER_MAX.weekday.toNat : Int) = weekdayOf (DAY_MAX + 1) ∧
    instSecs NaiveDT.MIN = SECS_MIN ∧ instSecs NaiveDT.MAX = SECS_MAX := by decide

/-- **headroom_sound.**  For every in-range UTC reading and every offset of less than a day,
`overflowing_naive_local` never panics and is *the* wall clock: a well-formed reading of the extended
calendar whose second count is `instant + offset` and whose nanosecond field (hence a leap second) is
untouched.  `naive_local` returns the same reading when its date is in the supported range and panics
exactly otherwise. -/
theorem headroom_sound (z : Zoned) (hz : ZInv z) :
    ∃ l, Zoned.overflowing_naive_local z = .ok l ∧ ExtNDTInv l ∧ instSecs l = wallSecs z ∧
      l.time.frac = z.utc.time.frac ∧
      Zoned.naive_local z = (if InRangeSecs (wallSecs z) then .ok l else .panic) ∧
      (DateInv l.date ↔ InRangeSecs (wallSecs z)) :=
  naive_local_spec z hz

/-- a reading of the extended calendar is determined by its second count and nanosecond field, so
`headroom_sound` characterises the wall clock uniquely -/
theorem reading_unique (a b : NaiveDT) (ha : ExtNDTInv a) (hb : ExtNDTInv b)
    (hs : instSecs a = instSecs b) (hf : a.time.frac = b.time.frac) : a = b :=
  ndt_unique a b ha hb hs hf

/-- **Field accessors read the wall clock** (also in the headroom day): with `n` the day number and
`s` the second of day of `instant + offset`, the year/ordinal are the unique pair with that day
number, month and day its calendar form, the weekday that of `n`, the `Datelike` day count is `n`
(no `i32` overflow), hour/minute/second decompose `s`, the nanosecond field is the stored one. -/
theorem accessors_read_wall_clock (z : Zoned) (hz : ZInv z) :
    ∃ (y : Int) (o : Nat), MIN_YEAR - 1 ≤ y ∧ y ≤ MAX_YEAR + 1 ∧ 1 ≤ o ∧ o ≤ yearLen y ∧
      dayNumYo y o = EPOCH_DAY + wallSecs z / 86400 ∧
      Zoned.year z = .ok y ∧ Zoned.ordinal z = .ok o ∧
      Zoned.month z = .ok (monthOfYo y o) ∧ Zoned.day z = .ok (dayOfYo y o) ∧
      (∃ w, Zoned.weekday z = .ok w ∧ (w.toNat : Int) = weekdayOf (EPOCH_DAY + wallSecs z / 86400)) ∧
      Zoned.num_days_from_ce z = .ok (EPOCH_DAY + wallSecs z / 86400) ∧
      Zoned.hour z = .ok (wallSecs z % 86400 / 3600) ∧
      Zoned.minute z = .ok (wallSecs z % 86400 / 60 % 60) ∧
      Zoned.second z = .ok (wallSecs z % 86400 % 60) ∧
      Zoned.nanosecond z = .ok z.utc.time.frac := by
  obtain ⟨l, h1, h2, h3, h4, _, _⟩ := naive_local_spec z hz
  obtain ⟨e, v1, v2, v3, v4⟩ := ext_eq l.date h2.1
  obtain ⟨t1, t2, _, _⟩ := h2.2
  have hyl := yearLen_ge l.date.year
  have hsecs := instSecs_ext l h2.1
  rw [h3] at hsecs
  have hday : dayNumYo l.date.year l.date.ordinal.toNat = EPOCH_DAY + wallSecs z / 86400 := by omega
  have hsod : l.time.secs = wallSecs z % 86400 := by omega
  obtain ⟨f1, f2, _⟩ := dateOfYo_fields l.date.year l.date.ordinal.toNat (by omega)
  obtain ⟨m1, m2, _, _⟩ := month_day_spec l.date.year l.date.ordinal.toNat v3 v4
  have hw := weekday_spec l.date.year l.date.ordinal.toNat (by omega)
  rw [← e] at m1 m2 hw
  have hMIN : MIN_YEAR = -262143 := rfl
  have hMAX : MAX_YEAR = 262142 := rfl
  have hn := num_days_spec (dateOfYo l.date.year l.date.ordinal.toNat) (by rw [f1]; omega)
    (by rw [f1]; omega) (by rw [f2]; omega)
  rw [f1, f2] at hn
  obtain ⟨a1, a2, a3, a4, _⟩ := accessors' l.time h2.2
  refine ⟨l.date.year, l.date.ordinal.toNat, v1, v2, v3, v4, hday, ?_, ?_, ?_, ?_, ?_, ?_, ?_, ?_, ?_, ?_⟩
  · unfold Zoned.year; rw [h1]; rfl
  · unfold Zoned.ordinal; rw [h1]
    show Res.ok l.date.ordinal = _
    rw [Int.toNat_of_nonneg (by have := h2.1.2.2.1; omega)]
  · unfold Zoned.month; rw [h1]; exact m1
  · unfold Zoned.day; rw [h1]; exact m2
  · refine ⟨l.date.weekday, ?_, ?_⟩
    · unfold Zoned.weekday; rw [h1]; rfl
    · rw [← hday]; exact hw
  · unfold Zoned.num_days_from_ce; rw [h1]; show l.date.num_days_from_ce = _; rw [e, hn, hday]
  · unfold Zoned.hour; rw [h1]; show Res.ok l.time.hour = _; rw [a1, ← hsod]; rfl
  · unfold Zoned.minute; rw [h1]; show Res.ok l.time.minute = _; rw [a2, ← hsod]; rfl
  · unfold Zoned.second; rw [h1]; show Res.ok l.time.second = _; rw [a3, ← hsod]; rfl
  · unfold Zoned.nanosecond; rw [h1]; show Res.ok l.time.nanosecond = _; rw [a4, h4]

/-- non-vacuity of `headroom_sound` / `accessors_read_wall_clock`: `MIN_UTC` seen at −01:00 reads
Dec 31 of the year before, 23:00, and `naive_local` panics; `MAX_UTC` at +00:00:01 reads Jan 1 -/
example :
    ZInv ⟨NaiveDT.MIN, -3600⟩ ∧
    Zoned.overflowing_naive_local ⟨NaiveDT.MIN, -3600⟩ = .ok ⟨Date.BEFORE_MIN, ⟨82800, 0⟩⟩ ∧
    Zoned.naive_local ⟨NaiveDT.MIN, -3600⟩ = .panic ∧
    Zoned.month ⟨NaiveDT.MIN, -3600⟩ = .ok 12 ∧ Zoned.day ⟨NaiveDT.MIN, -3600⟩ = .ok 31 ∧
    Zoned.overflowing_naive_local ⟨NaiveDT.MAX, 1⟩ = .ok ⟨Date.AFTER_MAX, ⟨0, 999999999⟩⟩ ∧
    Zoned.naive_local ⟨NaiveDT.MAX, 0⟩ = .ok NaiveDT.MAX := by decide +kernel

/-! ### Construction from a wall clock / from UTC -/

/-- **fromLocal_fails_iff.**  `from_local_datetime` (for any offset of less than a day and any
in-range wall clock) never panics and fails exactly when `wall clock − offset`, the UTC reading,
would leave the supported range. -/
theorem fromLocal_fails_iff (off : Int) (ℓ : NaiveDT) (ho : OffValid off) (hℓ : NDTInv ℓ) :
    ∃ r, Zoned.from_local_datetime off ℓ = .ok r ∧
      (r = none ↔ ¬ InRangeSecs (instSecs ℓ - off)) := by
  have hext : ExtNDTInv ℓ := ⟨((dateInv_iff ℓ.date).mp hℓ.1).1, hℓ.2⟩
  obtain ⟨r, h1, _, h3, h4⟩ := from_local_spec off ℓ ho hext
  refine ⟨r, h1, h3, ?_⟩
  intro hn
  by_contra hne
  exact hn (h4 hℓ.1 hne)

/-- **local_of_fromLocal.**  Building from a wall clock and reading the wall clock back is the
identity; the value carries the given offset, is well formed, and denotes the instant
`wall clock − offset`. -/
theorem local_of_fromLocal (off : Int) (ℓ : NaiveDT) (ho : OffValid off) (hℓ : NDTInv ℓ) (z : Zoned)
    (h : Zoned.from_local_datetime off ℓ = .ok (some z)) :
    z.off = off ∧ ZInv z ∧ Zoned.naive_local z = .ok ℓ ∧ Zoned.overflowing_naive_local z = .ok ℓ ∧
    instSecs z.utc = instSecs ℓ - off ∧ z.utc.time.frac = ℓ.time.frac := by
  have hext : ExtNDTInv ℓ := ⟨((dateInv_iff ℓ.date).mp hℓ.1).1, hℓ.2⟩
  obtain ⟨r, h1, h2, _, _⟩ := from_local_spec off ℓ ho hext
  rw [h] at h1
  obtain ⟨a, b, c, d, e⟩ := h2 z (by injection h1 with h1; exact h1.symm)
  have hzi : ZInv z := ⟨⟨e hℓ.1, b.2⟩, by rw [a]; exact ho⟩
  have hback := local_back z hzi ℓ hext (by rw [a]; exact c) d
  obtain ⟨l, l1, _, l3, _, l5, l6⟩ := naive_local_spec z hzi
  rw [hback] at l1
  injection l1 with l1
  subst l1
  refine ⟨a, hzi, ?_, hback, c, d⟩
  rw [l5, if_pos (l6.mp hℓ.1)]

/-- **utc_of_fromUtc.**  Building from a UTC reading and reading UTC back is the identity (and cannot
fail); moreover, whenever the wall clock of that value is in range, building from that wall clock
gives the same value back. -/
theorem utc_of_fromUtc (off : Int) (u : NaiveDT) (ho : OffValid off) (hu : NDTInv u) :
    (Zoned.from_utc_datetime off u).naive_utc = u ∧ (Zoned.from_utc_datetime off u).off = off ∧
    ∀ l, Zoned.naive_local (Zoned.from_utc_datetime off u) = .ok l →
      Zoned.from_local_datetime off l = .ok (some (Zoned.from_utc_datetime off u)) := by
  refine ⟨rfl, rfl, ?_⟩
  intro l hl
  have hzi : ZInv (Zoned.from_utc_datetime off u) := ⟨hu, ho⟩
  obtain ⟨l', l1, l2, l3, l4, l5, l6⟩ := naive_local_spec _ hzi
  rw [l5] at hl
  by_cases hin : InRangeSecs (wallSecs (Zoned.from_utc_datetime off u))
  · rw [if_pos hin] at hl
    injection hl with hl
    subst hl
    have hdl := l6.mpr hin
    obtain ⟨r, h1, h2, _, h4⟩ := from_local_spec off l' ho l2
    have hw : wallSecs (Zoned.from_utc_datetime off u) = instSecs u + off := rfl
    have hne : r ≠ none := by
      intro hr
      have hh : r = none → ¬ InRangeSecs (instSecs l' - off) := by assumption
      apply hh hr
      rw [l3, hw, show instSecs u + off - off = instSecs u by omega]
      have := (filter_spec u 0 ⟨((dateInv_iff u.date).mp hu.1).1, hu.2⟩)
      obtain ⟨eu, vu⟩ := ext_eq u.date ((dateInv_iff u.date).mp hu.1).1
      rw [instSecs_ext u ((dateInv_iff u.date).mp hu.1).1, inrange_iff _ _ ⟨hu.2.1, hu.2.2.1⟩,
        range_iff _ _ ⟨vu.2.2.1, vu.2.2.2⟩]
      exact ⟨hu.1.1, hu.1.2.1⟩
    cases r with
    | none => exact absurd rfl hne
    | some z =>
      obtain ⟨a, b, c, d, _⟩ := h2 z rfl
      rw [h1]
      congr 2
      have hzu : z.utc = u := by
        apply ndt_unique z.utc u b ⟨((dateInv_iff u.date).mp hu.1).1, hu.2⟩
        · rw [c, l3, hw]; omega
        · rw [d, l4]; rfl
      cases z; simp only [Zoned.from_utc_datetime, Zoned.mk.injEq]; exact ⟨hzu, a⟩
  · rw [if_neg hin] at hl; cases hl

/-- non-vacuity: 1970-01-01T00:30 at +01:00 is 1969-12-31T23:30Z and reads back; `MIN` as a wall
clock at +00:00:01 has no UTC reading, at −00:00:01 it has -/
example :
    Zoned.from_local_datetime 3600 ⟨dateOfYo 1970 1, ⟨1800, 7⟩⟩ = .ok (some ⟨⟨dateOfYo 1969 365, ⟨84600, 7⟩⟩, 3600⟩) ∧
    Zoned.naive_local ⟨⟨dateOfYo 1969 365, ⟨84600, 7⟩⟩, 3600⟩ = .ok ⟨dateOfYo 1970 1, ⟨1800, 7⟩⟩ ∧
    Zoned.from_local_datetime 1 NaiveDT.MIN = .ok none ∧
    Zoned.from_local_datetime (-1) NaiveDT.MIN = .ok (some ⟨⟨Date.MIN, ⟨1, 0⟩⟩, -1⟩) ∧
    NDTInv NaiveDT.MIN ∧ ¬ InRangeSecs (instSecs NaiveDT.MIN - 1) := by decide +kernel

/-! ### Equality, ordering, hashing; changing the zone -/

/-- **cmp_by_instant.**  Equality, ordering and hashing of zone-aware values are functions of the
UTC readings alone (the offsets do not enter), and on well-formed values they are equality / order
of the instants: the comparison is the lexicographic comparison of (second, nanosecond field), two
values are equal iff both agree, and the hashed words agree iff the values are equal. -/
theorem cmp_by_instant (a b : Zoned) (ha : ZInv a) (hb : ZInv b) :
    (∀ oa ob, Zoned.cmp ⟨a.utc, oa⟩ ⟨b.utc, ob⟩ = Zoned.cmp a b ∧
              Zoned.eq ⟨a.utc, oa⟩ ⟨b.utc, ob⟩ = Zoned.eq a b ∧
              Zoned.hashWords ⟨a.utc, oa⟩ = Zoned.hashWords a) ∧
    Zoned.cmp a b = cmpKey (instSecs a.utc) a.utc.time.frac (instSecs b.utc) b.utc.time.frac ∧
    (Zoned.eq a b = true ↔ instSecs a.utc = instSecs b.utc ∧ a.utc.time.frac = b.utc.time.frac) ∧
    (Zoned.eq a b = true ↔ Zoned.cmp a b = 0) ∧
    (Zoned.hashWords a = Zoned.hashWords b ↔ Zoned.eq a b = true) := by
  have ea : ExtNDTInv a.utc := ⟨((dateInv_iff a.utc.date).mp ha.1.1).1, ha.1.2⟩
  have eb : ExtNDTInv b.utc := ⟨((dateInv_iff b.utc.date).mp hb.1.1).1, hb.1.2⟩
  have hcmp : Zoned.cmp a b = cmpKey (instSecs a.utc) a.utc.time.frac (instSecs b.utc) b.utc.time.frac :=
    cmp_spec a.utc b.utc ea eb
  have heq : Zoned.eq a b = true ↔ instSecs a.utc = instSecs b.utc ∧ a.utc.time.frac = b.utc.time.frac := by
    unfold Zoned.eq
    simp only [decide_eq_true_eq]
    constructor
    · intro h; rw [h]; exact ⟨rfl, rfl⟩
    · intro h; exact ndt_unique _ _ ea eb h.1 h.2
  refine ⟨fun _ _ => ⟨rfl, rfl, rfl⟩, hcmp, heq, ?_, ?_⟩
  · rw [heq, hcmp]; unfold cmpKey
    constructor
    · intro h; rw [h.1, h.2]; simp
    · intro h; constructor <;> omega
  · unfold Zoned.hashWords NaiveDT.hashWords Zoned.eq
    simp only [decide_eq_true_eq]
    constructor
    · intro h
      simp only [List.cons.injEq, and_true] at h
      obtain ⟨h1, h2, h3⟩ := h
      cases a with | mk au ao => cases b with | mk bu bo =>
        cases au with | mk ad at_ => cases bu with | mk bd bt =>
          cases ad; cases bd; cases at_; cases bt
          simp_all
    · intro h; rw [h]

/-- **with_timezone_keeps_instant.**  Converting to another zone keeps the stored UTC reading, hence
the instant; the new value compares equal to the old one, hashes the same, and its wall clock moves by
exactly the offset difference. -/
theorem with_timezone_keeps_instant (z : Zoned) (off' : Int) :
    (Zoned.with_timezone z off').utc = z.utc ∧ (Zoned.with_timezone z off').off = off' ∧
    zonedInstNs (Zoned.with_timezone z off') = zonedInstNs z ∧
    wallSecs (Zoned.with_timezone z off') = wallSecs z - z.off + off' ∧
    Zoned.eq (Zoned.with_timezone z off') z = true ∧ Zoned.cmp (Zoned.with_timezone z off') z = 0 ∧
    Zoned.hashWords (Zoned.with_timezone z off') = Zoned.hashWords z ∧
    (Zoned.to_utc z).utc = z.utc ∧ (Zoned.fixed_offset z) = z := by
  refine ⟨rfl, rfl, rfl, ?_, ?_, ?_, rfl, rfl, rfl⟩
  · unfold wallSecs Zoned.with_timezone; dsimp only; omega
  · unfold Zoned.eq Zoned.with_timezone; simp
  · unfold Zoned.cmp Zoned.with_timezone NaiveDT.cmp Date.cmp Time.cmp; simp

example : Zoned.cmp ⟨⟨dateOfYo 2024 60, ⟨0, 0⟩⟩, 3600⟩ ⟨⟨dateOfYo 2024 60, ⟨0, 0⟩⟩, -7200⟩ = 0 ∧
    Zoned.cmp ⟨⟨dateOfYo 2024 60, ⟨0, 0⟩⟩, 3600⟩ ⟨⟨dateOfYo 2024 59, ⟨86399, 1999999999⟩⟩, 0⟩ = 1 ∧
    Zoned.eq ⟨⟨dateOfYo 2024 60, ⟨0, 1⟩⟩, 0⟩ ⟨⟨dateOfYo 2024 60, ⟨0, 0⟩⟩, 0⟩ = false ∧
    Zoned.hashWords ⟨⟨dateOfYo 2024 60, ⟨5, 6⟩⟩, 3600⟩ = [(dateOfYo 2024 60).yof, 5, 6] := by decide +kernel

/-! ### Field replacement acts on the wall clock -/

/-- **map_local_spec.**  Let `l` be the wall clock of a well-formed `z` and let the replacement `f`
turn it into `r0` (a well-formed reading of the extended calendar, or a refusal).  Then `map_local`
never panics; a result has the same offset, is well formed and inside `MIN_UTC ..= MAX_UTC`, denotes
the instant `new wall clock − offset`, and its wall clock *is* the reading `f` produced; and there is
no result exactly when `f` refused or that instant is outside `MIN_UTC ..= MAX_UTC`. -/
theorem map_local_spec (z : Zoned) (hz : ZInv z) (f : NaiveDT → Res (Option NaiveDT)) (l : NaiveDT)
    (r0 : Option NaiveDT) (hl : Zoned.overflowing_naive_local z = .ok l) (hf : f l = .ok r0)
    (hv : ∀ nl, r0 = some nl → ExtNDTInv nl) :
    ∃ r, Zoned.map_local z f = .ok r ∧
      (∀ z', r = some z' → ∃ nl, r0 = some nl ∧ z'.off = z.off ∧ ZInv z' ∧
        Zoned.overflowing_naive_local z' = .ok nl ∧ instSecs z'.utc = instSecs nl - z.off ∧
        z'.utc.time.frac = nl.time.frac ∧ InUtcRange (instSecs z'.utc) z'.utc.time.frac) ∧
      (r = none ↔ (r0 = none ∨ ∃ nl, r0 = some nl ∧ ¬ InUtcRange (instSecs nl - z.off) nl.time.frac)) := by
  unfold Zoned.map_local
  rw [hl, bind_ok', hf, bind_ok']
  cases r0 with
  | none => exact ⟨none, rfl, by intro z' h; simp at h, by simp⟩
  | some nl =>
    obtain ⟨r, h1, h2, h3⟩ := back_filtered z hz nl (hv nl rfl)
    refine ⟨r, h1, ?_, ?_⟩
    · intro z' hz'; exact ⟨nl, rfl, h2 z' hz'⟩
    · rw [h3]; simp

/-- **with_time_spec** (the code after the repair of finding #14).  `with_time t` replaces the time
of day of the wall clock (keeping its date, also a headroom date) and filters the result to
`MIN_UTC ..= MAX_UTC`: never panics, fails exactly when `(wall-clock date, t) − offset` is outside. -/
theorem with_time_spec (z : Zoned) (hz : ZInv z) (t : Time) (ht : TValid t) :
    ∃ l, Zoned.overflowing_naive_local z = .ok l ∧ ExtNDTInv l ∧ instSecs l = wallSecs z ∧
    ∃ r, Zoned.with_time z t = .ok r ∧
      (∀ z', r = some z' → z'.off = z.off ∧ ZInv z' ∧
        Zoned.overflowing_naive_local z' = .ok ⟨l.date, t⟩ ∧
        instSecs z'.utc = instSecs ⟨l.date, t⟩ - z.off ∧ z'.utc.time.frac = t.frac ∧
        InUtcRange (instSecs z'.utc) z'.utc.time.frac) ∧
      (r = none ↔ ¬ InUtcRange (instSecs ⟨l.date, t⟩ - z.off) t.frac) := by
  obtain ⟨l, h1, h2, h3, _⟩ := naive_local_spec z hz
  refine ⟨l, h1, h2, h3, ?_⟩
  obtain ⟨r, a, b, c⟩ := back_filtered z hz ⟨l.date, t⟩ ⟨h2.1, ht⟩
  refine ⟨r, ?_, b, c⟩
  unfold Zoned.with_time
  rw [h1, bind_ok']
  exact a

/-- the time-field replacements are `with_time` with that one field of the wall-clock time changed
(`ofFields`, `hourOf`, … are C07's field vocabulary), refused when the field is out of range -/
theorem with_time_field_spec (z : Zoned) (hz : ZInv z) (v : Int) (hv : 0 ≤ v) :
    ∃ l, Zoned.overflowing_naive_local z = .ok l ∧ TValid l.time ∧
    Zoned.with_hour z v = (if v < 24 then
      Zoned.with_time z (ofFields v (minuteOf l.time) (secondOf l.time) l.time.frac) else .ok none) ∧
    Zoned.with_minute z v = (if v < 60 then
      Zoned.with_time z (ofFields (hourOf l.time) v (secondOf l.time) l.time.frac) else .ok none) ∧
    Zoned.with_second z v = (if v < 60 then
      Zoned.with_time z (ofFields (hourOf l.time) (minuteOf l.time) v l.time.frac) else .ok none) ∧
    Zoned.with_nanosecond z v = (if v < 2000000000 then
      Zoned.with_time z (ofFields (hourOf l.time) (minuteOf l.time) (secondOf l.time) v) else .ok none) := by
  obtain ⟨l, h1, h2, _⟩ := naive_local_spec z hz
  obtain ⟨w1, w2, w3, w4⟩ := with_field' l.time v h2.2 hv
  refine ⟨l, h1, h2.2, ?_, ?_, ?_, ?_⟩
  · unfold Zoned.with_hour Zoned.map_local Zoned.with_time NaiveDT.with_hour NaiveDT.mapTime
    rw [h1, bind_ok', bind_ok', w1, bind_ok']
    by_cases h : v < 24
    · rw [if_pos h, if_pos h]; rfl
    · rw [if_neg h, if_neg h]; rfl
  · unfold Zoned.with_minute Zoned.map_local Zoned.with_time NaiveDT.with_minute NaiveDT.mapTime
    rw [h1, bind_ok', bind_ok', w2, bind_ok']
    by_cases h : v < 60
    · rw [if_pos h, if_pos h]; rfl
    · rw [if_neg h, if_neg h]; rfl
  · unfold Zoned.with_second Zoned.map_local Zoned.with_time NaiveDT.with_second NaiveDT.mapTime
    rw [h1, bind_ok', bind_ok', w3, bind_ok']
    by_cases h : v < 60
    · rw [if_pos h, if_pos h]; rfl
    · rw [if_neg h, if_neg h]; rfl
  · unfold Zoned.with_nanosecond Zoned.map_local Zoned.with_time NaiveDT.with_nanosecond NaiveDT.mapTime
    rw [h1, bind_ok', bind_ok', w4, bind_ok']
    by_cases h : v < 2000000000
    · rw [if_pos h, if_pos h]; rfl
    · rw [if_neg h, if_neg h]; rfl

/-- non-vacuity, and the two inputs of finding #14 on the repaired code: `MAX_UTC` seen at +01:00,
`with_time(23:00:00)` would be 22:00 UTC on the day after MAX — refused; `MIN_UTC` at −01:00,
`with_time(00:00:00)` would be 01:00 UTC on the day before MIN — refused; `with_time(23:30)` on the
latter is in range; `with_hour(0)` on a headroom wall clock is refused, `with_hour(23)` keeps it -/
example :
    Zoned.with_time ⟨NaiveDT.MAX, 3600⟩ ⟨82800, 0⟩ = .ok none ∧
    Zoned.with_time ⟨NaiveDT.MIN, -3600⟩ ⟨0, 0⟩ = .ok none ∧
    Zoned.with_time ⟨NaiveDT.MIN, -3600⟩ ⟨84600, 0⟩ = .ok (some ⟨⟨Date.MIN, ⟨1800, 0⟩⟩, -3600⟩) ∧
    Zoned.with_hour ⟨NaiveDT.MIN, -3600⟩ 0 = .ok none ∧
    Zoned.with_hour ⟨NaiveDT.MIN, -3600⟩ 23 = .ok (some ⟨NaiveDT.MIN, -3600⟩) ∧
    Zoned.with_time ⟨⟨dateOfYo 2024 60, ⟨3600, 0⟩⟩, 7200⟩ ⟨0, 5⟩ = .ok (some ⟨⟨dateOfYo 2024 59, ⟨79200, 5⟩⟩, 7200⟩) := by
  decide +kernel

/-! ### Calendar-field replacement -/

/-- what the target readings of the calendar-field replacements are: `ymdReading? y m d t` exists
exactly when (m, d) is a date of year `y` (any year of the extended calendar) and then has exactly
those fields and the time `t`; `yoReading? y o t` likewise for the ordinal -/
theorem reading_fields (y : Int) (m d o : Nat) (t : Time) :
    (ymdReading? y m d t = none ↔ ¬ (1 ≤ m ∧ m ≤ 12 ∧ 1 ≤ d ∧ d ≤ monthLen y m)) ∧
    (∀ nl, ymdReading? y m d t = some nl →
      nl.date.year = y ∧ nl.date.month = .ok m ∧ nl.date.day = .ok d ∧ nl.time = t) ∧
    (yoReading? y o t = none ↔ ¬ (1 ≤ o ∧ o ≤ yearLen y)) ∧
    (∀ nl, yoReading? y o t = some nl → nl.date.year = y ∧ nl.date.ordinal = o ∧ nl.time = t) := by
  have hyl := yearLen_ge y
  refine ⟨?_, ?_, ?_, ?_⟩
  · unfold ymdReading?
    rw [← valid_iff]
    constructor
    · intro h hc; rw [if_pos hc] at h; cases h
    · intro h; exact ite_neg' _ _ h
  · intro nl h
    unfold ymdReading? at h
    by_cases hc : validYmd y m d = true
    · rw [if_pos hc] at h
      have := Option.some.inj h
      subst this
      obtain ⟨f1, f2, f3, _⟩ := ymd_fields y m d hc
      exact ⟨f1, f2, f3, rfl⟩
    · rw [if_neg hc] at h; cases h
  · unfold yoReading?
    constructor
    · intro h hc; rw [if_pos hc] at h; cases h
    · intro h; exact ite_neg' _ _ h
  · intro nl h
    unfold yoReading? at h
    by_cases hc : 1 ≤ o ∧ o ≤ yearLen y
    · rw [if_pos hc] at h
      have := Option.some.inj h
      subst this
      obtain ⟨f1, f2, _⟩ := dateOfYo_fields y o (by omega)
      exact ⟨f1, f2, rfl⟩
    · rw [if_neg hc] at h; cases h

/-- **with_date_field_spec.**  `with_year / with_month(0) / with_day(0) / with_ordinal(0)` are instances
of `map_local_spec` with C08's calendar meaning.  With `l` the wall clock of `z` (possibly in a headroom
day), `y` its year, `m`, `d` its month and day: the target reading keeps the time of day and all
calendar fields but the named one (`ymdReading?` / `yoReading?`, see `reading_fields`; the 0-based forms
aim at `v + 1`, and `u32::MAX` has no target); `with_year` keeps the wall clock itself when the year
is unchanged — also a headroom year — and otherwise accepts only years of the supported range
(`yearReading?`).  `ActsOnWall z target r` says: a result keeps the offset, is well formed, lies in
`MIN_UTC ..= MAX_UTC`, denotes `target − offset` and its wall clock IS the target; `None` exactly when
there is no such date or that instant is outside `MIN_UTC ..= MAX_UTC`.  Never a panic, every `u32`
(indeed every natural) argument, every `i32` (indeed every integer) year. -/
theorem with_date_field_spec (z : Zoned) (hz : ZInv z) (v : Nat) (y' : Int) :
    ∃ l, Zoned.overflowing_naive_local z = .ok l ∧ ExtNDTInv l ∧ instSecs l = wallSecs z ∧
    (∃ r, Zoned.with_year z y' = .ok r ∧ ActsOnWall z (yearReading? l y') r) ∧
    (∃ r, Zoned.with_month z v = .ok r ∧ ActsOnWall z
      (ymdReading? l.date.year v (dayOfYo l.date.year l.date.ordinal.toNat) l.time) r) ∧
    (∃ r, Zoned.with_month0 z v = .ok r ∧ ActsOnWall z
      (ymdReading? l.date.year (v + 1) (dayOfYo l.date.year l.date.ordinal.toNat) l.time) r) ∧
    (∃ r, Zoned.with_day z v = .ok r ∧ ActsOnWall z
      (ymdReading? l.date.year (monthOfYo l.date.year l.date.ordinal.toNat) v l.time) r) ∧
    (∃ r, Zoned.with_day0 z v = .ok r ∧ ActsOnWall z
      (ymdReading? l.date.year (monthOfYo l.date.year l.date.ordinal.toNat) (v + 1) l.time) r) ∧
    (∃ r, Zoned.with_ordinal z v = .ok r ∧ ActsOnWall z (yoReading? l.date.year v l.time) r) ∧
    (∃ r, Zoned.with_ordinal0 z v = .ok r ∧ ActsOnWall z (yoReading? l.date.year (v + 1) l.time) r) := by
  obtain ⟨l, h1, h2, h3, _⟩ := naive_local_spec z hz
  exact ⟨l, h1, h2, h3, zoned_with_date_fields z hz l h1 v y'⟩

/-- the wall clock's own month and day are `monthOfYo` / `dayOfYo` of its year and ordinal (C01), so
the targets above are "same month", "same day" -/
theorem wall_month_day (z : Zoned) (hz : ZInv z) (l : NaiveDT)
    (hl : Zoned.overflowing_naive_local z = .ok l) :
    l.date.month = .ok (monthOfYo l.date.year l.date.ordinal.toNat) ∧
    l.date.day = .ok (dayOfYo l.date.year l.date.ordinal.toNat) := by
  obtain ⟨hext, _⟩ := wall_date_cases z hz l hl
  obtain ⟨el, vl⟩ := ext_eq l.date hext.1
  obtain ⟨m1, m2, _, _⟩ := month_day_spec l.date.year l.date.ordinal.toNat vl.2.2.1 vl.2.2.2
  rw [← el] at m1 m2
  exact ⟨m1, m2⟩

/-- non-vacuity: leap day → `with_year` to a common year has no target; Jan 31 → `with_month(2)` has
none; replacement across midnight at +02:00 (28 Feb 23:00Z is 29 Feb 01:00 local; day 1 gives 1 Feb 01:00 local = 31 Jan 23:00Z); headroom wall clock: `with_ordinal(366)` keeps it,
`with_ordinal(365)` and `with_month(11)` leave the range, `with_year(MIN_YEAR − 1)` (unchanged year)
keeps the value, `with_year(MIN_YEAR)` moves into the range; `u32::MAX` -/
example :
    Zoned.with_year ⟨⟨dateOfYo 2024 60, ⟨0, 0⟩⟩, 0⟩ 2023 = .ok none ∧
    Zoned.with_year ⟨⟨dateOfYo 2024 60, ⟨0, 0⟩⟩, 0⟩ 2028 = .ok (some ⟨⟨dateOfYo 2028 60, ⟨0, 0⟩⟩, 0⟩) ∧
    Zoned.with_month ⟨⟨dateOfYo 2024 31, ⟨0, 0⟩⟩, 0⟩ 2 = .ok none ∧
    Zoned.with_day ⟨⟨dateOfYo 2024 59, ⟨82800, 0⟩⟩, 7200⟩ 1 = .ok (some ⟨⟨dateOfYo 2024 31, ⟨82800, 0⟩⟩, 7200⟩) ∧
    Zoned.with_ordinal ⟨NaiveDT.MIN, -3600⟩ 366 = .ok (some ⟨NaiveDT.MIN, -3600⟩) ∧
    Zoned.with_ordinal ⟨NaiveDT.MIN, -3600⟩ 365 = .ok none ∧
    Zoned.with_month ⟨NaiveDT.MIN, -3600⟩ 11 = .ok none ∧
    Zoned.with_year ⟨NaiveDT.MIN, -3600⟩ (MIN_YEAR - 1) = .ok (some ⟨NaiveDT.MIN, -3600⟩) ∧
    Zoned.with_year ⟨NaiveDT.MIN, -3600⟩ MIN_YEAR = .ok (some ⟨⟨dateOfYo (MIN_YEAR + 1) 1, ⟨0, 0⟩⟩, -3600⟩) ∧
    Zoned.with_month0 ⟨⟨dateOfYo 2024 31, ⟨0, 0⟩⟩, 0⟩ 4294967295 = .ok none ∧
    Zoned.with_day0 ⟨⟨dateOfYo 2024 31, ⟨0, 0⟩⟩, 0⟩ 0 = .ok (some ⟨⟨dateOfYo 2024 1, ⟨0, 0⟩⟩, 0⟩) := by
  decide +kernel

/-! ### Day and month stepping -/

/-- **stepping_spec.**  With `l` the wall clock of a well-formed `z` (possibly in a headroom day):

* `checked_add_days(Days(0))` returns `z`.  For `n > 0` the wall-clock *date* moves by `n` days, time of
  day and offset are kept (`SteppedDays`: the instant moves by `n·86400` s).  It succeeds exactly when
  (a) the stepped wall-clock date is itself a date of the supported range — a result whose own wall
  clock would fall in the headroom day is refused, because `NaiveDate::add_days` validates the year —
  and (b) the stepped instant is `≤ MAX_UTC` (the only filter this operation applies; `≥ MIN_UTC`
  holds automatically).
* `checked_sub_days(Days(n))`, every `n ≥ 0` (the code has no short cut for 0, `Days(0)` goes through the
  wall clock and back and returns `z`, also from a headroom wall clock): succeeds exactly when
  (a) `n = 0` or the stepped wall-clock date is a date of the supported range, and (b) the stepped
  instant is `≥ MIN_UTC` (the only filter applied; a leap-second reading in the last second of MAX
  is not filtered here).
* `checked_add_months` / `checked_sub_months`: `Months(0)` returns `z`; otherwise the wall-clock date
  is stepped by C08's `addMonths?` (year-month index moved by `k`, day clamped to the target month,
  `None` when the target year leaves the supported range — C08 `months_target`), the time of day is
  kept, and the result exists exactly when that date exists and `new wall clock − offset` is
  representable (`InRangeSecs`; no `MIN_UTC ..= MAX_UTC` filter is applied).

Counts: all of `u64` for days, all of `u32` (indeed every natural) for months.  Never a panic. -/
theorem stepping_spec (z : Zoned) (hz : ZInv z) :
    ∃ l, Zoned.overflowing_naive_local z = .ok l ∧ ExtNDTInv l ∧ instSecs l = wallSecs z ∧
    Zoned.checked_add_days z 0 = .ok (some z) ∧
    (∀ n : Int, 0 < n → n ≤ 18446744073709551615 →
      ∃ r, Zoned.checked_add_days z n = .ok r ∧
        (r = none ↔ ¬ ((DAY_MIN ≤ dayNumOf l.date + n ∧ dayNumOf l.date + n ≤ DAY_MAX) ∧
                       LeMaxUtc (instSecs z.utc + n * 86400) z.utc.time.frac)) ∧
        ∀ z', r = some z' → SteppedDays z l z' n) ∧
    (∀ n : Int, 0 ≤ n → n ≤ 18446744073709551615 →
      ∃ r, Zoned.checked_sub_days z n = .ok r ∧
        (r = none ↔ ¬ ((n = 0 ∨ (DAY_MIN ≤ dayNumOf l.date - n ∧ dayNumOf l.date - n ≤ DAY_MAX)) ∧
                       GeMinUtc (instSecs z.utc - n * 86400))) ∧
        ∀ z', r = some z' → SteppedDays z l z' (-n)) ∧
    (∀ k : Nat,
      (∃ r, Zoned.checked_add_months z k = .ok r ∧ (k = 0 → r = some z) ∧
        (0 < k → ActsOnWallWith (fun s _ => InRangeSecs s) z
          ((addMonths? l.date.year (monthOfYo l.date.year l.date.ordinal.toNat)
              (dayOfYo l.date.year l.date.ordinal.toNat) k).map fun nd => ⟨nd, l.time⟩) r)) ∧
      (∃ r, Zoned.checked_sub_months z k = .ok r ∧ (k = 0 → r = some z) ∧
        (0 < k → ActsOnWallWith (fun s _ => InRangeSecs s) z
          ((addMonths? l.date.year (monthOfYo l.date.year l.date.ordinal.toNat)
              (dayOfYo l.date.year l.date.ordinal.toNat) (-(k : Int))).map fun nd => ⟨nd, l.time⟩) r))) := by
  obtain ⟨l, h1, h2, h3, _⟩ := naive_local_spec z hz
  refine ⟨l, h1, h2, h3, rfl, ?_, ?_, ?_⟩
  · intro n hn1 hn2; exact zoned_add_days z hz l h1 n ⟨hn1, hn2⟩
  · intro n hn1 hn2; exact zoned_sub_days z hz l h1 n ⟨hn1, hn2⟩
  · intro k; exact zoned_months z hz l h1 k

/-- the range filter splits into the two one-sided filters used by the day steppers -/
theorem utc_range_halves (s f : Int) : InUtcRange s f ↔ GeMinUtc s ∧ LeMaxUtc s f := inUtc_iff s f

/-- non-vacuity and the boundary cases: from a headroom wall clock forwards into the range and with
`Days(0)` backwards; a step that would land in the headroom day is refused although the instant is in
range (`MIN+2d 01:00Z` at −02:00, minus 2 days); `MAX_UTC` reached exactly and missed by a day;
`2³²` and `u64::MAX` days are not folded; month stepping clamps the day (wall clock Jan 30 23:00 →
Feb 29 23:00) and `Months(0)` returns the value -/
example :
    Zoned.checked_sub_days ⟨NaiveDT.MIN, -3600⟩ 0 = .ok (some ⟨NaiveDT.MIN, -3600⟩) ∧
    Zoned.checked_add_days ⟨NaiveDT.MIN, -3600⟩ 1 = .ok (some ⟨⟨dateOfYo MIN_YEAR 2, ⟨0, 0⟩⟩, -3600⟩) ∧
    Zoned.checked_sub_days ⟨NaiveDT.MIN, -3600⟩ 1 = .ok none ∧
    Zoned.checked_sub_days ⟨⟨dateOfYo MIN_YEAR 3, ⟨3600, 0⟩⟩, -7200⟩ 2 = .ok none ∧
    Zoned.checked_sub_days ⟨⟨dateOfYo MIN_YEAR 3, ⟨3600, 0⟩⟩, 0⟩ 2 = .ok (some ⟨⟨dateOfYo MIN_YEAR 1, ⟨3600, 0⟩⟩, 0⟩) ∧
    Zoned.checked_add_days ⟨⟨dateOfYo MAX_YEAR 364, ⟨86399, 999999999⟩⟩, -3600⟩ 1 = .ok (some ⟨NaiveDT.MAX, -3600⟩) ∧
    Zoned.checked_add_days ⟨NaiveDT.MAX, 3600⟩ 1 = .ok none ∧
    Zoned.checked_add_days ⟨NaiveDT.MIN, 0⟩ 4294967296 = .ok none ∧
    Zoned.checked_sub_days ⟨NaiveDT.MAX, 0⟩ 18446744073709551615 = .ok none ∧
    Zoned.checked_add_days ⟨NaiveDT.MIN, 0⟩ 191491528 = .ok (some ⟨⟨Date.MAX, ⟨0, 0⟩⟩, 0⟩) ∧
    Zoned.checked_add_months ⟨⟨dateOfYo 2024 31, ⟨0, 0⟩⟩, -3600⟩ 1 =
      .ok (some ⟨⟨dateOfYo 2024 61, ⟨0, 0⟩⟩, -3600⟩) ∧
    Zoned.checked_sub_months ⟨NaiveDT.MIN, -3600⟩ 0 = .ok (some ⟨NaiveDT.MIN, -3600⟩) ∧
    Zoned.checked_sub_months ⟨NaiveDT.MIN, 0⟩ 1 = .ok none ∧
    Zoned.checked_add_months ⟨NaiveDT.MIN, -3600⟩ 1 = .ok (some ⟨⟨dateOfYo MIN_YEAR 32, ⟨0, 0⟩⟩, -3600⟩) := by
  decide +kernel

/-! ### `with_ymd_and_hms` -/

/-- **with_ymd_and_hms_spec.**  `TimeZone::with_ymd_and_hms` for a fixed offset (`Utc`: offset 0), every
`i32` year and every `u32` (indeed every natural / non-negative) month, day, hour, minute, second:
never panics; there is a result exactly when the year is in the supported range, (month, day) is a
date of that year, hour < 24, minute < 60, second < 60 (no leap second through this constructor) and
`wall clock − offset` is representable; the result has the given offset, is well formed, denotes
`wall clock − offset`, and `naive_local` reads the wall clock — that calendar date at that time, nanosecond
0 — back. -/
theorem with_ymd_and_hms_spec (off : Int) (ho : OffValid off) (y : Int) (m d : Nat) (h mi s : Int)
    (hh : 0 ≤ h) (hmi : 0 ≤ mi) (hs : 0 ≤ s) :
    ∃ r, Zoned.with_ymd_and_hms off y m d h mi s = .ok r ∧
      (r = none ↔ ¬ ((MIN_YEAR ≤ y ∧ y ≤ MAX_YEAR ∧ validYmd y m d = true ∧ h < 24 ∧ mi < 60 ∧ s < 60) ∧
        InRangeSecs (instSecs ⟨dateOfYo y (ordinalOf y m d), ofFields h mi s 0⟩ - off))) ∧
      ∀ z, r = some z →
        (MIN_YEAR ≤ y ∧ y ≤ MAX_YEAR ∧ validYmd y m d = true ∧ h < 24 ∧ mi < 60 ∧ s < 60) ∧
        z.off = off ∧ ZInv z ∧
        Zoned.naive_local z = .ok ⟨dateOfYo y (ordinalOf y m d), ofFields h mi s 0⟩ ∧
        instSecs z.utc = instSecs ⟨dateOfYo y (ordinalOf y m d), ofFields h mi s 0⟩ - off ∧
        z.utc.time.frac = 0 := by
  unfold Zoned.with_ymd_and_hms
  rw [ctor_ymd', bind_ok', hms_iff']
  by_cases hd : MIN_YEAR ≤ y ∧ y ≤ MAX_YEAR ∧ validYmd y m d = true
  · rw [if_pos hd]
    by_cases ht : h < 24 ∧ mi < 60 ∧ s < 60
    · rw [if_pos ht]
      dsimp only
      have hb := ordinal_bounds_c08 y m d hd.2.2
      have hn : NDTInv ⟨dateOfYo y (ordinalOf y m d), ofFields h mi s 0⟩ :=
        ⟨(inv_of_yo y _ ⟨hd.1, hd.2.1⟩ hb).1,
         (ofFields_valid h mi s 0 ⟨hh, ht.1⟩ ⟨hmi, ht.2.1⟩ ⟨hs, ht.2.2⟩ (by omega)).1⟩
      obtain ⟨r, a, b⟩ := fromLocal_fails_iff off _ ho hn
      refine ⟨r, a, ?_, ?_⟩
      · rw [b]
        constructor
        · intro h1 h2; exact h1 h2.2
        · intro h1 h2; exact h1 ⟨⟨hd.1, hd.2.1, hd.2.2, ht⟩, h2⟩
      · intro z hz
        rw [hz] at a
        obtain ⟨c1, c2, c3, _, c5, c6⟩ := local_of_fromLocal off _ ho hn z a
        exact ⟨⟨hd.1, hd.2.1, hd.2.2, ht⟩, c1, c2, c3, c5, c6⟩
    · rw [if_neg ht]
      refine ⟨none, rfl, ?_, by intro z h; cases h⟩
      simp only [true_iff]
      intro h1; exact ht h1.1.2.2.2
  · rw [if_neg hd]
    refine ⟨none, rfl, ?_, by intro z h; cases h⟩
    simp only [true_iff]
    intro h1; exact hd ⟨h1.1.1, h1.1.2.1, h1.1.2.2.1⟩

example : Zoned.with_ymd_and_hms 3600 1970 1 1 0 30 0 = .ok (some ⟨⟨dateOfYo 1969 365, ⟨84600, 0⟩⟩, 3600⟩) ∧
    Zoned.with_ymd_and_hms 0 2023 2 29 0 0 0 = .ok none ∧ Zoned.with_ymd_and_hms 0 2024 2 29 23 59 60 = .ok none ∧
    Zoned.with_ymd_and_hms 1 MIN_YEAR 1 1 0 0 0 = .ok none ∧
    Zoned.with_ymd_and_hms (-1) MIN_YEAR 1 1 0 0 0 = .ok (some ⟨⟨Date.MIN, ⟨1, 0⟩⟩, -1⟩) ∧
    Zoned.with_ymd_and_hms 0 (MAX_YEAR + 1) 1 1 0 0 0 = .ok none := by decide +kernel

/-! ### Formatting acts on the wall clock (also in the headroom day) -/

/-- **format_reads_wall_clock.**  Let `l` be THE wall clock of a well-formed `z` (`headroom_sound` +
`reading_unique`: the reading of `instant + offset` in the extended calendar — `naive_local` would panic
on it in a headroom day).  Every text writer of the zone-aware value is the writer of the naive value
applied to `l`, and none of them panics on account of the wall clock:

* `to_rfc3339_opts` (every precision, with and without `Z`), `to_rfc3339` and `Serialize` return the text
  `write_rfc3339` produces for `l` and the value's offset (it always produces one);
* `to_rfc2822` is `write_rfc2822` of `l` under `expect` (it panics exactly when the wall-clock year is
  outside 0–9999: C11 `writer_shape`, C15 `documented_panics`);
* `Debug` / `Display` (any offset text: `+hh:mm[:ss]` for `FixedOffset`, `Z` / `UTC` for `Utc`) are the
  specification text of the reading `l` — signed year, month and day of the wall-clock ordinal, clock
  fields of the wall-clock second, shortest lossless fraction (`Spec.Text.naiveText`, C09) — followed by
  the offset text, also when `l` lies in a headroom day;
* `format` / `format_with_items` hand `l`'s date and time of day and the value's offset to the item
  formatter of C12 (`Format.formatItemsR`). -/
theorem format_reads_wall_clock (z : Zoned) (hz : ZInv z) :
    ∃ l, Zoned.overflowing_naive_local z = .ok l ∧ ExtNDTInv l ∧ instSecs l = wallSecs z ∧
      l.time.frac = z.utc.time.frac ∧
      (∀ sf use_z, ∃ t, Format.write_rfc3339 l z.off sf use_z = .ok (some t) ∧
        Rfc3339.to_rfc3339_opts z sf use_z = .ok t) ∧
      (∃ t, Format.write_rfc3339 l z.off .autoSi false = .ok (some t) ∧ Rfc3339.to_rfc3339 z = .ok t) ∧
      (∃ t, Format.write_rfc3339 l z.off .autoSi true = .ok (some t) ∧
        Serde.DateTimeStr.serialize z = .ok (some t)) ∧
      Rfc2822.to_rfc2822 z = Rfc3339.expectText (Format.write_rfc2822 l z.off) ∧
      (∀ offText, TextForms.zoned_debug z offText = Format.wok (Text.naiveText 84 l ++ offText) ∧
        TextForms.zoned_display z offText = Format.wok (Text.naiveText 32 l ++ 32 :: offText)) ∧
      (∀ items, ParseFrom.formatItemsOf (.zoned z) items =
        Format.formatItemsR (some l.date) (some l.time) (some (Format.fixedOffsetName z.off, z.off)) items) ∧
      (∀ fmt, ParseFrom.format (.zoned z) fmt =
        Format.formatItemsR (some l.date) (some l.time) (some (Format.fixedOffsetName z.off, z.off))
          (Strftime.items fmt)) := by
  obtain ⟨l, h1, h2, h3, h4, _, _⟩ := naive_local_spec z hz
  obtain ⟨_, _, _, hho, _⟩ := wall_date_cases z hz l h1
  obtain ⟨w1, w2, w3, w4, w5, w6, w7, w8⟩ := ZNF.writers_of_wall z l h1
  obtain ⟨nd, ns⟩ := ZNF.naive_text_wall l hho h2.2
  refine ⟨l, h1, h2, h3, h4, ?_, ?_, ?_, w3, ?_, w7, w8⟩
  · intro sf use_z
    obtain ⟨t, ht⟩ := C15Render.write_rfc3339_ok l h2 z.off hz.2 sf use_z
    exact ⟨t, ht, by rw [w1, ht]; rfl⟩
  · obtain ⟨t, ht⟩ := C15Render.write_rfc3339_ok l h2 z.off hz.2 .autoSi false
    exact ⟨t, ht, by rw [w2, ht]; rfl⟩
  · obtain ⟨t, ht⟩ := C15Render.write_rfc3339_ok l h2 z.off hz.2 .autoSi true
    exact ⟨t, ht, by rw [w4, ht]; rfl⟩
  · intro o
    constructor
    · rw [w5, nd]; rfl
    · rw [w6, ns]
      show Format.wok (Text.naiveText 32 l ++ ([32] ++ o)) = _
      rfl

/-- non-vacuity, and the inputs of the fixed findings F04 / F06 (`MAX_UTC` seen at +01:00, `MIN_UTC` at
−01:00): `naive_local` panics, every writer shows the headroom reading; a leap second in the headroom
day; `Utc` -/
example :
    ZInv ⟨NaiveDT.MAX, 3600⟩ ∧ Zoned.naive_local ⟨NaiveDT.MAX, 3600⟩ = .panic ∧
    Rfc3339.to_rfc3339 ⟨NaiveDT.MAX, 3600⟩ = .ok (asciiBytes "+262143-01-01T00:59:59.999999999+01:00") ∧
    Rfc3339.to_rfc3339_opts ⟨NaiveDT.MIN, -3600⟩ .secs true = .ok (asciiBytes "-262144-12-31T23:00:00-01:00") ∧
    TextForms.fixed_debug ⟨NaiveDT.MAX, 3600⟩ = Format.wok (asciiBytes "+262143-01-01T00:59:59.999999999+01:00") ∧
    TextForms.fixed_display ⟨NaiveDT.MIN, -3600⟩ = Format.wok (asciiBytes "-262144-12-31 23:00:00 -01:00") ∧
    TextForms.fixed_display ⟨⟨Date.MAX, ⟨86399, 1500000000⟩⟩, 60⟩ =
      Format.wok (asciiBytes "+262143-01-01 00:00:60.500 +00:01") ∧
    Serde.DateTimeStr.serialize ⟨NaiveDT.MAX, 3600⟩ =
      Format.wok (asciiBytes "+262143-01-01T00:59:59.999999999+01:00") ∧
    Rfc2822.to_rfc2822 ⟨NaiveDT.MAX, 3600⟩ = .panic ∧
    Rfc2822.to_rfc2822 ⟨⟨dateOfYo 1970 1, ⟨0, 0⟩⟩, 3600⟩ = .ok (asciiBytes "Thu, 1 Jan 1970 01:00:00 +0100") ∧
    TextForms.utc_dt_debug ⟨dateOfYo 1970 1, ⟨1, 0⟩⟩ = Format.wok (asciiBytes "1970-01-01T00:00:01Z") := by
  decide +kernel

/-! ### The stepping failure set against an independent rule -/

/-- **day_stepping_vs_rule.**  For every count `0 < n ≤ u64::MAX`: `checked_add_days` /
`checked_sub_days` return a value exactly when BOTH the stepped instant (`instant ± n·86400 s`) lies in
`MIN_UTC ..= MAX_UTC` AND the stepped wall clock (`wall clock ± n·86400 s`) is a reading of the nominal
range — neither side mentions which one-sided filter the code applies.  (What a returned value is:
`stepping_spec`, `SteppedDays`.)  So, measured against the pure instant rule "exists iff the stepped
instant is in `MIN_UTC ..= MAX_UTC`", the exceptions are exactly the steps whose result would have its own
wall clock in a headroom day: `day_stepping_exceptions`, `day_stepping_instant_rule_partial`. -/
theorem day_stepping_vs_rule (z : Zoned) (hz : ZInv z) (n : Int) (hn1 : 0 < n)
    (hn2 : n ≤ 18446744073709551615) :
    (∃ r, Zoned.checked_add_days z n = .ok r ∧
      (r = none ↔ ¬ (InUtcRange (instSecs z.utc + n * 86400) z.utc.time.frac ∧
                     InRangeSecs (wallSecs z + n * 86400)))) ∧
    (∃ r, Zoned.checked_sub_days z n = .ok r ∧
      (r = none ↔ ¬ (InUtcRange (instSecs z.utc - n * 86400) z.utc.time.frac ∧
                     InRangeSecs (wallSecs z - n * 86400)))) := by
  obtain ⟨l, h1, _⟩ := naive_local_spec z hz
  obtain ⟨r, a, b, _⟩ := zoned_add_days z hz l h1 n ⟨hn1, hn2⟩
  obtain ⟨r', a', b', _⟩ := zoned_sub_days z hz l h1 n ⟨by omega, hn2⟩
  exact ⟨⟨r, a, by rw [b, ZNR.add_days_rule z hz l h1 n hn1]⟩,
         ⟨r', a', by rw [b', ZNR.sub_days_rule z hz l h1 n hn1]⟩⟩

/-- `Days(0)` returns the value itself in both directions — also from a headroom wall clock, and also
the one kind of well-formed value that compares greater than `MAX_UTC` (a leap-second representation in the
last second of the range) -/
theorem day_stepping_zero (z : Zoned) (hz : ZInv z) :
    Zoned.checked_add_days z 0 = .ok (some z) ∧ Zoned.checked_sub_days z 0 = .ok (some z) := by
  refine ⟨rfl, ?_⟩
  obtain ⟨l, h1, _⟩ := naive_local_spec z hz
  obtain ⟨_, _, _, _, _, _, hur⟩ := wall_date_cases z hz l h1
  obtain ⟨r, a, b, c⟩ := zoned_sub_days z hz l h1 0 ⟨by omega, by omega⟩
  rw [a]
  cases r with
  | none =>
    exfalso
    apply b.mp rfl
    exact ⟨Or.inl rfl, by unfold GeMinUtc; unfold InRangeSecs at hur; omega⟩
  | some z' =>
    obtain ⟨s1, s2, s3, s4, _⟩ := c z' rfl
    have ea : ExtNDTInv z'.utc := ⟨((dateInv_iff z'.utc.date).mp s2.1.1).1, s2.1.2⟩
    have eb : ExtNDTInv z.utc := ⟨((dateInv_iff z.utc.date).mp hz.1.1).1, hz.1.2⟩
    have hu : z'.utc = z.utc := ndt_unique _ _ ea eb (by rw [s3]; omega) s4
    cases z'; cases z; simp_all

/-- **the pure instant rule is false for day stepping** (real crate: same answers, see the harness counters
`EXCEPTION …` and audit/C04.md): the stepped instant is inside `MIN_UTC ..= MAX_UTC`, the stepped value
exists (it is `from_utc_datetime` of an in-range reading), yet the step is refused because the RESULT's
wall clock would lie in a headroom day.  Forwards: `MAX−1d 23:30Z` at +01:00 plus one day; backwards:
`MIN+2d 01:00Z` at −02:00 minus two days. -/
theorem day_stepping_exceptions :
    (ZInv ⟨⟨dateOfYo MAX_YEAR 364, ⟨84600, 0⟩⟩, 3600⟩ ∧
      InUtcRange (instSecs (⟨dateOfYo MAX_YEAR 364, ⟨84600, 0⟩⟩ : NaiveDT) + 1 * 86400) 0 ∧
      ZInv ⟨⟨dateOfYo MAX_YEAR 365, ⟨84600, 0⟩⟩, 3600⟩ ∧
      Zoned.checked_add_days ⟨⟨dateOfYo MAX_YEAR 364, ⟨84600, 0⟩⟩, 3600⟩ 1 = .ok none) ∧
    (ZInv ⟨⟨dateOfYo MIN_YEAR 3, ⟨3600, 0⟩⟩, -7200⟩ ∧
      InUtcRange (instSecs (⟨dateOfYo MIN_YEAR 3, ⟨3600, 0⟩⟩ : NaiveDT) - 2 * 86400) 0 ∧
      ZInv ⟨⟨dateOfYo MIN_YEAR 1, ⟨3600, 0⟩⟩, -7200⟩ ∧
      Zoned.checked_sub_days ⟨⟨dateOfYo MIN_YEAR 3, ⟨3600, 0⟩⟩, -7200⟩ 2 = .ok none) := by
  decide +kernel

/-- **day_stepping_instant_rule_partial** — the pure instant rule with the excluded inputs as an explicit
hypothesis (`hw`: the stepped wall clock is a reading of the nominal range; MISSING for the full rule: the
steps whose result would read a headroom day, on which `day_stepping_headroom_refused` says what happens) -/
theorem day_stepping_instant_rule_partial (z : Zoned) (hz : ZInv z) (n : Int) (hn1 : 0 < n)
    (hn2 : n ≤ 18446744073709551615) :
    (InRangeSecs (wallSecs z + n * 86400) →
      ∃ r, Zoned.checked_add_days z n = .ok r ∧
        (r = none ↔ ¬ InUtcRange (instSecs z.utc + n * 86400) z.utc.time.frac)) ∧
    (InRangeSecs (wallSecs z - n * 86400) →
      ∃ r, Zoned.checked_sub_days z n = .ok r ∧
        (r = none ↔ ¬ InUtcRange (instSecs z.utc - n * 86400) z.utc.time.frac)) := by
  obtain ⟨⟨r, a, b⟩, ⟨r', a', b'⟩⟩ := day_stepping_vs_rule z hz n hn1 hn2
  refine ⟨fun hw => ⟨r, a, ?_⟩, fun hw => ⟨r', a', ?_⟩⟩
  · rw [b]; constructor
    · intro h hc; exact h ⟨hc, hw⟩
    · intro h hc; exact h hc.1
  · rw [b']; constructor
    · intro h hc; exact h ⟨hc, hw⟩
    · intro h hc; exact h hc.1

/-- what happens on the excluded inputs, universally: a day step whose result would read a headroom day is
refused (`None`, no panic), whatever its instant; and such a step with the instant inside
`MIN_UTC ..= MAX_UTC` exists only within a day of a range end with the offset pointing outwards
(forwards: offset > 0, stepped wall clock in the day after MAX; backwards: offset < 0, the day before MIN) -/
theorem day_stepping_headroom_refused (z : Zoned) (hz : ZInv z) (n : Int) (hn1 : 0 < n)
    (hn2 : n ≤ 18446744073709551615) :
    (¬ InRangeSecs (wallSecs z + n * 86400) → Zoned.checked_add_days z n = .ok none ∧
      (InUtcRange (instSecs z.utc + n * 86400) z.utc.time.frac →
        0 < z.off ∧ SECS_MAX < wallSecs z + n * 86400 ∧ wallSecs z + n * 86400 ≤ SECS_MAX + 86399)) ∧
    (¬ InRangeSecs (wallSecs z - n * 86400) → Zoned.checked_sub_days z n = .ok none ∧
      (InUtcRange (instSecs z.utc - n * 86400) z.utc.time.frac →
        z.off < 0 ∧ wallSecs z - n * 86400 < SECS_MIN ∧ SECS_MIN - 86399 ≤ wallSecs z - n * 86400)) := by
  obtain ⟨⟨r, a, b⟩, ⟨r', a', b'⟩⟩ := day_stepping_vs_rule z hz n hn1 hn2
  have hoff := hz.2
  unfold OffValid at hoff
  obtain ⟨l, h1, _⟩ := naive_local_spec z hz
  obtain ⟨_, _, _, _, _, _, hur⟩ := wall_date_cases z hz l h1
  refine ⟨fun hw => ⟨?_, fun hi => ?_⟩, fun hw => ⟨?_, fun hi => ?_⟩⟩
  · rw [a, b.mpr (fun hc => hw hc.2)]
  · have := ZNR.exception_shape (instSecs z.utc + n * 86400) z.off z.utc.time.frac hoff hi
      (by unfold wallSecs at hw; rw [show instSecs z.utc + n * 86400 + z.off = instSecs z.utc + z.off + n * 86400 by omega]; exact hw)
    unfold wallSecs InRangeSecs at *
    have hi' := hi.1
    omega
  · rw [a', b'.mpr (fun hc => hw hc.2)]
  · have := ZNR.exception_shape (instSecs z.utc - n * 86400) z.off z.utc.time.frac hoff hi
      (by unfold wallSecs at hw; rw [show instSecs z.utc - n * 86400 + z.off = instSecs z.utc + z.off - n * 86400 by omega]; exact hw)
    unfold wallSecs InRangeSecs at *
    have hi' := hi.1
    omega

/-- **month_stepping_vs_rule.**  For every count `k > 0` (all of `u32` and beyond), with `l` the wall clock
of `z` and `(Y, M, D)` its calendar date stepped by `±k` months with the day clamped (C08 `stepYear`,
`stepMonth`, `stepDay`): there is a result exactly when the stepped wall-clock year `Y` is a year of the
nominal range AND the stepped instant `(Y-M-D, time of l) − offset` is in `MIN_UTC ..= MAX_UTC` — or is the
one reading just above it, a leap-second representation in the last second of the range (the month
steppers apply no `≤ MAX_UTC` filter; `month_stepping_exceptions`). -/
theorem month_stepping_vs_rule (z : Zoned) (hz : ZInv z) (k : Nat) (hk : 0 < k) :
    ∃ l, Zoned.overflowing_naive_local z = .ok l ∧ ExtNDTInv l ∧ instSecs l = wallSecs z ∧
      ∀ (add : Bool),
        let n : Int := if add then (k : Int) else -(k : Int)
        let y := l.date.year
        let m := monthOfYo l.date.year l.date.ordinal.toNat
        let d := dayOfYo l.date.year l.date.ordinal.toNat
        ∃ r, (if add then Zoned.checked_add_months z k else Zoned.checked_sub_months z k) = .ok r ∧
          (r = none ↔
            ((stepYear y m n < MIN_YEAR ∨ stepYear y m n > MAX_YEAR) ∨
             ∃ nd, addMonths? y m d n = some nd ∧
               ¬ (InUtcRange (instSecs ⟨nd, l.time⟩ - z.off) l.time.frac ∨
                  (instSecs ⟨nd, l.time⟩ - z.off = SECS_MAX ∧ l.time.frac ≥ 1000000000)))) := by
  obtain ⟨l, h1, h2, h3, _⟩ := naive_local_spec z hz
  refine ⟨l, h1, h2, h3, ?_⟩
  obtain ⟨el, vl⟩ := ext_eq l.date h2.1
  obtain ⟨_, _, m3, _⟩ := month_day_spec l.date.year l.date.ordinal.toNat vl.2.2.1 vl.2.2.2
  have hd1 := ((valid_iff _ _ _).mp m3).2.2.1
  obtain ⟨⟨ra, a1, _, a3⟩, ⟨rs, s1, _, s3⟩⟩ := zoned_months z hz l h1 k
  intro add
  cases add with
  | true =>
    dsimp only
    refine ⟨ra, by simpa using a1, ?_⟩
    have hrule := (a3 hk).2
    rw [hrule, ← addMonths_none_iff _ _ _ _ hd1]
    simp only [if_true]
    constructor
    · rintro (h | ⟨nl, h, hn⟩)
      · left; simpa using h
      · right
        cases hq : addMonths? l.date.year (monthOfYo l.date.year l.date.ordinal.toNat)
            (dayOfYo l.date.year l.date.ordinal.toNat) (k : Int) with
        | none => rw [hq] at h; cases h
        | some nd =>
          rw [hq] at h
          have : nl = ⟨nd, l.time⟩ := by simpa using h.symm
          subst this
          exact ⟨nd, rfl, by rw [← ZNR.inrange_vs_utc]; exact hn⟩
    · rintro (h | ⟨nd, h, hn⟩)
      · left; simpa using h
      · right
        refine ⟨⟨nd, l.time⟩, by rw [h]; rfl, ?_⟩
        rw [ZNR.inrange_vs_utc _ l.time.frac]; exact hn
  | false =>
    dsimp only
    refine ⟨rs, by simpa using s1, ?_⟩
    have hrule := (s3 hk).2
    rw [hrule, ← addMonths_none_iff _ _ _ _ hd1]
    simp only [Bool.false_eq_true, if_false]
    constructor
    · rintro (h | ⟨nl, h, hn⟩)
      · left; simpa using h
      · right
        cases hq : addMonths? l.date.year (monthOfYo l.date.year l.date.ordinal.toNat)
            (dayOfYo l.date.year l.date.ordinal.toNat) (-(k : Int)) with
        | none => rw [hq] at h; cases h
        | some nd =>
          rw [hq] at h
          have : nl = ⟨nd, l.time⟩ := by simpa using h.symm
          subst this
          exact ⟨nd, rfl, by rw [← ZNR.inrange_vs_utc]; exact hn⟩
    · rintro (h | ⟨nd, h, hn⟩)
      · left; simpa using h
      · right
        refine ⟨⟨nd, l.time⟩, by rw [h]; rfl, ?_⟩
        rw [ZNR.inrange_vs_utc _ l.time.frac]; exact hn

/-- **the exceptions of month stepping against the pure instant rule** (real crate: same answers):
(a) a result ABOVE `MAX_UTC` is returned — `MAX_YEAR-10-31T23:59:60.5Z` plus two months is
`MAX_YEAR-12-31T23:59:60.5Z`, which compares greater than `MAX_UTC` (`checked_add_days` filters exactly this
value: second line); (b) a step whose result would read a headroom day is refused although its instant is
in range — `MIN_YEAR-02-01T01:00Z` at −02:00 (wall clock Jan 31 23:00) minus one month, and
`MAX_YEAR-11-30T23:30Z` at +01:00 (wall clock Dec 1 00:30) plus one month. -/
theorem month_stepping_exceptions :
    (Zoned.checked_add_months ⟨⟨dateOfYo MAX_YEAR 304, ⟨86399, 1500000000⟩⟩, 0⟩ 2 =
        .ok (some ⟨⟨Date.MAX, ⟨86399, 1500000000⟩⟩, 0⟩) ∧
      ¬ InUtcRange (instSecs (⟨Date.MAX, ⟨86399, 1500000000⟩⟩ : NaiveDT)) 1500000000 ∧
      Zoned.checked_add_days ⟨⟨dateOfYo MAX_YEAR 364, ⟨86399, 1500000000⟩⟩, 0⟩ 1 = .ok none) ∧
    (Zoned.checked_sub_months ⟨⟨dateOfYo MIN_YEAR 32, ⟨3600, 0⟩⟩, -7200⟩ 1 = .ok none ∧
      InUtcRange (instSecs (⟨dateOfYo MIN_YEAR 1, ⟨3600, 0⟩⟩ : NaiveDT)) 0 ∧
      Zoned.overflowing_naive_local ⟨⟨dateOfYo MIN_YEAR 1, ⟨3600, 0⟩⟩, -7200⟩ = .ok ⟨Date.BEFORE_MIN, ⟨82800, 0⟩⟩) ∧
    (Zoned.checked_add_months ⟨⟨dateOfYo MAX_YEAR 334, ⟨84600, 0⟩⟩, 3600⟩ 1 = .ok none ∧
      InUtcRange (instSecs (⟨dateOfYo MAX_YEAR 365, ⟨84600, 0⟩⟩ : NaiveDT)) 0 ∧
      Zoned.overflowing_naive_local ⟨⟨dateOfYo MAX_YEAR 365, ⟨84600, 0⟩⟩, 3600⟩ = .ok ⟨Date.AFTER_MAX, ⟨1800, 0⟩⟩) := by
  decide +kernel

/-- **month_stepping_instant_rule_partial** — the pure instant rule for month steps on the inputs that
are not excluded (`hy`: the stepped wall-clock year is a year of the nominal range; `hleap`: the value is
not a leap-second representation — MISSING: those two classes, see `month_stepping_exceptions`) -/
theorem month_stepping_instant_rule_partial (z : Zoned) (hz : ZInv z) (k : Nat) (hk : 0 < k)
    (hleap : z.utc.time.frac < 1000000000) :
    ∃ l, Zoned.overflowing_naive_local z = .ok l ∧
      ∀ (add : Bool),
        let n : Int := if add then (k : Int) else -(k : Int)
        let y := l.date.year
        let m := monthOfYo l.date.year l.date.ordinal.toNat
        let d := dayOfYo l.date.year l.date.ordinal.toNat
        (MIN_YEAR ≤ stepYear y m n ∧ stepYear y m n ≤ MAX_YEAR) →
        ∃ r nd, (if add then Zoned.checked_add_months z k else Zoned.checked_sub_months z k) = .ok r ∧
          addMonths? y m d n = some nd ∧
          (r = none ↔ ¬ InUtcRange (instSecs ⟨nd, l.time⟩ - z.off) l.time.frac) := by
  obtain ⟨l, h1, h2, h3, hrule⟩ := month_stepping_vs_rule z hz k hk
  have hfr' : l.time.frac = z.utc.time.frac := by
    obtain ⟨l', a, _, _, d, _⟩ := naive_local_spec z hz
    rw [h1] at a; injection a with a; subst a; exact d
  refine ⟨l, h1, ?_⟩
  intro add
  obtain ⟨r, hr, hiff⟩ := hrule add
  dsimp only at hr hiff ⊢
  intro hy
  obtain ⟨el, vl⟩ := ext_eq l.date h2.1
  obtain ⟨_, _, m3, _⟩ := month_day_spec l.date.year l.date.ordinal.toNat vl.2.2.1 vl.2.2.2
  have hd1 := ((valid_iff _ _ _).mp m3).2.2.1
  cases hq : addMonths? l.date.year (monthOfYo l.date.year l.date.ordinal.toNat)
      (dayOfYo l.date.year l.date.ordinal.toNat) (if add = true then (k : Int) else -(k : Int)) with
  | none =>
    exfalso
    have := (addMonths_none_iff _ _ _ _ hd1).mp hq
    omega
  | some nd =>
    refine ⟨r, nd, hr, rfl, ?_⟩
    rw [hiff]
    constructor
    · rintro (h | ⟨nd', h, hn⟩)
      · omega
      · rw [hq] at h; injection h with h; subst h
        intro hc; exact hn (Or.inl hc)
    · intro h
      right
      refine ⟨nd, hq, ?_⟩
      rintro (hc | hc)
      · exact h hc
      · omega

/-! ### ISO week and the derived accessors -/

/-- **iso_week_reads_wall_clock.**  `iso_week()` of a zone-aware value never panics and is the ISO 8601
week of the wall-clock day `n = EPOCH_DAY + ⌊(instant + offset)/86400⌋`, also in a headroom day: the
Thursday `isoThursday n` of `n`'s Monday-based week is the `ot`-th day of calendar year `Y` (that pair is
unique: C01 `yo_form_unique`); the ISO year is `Y`, the week number `(ot − 1)/7 + 1`, the 0-based week
`(ot − 1)/7`, and the low four bits are the flags of `Y`.  (`Y` can be `MAX_YEAR + 1`: the day after MAX
is a Tuesday in week 1 of the following year; the day before MIN is a Wednesday in week 1 of `MIN_YEAR`.) -/
theorem iso_week_reads_wall_clock (z : Zoned) (hz : ZInv z) :
    ∃ (ywf Y : Int) (ot : Nat), Zoned.iso_week z = .ok ywf ∧ 1 ≤ ot ∧ ot ≤ yearLen Y ∧
      dayNumYo Y ot = isoThursday (EPOCH_DAY + wallSecs z / 86400) ∧
      IsoWeek.year ywf = Y ∧ IsoWeek.week ywf = ((ot - 1) / 7 + 1 : Nat) ∧
      IsoWeek.week0 ywf = ((ot - 1) / 7 : Nat) ∧ ywf % 16 = flagsOf Y := by
  obtain ⟨l, h1, h2, h3, _⟩ := naive_local_spec z hz
  obtain ⟨_, _, _, hho, _⟩ := wall_date_cases z hz l h1
  obtain ⟨Y, ot, i1, i2, i3, i4⟩ := ZNV.iso_week_wall l.date hho
  have ht := h2.2
  unfold TValid at ht
  have hday : dayNumOf l.date = EPOCH_DAY + wallSecs z / 86400 := by
    have hdef : instSecs l = (dayNumOf l.date - EPOCH_DAY) * 86400 + l.time.secs := rfl
    rw [← h3, hdef]; omega
  have hl := yearLen_ge Y
  have hf := (flagsOf_facts Y).1
  obtain ⟨f1, f2⟩ := ywf_fields Y ((ot - 1) / 7 + 1) (flagsOf Y) (by omega) hf
  refine ⟨_, Y, ot, ?_, i1, i2, by rw [← hday]; exact i3, f1, f2, ?_, by omega⟩
  · unfold Zoned.iso_week; rw [h1]; exact i4
  · unfold IsoWeek.week0; unfold IsoWeek.week at f2; rw [f2]; push_cast; omega

/-- non-vacuity: the two headroom days and a year-end inside the range (2014-12-29 is in 2015-W01) -/
example :
    Zoned.iso_week ⟨NaiveDT.MIN, -3600⟩ = .ok (MIN_YEAR * 1024 + 1 * 16 + flagsOf MIN_YEAR) ∧
    Zoned.iso_week ⟨NaiveDT.MAX, 1⟩ = .ok ((MAX_YEAR + 1) * 1024 + 1 * 16 + flagsOf (MAX_YEAR + 1)) ∧
    Zoned.iso_week ⟨⟨dateOfYo 2014 362, ⟨82800, 0⟩⟩, 3600⟩ = .ok (2015 * 1024 + 1 * 16 + flagsOf 2015) ∧
    Zoned.iso_week ⟨⟨dateOfYo 2014 362, ⟨82800, 0⟩⟩, 0⟩ = .ok (2014 * 1024 + 52 * 16 + flagsOf 2014) := by
  decide +kernel

/-- **derived_accessors_read_wall_clock.**  The remaining `Datelike` / `Timelike` views of a zone-aware
value are those of the wall clock too, also in a headroom day and without `u32` / `i32` overflow: with
`(y, o)` the year and ordinal of `accessors_read_wall_clock` and `s` the wall-clock second of day,
`month0 / day0 / ordinal0` are the 1-based fields minus one, `quarter` is `(month − 1)/3 + 1`, `year_ce`
is `(false, 1 − y)` before year 1 and `(true, y)` from year 1, `hour12` is `(hour ≥ 12, 12-hour clock)`,
and the `Timelike` default `num_seconds_from_midnight` (hour·3600 + minute·60 + second) is `s`. -/
theorem derived_accessors_read_wall_clock (z : Zoned) (hz : ZInv z) :
    ∃ (y : Int) (o : Nat), MIN_YEAR - 1 ≤ y ∧ y ≤ MAX_YEAR + 1 ∧ 1 ≤ o ∧ o ≤ yearLen y ∧
      dayNumYo y o = EPOCH_DAY + wallSecs z / 86400 ∧
      Zoned.month0 z = .ok ((monthOfYo y o : Int) - 1) ∧ Zoned.day0 z = .ok ((dayOfYo y o : Int) - 1) ∧
      Zoned.ordinal0 z = .ok ((o : Int) - 1) ∧
      Zoned.quarter_v z = .ok (((monthOfYo y o : Int) - 1) / 3 + 1) ∧
      Zoned.year_ce_v z = .ok (if y < 1 then (false, 1 - y) else (true, y)) ∧
      Zoned.hour12 z = .ok (decide (wallSecs z % 86400 / 3600 ≥ 12),
        if wallSecs z % 86400 / 3600 % 12 = 0 then 12 else wallSecs z % 86400 / 3600 % 12) ∧
      Zoned.num_seconds_from_midnight z = .ok (wallSecs z % 86400) := by
  obtain ⟨l, h1, h2, h3, _⟩ := naive_local_spec z hz
  obtain ⟨e, v1, v2, v3, v4⟩ := ext_eq l.date h2.1
  have hyl := yearLen_ge l.date.year
  have hsecs := instSecs_ext l h2.1
  rw [h3] at hsecs
  have ht := h2.2
  unfold TValid at ht
  have hday : dayNumYo l.date.year l.date.ordinal.toNat = EPOCH_DAY + wallSecs z / 86400 := by omega
  have hsod : l.time.secs = wallSecs z % 86400 := by omega
  obtain ⟨m1, m2, m3, _⟩ := month_day_spec l.date.year l.date.ordinal.toNat v3 v4
  rw [← e] at m1 m2
  obtain ⟨b1, b2, b3, b4⟩ := (valid_iff _ _ _).mp m3
  have hml : monthLen l.date.year (monthOfYo l.date.year l.date.ordinal.toNat) ≤ 31 := by
    unfold monthLen; split <;> (try split) <;> omega
  obtain ⟨a1, a2, a3, _, c1, c2, c3, c4, c5, c6, c7, _⟩ := accessors' l.time h2.2
  have hMIN : MIN_YEAR = -262143 := rfl
  have hMAX : MAX_YEAR = 262142 := rfl
  have hord : l.date.ordinal = (l.date.ordinal.toNat : Int) := by
    rw [Int.toNat_of_nonneg (by have := h2.1.2.2.1; omega)]
  obtain ⟨d1, d2, d3, d4, d5, d6, d7⟩ := ZNV.derived_views z l h1 l.date.year _ _ l.date.ordinal
    (hourOf l.time) (minuteOf l.time) (secondOf l.time) rfl m1 m2 rfl a1 a2 a3
    (by omega) ⟨b1, b2⟩ ⟨b3, by omega⟩ (by rw [hord]; omega) ⟨c1, c2⟩ ⟨c3, c4⟩ ⟨c5, c6⟩
  have hh : hourOf l.time = wallSecs z % 86400 / 3600 := by unfold hourOf; rw [hsod]
  refine ⟨l.date.year, l.date.ordinal.toNat, v1, v2, v3, v4, hday, d1, d2, ?_, d4, d5, ?_, ?_⟩
  · rw [d3, hord]; simp
  · rw [d6, hh]
  · rw [d7, c7, hsod]

/-- non-vacuity on the headroom readings: Dec 31 of year −262144 (year_ce: 262145 BCE), 23:00 -/
example :
    Zoned.month0 ⟨NaiveDT.MIN, -3600⟩ = .ok 11 ∧ Zoned.day0 ⟨NaiveDT.MIN, -3600⟩ = .ok 30 ∧
    Zoned.ordinal0 ⟨NaiveDT.MIN, -3600⟩ = .ok 365 ∧ Zoned.quarter_v ⟨NaiveDT.MIN, -3600⟩ = .ok 4 ∧
    Zoned.year_ce_v ⟨NaiveDT.MIN, -3600⟩ = .ok (false, 262145) ∧
    Zoned.year_ce_v ⟨NaiveDT.MAX, 3600⟩ = .ok (true, 262143) ∧
    Zoned.hour12 ⟨NaiveDT.MIN, -3600⟩ = .ok (true, 11) ∧ Zoned.hour12 ⟨NaiveDT.MAX, 3600⟩ = .ok (false, 12) ∧
    Zoned.num_seconds_from_midnight ⟨NaiveDT.MIN, -3600⟩ = .ok 82800 := by decide +kernel

/-! ### Changing the zone: the views of the result -/

/-- **zone_change_views** — what `with_timezone_keeps_instant` leaves definitional, given content.  For a
well-formed `z` and any offset `o'` a `FixedOffset` can hold: `with_timezone z o'` (=
`from_naive_utc_and_offset` / `from_utc_datetime` of the stored UTC reading) is well formed and its wall
clock is THE reading of `instant + o'` — the old wall clock moved by `o' − offset` seconds — in the
extended calendar; chains collapse (`with_timezone` twice = once, so a round trip through any zone gives
the value back); `to_utc` is the view whose wall clock is the UTC reading itself (`naive_local` returns
it, never panics) and `fixed_offset` is the identity; whenever the new wall clock is in range, building
from it at `o'` returns the converted value. -/
theorem zone_change_views (z : Zoned) (hz : ZInv z) (o' : Int) (ho : OffValid o') :
    ZInv (Zoned.with_timezone z o') ∧
    Zoned.with_timezone z o' = Zoned.from_naive_utc_and_offset z.naive_utc o' ∧
    Zoned.with_timezone z o' = Zoned.from_utc_datetime o' z.naive_utc ∧
    (∃ l', Zoned.overflowing_naive_local (Zoned.with_timezone z o') = .ok l' ∧ ExtNDTInv l' ∧
      instSecs l' = wallSecs z + (o' - z.off) ∧ l'.time.frac = z.utc.time.frac ∧
      (∀ l, Zoned.naive_local (Zoned.with_timezone z o') = .ok l →
        Zoned.from_local_datetime o' l = .ok (some (Zoned.with_timezone z o')))) ∧
    (∀ o'', Zoned.with_timezone (Zoned.with_timezone z o') o'' = Zoned.with_timezone z o'') ∧
    Zoned.with_timezone (Zoned.with_timezone z o') z.off = z ∧
    Zoned.to_utc z = Zoned.with_timezone z 0 ∧ ZInv (Zoned.to_utc z) ∧
    Zoned.naive_local (Zoned.to_utc z) = .ok z.utc ∧
    Zoned.overflowing_naive_local (Zoned.to_utc z) = .ok z.utc ∧
    Zoned.fixed_offset z = z ∧ Zoned.eq (Zoned.to_utc z) z = true := by
  have hzi : ZInv (Zoned.with_timezone z o') := ⟨hz.1, ho⟩
  have h0 : OffValid 0 := by unfold OffValid; omega
  have hzu : ZInv (Zoned.to_utc z) := ⟨hz.1, h0⟩
  have hext : ExtNDTInv z.utc := ⟨((dateInv_iff z.utc.date).mp hz.1.1).1, hz.1.2⟩
  have hov : Zoned.overflowing_naive_local (Zoned.to_utc z) = .ok z.utc :=
    local_back (Zoned.to_utc z) hzu z.utc hext (by show instSecs z.utc = instSecs z.utc - 0; omega) rfl
  obtain ⟨l', a1, a2, a3, a4, _, _⟩ := naive_local_spec _ hzi
  obtain ⟨lu, u1, _, _, _, u5, u6⟩ := naive_local_spec _ hzu
  rw [hov] at u1; injection u1 with u1; subst u1
  refine ⟨hzi, rfl, rfl, ⟨l', a1, a2, ?_, a4, ?_⟩, fun _ => rfl, by cases z; rfl, rfl, hzu, ?_, hov,
    by cases z; rfl, by unfold Zoned.eq Zoned.to_utc; simp⟩
  · rw [a3]; unfold wallSecs Zoned.with_timezone; dsimp only; omega
  · exact (utc_of_fromUtc o' z.utc ho hz.1).2.2
  · rw [u5, if_pos (u6.mp hz.1.1)]

/-- non-vacuity: `MAX_UTC` moved from +01:00 (headroom wall clock) to −01:00 (in range) and to UTC -/
example :
    ZInv ⟨NaiveDT.MAX, 3600⟩ ∧ OffValid (-3600) ∧
    Zoned.overflowing_naive_local (Zoned.with_timezone ⟨NaiveDT.MAX, 3600⟩ (-3600)) =
      .ok ⟨Date.MAX, ⟨82799, 999999999⟩⟩ ∧
    Zoned.naive_local ⟨NaiveDT.MAX, 3600⟩ = .panic ∧
    Zoned.naive_local (Zoned.to_utc ⟨NaiveDT.MAX, 3600⟩) = .ok NaiveDT.MAX ∧
    Zoned.from_local_datetime (-3600) ⟨Date.MAX, ⟨82799, 999999999⟩⟩ = .ok (some ⟨NaiveDT.MAX, -3600⟩) := by
  decide +kernel

/-! ## Second audit (2026-09-30) -/

/-! ### The shape of the types eq / ord / hash rest on (source facts no body pin sees) -/

/-- **shape_pins.**  Re-extracted from /repo on every run (tools/extractors/zoned_shape.py): `NaiveDateTime`,
`NaiveDate`, `NaiveTime` DERIVE `PartialEq, Eq, Hash, PartialOrd, Ord` (no hand-written impl of any of them in
their files), with the fields `date, time` / `yof` / `secs, frac` in this order — what `NaiveDT.cmp` (date, then
time), `Time.cmp` (secs, then frac) and `NaiveDT.hashWords` (`[yof, secs, frac]`) were written from; `DateTime`
derives none of them and implements all five by hand (the pinned `impl PartialEq / PartialOrd / Ord / Hash for
DateTime` bodies, which look at `self.datetime` only), its fields are `datetime` (the UTC reading), `offset`. -/
theorem shape_pins :
    ZonedShape.NaiveDateTime_DERIVE = ["PartialEq", "Eq", "Hash", "PartialOrd", "Ord", "Copy", "Clone"] ∧
    ZonedShape.NaiveDateTime_FIELDS = [("date", "NaiveDate"), ("time", "NaiveTime")] ∧
    ZonedShape.NaiveDateTime_IMPLS = [] ∧
    ZonedShape.NaiveDate_DERIVE = ["PartialEq", "Eq", "Hash", "PartialOrd", "Ord", "Copy", "Clone"] ∧
    ZonedShape.NaiveDate_FIELDS = [("yof", "NonZeroI32")] ∧ ZonedShape.NaiveDate_IMPLS = [] ∧
    ZonedShape.NaiveTime_DERIVE = ["PartialEq", "Eq", "Hash", "PartialOrd", "Ord", "Copy", "Clone"] ∧
    ZonedShape.NaiveTime_FIELDS = [("secs", "u32"), ("frac", "u32")] ∧ ZonedShape.NaiveTime_IMPLS = [] ∧
    ZonedShape.DateTime_DERIVE = ["Clone"] ∧
    ZonedShape.DateTime_FIELDS = [("datetime", "NaiveDateTime"), ("offset", "Tz::Offset")] ∧
    ZonedShape.DateTime_IMPLS = ["PartialEq", "Eq", "PartialOrd", "Ord", "Hash"] := by decide

/-- the model side of `shape_pins`: the derived order is lexicographic in declaration order — a difference in
the date decides whatever the times are, then the second, then the nanosecond field; the hash words are the
three fields in declaration order -/
theorem derived_order_shape (a b : NaiveDT) :
    (Date.cmp a.date b.date ≠ 0 → NaiveDT.cmp a b = Date.cmp a.date b.date) ∧
    (Date.cmp a.date b.date = 0 → NaiveDT.cmp a b = Time.cmp a.time b.time) ∧
    NaiveDT.hashWords a = [a.date.yof, a.time.secs, a.time.frac] := by
  refine ⟨?_, ?_, rfl⟩
  · intro h; unfold NaiveDT.cmp; simp only [h, ne_eq, not_false_eq_true, if_true]
  · intro h; unfold NaiveDT.cmp; simp only [h, ne_eq, not_true_eq_false, if_false]

example : NaiveDT.cmp ⟨dateOfYo 2024 59, ⟨86399, 1999999999⟩⟩ ⟨dateOfYo 2024 60, ⟨0, 0⟩⟩ = -1 ∧
    NaiveDT.cmp ⟨dateOfYo 2024 60, ⟨5, 999999999⟩⟩ ⟨dateOfYo 2024 60, ⟨6, 0⟩⟩ = -1 ∧
    NaiveDT.cmp ⟨dateOfYo 2024 60, ⟨5, 1⟩⟩ ⟨dateOfYo 2024 60, ⟨5, 0⟩⟩ = 1 := by decide +kernel

/-- **eq_hash_by_instant** (the observable form of "offsets do not enter"): two well-formed values — whatever
their offsets — that denote the same instant (same nanosecond count) with the same nanosecond field are equal,
compare `Equal` and hash the same words. -/
theorem eq_hash_by_instant (a b : Zoned) (ha : ZInv a) (hb : ZInv b)
    (hi : instSecs a.utc = instSecs b.utc) (hf : a.utc.time.frac = b.utc.time.frac) :
    Zoned.eq a b = true ∧ Zoned.cmp a b = 0 ∧ Zoned.hashWords a = Zoned.hashWords b := by
  obtain ⟨_, _, h3, h4, h5⟩ := cmp_by_instant a b ha hb
  have he : Zoned.eq a b = true := h3.mpr ⟨hi, hf⟩
  exact ⟨he, h4.mp he, h5.mpr he⟩

example : ZInv ⟨⟨dateOfYo 2024 60, ⟨0, 7⟩⟩, 3600⟩ ∧ ZInv ⟨⟨dateOfYo 2024 60, ⟨0, 7⟩⟩, -7200⟩ := by decide +kernel

/-! ### `date_naive()` / deprecated `date()` -/

/-- **date_naive_spec.**  `date_naive()` (and the deprecated `date()`, which also carries the offset) returns the
DATE of the wall clock — the date whose day number is that of `instant + offset` — when that date lies in the
supported range, and PANICS exactly when the wall clock lies in a headroom day (it is the one remaining public
caller of the panicking `naive_local()`; the non-panicking accessors of `accessors_read_wall_clock` read the same
date). -/
theorem date_naive_spec (z : Zoned) (hz : ZInv z) :
    ∃ l, Zoned.overflowing_naive_local z = .ok l ∧ ExtNDTInv l ∧ instSecs l = wallSecs z ∧
      Zoned.date_naive z = (if InRangeSecs (wallSecs z) then .ok l.date else .panic) ∧
      Zoned.date_deprecated z = (if InRangeSecs (wallSecs z) then .ok (l.date, z.off) else .panic) ∧
      (DateInv l.date ↔ InRangeSecs (wallSecs z)) ∧
      l.date = dateOfYo l.date.year l.date.ordinal.toNat ∧
      dayNumYo l.date.year l.date.ordinal.toNat = EPOCH_DAY + wallSecs z / 86400 := by
  obtain ⟨l, h1, h2, h3, _, h5, h6⟩ := naive_local_spec z hz
  obtain ⟨e, _, _, _, _⟩ := ext_eq l.date h2.1
  obtain ⟨t1, t2, _, _⟩ := h2.2
  have hsecs := instSecs_ext l h2.1
  rw [h3] at hsecs
  refine ⟨l, h1, h2, h3, ?_, ?_, h6, e, by omega⟩
  · unfold Zoned.date_naive; rw [h5]
    by_cases hin : InRangeSecs (wallSecs z)
    · rw [if_pos hin, if_pos hin]; rfl
    · rw [if_neg hin, if_neg hin]; rfl
  · unfold Zoned.date_deprecated; rw [h5]
    by_cases hin : InRangeSecs (wallSecs z)
    · rw [if_pos hin, if_pos hin]; rfl
    · rw [if_neg hin, if_neg hin]; rfl

/-- non-vacuity: 23:30Z on 2024-02-28 at +01:00 is the 29th; `MIN_UTC` at −01:00 and `MAX_UTC` at +00:00:01 panic,
`MAX_UTC` at offset 0 does not -/
example :
    Zoned.date_naive ⟨⟨dateOfYo 2024 59, ⟨84600, 0⟩⟩, 3600⟩ = .ok (dateOfYo 2024 60) ∧
    Zoned.date_naive ⟨NaiveDT.MIN, -3600⟩ = .panic ∧ Zoned.date_naive ⟨NaiveDT.MAX, 1⟩ = .panic ∧
    Zoned.date_deprecated ⟨NaiveDT.MAX, 1⟩ = .panic ∧
    Zoned.date_naive ⟨NaiveDT.MAX, 0⟩ = .ok Date.MAX ∧ Zoned.date_deprecated ⟨NaiveDT.MIN, 60⟩ = .ok (Date.MIN, 60) := by
  decide +kernel

/-! ### Conversions between `DateTime<Utc>` and `DateTime<FixedOffset>`, `and_utc`, `from_utc` -/

/-- **conversions_spec.**  `From<DateTime<Utc>> for DateTime<FixedOffset>` (never panics: `east_opt(0)` exists),
`From<DateTime<FixedOffset>> for DateTime<Utc>`, `NaiveDateTime::and_utc()` and the deprecated
`DateTime::from_utc(naive, offset)`: each keeps the stored UTC reading — hence the instant —, the results at offset
0 are well formed, equal to the original, hash the same, and their wall clock IS the UTC reading (`naive_local`
returns it and never panics); `from_utc` is `from_utc_datetime`. -/
theorem conversions_spec (z : Zoned) (hz : ZInv z) :
    Zoned.fixed_from_utc (Zoned.to_utc z) = .ok ⟨z.utc, 0⟩ ∧
    Zoned.utc_from_fixed z = ⟨z.utc, 0⟩ ∧ Zoned.and_utc z.utc = ⟨z.utc, 0⟩ ∧
    ZInv (Zoned.utc_from_fixed z) ∧ zonedInstNs (Zoned.utc_from_fixed z) = zonedInstNs z ∧
    Zoned.eq (Zoned.utc_from_fixed z) z = true ∧ Zoned.cmp (Zoned.utc_from_fixed z) z = 0 ∧
    Zoned.hashWords (Zoned.utc_from_fixed z) = Zoned.hashWords z ∧
    Zoned.overflowing_naive_local (Zoned.and_utc z.utc) = .ok z.utc ∧
    Zoned.naive_local (Zoned.and_utc z.utc) = .ok z.utc ∧
    (∀ off, Zoned.from_utc_deprecated z.utc off = Zoned.from_utc_datetime off z.utc ∧
      (Zoned.from_utc_deprecated z.utc off).naive_utc = z.utc) := by
  obtain ⟨_, _, _, _, _, _, _, c8, c9, c10, _, c12⟩ := zone_change_views z hz 0 (by unfold OffValid; omega)
  obtain ⟨_, _, _, _, w5, w6, w7, _, _⟩ := with_timezone_keeps_instant z 0
  exact ⟨rfl, rfl, rfl, c8, rfl, w5, w6, w7, c10, c9, fun _ => ⟨rfl, rfl⟩⟩

example : ZInv ⟨NaiveDT.MAX, 3600⟩ ∧ Zoned.naive_local ⟨NaiveDT.MAX, 3600⟩ = .panic ∧
    Zoned.naive_local (Zoned.utc_from_fixed ⟨NaiveDT.MAX, 3600⟩) = .ok NaiveDT.MAX ∧
    Zoned.fixed_from_utc ⟨NaiveDT.MIN, 0⟩ = .ok ⟨NaiveDT.MIN, 0⟩ := by decide +kernel

/-! ### Building from a wall clock: `and_local_timezone`, deprecated (panicking) `DateTime::from_local` -/

/-- **from_local_forms.**  `NaiveDateTime::and_local_timezone(offset)` is `from_local_datetime` (so
`fromLocal_fails_iff` / `local_of_fromLocal` speak about it).  The deprecated `DateTime::from_local(wall clock,
offset)` (`datetime - offset.fix()`, an `expect`) PANICS exactly when `wall clock − offset` leaves the supported
range, and otherwise returns exactly the value `from_local_datetime` returns — offset kept, well formed, instant
`wall clock − offset`, `naive_local` reads the wall clock back. -/
theorem from_local_forms (off : Int) (ℓ : NaiveDT) (ho : OffValid off) (hℓ : NDTInv ℓ) :
    Zoned.and_local_timezone ℓ off = Zoned.from_local_datetime off ℓ ∧
    (Zoned.from_local_deprecated ℓ off = .panic ↔ ¬ InRangeSecs (instSecs ℓ - off)) ∧
    (∀ z, Zoned.from_local_deprecated ℓ off = .ok z ↔ Zoned.from_local_datetime off ℓ = .ok (some z)) ∧
    (∀ z, Zoned.from_local_deprecated ℓ off = .ok z →
      z.off = off ∧ ZInv z ∧ Zoned.naive_local z = .ok ℓ ∧ instSecs z.utc = instSecs ℓ - off ∧
      z.utc.time.frac = ℓ.time.frac) := by
  obtain ⟨r, hr, hiff⟩ := fromLocal_fails_iff off ℓ ho hℓ
  have key : (Zoned.from_local_deprecated ℓ off = .panic ↔ r = none) ∧
      (∀ z, Zoned.from_local_deprecated ℓ off = .ok z ↔ r = some z) := by
    unfold Zoned.from_local_datetime at hr
    unfold Zoned.from_local_deprecated
    cases hc : ℓ.checked_sub_offset off with
    | panic => rw [hc] at hr; cases hr
    | ok o =>
      rw [hc] at hr
      have hr' : Res.ok (o.map fun u => (⟨u, off⟩ : Zoned)) = Res.ok r := hr
      injection hr' with hr'
      subst hr'
      cases o with
      | none =>
        refine ⟨⟨fun _ => rfl, fun _ => rfl⟩, fun z => ⟨?_, ?_⟩⟩
        · intro h; cases h
        · intro h; cases h
      | some u =>
        refine ⟨⟨?_, ?_⟩, fun z => ⟨?_, ?_⟩⟩
        · intro h; cases h
        · intro h; cases h
        · intro h
          have h' : Res.ok (⟨u, off⟩ : Zoned) = Res.ok z := h
          injection h' with h'; rw [← h']; rfl
        · intro h
          have h' : some (⟨u, off⟩ : Zoned) = some z := h
          injection h' with h'; rw [← h']; rfl
  refine ⟨rfl, by rw [key.1, hiff], ?_, ?_⟩
  · intro z; rw [key.2 z, hr]
    constructor
    · intro h; rw [h]
    · intro h; injection h
  · intro z h
    have hz : Zoned.from_local_datetime off ℓ = .ok (some z) := by rw [hr, (key.2 z).mp h]
    obtain ⟨a, b, c, _, e, f⟩ := local_of_fromLocal off ℓ ho hℓ z hz
    exact ⟨a, b, c, e, f⟩

example : Zoned.from_local_deprecated NaiveDT.MIN 1 = .panic ∧ Zoned.and_local_timezone NaiveDT.MIN 1 = .ok none ∧
    Zoned.from_local_deprecated NaiveDT.MIN (-1) = .ok ⟨⟨Date.MIN, ⟨1, 0⟩⟩, -1⟩ ∧
    NDTInv NaiveDT.MIN ∧ ¬ InRangeSecs (instSecs NaiveDT.MIN - 1) := by decide +kernel

/-! ### `DateTime + Days`, `DateTime - Days` -/

/-- **days_operators_spec.**  The operators are `expect` of the checked forms: `Days(0)` returns the value; for
`0 < n ≤ u64::MAX` they PANIC exactly when the rule of `day_stepping_vs_rule` has no result (stepped instant outside
`MIN_UTC ..= MAX_UTC` or stepped wall clock outside the nominal range) and otherwise return exactly the value the
checked form returns (`stepping_spec`: wall clock moved by `n` whole days). -/
theorem days_operators_spec (z : Zoned) (hz : ZInv z) :
    Zoned.add_days_op z 0 = .ok z ∧ Zoned.sub_days_op z 0 = .ok z ∧
    ∀ n : Int, 0 < n → n ≤ 18446744073709551615 →
      (Zoned.add_days_op z n = .panic ↔ ¬ (InUtcRange (instSecs z.utc + n * 86400) z.utc.time.frac ∧
                                            InRangeSecs (wallSecs z + n * 86400))) ∧
      (∀ z', Zoned.add_days_op z n = .ok z' ↔ Zoned.checked_add_days z n = .ok (some z')) ∧
      (Zoned.sub_days_op z n = .panic ↔ ¬ (InUtcRange (instSecs z.utc - n * 86400) z.utc.time.frac ∧
                                            InRangeSecs (wallSecs z - n * 86400))) ∧
      (∀ z', Zoned.sub_days_op z n = .ok z' ↔ Zoned.checked_sub_days z n = .ok (some z')) := by
  obtain ⟨z0, z1⟩ := day_stepping_zero z hz
  refine ⟨by unfold Zoned.add_days_op; rw [z0]; rfl, by unfold Zoned.sub_days_op; rw [z1]; rfl, ?_⟩
  intro n hn1 hn2
  obtain ⟨⟨r, a, b⟩, ⟨r', a', b'⟩⟩ := day_stepping_vs_rule z hz n hn1 hn2
  obtain ⟨p1, p2⟩ := ZNC.expectSome_ok _ r a
  obtain ⟨q1, q2⟩ := ZNC.expectSome_ok _ r' a'
  refine ⟨by unfold Zoned.add_days_op; rw [p1, b], ?_, by unfold Zoned.sub_days_op; rw [q1, b'], ?_⟩
  · intro z'; unfold Zoned.add_days_op; rw [p2 z', a]
    constructor
    · intro h; rw [h]
    · intro h; injection h
  · intro z'; unfold Zoned.sub_days_op; rw [q2 z', a']
    constructor
    · intro h; rw [h]
    · intro h; injection h

example : Zoned.add_days_op ⟨NaiveDT.MAX, 3600⟩ 1 = .panic ∧ Zoned.sub_days_op ⟨NaiveDT.MIN, -3600⟩ 1 = .panic ∧
    Zoned.sub_days_op ⟨NaiveDT.MIN, -3600⟩ 0 = .ok ⟨NaiveDT.MIN, -3600⟩ ∧
    Zoned.add_days_op ⟨NaiveDT.MIN, -3600⟩ 1 = .ok ⟨⟨dateOfYo MIN_YEAR 2, ⟨0, 0⟩⟩, -3600⟩ := by decide +kernel

/-! ### RFC 3339 / Serialize text in the headroom day -/

/-- **rfc3339_headroom_text.**  For EVERY well-formed value whose wall clock lies in a headroom day (where C10's
field theorem `writer_fields_exact`, stated for wall-clock years 0–9999, does not apply), every precision, with and
without `Z`: `to_rfc3339_opts`, `to_rfc3339` and `Serialize` return exactly `ZNC.headRfcText`: the calendar's own
date of that day — `-262144-12-31` when the wall clock is before the range, `+262143-01-01` when after —, `T`,
the two-digit hour / minute / second of `(instant + offset) mod 86400` (second + 1 for a leap-second representation),
the fraction of the sub-second nanoseconds at the requested precision (C10's `fracText`), and the offset text
(C10's `offText`).  With `format_reads_wall_clock` (Debug / Display) this puts every text writer except the
`strftime` items under a theorem in the headroom day (`to_rfc2822` panics there: wall-clock year outside 0–9999). -/
theorem rfc3339_headroom_text (z : Zoned) (hz : ZInv z) (hh : ¬ InRangeSecs (wallSecs z)) :
    (∀ sf use_z, Rfc3339.to_rfc3339_opts z sf use_z = .ok (ZNC.headRfcText z sf use_z)) ∧
    Rfc3339.to_rfc3339 z = .ok (ZNC.headRfcText z .autoSi false) ∧
    Serde.DateTimeStr.serialize z = Format.wok (ZNC.headRfcText z .autoSi true) ∧
    Rfc2822.to_rfc2822 z = .panic ∧ Zoned.naive_local z = .panic := by
  obtain ⟨l, h1, h2, h3, _, h5, h6⟩ := naive_local_spec z hz
  obtain ⟨w1, w2, w3, w4, _⟩ := ZNF.writers_of_wall z l h1
  have hw := ZNC.head_rfc3339 z hz hh l h1
  refine ⟨fun sf use_z => by rw [w1, hw]; rfl, by rw [w2, hw]; rfl, by rw [w4, hw], ?_, by rw [h5, if_neg hh]⟩
  rw [w3]
  obtain ⟨_, _, _, hho, _⟩ := wall_date_cases z hz l h1
  have hnd : ¬ DateInv l.date := fun h => hh (h6.mp h)
  obtain ⟨_, _, y1, _, _, y2, _⟩ := ZNC.headroom_ymd
  have hy : ¬ (0 ≤ l.date.year ∧ l.date.year ≤ 9999) := by
    rcases hho with h | h | h
    · exact absurd h hnd
    · rw [h, y1]; omega
    · rw [h, y2]; omega
  unfold Format.write_rfc2822
  simp only [hy, not_false_eq_true, if_true]
  rfl

/-- non-vacuity and what the text is on the inputs of the fixed findings F04 / F06, a leap second in the headroom
day, millisecond precision with `Z` -/
example :
    ZInv ⟨NaiveDT.MAX, 3600⟩ ∧ ¬ InRangeSecs (wallSecs ⟨NaiveDT.MAX, 3600⟩) ∧
    ZNC.headRfcText ⟨NaiveDT.MAX, 3600⟩ .autoSi false = asciiBytes "+262143-01-01T00:59:59.999999999+01:00" ∧
    ZNC.headRfcText ⟨NaiveDT.MIN, -3600⟩ .secs true = asciiBytes "-262144-12-31T23:00:00-01:00" ∧
    ZNC.headRfcText ⟨⟨Date.MAX, ⟨86399, 1500000000⟩⟩, 60⟩ .millis true = asciiBytes "+262143-01-01T00:00:60.500+00:01" := by
  decide +kernel

/-! ### `format` / `format_with_items`: the date specifiers on the two headroom days -/

/-- **format_headroom_dates.**  C12's `numeric_ok` speaks about years `MIN_YEAR ..= MAX_YEAR`; in the headroom day
the wall-clock date handed to the item formatter (`format_reads_wall_clock`, last two conjuncts) is one of the two
constants, so every date specifier is settled by kernel evaluation: the item formatter, given `BEFORE_MIN` resp.
`AFTER_MAX`, prints the text of the calendar's own day — signed year `-262144` / `+262143`, century by floored
division (`-2622`), two-digit year by Euclidean remainder (`56`), month, day, day of year `366` / `001`, ISO year and
week (`-262143`-W01 / `+262143`-W01), weekday (Wednesday / Tuesday), Sunday- and Monday-based week numbers, `%F`,
`%D`, `%x`.  (The expected texts were also observed on the real crate, and the harness oracle `znf.fmt` compares
them on sampled headroom values; the time and offset specifiers do not look at the date.) -/
theorem format_headroom_dates :
    (∀ p ∈ ([("%Y", "-262144"), ("%C", "-2622"), ("%y", "56"), ("%m", "12"), ("%d", "31"), ("%e", "31"), ("%j", "366"), ("%G", "-262143"), ("%g", "57"), ("%V", "01"), ("%u", "3"), ("%w", "3"), ("%a", "Wed"), ("%A", "Wednesday"), ("%b", "Dec"), ("%B", "December"), ("%h", "Dec"), ("%U", "52"), ("%W", "52"), ("%F", "-262144-12-31"), ("%D", "12/31/56"), ("%x", "12/31/56")] : List (String × String)),
      Format.formatItemsR (some Date.BEFORE_MIN) none none (Strftime.items (asciiBytes p.1)) = Format.wok (asciiBytes p.2)) ∧
    (∀ p ∈ ([("%Y", "+262143"), ("%C", "2621"), ("%y", "43"), ("%m", "01"), ("%d", "01"), ("%e", " 1"), ("%j", "001"), ("%G", "+262143"), ("%g", "43"), ("%V", "01"), ("%u", "2"), ("%w", "2"), ("%a", "Tue"), ("%A", "Tuesday"), ("%b", "Jan"), ("%B", "January"), ("%h", "Jan"), ("%U", "00"), ("%W", "00"), ("%F", "+262143-01-01"), ("%D", "01/01/43"), ("%x", "01/01/43")] : List (String × String)),
      Format.formatItemsR (some Date.AFTER_MAX) none none (Strftime.items (asciiBytes p.1)) = Format.wok (asciiBytes p.2)) := by
  decide +kernel

/-! ### End to end: translated code = specification -/

/-- **gen_wall_clock_sound.**  Composition of the code-translation theorems of Props/GenDateTime.lean (Lean text
generated from the Rust source = model) with `headroom_sound` (model = specification).  The bodies of
`DateTime::overflowing_naive_local` / `naive_local` are `self.datetime.overflowing_add_offset(self.offset.fix())` /
`self.datetime.checked_add_offset(self.offset.fix()).expect(..)` (pinned; `fix` of a `FixedOffset` is the identity,
pinned as `impl Offset for FixedOffset`): the TRANSLATED `NaiveDateTime::overflowing_add_offset` applied to the
stored UTC reading and the offset returns THE reading of `instant + offset` in the extended calendar, and the
translated `checked_add_offset` returns it exactly when it lies in the nominal range (`None`, i.e. the panic of
`naive_local` / `date_naive`, exactly in the headroom day). -/
theorem gen_wall_clock_sound (z : Zoned) (hz : ZInv z) :
    ∃ l, ExtNDTInv l ∧ instSecs l = wallSecs z ∧ l.time.frac = z.utc.time.frac ∧
      Gen.naive_datetime.NaiveDateTime.overflowing_add_offset (GenDateTime.ndtG z.utc) z.off
        = .ok (GenDateTime.ndtG l) ∧
      Gen.naive_datetime.NaiveDateTime.checked_add_offset (GenDateTime.ndtG z.utc) z.off
        = .ok (if InRangeSecs (wallSecs z) then some (GenDateTime.ndtG l) else none) := by
  obtain ⟨l, h1, h2, h3, h4, h5, _⟩ := naive_local_spec z hz
  obtain ⟨hd, hol⟩ := ZNC.dateOk_of_inv z.utc.date hz.1.1
  refine ⟨l, h2, h3, h4, ?_, ?_⟩
  · rw [GenDateTime.gen_overflowing_add_offset_eq z.utc z.off hd hol]
    have : z.utc.overflowing_add_offset z.off = .ok l := h1
    rw [this]; rfl
  · rw [GenDateTime.gen_checked_add_offset_eq z.utc z.off hd hol]
    unfold Zoned.naive_local at h5
    cases hc : z.utc.checked_add_offset z.off with
    | panic => rw [hc] at h5; by_cases hin : InRangeSecs (wallSecs z)
               · rw [if_pos hin] at h5; cases h5
               · rw [if_neg hin] at h5
                 exfalso
                 -- a panic of `checked_add_offset` itself is impossible: `overflowing_…` on the same input is `.ok`
                 have h1' : z.utc.overflowing_add_offset z.off = .ok l := h1
                 unfold NaiveDT.checked_add_offset at hc
                 unfold NaiveDT.overflowing_add_offset at h1'
                 cases ht : Time.overflowing_add_offset z.utc.time z.off with
                 | panic => rw [ht] at h1'; cases h1'
                 | ok p =>
                   rw [ht] at hc h1'
                   simp only [bind_ok'] at hc h1'
                   split at hc
                   · rename_i c1; rw [if_pos c1] at h1'
                     cases hp : z.utc.date.pred_opt with
                     | panic => rw [hp] at h1'; cases h1'
                     | ok q => rw [hp] at hc; cases hc
                   · split at hc
                     · rename_i c1 c2; rw [if_neg c1, if_pos c2] at h1'
                       cases hp : z.utc.date.succ_opt with
                       | panic => rw [hp] at h1'; cases h1'
                       | ok q => rw [hp] at hc; cases hc
                     · cases hc
    | ok o =>
      rw [hc] at h5
      by_cases hin : InRangeSecs (wallSecs z)
      · rw [if_pos hin] at h5 ⊢
        cases o with
        | none => cases h5
        | some d =>
          have : Res.ok d = Res.ok l := h5
          injection this with this; subst this; rfl
      · rw [if_neg hin] at h5 ⊢
        cases o with
        | none => rfl
        | some d => cases h5

/-- **gen_from_local_sound.**  Likewise for construction from a wall clock: `TimeZone::from_local_datetime` for a
`FixedOffset` is `local.checked_sub_offset(offset)` mapped into a `DateTime` (`offset_from_local_datetime =
Single(*self)`, pinned as `impl TimeZone for FixedOffset`); the TRANSLATED `NaiveDateTime::checked_sub_offset` fails
exactly when `wall clock − offset` leaves the supported range and otherwise returns the UTC reading of the value
`local_of_fromLocal` speaks about. -/
theorem gen_from_local_sound (off : Int) (ℓ : NaiveDT) (ho : OffValid off) (hℓ : NDTInv ℓ) :
    ∃ r, Gen.naive_datetime.NaiveDateTime.checked_sub_offset (GenDateTime.ndtG ℓ) off
        = .ok (r.map fun (z : Zoned) => GenDateTime.ndtG z.utc) ∧
      Zoned.from_local_datetime off ℓ = .ok r ∧ (r = none ↔ ¬ InRangeSecs (instSecs ℓ - off)) ∧
      ∀ z, r = some z → z.off = off ∧ ZInv z ∧ instSecs z.utc = instSecs ℓ - off ∧
        z.utc.time.frac = ℓ.time.frac := by
  obtain ⟨r, hr, hiff⟩ := fromLocal_fails_iff off ℓ ho hℓ
  obtain ⟨hd, hol⟩ := ZNC.dateOk_of_inv ℓ.date hℓ.1
  refine ⟨r, ?_, hr, hiff, ?_⟩
  · rw [GenDateTime.gen_checked_sub_offset_eq ℓ off hd hol]
    unfold Zoned.from_local_datetime at hr
    cases hc : ℓ.checked_sub_offset off with
    | panic => rw [hc] at hr; cases hr
    | ok o =>
      rw [hc] at hr
      have hr' : Res.ok (o.map fun u => (⟨u, off⟩ : Zoned)) = Res.ok r := hr
      injection hr' with hr'
      subst hr'
      cases o <;> rfl
  · intro z hz'
    obtain ⟨a, b, _, _, e, f⟩ := local_of_fromLocal off ℓ ho hℓ z (by rw [hr, hz'])
    exact ⟨a, b, e, f⟩

/-- the translated offset constructors and accessors are the model's (`east_opt_iff` speaks about them) -/
theorem gen_offsets_sound (s : Int) (hs : -2147483648 ≤ s ∧ s ≤ 2147483647) :
    Gen.offset_fixed.FixedOffset.east_opt s = (if -86400 < s ∧ s < 86400 then some s else none) ∧
    Gen.offset_fixed.FixedOffset.west_opt s = .ok (if -86400 < s ∧ s < 86400 then some (-s) else none) :=
  ⟨GenDateTime.gen_east_opt_eq s, GenDateTime.gen_west_opt_eq s hs⟩

/-! ### Identity replacement on the one well-formed value class above `MAX_UTC` (audit 2, L2) -/

/-- `x = +262142-12-31T23:59:60.5Z` (well formed, compares greater than `MAX_UTC`): replacing a field by its own
value is REFUSED (the `MIN_UTC ..= MAX_UTC` filter of `map_local` / `with_time`; inside `map_local_spec`), while
`Days(0)` / `Months(0)` return the value -/
example :
    ZInv ⟨⟨Date.MAX, ⟨86399, 1500000000⟩⟩, 0⟩ ∧
    Zoned.with_year ⟨⟨Date.MAX, ⟨86399, 1500000000⟩⟩, 0⟩ MAX_YEAR = .ok none ∧
    Zoned.with_second ⟨⟨Date.MAX, ⟨86399, 1500000000⟩⟩, 0⟩ 59 = .ok none ∧
    Zoned.with_day ⟨⟨Date.MAX, ⟨86399, 1500000000⟩⟩, 0⟩ 31 = .ok none ∧
    Zoned.with_time ⟨⟨Date.MAX, ⟨86399, 1500000000⟩⟩, 0⟩ ⟨86399, 1500000000⟩ = .ok none ∧
    Zoned.checked_add_days ⟨⟨Date.MAX, ⟨86399, 1500000000⟩⟩, 0⟩ 0 = .ok (some ⟨⟨Date.MAX, ⟨86399, 1500000000⟩⟩, 0⟩) ∧
    Zoned.checked_sub_days ⟨⟨Date.MAX, ⟨86399, 1500000000⟩⟩, 0⟩ 0 = .ok (some ⟨⟨Date.MAX, ⟨86399, 1500000000⟩⟩, 0⟩) ∧
    Zoned.checked_add_months ⟨⟨Date.MAX, ⟨86399, 1500000000⟩⟩, 0⟩ 0 = .ok (some ⟨⟨Date.MAX, ⟨86399, 1500000000⟩⟩, 0⟩) := by
  decide +kernel

end Chrono.Props.C04
