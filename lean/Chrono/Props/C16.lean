/-
  C16 — The TZif and TZ-rule readers accept well-formed data and survive everything else.
  Property statements only.  `parse` = `parser::parse` (TZif bytes → zone), `from_tz_string` =
  `TransitionRule::from_tz_string`; results are `ok` / `err` / `panic` (`M.Tz.P`).
-/
import Chrono.Proofs.TzEncL
import Chrono.Proofs.TzSamples
import Chrono.Proofs.TzValidL
import Chrono.Proofs.TzLookupPL
import Chrono.Proofs.TzLayoutL
import Chrono.Proofs.TzLocalL
import Chrono.Proofs.TzDecodeL
import Chrono.Proofs.TzSamples2
import Chrono.Proofs.TzOldReader

namespace Chrono.Props.C16
open Chrono Chrono.M.Tz Chrono.Spec.Tz Chrono.Spec.Tz.Gr Chrono.Proofs.Tz Chrono.Proofs.TzValid
  Chrono.Extracted.TzP Chrono.Proofs.TzLocal Chrono.Proofs.TzDecode Chrono.Proofs.TzOld

/-- the extracted header constants are the RFC 8536 ones the writer specification uses, and the
extracted field bounds are the ones the well-formedness predicates are stated with -/
theorem consts_ok :
    MAGIC = [84, 90, 105, 102] ∧ VERSION_BYTE_V1 = versionByte .V1 ∧ VERSION_BYTE_V2 = versionByte .V2
      ∧ VERSION_BYTE_V3 = versionByte .V3 ∧ RESERVED = 15 ∧ TYPE_RECORD = 6
      ∧ OFFSET_HOUR_MAX = 24 ∧ OFFSET_MINUTE_MAX = 59 ∧ OFFSET_SECOND_MAX = 59
      ∧ RULE_HOUR_MAX = 24 ∧ EXT_HOUR_MIN = -167 ∧ EXT_HOUR_MAX = 167
      ∧ JULIAN1_MIN = 1 ∧ JULIAN1_MAX = 365 ∧ JULIAN0_MAX = 365 ∧ MONTH_MAX = 12 ∧ WEEK_MAX = 5
      ∧ WEEKDAY_MAX = 6 ∧ NAME_MIN = 3 ∧ NAME_MAX = 7 ∧ DEFAULT_RULE_TIME = 7200
      ∧ DEFAULT_DST_DELTA = 3600 ∧ SECONDS_PER_WEEK = 604800
      ∧ CUMUL_DAY_IN_MONTHS_NORMAL_YEAR = [0, 31, 59, 90, 120, 151, 181, 212, 243, 273, 304, 334]
      ∧ DAY_IN_MONTHS_NORMAL_YEAR = [31, 28, 31, 30, 31, 30, 31, 31, 30, 31, 30, 31] := by decide

/-! ### survive everything -/

/-- every byte list is either decoded or refused: no slice index out of bounds, no `usize`/`i32`/`i64`
overflow, no failing table index anywhere in `parse`, the footer reader, `TimeZone::validate` and the
rule lookup `validate` performs (list elements are read as bytes, i.e. modulo 256) -/
theorem parse_total (bytes : List Nat) : parse bytes ≠ .panic := post_np (post_parse bytes)

/-- every `Vec::with_capacity` request `parse` makes is bounded by the input length -/
theorem parse_allocs_bounded (bytes : List Nat) : ∀ c ∈ capacities bytes, c ≤ bytes.length :=
  capacities_le bytes

/-- the same requests in BYTES: with 16-byte elements (`Transition`, `LocalTimeType`, `LeapSecond` on
a 64-bit target) the three vectors together ask for less than 3.2 times the input length
(`5 · Σ ≤ 16 · len`; a transition costs 5 or 9 input bytes, a type record 6, a leap record 8 or 12).
In the byte reading "not beyond the input size" holds up to this constant; in the element reading
(`parse_allocs_bounded`) it holds exactly. -/
theorem parse_allocs_bounded_bytes (bytes : List Nat) :
    5 * (capacityBytes bytes).sum ≤ 16 * bytes.length :=
  capacityBytes_le bytes

/-- every text is either read as a rule or refused, with and without the RFC 8536 extensions -/
theorem rule_total (text : List Nat) (ext : Bool) : from_tz_string text ext ≠ .panic :=
  post_np (post_from_tz_string text ext)

/-! ### inconsistent data is rejected (stated on whatever is accepted) -/

/-- an accepted zone has at least one local time type, strictly increasing transition times, every
transition's type index in bounds, every offset strictly within 24 hours of UTC (F32), and only designations of 3–7 characters
from `[0-9A-Za-z+-]`: unsorted or repeated transitions, out-of-range type indices and illegal
designations are therefore rejected -/
theorem accepted_is_valid (bytes : List Nat) (z : Zone) (h : parse bytes = .ok z) : ZoneValid z :=
  post_spec (post_parse bytes) h

/-- an accepted rule has rule days in range, rule times below one week in magnitude, offsets within
the coarse bound `RuleV` needs for the lookup arithmetic (the sharp bound, strictly within 24 h, is
`accepted_offsets_representable`), the standard type flagged non-DST and the
daylight type flagged DST, and legal 3–7 character designations on both -/
theorem rule_accepted_is_valid (text : List Nat) (ext : Bool) (r : Rule)
    (h : from_tz_string text ext = .ok r) : RuleV r :=
  post_spec (post_from_tz_string text ext) h

/-- wrong magic number (or fewer than four bytes) -/
theorem rejects_bad_magic (bytes : List Nat) (h : bytes.take 4 ≠ MAGIC) : parse bytes = .err :=
  rejects_bad_magic' bytes h

/-- unknown version byte in the first header -/
theorem rejects_bad_version (bytes : List Nat) (h : versionOf ((bytes.drop 4).take 1) = none) :
    parse bytes = .err :=
  rejects_bad_version' bytes h

/-- a footer (everything after the second data block of a v2/v3 file) that does not both start and
end with a newline is rejected -/
theorem rejects_footer_framing (footer : List Nat) (v : Version)
    (h : ¬ (footer.head? = some 10 ∧ footer.getLast? = some 10)) : parseFooter footer v = .err :=
  footer_framing' footer v h

/-- a footer whose TZ string starts with ':' or contains a NUL is rejected -/
theorem rejects_footer_colon_nul (footer : List Nat) (v : Version)
    (h : (trimWs footer).head? = some 58 ∨ 0 ∈ trimWs footer) : parseFooter footer v = .err :=
  footer_colon_nul' footer v h

/-- every proper prefix of an ACCEPTED file that cuts inside a header or a data block — up to and
including the exact end of the last data block — is rejected; for a version-1 file (`footerOf` is
empty) that is every proper prefix.  `footerOf bytes` is what the reader takes as the footer. -/
theorem rejects_truncated_blocks (bytes : List Nat) (z : Zone) (h : parse bytes = .ok z) (k : Nat)
    (hk : k < bytes.length) (hcut : k + (footerOf bytes).length ≤ bytes.length) :
    parse (bytes.take k) = .err :=
  rejects_truncated_blocks' bytes z h k hk hcut

/-- a cut inside the footer of an accepted file is rejected too — EVERY such cut since the repair of
finding F36 (the cut right after the footer's first newline, which leaves the one-byte footer `"\n"`,
used to be accepted without the rule: `truncated_after_footer_newline_pinned_before_F36`).
Hypothesis: the footer has no newline between its first and last byte (true of every footer a
conforming writer emits); it is not needed for the cut right after the first newline. -/
theorem rejects_truncated_footer (bytes : List Nat) (z : Zone) (h : parse bytes = .ok z) (k : Nat)
    (hk : k < bytes.length) (hin : bytes.length < k + (footerOf bytes).length)
    (hnl : ∀ j, 0 < j → j + 1 < (footerOf bytes).length → (footerOf bytes)[j]? ≠ some 10) :
    parse (bytes.take k) = .err := by
  by_cases hne : k + (footerOf bytes).length = bytes.length + 1
  · exact trunc_footer_newline' bytes z h k hk hne
  · exact rejects_truncated_footer' bytes z h k hk hin hne hnl

/-- F36, the cut itself, for EVERY accepted version-2/3 file and without any hypothesis on the footer:
the file cut right after the first newline of its footer is rejected -/
theorem rejects_truncated_after_footer_newline (bytes : List Nat) (z : Zone) (h : parse bytes = .ok z)
    (k : Nat) (hk : k < bytes.length) (he : k + (footerOf bytes).length = bytes.length + 1) :
    parse (bytes.take k) = .err :=
  trunc_footer_newline' bytes z h k hk he

/-- F36, the footer check on its own: a footer of fewer than two bytes is refused whatever the data
blocks are, and the footer of every accepted version-2/3 file has at least two bytes -/
theorem rejects_short_footer :
    (∀ (footer : List Nat) (v : Version), footer.length < 2 → parseFooter footer v = .err)
      ∧ (∀ (bytes : List Nat) (z : Zone), parse bytes = .ok z →
          versionOf ((bytes.drop 4).take 1) ≠ some .V1 → 2 ≤ (footerOf bytes).length) := by
  refine ⟨fun f v h => footer_short' f v h, fun bytes z h hne => ?_⟩
  obtain ⟨v2, -, -, -, -, hf⟩ := (accepted_decode' bytes z h).2 hne
  by_cases hl : (footerOf bytes).length < 2
  · rw [footer_short' _ _ hl] at hf; cases hf
  · omega

/-- for files written by the specification's writer the footer the reader sees is `\n<footer>\n`
(nothing for version 1), so the two theorems above speak about the cut points of the written layout -/
theorem written_footer (f : TzFile) (hs1 : BlockShape f.v1) (hs2 : BlockShape f.v2) :
    (f.version = .V1 → footerOf (encodeTzif f) = [])
      ∧ (f.version ≠ .V1 → footerOf (encodeTzif f) = 10 :: (f.footer ++ [10])) :=
  ⟨fun h => footerOf_enc_v1 f h hs1, fun h => footerOf_enc_v2 f h hs1 hs2⟩

/-! ### well-formed data is accepted and read back exactly -/

/-- the canonical text of EVERY well-formed rule reads back as that rule: both forms (`std offset`
and `std offset dst offset,start/time,end/time`), bare and `<quoted>` designations, `Jn` / `n` /
`Mm.w.d` days, offsets up to ±23:59:59, rule times `0…24:59:59` without and `±167:59:59` with the
RFC 8536 extensions (`RuleOk ext r` carries the flag) -/
theorem tz_roundtrip (r : Rule) (ext : Bool) (h : RuleOk ext r) :
    from_tz_string (renderTz r) ext = .ok r :=
  tz_roundtrip' r ext h

/-! #### the POSIX TZ grammar: accepted = denoted

`Spec.Tz.Denotes ext s r` (Spec/TzGrammar.lean) is an inductive, reader-independent definition of
"the byte string `s` is a POSIX TZ string (RFC 8536 extensions iff `ext`) standing for rule `r`":
`std offset` or `std offset dst [offset],start[/time],end[/time]`; designations of 3–7 letters, or
3–7 characters of `[0-9A-Za-z+-]` in `<…>`; offsets `[+|-]hh[:mm[:ss]]` with hh = 0…24 and any zero
padding, the stated value STRICTLY below 24:00:00 (`Within24h`: `24`, `24:00:01`, … `24:59:59` meet
the field ranges but are refused when the `LocalTimeType` is built — the repair of finding F32; the
same bound applies to a defaulted DST offset); omitted DST offset = one hour ahead of standard; `Jn` / `n` / `Mm.w.d`; omitted `/time` =
02:00:00; times `0…24:59:59`, or signed up to ±167:59:59 with the extensions. -/

/-- ACCEPTS ALL: every string of the grammar — every optional part present or absent, every
spelling of every field — is read as exactly the rule it denotes -/
theorem tz_accepts_all (ext : Bool) (s : List Nat) (r : Rule) (h : Denotes ext s r) :
    from_tz_string s ext = .ok r :=
  tz_accepts_all' ext s r h

/-- ACCEPTS ONLY: whatever the reader accepts is a string of the grammar, and the rule returned is
the one it denotes.  With `rule_total`: every text outside the grammar is rejected with `Err`. -/
theorem tz_accepts_only (ext : Bool) (s : List Nat) (r : Rule) (h : from_tz_string s ext = .ok r) :
    Denotes ext s r :=
  tz_accepts_only' ext s r h

/-- the reader decides the grammar: `Ok r` exactly on the strings denoting `r`, `Err` on all others -/
theorem tz_reader_is_grammar (ext : Bool) (s : List Nat) :
    (∀ r, from_tz_string s ext = .ok r ↔ Denotes ext s r)
      ∧ ((¬ ∃ r, Denotes ext s r) → from_tz_string s ext = .err) := by
  refine ⟨fun r => ⟨tz_accepts_only ext s r, tz_accepts_all ext s r⟩, fun h => ?_⟩
  cases e : from_tz_string s ext with
  | ok r => exact absurd ⟨r, tz_accepts_only ext s r e⟩ h
  | err => rfl
  | panic => exact absurd e (rule_total s ext)

/-- a TZ string denotes at most one rule (the grammar is unambiguous) -/
theorem denotes_functional (ext : Bool) (s : List Nat) (r r' : Rule) (h : Denotes ext s r)
    (h' : Denotes ext s r') : r = r' := by
  have := (tz_accepts_all ext s r h).symm.trans (tz_accepts_all ext s r' h')
  cases this; rfl

/-- the canonical text of a well-formed rule is one of the strings denoting it, so `tz_roundtrip` is
the special case `s = renderTz r` of `tz_accepts_all` -/
theorem canonical_denotes (r : Rule) (ext : Bool) (h : RuleOk ext r) : Denotes ext (renderTz r) r :=
  tz_accepts_only ext _ r (tz_roundtrip r ext h)

/-- non-vacuity, by hand from the constructors (no reader involved): `EST5EDT,M3.2.0,M11.1.0` — DST
offset and both times omitted — denotes New York's rule with DST at −4 h and both changes at 02:00 -/
example : Denotes false (asc "EST5EDT,M3.2.0,M11.1.0") sampleRule2 :=
  Denotes.alt (s1 := asc "EST") (s2 := [53]) (s3 := asc "EDT") (s4 := []) (s5 := asc "M3.2.0")
    (s6 := asc "M11.1.0")
    (Name.bare (by decide) (by decide) (by decide))
    (Offset.mk Sign.none (Hms.h (Num.one 5 (by decide))) (by decide) (by decide) (by decide))
    (Name.bare (by decide) (by decide) (by decide))
    DstOffset.default
    (DayTime.default (Day.mwd (Num.one 3 (by decide)) (Num.one 2 (by decide)) (Num.one 0 (by decide))
      (by decide) (by decide) (by decide) (by decide) (by decide)))
    (DayTime.default (Day.mwd (Num.snoc 1 (by decide) (Num.one 1 (by decide))) (Num.one 1 (by decide))
      (Num.one 0 (by decide)) (by decide) (by decide) (by decide) (by decide) (by decide)))
    (by decide) (by decide)

/-- non-vacuity: twelve non-canonical spellings (omitted DST offset / times, `+` signs, padded fields,
quoted letter names, extension times at ±167:59:59) are in the grammar with the rule stated -/
example : ∀ p ∈ sampleSpellings, Denotes p.1 p.2.1 p.2.2 :=
  fun p hp => tz_accepts_only _ _ _ (tz_spellings_samples p hp)

/-! #### what `TimeZone::validate` checks, characterised

`validate` (timezone.rs) is the reader's last step.  Its model calls a three-valued, overflow-checked
copy of the rule lookup (`find_ltt_for_validate`); C05 models the same Rust function
`TransitionRule::find_local_time_type` `Option`-valued and proves it against a specification.  The
next theorems identify the two models, the leap-second conversion with its specification, and then
`validate` itself with the semantic condition it stands for. -/

/-- the rule lookup `validate` performs IS C05's model of `TransitionRule::find_local_time_type`:
same value, `Err` for `Err` (`toP none = err`), and never a panic — for every rule `from_tz_string`
can build (`RuleV`, see `rule_accepted_is_valid`) and EVERY instant -/
theorem validate_rule_lookup_is_c05 (r : Rule) (t : Int) (h : RuleV r) :
    r.find_ltt_for_validate t = toP (r.find_local_time_type t) :=
  rule_find_val r t h

/-- `unix_leap_time_to_unix_time` (binary search in the leap-second table) is its specification
`leapToUnix` (subtract the correction of the last record strictly before the leap time; `Err` for
`i64::MIN` or an `i64` overflow), for every sorted table and every `i64` leap time -/
theorem leap_conversion_ok (leaps : List LeapSecond) (t : Int) (ht : I64r t) (hs : LeapsSorted leaps) :
    unix_leap_time_to_unix_time leaps t = toP (leapToUnix leaps t) :=
  ulttut_val leaps t ht hs

/-- `TimeZone::validate` accepts EXACTLY the zones with at least one local time type, strictly
increasing transitions, type indices in range, a leap-second table meeting its constraints
(`checkLeaps`: first record at a non-negative time with correction ±1, consecutive records at least
28 days − 1 s apart with corrections differing by ±1), and — when there are both a rule and
transitions — `RuleAgrees`: the rule lookup at the last transition's instant (its leap time converted
by `leapToUnix`) succeeds and yields exactly the local time type the last transition switches to
(same `ut_offset`, `is_dst` and designation).  Hypotheses: only what the Rust types guarantee of a
`TimeZone` value (transition times are `i64`; the rule is one `from_tz_string` can build). -/
theorem validate_iff (z : Zone) (ht : ∀ t ∈ z.transitions, I64r t.time)
    (hr : ∀ r, z.rule = some r → RuleV r) :
    validate z = .ok () ↔
      (z.types ≠ [] ∧ SortedStrict z.transitions ∧ (∀ t ∈ z.transitions, t.idx < z.types.length)
        ∧ checkLeaps z.leaps = true ∧ RuleAgrees z) :=
  validate_iff' z ht hr

/-- the agreement condition through C05's SPECIFICATION of a rule: for rules in C05's scope
(`TzL.RuleOk`: rule days valid, both yearly transitions more than a day inside the calendar year)
and a last transition within ±2^55 s, `RuleAgrees` says that `Spec.Zone.ruleOff` — daylight time iff
the instant lies in `[start y, end y)` of its calendar year `y`, mirrored for southern-hemisphere
rules — prescribes at the last transition exactly the type the table switches to -/
theorem rule_agrees_spec (z : Zone) (hr : Proofs.TzL.RuleOk z.rule)
    (hb : ∀ last ut, z.transitions.getLast? = some last → leapToUnix z.leaps last.time = some ut →
      -36028797018963968 ≤ ut ∧ ut ≤ 36028797018963968) :
    RuleAgrees z ↔ RuleAgreesSpec z :=
  ruleAgrees_iff_spec' z hr hb

/-- version 1: the file written for a block is read back as exactly that block's transitions, types
(designations resolved) and leap seconds.  Hypotheses: counts fit the header (`BlockShape`), every
value fits its field and every designation index is legal (`BlockVals`), transitions strictly
increasing with in-range type indices, and the leap-second table constraints (a v1 file has no rule). -/
theorem tzif_roundtrip_v1 (f : TzFile) (hver : f.version = .V1) (hs : BlockShape f.v1)
    (hv : BlockVals .V1 4 f.v1)
    (h1 : SortedStrict (absBlock f.v1 none).transitions)
    (h2 : ∀ t ∈ (absBlock f.v1 none).transitions, t.idx < (absBlock f.v1 none).types.length)
    (h3 : checkLeaps (absBlock f.v1 none).leaps = true) :
    parse (encodeTzif f) = .ok (absBlock f.v1 none) :=
  tzif_roundtrip_v1' f hver hs hv (validate_ok_of _ (by
    intro e
    have : f.v1.types.length = 0 := by simpa [absBlock] using congrArg List.length e
    exact hs.ty0 this) h1 h2 h3 (Or.inl rfl))

/-- versions 2 and 3, FULL STRENGTH: whatever the 32-bit block holds, the file is read back as exactly
the 64-bit block and the rule the footer DENOTES (`FooterOk`: the footer is empty and there is no
rule, or it is ANY string of the TZ grammar — `Denotes (version = 3) footer r`, so footers that omit
the DST offset or the `/time` parts, as every zoneinfo file does, are covered — and the rule is `r`),
provided the written zone is consistent: transitions strictly increasing, type indices in range, the
leap-second table constraints, and the footer rule agreeing with the last transition (`RuleAgrees`,
which `rule_agrees_spec` restates through C05's rule specification).  No hypothesis mentions the
reader: by `validate_iff` these four conditions are exactly what `validate` accepts. -/
theorem tzif_roundtrip_v2 (f : TzFile) (hver : f.version ≠ .V1) (hs1 : BlockShape f.v1)
    (hs2 : BlockShape f.v2) (hv : BlockVals f.version 8 f.v2) (rule : Option Rule)
    (hfoot : FooterOk f.version f.footer rule)
    (h1 : SortedStrict (absBlock f.v2 rule).transitions)
    (h2 : ∀ t ∈ (absBlock f.v2 rule).transitions, t.idx < (absBlock f.v2 rule).types.length)
    (h3 : checkLeaps (absBlock f.v2 rule).leaps = true) (h4 : RuleAgrees (absBlock f.v2 rule)) :
    parse (encodeTzif f) = .ok (absBlock f.v2 rule) :=
  tzif_roundtrip_v2_full' f hver hs1 hs2 hv rule hfoot h1 h2 h3 h4

/-- the leap-second loop of `validate` — saturating subtraction, saturating absolute value — accepts
exactly the tables meeting the RFC 8536 constraints in plain integer arithmetic (`LeapsOk`,
Spec/TzValidSpec.lean: first record at a non-negative time with correction ±1; consecutive records at
least 28 days − 1 s apart with corrections differing by exactly 1), for `i32` corrections and ANY times -/
theorem checkLeaps_iff (ls : List LeapSecond) (hr : ∀ l ∈ ls, I32r l.corr) :
    checkLeaps ls = true ↔ LeapsOk ls :=
  checkLeaps_iff' ls hr

/-- versions 2 and 3 with SPECIFICATION-LEVEL consistency hypotheses only: `LeapsOk` instead of the
reader's `checkLeaps`, and `RuleAgreesSpec` — C05's specification `Spec.Zone.ruleOff` of what a rule
prescribes at an instant — instead of `RuleAgrees` (which runs the model of the rule lookup).  The
price is C05's scope: the rule's yearly transitions more than a day inside the calendar year
(`TzL.RuleOk`) and the last transition within ±2^55 s. -/
theorem tzif_roundtrip_v2_spec (f : TzFile) (hver : f.version ≠ .V1) (hs1 : BlockShape f.v1)
    (hs2 : BlockShape f.v2) (hv : BlockVals f.version 8 f.v2) (rule : Option Rule)
    (hfoot : FooterOk f.version f.footer rule)
    (h1 : SortedStrict (absBlock f.v2 rule).transitions)
    (h2 : ∀ t ∈ (absBlock f.v2 rule).transitions, t.idx < (absBlock f.v2 rule).types.length)
    (h3 : LeapsOk (absBlock f.v2 rule).leaps)
    (hr : Proofs.TzL.RuleOk rule)
    (hb : ∀ last ut, (absBlock f.v2 rule).transitions.getLast? = some last →
      leapToUnix (absBlock f.v2 rule).leaps last.time = some ut →
      -36028797018963968 ≤ ut ∧ ut ≤ 36028797018963968)
    (h4 : RuleAgreesSpec (absBlock f.v2 rule)) :
    parse (encodeTzif f) = .ok (absBlock f.v2 rule) :=
  tzif_roundtrip_v2 f hver hs1 hs2 hv rule hfoot h1 h2
    ((checkLeaps_iff _ (abs_leaps_i32 _ _ _ rule hv.leaps)).mpr h3)
    ((rule_agrees_spec (absBlock f.v2 rule) hr hb).mpr h4)

/-- version 1 with `LeapsOk` instead of the reader's `checkLeaps` -/
theorem tzif_roundtrip_v1_spec (f : TzFile) (hver : f.version = .V1) (hs : BlockShape f.v1)
    (hv : BlockVals .V1 4 f.v1)
    (h1 : SortedStrict (absBlock f.v1 none).transitions)
    (h2 : ∀ t ∈ (absBlock f.v1 none).transitions, t.idx < (absBlock f.v1 none).types.length)
    (h3 : LeapsOk (absBlock f.v1 none).leaps) :
    parse (encodeTzif f) = .ok (absBlock f.v1 none) :=
  tzif_roundtrip_v1 f hver hs hv h1 h2 ((checkLeaps_iff _ (abs_leaps_i32 _ _ _ none hv.leaps)).mpr h3)

/-- non-vacuity: `sampleV1` (one leap second at 1972-07-01, correction +1) meets the hypotheses of
`tzif_roundtrip_v1_spec`; a table whose second record comes 27 days after the first does not satisfy
`LeapsOk` and `checkLeaps` refuses it -/
example :
    parse (encodeTzif sampleV1) = .ok (absBlock sampleV1.v1 none)
      ∧ ¬ LeapsOk [⟨78796800, 1⟩, ⟨78796800 + 27 * 86400, 2⟩]
      ∧ checkLeaps [⟨78796800, 1⟩, ⟨78796800 + 27 * 86400, 2⟩] = false := by
  refine ⟨?_, ?_, by decide⟩
  · exact tzif_roundtrip_v1_spec sampleV1 rfl
      ⟨by decide, by decide, by decide, by decide, by decide, by decide, by decide, by decide⟩
      ⟨by decide +kernel, by decide +kernel, by decide +kernel, by decide +kernel⟩
      (show (-1000000000 : Int) < 1000000000 ∧ True from ⟨by decide, trivial⟩) (by decide)
      ⟨⟨by decide, by decide⟩, trivial⟩
  · intro h
    have := h.2.1
    revert this
    decide

/-- the earlier forms, with the reader's own `validate` as the consistency hypothesis (equivalent by
`validate_iff`; kept because they are what the harness oracle evaluates) -/
theorem tzif_roundtrip_of_validate (f : TzFile) (hs1 : BlockShape f.v1) :
    (f.version = .V1 → BlockVals .V1 4 f.v1 → validate (absBlock f.v1 none) = .ok () →
      parse (encodeTzif f) = .ok (absBlock f.v1 none))
    ∧ (f.version ≠ .V1 → BlockShape f.v2 → BlockVals f.version 8 f.v2 → ∀ rule,
      FooterOk f.version f.footer rule → validate (absBlock f.v2 rule) = .ok () →
      parse (encodeTzif f) = .ok (absBlock f.v2 rule)) :=
  ⟨fun hver hv hval => tzif_roundtrip_v1' f hver hs1 hv hval,
   fun hver hs2 hv rule hfoot hval => tzif_roundtrip_v2' f hver hs1 hs2 hv rule hfoot hval⟩

/-- when the zone has no rule or no transitions, `validate` asks for nothing beyond the spec-level
validity: a type, strictly increasing in-range transitions, and the leap-second table constraints -/
theorem validate_of_valid (z : Zone) (h0 : z.types ≠ []) (h1 : SortedStrict z.transitions)
    (h2 : ∀ t ∈ z.transitions, t.idx < z.types.length) (h3 : checkLeaps z.leaps = true)
    (h4 : z.rule = none ∨ z.transitions = []) : validate z = .ok () :=
  validate_ok_of z h0 h1 h2 h3 h4

/-! #### accepted zones meet the invariants C05's lookup theorems assume -/

/-- every zone the parser accepts satisfies the well-formedness C05's theorems take as hypotheses:
`Spec.Zone.Valid` (a type, in-range indices, pairwise increasing transition times) and `TzL.Sorted`,
`i32` offsets for every type index (first half of `TzL.InRange`), `i64` transition times, `ValidDay`
rule days, a sorted leap-second table, and `RuleAgrees`.  Not parser invariants but restrictions of
property C05 itself (so not derivable here): no leap-second records, `InsideYear`/`RuleYearly` rules,
`WellSeparated` windows, transition times within ±2^62. -/
theorem parsed_zone_wellformed (bytes : List Nat) (z : Zone) (h : parse bytes = .ok z) :
    Spec.Zone.Valid z ∧ Proofs.TzL.Sorted z.transitions
      ∧ (∀ i, -2147483648 ≤ (M.TzL.typeAt z i).off ∧ (M.TzL.typeAt z i).off ≤ 2147483647)
      ∧ (∀ t ∈ z.transitions, I64r t.time)
      ∧ (∀ a, z.rule = some (.alt a) → Proofs.TzL.ValidDay a.dstStart ∧ Proofs.TzL.ValidDay a.dstEnd)
      ∧ LeapsSorted z.leaps ∧ RuleAgrees z :=
  parsed_zone_wellformed' bytes z h

/-- the first clause of C05's `JoinSeparated` ("at the last table transition the rule prescribes the
type the table switches to — what `TimeZone::new` validates") is a THEOREM for accepted zones: without
leap-second records, for a rule in C05's scope and a last transition within ±2^55 s -/
theorem parsed_zone_join (bytes : List Nat) (z : Zone) (h : parse bytes = .ok z) (hl : z.leaps = [])
    (rule : Rule) (last : Transition) (hrule : z.rule = some rule)
    (hlast : z.transitions.getLast? = some last) (hr : Proofs.TzL.RuleOk (some rule))
    (hb : -36028797018963968 ≤ last.time ∧ last.time ≤ 36028797018963968) :
    Spec.Zone.ruleOff rule last.time = M.TzL.typeAt z last.idx :=
  parsed_zone_join' bytes z h hl rule last hrule hlast hr hb

/-! ### an accepted zone answers every offset query

`Zone.find_local_time_type_P` / `Zone.find_local_time_type_from_local_P` (Model/TzLookupP.lean) are
three-valued models of `TimeZoneRef::find_local_time_type` / `find_local_time_type_from_local` and
everything below them: every slice index can `panic`, every unchecked `i64` step is overflow-checked,
`checked_add` gives `Err`, and the two `transition time + offset` sums saturate (the code after the
repair of finding #10).  The wall-clock query is a `NaiveDateTime`: `year` is its calendar year (an
`i32`; the theorems allow ANY `i32`), `ℓ` its timestamp. -/

/-- lookup by instant: never a panic, for every zone `parse` accepts and EVERY instant (all of
`i64`, and beyond) -/
theorem lookup_instant_total (bytes : List Nat) (z : Zone) (h : parse bytes = .ok z) (t : Int) :
    z.find_local_time_type_P t ≠ .panic := by
  rw [find_P_val z (parsed_lookupSafe bytes z h) t]
  cases z.find_local_time_type t <;> simp [toP]

/-- lookup by wall clock: never a panic — in fact always `Ok` — for every zone `parse` accepts,
every `i32` year and EVERY timestamp -/
theorem lookup_local_total (bytes : List Nat) (z : Zone) (h : parse bytes = .ok z) (year : Int)
    (hy : I32r year) (ℓ : Int) :
    z.find_local_time_type_from_local_P year ℓ ≠ .panic
      ∧ ∃ m, z.find_local_time_type_from_local_P year ℓ = .ok m := by
  rw [find_local_P_val z (parsed_lookupSafe bytes z h) year hy ℓ]
  exact ⟨by simp, _, rfl⟩

/-- the three-valued lookup by instant IS property C05's model of the same function (`Option`-valued;
proved there against the specification of a zone): same value, `Err` for `Err` -/
theorem lookup_instant_is_c05 (bytes : List Nat) (z : Zone) (h : parse bytes = .ok z) (t : Int) :
    z.find_local_time_type_P t = toP (z.find_local_time_type t) :=
  find_P_val z (parsed_lookupSafe bytes z h) t

/-- the three-valued lookup by wall clock IS property C05's model of the same function, the year
being that of the wall-clock value (`naiveYear`, an `i32` for every `ℓ`) -/
theorem lookup_local_is_c05 (bytes : List Nat) (z : Zone) (h : parse bytes = .ok z) (ℓ : Int) :
    z.find_local_time_type_from_local_P (M.TzL.naiveYear ℓ) ℓ = .ok (z.find_local_time_type_from_local ℓ) := by
  rw [find_local_P_val z (parsed_lookupSafe bytes z h) _ (naiveYear_i32 ℓ) ℓ, fromLocalWithYear_naive]

/-- the same for a zone built from a `TZ` value that is a rule text (`TimeZone::from_posix_tz`: no
transitions, the rule's own types): both lookups never panic -/
theorem lookup_tz_string_total (text : List Nat) (ext : Bool) (r : Rule) (h : from_tz_string text ext = .ok r)
    (t : Int) (year : Int) (hy : I32r year) (ℓ : Int) :
    (zoneOfRule r).find_local_time_type_P t ≠ .panic
      ∧ (zoneOfRule r).find_local_time_type_from_local_P year ℓ ≠ .panic := by
  have hs := zoneOfRule_lookupSafe r (rule_accepted_is_valid text ext r h)
  rw [find_P_val _ hs t, find_local_P_val _ hs year hy ℓ]
  refine ⟨?_, by simp⟩
  cases (zoneOfRule r).find_local_time_type t <;> simp [toP]

/-- non-vacuity, on the file of finding #10 (transitions at `0` and `i64::MAX − 5`, the latter
switching to UTC+2): it is accepted; `transition time + offset` does not fit `i64`, so the two sums
of the wall-clock loop saturate; both lookups answer at the extremes of `i64` -/
example :
    parse (encodeTzif sampleF10) = .ok (absBlock sampleF10.v2 none)
      ∧ ¬ I64r (9223372036854775802 + 7200)
      ∧ (absBlock sampleF10.v2 none).find_local_time_type_from_local_P 2020 1577836800
          = .ok (.single ⟨0, false, some (asc "UTC")⟩)
      ∧ (absBlock sampleF10.v2 none).find_local_time_type_from_local_P 262142 9223372036854775807
          = .ok (.single ⟨7200, true, some (asc "XDT")⟩)
      ∧ (absBlock sampleF10.v2 none).find_local_time_type_P 9223372036854775807
          = .ok ⟨7200, true, some (asc "XDT")⟩
      ∧ (absBlock sampleF10.v2 none).find_local_time_type_P (-9223372036854775808)
          = .ok ⟨0, false, some (asc "UTC")⟩ := by
  refine ⟨by decide +kernel, by decide, by decide +kernel, by decide +kernel, by decide +kernel,
    by decide +kernel⟩

/-- non-vacuity: on `sampleV2` (New York's rule after the last transition) the instant lookup errs
exactly where the rule's year arithmetic leaves `i32`, and answers elsewhere -/
example :
    (absBlock sampleV2.v2 (some sampleRule2)).find_local_time_type_P 9223372036854775807 = .err
      ∧ (absBlock sampleV2.v2 (some sampleRule2)).find_local_time_type_P 1720000000
          = .ok ⟨-14400, true, some (asc "EDT")⟩
      ∧ (absBlock sampleV2.v2 (some sampleRule2)).find_local_time_type_from_local_P 2024 1710037800
          = .ok .none := by
  refine ⟨by decide +kernel, by decide +kernel, by decide +kernel⟩

/-- non-vacuity (kernel evaluation): three concrete written files are read back exactly — v1 with
leap seconds and indicators, v2 with a POSIX footer consistent with its last transition, v3 with an
extension footer -/
example :
    parse (encodeTzif sampleV1) = .ok (absBlock sampleV1.v1 none)
      ∧ parse (encodeTzif sampleV2) = .ok (absBlock sampleV2.v2 (some sampleRule2))
      ∧ parse (encodeTzif sampleV3) = .ok (absBlock sampleV3.v2 (some sampleRule3)) :=
  tzif_roundtrip_samples

/-- `sampleV2`'s footer rule `EST5EDT,M3.2.0,M11.1.0` agrees with its last transition
(2023-11-14 22:13:20 UTC, standard time) -/
theorem sampleV2_agrees : RuleAgrees (absBlock sampleV2.v2 (some sampleRule2)) := by
  intro rule last h1 h2
  cases h1
  have e : (absBlock sampleV2.v2 (some sampleRule2)).transitions.getLast? = some ⟨1700000000, 0⟩ := by decide
  rw [e] at h2
  cases h2
  exact ⟨1700000000, ⟨-18000, false, some (asc "EST")⟩, by decide, by decide, by decide +kernel⟩

/-- non-vacuity: the hypotheses of `tzif_roundtrip_v2` hold for `sampleV2` as it is, footer
`EST5EDT,M3.2.0,M11.1.0` (DST offset and times omitted) -/
example : parse (encodeTzif sampleV2) = .ok (absBlock sampleV2.v2 (some sampleRule2)) :=
  tzif_roundtrip_v2 sampleV2 (by decide) sampleV2_shape1 sampleV2_shape2 sampleV2_vals _
    (Or.inr ⟨sampleRule2, rfl, tz_accepts_only _ _ _ (tz_spellings_samples (false, _, _) (by decide))⟩)
    (show (1000000000 : Int) < 1700000000 ∧ True from ⟨by decide, trivial⟩) (by decide) (by decide)
    sampleV2_agrees

/-- the canonical footer is one admissible footer among many -/
example : FooterOk .V2 (renderTz sampleRule2) (some sampleRule2) :=
  Or.inr ⟨sampleRule2, rfl, canonical_denotes _ _ (by decide)⟩

/-- non-vacuity of the "only if" direction: the same zone with the last transition switching to
daylight time in mid-November is refused by `validate`, hence does not satisfy `RuleAgrees`; and the
specification-level condition holds for the consistent zone -/
example :
    validate sampleBadZone = .err ∧ ¬ RuleAgrees sampleBadZone
      ∧ RuleAgreesSpec (absBlock sampleV2.v2 (some sampleRule2)) := by
  have hv : validate sampleBadZone = .err := by decide +kernel
  refine ⟨hv, ?_, ?_⟩
  · intro hag
    have := (validate_iff sampleBadZone (by decide) (by
      intro r hr; cases hr; exact ruleOk_ruleV false _ (by decide))).mpr
      ⟨by decide, show (1000000000 : Int) < 1700000000 ∧ True from ⟨by decide, trivial⟩, by decide,
        by decide, hag⟩
    rw [hv] at this
    cases this
  · intro rule last h1 h2
    cases h1
    have e : (absBlock sampleV2.v2 (some sampleRule2)).transitions.getLast? = some ⟨1700000000, 0⟩ := by decide
    rw [e] at h2
    cases h2
    exact ⟨1700000000, by decide, by decide +kernel⟩

/-! ### inconsistent data is rejected (stated on the input) -/

/-- COUNTS THAT DISAGREE WITH THE DATA: an accepted file has exactly the layout its header counts
announce.  Version 1: the file is the 44-byte header plus the data block of the size the six counts
give (`announcedLen 4`) and nothing else — any other length is rejected.  Versions 2 and 3: that,
followed by the second header and ITS announced block with 8-byte times, followed by a footer that
starts and ends with a newline.  (`hdrCount` reads the big-endian counts at byte offsets 20…43.) -/
theorem accepted_layout (bytes : List Nat) (z : Zone) (h : parse bytes = .ok z) :
    (versionOf ((bytes.drop 4).take 1) = some .V1 → bytes.length = announcedLen 4 bytes)
      ∧ (versionOf ((bytes.drop 4).take 1) ≠ some .V1 →
          bytes.length = announcedLen 4 bytes + announcedLen 8 (bytes.drop (announcedLen 4 bytes))
              + (footerOf bytes).length
            ∧ (footerOf bytes).head? = some 10 ∧ (footerOf bytes).getLast? = some 10) :=
  accepted_layout' bytes z h

/-- … hence: a version-1 file whose length differs from what its counts announce is rejected, and so
is a version-2/3 file not longer than its two announced blocks (the footer has at least its first
newline) -/
theorem rejects_count_mismatch (bytes : List Nat) :
    (versionOf ((bytes.drop 4).take 1) = some .V1 → bytes.length ≠ announcedLen 4 bytes →
        parse bytes = .err)
      ∧ (versionOf ((bytes.drop 4).take 1) ≠ some .V1 →
          bytes.length ≤ announcedLen 4 bytes + announcedLen 8 (bytes.drop (announcedLen 4 bytes)) →
        parse bytes = .err) := by
  constructor
  · intro hv hne
    cases hp : parse bytes with
    | ok z => exact absurd ((accepted_layout bytes z hp).1 hv) hne
    | err => rfl
    | panic => exact absurd hp (parse_total bytes)
  · intro hv hlt
    cases hp : parse bytes with
    | ok z =>
      exfalso
      obtain ⟨h1, h2, -⟩ := (accepted_layout bytes z hp).2 hv
      cases hf : footerOf bytes with
      | nil => rw [hf] at h2; cases h2
      | cons a t =>
        rw [hf] at h1
        simp only [List.length_cons] at h1
        omega
    | err => rfl
    | panic => exact absurd hp (parse_total bytes)

/-- MALFORMED FOOTER, on `parse` itself: a version-1 zone has no rule; for versions 2 and 3 the
footer of an accepted file (`accepted_layout`: newline-framed; `rejects_short_footer`: two bytes at
least) is valid UTF-8, its TZ string — the footer without surrounding ASCII white space — neither
starts with `:` nor contains a NUL, and it is either empty with no rule in the zone, or a string of
the TZ grammar DENOTING the zone's rule, the extension flag being EXACTLY "the file is version 3":
`v2` is the version field of the second header AND of the first (they agree since the repair of F35,
`accepted_versions_agree`).  Any other footer is therefore rejected; in particular a footer using
the RFC 8536 extensions in a version-2 file. -/
theorem accepted_footer (bytes : List Nat) (z : Zone) (h : parse bytes = .ok z) :
    (versionOf ((bytes.drop 4).take 1) = some .V1 → z.rule = none)
      ∧ (versionOf ((bytes.drop 4).take 1) ≠ some .V1 → ∃ v2, secondVersion bytes = some v2
          ∧ firstVersion bytes = some v2
          ∧ validUtf8 (footerOf bytes) = true ∧ (trimWs (footerOf bytes)).head? ≠ some 58
            ∧ 0 ∉ trimWs (footerOf bytes)
            ∧ ((trimWs (footerOf bytes) = [] ∧ z.rule = none)
                ∨ ∃ x, z.rule = some x ∧ Denotes (v2 == .V3) (trimWs (footerOf bytes)) x)) := by
  refine ⟨(accepted_footer' bytes z h).1, fun hne => ?_⟩
  obtain ⟨v2, hv2, hv1, -, -, hf⟩ := (accepted_decode' bytes z h).2 hne
  exact ⟨v2, hv2, hv1, parseFooter_ok_inv hf⟩

/-- … hence a footer that is in the grammar only WITH the extensions is rejected unless the second
header says version 3 -/
theorem rejects_ext_footer_below_v3 (bytes : List Nat)
    (h1 : versionOf ((bytes.drop 4).take 1) ≠ some .V1) (h2 : secondVersion bytes ≠ some .V3)
    (hne : trimWs (footerOf bytes) ≠ [])
    (hf : ∀ x, ¬ Denotes false (trimWs (footerOf bytes)) x) : parse bytes = .err := by
  cases hp : parse bytes with
  | ok z =>
    exfalso
    obtain ⟨v2, hv2, -, -, -, -, hd⟩ := (accepted_footer bytes z hp).2 h1
    rcases hd with ⟨he, -⟩ | ⟨x, -, hx⟩
    · exact hne he
    · cases v2 with
      | V3 => exact h2 hv2
      | V1 => exact hf x hx
      | V2 => exact hf x hx
  | err => rfl
  | panic => exact absurd hp (parse_total bytes)

/-- BAD VERSION, second header: a version-2/3 file whose second header carries an unknown version byte
(anything but `0x00`, `'2'`, `'3'`) is rejected -/
theorem rejects_bad_version2 (bytes : List Nat) (h1 : versionOf ((bytes.drop 4).take 1) ≠ some .V1)
    (h : secondVersion bytes = none) : parse bytes = .err := by
  cases hp : parse bytes with
  | ok z =>
    obtain ⟨v2, hv2, -⟩ := (accepted_decode' bytes z hp).2 h1
    rw [h] at hv2; cases hv2
  | err => rfl
  | panic => exact absurd hp (parse_total bytes)

/-- THE READER'S VALUE ON EVERY WRITTEN FILE, versions 2 and 3.  For every file written by the
specification's writer whose counts fit the header (`BlockShape`) and whose values merely fit their
fields (`BlockFits`: times `i64`, offsets and corrections `i32` — NO condition on order, indices,
designations or the rule), with any admissible footer: `parse` returns the written zone if the written
data are `Consistent` (legal type records, admissible indicators, strictly increasing transitions,
type indices in range, leap-table constraints, rule agreeing with the last transition) and `Err`
otherwise. -/
theorem parse_written (f : TzFile) (hver : f.version ≠ .V1) (hs1 : BlockShape f.v1)
    (hs2 : BlockShape f.v2) (hfit : BlockFits f.version 8 f.v2) (rule : Option Rule)
    (hfoot : FooterOk f.version f.footer rule) :
    (Consistent f.v2 rule → parse (encodeTzif f) = .ok (absBlock f.v2 rule))
      ∧ (¬ Consistent f.v2 rule → parse (encodeTzif f) = .err) :=
  parse_written_v2' f hver hs1 hs2 hfit rule hfoot

/-- the same for version 1 (32-bit times, no footer, no rule) -/
theorem parse_written_v1 (f : TzFile) (hver : f.version = .V1) (hs : BlockShape f.v1)
    (hfit : BlockFits .V1 4 f.v1) :
    (Consistent f.v1 none → parse (encodeTzif f) = .ok (absBlock f.v1 none))
      ∧ (¬ Consistent f.v1 none → parse (encodeTzif f) = .err) :=
  parse_written_v1' f hver hs hfit

/-- the classes the property names, each on its own: a written file (v2/v3; values fitting their
fields, admissible footer) is REJECTED if its transitions are not strictly increasing, or a
transition's type index is out of bounds, or a type's designation index is out of bounds, or an
offset is 24 hours or more in magnitude (86400 s … `i32::MAX`, −86400 s … `i32::MIN`; F32), or the indicator arrays contain the forbidden couple, or the leap-second table
violates its constraints, or the footer rule disagrees with the last transition -/
theorem rejects_written_classes (f : TzFile) (hver : f.version ≠ .V1) (hs1 : BlockShape f.v1)
    (hs2 : BlockShape f.v2) (hfit : BlockFits f.version 8 f.v2) (rule : Option Rule)
    (hfoot : FooterOk f.version f.footer rule)
    (h : ¬ SortedStrict (absBlock f.v2 rule).transitions
      ∨ (∃ t ∈ f.v2.trans, f.v2.types.length ≤ t.2)
      ∨ (∃ t ∈ f.v2.types, f.v2.names.length ≤ t.abbr)
      ∨ (∃ t ∈ f.v2.types, t.off ≤ -86400 ∨ 86400 ≤ t.off)
      ∨ badIndicators f.v2.types.length f.v2.stdWalls f.v2.utLocals = true
      ∨ checkLeaps (absBlock f.v2 rule).leaps = false
      ∨ ¬ RuleAgrees (absBlock f.v2 rule)) :
    parse (encodeTzif f) = .err := by
  refine (parse_written f hver hs1 hs2 hfit rule hfoot).2 ?_
  rintro ⟨c1, c2, c3, c4, c5, c6⟩
  rcases h with h | ⟨t, ht, hle⟩ | ⟨t, ht, hle⟩ | ⟨t, ht, hmin⟩ | h | h | h
  · exact h c3
  · have := c4 ⟨t.1, t.2⟩ (by
      simp only [absBlock, List.mem_map]
      exact ⟨t, ht, rfl⟩)
    simp only [absBlock, List.length_map] at this
    omega
  · have := (c1 t ht).2.2.1
    omega
  · have := (c1 t ht).2.1
    omega
  · rw [h] at c2; cases c2
  · rw [h] at c5; cases c5
  · exact h c6

/-- non-vacuity: `sampleV2`'s values fit their fields and its data are consistent; swapping its two
transition times gives an unsorted table, which `rejects_written_classes` rejects -/
example :
    BlockFits sampleV2.version 8 sampleV2.v2 ∧ Consistent sampleV2.v2 (some sampleRule2)
      ∧ parse (encodeTzif { sampleV2 with v2 := { sampleV2.v2 with trans := [(1700000000, 1), (1000000000, 0)] } })
          = .err := by
  have hfit : BlockFits sampleV2.version 8 sampleV2.v2 :=
    ⟨sampleV2_vals.trans, fun t ht => (sampleV2_vals.types t ht).1, sampleV2_vals.leaps⟩
  refine ⟨hfit, ⟨sampleV2_vals.types, sampleV2_vals.ind,
    show (1000000000 : Int) < 1700000000 ∧ True from ⟨by decide, trivial⟩, by decide, by decide,
    sampleV2_agrees⟩, ?_⟩
  refine rejects_written_classes _ (by decide) sampleV2_shape1
    ⟨by decide, by decide, by decide, by decide, by decide, by decide, by decide, by decide⟩
    ⟨by decide +kernel, by decide +kernel, by decide +kernel⟩ (some sampleRule2)
    (Or.inr ⟨sampleRule2, rfl, tz_accepts_only _ _ _ (tz_spellings_samples (false, _, _) (by decide))⟩)
    (Or.inl ?_)
  show ¬ ((1700000000 : Int) < 1000000000 ∧ True)
  intro h; exact absurd h.1 (by decide)

/-- non-vacuity: every cut point of the three sample files (kernel evaluation) -/
example :
    (∀ k, k < (encodeTzif sampleV1).length → parse ((encodeTzif sampleV1).take k) = .err)
      ∧ (∀ k, k < (encodeTzif sampleV2).length → k ≠ footerStart sampleV2 + 1 →
          parse ((encodeTzif sampleV2).take k) = .err)
      ∧ (∀ k, k < (encodeTzif sampleV3).length → k ≠ footerStart sampleV3 + 1 →
          parse ((encodeTzif sampleV3).take k) = .err) :=
  rejects_truncated_samples

/-- non-vacuity: `RuleOk` is met by 15 rules spanning both forms and all range ends -/
example : ∀ p ∈ sampleRules, RuleOk p.1 p.2 ∧ from_tz_string (renderTz p.2) p.1 = .ok p.2 :=
  tz_roundtrip_samples

/-- malformed rule texts are refused (each line is one class the property names) -/
theorem tz_rejects_samples : ∀ t ∈ badRuleTexts, from_tz_string t.1 t.2 = .err := by decide +kernel

/-- malformed footers / header extremes on a concrete file are refused -/
theorem rejects_samples : ∀ b ∈ badFiles, parse b = .err := by decide +kernel

/-- non-vacuity: `sampleV2` requests room for 2 transitions, 2 types and no leap second (64 bytes)
from a file of 157 bytes; the constant 16/5 cannot be lowered to 1 — a version-1 file of ten
transitions has 100 + 44 + 6 + 1 bytes and asks for 160 + 16 -/
example : capacities (encodeTzif sampleV2) = [2, 2, 0] ∧ (capacityBytes (encodeTzif sampleV2)).sum = 64
    ∧ (encodeTzif sampleV2).length = 157 := by decide +kernel

/-- non-vacuity: the readers do accept something non-trivial, and do refuse something -/
example : (∃ z, parse (encodeTzif sampleV2) = .ok z ∧ z.transitions.length = 2 ∧ z.types.length = 2)
    ∧ parse [] = .err ∧ sampleRules.length ≥ 10 ∧ badFiles.length ≥ 10 := by
  refine ⟨⟨_, tzif_roundtrip_samples.2.1, by decide, by decide⟩, by decide, by decide, by decide⟩

example : ZoneValid (absBlock sampleV2.v2 (some sampleRule2)) :=
  accepted_is_valid _ _ tzif_roundtrip_samples.2.1

/-! ### F32 (repaired by 770977e): accepted zones are representable, and `Local` answers on them

Finding F32: the readers accepted a zone whose UTC offset is 24 hours or more in magnitude
(`TZ=AAA24`, `TZ=XXX-24:30`, `AAA5BBB24,M3.2.0,M11.1.0`, a TZif type with `utoff` 86400 or `i32::MAX`;
`LocalTimeType::new` refused `i32::MIN` only), and `Local::now()`, `Local.from_utc_datetime`,
`Local.timestamp_opt` … then panicked: `inner::offset_from_utc_datetime(utc).unwrap()`
(src/offset/local/mod.rs) on the `MappedLocalTime::None` that `FixedOffset::east_opt` produces in
`Cache::offset`.  Since the repair `LocalTimeType::new` / `with_offset` (model: `Ltt.new`,
`Ltt.with_offset`) refuse `ut_offset ≤ −86400 ∨ ut_offset ≥ 86400`.  `zoneTypes z` are the local time
types a zone can answer with (its table's and its rule's); `M.TzL.local_offset_from_utc_datetime`
(Model/TzLocal.lean) is `<Local as TimeZone>::offset_from_utc_datetime` with the `unwrap` modelled
as a panic. -/

/-- (a) EVERY local time type of EVERY accepted zone — TZif bytes or TZ string, table or rule, given or
defaulted DST offset, referred to by a transition or not — is strictly within 24 hours of UTC, i.e.
`FixedOffset::east_opt` holds it -/
theorem accepted_offsets_representable :
    (∀ (bytes : List Nat) (z : Zone), parse bytes = .ok z → ∀ t ∈ zoneTypes z, -86400 < t.off ∧ t.off < 86400)
      ∧ (∀ (text : List Nat) (ext : Bool) (r : Rule), from_tz_string text ext = .ok r →
          ∀ t ∈ zoneTypes (zoneOfRule r), -86400 < t.off ∧ t.off < 86400) :=
  ⟨fun bytes z h t ht => parsed_within bytes z h t ht,
   fun text ext r h t ht => rule_within text ext r h t (zoneOfRule_types r t ht)⟩

/-- the constructors themselves: `LocalTimeType::new` and `with_offset` refuse exactly the offsets of
24 hours or more (whatever the flag and the designation), and return the offset given otherwise -/
theorem ltt_new_refuses_iff (off : Int) (dst : Bool) (name : Option (List Nat)) :
    ((off ≤ -86400 ∨ 86400 ≤ off) → Ltt.new off dst name = .err ∧ Ltt.with_offset off = .err)
      ∧ ((-86400 < off ∧ off < 86400) → Ltt.with_offset off = .ok ⟨off, false, none⟩
          ∧ Ltt.new off dst none = .ok ⟨off, dst, none⟩
          ∧ ∀ n, NameOk n → Ltt.new off dst (some n) = .ok ⟨off, dst, some n⟩) := by
  constructor
  · intro h
    unfold Ltt.new Ltt.with_offset
    rw [if_pos (by omega), if_pos (by omega)]
    exact ⟨rfl, rfl⟩
  · intro h
    refine ⟨?_, ?_, fun n hn => ltt_new_ok off dst n h hn⟩
    · unfold Ltt.with_offset; rw [if_neg (by omega)]
    · unfold Ltt.new; rw [if_neg (by omega)]

/-- a TZ string that meets the field ranges of the grammar (`hh ≤ 24`) but states — or defaults to — an
offset of 24:00:00 or more is REFUSED: with `tz_reader_is_grammar`, exactly the side condition
`Within24h` of `Denotes` separates these texts from the accepted ones -/
theorem tz_rejects_24h (ext : Bool) (s : List Nat) (r : Rule) (h : from_tz_string s ext = .ok r) :
    ∀ t ∈ ruleTypes r, Within24h t.off :=
  rule_within s ext r h

/-- (b) LOOKUP TOTALITY AT THE `Local` LEVEL, TZif zones: for every zone `parse` accepts and every
instant a `NaiveDateTime` can hold (`NDT_MIN_TS … NDT_MAX_TS`, tied to the calendar by
`Props.C05.ndt_range_ok`), the zone lookup succeeds (`expect` in `Cache::offset` does not fire),
`FixedOffset::east_opt` holds the offset, `Cache::offset(d, false)` is `Single`, and hence the
`unwrap` of `Local::offset_from_utc_datetime` does not fire: the result is `Ok o`, `o` being the
offset of one of the zone's own local time types -/
theorem local_offset_total (bytes : List Nat) (z : Zone) (h : parse bytes = .ok z) (x : Int)
    (hx : M.TzL.NDT_MIN_TS ≤ x ∧ x ≤ M.TzL.NDT_MAX_TS) :
    ∃ o, M.TzL.local_offset_from_utc_datetime z x = .ok o
      ∧ M.TzL.cache_offset z x false = .ok (.single o)
      ∧ (-86400 < o ∧ o < 86400) ∧ ∃ l ∈ zoneTypes z, l.off = o :=
  local_offset_ok z (parsed_instantSafe bytes z h) (parsed_within bytes z h) x hx

/-- (b) the same for a zone built from a `TZ` value that is a rule text (`TimeZone::from_posix_tz`) -/
theorem local_offset_total_tz_string (text : List Nat) (ext : Bool) (r : Rule)
    (h : from_tz_string text ext = .ok r) (x : Int) (hx : M.TzL.NDT_MIN_TS ≤ x ∧ x ≤ M.TzL.NDT_MAX_TS) :
    ∃ o, M.TzL.local_offset_from_utc_datetime (zoneOfRule r) x = .ok o
      ∧ M.TzL.cache_offset (zoneOfRule r) x false = .ok (.single o)
      ∧ (-86400 < o ∧ o < 86400) ∧ ∃ l ∈ ruleTypes r, l.off = o := by
  obtain ⟨o, h1, h2, h3, l, hl, he⟩ := local_offset_ok (zoneOfRule r) (zoneOfRule_instantSafe r)
    (fun t ht => rule_within text ext r h t (zoneOfRule_types r t ht)) x hx
  exact ⟨o, h1, h2, h3, l, zoneOfRule_types r l hl, he⟩

/-- … hence `Local.timestamp_opt` / `timestamp_millis_opt` / `timestamp_micros` / `timestamp_nanos`
/ `from_utc_datetime` / `Local::now()` (all: `from_utc_datetime` of an instant in range) never panic on
an accepted zone: out of range is `MappedLocalTime::None` by value, in range is `Single` -/
theorem local_timestamp_total (bytes : List Nat) (z : Zone) (h : parse bytes = .ok z) (secs : Int) :
    M.TzL.local_timestamp_opt z secs ≠ .panic := by
  have := local_timestamp_ok z (parsed_instantSafe bytes z h) (parsed_within bytes z h) secs
  by_cases c : M.TzL.NDT_MIN_TS ≤ secs ∧ secs ≤ M.TzL.NDT_MAX_TS
  · obtain ⟨o, ho, -⟩ := this.2 c
    rw [ho]; exact fun e => by cases e
  · rw [this.1 c]; exact fun e => by cases e

/-- non-vacuity: New York's sample zone through the `Local` glue at 2024-07-01 and at both ends of the
`NaiveDateTime` range; the zone of `TZ=AAA-23:59:59` (offset +86399, the largest there is) answers too -/
example :
    M.TzL.local_offset_from_utc_datetime (absBlock sampleV2.v2 (some sampleRule2)) 1719835200 = .ok (-14400)
      ∧ M.TzL.local_offset_from_utc_datetime (absBlock sampleV2.v2 (some sampleRule2)) M.TzL.NDT_MIN_TS = .ok (-18000)
      ∧ M.TzL.local_offset_from_utc_datetime (absBlock sampleV2.v2 (some sampleRule2)) M.TzL.NDT_MAX_TS = .ok (-18000)
      ∧ from_tz_string (asc "AAA-23:59:59") false = .ok (.fixed ⟨86399, false, some (asc "AAA")⟩)
      ∧ M.TzL.local_offset_from_utc_datetime (zoneOfRule (.fixed ⟨86399, false, some (asc "AAA")⟩)) 0 = .ok 86399 := by
  refine ⟨by decide +kernel, by decide +kernel, by decide +kernel, by decide +kernel, by decide +kernel⟩

/-- (c) THE PINNED BEHAVIOUR BEFORE THE REPAIR, kernel-checked: the old acceptance test
(`Ltt.new_before_F32`: only `i32::MIN` refused) builds the local time type of `TZ=AAA-24` (offset
+86400) and of a TZif type with `utoff` 86400 or `i32::MAX`; on the zone holding it the model of
`Local::offset_from_utc_datetime` PANICS at every instant (the `unwrap` of `MappedLocalTime::None`),
while the wall-clock direction answers `None` by value.  The repaired constructor refuses all three. -/
theorem local_panics_pinned_before_F32 :
    Ltt.new_before_F32 86400 false (some (asc "AAA")) = .ok ⟨86400, false, some (asc "AAA")⟩
      ∧ Ltt.new_before_F32 2147483647 true none = .ok ⟨2147483647, true, none⟩
      ∧ (∀ x, M.TzL.local_offset_from_utc_datetime (zoneOfRule (.fixed ⟨86400, false, some (asc "AAA")⟩)) x = .panic)
      ∧ (∀ x, M.TzL.local_offset_from_utc_datetime ⟨[], [⟨2147483647, true, none⟩], [], none⟩ x = .panic)
      ∧ (∀ x, M.TzL.NDT_MIN_TS ≤ x ∧ x ≤ M.TzL.NDT_MAX_TS →
            M.TzL.local_timestamp_opt ⟨[], [⟨-86400, false, none⟩], [], none⟩ x = .panic)
      ∧ M.TzL.cache_offset (zoneOfRule (.fixed ⟨86400, false, some (asc "AAA")⟩)) 0 true = .ok .none
      ∧ Ltt.new 86400 false (some (asc "AAA")) = .err ∧ Ltt.new 2147483647 true none = .err
      ∧ Ltt.new (-86400) false none = .err
      ∧ from_tz_string (asc "AAA-24") false = .err ∧ from_tz_string (asc "AAA24") false = .err
      ∧ from_tz_string (asc "AAA5BBB24,M3.2.0,M11.1.0") false = .err := by
  refine ⟨by decide +kernel, by decide +kernel, fun x => rfl, fun x => rfl, fun x hx => ?_, by decide +kernel,
    by decide +kernel, by decide +kernel, by decide +kernel, by decide +kernel, by decide +kernel,
    by decide +kernel⟩
  unfold M.TzL.local_timestamp_opt
  rw [if_pos hx]
  rfl

/-! ### round 3: what an ARBITRARY accepted file is read as (decode soundness)

`Spec.Tz.decodeBlock ts v blk rule` (Spec/TzDecodeSpec.lean) is the zone the bytes of a block SAY,
field by field, at the byte offsets its six header counts determine (RFC 8536 §3.2): `timecnt` time
fields of `ts` bytes from offset 44, `timecnt` type-index bytes, `typecnt` records `utoff(4) isdst(1)
desigidx(1)`, `charcnt` designation bytes, `leapcnt` records `time(ts) corr(4)` — no reader function
occurs in it.  `v` is the version field of the block's own header: it decides how a time field is
taken (`fieldTime`). -/

/-- DECODE SOUNDNESS, every accepted byte string (not only the image of the specification's writer): a
version-1 file is read as what its only block says (4-byte times, no rule); a version-2/3 file is read
as what its SECOND block says — the block that starts `announcedLen 4 bytes` bytes into the file —
with full 8-byte time fields (`v2` is the version of BOTH headers and is not 1, so `fieldTime v2` is
the whole field: `accepted_decode_consistent`), and the rule its footer denotes (`accepted_footer`).
Besides, every type record has `isdst ∈ {0, 1}` and a designation index inside the designation array
with a NUL after it (`TypeRecsOk`).  With `accepted_is_valid` this carries the rejection classes 7e–7g
over to arbitrary bytes: a file whose FIELDS are unsorted, or point outside the type / designation
arrays, or state an offset of 24 h or more, is rejected. -/
theorem accepted_decode (bytes : List Nat) (z : Zone) (h : parse bytes = .ok z) :
    (firstVersion bytes = some .V1 → z = decodeBlock 4 .V1 bytes none ∧ TypeRecsOk 4 bytes)
      ∧ (firstVersion bytes ≠ some .V1 → ∃ v2, secondVersion bytes = some v2 ∧ firstVersion bytes = some v2
          ∧ z = decodeBlock 8 v2 (bytes.drop (announcedLen 4 bytes)) z.rule
          ∧ TypeRecsOk 8 (bytes.drop (announcedLen 4 bytes))) := by
  refine ⟨(accepted_decode' bytes z h).1, fun hne => ?_⟩
  obtain ⟨v2, a, a', b, c, -⟩ := (accepted_decode' bytes z h).2 hne
  exact ⟨v2, a, a', b, c⟩

/-- … stated on the input: whatever bytes are accepted, the FIELDS they hold are strictly increasing
transition times, type indices below `typecnt`, and offsets strictly within 24 hours -/
theorem accepted_fields_valid (bytes : List Nat) (z : Zone) (h : parse bytes = .ok z) :
    ∃ ts v blk, z = decodeBlock ts v blk z.rule
      ∧ SortedStrict ((List.range (hdrCount blk 3)).map (decTransition ts v blk))
      ∧ (∀ i, i < hdrCount blk 3 → (idxArr ts blk).getD i 0 < hdrCount blk 4)
      ∧ (∀ i, i < hdrCount blk 4 → -86400 < (decType ts blk i).off ∧ (decType ts blk i).off < 86400) := by
  have hv := accepted_is_valid bytes z h
  have key : ∀ ts v blk, z = decodeBlock ts v blk z.rule →
      SortedStrict ((List.range (hdrCount blk 3)).map (decTransition ts v blk))
      ∧ (∀ i, i < hdrCount blk 3 → (idxArr ts blk).getD i 0 < hdrCount blk 4)
      ∧ (∀ i, i < hdrCount blk 4 → -86400 < (decType ts blk i).off ∧ (decType ts blk i).off < 86400) := by
    intro ts v blk e
    obtain ⟨-, h1, h2, h3⟩ := hv
    rw [e] at h1 h2 h3
    simp only [decodeBlock] at h1 h2 h3
    refine ⟨h1, fun i hi => ?_, fun i hi => ?_⟩
    · have := h2 (decTransition ts v blk i) (List.mem_map.mpr ⟨i, List.mem_range.mpr hi, rfl⟩)
      simpa [decTransition] using this
    · exact (h3 (decType ts blk i) (List.mem_map.mpr ⟨i, List.mem_range.mpr hi, rfl⟩)).1
  by_cases hf : firstVersion bytes = some .V1
  · obtain ⟨e, -⟩ := (accepted_decode bytes z h).1 hf
    have e' : z = decodeBlock 4 .V1 bytes z.rule := by
      have hr : z.rule = none := by rw [e]; rfl
      rw [hr]; exact e
    exact ⟨4, .V1, bytes, e', key _ _ _ e'⟩
  · obtain ⟨v2, -, -, e, -⟩ := (accepted_decode bytes z h).2 hf
    exact ⟨8, v2, _, e, key _ _ _ e⟩

/-! #### F35 (repaired by 8cebd0e): the two headers must carry the same version

Finding F35: the reader checked each version byte for membership in `{0x00, '2', '3'}` only and then
decoded with the SECOND one; the pair was never compared.  A file whose first header says version 2
and whose second header says version 1 was accepted and its 8-byte times were read as their high four
bytes; a 2/3 pair was accepted with a footer only version 3 allows.  Since the repair `parse` refuses
the file when the second header's version differs from the first's. -/

/-- the second header's version EQUALS the first's, for every accepted version-2/3 file -/
theorem accepted_versions_agree (bytes : List Nat) (z : Zone) (h : parse bytes = .ok z)
    (hne : firstVersion bytes ≠ some .V1) : secondVersion bytes = firstVersion bytes := by
  obtain ⟨v2, a, b, -⟩ := (accepted_decode bytes z h).2 hne
  rw [a, b]

/-- INCONSISTENT VERSIONS ARE REJECTED, universally: any file of version 2 or 3 whose second header's
version field — known or unknown byte — differs from the first's (with `rejects_bad_version` for an
unknown first byte; a version-1 file has no second header: `accepted_layout`) -/
theorem rejects_inconsistent_versions (bytes : List Nat) (hne : firstVersion bytes ≠ some .V1)
    (hd : secondVersion bytes ≠ firstVersion bytes) : parse bytes = .err := by
  cases hp : parse bytes with
  | ok z => exact absurd (accepted_versions_agree bytes z hp hne) hd
  | err => rfl
  | panic => exact absurd hp (parse_total bytes)

/-- how a time field is taken: under a header that says version 2 or 3 as the whole field (two's
complement, big-endian); under a header that says version 1 as its first four bytes (the whole field
of a first block; the case "8-byte field under a version-1 header" no longer arises, F35) -/
theorem fieldTime_cases (chunk : List Nat) :
    fieldTime .V2 chunk = asI64 (beNat chunk) ∧ fieldTime .V3 chunk = asI64 (beNat chunk)
      ∧ fieldTime .V1 chunk = asI32 (beNat (chunk.take 4)) := ⟨rfl, rfl, rfl⟩

/-- THE FULL STATEMENT (was `accepted_decode_consistent_partial` before the repair, with the agreement
of the two version fields as a hypothesis): an accepted version-2/3 file — `v` the version of its FIRST
header — is read as what its second block says with full 64-bit times, and its footer is in the
grammar of version `v` (extensions iff `v` is 3) -/
theorem accepted_decode_consistent (bytes : List Nat) (z : Zone) (h : parse bytes = .ok z)
    (v : Version) (hv : firstVersion bytes = some v) (hne : v ≠ .V1) :
    z = decodeBlock 8 v (bytes.drop (announcedLen 4 bytes)) z.rule
      ∧ (∀ chunk, fieldTime v chunk = asI64 (beNat chunk))
      ∧ ((trimWs (footerOf bytes) = [] ∧ z.rule = none)
          ∨ ∃ x, z.rule = some x ∧ Denotes (v == .V3) (trimWs (footerOf bytes)) x) := by
  have hne' : versionOf ((bytes.drop 4).take 1) ≠ some .V1 := by
    show firstVersion bytes ≠ some .V1
    rw [hv]; intro e; cases e; exact hne rfl
  obtain ⟨v2, -, hv2, e, -⟩ := (accepted_decode bytes z h).2 hne'
  obtain ⟨v2', -, hv2', -, -, -, hd⟩ := (accepted_footer bytes z h).2 hne'
  rw [hv] at hv2 hv2'
  cases hv2; cases hv2'
  refine ⟨e, fun chunk => ?_, hd⟩
  cases v with
  | V1 => exact absurd rfl hne
  | V2 => rfl
  | V3 => rfl

/-- THE PINNED BEHAVIOUR BEFORE THE REPAIR, kernel-checked on the OLD reader (`parse_before_F35`,
Proofs/TzOldReader.lean; the same bytes were run through the real crate before 8cebd0e): the 119-byte
file `mixedV2V1Hex` — first header `'2'`, second header `0x00`, one 64-bit transition time
`00 00 00 01 00 00 00 02` = 4294967298 — was ACCEPTED with the transition read as `1`; first `'3'` /
second `0x00` likewise; first `'2'` / second `'3'` was accepted WITH a footer that only version 3 allows
(`AAA5BBB,M3.2.0/−1,M11.1.0`).  The repaired reader refuses all of them and still reads the consistent
file. -/
theorem inconsistent_versions_accepted_pinned_before_F35 :
    some (mixedFile .V2 .V1 mixBlock2 []) = hexDecode mixedV2V1Hex
      ∧ parse_before_F35 (mixedFile .V2 .V1 mixBlock2 []) = .ok ⟨[⟨1, 0⟩], [⟨0, false, some (asc "UTC")⟩], [], none⟩
      ∧ parse_before_F35 (mixedFile .V3 .V1 mixBlock2 []) = .ok ⟨[⟨1, 0⟩], [⟨0, false, some (asc "UTC")⟩], [], none⟩
      ∧ parse_before_F35 (mixedExtFile .V2 .V3) = .ok ⟨[], [⟨-18000, false, some (asc "AAA")⟩], [], some mixedExtRule⟩
      ∧ parse (mixedFile .V2 .V1 mixBlock2 []) = .err ∧ parse (mixedFile .V3 .V1 mixBlock2 []) = .err
      ∧ parse (mixedExtFile .V2 .V3) = .err ∧ parse (mixedExtFile .V3 .V2) = .err
      ∧ parse (mixedExtFile .V2 .V2) = .err
      ∧ parse (mixedFile .V2 .V2 mixBlock2 []) = .ok ⟨[⟨4294967298, 0⟩], [⟨0, false, some (asc "UTC")⟩], [], none⟩
      ∧ parse (mixedExtFile .V3 .V3) = .ok ⟨[], [⟨-18000, false, some (asc "AAA")⟩], [], some mixedExtRule⟩
      ∧ firstVersion (mixedFile .V2 .V1 mixBlock2 []) = some .V2
      ∧ secondVersion (mixedFile .V2 .V1 mixBlock2 []) = some .V1 := by
  refine ⟨by decide +kernel, by decide +kernel, by decide +kernel, by decide +kernel, by decide +kernel,
    by decide +kernel, by decide +kernel, by decide +kernel, by decide +kernel, by decide +kernel,
    by decide +kernel, by decide +kernel, by decide +kernel⟩

/-- non-vacuity of `rejects_inconsistent_versions`: the 2/1 file meets its hypotheses -/
example : parse (mixedFile .V2 .V1 mixBlock2 []) = .err :=
  rejects_inconsistent_versions _ (by decide +kernel) (by decide +kernel)

/-! #### F36 (repaired by 4daf52d): a footer has at least two bytes

Finding F36: RFC 8536 §3.3: the footer is `NL TZ-string NL` — two newlines even when the TZ string is
empty.  The reader asked for `starts_with('\n') && ends_with('\n')`, which the ONE-byte footer `"\n"`
meets with the same byte, so a version-2/3 file cut right after its footer's first newline was accepted
WITHOUT its rule (`/usr/share/zoneinfo/America/New_York` cut to 3529 of 3552 bytes: `rule=none`, the
offset on 2040-07-01 became −18000 instead of −14400).  Since the repair the footer arm refuses a
footer shorter than two bytes: `rejects_short_footer`, `rejects_truncated_after_footer_newline`, and
`rejects_truncated_footer` no longer has an exception. -/

/-- THE PINNED BEHAVIOUR BEFORE THE REPAIR, kernel-checked on the OLD footer arm (`parse_before_F36`,
Proofs/TzOldReader.lean): the written samples cut right after the footer's first newline were accepted
without their rule; such a prefix is not what the specification's writer emits for the same blocks
with an empty footer (it is one newline short).  The repaired reader refuses the cuts and accepts the
writer's empty-footer file. -/
theorem truncated_after_footer_newline_accepted_pinned_before_F36 :
    parse_before_F36 ((encodeTzif sampleV2).take (footerStart sampleV2 + 1)) = .ok (absBlock sampleV2.v2 none)
      ∧ parse_before_F36 ((encodeTzif sampleV3).take (footerStart sampleV3 + 1)) = .ok (absBlock sampleV3.v2 none)
      ∧ parse ((encodeTzif sampleV2).take (footerStart sampleV2 + 1)) = .err
      ∧ parse ((encodeTzif sampleV3).take (footerStart sampleV3 + 1)) = .err
      ∧ parse (encodeTzif sampleV2) = .ok (absBlock sampleV2.v2 (some sampleRule2))
      ∧ (encodeTzif sampleV2).take (footerStart sampleV2 + 1) ++ [10] = encodeTzif { sampleV2 with footer := [] }
      ∧ parse (encodeTzif { sampleV2 with footer := [] }) = .ok (absBlock sampleV2.v2 none) := by
  refine ⟨by decide +kernel, by decide +kernel, by decide +kernel, by decide +kernel, by decide +kernel,
    by decide +kernel, by decide +kernel⟩

/-- non-vacuity: every cut point of the two written samples with a footer, NO exception -/
example :
    (∀ k, k < (encodeTzif sampleV2).length → parse ((encodeTzif sampleV2).take k) = .err)
      ∧ (∀ k, k < (encodeTzif sampleV3).length → parse ((encodeTzif sampleV3).take k) = .err) := by
  constructor
  · intro k hk
    by_cases e : k = footerStart sampleV2 + 1
    · rw [e]; exact truncated_after_footer_newline_accepted_pinned_before_F36.2.2.1
    · exact rejects_truncated_samples.2.1 k hk e
  · intro k hk
    by_cases e : k = footerStart sampleV3 + 1
    · rw [e]; exact truncated_after_footer_newline_accepted_pinned_before_F36.2.2.2.1
    · exact rejects_truncated_samples.2.2 k hk e

/-! #### clause 5 outside C05's `InsideYear` class (G4) -/

/-- `tzif_roundtrip_v2` (the `RuleAgrees` form) on a version-3 file with a PERMANENT-daylight-time
footer of the kind zic emits (`EST5EDT,0/0,J365/25`): the footer is in the grammar with the extensions
only (25:00:00), the rule is NOT in C05's class (`¬ TzL.RuleOk`, so `tzif_roundtrip_v2_spec` does not
apply), the rule agrees with the last transition, and the file is read back exactly -/
theorem roundtrip_permanent_dst :
    ¬ Proofs.TzL.RuleOk (some rulePerm)
      ∧ from_tz_string samplePerm.footer true = .ok rulePerm
      ∧ from_tz_string samplePerm.footer false = .err
      ∧ RuleAgrees (absBlock samplePerm.v2 (some rulePerm))
      ∧ parse (encodeTzif samplePerm) = .ok (absBlock samplePerm.v2 (some rulePerm)) := by
  have hd : from_tz_string samplePerm.footer true = .ok rulePerm := by decide +kernel
  have hag : RuleAgrees (absBlock samplePerm.v2 (some rulePerm)) := by
    intro rule last h1 h2
    cases h1
    have e : (absBlock samplePerm.v2 (some rulePerm)).transitions.getLast? = some ⟨1700000000, 0⟩ := by decide
    rw [e] at h2
    cases h2
    exact ⟨1700000000, ⟨-14400, true, some (asc "EDT")⟩, by decide, by decide, by decide +kernel⟩
  refine ⟨?_, hd, by decide +kernel, hag, ?_⟩
  · intro hr
    have h23 : Spec.Zone.InsideYearAt _ 2023 := hr.2.2 2023
    revert h23
    decide +kernel
  · exact tzif_roundtrip_v2 samplePerm (by decide)
      ⟨by decide, by decide, by decide, by decide, by decide, by decide, by decide, by decide⟩
      ⟨by decide, by decide, by decide, by decide, by decide, by decide, by decide, by decide⟩
      ⟨by decide +kernel, by decide +kernel, by decide +kernel, by decide +kernel⟩ _
      (Or.inr ⟨rulePerm, rfl, tz_accepts_only _ _ _ hd⟩)
      (show True from trivial) (by decide) (by decide) hag

/-- non-vacuity of `accepted_decode` / `accepted_footer` / `rejects_bad_version2` on real shapes: the
version-2 sample is what its second block says, with the rule its footer denotes WITHOUT extensions;
an unknown second version byte (`'4'`) is refused -/
example :
    absBlock sampleV2.v2 (some sampleRule2)
        = decodeBlock 8 .V2 ((encodeTzif sampleV2).drop (announcedLen 4 (encodeTzif sampleV2))) (some sampleRule2)
      ∧ secondVersion (encodeTzif sampleV2) = some .V2
      ∧ secondVersion ((encodeTzif sampleV2).set (announcedLen 4 (encodeTzif sampleV2) + 4) 52) = none
      ∧ parse ((encodeTzif sampleV2).set (announcedLen 4 (encodeTzif sampleV2) + 4) 52) = .err := by
  refine ⟨by decide +kernel, by decide +kernel, by decide +kernel, ?_⟩
  exact rejects_bad_version2 _ (by decide +kernel) (by decide +kernel)

end Chrono.Props.C16
