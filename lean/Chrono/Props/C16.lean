/-
  C16 — The TZif and TZ-rule readers accept well-formed data and survive everything else.
  Property statements only.
-/
import Chrono.Proofs.TzL

namespace Chrono.Props.C16
open Chrono Chrono.M.Tz Chrono.Spec.Tz Chrono.Proofs.Tz Chrono.Extracted.TzP

/-- the extracted header constants are the RFC 8536 ones the writer specification uses -/
theorem consts_ok :
    MAGIC = [84, 90, 105, 102] ∧ VERSION_BYTE_V1 = versionByte .V1 ∧ VERSION_BYTE_V2 = versionByte .V2
      ∧ VERSION_BYTE_V3 = versionByte .V3 ∧ RESERVED = 15 ∧ TYPE_RECORD = 6 := by decide

end Chrono.Props.C16
