/-
  C16 — The TZif and TZ-rule readers accept well-formed data and survive everything else.
  Property statements only.  `parse` = `parser::parse` (TZif bytes → zone), `from_tz_string` =
  `TransitionRule::from_tz_string`; results are `ok` / `err` / `panic` (`M.Tz.P`).
-/
import Chrono.Proofs.TzParseL
import Chrono.Proofs.TzSamples

namespace Chrono.Props.C16
open Chrono Chrono.M.Tz Chrono.Spec.Tz Chrono.Proofs.Tz Chrono.Extracted.TzP

/-- the extracted header constants are the RFC 8536 ones the writer specification uses, and the
extracted field bounds are the ones the well-formedness predicates are stated with -/
theorem consts_ok :
    MAGIC = [84, 90, 105, 102] ∧ VERSION_BYTE_V1 = versionByte .V1 ∧ VERSION_BYTE_V2 = versionByte .V2
      ∧ VERSION_BYTE_V3 = versionByte .V3 ∧ RESERVED = 15 ∧ TYPE_RECORD = 6
      ∧ OFFSET_HOUR_MAX = 24 ∧ OFFSET_MINUTE_MAX = 59 ∧ OFFSET_SECOND_MAX = 59
      ∧ RULE_HOUR_MAX = 24 ∧ EXT_HOUR_MIN = -167 ∧ EXT_HOUR_MAX = 167
      ∧ JULIAN1_MIN = 1 ∧ JULIAN1_MAX = 365 ∧ JULIAN0_MAX = 365 ∧ MONTH_MAX = 12 ∧ WEEK_MAX = 5
      ∧ WEEKDAY_MAX = 6 ∧ NAME_MIN = 3 ∧ NAME_MAX = 7 ∧ DEFAULT_RULE_TIME = 7200
      ∧ DEFAULT_DST_DELTA = 3600 ∧ SECONDS_PER_WEEK = 604800
      ∧ CUMUL_DAY_IN_MONTHS_NORMAL_YEAR = [0, 31, 59, 90, 120, 151, 181, 212, 243, 273, 304, 334]
      ∧ DAY_IN_MONTHS_NORMAL_YEAR = [31, 28, 31, 30, 31, 30, 31, 31, 30, 31, 30, 31] := by decide

/-! ### survive everything -/

/-- every byte list is either decoded or refused: no slice index out of bounds, no `usize`/`i32`/`i64`
overflow, no failing table index anywhere in `parse`, the footer reader, `TimeZone::validate` and the
rule lookup `validate` performs (list elements are read as bytes, i.e. modulo 256) -/
theorem parse_total (bytes : List Nat) : parse bytes ≠ .panic := post_np (post_parse bytes)

/-- every `Vec::with_capacity` request `parse` makes is bounded by the input length -/
theorem parse_allocs_bounded (bytes : List Nat) : ∀ c ∈ capacities bytes, c ≤ bytes.length :=
  capacities_le bytes

/-- every text is either read as a rule or refused, with and without the RFC 8536 extensions -/
theorem rule_total (text : List Nat) (ext : Bool) : from_tz_string text ext ≠ .panic :=
  post_np (post_from_tz_string text ext)

/-! ### inconsistent data is rejected (stated on whatever is accepted) -/

/-- an accepted zone has at least one local time type, strictly increasing transition times, every
transition's type index in bounds, no `i32::MIN` offset, and only designations of 3–7 characters
from `[0-9A-Za-z+-]`: unsorted or repeated transitions, out-of-range type indices and illegal
designations are therefore rejected -/
theorem accepted_is_valid (bytes : List Nat) (z : Zone) (h : parse bytes = .ok z) : ZoneValid z :=
  post_spec (post_parse bytes) h

/-- an accepted rule has rule days in range, rule times below one week in magnitude, offsets of
at most 24:59:59 (+1 h for a defaulted DST offset), the standard type flagged non-DST and the
daylight type flagged DST, and legal 3–7 character designations on both -/
theorem rule_accepted_is_valid (text : List Nat) (ext : Bool) (r : Rule)
    (h : from_tz_string text ext = .ok r) : RuleV r :=
  post_spec (post_from_tz_string text ext) h

/-- wrong magic number (or fewer than four bytes) -/
theorem rejects_bad_magic (bytes : List Nat) (h : bytes.take 4 ≠ MAGIC) : parse bytes = .err :=
  rejects_bad_magic' bytes h

/-- unknown version byte in the first header -/
theorem rejects_bad_version (bytes : List Nat) (h : versionOf ((bytes.drop 4).take 1) = none) :
    parse bytes = .err :=
  rejects_bad_version' bytes h

/-- a footer (everything after the second data block of a v2/v3 file) that does not both start and
end with a newline is rejected -/
theorem rejects_footer_framing (footer : List Nat) (v : Version)
    (h : ¬ (footer.head? = some 10 ∧ footer.getLast? = some 10)) : parseFooter footer v = .err :=
  footer_framing' footer v h

/-- a footer whose TZ string starts with ':' or contains a NUL is rejected -/
theorem rejects_footer_colon_nul (footer : List Nat) (v : Version)
    (h : (trimWs footer).head? = some 58 ∨ 0 ∈ trimWs footer) : parseFooter footer v = .err :=
  footer_colon_nul' footer v h

/-! ### well-formed data is accepted and read back exactly -/

/-- PARTIAL (general statement: `parse (encodeTzif f) = ok (absBlock …)` for every well-formed `f`).
Proved here by kernel evaluation for three concrete files written by the specification's writer:
a version-1 file, a version-2 file with a `std offset dst,start,end` footer consistent with its last
transition, a version-3 file whose footer uses the extensions (negative and >24 h rule times).
Missing: the induction over arbitrary blocks; the harness compares the general statement on the
implementation for thousands of generated files per run (oracle "written"). -/
theorem tzif_roundtrip_partial :
    parse (encodeTzif sampleV1) = .ok (absBlock sampleV1.v1 none)
      ∧ parse (encodeTzif sampleV2) = .ok (absBlock sampleV2.v2 (some sampleRule2))
      ∧ parse (encodeTzif sampleV3) = .ok (absBlock sampleV3.v2 (some sampleRule3)) :=
  tzif_roundtrip_samples

/-- PARTIAL (general statement: every proper prefix of a written file is rejected, except the one
that ends right after the footer's first newline).  Proved here for *every* cut point of the three
sample files by kernel evaluation. -/
theorem rejects_truncated_partial :
    (∀ k, k < (encodeTzif sampleV1).length → parse ((encodeTzif sampleV1).take k) = .err)
      ∧ (∀ k, k < (encodeTzif sampleV2).length → k ≠ footerStart sampleV2 + 1 →
          parse ((encodeTzif sampleV2).take k) = .err)
      ∧ (∀ k, k < (encodeTzif sampleV3).length → k ≠ footerStart sampleV3 + 1 →
          parse ((encodeTzif sampleV3).take k) = .err) :=
  rejects_truncated_samples

/-- PARTIAL (general statement: `from_tz_string (renderTz r) ext = ok r` for every `RuleOk ext r`).
Proved here by kernel evaluation for a family of rules covering both forms, quoted and bare names,
all three day forms at their range ends, negative / zero / 24:59:59 offsets, and the extreme rule
times with and without extensions.  Missing: the decimal render/scan induction; the harness
compares `renderTz` with its own renderer and checks the read-back on the implementation. -/
theorem tz_roundtrip_partial :
    ∀ p ∈ sampleRules, RuleOk p.1 p.2 ∧ from_tz_string (renderTz p.2) p.1 = .ok p.2 :=
  tz_roundtrip_samples

/-- malformed rule texts are refused (each line is one class the property names) -/
theorem tz_rejects_samples : ∀ t ∈ badRuleTexts, from_tz_string t.1 t.2 = .err := by decide +kernel

/-- malformed footers / header extremes on a concrete file are refused -/
theorem rejects_samples : ∀ b ∈ badFiles, parse b = .err := by decide +kernel

/-- non-vacuity: the readers do accept something non-trivial, and do refuse something -/
example : (∃ z, parse (encodeTzif sampleV2) = .ok z ∧ z.transitions.length = 2 ∧ z.types.length = 2)
    ∧ parse [] = .err ∧ sampleRules.length ≥ 10 ∧ badFiles.length ≥ 10 := by
  refine ⟨⟨_, tzif_roundtrip_samples.2.1, by decide, by decide⟩, by decide, by decide, by decide⟩

example : ZoneValid (absBlock sampleV2.v2 (some sampleRule2)) :=
  accepted_is_valid _ _ tzif_roundtrip_samples.2.1

end Chrono.Props.C16
