import Chrono.Spec.ZoneSpec
namespace Chrono.Props.C05
end Chrono.Props.C05
