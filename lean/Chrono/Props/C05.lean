/-
  C05 — Local time follows the zone data: offsets, gaps and folds.
  Property statements only (proofs in Proofs/TzLookupL.lean; TzLookupM.lean: what holds without
  separation; TzYearlyL.lean: the 400-year check of the year-by-year hypotheses; TzGlueL.lean: the
  user-visible layer).

  Domain of the wall-clock clauses.  They are proved exactly on `WellSeparated ∧ JoinSeparated` zones with
  `RuleYearly` rules (all decidable per zone; `ruleYearly_of_B`) for every reading but the property's
  excepted seconds (`NoBoundary'`).  Outside `WellSeparated` they are FALSE, in the model and in the real
  crate (`not_separated_counterexample`, `not_separated_second_candidate_counterexample`); what survives
  there is `from_local_earliest_sound`.  The harness judges those zones under a distinct message prefix.

  Rule half of the instant specification.  `offAt` decides an instant under a rule by the two rule
  transitions of its calendar year (the code's and glibc's convention).  `ruleDstSeq`
  (Spec/ZoneSeqSpec.lean) is the independent transition-sequence reading; `ruleDst_eq_seq` proves the two
  equal exactly on `OrderStable` rules, `order_flip_characterised` / `order_flip_phantom` say what the
  per-year convention does where the order flips (finding F30, widened to the lookup by instant).

  Model: `Chrono.M.TzL` (Model/TzLookup.lean) mirrors timezone.rs / rule.rs / the glue of unix.rs.
  Specification: `Chrono.Spec.Zone` (Spec/ZoneSpec.lean): proleptic Gregorian day count, POSIX rule
  days, the zone as a step function `ltAt`/`offAt`, `Classifies` (0/1/2 occurrences of a wall-clock
  reading, earliest first), `wallSet`.
  Instants are bounded by ±2^55 s (≈ ±1.1·10⁹ years) where the second calendar is involved: beyond the
  `i32` year range the code answers `Err`, which the correspondence covers.
-/
import Chrono.Proofs.TzLookupL
import Chrono.Proofs.TzLookupM
import Chrono.Proofs.TzYearlyL
import Chrono.Proofs.TzGlueL
import Chrono.Proofs.TzLocalL
import Chrono.Proofs.TzSeqL
import Chrono.Proofs.TzBridgeL

namespace Chrono.Props.C05
open Chrono Chrono.M.Tz Chrono.M.TzL Chrono.Spec.Zone Chrono.Extracted.TzL Chrono.Proofs.TzL

/-! ### data re-extracted from the Rust source on every run -/

/-- constants of the second calendar (`UNIX_OFFSET_SECS` is 2000-03-01 in the specification's day count) -/
theorem consts_ok :
    SECONDS_PER_DAY = 86400 ∧ DAYS_PER_WEEK = 7 ∧ SECONDS_PER_HOUR = 3600 ∧ SECONDS_PER_MINUTE = 60 ∧
    MINUTES_PER_HOUR = 60 ∧ MONTHS_PER_YEAR = 12 ∧ DAYS_PER_NORMAL_YEAR = 365 ∧ DAYS_PER_4_YEARS = 1461 ∧
    DAYS_PER_100_YEARS = 36524 ∧ DAYS_PER_400_YEARS = 146097 ∧ OFFSET_YEAR = 2000 ∧
    UNIX_OFFSET_SECS = Spec.Zone.dayNum 2000 3 1 * 86400 := consts_ok'

/-- every cell of the three month tables is what the calendar specification says -/
theorem tables_ok :
    (∀ m, m < 13 → 1 ≤ m → DAY_IN_MONTHS_NORMAL_YEAR.getD (m - 1) 0 = monthLen false m) ∧
    DAY_IN_MONTHS_NORMAL_YEAR.length = 12 ∧
    (∀ m, m < 13 → 1 ≤ m → CUMUL_DAY_IN_MONTHS_NORMAL_YEAR.getD (m - 1) 0 = daysBeforeMonth false m) ∧
    CUMUL_DAY_IN_MONTHS_NORMAL_YEAR.length = 12 ∧
    (∀ k, k < 12 → DAY_IN_MONTHS_LEAP_YEAR_FROM_MARCH.getD k 0 = monthLen true ((k + 2) % 12 + 1)) ∧
    DAY_IN_MONTHS_LEAP_YEAR_FROM_MARCH.length = 12 := tables_ok'

/-! ### the specification's calendar is the textbook one (validation of the spec, not of chrono) -/

theorem spec_calendar_recurrence (y : Int) :
    daysBeforeYear 1970 = 0 ∧ daysBeforeYear (y + 1) = daysBeforeYear y + (if leap y then 366 else 365) :=
  daysBeforeYear_rec y

/-- every day lies in exactly one calendar year, and `yearOf` computes it -/
theorem spec_year_unique (d y y' : Int) (h : IsYearOf d y) (h' : IsYearOf d y') :
    y = y' ∧ IsYearOf d (yearOf d) := ⟨isYearOf_unique d y y' h h', yearOf_spec d⟩

/-! ### the second calendar (rule.rs) -/

/-- `is_leap_year` and `days_since_unix_epoch` agree with the calendar for EVERY integer year -/
theorem second_calendar_days (y : Int) (m : Nat) (d : Int) (h1 : 1 ≤ m) (h2 : m ≤ 12) :
    M.TzL.is_leap_year y = leap y ∧ M.TzL.days_since_unix_epoch y m d = dayNum y m d :=
  ⟨is_leap_year_eq y, dse_eq y m d h1 h2⟩

/-- `UtcDateTime::from_timespec` inverts the day count: the fields it returns are a calendar date whose
day number is `⌊t/86400⌋` and a time of day worth `t mod 86400`; its year is the calendar year of `t` -/
theorem second_calendar_from_timespec (t : Int) (h : -36028797018963968 ≤ t ∧ t ≤ 36028797018963968) :
    ∃ dt, from_timespec t = some dt ∧ IsYearOf (t / 86400) dt.year ∧
      1 ≤ dt.month ∧ dt.month ≤ 12 ∧ 1 ≤ dt.month_day ∧
      dayNum dt.year dt.month.toNat dt.month_day = t / 86400 ∧
      dt.hour * 3600 + dt.minute * 60 + dt.second = t % 86400 ∧
      0 ≤ dt.hour ∧ dt.hour < 24 ∧ 0 ≤ dt.minute ∧ dt.minute < 60 ∧ 0 ≤ dt.second ∧ dt.second < 60 :=
  from_timespec_ok' t h

example : from_timespec 951868799 = some ⟨2000, 2, 29, 23, 59, 59⟩ := by decide
example : from_timespec (-1) = some ⟨1969, 12, 31, 23, 59, 59⟩ := by decide

/-- `RuleDay::{transition_date, unix_time}`: the three POSIX day forms, for every year -/
theorem rule_day_ok (d : RuleDay) (hv : ValidDay d) (y dt : Int) :
    unix_time d y dt = ruleDayNum d y * 86400 + dt ∧
    1 ≤ (transition_date d y).1 ∧ (transition_date d y).1 ≤ 12 :=
  ⟨unix_time_eq d hv y dt, transition_date_month d hv y⟩

-- second Sunday of March 2024 is March 10; J60 is March 1 in leap and common years alike
example : transition_date (.mwd 3 2 0) 2024 = (3, 10) ∧ transition_date (.julian1 60) 2024 = (3, 1) ∧
    transition_date (.julian1 60) 2023 = (3, 1) ∧ transition_date (.julian0 59) 2024 = (2, 29) ∧
    transition_date (.mwd 2 5 4) 2024 = (2, 29) := by decide

/-! ### lookup by instant -/

/-- the transition table: the type of the last transition at or before `t`, the first type before the
first transition; the rule is consulted exactly from the last transition on.  Any sorted table
(`binary_search_by_key` enters through its contract, see the model's header). -/
theorem offAt_table (z : Zone) (t : Int) (hs : Sorted z.transitions) (hl : z.leaps = []) :
    z.find_local_time_type t =
      (if afterLast z t then
        match z.rule with
        | some r => r.find_local_time_type t
        | none => some (tableAt z t)
      else some (tableAt z t)) := find_table' z t hs hl

/-- the rule: for rules whose transitions lie more than a day inside the year, the
previous/current/next-year cascade is the rule of the calendar year containing `t` -/
theorem rule_instant_ok (a : Alt) (hvS : ValidDay a.dstStart) (hvE : ValidDay a.dstEnd) (t : Int)
    (hin : InsideYear a) (h : -36028797018963968 ≤ t ∧ t ≤ 36028797018963968) :
    a.find_local_time_type t = some (ruleOff (.alt a) t) ∧
    ∃ Y, IsYearOf (t / 86400) Y ∧ ruleOff (.alt a) t = (if ruleDstIn a Y t then a.dst else a.std) := by
  refine ⟨alt_find_ruleOff a hvS hvE t hin h, ?_⟩
  obtain ⟨Y, hY, hf⟩ := alt_find' a hvS hvE t hin h
  refine ⟨Y, hY, ?_⟩
  have := alt_find_ruleOff a hvS hvE t hin h
  rw [hf] at this
  exact (Option.some.inj this).symm

/-- lookup by instant = the zone's step function, for any sorted zone without leap-second records -/
theorem offAt_ok (z : Zone) (t : Int) (hs : Sorted z.transitions) (hl : z.leaps = [])
    (hr : RuleOk z.rule) (h : -36028797018963968 ≤ t ∧ t ≤ 36028797018963968) :
    z.find_local_time_type t = some (ltAt z t) := offAt_ok' z t hs hl hr h

/-- non-vacuity: a zone with a table, a footer rule `CST6CDT,J60,J300` and every hypothesis met -/
def exRule : Alt := ⟨⟨-21600, false, none⟩, ⟨-18000, true, none⟩, .julian1 60, 7200, .julian1 300, 7200⟩
def exZone : Zone :=
  ⟨[⟨-1633276800, 1⟩, ⟨-1615136400, 0⟩, ⟨1710000000, 1⟩], [⟨-21600, false, none⟩, ⟨-18000, true, none⟩], [],
   some (.alt exRule)⟩

theorem exRule_inside : InsideYear exRule := by
  intro y
  unfold startAt endAt exRule ruleDayNum
  simp only
  have r := (daysBeforeYear_rec y).2
  rw [r]
  by_cases c : leap y = true <;> simp [c] <;> omega

example : exZone.find_local_time_type 1720000000 = some (ltAt exZone 1720000000) :=
  offAt_ok exZone 1720000000 (by unfold Sorted exZone; decide) rfl
    ⟨by unfold ValidDay exRule; decide, by unfold ValidDay exRule; decide, exRule_inside⟩ (by omega)
example : (ltAt exZone 1720000000).off = -18000 ∧ (ltAt exZone 0).off = -21600 := by decide

/-! ### lookup by wall clock -/

/-- the rule code, all four hemisphere/sign branches and the equal-offset case: whenever the two rule
transitions of the year are further apart than twice the offset jump, every wall-clock reading other
than the two excepted boundary seconds is classified exactly (0, 1 or 2 occurrences under the
year's step function; the two candidates distinct and earliest first).  The two seconds are excepted
only when the rule changes the offset (`std.off ≠ dst.off`): a rule that changes only the
abbreviation / DST flag ends no skipped or repeated interval and has no excepted second. -/
theorem rule_from_local_classifies (a : Alt) (hvS : ValidDay a.dstStart) (hvE : ValidDay a.dstEnd)
    (y ℓ : Int) (hsep : RuleSeparated a (wallStart a y) (wallEnd a y))
    (hS : a.std.off ≠ a.dst.off → ℓ ≠ wallStart a y) (hE : a.std.off ≠ a.dst.off → ℓ ≠ wallEnd a y) :
    Classifies (yearOff a (wallStart a y) (wallEnd a y)) ℓ (a.find_local_time_type_from_local y ℓ) ∧
    ∀ t, yearOff a (wallStart a y) (wallEnd a y) t = (if ruleDstIn a y t then a.dst else a.std).off :=
  ⟨rule_from_local_classifies' a hvS hvE y ℓ hsep hS hE, fun t => yearOff_eq a y t hsep⟩

/-- round trip under a rule: the offset in force at `t` is among the candidates of `t`'s wall clock -/
theorem rule_roundtrip (a : Alt) (hvS : ValidDay a.dstStart) (hvE : ValidDay a.dstEnd)
    (y t : Int) (hsep : RuleSeparated a (wallStart a y) (wallEnd a y))
    (hS : a.std.off ≠ a.dst.off → t + yearOff a (wallStart a y) (wallEnd a y) t ≠ wallStart a y)
    (hE : a.std.off ≠ a.dst.off → t + yearOff a (wallStart a y) (wallEnd a y) t ≠ wallEnd a y) :
    yearOff a (wallStart a y) (wallEnd a y) t ∈
      (a.find_local_time_type_from_local y (t + yearOff a (wallStart a y) (wallEnd a y) t)).toList.map (·.off) :=
  classifies_roundtrip _ _ _ (rule_from_local_classifies' a hvS hvE y _ hsep hS hE) t rfl

-- US-style fold of 2024 under `exRule` (J300 = Oct 27): 01:30 local occurs twice, daylight time first
example : exRule.find_local_time_type_from_local 2024 1729992600 = .ambiguous exRule.dst exRule.std ∧
    RuleSeparated exRule (wallStart exRule 2024) (wallEnd exRule 2024) := by
  constructor
  · decide
  · unfold RuleSeparated; decide

/-- the pinned 0.4.40 behaviour (finding F16, repaired in /repo): with DST start and end in the same
month (`AAA0BBB-1,M3.1.0,M3.4.0`) the month-only hemisphere test answered daylight time for a
mid-January wall clock, although the instant lookup says standard time; the repaired test does not -/
theorem same_month_rule_pinned_counterexample :
    let a : Alt := ⟨⟨0, false, none⟩, ⟨3600, true, none⟩, .mwd 3 1 0, 7200, .mwd 3 4 0, 7200⟩
    alt_from_local_pinned_month_only a 1970 1209600 = .single a.dst ∧
    a.find_local_time_type_from_local 1970 1209600 = .single a.std ∧
    a.find_local_time_type 1209600 = some a.std := by decide

/-- the transition table (zones without a rule), ANY number of transitions: for a sorted table whose
wall-clock windows are `WellSeparated`, every wall-clock reading other than the excepted boundary
seconds yields None / Single / Ambiguous exactly when 0 / 1 / 2 instants of the zone's
step function `offAt` read it, with the right offsets, the two candidates distinct and earliest first.
The excepted seconds (`NoBoundary'`) are exactly the property's: `T + prevOff` of the transitions that
CHANGE the offset.  A transition that changes only the abbreviation or DST flag has no excepted second:
the statement covers the very second at which it happens.
(`InRange`: offsets are `i32`, transition times within ±2^62 so that no window saturates.) -/
theorem from_local_classifies (z : Zone) (ℓ : Int) (hrule : z.rule = none) (hs : Sorted z.transitions)
    (hsep : WellSeparated z) (hnb : NoBoundary' z (typeAt z 0).off z.transitions ℓ)
    (hr : InRange z z.transitions) :
    Classifies (offAt z) ℓ (z.find_local_time_type_from_local ℓ) :=
  from_local_classifies' z ℓ hrule hs hsep hnb hr

/-- round trip on such a zone: converting an instant to wall-clock time and back returns it -/
theorem roundtrip (z : Zone) (t : Int) (hrule : z.rule = none) (hs : Sorted z.transitions)
    (hsep : WellSeparated z) (hnb : NoBoundary' z (typeAt z 0).off z.transitions (t + offAt z t))
    (hr : InRange z z.transitions) :
    offAt z t ∈ (z.find_local_time_type_from_local (t + offAt z t)).toList.map (·.off) :=
  classifies_roundtrip _ _ _ (from_local_classifies' z _ hrule hs hsep hnb hr) t rfl

/-- non-vacuity: New-York-like table (gap 1918-03-31, fold 1918-10-27, gap 2024-03-10) -/
def exTable : Zone :=
  ⟨[⟨-1633280400, 1⟩, ⟨-1615140000, 0⟩, ⟨1710054000, 1⟩], [⟨-18000, false, none⟩, ⟨-14400, true, none⟩], [], none⟩

example : Classifies (offAt exTable) (-1615140000 - 18000 + 1800) (.ambiguous ⟨-14400, true, none⟩ ⟨-18000, false, none⟩) := by
  have h := from_local_classifies exTable (-1615140000 - 18000 + 1800) rfl (by unfold Sorted exTable; decide)
    (by unfold WellSeparated; decide) (by unfold exTable NoBoundary' NoBoundary' NoBoundary' NoBoundary'; decide)
    ⟨fun i => by
        unfold typeAt exTable
        match i with
        | 0 => decide
        | 1 => decide
        | (n + 2) => simp [List.getD]; decide,
      by unfold exTable; decide⟩
  have e : exTable.find_local_time_type_from_local (-1615140000 - 18000 + 1800) =
      .ambiguous ⟨-14400, true, none⟩ ⟨-18000, false, none⟩ := by decide
  rw [e] at h; exact h

/-! #### outside `WellSeparated`: the clause is FALSE (model and real crate), and what still holds -/

/-- two transitions 600 s apart, `+0 → +1 h → +0`: the wall-clock window `[T₁, T₁+3600]` of the first
contains the window `{T₂}` … of the second -/
def nsZone : Zone :=
  ⟨[⟨1000000, 1⟩, ⟨1000600, 0⟩], [⟨0, false, none⟩, ⟨3600, true, none⟩], [], none⟩

/-- the step function of `nsZone`, spelled out -/
theorem nsZone_offAt (t : Int) :
    offAt nsZone t = if t < 1000000 then 0 else if t < 1000600 then 3600 else 0 := by
  rw [offAt_table_stepOff nsZone t rfl (by unfold Sorted nsZone; decide)]
  have e0 : (typeAt nsZone 0).off = 0 := by decide
  have e1 : (typeAt nsZone 1).off = 3600 := by decide
  show stepOff nsZone (typeAt nsZone 0).off [⟨1000000, 1⟩, ⟨1000600, 0⟩] t = _
  simp only [stepOff, e0, e1]
  split <;> split <;> (try split) <;> omega

/-- COUNTEREXAMPLE (confirmed on the real crate: `TZ=:<this zone as a TZif file>`,
`Local.from_local_datetime(1970-01-12 14:16:40)` is `None`, while `Local.timestamp_opt(1001800, 0)`
reads exactly that wall clock).  The zone is sorted and in range, the reading is no boundary second,
it occurs EXACTLY ONCE — and the lookup answers `None`.  So without `WellSeparated` the clause "a
wall-clock time that occurs exactly once yields exactly one result" and the round trip are false. -/
theorem not_separated_counterexample :
    ¬ WellSeparated nsZone ∧ Sorted nsZone.transitions ∧
    NoBoundary nsZone (typeAt nsZone 0).off nsZone.transitions 1001800 ∧
    wallSet nsZone 1001800 = [1001800] ∧ (∀ t, t + offAt nsZone t = 1001800 ↔ t = 1001800) ∧
    nsZone.find_local_time_type_from_local 1001800 = .none ∧
    ¬ Classifies (offAt nsZone) 1001800 (nsZone.find_local_time_type_from_local 1001800) ∧
    offAt nsZone 1001800 ∉ (nsZone.find_local_time_type_from_local (1001800 + offAt nsZone 1001800)).toList.map (·.off) := by
  have once : ∀ t, t + offAt nsZone t = 1001800 ↔ t = 1001800 := by
    intro t; rw [nsZone_offAt]; split <;> (try split) <;> omega
  have e : nsZone.find_local_time_type_from_local 1001800 = .none := by decide
  refine ⟨by unfold WellSeparated; decide, by unfold Sorted nsZone; decide,
    by unfold nsZone NoBoundary NoBoundary NoBoundary; decide, by decide, once, e, ?_, ?_⟩
  · rw [e]; intro h; exact h 1001800 ((once 1001800).mpr rfl)
  · have o : offAt nsZone 1001800 = 0 := by decide
    rw [o]; decide

/-- a fold whose window runs over the next transition: `+1 h → +0` at `T₁`, `→ +2 h` 600 s later -/
def nsZone2 : Zone :=
  ⟨[⟨1000000, 1⟩, ⟨1000600, 2⟩], [⟨3600, true, none⟩, ⟨0, false, none⟩, ⟨7200, true, none⟩], [], none⟩

/-- COUNTEREXAMPLE for the second candidate: the reading occurs exactly once (at `999400`), the
lookup answers `Ambiguous`; its FIRST candidate is that instant, its second (`1003000`, offset 0) is not
a reading at all: the zone prescribes `+2 h` there. -/
theorem not_separated_second_candidate_counterexample :
    ¬ WellSeparated nsZone2 ∧ wallSet nsZone2 1003000 = [999400] ∧
    nsZone2.find_local_time_type_from_local 1003000 = .ambiguous ⟨3600, true, none⟩ ⟨0, false, none⟩ ∧
    offAt nsZone2 (1003000 - 0) = 7200 := by
  refine ⟨by unfold WellSeparated; decide, by decide, by decide, by decide⟩

/-- WHAT HOLDS WITHOUT ANY SEPARATION HYPOTHESIS (sorted table of any length, no rule, any spacing of
the transitions): the earliest candidate the lookup reports — the value of `Single`, the first of
`Ambiguous` — is always a genuine reading: the instant `ℓ - x.off` has offset `x.off` under the zone's
step function.  What is lost outside `WellSeparated` is completeness (`None` or `Single` although
(more) instants read `ℓ`: `not_separated_counterexample`) and the second candidate of `Ambiguous`
(`not_separated_second_candidate_counterexample`).  The excepted seconds are only those of
offset-changing transitions (`NoBoundary'`). -/
theorem from_local_earliest_sound (z : Zone) (ℓ : Int) (hrule : z.rule = none) (hs : Sorted z.transitions)
    (hnb : NoBoundary' z (typeAt z 0).off z.transitions ℓ) (hr : InRange z z.transitions) :
    ∀ x, (z.find_local_time_type_from_local ℓ).earliest = some x →
      (ℓ - x.off) + offAt z (ℓ - x.off) = ℓ :=
  from_local_earliest_sound' z ℓ hrule hs hnb hr

/-- in particular every `Single` answer is a genuine reading, separated zone or not -/
theorem from_local_single_sound (z : Zone) (ℓ : Int) (x : Ltt) (hrule : z.rule = none) (hs : Sorted z.transitions)
    (hnb : NoBoundary' z (typeAt z 0).off z.transitions ℓ) (hr : InRange z z.transitions)
    (h : z.find_local_time_type_from_local ℓ = .single x) : (ℓ - x.off) + offAt z (ℓ - x.off) = ℓ :=
  from_local_earliest_sound' z ℓ hrule hs hnb hr x (by rw [h]; rfl)

theorem nsZone_inRange : InRange nsZone nsZone.transitions ∧ InRange nsZone2 nsZone2.transitions := by
  constructor
  · exact ⟨fun i => by
        unfold typeAt nsZone
        match i with
        | 0 => decide
        | 1 => decide
        | (n + 2) => simp [List.getD]; decide, by unfold nsZone; decide⟩
  · exact ⟨fun i => by
        unfold typeAt nsZone2
        match i with
        | 0 => decide
        | 1 => decide
        | 2 => decide
        | (n + 3) => simp [List.getD]; decide, by unfold nsZone2; decide⟩

-- the hypotheses are met by the non-separated zones themselves: first candidate of the `Ambiguous` answer
example : (1003000 - 3600) + offAt nsZone2 (1003000 - 3600) = 1003000 :=
  from_local_earliest_sound nsZone2 1003000 rfl (by unfold Sorted nsZone2; decide)
    (by unfold nsZone2 NoBoundary' NoBoundary' NoBoundary'; decide) nsZone_inRange.2 ⟨3600, true, none⟩ (by decide)

/-! #### zones that have BOTH a transition table and a footer rule (every current system zone) -/

/-- THE COMPOSED STATEMENT.  For a zone with a transition table followed by an alternate-time footer
rule, under
* `WellSeparated z` — the wall-clock windows of consecutive table transitions are disjoint and in order,
* `RuleYearly a` — every rule transition and its two wall-clock images lie inside the calendar year,
  the start/end order is the same year after year, and the two transitions of a year are
  `RuleSeparated` (further apart than twice the offset jump),
* `JoinSeparated z` — DECIDABLE per zone (`joinSeparatedB`; the harness evaluates it and compares its
  own evaluation with the model's through op `tzl.sep`): at the last table transition `T` the rule
  prescribes the type the table switches to (what `TimeZone::new` validates), and every rule
  transition of the years around `T` is either at or before `T` with its window not above the last
  table window, or after `T` with its window strictly above it,
`find_local_time_type_from_local` classifies every wall-clock reading other than the excepted
boundary seconds (`T + prevOff` of each table transition that changes the offset; the rule's own
start/end wall-clock second of the reading's year, when the rule changes the offset AND the reading lies
beyond the last table window, `hiLast … < ℓ`: in the table era the rule's seconds are ordinary readings —
the loop answers them without consulting the rule — and the theorem covers them, see the `exZoneUS`
example at 1950-03-12 02:00 below) exactly as the zone's step function `offAt` demands: None / Single / Ambiguous
when 0 / 1 / 2 instants read it, with the right offsets, the two candidates distinct and earliest first.
`offAt` is the same function the composed lookup by instant is proved against (`offAt_ok` covers
table, rule and the hand-over at the last transition in one statement). -/
theorem from_local_classifies_composed (z : Zone) (a : Alt) (last : Transition) (ℓ : Int)
    (hrule : z.rule = some (.alt a)) (hl : z.transitions.getLast? = some last)
    (hs : Sorted z.transitions) (hsep : WellSeparated z) (hj : JoinSeparated z)
    (hvS : ValidDay a.dstStart) (hvE : ValidDay a.dstEnd) (hy : RuleYearly a)
    (hnb : NoBoundary' z (typeAt z 0).off z.transitions ℓ)
    (hS : a.std.off ≠ a.dst.off → hiLast z (typeAt z 0).off z.transitions < ℓ → ℓ ≠ wallStart a (naiveYear ℓ))
    (hE : a.std.off ≠ a.dst.off → hiLast z (typeAt z 0).off z.transitions < ℓ → ℓ ≠ wallEnd a (naiveYear ℓ))
    (hr : InRange z z.transitions) (hℓ : -36028797018963968 ≤ ℓ ∧ ℓ ≤ 36028797018963968) :
    Classifies (offAt z) ℓ (z.find_local_time_type_from_local ℓ) :=
  composed_alt_guarded' z a last ℓ hrule hl hs hsep hj hvS hvE hy hnb hS hE hr hℓ

/-- the round trip for such a zone: converting an instant to wall-clock time and back returns it -/
theorem roundtrip_composed (z : Zone) (a : Alt) (last : Transition) (t : Int)
    (hrule : z.rule = some (.alt a)) (hl : z.transitions.getLast? = some last)
    (hs : Sorted z.transitions) (hsep : WellSeparated z) (hj : JoinSeparated z)
    (hvS : ValidDay a.dstStart) (hvE : ValidDay a.dstEnd) (hy : RuleYearly a)
    (hnb : NoBoundary' z (typeAt z 0).off z.transitions (t + offAt z t))
    (hS : a.std.off ≠ a.dst.off → hiLast z (typeAt z 0).off z.transitions < t + offAt z t →
      t + offAt z t ≠ wallStart a (naiveYear (t + offAt z t)))
    (hE : a.std.off ≠ a.dst.off → hiLast z (typeAt z 0).off z.transitions < t + offAt z t →
      t + offAt z t ≠ wallEnd a (naiveYear (t + offAt z t)))
    (hr : InRange z z.transitions)
    (hℓ : -36028797018963968 ≤ t + offAt z t ∧ t + offAt z t ≤ 36028797018963968) :
    offAt z t ∈ (z.find_local_time_type_from_local (t + offAt z t)).toList.map (·.off) :=
  classifies_roundtrip _ _ _ (composed_alt_guarded' z a last _ hrule hl hs hsep hj hvS hvE hy hnb hS hE hr hℓ) t rfl

/-- the same with a fixed footer rule (`JoinSeparated` then says: the rule's offset is the one the
table ends on) -/
theorem from_local_classifies_fixed_rule (z : Zone) (l : Ltt) (last : Transition) (ℓ : Int)
    (hrule : z.rule = some (.fixed l)) (hl : z.transitions.getLast? = some last)
    (hs : Sorted z.transitions) (hsep : WellSeparated z) (hj : JoinSeparated z)
    (hnb : NoBoundary' z (typeAt z 0).off z.transitions ℓ) (hr : InRange z z.transitions) :
    Classifies (offAt z) ℓ (z.find_local_time_type_from_local ℓ) :=
  composed_fixed' z l last ℓ hrule hl hs hsep hj hnb hr

/-- the round trip with a fixed footer rule -/
theorem roundtrip_fixed_rule (z : Zone) (l : Ltt) (last : Transition) (t : Int)
    (hrule : z.rule = some (.fixed l)) (hl : z.transitions.getLast? = some last)
    (hs : Sorted z.transitions) (hsep : WellSeparated z) (hj : JoinSeparated z)
    (hnb : NoBoundary' z (typeAt z 0).off z.transitions (t + offAt z t)) (hr : InRange z z.transitions) :
    offAt z t ∈ (z.find_local_time_type_from_local (t + offAt z t)).toList.map (·.off) :=
  classifies_roundtrip _ _ _ (composed_fixed' z l last _ hrule hl hs hsep hj hnb hr) t rfl

/-- the trivial zone shape: no transitions and a fixed rule (`TZ=UTC0`, `TZ=XXX-5:30`, the Etc/* files).
No hypothesis at all: one type, every reading occurs exactly once.  (No transitions and NO rule is
`from_local_classifies` with an empty table: all its hypotheses are trivially true, see the example.) -/
theorem from_local_classifies_fixed_only (z : Zone) (l : Ltt) (ℓ : Int)
    (hrule : z.rule = some (.fixed l)) (ht : z.transitions = []) :
    z.find_local_time_type_from_local ℓ = .single l ∧ (∀ t, z.find_local_time_type t = some l) ∧
    (∀ t, offAt z t = l.off) ∧ Classifies (offAt z) ℓ (z.find_local_time_type_from_local ℓ) := by
  have e1 : z.find_local_time_type_from_local ℓ = .single l := by
    unfold Zone.find_local_time_type_from_local; rw [hrule, ht]; rfl
  have e2 : ∀ t, offAt z t = l.off := by
    intro t; unfold offAt ltAt afterLast; rw [hrule, ht]; rfl
  refine ⟨e1, ?_, e2, ?_⟩
  · intro t; unfold Zone.find_local_time_type; rw [hrule, ht]; rfl
  · rw [e1]; intro t; rw [e2 t]; omega

theorem roundtrip_fixed_only (z : Zone) (l : Ltt) (t : Int)
    (hrule : z.rule = some (.fixed l)) (ht : z.transitions = []) :
    offAt z t ∈ (z.find_local_time_type_from_local (t + offAt z t)).toList.map (·.off) :=
  classifies_roundtrip _ _ _ (from_local_classifies_fixed_only z l _ hrule ht).2.2.2 t rfl

-- `TZ=XXX-5:30`
example : Classifies (offAt ⟨[], [⟨19800, false, none⟩], [], some (.fixed ⟨19800, false, none⟩)⟩) 0
    (Zone.find_local_time_type_from_local ⟨[], [⟨19800, false, none⟩], [], some (.fixed ⟨19800, false, none⟩)⟩ 0) :=
  (from_local_classifies_fixed_only _ ⟨19800, false, none⟩ 0 rfl rfl).2.2.2

-- a TZif file with one type, no transitions and no footer: `from_local_classifies` on the empty table
example (o : Int) (ho : -2147483648 ≤ o ∧ o ≤ 2147483647) (ℓ : Int) :
    Classifies (offAt ⟨[], [⟨o, false, none⟩], [], none⟩) ℓ
      (Zone.find_local_time_type_from_local ⟨[], [⟨o, false, none⟩], [], none⟩ ℓ) :=
  from_local_classifies _ ℓ rfl List.Pairwise.nil rfl trivial
    ⟨fun i => by
        unfold typeAt
        match i with
        | 0 => exact ho
        | (n + 1) => simp [List.getD]; decide,
      fun tr h => by cases h⟩

/-- a zone that is a POSIX rule only (`TZ=EST5EDT,M3.2.0,M11.1.0`): the statement against the rule's
step function over ALL years (not per calendar year) -/
theorem from_local_classifies_rule_only (z : Zone) (a : Alt) (ℓ : Int) (hrule : z.rule = some (.alt a))
    (ht : z.transitions = []) (hvS : ValidDay a.dstStart) (hvE : ValidDay a.dstEnd) (hy : RuleYearly a)
    (hS : a.std.off ≠ a.dst.off → ℓ ≠ wallStart a (naiveYear ℓ))
    (hE : a.std.off ≠ a.dst.off → ℓ ≠ wallEnd a (naiveYear ℓ))
    (hℓ : -36028797018963968 ≤ ℓ ∧ ℓ ≤ 36028797018963968) :
    Classifies (offAt z) ℓ (z.find_local_time_type_from_local ℓ) :=
  rule_only' z a ℓ hrule ht hvS hvE hy hS hE hℓ

/-- the round trip for a rule-only zone -/
theorem roundtrip_rule_only (z : Zone) (a : Alt) (t : Int) (hrule : z.rule = some (.alt a))
    (ht : z.transitions = []) (hvS : ValidDay a.dstStart) (hvE : ValidDay a.dstEnd) (hy : RuleYearly a)
    (hS : a.std.off ≠ a.dst.off → t + offAt z t ≠ wallStart a (naiveYear (t + offAt z t)))
    (hE : a.std.off ≠ a.dst.off → t + offAt z t ≠ wallEnd a (naiveYear (t + offAt z t)))
    (hℓ : -36028797018963968 ≤ t + offAt z t ∧ t + offAt z t ≤ 36028797018963968) :
    offAt z t ∈ (z.find_local_time_type_from_local (t + offAt z t)).toList.map (·.off) :=
  classifies_roundtrip _ _ _ (rule_only' z a _ hrule ht hvS hvE hy hS hE hℓ) t rfl

/-- non-vacuity of `RuleYearly`: `CST6CDT,J60,J300` is regular in every year -/
theorem exRule_yearly : RuleYearly exRule := by
  intro y
  have r := (daysBeforeYear_rec y).2
  unfold inYear RuleSeparated startAt endAt exRule ruleDayNum
  simp only
  rw [r]
  by_cases c : leap y = true <;> by_cases c1 : leap (y + 1) = true <;> simp [c, c1] <;> omega

/-! #### the year-by-year hypotheses are decidable: one Gregorian cycle (400 years = 20871 weeks) -/

/-- `RuleYearly a` (a statement about EVERY integer year) holds iff it holds on the 400 years
2000 … 2399: every rule day — also the weekday-dependent `Mm.w.d` form — falls exactly 146097 days
later 400 years later.  The harness evaluates the same check per zone with its own calendar and
compares it with this definition (op `tzl.yearly`). -/
theorem ruleYearly_of_B (a : Alt) : ruleYearlyB a = true ↔ RuleYearly a :=
  ⟨ruleYearly_of_B' a, ruleYearlyB_of a⟩

/-- the same for `InsideYear`, the hypothesis of the lookup by instant (`rule_instant_ok`, `offAt_ok`) -/
theorem insideYear_of_B (a : Alt) : insideYearB a = true ↔ InsideYear a :=
  ⟨insideYear_of_B' a, insideYearB_of a⟩

/-- `EST5EDT,M3.2.0,M11.1.0` (every current US zone) and `CET-1CEST,M3.5.0,M10.5.0/3` (every current EU zone) -/
def usRule : Alt := ⟨⟨-18000, false, none⟩, ⟨-14400, true, none⟩, .mwd 3 2 0, 7200, .mwd 11 1 0, 7200⟩
def euRule : Alt := ⟨⟨3600, false, none⟩, ⟨7200, true, none⟩, .mwd 3 5 0, 7200, .mwd 10 5 0, 10800⟩

theorem usRule_yearly : RuleYearly usRule ∧ InsideYear usRule :=
  ⟨(ruleYearly_of_B usRule).mp (by decide +kernel), (insideYear_of_B usRule).mp (by decide +kernel)⟩
theorem euRule_yearly : RuleYearly euRule ∧ InsideYear euRule :=
  ⟨(ruleYearly_of_B euRule).mp (by decide +kernel), (insideYear_of_B euRule).mp (by decide +kernel)⟩

-- `TZ=EST5EDT,M3.2.0,M11.1.0`: the instant 2024-07-04 12:00 UTC comes back from its wall clock
example : offAt ⟨[], [⟨-18000, false, none⟩], [], some (.alt usRule)⟩ 1720094400 ∈
    (Zone.find_local_time_type_from_local ⟨[], [⟨-18000, false, none⟩], [], some (.alt usRule)⟩
      (1720094400 + offAt ⟨[], [⟨-18000, false, none⟩], [], some (.alt usRule)⟩ 1720094400)).toList.map (·.off) :=
  roundtrip_rule_only _ usRule 1720094400 rfl rfl (by unfold ValidDay usRule; decide) (by unfold ValidDay usRule; decide)
    usRule_yearly.1 (fun _ => by decide) (fun _ => by decide) (by decide)

-- a rule that is NOT yearly-regular is recognised as such: start/end order flips from year to year
example : ¬ RuleYearly ⟨⟨0, false, none⟩, ⟨3600, true, none⟩, .mwd 6 2 0, 7200, .julian1 162, 7200⟩ :=
  fun h => absurd ((ruleYearly_of_B _).mpr h) (by decide +kernel)

/-- America/New_York as it is today: the table up to the 2024 spring transition, then the US footer rule -/
def exZoneUS : Zone :=
  ⟨[⟨-1633280400, 1⟩, ⟨-1615140000, 0⟩, ⟨1710054000, 1⟩], [⟨-18000, false, none⟩, ⟨-14400, true, none⟩], [],
   some (.alt usRule)⟩

-- every hypothesis of the composed theorem is met by a zone with a real `Mm.w.d` footer rule; the 2024
-- fold (November 3, 01:30 local) is read as two instants, daylight time first
example : Classifies (offAt exZoneUS) 1730597400 (.ambiguous usRule.dst usRule.std) := by
  have h := from_local_classifies_composed exZoneUS usRule ⟨1710054000, 1⟩ 1730597400 rfl (by decide)
    (by unfold Sorted exZoneUS; decide) (by unfold WellSeparated; decide) (by unfold JoinSeparated; decide)
    (by unfold ValidDay usRule; decide) (by unfold ValidDay usRule; decide) usRule_yearly.1
    (by unfold exZoneUS NoBoundary' NoBoundary' NoBoundary' NoBoundary'; decide) (by decide) (by decide)
    ⟨fun i => by
        unfold typeAt exZoneUS
        match i with
        | 0 => decide
        | 1 => decide
        | (n + 2) => simp [List.getD]; decide,
      by unfold exZoneUS; decide⟩ (by omega)
  have e : exZoneUS.find_local_time_type_from_local 1730597400 = .ambiguous usRule.dst usRule.std := by decide
  rw [e] at h; exact h

example : exZoneUS.find_local_time_type 1720000000 = some (ltAt exZoneUS 1720000000) :=
  offAt_ok exZoneUS 1720000000 (by unfold Sorted exZoneUS; decide) rfl
    ⟨by unfold ValidDay usRule; decide, by unfold ValidDay usRule; decide, usRule_yearly.2⟩ (by omega)

-- second review, gap 3: 1950-03-12 02:00 local IS `wallStart usRule 1950`, one of the footer rule's two
-- boundary seconds of its year, but it lies in the table era (far below the last table window): the
-- table loop answers it without consulting the rule, it is an ordinary reading (exactly one instant,
-- 07:00 UTC), and the composed theorem now covers it (its `hS`/`hE` bind only beyond the last window)
example : (-625096800 : Int) = wallStart usRule (naiveYear (-625096800)) ∧
    Classifies (offAt exZoneUS) (-625096800) (.single ⟨-18000, false, none⟩) ∧
    wallSet exZoneUS (-625096800) = [-625078800] := by
  have h := from_local_classifies_composed exZoneUS usRule ⟨1710054000, 1⟩ (-625096800) rfl (by decide)
    (by unfold Sorted exZoneUS; decide) (by unfold WellSeparated; decide) (by unfold JoinSeparated; decide)
    (by unfold ValidDay usRule; decide) (by unfold ValidDay usRule; decide) usRule_yearly.1
    (by unfold exZoneUS NoBoundary' NoBoundary' NoBoundary' NoBoundary'; decide) (by decide) (by decide)
    ⟨fun i => by
        unfold typeAt exZoneUS
        match i with
        | 0 => decide
        | 1 => decide
        | (n + 2) => simp [List.getD]; decide,
      by unfold exZoneUS; decide⟩ (by omega)
  have e : exZoneUS.find_local_time_type_from_local (-625096800) = .single ⟨-18000, false, none⟩ := by decide
  rw [e] at h
  exact ⟨by decide, h, by decide⟩

/-! #### the rule half of the instant specification: per-year decision vs. transition sequence

`offAt` (through `ruleDst`) judges an instant by the two rule transitions of the calendar year that
contains it — the code's own decision procedure (and glibc's).  The independent reading of a POSIX rule
is the SEQUENCE of all its start and end instants: `ruleDstSeq` (Spec/ZoneSeqSpec.lean).  The two agree
exactly when the start/end order is the same every year (`OrderStable`, decidable: `orderStable_of_B`;
true of every footer rule under /usr/share/zoneinfo, all of which are even `RuleYearly`).  `InsideYear`
(the property's restriction) does NOT imply it: `order_flip_phantom`. -/

/-- for a rule inside the quantifier whose start/end order is the same every year, the per-year decision
is the transition-sequence reading: daylight time is in force at `t` iff the latest rule transition of
ANY year at or before `t` is a start -/
theorem ruleDst_eq_seq (a : Alt) (hin : InsideYear a) (ho : OrderStable a) (t : Int) :
    ruleDst a t = true ↔ ruleDstSeq a t := ruleDst_eq_seq' a hin ho t

/-- `ruleDstSeq` really is a step function of the rule's transitions (no hypothesis on the rule): it does
not change between two instants with no start or end of any year in `(u, v]` -/
theorem ruleDstSeq_step (a : Alt) (u v : Int) (huv : u ≤ v)
    (hS : ∀ y, ¬ (u < startAt a y ∧ startAt a y ≤ v)) (hE : ∀ y, ¬ (u < endAt a y ∧ endAt a y ≤ v)) :
    ruleDstSeq a u ↔ ruleDstSeq a v := ruleDstSeq_const a u v huv hS hE

/-- `OrderStable` is decidable: one Gregorian cycle; and it is part of `RuleYearly` -/
theorem orderStable_of_B (a : Alt) : orderStableB a = true ↔ OrderStable a :=
  ⟨orderStable_of_B' a, orderStableB_of a⟩

theorem orderStable_of_ruleYearly (a : Alt) (h : RuleYearly a) : OrderStable a := orderStable_of_yearly a h

/-- the lookup by instant against the transition-sequence specification, end to end: from the last
table transition on, a zone whose footer rule is `InsideYear` and `OrderStable` answers the daylight
type iff the latest rule transition at or before `t` is a start, else the standard type -/
theorem rule_instant_seq_ok (z : Zone) (a : Alt) (t : Int) (hrule : z.rule = some (.alt a))
    (hs : Sorted z.transitions) (hl : z.leaps = [])
    (hvS : ValidDay a.dstStart) (hvE : ValidDay a.dstEnd) (hin : InsideYear a) (ho : OrderStable a)
    (hafter : afterLast z t = true) (h : -36028797018963968 ≤ t ∧ t ≤ 36028797018963968) :
    (ruleDstSeq a t → z.find_local_time_type t = some a.dst) ∧
    (¬ ruleDstSeq a t → z.find_local_time_type t = some a.std) := by
  have e : z.find_local_time_type t = some (if ruleDst a t then a.dst else a.std) := by
    rw [offAt_ok z t hs hl (by rw [hrule]; exact ⟨hvS, hvE, hin⟩) h]
    unfold ltAt
    rw [hafter, hrule]
    rfl
  have k := ruleDst_eq_seq a hin ho t
  constructor
  · intro hq; rw [e, if_pos (k.mpr hq)]
  · intro hq
    have : ¬ ruleDst a t = true := fun hh => hq (k.mp hh)
    rw [e, if_neg this]

-- the US rule is order-stable (it is `RuleYearly`); New York on 2024-07-04 12:00 UTC, by the sequence reading
example : exZoneUS.find_local_time_type 1720094400 = some usRule.dst ↔ ruleDstSeq usRule 1720094400 := by
  have h := rule_instant_seq_ok exZoneUS usRule 1720094400 rfl (by unfold Sorted exZoneUS; decide) rfl
    (by unfold ValidDay usRule; decide) (by unfold ValidDay usRule; decide) usRule_yearly.2
    (orderStable_of_ruleYearly usRule usRule_yearly.1) (by decide) (by omega)
  constructor
  · intro e
    by_cases c : ruleDstSeq usRule 1720094400
    · exact c
    · have := h.2 c
      rw [e] at this
      exact absurd this (by decide)
  · exact h.1

/-- `TZ=AAA0BBB-1,M6.2.0/2,J162/2`: daylight time starts on the second Sunday of June (June 8 … 14) and
ends on June 11: start before end in 1969 (June 8), end before start in 1970 (June 14) -/
def irr : Alt := ⟨⟨0, false, none⟩, ⟨3600, true, none⟩, .mwd 6 2 0, 7200, .julian1 162, 7200⟩
def irrZ : Zone := ⟨[], [⟨0, false, none⟩], [], some (.alt irr)⟩

/-- WHAT HAPPENS WHEN THE ORDER FLIPS (any rule inside the quantifier; north-shaped year `Y-1`, south-shaped
year `Y`): the per-year decision — the code's, `offAt`'s — is standard time in the last second of `Y-1`
and daylight time in the first second of `Y`, a change of offset at the year boundary although no rule
transition of any year lies within a day of it; the transition sequence says standard time at both -/
theorem order_flip_characterised (a : Alt) (hin : InsideYear a) (Y : Int)
    (h1 : startAt a (Y - 1) ≤ endAt a (Y - 1)) (h2 : ¬ startAt a Y ≤ endAt a Y) :
    ruleDst a (daysBeforeYear Y * 86400 - 1) = false ∧ ruleDst a (daysBeforeYear Y * 86400) = true ∧
    ¬ ruleDstSeq a (daysBeforeYear Y * 86400 - 1) ∧ ¬ ruleDstSeq a (daysBeforeYear Y * 86400) ∧
    ∀ y, ¬ (daysBeforeYear Y * 86400 - 86400 ≤ startAt a y ∧ startAt a y ≤ daysBeforeYear Y * 86400 + 86400) ∧
         ¬ (daysBeforeYear Y * 86400 - 86400 ≤ endAt a y ∧ endAt a y ≤ daysBeforeYear Y * 86400 + 86400) := by
  obtain ⟨a1, a2, a3, a4⟩ := order_flip_north_south a hin Y h1 h2
  exact ⟨a1, a2, a3, a4, fun y => inside_no_transition_near_boundary a hin Y y⟩

/-- the mirror image (south-shaped `Y-1`, north-shaped `Y`): the per-year decision drops from daylight to
standard time at the year boundary; the transition sequence says daylight time at both -/
theorem order_flip_characterised_south_north (a : Alt) (hin : InsideYear a) (Y : Int)
    (h1 : ¬ startAt a (Y - 1) ≤ endAt a (Y - 1)) (h2 : startAt a Y ≤ endAt a Y) :
    ruleDst a (daysBeforeYear Y * 86400 - 1) = true ∧ ruleDst a (daysBeforeYear Y * 86400) = false ∧
    ruleDstSeq a (daysBeforeYear Y * 86400 - 1) ∧ ruleDstSeq a (daysBeforeYear Y * 86400) :=
  order_flip_south_north a hin Y h1 h2

/-- KERNEL-CHECKED WITNESS that widens finding F30 to the lookup by INSTANT (confirmed on the real crate
through `Local` with `TZ=AAA0BBB-1,M6.2.0/2,J162/2`: `timestamp_opt(-1, 0)` reads 23:59:59 +00:00,
`timestamp_opt(0, 0)` reads 01:00:00 +01:00; glibc does the same).  The rule is inside the property's
quantifier (`InsideYear`, valid days) but not `OrderStable`; the model of the code — and `offAt`, which
follows the code's per-year convention, so `offAt_ok` holds here by construction — changes the offset
from 0 to +1 h between 1969-12-31T23:59:59Z and 1970-01-01T00:00:00Z, where no rule transition of any
year lies within a day; by the transition sequence daylight time is in force at neither instant. -/
theorem order_flip_phantom :
    InsideYear irr ∧ ValidDay irr.dstStart ∧ ValidDay irr.dstEnd ∧ ¬ OrderStable irr ∧
    irrZ.find_local_time_type (-1) = some irr.std ∧ irrZ.find_local_time_type 0 = some irr.dst ∧
    offAt irrZ (-1) = 0 ∧ offAt irrZ 0 = 3600 ∧
    (∀ y, ¬ (-86400 ≤ startAt irr y ∧ startAt irr y ≤ 86400) ∧ ¬ (-86400 ≤ endAt irr y ∧ endAt irr y ≤ 86400)) ∧
    ¬ ruleDstSeq irr (-1) ∧ ¬ ruleDstSeq irr 0 := by
  have hin : InsideYear irr := (insideYear_of_B irr).mp (by decide +kernel)
  have e : daysBeforeYear 1970 = 0 := by decide
  obtain ⟨_, _, s1, s2, nb⟩ := order_flip_characterised irr hin 1970 (by decide) (by decide)
  rw [e] at s1 s2 nb
  refine ⟨hin, by unfold ValidDay irr; decide, by unfold ValidDay irr; decide,
    fun h => absurd (h 1969) (by decide), by decide, by decide, by decide, by decide, ?_, s1, s2⟩
  intro y
  have := nb y
  constructor <;> omega

/-- KERNEL-CHECKED COUNTEREXAMPLE for finding F30 (the wall-clock direction; F29 has
`not_separated_counterexample`): the same rule is inside the quantifier (`InsideYear`) but not
`RuleYearly`; the reading 1970-01-01T00:00:00 is answered `Single(+01:00)` — the instant
1969-12-31T23:00:00Z, whose own offset is +00:00 — although NO instant reads it: the wall clock jumps
from 23:59:59 to 01:00:00 at the phantom change of `order_flip_phantom`.  Confirmed on the real crate
(`Local.from_local_datetime(1970-01-01T00:00:00)` = `Single(1970-01-01T00:00:00+01:00)`). -/
theorem irregular_rule_counterexample :
    insideYearB irr = true ∧ ruleYearlyB irr = false ∧
    irrZ.find_local_time_type_from_local 0 = .single irr.dst ∧ wallSet irrZ 0 = [] ∧
    offAt irrZ (0 - irr.dst.off) = 0 ∧
    ¬ Classifies (offAt irrZ) 0 (irrZ.find_local_time_type_from_local 0) := by
  have e : irrZ.find_local_time_type_from_local 0 = .single irr.dst := by decide
  have o : offAt irrZ (0 - irr.dst.off) = 0 := by decide
  refine ⟨by decide +kernel, by decide +kernel, e, by decide, o, ?_⟩
  rw [e]
  intro h
  have := (h (0 - irr.dst.off)).mpr rfl
  rw [o] at this
  revert this
  decide

-- `exZone` (table + footer rule) meets every hypothesis; the 2024 fold is read as two instants, DST first
example : Classifies (offAt exZone) 1729992600 (.ambiguous exRule.dst exRule.std) := by
  have h := from_local_classifies_composed exZone exRule ⟨1710000000, 1⟩ 1729992600 rfl (by decide)
    (by unfold Sorted exZone; decide) (by unfold WellSeparated; decide) (by unfold JoinSeparated; decide)
    (by unfold ValidDay exRule; decide) (by unfold ValidDay exRule; decide) exRule_yearly
    (by unfold exZone NoBoundary' NoBoundary' NoBoundary' NoBoundary'; decide) (by decide) (by decide)
    ⟨fun i => by
        unfold typeAt exZone
        match i with
        | 0 => decide
        | 1 => decide
        | (n + 2) => simp [List.getD]; decide,
      by unfold exZone; decide⟩ (by omega)
  have e : exZone.find_local_time_type_from_local 1729992600 = .ambiguous exRule.dst exRule.std := by decide
  rw [e] at h; exact h

/-- London-like table: GMT → BST 1968-02-18, BST → BST (British Standard Time: same offset, DST flag and
abbreviation change only) 1968-10-27, → GMT 1971-10-31 -/
def lonZone : Zone :=
  ⟨[⟨-59004000, 1⟩, ⟨-37242000, 2⟩, ⟨57722400, 0⟩], [⟨0, false, none⟩, ⟨3600, true, none⟩, ⟨3600, false, none⟩], [], none⟩

-- London 1968-10-27: the theorem covers the very second `T + prevOff` of the offset-preserving
-- transition (it is no excepted second under `NoBoundary'`): one result, the NEW type, not two
example : Classifies (offAt lonZone) (-37242000 + 3600) (.single ⟨3600, false, none⟩) := by
  have h := from_local_classifies lonZone (-37242000 + 3600) rfl (by unfold Sorted lonZone; decide)
    (by unfold WellSeparated; decide) (by unfold lonZone NoBoundary' NoBoundary' NoBoundary' NoBoundary'; decide)
    ⟨fun i => by
        unfold typeAt lonZone
        match i with
        | 0 => decide
        | 1 => decide
        | 2 => decide
        | (n + 3) => simp [List.getD]; decide,
      by unfold lonZone; decide⟩
  have e : lonZone.find_local_time_type_from_local (-37242000 + 3600) = .single ⟨3600, false, none⟩ := by decide
  rw [e] at h; exact h

-- the strict exclusion of every `T + prevOff` implies the property's (so the earlier, narrower form follows)
example (z : Zone) (ℓ : Int) (h : NoBoundary z (typeAt z 0).off z.transitions ℓ) :
    NoBoundary' z (typeAt z 0).off z.transitions ℓ := noBoundary'_of z ℓ _ _ h

/-- a rule that changes only the abbreviation and DST flag (`AAA3BBB3,J60,J300`: equal offsets) -/
def sameOffRule : Alt := ⟨⟨-10800, false, none⟩, ⟨-10800, true, none⟩, .julian1 60, 7200, .julian1 300, 7200⟩

-- … has no excepted second at all: EVERY reading of the year is classified
example (ℓ : Int) : Classifies (yearOff sameOffRule (wallStart sameOffRule 2024) (wallEnd sameOffRule 2024)) ℓ
    (sameOffRule.find_local_time_type_from_local 2024 ℓ) :=
  (rule_from_local_classifies sameOffRule (by unfold ValidDay sameOffRule; decide) (by unfold ValidDay sameOffRule; decide)
    2024 ℓ (by unfold RuleSeparated; decide) (fun h => absurd rfl h) (fun h => absurd rfl h)).1

/-! ### the user-visible layer: `Local` → `Cache::offset` → zone lookups, and the result contract -/

/-- `Local.offset_from_utc_datetime` (through `Cache::offset(d, false)`): the offset the zone data
prescribe for the instant — `offAt`, the function every statement above is about — as long as
`FixedOffset` can hold it (strictly within ±24 h); otherwise the glue answers `None`, which
`offset_from_utc_datetime` then unwraps: a panic.  That was finding F32: such zones were NOT only
synthetic — `TZ=AAA24` is a plain POSIX value and the readers accepted it.  Since the repair
(770977e) the readers refuse every zone with such an offset (`Props.C16.accepted_offsets_representable`),
so for a zone that comes from the readers the `None` branch is unreachable: `cache_offset_ok_accepted`
below.  This theorem is about ANY zone value, hence keeps the branch. -/
theorem cache_offset_ok (z : Zone) (t : Int) (hs : Sorted z.transitions) (hl : z.leaps = [])
    (hr : RuleOk z.rule) (h : -36028797018963968 ≤ t ∧ t ≤ 36028797018963968) :
    cache_offset z t false =
      .ok (if -86400 < offAt z t ∧ offAt z t < 86400 then Mapped.single (offAt z t) else Mapped.none) :=
  cache_offset_utc z t hs hl hr h

/-- `cache_offset_ok` for a zone that comes from the TZif reader, the representability hypothesis
DISCHARGED (F32 repaired): for every instant a `NaiveDateTime` can hold the glue answers
`Single(offAt z t)`, that offset is strictly within 24 h, and `Local::offset_from_utc_datetime`
(`local_offset_from_utc_datetime`: the `unwrap` modelled as a panic) returns it.  Remaining
hypotheses are C05's own scope (no leap-second records, `RuleOk`), not representability. -/
theorem cache_offset_ok_accepted (bytes : List Nat) (z : Zone) (h : parse bytes = .ok z) (t : Int)
    (hl : z.leaps = []) (hr : RuleOk z.rule) (ht : NDT_MIN_TS ≤ t ∧ t ≤ NDT_MAX_TS) :
    cache_offset z t false = .ok (.single (offAt z t))
      ∧ (-86400 < offAt z t ∧ offAt z t < 86400)
      ∧ local_offset_from_utc_datetime z t = .ok (offAt z t) := by
  have hw := Chrono.Proofs.TzValid.parsed_zone_wellformed' bytes z h
  have ht' := ht
  simp only [NDT_MIN_TS, NDT_MAX_TS] at ht'
  have e1 := cache_offset_ok z t hw.2.1 hl hr (by omega)
  obtain ⟨o, h1, h2, -, -⟩ := Chrono.Proofs.TzLocal.local_offset_ok z
    (Chrono.Proofs.TzLocal.parsed_instantSafe bytes z h) (Chrono.Proofs.TzLocal.parsed_within bytes z h) t ht
  rw [e1] at h2
  by_cases c : -86400 < offAt z t ∧ offAt z t < 86400
  · rw [if_pos c] at h2
    have e : offAt z t = o := by
      injection h2 with h2
      injection h2
    rw [e1, if_pos c]
    exact ⟨rfl, c, by rw [e]; exact h1⟩
  · rw [if_neg c] at h2
    injection h2 with h2
    cases h2

/-- the wall-clock direction for a zone from the readers: every candidate offset fits `FixedOffset`
(the hypothesis `ho` of `cache_local_ok` / `from_local_datetime_contract`), so the glue never drops a
candidate (`cache_local_drops` is unreachable) -/
theorem cache_local_candidates_fit (bytes : List Nat) (z : Zone) (h : parse bytes = .ok z)
    (x : Ltt) (hx : x ∈ Chrono.Proofs.TzLocal.zoneTypes z) : -86400 < x.off ∧ x.off < 86400 :=
  Chrono.Proofs.TzLocal.parsed_within bytes z h x hx

/-- `Local.offset_from_local_datetime` (through `Cache::offset(d, true)`): whenever the zone lookup
classifies the reading (the conclusion of `from_local_classifies`, `…_composed`, `…_fixed_rule`,
`…_rule_only`, `…_trivial`) and every candidate offset fits `FixedOffset`, the user-visible
`MappedLocalTime<FixedOffset>` carries exactly the candidates' offsets and classifies the reading in
the same sense: 0 / 1 / 2 instants, right offsets, distinct, earliest first -/
theorem cache_local_ok (z : Zone) (ℓ : Int)
    (hc : Classifies (offAt z) ℓ (z.find_local_time_type_from_local ℓ))
    (ho : ∀ x ∈ (z.find_local_time_type_from_local ℓ).toList, -86400 < x.off ∧ x.off < 86400) :
    ∃ m, cache_offset z ℓ true = .ok m ∧ m = (z.find_local_time_type_from_local ℓ).map (·.off) ∧
      ClassifiesOff (offAt z) ℓ m :=
  ⟨_, cache_offset_local z ℓ ho, rfl, (classifiesOff_map _ _ _).mpr hc⟩

/-- … and what happens otherwise: one candidate offset outside ±24 h drops the whole answer -/
theorem cache_local_drops (z : Zone) (ℓ : Int) (x : Ltt)
    (hx : x ∈ (z.find_local_time_type_from_local ℓ).toList) (hbad : ¬ (-86400 < x.off ∧ x.off < 86400)) :
    cache_offset z ℓ true = .ok .none :=
  cache_offset_local_drops z ℓ x hx hbad

/-- the `MappedLocalTime` contract: of a result that classifies the reading, `earliest()` is the LEAST
instant whose wall clock reads `ℓ`, `latest()` the GREATEST, and both are `None` exactly when no
instant reads `ℓ` -/
theorem mapped_contract (off : Int → Int) (ℓ : Int) (m : Mapped Int) (h : ClassifiesOff off ℓ m) :
    (m.earliest = none ↔ ∀ t, t + off t ≠ ℓ) ∧ (m.latest = none ↔ ∀ t, t + off t ≠ ℓ) ∧
    (∀ o, m.earliest = some o → (ℓ - o) + off (ℓ - o) = ℓ ∧ ∀ t, t + off t = ℓ → ℓ - o ≤ t) ∧
    (∀ o, m.latest = some o → (ℓ - o) + off (ℓ - o) = ℓ ∧ ∀ t, t + off t = ℓ → t ≤ ℓ - o) :=
  mapped_contract' off ℓ m h

theorem ndt_range_ok : NDT_MIN_TS = daysBeforeYear (-262143) * 86400 ∧
    NDT_MAX_TS = daysBeforeYear 262143 * 86400 - 1 := by decide

/-- `Local.from_local_datetime(local)` — the `MappedLocalTime<DateTime<Local>>` the user gets; a
`DateTime` is (instant, offset).  Under the same two hypotheses and with every candidate instant
inside the `NaiveDateTime` range: each value returned is an instant whose wall clock in the zone reads
`ℓ`, carries the offset the zone prescribes at that instant, `earliest()` is the least such instant,
`latest()` the greatest, and the result is `None` exactly when no instant reads `ℓ`. -/
theorem from_local_datetime_contract (z : Zone) (ℓ : Int)
    (hc : Classifies (offAt z) ℓ (z.find_local_time_type_from_local ℓ))
    (ho : ∀ x ∈ (z.find_local_time_type_from_local ℓ).toList, -86400 < x.off ∧ x.off < 86400)
    (hg : ∀ x ∈ (z.find_local_time_type_from_local ℓ).toList, NDT_MIN_TS ≤ ℓ - x.off ∧ ℓ - x.off ≤ NDT_MAX_TS) :
    ∃ m, local_from_local_datetime z ℓ = .ok m ∧
      (m.earliest = none ↔ ∀ t, t + offAt z t ≠ ℓ) ∧ (m.latest = none ↔ ∀ t, t + offAt z t ≠ ℓ) ∧
      (∀ d, m.earliest = some d → d.1 + offAt z d.1 = ℓ ∧ d.2 = offAt z d.1 ∧ ∀ t, t + offAt z t = ℓ → d.1 ≤ t) ∧
      (∀ d, m.latest = some d → d.1 + offAt z d.1 = ℓ ∧ d.2 = offAt z d.1 ∧ ∀ t, t + offAt z t = ℓ → t ≤ d.1) := by
  refine ⟨_, local_from_local_eq z ℓ ho hg, ?_⟩
  have hm := mapped_contract (offAt z) ℓ _ ((classifiesOff_map _ _ _).mpr hc)
  generalize (z.find_local_time_type_from_local ℓ).map (·.off) = mo at *
  obtain ⟨h1, h2, h3, h4⟩ := hm
  cases mo with
  | none => exact ⟨⟨fun _ => h1.mp rfl, fun _ => rfl⟩, ⟨fun _ => h2.mp rfl, fun _ => rfl⟩,
      fun d hd => (by cases hd), fun d hd => (by cases hd)⟩
  | single x =>
    have a := h3 x rfl
    refine ⟨⟨fun e => (by cases e), fun hn => absurd a.1 (hn _)⟩, ⟨fun e => (by cases e), fun hn => absurd a.1 (hn _)⟩, ?_, ?_⟩
    · intro d hd
      have e : (ℓ - x, x) = d := by simpa [Mapped.map, Mapped.earliest] using hd
      subst e
      exact ⟨a.1, by have := a.1; simp only at this ⊢; omega, a.2⟩
    · intro d hd
      have b := h4 x rfl
      have e : (ℓ - x, x) = d := by simpa [Mapped.map, Mapped.latest] using hd
      subst e
      exact ⟨b.1, by have := b.1; simp only at this ⊢; omega, b.2⟩
  | ambiguous x y =>
    have a := h3 x rfl
    have b := h4 y rfl
    refine ⟨⟨fun e => (by cases e), fun hn => absurd a.1 (hn _)⟩, ⟨fun e => (by cases e), fun hn => absurd a.1 (hn _)⟩, ?_, ?_⟩
    · intro d hd
      have e : (ℓ - x, x) = d := by simpa [Mapped.map, Mapped.earliest] using hd
      subst e
      exact ⟨a.1, by have := a.1; simp only at this ⊢; omega, a.2⟩
    · intro d hd
      have e : (ℓ - y, y) = d := by simpa [Mapped.map, Mapped.latest] using hd
      subst e
      exact ⟨b.1, by have := b.1; simp only at this ⊢; omega, b.2⟩

-- New York, 2024-11-03 01:30 local through the glue: Ambiguous(-04:00, -05:00); `earliest()` is the
-- daylight-time instant 05:30 UTC, `latest()` the standard-time instant 06:30 UTC
example : cache_offset exZoneUS 1730597400 true = .ok (.ambiguous (-14400) (-18000)) ∧
    local_from_local_datetime exZoneUS 1730597400 = .ok (.ambiguous (1730611800, -14400) (1730615400, -18000)) ∧
    (Mapped.ambiguous (1730611800, -14400) (1730615400, (-18000 : Int))).earliest = some (1730611800, -14400) ∧
    cache_offset exZoneUS 1720000000 false = .ok (.single (-14400)) := by decide

-- an offset `FixedOffset` cannot hold (a zone VALUE the readers no longer produce, F32): the glue answers `None`
example : cache_offset ⟨[], [⟨86400, false, none⟩], [], none⟩ 0 true = .ok .none ∧
    cache_offset ⟨[], [⟨86400, false, none⟩], [], none⟩ 0 false = .ok .none := by decide

/-! ### the glue's helper functions are the ones tied to the source text elsewhere (second review §3) -/

/-- the glue model's `east_opt` is the C04 model's, hence (code translation, `GenDateTime.gen_east_opt_eq`)
the function regenerated from src/offset/fixed.rs on every run -/
theorem east_opt_tied (secs : Int) :
    M.TzL.east_opt secs = M.Zoned.east_opt secs ∧
    Gen.offset_fixed.FixedOffset.east_opt secs = M.TzL.east_opt secs :=
  ⟨congrFun Chrono.Proofs.TzBridge.east_opt_bridge secs,
   (Chrono.Props.GenDateTime.gen_east_opt_eq secs).trans (congrFun Chrono.Proofs.TzBridge.east_opt_bridge secs).symm⟩

/-- the glue model's `checked_sub_offset` (on timestamps) is the C04 model `NaiveDT.checked_sub_offset`
read in seconds: on a well-formed wall clock `l` and an offset below a day the structured function never
panics, is `None` exactly when the timestamp function is, and otherwise a well-formed date-time whose
second count is the timestamp function's value -/
theorem checked_sub_offset_tied (l : M.NaiveDT) (o : Int) (ho : Spec.OffValid o) (hl : Spec.NDTInv l) :
    ∃ r, l.checked_sub_offset o = .ok r ∧
      r.map Spec.instSecs = M.TzL.checked_sub_offset (Spec.instSecs l) o ∧
      (∀ u, r = some u → Spec.NDTInv u ∧ u.time.frac = l.time.frac) :=
  Chrono.Proofs.TzBridge.checked_sub_offset_bridge l o ho hl

/-- … and composed with the code translation (`GenDateTime.gen_checked_sub_offset_eq`): the function
regenerated from src/naive/datetime/mod.rs, read in seconds, is the glue model's -/
theorem gen_checked_sub_offset_tied (l : M.NaiveDT) (o : Int) (ho : Spec.OffValid o) (hl : Spec.NDTInv l)
    (hd : Chrono.Props.GenDateTime.DateOk l.date) (hol : l.date.yof / 8 % 1024 ≤ 732) :
    ∃ r : Option M.NaiveDT, Gen.naive_datetime.NaiveDateTime.checked_sub_offset (Chrono.Props.GenDateTime.ndtG l) o
          = .ok (r.map Chrono.Props.GenDateTime.ndtG) ∧
      r.map Spec.instSecs = M.TzL.checked_sub_offset (Spec.instSecs l) o := by
  obtain ⟨r, h1, h2, _⟩ := checked_sub_offset_tied l o ho hl
  refine ⟨r, ?_, h2⟩
  rw [Chrono.Props.GenDateTime.gen_checked_sub_offset_eq l o hd hol, h1]
  rfl

-- 2024-11-03 01:30:00 local minus (-4 h): both functions answer 05:30:00 UTC
example : M.TzL.checked_sub_offset 1730597400 (-14400) = some 1730611800 ∧
    M.TzL.checked_sub_offset M.TzL.NDT_MIN_TS 1 = none := by decide

/-- `wallSet` (the brute-force specification the harness mirrors) is exactly the set of instants
whose wall-clock reading is `ℓ` -/
theorem wallSet_mem (z : Zone) (ℓ t : Int) :
    t ∈ wallSet z ℓ ↔ (t + offAt z t = ℓ ∧ ∃ o ∈ offsets z, t = ℓ - o) := mem_wallSet' z ℓ t

example : wallSet exZone (1729992600) = [1730010600, 1730014200] := by decide

end Chrono.Props.C05
