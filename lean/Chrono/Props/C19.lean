/-
  C19 — Weekday, Month and weekday-set algebra is consistent.
  Property statements only (helper lemmas: Chrono/Proofs/WeekdayL.lean).
  Finite parts: `decide`/`decide +kernel` over the whole finite space (7 weekdays, 12 months, all
  128 set words × 7 start days × all 128 front/back schedules).  Infinite parts (all integers, all
  byte strings, all set words for the Boolean laws): case analysis, `omega`, `Nat.testBit_*`.
-/
import Chrono.Proofs.WeekdayL

namespace Chrono.Props.C19
open Chrono Chrono.M Chrono.Spec Chrono.Proofs

/-! ## cycles -/

/-- weekdays form a 7-cycle: succ/pred are inverse, 7 steps return, fewer steps never do -/
theorem weekday_cycle (w : Weekday) :
    w.succ.pred = w ∧ w.pred.succ = w ∧ iter Weekday.succ 7 w = w ∧
    (∀ k < 7, 0 < k → iter Weekday.succ k w ≠ w) ∧
    w.succ.toNat = (w.toNat + 1) % 7 := by
  cases w <;> decide

theorem month_cycle (m : Month) :
    m.succ.pred = m ∧ m.pred.succ = m ∧ iter Month.succ 12 m = m ∧
    (∀ k < 12, 0 < k → iter Month.succ k m ≠ m) ∧
    m.succ.number_from_month = m.number_from_month % 12 + 1 := by
  cases m <;> decide

/-! ## numbering and distance -/

theorem weekday_numbering (w : Weekday) :
    w.num_days_from_monday = w.toNat ∧ w.number_from_monday = w.toNat + 1 ∧
    w.num_days_from_sunday = (w.toNat + 1) % 7 ∧ w.number_from_sunday = (w.toNat + 1) % 7 + 1 := by
  cases w <;> decide

/-- `days_since` is the cyclic distance: the number of `succ` steps from `other` to `self` -/
theorem days_since_spec (a b : Weekday) :
    a.days_since b < 7 ∧ iter Weekday.succ (a.days_since b) b = a ∧
    a.days_since b = (a.toNat + 7 - b.toNat) % 7 := by
  cases a <;> cases b <;> decide

theorem month_numbering (m : Month) : m.number_from_month = m.toNat + 1 := by
  cases m <;> decide

/-! ## numeric conversions: inverse to the numbering, reject every other integer -/

theorem weekday_from_int_iff (n : Int) (w : Weekday) :
    (Weekday.try_from_u8 n = some w ↔ n = w.toNat) ∧
    (Weekday.from_i64 n = some w ↔ n = w.toNat) ∧
    (Weekday.from_u64 n = some w ↔ n = w.toNat) ∧
    (Weekday.from_u32 n = some w ↔ n = w.toNat) ∧
    (Weekday.from_i32 n = some w ↔ n = w.toNat) := by
  have key : Weekday.ofInt n = some w ↔ n = w.toNat := by
    have hn : n = 0 ∨ n = 1 ∨ n = 2 ∨ n = 3 ∨ n = 4 ∨ n = 5 ∨ n = 6 ∨ (n < 0 ∨ 6 < n) := by omega
    rcases hn with h | h | h | h | h | h | h | h
    all_goals first
      | (subst h; cases w <;> decide)
      | (have e : Weekday.ofInt n = none := by
           unfold Weekday.ofInt
           simp only [show n ≠ 0 by omega, show n ≠ 1 by omega, show n ≠ 2 by omega,
             show n ≠ 3 by omega, show n ≠ 4 by omega, show n ≠ 5 by omega, show n ≠ 6 by omega,
             if_false]
         rw [e]; cases w <;> simp [Weekday.toNat] <;> omega)
  exact ⟨key, key, key, key, key⟩

theorem month_from_u32_iff (n : Int) (m : Month) :
    (Month.try_from_u8 n = some m ↔ n = m.number_from_month) ∧
    (Month.from_u32 n = some m ↔ n = m.number_from_month) := by
  have key : Month.ofNumber n = some m ↔ n = m.number_from_month := by
    have hn : n = 1 ∨ n = 2 ∨ n = 3 ∨ n = 4 ∨ n = 5 ∨ n = 6 ∨ n = 7 ∨ n = 8 ∨ n = 9 ∨ n = 10 ∨
        n = 11 ∨ n = 12 ∨ (n < 1 ∨ 12 < n) := by omega
    rcases hn with h | h | h | h | h | h | h | h | h | h | h | h | h
    all_goals first
      | (subst h; cases m <;> decide)
      | (have e : Month.ofNumber n = none := by
           unfold Month.ofNumber
           simp only [show n ≠ 1 by omega, show n ≠ 2 by omega, show n ≠ 3 by omega,
             show n ≠ 4 by omega, show n ≠ 5 by omega, show n ≠ 6 by omega, show n ≠ 7 by omega,
             show n ≠ 8 by omega, show n ≠ 9 by omega, show n ≠ 10 by omega, show n ≠ 11 by omega,
             show n ≠ 12 by omega, if_false]
         rw [e]; cases m <;> simp [Month.number_from_month] <;> omega)
  exact ⟨key, key⟩

/-- full strength, for every integer (this was false on the pinned tree: finding #12) -/
theorem month_from_u64_i64_iff (n : Int) (m : Month) :
    (Month.from_u64 n = some m ↔ n = m.number_from_month) ∧
    (Month.from_i64 n = some m ↔ n = m.number_from_month) ∧
    (Month.from_i32 n = some m ↔ n = m.number_from_month) := by
  have key : (if inU32 n then Month.from_u32 n else none) = some m ↔ n = m.number_from_month := by
    have h := (month_from_u32_iff n m).2
    by_cases hu : inU32 n = true
    · simp only [hu, if_true]; exact h
    · simp only [hu]
      constructor
      · intro h'; cases h'
      · intro h'
        exfalso; apply hu
        subst h'
        cases m <;> decide
  exact ⟨key, key, key⟩

/-- the narrowing `n as u32` of the pinned code accepted integers that are no month number -/
theorem month_from_u64_narrowing_counterexample :
    Month.from_u64_narrowing (4294967296 + 1) = some Month.jan := by decide

/-! ## names and text parsing -/

theorem weekday_parse_display (w : Weekday) : Weekday.parse w.display = some w := by
  cases w <;> decide

theorem month_parse_name (m : Month) : Month.parse m.name = some m := by
  cases m <;> decide

/-- the name tables hold what the specification's `parse_iff` theorems need -/
theorem name_tables_ok :
    Extracted.SHORT_WEEKDAYS.Nodup ∧ Extracted.SHORT_WEEKDAYS.length = 7 ∧
    Extracted.SHORT_MONTHS.Nodup ∧ Extracted.SHORT_MONTHS.length = 12 ∧
    (∀ w ∈ Weekday.all, allLowerAlpha (weekdayLong w) = true ∧ (weekdayShort w).length = 3) ∧
    (∀ m ∈ Month.all, allLowerAlpha (monthLong m) = true ∧ (monthShort m).length = 3) ∧
    (∀ w ∈ Weekday.all, lowerS w.display = weekdayShort w) ∧
    (∀ m ∈ Month.all, lowerS m.name = monthLong m) := by
  decide

/-- for **every** byte string: it parses to `w` exactly when, lower-cased, it is the short or the
long name of `w` -/
theorem weekday_parse_iff (s : List Nat) (w : Weekday) :
    Weekday.parse s = some w ↔ (lowerS s = weekdayShort w ∨ lowerS s = weekdayLong w) := by
  obtain ⟨hnd, _, _, _, hlw, _, _, _⟩ := name_tables_ok
  have hlow : ∀ t ∈ Extracted.SHORT_WEEKDAYS, allLowerAlpha t = true ∧ t.length = 3 := by decide
  have hsuf : lowerS (Extracted.LONG_WEEKDAY_SUFFIXES.getD w.toNat []) =
      Extracted.LONG_WEEKDAY_SUFFIXES.getD w.toNat [] := by cases w <;> decide
  have hget : Extracted.SHORT_WEEKDAYS[w.toNat]? = some (weekdayShort w) := by cases w <;> decide
  have hkey := name_nil_iff Extracted.SHORT_WEEKDAYS hnd hlow
    (Extracted.LONG_WEEKDAY_SUFFIXES.getD w.toNat []) s w.toNat
  have hmodel : Weekday.parse s = some w ↔
      ∃ rest, short_name Extracted.SHORT_WEEKDAYS s = .ok (rest, w.toNat) ∧
        eatSuffix rest (Extracted.LONG_WEEKDAY_SUFFIXES.getD w.toNat []) = [] := by
    rw [Weekday.parse_eq]
    cases hsn : short_name Extracted.SHORT_WEEKDAYS s with
    | error e => simp
    | ok p =>
      obtain ⟨rest, i⟩ := p
      simp only [Except.ok.injEq, Prod.mk.injEq]
      cases hw : weekdayOfIdx i with
      | none =>
        constructor
        · intro h; cases h
        · rintro ⟨r, ⟨_, h2⟩, _⟩
          rw [(weekdayOfIdx_iff i w).mpr h2] at hw; cases hw
      | some w' =>
        have hi' := (weekdayOfIdx_iff i w').mp hw
        have hnm : w'.num_days_from_monday = w'.toNat := by cases w' <;> decide
        simp only [hnm]
        constructor
        · intro h
          split at h
          · rename_i he
            simp only [Option.some.injEq] at h
            subst h
            exact ⟨rest, ⟨rfl, hi'⟩, he⟩
          · cases h
        · rintro ⟨r, ⟨h1, h2⟩, h3⟩
          subst h1
          have hww : w' = w := by
            have e := (weekdayOfIdx_iff i w).mpr h2
            rw [hw] at e; exact Option.some.inj e
          subst hww
          rw [if_pos h3]
  rw [hmodel, hkey]
  constructor
  · rintro ⟨t, ht, h⟩
    rw [hget] at ht
    simp only [Option.some.injEq] at ht
    subst ht
    rw [hsuf] at h
    exact h
  · intro h
    exact ⟨_, hget, by rw [hsuf]; exact h⟩

theorem month_parse_iff (s : List Nat) (m : Month) :
    Month.parse s = some m ↔ (lowerS s = monthShort m ∨ lowerS s = monthLong m) := by
  obtain ⟨_, _, hnd, _, _, _, _, _⟩ := name_tables_ok
  have hlow : ∀ t ∈ Extracted.SHORT_MONTHS, allLowerAlpha t = true ∧ t.length = 3 := by decide
  have hsuf : lowerS (Extracted.LONG_MONTH_SUFFIXES.getD m.toNat []) =
      Extracted.LONG_MONTH_SUFFIXES.getD m.toNat [] := by cases m <;> decide
  have hget : Extracted.SHORT_MONTHS[m.toNat]? = some (monthShort m) := by cases m <;> decide
  have hkey := name_nil_iff Extracted.SHORT_MONTHS hnd hlow
    (Extracted.LONG_MONTH_SUFFIXES.getD m.toNat []) s m.toNat
  have hmodel : Month.parse s = some m ↔
      ∃ rest, short_name Extracted.SHORT_MONTHS s = .ok (rest, m.toNat) ∧
        eatSuffix rest (Extracted.LONG_MONTH_SUFFIXES.getD m.toNat []) = [] := by
    rw [Month.parse_eq]
    cases hsn : short_name Extracted.SHORT_MONTHS s with
    | error e => simp
    | ok p =>
      obtain ⟨rest, i⟩ := p
      simp only [Except.ok.injEq, Prod.mk.injEq]
      constructor
      · intro h
        split at h
        · rename_i he
          have hi := (monthOfIndex0_iff i m).mp h
          subst hi
          exact ⟨rest, ⟨rfl, rfl⟩, he⟩
        · cases h
      · rintro ⟨r, ⟨h1, h2⟩, h3⟩
        subst h1; subst h2
        rw [if_pos h3]
        exact (monthOfIndex0_iff _ m).mpr rfl
  rw [hmodel, hkey]
  constructor
  · rintro ⟨t, ht, h⟩
    rw [hget] at ht
    simp only [Option.some.injEq] at ht
    subst ht
    rw [hsuf] at h
    exact h
  · intro h
    exact ⟨_, hget, by rw [hsuf]; exact h⟩

/-- non-vacuity: a mixed-case long name and a short name are accepted, a near miss is not -/
example : Weekday.parse (asciiBytes "wEdNesday") = some Weekday.wed ∧
    Month.parse (asciiBytes "SEP") = some Month.sep ∧ Month.parse (asciiBytes "septem") = none := by
  decide

/-! ## weekday sets: the word `s` denotes `{d | mem s d}`; invariant: `s < 128` (bit 7 clear) -/

/-- `contains` is membership, `single` is the singleton, on every word satisfying the invariant -/
theorem contains_is_mem : ∀ s < 128, ∀ d ∈ Weekday.all,
    WeekdaySet.contains s d = mem s d ∧
    (∀ e ∈ Weekday.all, mem (WeekdaySet.single d) e = decide (e = d)) ∧
    WeekdaySet.single d < 128 := by
  decide +kernel

/-- Boolean-algebra laws for **all** words (not by enumeration): union, intersection and symmetric
difference are the set operations -/
theorem union_inter_xor_spec (a b : Nat) (d : Weekday) :
    mem (WeekdaySet.union a b) d = (mem a d || mem b d) ∧
    mem (WeekdaySet.intersection a b) d = (mem a d && mem b d) ∧
    mem (WeekdaySet.symmetric_difference a b) d = (mem a d ^^ mem b d) := by
  unfold mem WeekdaySet.union WeekdaySet.intersection WeekdaySet.symmetric_difference
  exact ⟨Nat.testBit_or _ _ _, Nat.testBit_and _ _ _, Nat.testBit_xor _ _ _⟩

/-- complement within a byte flips the eight low bits -/
theorem not8_testBit : ∀ b < 256, ∀ i < 8, (WeekdaySet.not8 b).testBit i = !b.testBit i := by
  decide +kernel

theorem difference_spec (a b : Nat) (hb : b < 128) (d : Weekday) :
    mem (WeekdaySet.difference a b) d = (mem a d && !mem b d) := by
  unfold mem WeekdaySet.difference
  rw [Nat.testBit_and, not8_testBit b (by omega) d.toNat (by cases d <;> decide)]

/-- every operation keeps the invariant "bit 7 clear" -/
theorem ops_keep_invariant (a b : Nat) (ha : a < 128) (hb : b < 128) (d : Weekday) :
    WeekdaySet.union a b < 128 ∧ WeekdaySet.intersection a b < 128 ∧
    WeekdaySet.symmetric_difference a b < 128 ∧ WeekdaySet.difference a b < 128 ∧
    (WeekdaySet.insert a d).1 < 128 ∧ (WeekdaySet.remove a d).1 < 128 := by
  have hs : WeekdaySet.single d < 128 := by cases d <;> decide
  have h7 : (128 : Nat) = 2 ^ 7 := by decide
  have hand : ∀ x y : Nat, x < 128 → x &&& y < 128 := by
    intro x y hx; exact Nat.lt_of_le_of_lt Nat.and_le_left hx
  refine ⟨?_, ?_, ?_, ?_, ?_, ?_⟩
  · unfold WeekdaySet.union; rw [h7] at *; exact Nat.or_lt_two_pow ha hb
  · unfold WeekdaySet.intersection; exact hand a b ha
  · unfold WeekdaySet.symmetric_difference; rw [h7] at *; exact Nat.xor_lt_two_pow ha hb
  · unfold WeekdaySet.difference; exact hand a _ ha
  · unfold WeekdaySet.insert; split
    · exact ha
    · show a ||| WeekdaySet.single d < 128
      rw [h7] at *; exact Nat.or_lt_two_pow ha hs
  · unfold WeekdaySet.remove; split
    · exact hand a _ ha
    · exact ha

/-- insert / remove: new set and the reported flag -/
theorem insert_remove_spec : ∀ s < 128, ∀ d ∈ Weekday.all, ∀ e ∈ Weekday.all,
    mem (WeekdaySet.insert s d).1 e = (mem s e || decide (e = d)) ∧
    (WeekdaySet.insert s d).2 = !mem s d ∧
    mem (WeekdaySet.remove s d).1 e = (mem s e && !decide (e = d)) ∧
    (WeekdaySet.remove s d).2 = mem s d := by
  decide +kernel

/-- subset test, on all pairs of sets -/
theorem subset_spec : ∀ a < 128, ∀ b < 128,
    WeekdaySet.is_subset a b = Weekday.all.all (fun d => !mem a d || mem b d) := by
  decide +kernel

/-- two words with the invariant denote the same set only if they are equal (so word equality,
hashing and ordering of the word are set equality) -/
theorem extensional : ∀ a < 128, ∀ b < 128, (∀ d ∈ Weekday.all, mem a d = mem b d) → a = b := by
  decide +kernel

/-- length, emptiness, first (least weekday), last (greatest weekday), single_day -/
theorem len_first_last_spec : ∀ s < 128,
    WeekdaySet.len s = card s ∧
    WeekdaySet.is_empty s = decide (card s = 0) ∧
    WeekdaySet.first s = Weekday.all.find? (mem s) ∧
    WeekdaySet.last s = Weekday.all.reverse.find? (mem s) ∧
    WeekdaySet.single_day s = (if card s = 1 then Weekday.all.find? (mem s) else none) := by
  decide +kernel

theorem from_list_spec (ds : List Weekday) (e : Weekday) :
    mem (WeekdaySet.from_list ds) e = decide (e ∈ ds) ∧ WeekdaySet.from_list ds < 128 := by
  suffices h : ∀ acc, acc < 128 →
      (mem (ds.foldl (fun acc d => acc ||| WeekdaySet.single d) acc) e = (mem acc e || decide (e ∈ ds)) ∧
       ds.foldl (fun acc d => acc ||| WeekdaySet.single d) acc < 128) by
    have := h 0 (by decide)
    unfold WeekdaySet.from_list
    refine ⟨?_, this.2⟩
    rw [this.1]
    have : mem 0 e = false := by cases e <;> decide
    simp [this]
  induction ds with
  | nil => intro acc h; simp [h]
  | cons d ds ih =>
    intro acc hacc
    have hs : WeekdaySet.single d < 128 := by cases d <;> decide
    have h7 : (128 : Nat) = 2 ^ 7 := by decide
    have hlt : acc ||| WeekdaySet.single d < 128 := by
      rw [h7] at *; exact Nat.or_lt_two_pow hacc hs
    have := ih _ hlt
    simp only [List.foldl_cons]
    refine ⟨?_, this.2⟩
    rw [this.1]
    have hm : mem (acc ||| WeekdaySet.single d) e = (mem acc e || decide (e = d)) := by
      unfold mem; rw [Nat.testBit_or]
      have := ((contains_is_mem (WeekdaySet.single d) hs d (weekday_all_complete d)).2.1 e
        (weekday_all_complete e))
      unfold mem at this; rw [this]
    rw [hm]
    by_cases hed : e = d <;> simp [hed]

/-! ## iteration -/

/-- from the front: each member exactly once, in cyclic weekday order from `start`;
from the back: the same sequence reversed; the `expect`s never fire -/
theorem iter_spec : ∀ s < 128, ∀ start ∈ Weekday.all,
    WeekdaySet.drainFront 8 ⟨s, start⟩ = .ok (forward s start) ∧
    WeekdaySet.drainBack 8 ⟨s, start⟩ = .ok (forward s start).reverse ∧
    (forward s start).length = card s := by
  decide +kernel

/-- one-step contract of `next` / `next_back` on every set and start day (see `Spec.stepOk`) -/
theorem iter_step_spec : ∀ s < 128, ∀ start ∈ Weekday.all, stepOk s start = true := by
  decide +kernel

/-- every interleaving of front and back pulls, of **any** length: no panic, and the front items,
then what is still in the iterator, then the reversed back items are exactly the forward sequence
— nothing repeated, nothing skipped -/
theorem iter_interleaved_spec (sched : List Bool) (s : Nat) (start : Weekday) (hs : s < 128) :
    ∃ fs ks s', WeekdaySet.runSchedule sched ⟨s, start⟩ = .ok (fs, ks, ⟨s', start⟩) ∧ s' < 128 ∧
      forward s start = fs ++ forward s' start ++ ks.reverse := by
  induction sched generalizing s with
  | nil => exact ⟨[], [], s, rfl, hs, by simp⟩
  | cons b bs ih =>
    have hstep := iter_step_spec s hs start (weekday_all_complete start)
    unfold stepOk at hstep
    simp only [Bool.and_eq_true] at hstep
    obtain ⟨hfront, hback⟩ := hstep
    cases b with
    | true =>
      cases hf : forward s start with
      | nil =>
        rw [hf] at hfront
        simp only [beq_iff_eq] at hfront
        obtain ⟨fs, ks, s', hr, hs', heq⟩ := ih s hs
        refine ⟨fs, ks, s', ?_, hs', by rw [← hf]; exact heq⟩
        simp only [WeekdaySet.runSchedule, if_true, hfront, hr]
      | cons d t =>
        rw [hf] at hfront
        simp only [Bool.and_eq_true, beq_iff_eq, decide_eq_true_eq] at hfront
        obtain ⟨⟨hn, hfw⟩, hlt⟩ := hfront
        obtain ⟨fs, ks, s', hr, hs', heq⟩ := ih _ hlt
        refine ⟨d :: fs, ks, s', ?_, hs', ?_⟩
        · simp only [WeekdaySet.runSchedule, if_true, hn, hr]
        · rw [hfw] at heq; rw [heq]; simp
    | false =>
      cases hf : (forward s start).reverse with
      | nil =>
        rw [hf] at hback
        simp only [beq_iff_eq] at hback
        obtain ⟨fs, ks, s', hr, hs', heq⟩ := ih s hs
        refine ⟨fs, ks, s', ?_, hs', heq⟩
        simp only [WeekdaySet.runSchedule, Bool.false_eq_true, if_false, hback, hr]
      | cons d t =>
        rw [hf] at hback
        simp only [Bool.and_eq_true, beq_iff_eq, decide_eq_true_eq] at hback
        obtain ⟨⟨hn, hfw⟩, hlt⟩ := hback
        obtain ⟨fs, ks, s', hr, hs', heq⟩ := ih _ hlt
        refine ⟨fs, d :: ks, s', ?_, hs', ?_⟩
        · simp only [WeekdaySet.runSchedule, Bool.false_eq_true, if_false, hn, hr]
        · have : forward s start = t.reverse ++ [d] := by
            have := congrArg List.reverse hf
            simpa using this
          rw [this, ← hfw, heq]; simp

/-- non-vacuity: {Tue, Thu, Sun} iterated from Wednesday -/
example : forward 74 Weekday.wed = [Weekday.thu, Weekday.sun, Weekday.tue] ∧
    WeekdaySet.from_list [Weekday.tue, Weekday.thu, Weekday.sun] = 74 := by decide

end Chrono.Props.C19
