/-
  C19 — Weekday, Month and weekday-set algebra is consistent.
  Property statements only (helper lemmas: Chrono/Proofs/WeekdayL.lean).
  Finite parts: `decide`/`decide +kernel` over the whole finite space (7 weekdays, 12 months, all
  128 set words × 7 start days × all 128 front/back schedules).  Infinite parts (all integers, all
  byte strings, all set words for the Boolean laws): case analysis, `omega`, `Nat.testBit_*`.
-/
import Chrono.Proofs.WeekdayConvL

namespace Chrono.Props.C19
open Chrono Chrono.M Chrono.Spec Chrono.Proofs Chrono.Proofs.WeekdayConv

/-! ## cycles -/

/-- weekdays form a 7-cycle: succ/pred are inverse, 7 steps return, fewer steps never do -/
theorem weekday_cycle (w : Weekday) :
    w.succ.pred = w ∧ w.pred.succ = w ∧ iter Weekday.succ 7 w = w ∧
    (∀ k < 7, 0 < k → iter Weekday.succ k w ≠ w) ∧
    w.succ.toNat = (w.toNat + 1) % 7 := by
  cases w <;> decide

theorem month_cycle (m : Month) :
    m.succ.pred = m ∧ m.pred.succ = m ∧ iter Month.succ 12 m = m ∧
    (∀ k < 12, 0 < k → iter Month.succ k m ≠ m) ∧
    m.succ.number_from_month = m.number_from_month % 12 + 1 := by
  cases m <;> decide

/-! ## numbering and distance -/

theorem weekday_numbering (w : Weekday) :
    w.num_days_from_monday = w.toNat ∧ w.number_from_monday = w.toNat + 1 ∧
    w.num_days_from_sunday = (w.toNat + 1) % 7 ∧ w.number_from_sunday = (w.toNat + 1) % 7 + 1 := by
  cases w <;> decide

/-- `days_since` is the cyclic distance: the number of `succ` steps from `other` to `self` -/
theorem days_since_spec (a b : Weekday) :
    a.days_since b < 7 ∧ iter Weekday.succ (a.days_since b) b = a ∧
    a.days_since b = (a.toNat + 7 - b.toNat) % 7 := by
  cases a <;> cases b <;> decide

theorem month_numbering (m : Month) : m.number_from_month = m.toNat + 1 := by
  cases m <;> decide

/-! ## numeric conversions: inverse to the numbering, reject every other integer -/

theorem weekday_from_int_iff (n : Int) (w : Weekday) :
    (Weekday.try_from_u8 n = some w ↔ n = w.toNat) ∧
    (Weekday.from_i64 n = some w ↔ n = w.toNat) ∧
    (Weekday.from_u64 n = some w ↔ n = w.toNat) ∧
    (Weekday.from_u32 n = some w ↔ n = w.toNat) ∧
    (Weekday.from_i32 n = some w ↔ n = w.toNat) := by
  have key : Weekday.ofInt n = some w ↔ n = w.toNat := by
    have hn : n = 0 ∨ n = 1 ∨ n = 2 ∨ n = 3 ∨ n = 4 ∨ n = 5 ∨ n = 6 ∨ (n < 0 ∨ 6 < n) := by omega
    rcases hn with h | h | h | h | h | h | h | h
    all_goals first
      | (subst h; cases w <;> decide)
      | (have e : Weekday.ofInt n = none := by
           unfold Weekday.ofInt
           simp only [show n ≠ 0 by omega, show n ≠ 1 by omega, show n ≠ 2 by omega,
             show n ≠ 3 by omega, show n ≠ 4 by omega, show n ≠ 5 by omega, show n ≠ 6 by omega,
             if_false]
         rw [e]; cases w <;> simp [Weekday.toNat] <;> omega)
  exact ⟨key, key, key, key, key⟩

theorem month_from_u32_iff (n : Int) (m : Month) :
    (Month.try_from_u8 n = some m ↔ n = m.number_from_month) ∧
    (Month.from_u32 n = some m ↔ n = m.number_from_month) := by
  have key : Month.ofNumber n = some m ↔ n = m.number_from_month := by
    have hn : n = 1 ∨ n = 2 ∨ n = 3 ∨ n = 4 ∨ n = 5 ∨ n = 6 ∨ n = 7 ∨ n = 8 ∨ n = 9 ∨ n = 10 ∨
        n = 11 ∨ n = 12 ∨ (n < 1 ∨ 12 < n) := by omega
    rcases hn with h | h | h | h | h | h | h | h | h | h | h | h | h
    all_goals first
      | (subst h; cases m <;> decide)
      | (have e : Month.ofNumber n = none := by
           unfold Month.ofNumber
           simp only [show n ≠ 1 by omega, show n ≠ 2 by omega, show n ≠ 3 by omega,
             show n ≠ 4 by omega, show n ≠ 5 by omega, show n ≠ 6 by omega, show n ≠ 7 by omega,
             show n ≠ 8 by omega, show n ≠ 9 by omega, show n ≠ 10 by omega, show n ≠ 11 by omega,
             show n ≠ 12 by omega, if_false]
         rw [e]; cases m <;> simp [Month.number_from_month] <;> omega)
  exact ⟨key, key⟩

/-- full strength, for every integer (this was false on the pinned tree: finding #12) -/
theorem month_from_u64_i64_iff (n : Int) (m : Month) :
    (Month.from_u64 n = some m ↔ n = m.number_from_month) ∧
    (Month.from_i64 n = some m ↔ n = m.number_from_month) ∧
    (Month.from_i32 n = some m ↔ n = m.number_from_month) := by
  have key : (if inU32 n then Month.from_u32 n else none) = some m ↔ n = m.number_from_month := by
    have h := (month_from_u32_iff n m).2
    by_cases hu : inU32 n = true
    · simp only [hu, if_true]; exact h
    · simp only [hu]
      constructor
      · intro h'; cases h'
      · intro h'
        exfalso; apply hu
        subst h'
        cases m <;> decide
  exact ⟨key, key, key⟩

/-- the narrowing `n as u32` of the pinned code accepted integers that are no month number -/
theorem month_from_u64_narrowing_counterexample :
    Month.from_u64_narrowing (4294967296 + 1) = some Month.jan := by decide

/-! ## names and text parsing -/

theorem weekday_parse_display (w : Weekday) : Weekday.parse w.display = some w := by
  cases w <;> decide

theorem month_parse_name (m : Month) : Month.parse m.name = some m := by
  cases m <;> decide

/-- the name tables hold what the specification's `parse_iff` theorems need -/
theorem name_tables_ok :
    Extracted.SHORT_WEEKDAYS.Nodup ∧ Extracted.SHORT_WEEKDAYS.length = 7 ∧
    Extracted.SHORT_MONTHS.Nodup ∧ Extracted.SHORT_MONTHS.length = 12 ∧
    (∀ w ∈ Weekday.all, allLowerAlpha (weekdayLong w) = true ∧ (weekdayShort w).length = 3) ∧
    (∀ m ∈ Month.all, allLowerAlpha (monthLong m) = true ∧ (monthShort m).length = 3) ∧
    (∀ w ∈ Weekday.all, lowerS w.display = weekdayShort w) ∧
    (∀ m ∈ Month.all, lowerS m.name = monthLong m) := by
  decide

/-- for **every** byte string: it parses to `w` exactly when, lower-cased, it is the short or the
long name of `w` -/
theorem weekday_parse_iff (s : List Nat) (w : Weekday) :
    Weekday.parse s = some w ↔ (lowerS s = weekdayShort w ∨ lowerS s = weekdayLong w) := by
  obtain ⟨hnd, _, _, _, hlw, _, _, _⟩ := name_tables_ok
  have hlow : ∀ t ∈ Extracted.SHORT_WEEKDAYS, allLowerAlpha t = true ∧ t.length = 3 := by decide
  have hsuf : lowerS (Extracted.LONG_WEEKDAY_SUFFIXES.getD w.toNat []) =
      Extracted.LONG_WEEKDAY_SUFFIXES.getD w.toNat [] := by cases w <;> decide
  have hget : Extracted.SHORT_WEEKDAYS[w.toNat]? = some (weekdayShort w) := by cases w <;> decide
  have hkey := name_nil_iff Extracted.SHORT_WEEKDAYS hnd hlow
    (Extracted.LONG_WEEKDAY_SUFFIXES.getD w.toNat []) s w.toNat
  have hmodel : Weekday.parse s = some w ↔
      ∃ rest, short_name Extracted.SHORT_WEEKDAYS s = .ok (rest, w.toNat) ∧
        eatSuffix rest (Extracted.LONG_WEEKDAY_SUFFIXES.getD w.toNat []) = [] := by
    rw [Weekday.parse_eq]
    cases hsn : short_name Extracted.SHORT_WEEKDAYS s with
    | error e => simp
    | ok p =>
      obtain ⟨rest, i⟩ := p
      simp only [Except.ok.injEq, Prod.mk.injEq]
      cases hw : weekdayOfIdx i with
      | none =>
        constructor
        · intro h; cases h
        · rintro ⟨r, ⟨_, h2⟩, _⟩
          rw [(weekdayOfIdx_iff i w).mpr h2] at hw; cases hw
      | some w' =>
        have hi' := (weekdayOfIdx_iff i w').mp hw
        have hnm : w'.num_days_from_monday = w'.toNat := by cases w' <;> decide
        simp only [hnm]
        constructor
        · intro h
          split at h
          · rename_i he
            simp only [Option.some.injEq] at h
            subst h
            exact ⟨rest, ⟨rfl, hi'⟩, he⟩
          · cases h
        · rintro ⟨r, ⟨h1, h2⟩, h3⟩
          subst h1
          have hww : w' = w := by
            have e := (weekdayOfIdx_iff i w).mpr h2
            rw [hw] at e; exact Option.some.inj e
          subst hww
          rw [if_pos h3]
  rw [hmodel, hkey]
  constructor
  · rintro ⟨t, ht, h⟩
    rw [hget] at ht
    simp only [Option.some.injEq] at ht
    subst ht
    rw [hsuf] at h
    exact h
  · intro h
    exact ⟨_, hget, by rw [hsuf]; exact h⟩

theorem month_parse_iff (s : List Nat) (m : Month) :
    Month.parse s = some m ↔ (lowerS s = monthShort m ∨ lowerS s = monthLong m) := by
  obtain ⟨_, _, hnd, _, _, _, _, _⟩ := name_tables_ok
  have hlow : ∀ t ∈ Extracted.SHORT_MONTHS, allLowerAlpha t = true ∧ t.length = 3 := by decide
  have hsuf : lowerS (Extracted.LONG_MONTH_SUFFIXES.getD m.toNat []) =
      Extracted.LONG_MONTH_SUFFIXES.getD m.toNat [] := by cases m <;> decide
  have hget : Extracted.SHORT_MONTHS[m.toNat]? = some (monthShort m) := by cases m <;> decide
  have hkey := name_nil_iff Extracted.SHORT_MONTHS hnd hlow
    (Extracted.LONG_MONTH_SUFFIXES.getD m.toNat []) s m.toNat
  have hmodel : Month.parse s = some m ↔
      ∃ rest, short_name Extracted.SHORT_MONTHS s = .ok (rest, m.toNat) ∧
        eatSuffix rest (Extracted.LONG_MONTH_SUFFIXES.getD m.toNat []) = [] := by
    rw [Month.parse_eq]
    cases hsn : short_name Extracted.SHORT_MONTHS s with
    | error e => simp
    | ok p =>
      obtain ⟨rest, i⟩ := p
      simp only [Except.ok.injEq, Prod.mk.injEq]
      constructor
      · intro h
        split at h
        · rename_i he
          have hi := (monthOfIndex0_iff i m).mp h
          subst hi
          exact ⟨rest, ⟨rfl, rfl⟩, he⟩
        · cases h
      · rintro ⟨r, ⟨h1, h2⟩, h3⟩
        subst h1; subst h2
        rw [if_pos h3]
        exact (monthOfIndex0_iff _ m).mpr rfl
  rw [hmodel, hkey]
  constructor
  · rintro ⟨t, ht, h⟩
    rw [hget] at ht
    simp only [Option.some.injEq] at ht
    subst ht
    rw [hsuf] at h
    exact h
  · intro h
    exact ⟨_, hget, by rw [hsuf]; exact h⟩

/-- non-vacuity: a mixed-case long name and a short name are accepted, a near miss is not -/
example : Weekday.parse (asciiBytes "wEdNesday") = some Weekday.wed ∧
    Month.parse (asciiBytes "SEP") = some Month.sep ∧ Month.parse (asciiBytes "septem") = none := by
  decide

/-! ## weekday sets: the word `s` denotes `{d | mem s d}`; invariant: `s < 128` (bit 7 clear) -/

/-- `contains` is membership, `single` is the singleton, on every word satisfying the invariant -/
theorem contains_is_mem : ∀ s < 128, ∀ d ∈ Weekday.all,
    WeekdaySet.contains s d = mem s d ∧
    (∀ e ∈ Weekday.all, mem (WeekdaySet.single d) e = decide (e = d)) ∧
    WeekdaySet.single d < 128 := by
  decide +kernel

/-- Boolean-algebra laws for **all** words (not by enumeration): union, intersection and symmetric
difference are the set operations -/
theorem union_inter_xor_spec (a b : Nat) (d : Weekday) :
    mem (WeekdaySet.union a b) d = (mem a d || mem b d) ∧
    mem (WeekdaySet.intersection a b) d = (mem a d && mem b d) ∧
    mem (WeekdaySet.symmetric_difference a b) d = (mem a d ^^ mem b d) := by
  unfold mem WeekdaySet.union WeekdaySet.intersection WeekdaySet.symmetric_difference
  exact ⟨Nat.testBit_or _ _ _, Nat.testBit_and _ _ _, Nat.testBit_xor _ _ _⟩

/-- complement within a byte flips the eight low bits -/
theorem not8_testBit : ∀ b < 256, ∀ i < 8, (WeekdaySet.not8 b).testBit i = !b.testBit i := by
  decide +kernel

theorem difference_spec (a b : Nat) (hb : b < 128) (d : Weekday) :
    mem (WeekdaySet.difference a b) d = (mem a d && !mem b d) := by
  unfold mem WeekdaySet.difference
  rw [Nat.testBit_and, not8_testBit b (by omega) d.toNat (by cases d <;> decide)]

/-- every operation keeps the invariant "bit 7 clear" -/
theorem ops_keep_invariant (a b : Nat) (ha : a < 128) (hb : b < 128) (d : Weekday) :
    WeekdaySet.union a b < 128 ∧ WeekdaySet.intersection a b < 128 ∧
    WeekdaySet.symmetric_difference a b < 128 ∧ WeekdaySet.difference a b < 128 ∧
    (WeekdaySet.insert a d).1 < 128 ∧ (WeekdaySet.remove a d).1 < 128 := by
  have hs : WeekdaySet.single d < 128 := by cases d <;> decide
  have h7 : (128 : Nat) = 2 ^ 7 := by decide
  have hand : ∀ x y : Nat, x < 128 → x &&& y < 128 := by
    intro x y hx; exact Nat.lt_of_le_of_lt Nat.and_le_left hx
  refine ⟨?_, ?_, ?_, ?_, ?_, ?_⟩
  · unfold WeekdaySet.union; rw [h7] at *; exact Nat.or_lt_two_pow ha hb
  · unfold WeekdaySet.intersection; exact hand a b ha
  · unfold WeekdaySet.symmetric_difference; rw [h7] at *; exact Nat.xor_lt_two_pow ha hb
  · unfold WeekdaySet.difference; exact hand a _ ha
  · unfold WeekdaySet.insert; split
    · exact ha
    · show a ||| WeekdaySet.single d < 128
      rw [h7] at *; exact Nat.or_lt_two_pow ha hs
  · unfold WeekdaySet.remove; split
    · exact hand a _ ha
    · exact ha

/-- insert / remove: new set and the reported flag -/
theorem insert_remove_spec : ∀ s < 128, ∀ d ∈ Weekday.all, ∀ e ∈ Weekday.all,
    mem (WeekdaySet.insert s d).1 e = (mem s e || decide (e = d)) ∧
    (WeekdaySet.insert s d).2 = !mem s d ∧
    mem (WeekdaySet.remove s d).1 e = (mem s e && !decide (e = d)) ∧
    (WeekdaySet.remove s d).2 = mem s d := by
  decide +kernel

/-- subset test, on all pairs of sets -/
theorem subset_spec : ∀ a < 128, ∀ b < 128,
    WeekdaySet.is_subset a b = Weekday.all.all (fun d => !mem a d || mem b d) := by
  decide +kernel

/-- two words with the invariant denote the same set only if they are equal (so word equality,
hashing and ordering of the word are set equality) -/
theorem extensional : ∀ a < 128, ∀ b < 128, (∀ d ∈ Weekday.all, mem a d = mem b d) → a = b := by
  decide +kernel

/-- length, emptiness, first (least weekday), last (greatest weekday), single_day -/
theorem len_first_last_spec : ∀ s < 128,
    WeekdaySet.len s = card s ∧
    WeekdaySet.is_empty s = decide (card s = 0) ∧
    WeekdaySet.first s = Weekday.all.find? (mem s) ∧
    WeekdaySet.last s = Weekday.all.reverse.find? (mem s) ∧
    WeekdaySet.single_day s = (if card s = 1 then Weekday.all.find? (mem s) else none) := by
  decide +kernel

theorem from_list_spec (ds : List Weekday) (e : Weekday) :
    mem (WeekdaySet.from_list ds) e = decide (e ∈ ds) ∧ WeekdaySet.from_list ds < 128 := by
  suffices h : ∀ acc, acc < 128 →
      (mem (ds.foldl (fun acc d => acc ||| WeekdaySet.single d) acc) e = (mem acc e || decide (e ∈ ds)) ∧
       ds.foldl (fun acc d => acc ||| WeekdaySet.single d) acc < 128) by
    have := h 0 (by decide)
    unfold WeekdaySet.from_list
    refine ⟨?_, this.2⟩
    rw [this.1]
    have : mem 0 e = false := by cases e <;> decide
    simp [this]
  induction ds with
  | nil => intro acc h; simp [h]
  | cons d ds ih =>
    intro acc hacc
    have hs : WeekdaySet.single d < 128 := by cases d <;> decide
    have h7 : (128 : Nat) = 2 ^ 7 := by decide
    have hlt : acc ||| WeekdaySet.single d < 128 := by
      rw [h7] at *; exact Nat.or_lt_two_pow hacc hs
    have := ih _ hlt
    simp only [List.foldl_cons]
    refine ⟨?_, this.2⟩
    rw [this.1]
    have hm : mem (acc ||| WeekdaySet.single d) e = (mem acc e || decide (e = d)) := by
      unfold mem; rw [Nat.testBit_or]
      have := ((contains_is_mem (WeekdaySet.single d) hs d (weekday_all_complete d)).2.1 e
        (weekday_all_complete e))
      unfold mem at this; rw [this]
    rw [hm]
    by_cases hed : e = d <;> simp [hed]

/-! ## iteration -/

/-- from the front: each member exactly once, in cyclic weekday order from `start`;
from the back: the same sequence reversed; the `expect`s never fire -/
theorem iter_spec : ∀ s < 128, ∀ start ∈ Weekday.all,
    WeekdaySet.drainFront 8 ⟨s, start⟩ = .ok (forward s start) ∧
    WeekdaySet.drainBack 8 ⟨s, start⟩ = .ok (forward s start).reverse ∧
    (forward s start).length = card s := by
  decide +kernel

/-- one-step contract of `next` / `next_back` on every set and start day (see `Spec.stepOk`) -/
theorem iter_step_spec : ∀ s < 128, ∀ start ∈ Weekday.all, stepOk s start = true := by
  decide +kernel

/-- every interleaving of front and back pulls, of **any** length: no panic, and the front items,
then what is still in the iterator, then the reversed back items are exactly the forward sequence
— nothing repeated, nothing skipped -/
theorem iter_interleaved_spec (sched : List Bool) (s : Nat) (start : Weekday) (hs : s < 128) :
    ∃ fs ks s', WeekdaySet.runSchedule sched ⟨s, start⟩ = .ok (fs, ks, ⟨s', start⟩) ∧ s' < 128 ∧
      forward s start = fs ++ forward s' start ++ ks.reverse := by
  induction sched generalizing s with
  | nil => exact ⟨[], [], s, rfl, hs, by simp⟩
  | cons b bs ih =>
    have hstep := iter_step_spec s hs start (weekday_all_complete start)
    unfold stepOk at hstep
    simp only [Bool.and_eq_true] at hstep
    obtain ⟨hfront, hback⟩ := hstep
    cases b with
    | true =>
      cases hf : forward s start with
      | nil =>
        rw [hf] at hfront
        simp only [beq_iff_eq] at hfront
        obtain ⟨fs, ks, s', hr, hs', heq⟩ := ih s hs
        refine ⟨fs, ks, s', ?_, hs', by rw [← hf]; exact heq⟩
        simp only [WeekdaySet.runSchedule, if_true, hfront, hr]
      | cons d t =>
        rw [hf] at hfront
        simp only [Bool.and_eq_true, beq_iff_eq, decide_eq_true_eq] at hfront
        obtain ⟨⟨hn, hfw⟩, hlt⟩ := hfront
        obtain ⟨fs, ks, s', hr, hs', heq⟩ := ih _ hlt
        refine ⟨d :: fs, ks, s', ?_, hs', ?_⟩
        · simp only [WeekdaySet.runSchedule, if_true, hn, hr]
        · rw [hfw] at heq; rw [heq]; simp
    | false =>
      cases hf : (forward s start).reverse with
      | nil =>
        rw [hf] at hback
        simp only [beq_iff_eq] at hback
        obtain ⟨fs, ks, s', hr, hs', heq⟩ := ih s hs
        refine ⟨fs, ks, s', ?_, hs', heq⟩
        simp only [WeekdaySet.runSchedule, Bool.false_eq_true, if_false, hback, hr]
      | cons d t =>
        rw [hf] at hback
        simp only [Bool.and_eq_true, beq_iff_eq, decide_eq_true_eq] at hback
        obtain ⟨⟨hn, hfw⟩, hlt⟩ := hback
        obtain ⟨fs, ks, s', hr, hs', heq⟩ := ih _ hlt
        refine ⟨fs, d :: ks, s', ?_, hs', ?_⟩
        · simp only [WeekdaySet.runSchedule, Bool.false_eq_true, if_false, hn, hr]
        · have : forward s start = t.reverse ++ [d] := by
            have := congrArg List.reverse hf
            simpa using this
          rw [this, ← hfw, heq]; simp

/-- non-vacuity: {Tue, Thu, Sun} iterated from Wednesday -/
example : forward 74 Weekday.wed = [Weekday.thu, Weekday.sun, Weekday.tue] ∧
    WeekdaySet.from_list [Weekday.tue, Weekday.thu, Weekday.sun] = 74 := by decide

/-! # Audit gaps (audit/C19.md), closed 2026-09-30 -/

/-! ## G1: the names, written out literally (no extracted table on the right-hand side) -/

/-- the short/long names the parsing theorems speak about are the English names, and `Display` is the
capitalised abbreviation: a misspelt suffix or name in the source fails here -/
theorem weekday_long_names_literal : ∀ w ∈ Weekday.all,
    weekdayLong w = weekdayLongLit w ∧ weekdayShort w = (weekdayLongLit w).take 3 ∧
    w.display = capitalize (weekdayShortLit w) := by decide

theorem month_long_names_literal : ∀ m ∈ Month.all,
    monthLong m = monthLongLit m ∧ monthShort m = (monthLongLit m).take 3 ∧
    m.name = capitalize (monthLongLit m) := by decide

/-- `weekday_parse_iff` against the literal names: for every byte string -/
theorem weekday_parse_iff_literal (s : List Nat) (w : Weekday) :
    Weekday.parse s = some w ↔ (lowerS s = weekdayShortLit w ∨ lowerS s = weekdayLongLit w) := by
  obtain ⟨h1, h2, _⟩ := weekday_long_names_literal w (weekday_all_complete w)
  rw [weekday_parse_iff, h1, h2]; rfl

theorem month_parse_iff_literal (s : List Nat) (m : Month) :
    Month.parse s = some m ↔ (lowerS s = monthShortLit m ∨ lowerS s = monthLongLit m) := by
  obtain ⟨h1, h2, _⟩ := month_long_names_literal m (month_all_complete m)
  rw [month_parse_iff, h1, h2]; rfl

/-- non-vacuity: the literal names are what one expects, and are accepted -/
example : weekdayLongLit .wed = [119, 101, 100, 110, 101, 115, 100, 97, 121] ∧
    Weekday.parse (asciiBytes "WEDNESDAY") = some .wed ∧ Weekday.parse (asciiBytes "wednseday") = none ∧
    capitalize (monthLongLit .sep) = asciiBytes "September" := by decide

/-! ## G2: one fact per separately written conversion table

`Conv.*` (Model/WeekdayConv.lean) are lookups in the tables that tools/extractors/wdconv.py reads from
src/weekday.rs and src/month.rs on every run.  Each `…_table_ok` below speaks about ONE table of the
source; each `…_iff` is derived from its own table only. -/

/-- the declared discriminants are the model's `toNat` -/
theorem enum_discriminants_ok :
    Extracted.WEEKDAY_ENUM = [("Mon", 0), ("Tue", 1), ("Wed", 2), ("Thu", 3), ("Fri", 4), ("Sat", 5), ("Sun", 6)] ∧
    Extracted.MONTH_ENUM = [("January", 0), ("February", 1), ("March", 2), ("April", 3), ("May", 4),
      ("June", 5), ("July", 6), ("August", 7), ("September", 8), ("October", 9), ("November", 10),
      ("December", 11)] ∧
    Extracted.WEEKDAY_ENUM.map Prod.snd = Weekday.all.map Weekday.toNat ∧
    Extracted.MONTH_ENUM.map Prod.snd = Month.all.map Month.toNat := ⟨rfl, rfl, rfl, rfl⟩

theorem weekday_tryfrom_u8_table_ok :
    Extracted.WEEKDAY_TRYFROM_U8_ARMS = Weekday.all.map (fun w => ((w.toNat : Int), w.toNat)) ∧
    Extracted.WEEKDAY_TRYFROM_U8_DEFAULT = none := by decide

theorem weekday_from_i64_table_ok :
    Extracted.WEEKDAY_FROM_I64_ARMS = Weekday.all.map (fun w => ((w.toNat : Int), w.toNat)) ∧
    Extracted.WEEKDAY_FROM_I64_DEFAULT = none := by decide

theorem weekday_from_u64_table_ok :
    Extracted.WEEKDAY_FROM_U64_ARMS = Weekday.all.map (fun w => ((w.toNat : Int), w.toNat)) ∧
    Extracted.WEEKDAY_FROM_U64_DEFAULT = none := by decide

theorem month_tryfrom_u8_table_ok :
    Extracted.MONTH_TRYFROM_U8_ARMS = Month.all.map (fun m => ((m.number_from_month : Int), m.toNat)) ∧
    Extracted.MONTH_TRYFROM_U8_DEFAULT = none := by decide

theorem month_from_u32_table_ok :
    Extracted.MONTH_FROM_U32_ARMS = Month.all.map (fun m => ((m.number_from_month : Int), m.toNat)) ∧
    Extracted.MONTH_FROM_U32_DEFAULT = none := by decide

/-- `Month::from_u64` / `from_i64` convert with `u32::try_from(n).ok()?` (not `n as u32`) -/
theorem month_forwarding_ok :
    Extracted.MONTH_FROM_U64_VIA = 0 ∧ Extracted.MONTH_FROM_I64_VIA = 0 := by decide

/-- which `FromPrimitive` methods the impls write themselves; every other method is the num_traits
default that `M.Conv.FromPrimitive` models -/
theorem fromprimitive_overrides_ok :
    Extracted.WEEKDAY_FROMPRIMITIVE_OVERRIDES = ["from_i64", "from_u64"] ∧
    Extracted.MONTH_FROMPRIMITIVE_OVERRIDES = ["from_u64", "from_i64", "from_u32"] := ⟨rfl, rfl⟩

theorem weekday_try_from_u8_iff (n : Int) (w : Weekday) :
    Conv.Weekday.try_from_u8 n = some w ↔ n = w.toNat := by
  unfold Conv.Weekday.try_from_u8
  rw [weekday_tryfrom_u8_table_ok.2]
  exact weekday_table_iff _ weekday_tryfrom_u8_table_ok.1 n w

theorem weekday_from_i64_iff (n : Int) (w : Weekday) :
    Conv.Weekday.from_i64 n = some w ↔ n = w.toNat := by
  unfold Conv.Weekday.from_i64
  rw [weekday_from_i64_table_ok.2]
  exact weekday_table_iff _ weekday_from_i64_table_ok.1 n w

theorem weekday_from_u64_iff (n : Int) (w : Weekday) :
    Conv.Weekday.from_u64 n = some w ↔ n = w.toNat := by
  unfold Conv.Weekday.from_u64
  rw [weekday_from_u64_table_ok.2]
  exact weekday_table_iff _ weekday_from_u64_table_ok.1 n w

/-- `from_u32` is num_traits' default (through `from_u64`), `from_i32` through `from_i64` -/
theorem weekday_from_u32_i32_iff (n : Int) (w : Weekday) :
    (Conv.Weekday.from_u32 n = some w ↔ n = w.toNat) ∧
    (Conv.Weekday.from_i32 n = some w ↔ n = w.toNat) :=
  ⟨weekday_from_u64_iff n w, weekday_from_i64_iff n w⟩

theorem month_try_from_u8_iff (n : Int) (m : Month) :
    Conv.Month.try_from_u8 n = some m ↔ n = m.number_from_month := by
  unfold Conv.Month.try_from_u8
  rw [month_tryfrom_u8_table_ok.2]
  exact month_table_iff _ month_tryfrom_u8_table_ok.1 n m

theorem month_from_u32_table_iff (n : Int) (m : Month) :
    Conv.Month.from_u32 n = some m ↔ n = m.number_from_month := by
  unfold Conv.Month.from_u32
  rw [month_from_u32_table_ok.2]
  exact month_table_iff _ month_from_u32_table_ok.1 n m

theorem month_number_inU32 (m : Month) : inU32 (m.number_from_month : Int) = true := by
  cases m <;> decide

theorem month_from_u64_iff (n : Int) (m : Month) :
    Conv.Month.from_u64 n = some m ↔ n = m.number_from_month := by
  unfold Conv.Month.from_u64
  rw [month_forwarding_ok.1]
  exact via_checked_iff _ n _ m (month_from_u32_table_iff n m) (month_number_inU32 m)

theorem month_from_i64_iff (n : Int) (m : Month) :
    Conv.Month.from_i64 n = some m ↔ n = m.number_from_month := by
  unfold Conv.Month.from_i64
  rw [month_forwarding_ok.2]
  exact via_checked_iff _ n _ m (month_from_u32_table_iff n m) (month_number_inU32 m)

/-- the statement of `weekday_from_int_iff` / `month_from_u32_iff` / `month_from_u64_i64_iff` on the
table-driven entry points: every conjunct is a separate fact about its own piece of source -/
theorem conv_from_int_iff (n : Int) (w : Weekday) (m : Month) :
    (Conv.Weekday.try_from_u8 n = some w ↔ n = w.toNat) ∧
    (Conv.Weekday.from_i64 n = some w ↔ n = w.toNat) ∧
    (Conv.Weekday.from_u64 n = some w ↔ n = w.toNat) ∧
    (Conv.Weekday.from_u32 n = some w ↔ n = w.toNat) ∧
    (Conv.Weekday.from_i32 n = some w ↔ n = w.toNat) ∧
    (Conv.Month.try_from_u8 n = some m ↔ n = m.number_from_month) ∧
    (Conv.Month.from_u32 n = some m ↔ n = m.number_from_month) ∧
    (Conv.Month.from_u64 n = some m ↔ n = m.number_from_month) ∧
    (Conv.Month.from_i64 n = some m ↔ n = m.number_from_month) ∧
    (Conv.Month.from_i32 n = some m ↔ n = m.number_from_month) :=
  ⟨weekday_try_from_u8_iff n w, weekday_from_i64_iff n w, weekday_from_u64_iff n w,
   (weekday_from_u32_i32_iff n w).1, (weekday_from_u32_i32_iff n w).2,
   month_try_from_u8_iff n m, month_from_u32_table_iff n m, month_from_u64_iff n m,
   month_from_i64_iff n m, month_from_i64_iff n m⟩

/-- the hand-written tables of Model/Weekday.lean (used by other models, e.g.
`Date.num_days_in_month`) are the extracted ones, for every integer -/
theorem conv_eq_model (n : Int) :
    Conv.Weekday.try_from_u8 n = Weekday.try_from_u8 n ∧ Conv.Weekday.from_i64 n = Weekday.from_i64 n ∧
    Conv.Weekday.from_u64 n = Weekday.from_u64 n ∧ Conv.Weekday.from_u32 n = Weekday.from_u32 n ∧
    Conv.Weekday.from_i32 n = Weekday.from_i32 n ∧
    Conv.Month.try_from_u8 n = Month.try_from_u8 n ∧ Conv.Month.from_u32 n = Month.from_u32 n ∧
    Conv.Month.from_u64 n = Month.from_u64 n ∧ Conv.Month.from_i64 n = Month.from_i64 n ∧
    Conv.Month.from_i32 n = Month.from_i32 n := by
  have ext : ∀ {α : Type} (x y : Option α), (∀ a, x = some a ↔ y = some a) → x = y := by
    intro α x y h
    cases x with
    | some a => exact ((h a).mp rfl).symm
    | none =>
      cases y with
      | none => rfl
      | some b => exact (h b).mpr rfl
  have hw := fun w => weekday_from_int_iff n w
  have hm := fun m => month_from_u32_iff n m
  have hm' := fun m => month_from_u64_i64_iff n m
  refine ⟨ext _ _ fun w => ?_, ext _ _ fun w => ?_, ext _ _ fun w => ?_, ext _ _ fun w => ?_,
    ext _ _ fun w => ?_, ext _ _ fun m => ?_, ext _ _ fun m => ?_, ext _ _ fun m => ?_,
    ext _ _ fun m => ?_, ext _ _ fun m => ?_⟩
  · rw [weekday_try_from_u8_iff, (hw w).1]
  · rw [weekday_from_i64_iff, (hw w).2.1]
  · rw [weekday_from_u64_iff, (hw w).2.2.1]
  · rw [(weekday_from_u32_i32_iff n w).1, (hw w).2.2.2.1]
  · rw [(weekday_from_u32_i32_iff n w).2, (hw w).2.2.2.2]
  · rw [month_try_from_u8_iff, (hm m).1]
  · rw [month_from_u32_table_iff, (hm m).2]
  · rw [month_from_u64_iff, (hm' m).1]
  · rw [month_from_i64_iff, (hm' m).2.1]
  · exact (month_from_i64_iff n m).trans (hm' m).2.2.symm

/-- non-vacuity, and what the wrapping cast would have done: with `VIA = 1` the same lookup accepts
`2^32 + 1` -/
example : Conv.Weekday.from_u64 6 = some .sun ∧ Conv.Weekday.try_from_u8 7 = none ∧
    Conv.Month.from_i64 12 = some .dec ∧ Conv.Month.from_u64 (4294967296 + 1) = none ∧
    (Conv.viaU32 1 (4294967296 + 1)).bind Conv.Month.from_u32 = some .jan := by decide

/-! ## G4: every other `FromPrimitive` entry point (num_traits' provided methods)

Floats are outside the quantifier ("all integers of each accepted numeric type"): `from_f32` /
`from_f64` are num_traits defaults that truncate (`n.to_i64()`), so e.g. `Weekday::from_f64(0.5)` is
`Some(Mon)`; nothing is claimed about them. -/

theorem weekday_from_prim_iff (ty : Conv.PrimTy) (n : Int) (w : Weekday) :
    Conv.Weekday.fromPrim ty n = some w ↔ n = w.toNat := by
  have hi : inI64 (w.toNat : Int) = true := by cases w <;> decide
  have hu : inU64 (w.toNat : Int) = true := by cases w <;> decide
  cases ty
  case isize | i128 => exact to_i64_bind_iff _ n _ w (weekday_from_i64_iff n w) hi
  case usize | u128 => exact to_u64_bind_iff _ n _ w (weekday_from_u64_iff n w) hu
  case i8 | i16 | i32 | i64 => exact weekday_from_i64_iff n w
  case u8 | u16 | u32 | u64 => exact weekday_from_u64_iff n w

theorem month_from_prim_iff (ty : Conv.PrimTy) (n : Int) (m : Month) :
    Conv.Month.fromPrim ty n = some m ↔ n = m.number_from_month := by
  have hi : inI64 (m.number_from_month : Int) = true := by cases m <;> decide
  have hu : inU64 (m.number_from_month : Int) = true := by cases m <;> decide
  cases ty
  case isize | i128 => exact to_i64_bind_iff _ n _ m (month_from_i64_iff n m) hi
  case usize | u128 => exact to_u64_bind_iff _ n _ m (month_from_u64_iff n m) hu
  case i8 | i16 | i32 | i64 => exact month_from_i64_iff n m
  case u8 | u16 | u64 => exact month_from_u64_iff n m
  case u32 => exact month_from_u32_table_iff n m

/-- numbering functions and numeric conversions are mutually inverse, through every entry point:
converting the number of a value gives the value back, and whatever is accepted is the number of
the result (so every other integer is rejected) -/
theorem conv_numbering_inverse (ty : Conv.PrimTy) (w : Weekday) (m : Month) :
    Conv.Weekday.fromPrim ty w.num_days_from_monday = some w ∧
    Conv.Weekday.try_from_u8 w.num_days_from_monday = some w ∧
    Conv.Month.fromPrim ty m.number_from_month = some m ∧
    Conv.Month.try_from_u8 m.number_from_month = some m ∧
    (∀ n : Int, Conv.Weekday.fromPrim ty n = some w ∨ Conv.Weekday.try_from_u8 n = some w →
      n = w.num_days_from_monday) ∧
    (∀ n : Int, Conv.Month.fromPrim ty n = some m ∨ Conv.Month.try_from_u8 n = some m →
      n = m.number_from_month) := by
  have hn := (weekday_numbering w).1
  refine ⟨?_, ?_, ?_, ?_, ?_, ?_⟩
  · rw [hn]; exact (weekday_from_prim_iff ty _ w).mpr rfl
  · rw [hn]; exact (weekday_try_from_u8_iff _ w).mpr rfl
  · exact (month_from_prim_iff ty _ m).mpr rfl
  · exact (month_try_from_u8_iff _ m).mpr rfl
  · intro n h
    rw [hn]
    rcases h with h | h
    · exact (weekday_from_prim_iff ty n w).mp h
    · exact (weekday_try_from_u8_iff n w).mp h
  · intro n h
    rcases h with h | h
    · exact (month_from_prim_iff ty n m).mp h
    · exact (month_try_from_u8_iff n m).mp h

/-- non-vacuity: extremes of the wide types are rejected, the numbers accepted -/
example : Conv.Weekday.fromPrim .u128 340282366920938463463374607431768211455 = none ∧
    Conv.Weekday.fromPrim .i128 I128_MIN = none ∧ Conv.Weekday.fromPrim .i8 3 = some .thu ∧
    Conv.Month.fromPrim .usize 18446744073709551616 = none ∧ Conv.Month.fromPrim .u16 12 = some .dec ∧
    Conv.Month.fromPrim .isize (-4294967295) = none := by decide

/-! ## G3: building a set (`from_array`, `FromIterator`) -/

/-- `from_iter` and `from_array` are the fold `from_list_spec` speaks about: exactly the members of
the sequence, whatever its length -/
theorem collect_spec (ds : List Weekday) (e : Weekday) :
    WeekdaySet.from_iter ds = WeekdaySet.from_list ds ∧
    WeekdaySet.from_array ds = WeekdaySet.from_list ds ∧
    WeekdaySet.contains (WeekdaySet.from_iter ds) e = decide (e ∈ ds) ∧
    WeekdaySet.contains (WeekdaySet.from_array ds) e = decide (e ∈ ds) ∧
    WeekdaySet.from_iter ds < 128 ∧ WeekdaySet.from_array ds < 128 := by
  have h1 : WeekdaySet.from_iter ds = WeekdaySet.from_list ds := by
    unfold WeekdaySet.from_iter WeekdaySet.from_list
    rw [List.foldl_map]; rfl
  have h2 : WeekdaySet.from_array ds = WeekdaySet.from_list ds := rfl
  obtain ⟨hm, hlt⟩ := from_list_spec ds e
  have hc := (contains_is_mem _ hlt e (weekday_all_complete e)).1
  rw [h1, h2]
  exact ⟨rfl, rfl, by rw [hc, hm], by rw [hc, hm], hlt, hlt⟩

example : WeekdaySet.from_iter [.sun, .tue, .sun, .thu, .tue, .tue, .tue, .tue, .sun] = 74 ∧
    WeekdaySet.from_array [] = 0 := by decide

/-! ## G5: the set laws as observed through `contains` -/

/-- `contains` is `mem` on every word with the invariant -/
theorem contains_eq_mem (s : Nat) (hs : s < 128) (d : Weekday) : WeekdaySet.contains s d = mem s d :=
  (contains_is_mem s hs d (weekday_all_complete d)).1

theorem union_contains (a b : Nat) (ha : a < 128) (hb : b < 128) (d : Weekday) :
    WeekdaySet.contains (WeekdaySet.union a b) d = (WeekdaySet.contains a d || WeekdaySet.contains b d) := by
  rw [contains_eq_mem _ (ops_keep_invariant a b ha hb d).1, contains_eq_mem a ha, contains_eq_mem b hb]
  exact (union_inter_xor_spec a b d).1

theorem intersection_contains (a b : Nat) (ha : a < 128) (hb : b < 128) (d : Weekday) :
    WeekdaySet.contains (WeekdaySet.intersection a b) d =
      (WeekdaySet.contains a d && WeekdaySet.contains b d) := by
  rw [contains_eq_mem _ (ops_keep_invariant a b ha hb d).2.1, contains_eq_mem a ha, contains_eq_mem b hb]
  exact (union_inter_xor_spec a b d).2.1

theorem symmetric_difference_contains (a b : Nat) (ha : a < 128) (hb : b < 128) (d : Weekday) :
    WeekdaySet.contains (WeekdaySet.symmetric_difference a b) d =
      (WeekdaySet.contains a d ^^ WeekdaySet.contains b d) := by
  rw [contains_eq_mem _ (ops_keep_invariant a b ha hb d).2.2.1, contains_eq_mem a ha, contains_eq_mem b hb]
  exact (union_inter_xor_spec a b d).2.2

theorem difference_contains (a b : Nat) (ha : a < 128) (hb : b < 128) (d : Weekday) :
    WeekdaySet.contains (WeekdaySet.difference a b) d =
      (WeekdaySet.contains a d && !WeekdaySet.contains b d) := by
  rw [contains_eq_mem _ (ops_keep_invariant a b ha hb d).2.2.2.1, contains_eq_mem a ha, contains_eq_mem b hb]
  exact difference_spec a b hb d

theorem insert_remove_contains (s : Nat) (hs : s < 128) (d e : Weekday) :
    WeekdaySet.contains (WeekdaySet.insert s d).1 e = (WeekdaySet.contains s e || decide (e = d)) ∧
    (WeekdaySet.insert s d).2 = !WeekdaySet.contains s d ∧
    WeekdaySet.contains (WeekdaySet.remove s d).1 e = (WeekdaySet.contains s e && !decide (e = d)) ∧
    (WeekdaySet.remove s d).2 = WeekdaySet.contains s d := by
  obtain ⟨h1, h2, h3, h4⟩ := insert_remove_spec s hs d (weekday_all_complete d) e (weekday_all_complete e)
  have hk := ops_keep_invariant s s hs hs d
  rw [contains_eq_mem _ hk.2.2.2.2.1, contains_eq_mem _ hk.2.2.2.2.2, contains_eq_mem s hs,
    contains_eq_mem s hs]
  exact ⟨h1, h2, h3, h4⟩

theorem single_contains (d e : Weekday) :
    WeekdaySet.contains (WeekdaySet.single d) e = decide (e = d) := by
  cases d <;> cases e <;> decide

theorem subset_contains (a b : Nat) (ha : a < 128) (hb : b < 128) :
    WeekdaySet.is_subset a b = true ↔
      ∀ d, WeekdaySet.contains a d = true → WeekdaySet.contains b d = true := by
  rw [subset_spec a ha b hb, List.all_eq_true]
  constructor
  · intro h d hd
    have := h d (weekday_all_complete d)
    rw [contains_eq_mem a ha] at hd
    rw [contains_eq_mem b hb]
    rw [hd] at this
    simpa using this
  · intro h d _
    have := h d
    rw [contains_eq_mem a ha, contains_eq_mem b hb] at this
    cases hm : mem a d with
    | false => rfl
    | true => rw [this hm]; rfl

/-- set equality (`==`, hashing, ordering act on the word) is having the same members -/
theorem eq_iff_contains (a b : Nat) (ha : a < 128) (hb : b < 128) :
    a = b ↔ ∀ d, WeekdaySet.contains a d = WeekdaySet.contains b d := by
  constructor
  · intro h d; rw [h]
  · intro h
    apply extensional a ha b hb
    intro d _
    rw [← contains_eq_mem a ha, ← contains_eq_mem b hb]
    exact h d

/-- first / last / len through `contains`: `first` is the earliest weekday (Monday first) that is
contained, `last` the latest, `len` the number of contained weekdays -/
theorem len_first_last_contains (s : Nat) (hs : s < 128) :
    WeekdaySet.len s = (Weekday.all.filter (WeekdaySet.contains s)).length ∧
    WeekdaySet.first s = Weekday.all.find? (WeekdaySet.contains s) ∧
    WeekdaySet.last s = Weekday.all.reverse.find? (WeekdaySet.contains s) := by
  have hf : WeekdaySet.contains s = mem s := funext (contains_eq_mem s hs)
  obtain ⟨h1, _, h3, h4, _⟩ := len_first_last_spec s hs
  rw [hf]
  exact ⟨h1, h3, h4⟩

example : WeekdaySet.contains (WeekdaySet.difference 74 66) .thu = true ∧
    WeekdaySet.contains (WeekdaySet.difference 74 66) .sun = false := by decide

/-! ## G6: `EMPTY`, `ALL`, the `single` tables, `ExactSizeIterator::len`, `FusedIterator` -/

/-- the declared constants: no weekday / every weekday -/
theorem empty_all_spec :
    WeekdaySet.EMPTY < 128 ∧ WeekdaySet.ALL < 128 ∧
    (∀ d, WeekdaySet.contains WeekdaySet.EMPTY d = false ∧ WeekdaySet.contains WeekdaySet.ALL d = true) ∧
    WeekdaySet.len WeekdaySet.EMPTY = 0 ∧ WeekdaySet.len WeekdaySet.ALL = 7 ∧
    WeekdaySet.is_empty WeekdaySet.EMPTY = true ∧
    (∀ s < 128, WeekdaySet.is_subset WeekdaySet.EMPTY s = true ∧
      WeekdaySet.is_subset s WeekdaySet.ALL = true) := by
  refine ⟨by decide, by decide, fun d => by cases d <;> decide, by decide, by decide, by decide, ?_⟩
  decide +kernel

/-- the `single` / `single_day` tables of the source are the hand-written ones of the model -/
theorem set_tables_ok :
    Extracted.WEEKDAYSET_SINGLE_ARMS = Weekday.all.map (fun d => (d.toNat, WeekdaySet.single d)) ∧
    Extracted.WEEKDAYSET_SINGLE_DAY_ARMS = Weekday.all.map (fun d => (WeekdaySet.single d, d.toNat)) ∧
    (∀ s < 256, WeekdaySet.single_day s =
      ((Extracted.WEEKDAYSET_SINGLE_DAY_ARMS.find? (fun p => p.1 == s)).bind
        (fun p => Weekday.ofDisc p.2))) := by
  refine ⟨by decide, by decide, ?_⟩
  decide +kernel

/-- `ExactSizeIterator::len` after any schedule of front/back pulls: the number of members minus
the number of items handed out -/
theorem iter_len_spec (sched : List Bool) (s : Nat) (start : Weekday) (hs : s < 128) :
    WeekdaySet.Iter.len (WeekdaySet.iter s start) = card s ∧
    ∃ fs ks s', WeekdaySet.runSchedule sched (WeekdaySet.iter s start) = .ok (fs, ks, ⟨s', start⟩) ∧
      WeekdaySet.Iter.len ⟨s', start⟩ + fs.length + ks.length = card s := by
  refine ⟨(len_first_last_spec s hs).1, ?_⟩
  obtain ⟨fs, ks, s', hr, hs', heq⟩ := iter_interleaved_spec sched s start hs
  refine ⟨fs, ks, s', hr, ?_⟩
  have h1 := (iter_spec s hs start (weekday_all_complete start)).2.2
  have h2 := (iter_spec s' hs' start (weekday_all_complete start)).2.2
  have h3 := (len_first_last_spec s' hs').1
  have hl := congrArg List.length heq
  simp only [List.length_append, List.length_reverse] at hl
  show WeekdaySet.len s' + fs.length + ks.length = card s
  omega

/-- fused: once a pull from either end has returned `None`, the iterator is unchanged and every
further pull from either end returns `None` (for every word, not only those with the invariant) -/
theorem iter_fused (it it' : WeekdaySet.Iter)
    (h : it.next = .ok (none, it') ∨ it.next_back = .ok (none, it')) :
    it' = it ∧ ∀ sched, WeekdaySet.runSchedule sched it = .ok ([], [], it) := by
  have hh : WeekdaySet.is_empty it.days = true ∧ it' = it := by
    rcases h with h | h
    · exact next_none it it' h
    · exact next_back_none it it' h
  exact ⟨hh.2, fun sched => empty_runSchedule sched it hh.1⟩

/-- non-vacuity: the empty set's iterator does return `None`; a drained one too -/
example : (WeekdaySet.iter 0 .wed).next = .ok (none, ⟨0, .wed⟩) ∧
    WeekdaySet.runSchedule [true, false, true, true, false] (WeekdaySet.iter 74 .wed) =
      .ok ([.thu, .sun], [.tue], ⟨0, .wed⟩) ∧ WeekdaySet.staysNone 3 ⟨0, .wed⟩ = true := by decide

/-! ## G7: `Display` / `Debug` of a set -/

/-- `Display`: `[`, the members in week order (Monday first) by their `Display` names separated by
`, `, `]`; the iterator's `expect` cannot fire -/
theorem set_display_spec : ∀ s < 128, WeekdaySet.display s = .ok (setDisplay s) := by
  decide +kernel

/-- `Debug`: `WeekdaySet(` + seven characters, Sunday's bit first + `)` -/
theorem set_debug_spec : ∀ s < 128, WeekdaySet.debug s = setDebug s := by
  decide +kernel

/-- both text forms can be read back -/
theorem set_text_inverse : ∀ s < 128,
    wordOfDisplay (setDisplay s) = s ∧ wordOfDebug (setDebug s) = s := by
  decide +kernel

/-- hence both text forms determine the set -/
theorem set_text_injective (a b : Nat) (ha : a < 128) (hb : b < 128) :
    (WeekdaySet.display a = WeekdaySet.display b → a = b) ∧
    (WeekdaySet.debug a = WeekdaySet.debug b → a = b) := by
  constructor
  · intro h
    rw [set_display_spec a ha, set_display_spec b hb] at h
    injection h with h
    have := congrArg wordOfDisplay h
    rwa [(set_text_inverse a ha).1, (set_text_inverse b hb).1] at this
  · intro h
    rw [set_debug_spec a ha, set_debug_spec b hb] at h
    have := congrArg wordOfDebug h
    rwa [(set_text_inverse a ha).2, (set_text_inverse b hb).2] at this

example : setDisplay 81 = asciiBytes "[Mon, Fri, Sun]" ∧ setDisplay 0 = asciiBytes "[]" ∧
    setDebug 2 = asciiBytes "WeekdaySet(0000010)" := by decide

/-! ## G8: `Display for Weekday` under format flags (`f.pad`) -/

/-- without flags the bare name; otherwise the name cut to the precision, filled up to the width on
the side(s) the alignment says (centre: the odd one goes to the right) -/
theorem weekday_display_fmt_spec (w : Weekday) (width prec : Option Nat) (align : WdFmt.Align) (fill : Nat) :
    w.display_fmt none none align fill = w.display ∧
    ∃ pre post, w.display_fmt width prec align fill =
        List.replicate pre fill ++ w.display.take (prec.getD 3) ++ List.replicate post fill ∧
      pre + post = width.getD 0 - min 3 (prec.getD 3) ∧
      (align = .left → pre = 0) ∧ (align = .right → post = 0) ∧
      (align = .center → pre ≤ post ∧ post ≤ pre + 1) := by
  refine ⟨rfl, ?_⟩
  have hl : w.display.length = 3 := by cases w <;> rfl
  have ht : WdFmt.fmtCut w.display prec = w.display.take (prec.getD 3) := by
    cases prec with
    | none => show w.display = w.display.take 3; rw [← hl, List.take_length]
    | some p => rfl
  have htl : (w.display.take (prec.getD 3)).length = min 3 (prec.getD 3) := by
    rw [List.length_take, hl, Nat.min_comm]
  unfold Weekday.display_fmt WdFmt.fmtPad
  rw [ht]
  generalize w.display.take (prec.getD 3) = t at htl
  have triv : t = List.replicate 0 fill ++ t ++ List.replicate 0 fill := by simp
  cases width with
  | none =>
    exact ⟨0, 0, triv, by simp, fun _ => rfl, fun _ => rfl, fun _ => ⟨Nat.le_refl _, Nat.le_succ _⟩⟩
  | some wd =>
    show ∃ pre post, (if t.length < wd then _ else t) = _ ∧ _
    by_cases hlt : t.length < wd
    · rw [if_pos hlt]
      cases align with
      | left =>
        exact ⟨0, wd - t.length, by simp, by rw [Option.getD_some]; omega, fun _ => rfl,
          (fun h => by cases h), (fun h => by cases h)⟩
      | right =>
        exact ⟨wd - t.length, 0, by simp, by rw [Option.getD_some]; omega, (fun h => by cases h),
          fun _ => rfl, (fun h => by cases h)⟩
      | center =>
        exact ⟨(wd - t.length) / 2, (wd - t.length + 1) / 2, rfl, by rw [Option.getD_some]; omega,
          (fun h => by cases h), (fun h => by cases h), fun _ => ⟨by omega, by omega⟩⟩
    · rw [if_neg hlt]
      exact ⟨0, 0, triv, by rw [Option.getD_some]; omega, fun _ => rfl, fun _ => rfl,
        fun _ => ⟨Nat.le_refl _, Nat.le_succ _⟩⟩

example : Weekday.wed.display_fmt (some 6) (some 2) .center 42 = asciiBytes "**We**" ∧
    Weekday.wed.display_fmt (some 5) none .right 32 = asciiBytes "  Wed" := by decide


end Chrono.Props.C19
