/-
  C06 — Durations are exact signed nanosecond counts within a closed range.
  Property statements only.  `Spec.ns d = secs·10⁹ + nanos`; the range is ±(2⁶³−1) ms.
-/
import Chrono.Proofs.DeltaL
import Chrono.Proofs.DeltaDivL
import Chrono.Proofs.DeltaDisplayL
import Chrono.Proofs.DeltaOpsL
import Chrono.Proofs.DeltaCanonL
import Chrono.Proofs.DeltaCanonUniqL
import Chrono.Proofs.DeltaSerdeL

namespace Chrono.Props.C06
open Chrono Chrono.M Chrono.Spec Chrono.Proofs Chrono.Extracted

/-- the extracted constants are the range ends the specification talks about -/
theorem consts_ok :
    ns Delta.MIN = -NS_MAX ∧ ns Delta.MAX = NS_MAX ∧ DInv Delta.MIN ∧ DInv Delta.MAX ∧
    NANOS_PER_SEC = 1000000000 ∧ NANOS_PER_MILLI = 1000000 ∧ NANOS_PER_MICRO = 1000 ∧
    MILLIS_PER_SEC = 1000 ∧ MICROS_PER_SEC = 1000000 ∧ SECS_PER_MINUTE = 60 ∧ SECS_PER_HOUR = 3600 ∧
    SECS_PER_DAY = 86400 ∧ SECS_PER_WEEK = 604800 := by decide

/-- `new` accepts exactly the pairs with a valid nanosecond field whose value is in range -/
theorem new_iff (secs nanos : Int) (hn : 0 ≤ nanos) :
    Delta.new secs nanos =
      if nanos < 1000000000 ∧ nsInRange (ns ⟨secs, nanos⟩) then some ⟨secs, nanos⟩ else none :=
  new_iff' secs nanos hn

/-- unit constructors: exact, refused exactly when out of range (all `i64` arguments) -/
theorem try_unit_exact (unit n : Int) (hu : unit = 1 ∨ unit = 60 ∨ unit = 3600 ∨ unit = 86400 ∨ unit = 604800)
    (hn : -9223372036854775808 ≤ n ∧ n ≤ 9223372036854775807) :
    Delta.try_unit unit n =
      if nsInRange (n * unit * 1000000000) then some (ofNs (n * unit * 1000000000)) else none :=
  try_unit_exact' unit n hu hn

theorem try_milliseconds_exact (ms : Int) (h : -9223372036854775808 ≤ ms ∧ ms ≤ 9223372036854775807) :
    Delta.try_milliseconds ms =
      if nsInRange (ms * 1000000) then some (ofNs (ms * 1000000)) else none :=
  try_milliseconds_exact' ms h

theorem micro_nano_exact (x : Int) (h : -9223372036854775808 ≤ x ∧ x ≤ 9223372036854775807) :
    Delta.microseconds x = ofNs (x * 1000) ∧ DInv (Delta.microseconds x) ∧
    Delta.nanoseconds x = ofNs x ∧ DInv (Delta.nanoseconds x) :=
  micro_nano_exact' x h

/-- `ofNs` is the canonical representation: it satisfies the invariant and denotes its argument -/
theorem ofNs_spec (n : Int) (h : nsInRange n) : DInv (ofNs n) ∧ ns (ofNs n) = n := ofNs_spec' n h

/-- a value is determined by its nanosecond count -/
theorem ns_injective (a b : Delta) (ha : DInv a) (hb : DInv b) (h : ns a = ns b) : a = b :=
  ns_injective' a b ha hb h

/-- addition and subtraction: exact or refused, no intermediate overflow -/
theorem add_exact (a b : Delta) (ha : DInv a) (hb : DInv b) :
    Delta.checked_add a b =
      .ok (if nsInRange (ns a + ns b) then some (ofNs (ns a + ns b)) else none) :=
  add_exact' a b ha hb

theorem sub_exact (a b : Delta) (ha : DInv a) (hb : DInv b) :
    Delta.checked_sub a b =
      .ok (if nsInRange (ns a - ns b) then some (ofNs (ns a - ns b)) else none) :=
  sub_exact' a b ha hb

/-- negation and absolute value are total on the range and exact -/
theorem neg_abs_exact (a : Delta) (ha : DInv a) :
    Delta.neg a = .ok (ofNs (-(ns a))) ∧ Delta.abs a = .ok (ofNs (if ns a < 0 then -(ns a) else ns a)) :=
  neg_abs_exact' a ha

/-- multiplication by any `i32`: exact or refused (false on the pinned tree: finding #2) -/
theorem mul_exact (a : Delta) (k : Int) (ha : DInv a) (hk : -2147483648 ≤ k ∧ k ≤ 2147483647) :
    Delta.checked_mul a k =
      .ok (if nsInRange (ns a * k) then some (ofNs (ns a * k)) else none) :=
  mul_exact' a k ha hk

/-- the pinned `checked_mul` returned a value outside the range -/
theorem mul_pinned_counterexample :
    Delta.checked_mul_pinned Delta.MAX 2 = .ok (some ⟨18446744073709551, 614000000⟩) ∧
    ¬ DInv ⟨18446744073709551, 614000000⟩ := by decide

/-- unit accessors truncate toward zero; sub-unit parts carry the same sign -/
theorem accessors_spec (a : Delta) (ha : DInv a) :
    a.num_seconds = Int.tdiv (ns a) 1000000000 ∧ a.subsec_nanos = Int.tmod (ns a) 1000000000 ∧
    a.num_milliseconds = .ok (Int.tdiv (ns a) 1000000) ∧
    a.num_microseconds = optI64 (Int.tdiv (ns a) 1000) ∧
    a.num_nanoseconds = optI64 (ns a) ∧
    a.num_minutes = Int.tdiv (ns a) 60000000000 ∧ a.num_hours = Int.tdiv (ns a) 3600000000000 ∧
    a.num_days = Int.tdiv (ns a) 86400000000000 ∧ a.num_weeks = Int.tdiv (ns a) 604800000000000 ∧
    a.subsec_millis = Int.tdiv (Int.tmod (ns a) 1000000000) 1000000 ∧
    a.subsec_micros = Int.tdiv (Int.tmod (ns a) 1000000000) 1000 :=
  accessors_spec' a ha

/-- derived comparison is numeric order -/
theorem cmp_spec (a b : Delta) (ha : DInv a) (hb : DInv b) :
    Delta.cmp a b = (if ns a < ns b then -1 else if ns a > ns b then 1 else 0) :=
  cmp_spec' a b ha hb

/-- conversion to and from the unsigned standard duration is exact or refused -/
theorem std_spec (secs nanos : Int) (hs : 0 ≤ secs ∧ secs ≤ 18446744073709551615)
    (hn : 0 ≤ nanos ∧ nanos < 1000000000) (a : Delta) (ha : DInv a) :
    Delta.from_std secs nanos =
      (if nsInRange (secs * 1000000000 + nanos) then some ⟨secs, nanos⟩ else none) ∧
    Delta.to_std a = (if 0 ≤ ns a then some (a.secs, a.nanos) else none) :=
  std_spec' secs nanos hs hn a ha

/-- non-vacuity: the range ends satisfy the invariant; MAX + 1 ns is refused, MAX − 1 ns is not -/
example : DInv Delta.MAX ∧ Delta.checked_add Delta.MAX ⟨0, 1⟩ = .ok none ∧
    Delta.checked_sub Delta.MAX ⟨0, 1⟩ = .ok (some ⟨9223372036854775, 806999999⟩) ∧
    Delta.checked_mul Delta.MAX 2 = .ok none := by decide

/-! ### Division by an `i32` -/

/-- division by a non-zero `i32` never panics (no intermediate leaves its machine type), never
refuses, stays in the range, and differs from the exact quotient by less than two nanoseconds:
`|ns r · k − ns a| < 2·|k|` -/
theorem div_spec (a : Delta) (k : Int) (ha : DInv a) (hk : -2147483648 ≤ k ∧ k ≤ 2147483647)
    (hk0 : k ≠ 0) :
    ∃ r, Delta.checked_div a k = .ok (some r) ∧ DInv r ∧
      (ns r * k - ns a).natAbs < 2 * k.natAbs :=
  div_spec' a k ha hk hk0

/-- division by zero is refused (for every pair, valid or not) -/
theorem div_zero (a : Delta) : Delta.checked_div a 0 = .ok none := div_zero' a

/-- division by `1` and `-1` is exact -/
theorem div_unit (a : Delta) (ha : DInv a) :
    Delta.checked_div a 1 = .ok (some a) ∧ Delta.checked_div a (-1) = .ok (some (ofNs (-(ns a)))) :=
  div_unit' a ha

/-- the result in closed form; the nanosecond sum never reaches 10⁹, so the upward-carry arm of the
`match` in `checked_div` (`NANOS_PER_SEC..=i32::MAX`) is unreachable for valid operands -/
theorem div_closed_form (a : Delta) (k : Int) (ha : DInv a) (hk : -2147483648 ≤ k ∧ k ≤ 2147483647)
    (hk0 : k ≠ 0) :
    let qs := Int.tdiv a.secs k
    let nanos := Int.tdiv a.nanos k + Int.tdiv (Int.tmod a.secs k * 1000000000) k
    Delta.checked_div a k =
      .ok (some (if nanos < 0 then ⟨qs - 1, nanos + 1000000000⟩ else ⟨qs, nanos⟩)) ∧
    nanos < 1000000000 :=
  div_eq' a k ha hk hk0

/-- the bound cannot be lowered to one nanosecond: 2.000000002 s / 3 is off by 4/3 ns; and a
quotient that is an integer number of nanoseconds need not be hit (1.5 s / 3 gives 0.499999999 s) -/
theorem div_error_exceeds_one_ns :
    Delta.checked_div ⟨2, 2⟩ 3 = .ok (some ⟨0, 666666666⟩) ∧
    (ns ⟨0, 666666666⟩ * 3 - ns ⟨2, 2⟩).natAbs = 4 ∧
    Delta.checked_div ⟨1, 500000000⟩ 3 = .ok (some ⟨0, 499999999⟩) := by decide

/-- non-vacuity: range ends, both signs of the divisor, the downward carry -/
example : DInv Delta.MIN ∧
    Delta.checked_div Delta.MIN (-2147483648) = .ok (some ⟨4294967, 296000000⟩) ∧
    Delta.checked_div Delta.MIN 2147483647 = .ok (some ⟨-4294968, 702000000⟩) ∧
    Delta.checked_div Delta.MAX (-1) = .ok (some Delta.MIN) ∧
    Delta.checked_div ⟨-3, 0⟩ 2 = .ok (some ⟨-2, 500000000⟩) ∧
    Delta.checked_div ⟨-1, 999999999⟩ 2 = .ok (some ⟨-1, 999999999⟩) := by decide

/-! ### Display -/

/-- the text form, read back by the independent reader `Spec.readDuration` (sign, `P0D` or
`PT<int>[.<frac>]S`, at most nine fraction digits, no trailing zero), is the exact nanosecond count;
in particular formatting never panics -/
theorem display_value (a : Delta) (ha : DInv a) :
    ∃ t, Delta.display a = .ok t ∧ readDuration t = some (ns a) :=
  display_value' a ha

/-- non-vacuity: "-PT9223372036854775.807S", "P0D", "PT0.000001S"; the reader refuses an untrimmed
fraction, a bare point and an empty integer part -/
example :
    Delta.display Delta.MIN = .ok [45, 80, 84, 57, 50, 50, 51, 51, 55, 50, 48, 51, 54, 56, 53, 52, 55,
      55, 53, 46, 56, 48, 55, 83] ∧
    Delta.display ⟨0, 0⟩ = .ok [80, 48, 68] ∧
    Delta.display ⟨0, 1000⟩ = .ok [80, 84, 48, 46, 48, 48, 48, 48, 48, 49, 83] ∧
    readDuration [80, 84, 48, 46, 48, 48, 48, 48, 48, 49, 83] = some 1000 ∧
    readDuration [80, 84, 49, 46, 53, 48, 83] = none ∧ readDuration [80, 84, 49, 46, 83] = none ∧
    readDuration [80, 84, 46, 53, 83] = none := by decide

/-! ### Sum -/

/-- `Sum` (a fold with the panicking `+`) is the fold of the nanosecond counts that checks the range
after every step (`Spec.sumNs`): the exact total, or a panic at the first partial sum out of range -/
theorem sum_spec (xs : List Delta) (acc : Delta) (hacc : DInv acc) (hxs : ∀ x ∈ xs, DInv x) :
    Delta.sum xs acc =
      match sumNs (xs.map ns) (ns acc) with
      | some n => .ok (ofNs n)
      | none => .panic :=
  sum_spec' xs acc hacc hxs

/-- the same without the auxiliary fold: the exact total when every partial sum is in range, a panic
otherwise -/
theorem sum_exact (xs : List Delta) (acc : Delta) (hacc : DInv acc) (hxs : ∀ x ∈ xs, DInv x) :
    ((∀ i, 1 ≤ i → i ≤ (xs.map ns).length → nsInRange (ns acc + ((xs.map ns).take i).sum)) →
      Delta.sum xs acc = .ok (ofNs (ns acc + (xs.map ns).sum))) ∧
    (¬ (∀ i, 1 ≤ i → i ≤ (xs.map ns).length → nsInRange (ns acc + ((xs.map ns).take i).sum)) →
      Delta.sum xs acc = .panic) := by
  rw [sum_spec' xs acc hacc hxs]
  cases h : sumNs (xs.map ns) (ns acc) with
  | none =>
    refine ⟨fun hall => ?_, fun _ => rfl⟩
    have := (sumNs_iff (xs.map ns) (ns acc) _).mpr ⟨rfl, hall⟩
    rw [h] at this; cases this
  | some m =>
    obtain ⟨hm, hall⟩ := (sumNs_iff (xs.map ns) (ns acc) m).mp h
    refine ⟨fun _ => by rw [hm], fun hn => absurd hall hn⟩

/-- non-vacuity: a sum that passes through the top of the range panics although its total is small -/
example : Delta.sum [⟨0, 1⟩, ⟨-1, 0⟩] Delta.MAX = .panic ∧
    Delta.sum [⟨-1, 0⟩, ⟨0, 1⟩] Delta.MAX = .ok ⟨9223372036854774, 807000001⟩ ∧
    sumNs [1, -1000000000] NS_MAX = none := by decide

/-! ### Operators `+ - += -= * /`, unary `-`, panicking constructors (audit gap G1)

The operator impls and the constructors `weeks … milliseconds` are `expect` wrappers of the checked
forms (`Model/DeltaOps.lean`); the statements below are against the specification, not against the
checked forms: the exact result, or a panic exactly when the exact result is out of range
(division: exactly when the divisor is zero).  Unary `-` is `Delta.neg` (`neg_abs_exact`). -/

/-- `a + b` and `a += b`: the exact sum, or a panic exactly when it is out of range -/
theorem op_add_exact (a b : Delta) (ha : DInv a) (hb : DInv b) :
    Delta.add a b = (if nsInRange (ns a + ns b) then .ok (ofNs (ns a + ns b)) else .panic) ∧
    Delta.add_assign a b = (if nsInRange (ns a + ns b) then .ok (ofNs (ns a + ns b)) else .panic) :=
  ⟨DeltaOps.op_add_exact' a b ha hb, DeltaOps.op_add_assign_exact' a b ha hb⟩

/-- `a - b` and `a -= b`: the exact difference, or a panic exactly when it is out of range -/
theorem op_sub_exact (a b : Delta) (ha : DInv a) (hb : DInv b) :
    Delta.sub a b = (if nsInRange (ns a - ns b) then .ok (ofNs (ns a - ns b)) else .panic) ∧
    Delta.sub_assign a b = (if nsInRange (ns a - ns b) then .ok (ofNs (ns a - ns b)) else .panic) :=
  ⟨DeltaOps.op_sub_exact' a b ha hb, DeltaOps.op_sub_assign_exact' a b ha hb⟩

/-- `a * k` for every `i32` k: the exact product, or a panic exactly when it is out of range -/
theorem op_mul_exact (a : Delta) (k : Int) (ha : DInv a) (hk : -2147483648 ≤ k ∧ k ≤ 2147483647) :
    Delta.mul a k = if nsInRange (ns a * k) then .ok (ofNs (ns a * k)) else .panic :=
  DeltaOps.op_mul_exact' a k ha hk

/-- `a / 0` panics for every pair `(secs, nanos)`, valid or not (no hypothesis at all; second audit G4) -/
theorem op_div_zero (a : Delta) : Delta.div a 0 = .panic := DeltaOps.op_div_zero' a

/-- `a / k` for a valid `a` and an `i32` `k`: a panic exactly when `k = 0`; otherwise a value in range less
than two nanoseconds from the exact quotient.  (Both branches are stated under `DInv a`; that the zero
divisor panics whatever the dividend is `op_div_zero`.) -/
theorem op_div_spec (a : Delta) (k : Int) (ha : DInv a) (hk : -2147483648 ≤ k ∧ k ≤ 2147483647) :
    (k = 0 → Delta.div a k = .panic) ∧
    (k ≠ 0 → ∃ r, Delta.div a k = .ok r ∧ DInv r ∧ (ns r * k - ns a).natAbs < 2 * k.natAbs) := by
  refine ⟨fun h => by subst h; exact DeltaOps.op_div_zero' a, fun hk0 => ?_⟩
  obtain ⟨r, h1, h2, h3⟩ := div_spec' a k ha hk hk0
  exact ⟨r, DeltaOps.op_div_ok' a k r h1, h2, h3⟩

/-- the operator is the checked form followed by `expect`: same value whenever the checked form
yields one -/
theorem op_div_checked (a : Delta) (k : Int) (r : Delta) (h : Delta.checked_div a k = .ok (some r)) :
    Delta.div a k = .ok r := DeltaOps.op_div_ok' a k r h

/-- the panicking constructors, all `i64` arguments: the exact value, or a panic exactly when
`n · unit` is out of range -/
theorem unit_panicking (n : Int) (hn : -9223372036854775808 ≤ n ∧ n ≤ 9223372036854775807) :
    Delta.weeks n = (if nsInRange (n * 604800 * 1000000000)
      then .ok (ofNs (n * 604800 * 1000000000)) else .panic) ∧
    Delta.days n = (if nsInRange (n * 86400 * 1000000000)
      then .ok (ofNs (n * 86400 * 1000000000)) else .panic) ∧
    Delta.hours n = (if nsInRange (n * 3600 * 1000000000)
      then .ok (ofNs (n * 3600 * 1000000000)) else .panic) ∧
    Delta.minutes n = (if nsInRange (n * 60 * 1000000000)
      then .ok (ofNs (n * 60 * 1000000000)) else .panic) ∧
    Delta.seconds n = (if nsInRange (n * 1000000000) then .ok (ofNs (n * 1000000000)) else .panic) ∧
    Delta.milliseconds n = (if nsInRange (n * 1000000) then .ok (ofNs (n * 1000000)) else .panic) := by
  refine ⟨?_, ?_, ?_, ?_, DeltaOps.seconds_exact' n, DeltaOps.milliseconds_exact' n hn⟩
  · rw [DeltaOps.weeks_eq]; exact DeltaOps.unit_panicking_aux 604800 n (by omega) hn
  · rw [DeltaOps.days_eq]; exact DeltaOps.unit_panicking_aux 86400 n (by omega) hn
  · rw [DeltaOps.hours_eq]; exact DeltaOps.unit_panicking_aux 3600 n (by omega) hn
  · rw [DeltaOps.minutes_eq]; exact DeltaOps.unit_panicking_aux 60 n (by omega) hn

/-- `Sum` really is the fold of the operator `+` (the model of `Sum` inlines it) -/
theorem sum_is_fold_of_op_add (x : Delta) (xs : List Delta) (acc : Delta) :
    Delta.sum [] acc = .ok acc ∧
    Delta.sum (x :: xs) acc = (Delta.add acc x >>= fun r => Delta.sum xs r) := by
  refine ⟨rfl, ?_⟩
  unfold Delta.add
  rw [Delta.sum]
  cases h : Delta.checked_add acc x with
  | panic => rfl
  | ok o => cases o <;> rfl

/-- non-vacuity: the operators at the top of the range, the constructors at their thresholds
(`i64::MAX` ms is `MAX`, `-i64::MAX` ms is `MIN`, `i64::MIN` ms panics) -/
example :
    Delta.add Delta.MAX ⟨0, 1⟩ = .panic ∧ Delta.sub Delta.MIN ⟨0, 1⟩ = .panic ∧
    Delta.add Delta.MAX ⟨-1, 999999999⟩ = .ok ⟨9223372036854775, 806999999⟩ ∧
    Delta.add_assign Delta.MIN Delta.MAX = .ok ⟨0, 0⟩ ∧ Delta.sub_assign Delta.MIN Delta.MAX = .panic ∧
    Delta.mul Delta.MAX 2 = .panic ∧ Delta.mul Delta.MAX (-1) = .ok Delta.MIN ∧
    Delta.div Delta.MAX 0 = .panic ∧ Delta.div Delta.MIN (-2147483648) = .ok ⟨4294967, 296000000⟩ ∧
    Delta.milliseconds 9223372036854775807 = .ok Delta.MAX ∧
    Delta.milliseconds (-9223372036854775807) = .ok Delta.MIN ∧
    Delta.milliseconds (-9223372036854775808) = .panic ∧
    Delta.seconds 9223372036854775 = .ok ⟨9223372036854775, 0⟩ ∧ Delta.seconds 9223372036854776 = .panic ∧
    Delta.weeks 15250284452 = .ok ⟨9223372036569600, 0⟩ ∧ Delta.weeks 15250284453 = .panic ∧
    Delta.weeks (-15250284453) = .panic ∧ Delta.days 9223372036854775807 = .panic := by decide

/-! ### Closure of the range (audit gap G2) -/

/-- the range is symmetric: that is why negation and `abs` are total -/
theorem range_symm (n : Int) : nsInRange n ↔ nsInRange (-n) := DeltaOps.range_symm' n

/-- no operation on valid values yields a value outside the range or with an invalid nanosecond
field: every value returned by a checked operation, an operator, negation, `abs` or `Sum` satisfies the
invariant -/
theorem closed (a b : Delta) (k : Int) (ha : DInv a) (hb : DInv b)
    (hk : -2147483648 ≤ k ∧ k ≤ 2147483647) :
    (∀ r, Delta.checked_add a b = .ok (some r) → DInv r) ∧
    (∀ r, Delta.checked_sub a b = .ok (some r) → DInv r) ∧
    (∀ r, Delta.checked_mul a k = .ok (some r) → DInv r) ∧
    (∀ r, Delta.checked_div a k = .ok (some r) → DInv r) ∧
    (∀ r, Delta.neg a = .ok r → DInv r) ∧ (∀ r, Delta.abs a = .ok r → DInv r) ∧
    (∀ r, Delta.add a b = .ok r → DInv r) ∧ (∀ r, Delta.sub a b = .ok r → DInv r) ∧
    (∀ r, Delta.add_assign a b = .ok r → DInv r) ∧ (∀ r, Delta.sub_assign a b = .ok r → DInv r) ∧
    (∀ r, Delta.mul a k = .ok r → DInv r) ∧ (∀ r, Delta.div a k = .ok r → DInv r) := by
  refine ⟨fun r h => ?_, fun r h => ?_, fun r h => ?_, fun r h => DeltaOps.div_inv a k r ha hk h,
    fun r h => (DeltaOps.neg_inv a r ha h).1, fun r h => (DeltaOps.abs_inv a r ha h).1,
    fun r h => ?_, fun r h => ?_, fun r h => ?_, fun r h => ?_, fun r h => ?_,
    fun r h => DeltaOps.op_div_inv a k r ha hk h⟩
  · rw [add_exact' a b ha hb] at h; exact (DeltaOps.ok_some_ite_inv _ r h).1
  · rw [sub_exact' a b ha hb] at h; exact (DeltaOps.ok_some_ite_inv _ r h).1
  · rw [mul_exact' a k ha hk] at h; exact (DeltaOps.ok_some_ite_inv _ r h).1
  · rw [DeltaOps.op_add_exact' a b ha hb] at h; exact (DeltaOps.ok_ite_inv _ r h).1
  · rw [DeltaOps.op_sub_exact' a b ha hb] at h; exact (DeltaOps.ok_ite_inv _ r h).1
  · rw [DeltaOps.op_add_assign_exact' a b ha hb] at h; exact (DeltaOps.ok_ite_inv _ r h).1
  · rw [DeltaOps.op_sub_assign_exact' a b ha hb] at h; exact (DeltaOps.ok_ite_inv _ r h).1
  · rw [DeltaOps.op_mul_exact' a k ha hk] at h; exact (DeltaOps.ok_ite_inv _ r h).1

/-- `Sum` of valid values from a valid accumulator, when it returns, returns a valid value -/
theorem closed_sum (xs : List Delta) (acc : Delta) (hacc : DInv acc) (hxs : ∀ x ∈ xs, DInv x) :
    ∀ r, Delta.sum xs acc = .ok r → DInv r :=
  fun r h => DeltaOps.sum_inv xs acc hacc hxs r h

/-- every constructor, for all arguments of its machine types (`new`: any `u32` nanos; `from_std`:
any `u64` seconds, nanos below 10⁹), returns only valid values -/
theorem closed_constructors (secs nanos n : Int) (hnanos : 0 ≤ nanos)
    (hn : -9223372036854775808 ≤ n ∧ n ≤ 9223372036854775807) :
    (∀ r, Delta.new secs nanos = some r → DInv r) ∧
    (∀ r, Delta.try_weeks n = some r → DInv r) ∧ (∀ r, Delta.try_days n = some r → DInv r) ∧
    (∀ r, Delta.try_hours n = some r → DInv r) ∧ (∀ r, Delta.try_minutes n = some r → DInv r) ∧
    (∀ r, Delta.try_seconds n = some r → DInv r) ∧ (∀ r, Delta.try_milliseconds n = some r → DInv r) ∧
    DInv (Delta.microseconds n) ∧ DInv (Delta.nanoseconds n) ∧
    (∀ r, Delta.weeks n = .ok r → DInv r) ∧ (∀ r, Delta.days n = .ok r → DInv r) ∧
    (∀ r, Delta.hours n = .ok r → DInv r) ∧ (∀ r, Delta.minutes n = .ok r → DInv r) ∧
    (∀ r, Delta.seconds n = .ok r → DInv r) ∧ (∀ r, Delta.milliseconds n = .ok r → DInv r) ∧
    (0 ≤ secs ∧ secs ≤ 18446744073709551615 → nanos < 1000000000 →
      ∀ r, Delta.from_std secs nanos = some r → DInv r) := by
  obtain ⟨w, d, h, m, s, ms⟩ := unit_panicking n hn
  have tu : ∀ u, (u = 1 ∨ u = 60 ∨ u = 3600 ∨ u = 86400 ∨ u = 604800) →
      ∀ r, Delta.try_unit u n = some r → DInv r := by
    intro u hu r hr
    rw [try_unit_exact' u n hu hn] at hr
    exact (DeltaOps.some_ite_inv _ r hr).1
  refine ⟨fun r hr => (DeltaOps.new_inv secs nanos hnanos r hr).1,
    tu 604800 (by omega), tu 86400 (by omega), tu 3600 (by omega), tu 60 (by omega), ?_, ?_,
    (micro_nano_exact' n hn).2.1, (micro_nano_exact' n hn).2.2.2, ?_, ?_, ?_, ?_, ?_, ?_, ?_⟩
  · intro r hr; rw [try_seconds_exact n] at hr; exact (DeltaOps.some_ite_inv _ r hr).1
  · intro r hr; rw [try_milliseconds_exact' n hn] at hr; exact (DeltaOps.some_ite_inv _ r hr).1
  · intro r hr; rw [w] at hr; exact (DeltaOps.ok_ite_inv _ r hr).1
  · intro r hr; rw [d] at hr; exact (DeltaOps.ok_ite_inv _ r hr).1
  · intro r hr; rw [h] at hr; exact (DeltaOps.ok_ite_inv _ r hr).1
  · intro r hr; rw [m] at hr; exact (DeltaOps.ok_ite_inv _ r hr).1
  · intro r hr; rw [s] at hr; exact (DeltaOps.ok_ite_inv _ r hr).1
  · intro r hr; rw [ms] at hr; exact (DeltaOps.ok_ite_inv _ r hr).1
  · intro hs hn9 r hr; exact (DeltaOps.from_std_inv secs nanos hs ⟨hnanos, hn9⟩ r hr).1

/-- the deserialising constructor (`impl Deserialize for TimeDelta`: `new(secs, nanos as u32)` on the
`(i64, i32)` tuple serde hands over — the one constructor that receives the nanosecond field signed), for
every secs and every `i32` nanos: the pair itself exactly when it is a valid value, refused otherwise — a
negative nanosecond field wraps to at least 2³¹ and is refused, never reinterpreted; so a deserialised value
satisfies the invariant (second audit G3; rkyv's derived `Deserialize` and `Arbitrary` are not modelled) -/
theorem deserialize_spec (secs nanos : Int) (hn : -2147483648 ≤ nanos ∧ nanos ≤ 2147483647) :
    Delta.deserialize secs nanos =
      (if 0 ≤ nanos ∧ nanos < 1000000000 ∧ nsInRange (ns ⟨secs, nanos⟩) then some ⟨secs, nanos⟩ else none) ∧
    (∀ r, Delta.deserialize secs nanos = some r → DInv r ∧ r = ⟨secs, nanos⟩) := by
  have h := DeltaSerde.deserialize_spec' secs nanos hn
  refine ⟨h, fun r hr => ?_⟩
  rw [h] at hr
  by_cases hc : 0 ≤ nanos ∧ nanos < 1000000000 ∧ nsInRange (ns ⟨secs, nanos⟩)
  · rw [ite_pos' _ _ hc] at hr; cases hr; exact ⟨hc, rfl⟩
  · rw [ite_neg' _ _ hc] at hr; cases hr

/-- non-vacuity: the range ends are accepted, one nanosecond beyond and every negative field refused -/
example : Delta.deserialize 9223372036854775 807000000 = some Delta.MAX ∧
    Delta.deserialize (-9223372036854776) 193000000 = some Delta.MIN ∧
    Delta.deserialize 9223372036854775 807000001 = none ∧ Delta.deserialize 0 (-1) = none ∧
    Delta.deserialize 0 (-2147483648) = none ∧ Delta.deserialize 0 1000000000 = none ∧
    Delta.deserialize (-1) 999999999 = some ⟨-1, 999999999⟩ := by decide

/-- non-vacuity: each antecedent of `closed` is met (results at both range ends) -/
example : Delta.checked_add Delta.MIN ⟨0, 1⟩ = .ok (some ⟨-9223372036854776, 193000001⟩) ∧
    Delta.neg Delta.MIN = .ok Delta.MAX ∧ Delta.abs Delta.MIN = .ok Delta.MAX ∧
    Delta.from_std 9223372036854775 807000000 = some Delta.MAX ∧
    Delta.from_std 9223372036854775 807000001 = none ∧ nsInRange (-NS_MAX) := by decide

/-! ### `is_zero`, constants, derived `PartialEq` / `PartialOrd` (audit gap G3 and the constants) -/

/-- `is_zero` holds exactly for the zero count, i.e. exactly for `TimeDelta::zero()` -/
theorem is_zero_spec (a : Delta) (ha : DInv a) :
    (a.is_zero = true ↔ ns a = 0) ∧ (a.is_zero = true ↔ a = Delta.zero) :=
  DeltaOps.is_zero_spec' a ha

/-- `zero()` is the zero count, `min_value()` / `max_value()` are `MIN` / `MAX`, and those are the
canonical representations of the range ends; every valid value lies between them, also in the
derived order -/
theorem consts_spec :
    Delta.zero = ofNs 0 ∧ DInv Delta.zero ∧ Delta.min_value = Delta.MIN ∧ Delta.max_value = Delta.MAX ∧
    Delta.MIN = ofNs (-NS_MAX) ∧ Delta.MAX = ofNs NS_MAX ∧
    ∀ a, DInv a → ns Delta.MIN ≤ ns a ∧ ns a ≤ ns Delta.MAX ∧
      Delta.cmp Delta.MIN a ≠ 1 ∧ Delta.cmp a Delta.MAX ≠ 1 := by
  refine ⟨by decide, by decide, rfl, rfl, by decide, by decide, fun a ha => ?_⟩
  have h1 : ns Delta.MIN = -9223372036854775807000000 := by decide
  have h2 : ns Delta.MAX = 9223372036854775807000000 := by decide
  have hr := ha.2.2
  simp only [nsInRange, NS_MAX] at hr
  rw [cmp_spec' Delta.MIN a (by decide) ha, cmp_spec' a Delta.MAX ha (by decide), h1, h2]
  refine ⟨by omega, by omega, ?_, ?_⟩ <;> repeat' split <;> omega

/-- derived `==`, `partial_cmp`, `<`, `<=`, `>`, `>=` on all pairs of valid values are the numeric
relations on the nanosecond counts -/
theorem rel_spec (a b : Delta) (ha : DInv a) (hb : DInv b) :
    Delta.eq a b = decide (ns a = ns b) ∧
    Delta.partial_cmp a b = some (if ns a < ns b then -1 else if ns a > ns b then 1 else 0) ∧
    Delta.lt a b = decide (ns a < ns b) ∧ Delta.le a b = decide (ns a ≤ ns b) ∧
    Delta.gt a b = decide (ns a > ns b) ∧ Delta.ge a b = decide (ns a ≥ ns b) :=
  DeltaOps.rel_spec' a b ha hb

/-- std conversions compose to the identity wherever they are defined -/
theorem std_roundtrip (secs nanos : Int) (hs : 0 ≤ secs ∧ secs ≤ 18446744073709551615)
    (hn : 0 ≤ nanos ∧ nanos < 1000000000) (a : Delta) (ha : DInv a) :
    (∀ r, Delta.from_std secs nanos = some r → Delta.to_std r = some (secs, nanos)) ∧
    (∀ p, Delta.to_std a = some p → Delta.from_std p.1 p.2 = some a) := by
  constructor
  · intro r hr
    obtain ⟨hi, hv⟩ := DeltaOps.from_std_inv secs nanos hs hn r hr
    have hr' := hr
    rw [(std_spec' secs nanos hs hn r hi).1] at hr'
    by_cases hc : nsInRange (secs * 1000000000 + nanos)
    · rw [ite_pos' _ _ hc] at hr'
      cases hr'
      rw [(std_spec' secs nanos hs hn _ hi).2, ite_pos' _ _ (by simp only [ns]; omega)]
    · rw [ite_neg' _ _ hc] at hr'; cases hr'
  · intro p hp
    rw [(std_spec' 0 0 (by omega) (by omega) a ha).2] at hp
    by_cases hc : 0 ≤ ns a
    · rw [ite_pos' _ _ hc] at hp
      cases hp
      have hr := ha.2.2
      have hs' : 0 ≤ a.secs := by have := ha.2.1; simp only [ns] at hc; omega
      simp only [nsInRange, NS_MAX, ns] at hr
      have hn0 := ha.1
      have hn1 := ha.2.1
      rw [(std_spec' a.secs a.nanos ⟨hs', by omega⟩ ⟨ha.1, ha.2.1⟩ a ha).1,
        ite_pos' _ _ (by simp only [nsInRange, NS_MAX]; omega)]
    · rw [ite_neg' _ _ hc] at hp; cases hp

/-- non-vacuity: the accessors at both range ends (the millisecond count is ±(2⁶³−1), the micro- and
nanosecond counts do not fit `i64`), `is_zero` next to zero, the relations on equal and adjacent values -/
example :
    Delta.MAX.num_milliseconds = .ok 9223372036854775807 ∧
    Delta.MIN.num_milliseconds = .ok (-9223372036854775807) ∧
    Delta.MAX.num_microseconds = none ∧ Delta.MIN.num_nanoseconds = none ∧
    Delta.MIN.num_seconds = -9223372036854775 ∧ Delta.MIN.subsec_nanos = -807000000 ∧
    Delta.MAX.num_weeks = 15250284452 ∧ Delta.MIN.num_weeks = -15250284452 ∧
    Delta.num_nanoseconds ⟨9223372036, 854775807⟩ = some 9223372036854775807 ∧
    Delta.num_nanoseconds ⟨9223372036, 854775808⟩ = none ∧
    Delta.num_nanoseconds ⟨-9223372037, 145224192⟩ = some (-9223372036854775808) ∧
    Delta.num_nanoseconds ⟨-9223372037, 145224191⟩ = none ∧
    Delta.is_zero ⟨0, 0⟩ = true ∧ Delta.is_zero ⟨0, 1⟩ = false ∧ Delta.is_zero ⟨-1, 999999999⟩ = false ∧
    Delta.lt ⟨-1, 999999999⟩ ⟨0, 0⟩ = true ∧ Delta.le Delta.MIN Delta.MIN = true ∧
    Delta.eq Delta.MAX Delta.MAX = true ∧ Delta.gt Delta.MAX Delta.MIN = true := by decide

/-! ### Canonical shape of the Display text (audit gap G4) -/

/-- `display_value` fixes the value the text denotes; this fixes which of the texts with that value is
written (`Spec/DeltaCanonSpec.lean`): `P0D` exactly for zero; otherwise `-` exactly for negative values,
`PT`, the integer part without leading zeros, a fraction of one to nine digits not ending in `0` or no
fraction at all, `S`, and never `PT0S` / `-P0D` -/
theorem display_canonical (a : Delta) (ha : DInv a) :
    ∃ t, Delta.display a = .ok t ∧
      (ns a = 0 → t = [80, 48, 68]) ∧ (ns a ≠ 0 → canonText (decide (ns a < 0)) t) ∧
      (t = [80, 48, 68] ↔ ns a = 0) ∧ (t.head? = some 45 ↔ ns a < 0) := by
  obtain ⟨t, h1, h2, h3⟩ := DeltaCanon.display_canonical' a ha
  refine ⟨t, h1, h2, h3, ?_, ?_⟩
  · constructor
    · intro ht
      by_cases hz : ns a = 0
      · exact hz
      · exact absurd ht (DeltaCanon.canonText_head _ t (h3 hz)).1
    · exact h2
  · by_cases hz : ns a = 0
    · rw [h2 hz]
      constructor
      · intro hh; cases hh
      · intro hh; omega
    · rw [(DeltaCanon.canonText_head _ t (h3 hz)).2, decide_eq_true_iff]

/-- non-vacuity: "-PT9223372036854775.807S" and "PT0.000001S" have the canonical shape (integer
part, fraction exhibited) -/
example :
    canonText true [45, 80, 84, 57, 50, 50, 51, 51, 55, 50, 48, 51, 54, 56, 53, 52, 55, 55, 53, 46, 56, 48,
      55, 83] ∧
    canonText false [80, 84, 48, 46, 48, 48, 48, 48, 48, 49, 83] :=
  ⟨⟨[57, 50, 50, 51, 51, 55, 50, 48, 51, 54, 56, 53, 52, 55, 55, 53], [46, 56, 48, 55], by decide,
      by decide, Or.inr ⟨[56, 48, 55], by decide⟩, by decide⟩,
   ⟨[48], [46, 48, 48, 48, 48, 48, 49], by decide, by decide,
      Or.inr ⟨[48, 48, 48, 48, 48, 49], by decide⟩, by decide⟩⟩

/-- the shape predicates leave exactly one text per value (a fact about the specification alone): two
texts of canonical shape — `P0D` or `canonText` — that the reader maps to the same value are equal -/
theorem canonical_text_unique (t1 t2 : List Nat)
    (h1 : t1 = [80, 48, 68] ∨ ∃ n, canonText n t1) (h2 : t2 = [80, 48, 68] ∨ ∃ n, canonText n t2)
    (hv : readDuration t1 = readDuration t2) : t1 = t2 := by
  have hz : readDuration [80, 48, 68] = some 0 := by decide
  rcases h1 with rfl | ⟨n1, c1⟩ <;> rcases h2 with rfl | ⟨n2, c2⟩
  · rfl
  · rw [hz] at hv; exact absurd hv.symm (DeltaCanonUniq.canon_ne_zero n2 t2 c2)
  · rw [hz] at hv; exact absurd hv (DeltaCanonUniq.canon_ne_zero n1 t1 c1)
  · exact DeltaCanonUniq.canon_unique n1 n2 t1 t2 c1 c2 hv

/-- hence the Display text is THE text of canonical shape denoting `ns a`: any text of canonical shape
that the reader maps to `ns a` is what `Display` writes -/
theorem display_unique (a : Delta) (ha : DInv a) (t : List Nat)
    (hs : t = [80, 48, 68] ∨ ∃ n, canonText n t) (hv : readDuration t = some (ns a)) :
    Delta.display a = .ok t := by
  obtain ⟨t', hd, hz, hc, _, _⟩ := display_canonical a ha
  obtain ⟨t'', hd', hr⟩ := display_value' a ha
  have : t'' = t' := by rw [hd] at hd'; cases hd'; rfl
  subst this
  have hs' : t'' = [80, 48, 68] ∨ ∃ n, canonText n t'' := by
    by_cases h0 : ns a = 0
    · exact Or.inl (hz h0)
    · exact Or.inr ⟨_, hc h0⟩
  rw [hd, canonical_text_unique t'' t hs' hs (by rw [hr, hv])]

/-- non-vacuity: texts the reader accepts with the value of a canonical text but of another shape exist
(`PT007S` reads as 7 s, like `PT7S`), so uniqueness is a property of the shape predicates, not of the reader -/
example : readDuration [80, 84, 48, 48, 55, 83] = readDuration [80, 84, 55, 83] ∧
    readDuration [80, 84, 55, 83] = some 7000000000 ∧
    readDuration [80, 84, 48, 83] = readDuration [80, 48, 68] := by decide

end Chrono.Props.C06
