/-
  C06 — Durations are exact signed nanosecond counts within a closed range.
  Property statements only.  `Spec.ns d = secs·10⁹ + nanos`; the range is ±(2⁶³−1) ms.
-/
import Chrono.Proofs.DeltaL
import Chrono.Proofs.DeltaDivL
import Chrono.Proofs.DeltaDisplayL

namespace Chrono.Props.C06
open Chrono Chrono.M Chrono.Spec Chrono.Proofs Chrono.Extracted

/-- the extracted constants are the range ends the specification talks about -/
theorem consts_ok :
    ns Delta.MIN = -NS_MAX ∧ ns Delta.MAX = NS_MAX ∧ DInv Delta.MIN ∧ DInv Delta.MAX ∧
    NANOS_PER_SEC = 1000000000 ∧ NANOS_PER_MILLI = 1000000 ∧ NANOS_PER_MICRO = 1000 ∧
    MILLIS_PER_SEC = 1000 ∧ MICROS_PER_SEC = 1000000 ∧ SECS_PER_MINUTE = 60 ∧ SECS_PER_HOUR = 3600 ∧
    SECS_PER_DAY = 86400 ∧ SECS_PER_WEEK = 604800 := by decide

/-- `new` accepts exactly the pairs with a valid nanosecond field whose value is in range -/
theorem new_iff (secs nanos : Int) (hn : 0 ≤ nanos) :
    Delta.new secs nanos =
      if nanos < 1000000000 ∧ nsInRange (ns ⟨secs, nanos⟩) then some ⟨secs, nanos⟩ else none :=
  new_iff' secs nanos hn

/-- unit constructors: exact, refused exactly when out of range (all `i64` arguments) -/
theorem try_unit_exact (unit n : Int) (hu : unit = 1 ∨ unit = 60 ∨ unit = 3600 ∨ unit = 86400 ∨ unit = 604800)
    (hn : -9223372036854775808 ≤ n ∧ n ≤ 9223372036854775807) :
    Delta.try_unit unit n =
      if nsInRange (n * unit * 1000000000) then some (ofNs (n * unit * 1000000000)) else none :=
  try_unit_exact' unit n hu hn

theorem try_milliseconds_exact (ms : Int) (h : -9223372036854775808 ≤ ms ∧ ms ≤ 9223372036854775807) :
    Delta.try_milliseconds ms =
      if nsInRange (ms * 1000000) then some (ofNs (ms * 1000000)) else none :=
  try_milliseconds_exact' ms h

theorem micro_nano_exact (x : Int) (h : -9223372036854775808 ≤ x ∧ x ≤ 9223372036854775807) :
    Delta.microseconds x = ofNs (x * 1000) ∧ DInv (Delta.microseconds x) ∧
    Delta.nanoseconds x = ofNs x ∧ DInv (Delta.nanoseconds x) :=
  micro_nano_exact' x h

/-- `ofNs` is the canonical representation: it satisfies the invariant and denotes its argument -/
theorem ofNs_spec (n : Int) (h : nsInRange n) : DInv (ofNs n) ∧ ns (ofNs n) = n := ofNs_spec' n h

/-- a value is determined by its nanosecond count -/
theorem ns_injective (a b : Delta) (ha : DInv a) (hb : DInv b) (h : ns a = ns b) : a = b :=
  ns_injective' a b ha hb h

/-- addition and subtraction: exact or refused, no intermediate overflow -/
theorem add_exact (a b : Delta) (ha : DInv a) (hb : DInv b) :
    Delta.checked_add a b =
      .ok (if nsInRange (ns a + ns b) then some (ofNs (ns a + ns b)) else none) :=
  add_exact' a b ha hb

theorem sub_exact (a b : Delta) (ha : DInv a) (hb : DInv b) :
    Delta.checked_sub a b =
      .ok (if nsInRange (ns a - ns b) then some (ofNs (ns a - ns b)) else none) :=
  sub_exact' a b ha hb

/-- negation and absolute value are total on the range and exact -/
theorem neg_abs_exact (a : Delta) (ha : DInv a) :
    Delta.neg a = .ok (ofNs (-(ns a))) ∧ Delta.abs a = .ok (ofNs (if ns a < 0 then -(ns a) else ns a)) :=
  neg_abs_exact' a ha

/-- multiplication by any `i32`: exact or refused (false on the pinned tree: finding #2) -/
theorem mul_exact (a : Delta) (k : Int) (ha : DInv a) (hk : -2147483648 ≤ k ∧ k ≤ 2147483647) :
    Delta.checked_mul a k =
      .ok (if nsInRange (ns a * k) then some (ofNs (ns a * k)) else none) :=
  mul_exact' a k ha hk

/-- the pinned `checked_mul` returned a value outside the range -/
theorem mul_pinned_counterexample :
    Delta.checked_mul_pinned Delta.MAX 2 = .ok (some ⟨18446744073709551, 614000000⟩) ∧
    ¬ DInv ⟨18446744073709551, 614000000⟩ := by decide

/-- unit accessors truncate toward zero; sub-unit parts carry the same sign -/
theorem accessors_spec (a : Delta) (ha : DInv a) :
    a.num_seconds = Int.tdiv (ns a) 1000000000 ∧ a.subsec_nanos = Int.tmod (ns a) 1000000000 ∧
    a.num_milliseconds = .ok (Int.tdiv (ns a) 1000000) ∧
    a.num_microseconds = optI64 (Int.tdiv (ns a) 1000) ∧
    a.num_nanoseconds = optI64 (ns a) ∧
    a.num_minutes = Int.tdiv (ns a) 60000000000 ∧ a.num_hours = Int.tdiv (ns a) 3600000000000 ∧
    a.num_days = Int.tdiv (ns a) 86400000000000 ∧ a.num_weeks = Int.tdiv (ns a) 604800000000000 ∧
    a.subsec_millis = Int.tdiv (Int.tmod (ns a) 1000000000) 1000000 ∧
    a.subsec_micros = Int.tdiv (Int.tmod (ns a) 1000000000) 1000 :=
  accessors_spec' a ha

/-- derived comparison is numeric order -/
theorem cmp_spec (a b : Delta) (ha : DInv a) (hb : DInv b) :
    Delta.cmp a b = (if ns a < ns b then -1 else if ns a > ns b then 1 else 0) :=
  cmp_spec' a b ha hb

/-- conversion to and from the unsigned standard duration is exact or refused -/
theorem std_spec (secs nanos : Int) (hs : 0 ≤ secs ∧ secs ≤ 18446744073709551615)
    (hn : 0 ≤ nanos ∧ nanos < 1000000000) (a : Delta) (ha : DInv a) :
    Delta.from_std secs nanos =
      (if nsInRange (secs * 1000000000 + nanos) then some ⟨secs, nanos⟩ else none) ∧
    Delta.to_std a = (if 0 ≤ ns a then some (a.secs, a.nanos) else none) :=
  std_spec' secs nanos hs hn a ha

/-- non-vacuity: the range ends satisfy the invariant; MAX + 1 ns is refused, MAX − 1 ns is not -/
example : DInv Delta.MAX ∧ Delta.checked_add Delta.MAX ⟨0, 1⟩ = .ok none ∧
    Delta.checked_sub Delta.MAX ⟨0, 1⟩ = .ok (some ⟨9223372036854775, 806999999⟩) ∧
    Delta.checked_mul Delta.MAX 2 = .ok none := by decide

/-! ### Division by an `i32` -/

/-- division by a non-zero `i32` never panics (no intermediate leaves its machine type), never
refuses, stays in the range, and differs from the exact quotient by less than two nanoseconds:
`|ns r · k − ns a| < 2·|k|` -/
theorem div_spec (a : Delta) (k : Int) (ha : DInv a) (hk : -2147483648 ≤ k ∧ k ≤ 2147483647)
    (hk0 : k ≠ 0) :
    ∃ r, Delta.checked_div a k = .ok (some r) ∧ DInv r ∧
      (ns r * k - ns a).natAbs < 2 * k.natAbs :=
  div_spec' a k ha hk hk0

/-- division by zero is refused (for every pair, valid or not) -/
theorem div_zero (a : Delta) : Delta.checked_div a 0 = .ok none := div_zero' a

/-- division by `1` and `-1` is exact -/
theorem div_unit (a : Delta) (ha : DInv a) :
    Delta.checked_div a 1 = .ok (some a) ∧ Delta.checked_div a (-1) = .ok (some (ofNs (-(ns a)))) :=
  div_unit' a ha

/-- the result in closed form; the nanosecond sum never reaches 10⁹, so the upward-carry arm of the
`match` in `checked_div` (`NANOS_PER_SEC..=i32::MAX`) is unreachable for valid operands -/
theorem div_closed_form (a : Delta) (k : Int) (ha : DInv a) (hk : -2147483648 ≤ k ∧ k ≤ 2147483647)
    (hk0 : k ≠ 0) :
    let qs := Int.tdiv a.secs k
    let nanos := Int.tdiv a.nanos k + Int.tdiv (Int.tmod a.secs k * 1000000000) k
    Delta.checked_div a k =
      .ok (some (if nanos < 0 then ⟨qs - 1, nanos + 1000000000⟩ else ⟨qs, nanos⟩)) ∧
    nanos < 1000000000 :=
  div_eq' a k ha hk hk0

/-- the bound cannot be lowered to one nanosecond: 2.000000002 s / 3 is off by 4/3 ns; and a
quotient that is an integer number of nanoseconds need not be hit (1.5 s / 3 gives 0.499999999 s) -/
theorem div_error_exceeds_one_ns :
    Delta.checked_div ⟨2, 2⟩ 3 = .ok (some ⟨0, 666666666⟩) ∧
    (ns ⟨0, 666666666⟩ * 3 - ns ⟨2, 2⟩).natAbs = 4 ∧
    Delta.checked_div ⟨1, 500000000⟩ 3 = .ok (some ⟨0, 499999999⟩) := by decide

/-- non-vacuity: range ends, both signs of the divisor, the downward carry -/
example : DInv Delta.MIN ∧
    Delta.checked_div Delta.MIN (-2147483648) = .ok (some ⟨4294967, 296000000⟩) ∧
    Delta.checked_div Delta.MIN 2147483647 = .ok (some ⟨-4294968, 702000000⟩) ∧
    Delta.checked_div Delta.MAX (-1) = .ok (some Delta.MIN) ∧
    Delta.checked_div ⟨-3, 0⟩ 2 = .ok (some ⟨-2, 500000000⟩) ∧
    Delta.checked_div ⟨-1, 999999999⟩ 2 = .ok (some ⟨-1, 999999999⟩) := by decide

/-! ### Display -/

/-- the text form, read back by the independent reader `Spec.readDuration` (sign, `P0D` or
`PT<int>[.<frac>]S`, at most nine fraction digits, no trailing zero), is the exact nanosecond count;
in particular formatting never panics -/
theorem display_value (a : Delta) (ha : DInv a) :
    ∃ t, Delta.display a = .ok t ∧ readDuration t = some (ns a) :=
  display_value' a ha

/-- non-vacuity: "-PT9223372036854775.807S", "P0D", "PT0.000001S"; the reader refuses an untrimmed
fraction, a bare point and an empty integer part -/
example :
    Delta.display Delta.MIN = .ok [45, 80, 84, 57, 50, 50, 51, 51, 55, 50, 48, 51, 54, 56, 53, 52, 55,
      55, 53, 46, 56, 48, 55, 83] ∧
    Delta.display ⟨0, 0⟩ = .ok [80, 48, 68] ∧
    Delta.display ⟨0, 1000⟩ = .ok [80, 84, 48, 46, 48, 48, 48, 48, 48, 49, 83] ∧
    readDuration [80, 84, 48, 46, 48, 48, 48, 48, 48, 49, 83] = some 1000 ∧
    readDuration [80, 84, 49, 46, 53, 48, 83] = none ∧ readDuration [80, 84, 49, 46, 83] = none ∧
    readDuration [80, 84, 46, 53, 83] = none := by decide

/-! ### Sum -/

/-- `Sum` (a fold with the panicking `+`) is the fold of the nanosecond counts that checks the range
after every step (`Spec.sumNs`): the exact total, or a panic at the first partial sum out of range -/
theorem sum_spec (xs : List Delta) (acc : Delta) (hacc : DInv acc) (hxs : ∀ x ∈ xs, DInv x) :
    Delta.sum xs acc =
      match sumNs (xs.map ns) (ns acc) with
      | some n => .ok (ofNs n)
      | none => .panic :=
  sum_spec' xs acc hacc hxs

/-- the same without the auxiliary fold: the exact total when every partial sum is in range, a panic
otherwise -/
theorem sum_exact (xs : List Delta) (acc : Delta) (hacc : DInv acc) (hxs : ∀ x ∈ xs, DInv x) :
    ((∀ i, 1 ≤ i → i ≤ (xs.map ns).length → nsInRange (ns acc + ((xs.map ns).take i).sum)) →
      Delta.sum xs acc = .ok (ofNs (ns acc + (xs.map ns).sum))) ∧
    (¬ (∀ i, 1 ≤ i → i ≤ (xs.map ns).length → nsInRange (ns acc + ((xs.map ns).take i).sum)) →
      Delta.sum xs acc = .panic) := by
  rw [sum_spec' xs acc hacc hxs]
  cases h : sumNs (xs.map ns) (ns acc) with
  | none =>
    refine ⟨fun hall => ?_, fun _ => rfl⟩
    have := (sumNs_iff (xs.map ns) (ns acc) _).mpr ⟨rfl, hall⟩
    rw [h] at this; cases this
  | some m =>
    obtain ⟨hm, hall⟩ := (sumNs_iff (xs.map ns) (ns acc) m).mp h
    refine ⟨fun _ => by rw [hm], fun hn => absurd hall hn⟩

/-- non-vacuity: a sum that passes through the top of the range panics although its total is small -/
example : Delta.sum [⟨0, 1⟩, ⟨-1, 0⟩] Delta.MAX = .panic ∧
    Delta.sum [⟨-1, 0⟩, ⟨0, 1⟩] Delta.MAX = .ok ⟨9223372036854774, 807000001⟩ ∧
    sumNs [1, -1000000000] NS_MAX = none := by decide

end Chrono.Props.C06
