/-
  C06 — Durations are exact signed nanosecond counts within a closed range.
  Property statements only.  `Spec.ns d = secs·10⁹ + nanos`; the range is ±(2⁶³−1) ms.
-/
import Chrono.Proofs.DeltaL

namespace Chrono.Props.C06
open Chrono Chrono.M Chrono.Spec Chrono.Proofs Chrono.Extracted

/-- the extracted constants are the range ends the specification talks about -/
theorem consts_ok :
    ns Delta.MIN = -NS_MAX ∧ ns Delta.MAX = NS_MAX ∧ DInv Delta.MIN ∧ DInv Delta.MAX ∧
    NANOS_PER_SEC = 1000000000 ∧ NANOS_PER_MILLI = 1000000 ∧ NANOS_PER_MICRO = 1000 ∧
    MILLIS_PER_SEC = 1000 ∧ MICROS_PER_SEC = 1000000 ∧ SECS_PER_MINUTE = 60 ∧ SECS_PER_HOUR = 3600 ∧
    SECS_PER_DAY = 86400 ∧ SECS_PER_WEEK = 604800 := by decide

/-- `new` accepts exactly the pairs with a valid nanosecond field whose value is in range -/
theorem new_iff (secs nanos : Int) (hn : 0 ≤ nanos) :
    Delta.new secs nanos =
      if nanos < 1000000000 ∧ nsInRange (ns ⟨secs, nanos⟩) then some ⟨secs, nanos⟩ else none :=
  new_iff' secs nanos hn

/-- unit constructors: exact, refused exactly when out of range (all `i64` arguments) -/
theorem try_unit_exact (unit n : Int) (hu : unit = 1 ∨ unit = 60 ∨ unit = 3600 ∨ unit = 86400 ∨ unit = 604800)
    (hn : -9223372036854775808 ≤ n ∧ n ≤ 9223372036854775807) :
    Delta.try_unit unit n =
      if nsInRange (n * unit * 1000000000) then some (ofNs (n * unit * 1000000000)) else none :=
  try_unit_exact' unit n hu hn

theorem try_milliseconds_exact (ms : Int) (h : -9223372036854775808 ≤ ms ∧ ms ≤ 9223372036854775807) :
    Delta.try_milliseconds ms =
      if nsInRange (ms * 1000000) then some (ofNs (ms * 1000000)) else none :=
  try_milliseconds_exact' ms h

theorem micro_nano_exact (x : Int) (h : -9223372036854775808 ≤ x ∧ x ≤ 9223372036854775807) :
    Delta.microseconds x = ofNs (x * 1000) ∧ DInv (Delta.microseconds x) ∧
    Delta.nanoseconds x = ofNs x ∧ DInv (Delta.nanoseconds x) :=
  micro_nano_exact' x h

/-- `ofNs` is the canonical representation: it satisfies the invariant and denotes its argument -/
theorem ofNs_spec (n : Int) (h : nsInRange n) : DInv (ofNs n) ∧ ns (ofNs n) = n := ofNs_spec' n h

/-- a value is determined by its nanosecond count -/
theorem ns_injective (a b : Delta) (ha : DInv a) (hb : DInv b) (h : ns a = ns b) : a = b :=
  ns_injective' a b ha hb h

/-- addition and subtraction: exact or refused, no intermediate overflow -/
theorem add_exact (a b : Delta) (ha : DInv a) (hb : DInv b) :
    Delta.checked_add a b =
      .ok (if nsInRange (ns a + ns b) then some (ofNs (ns a + ns b)) else none) :=
  add_exact' a b ha hb

theorem sub_exact (a b : Delta) (ha : DInv a) (hb : DInv b) :
    Delta.checked_sub a b =
      .ok (if nsInRange (ns a - ns b) then some (ofNs (ns a - ns b)) else none) :=
  sub_exact' a b ha hb

/-- negation and absolute value are total on the range and exact -/
theorem neg_abs_exact (a : Delta) (ha : DInv a) :
    Delta.neg a = .ok (ofNs (-(ns a))) ∧ Delta.abs a = .ok (ofNs (if ns a < 0 then -(ns a) else ns a)) :=
  neg_abs_exact' a ha

/-- multiplication by any `i32`: exact or refused (false on the pinned tree: finding #2) -/
theorem mul_exact (a : Delta) (k : Int) (ha : DInv a) (hk : -2147483648 ≤ k ∧ k ≤ 2147483647) :
    Delta.checked_mul a k =
      .ok (if nsInRange (ns a * k) then some (ofNs (ns a * k)) else none) :=
  mul_exact' a k ha hk

/-- the pinned `checked_mul` returned a value outside the range -/
theorem mul_pinned_counterexample :
    Delta.checked_mul_pinned Delta.MAX 2 = .ok (some ⟨18446744073709551, 614000000⟩) ∧
    ¬ DInv ⟨18446744073709551, 614000000⟩ := by decide

/-- unit accessors truncate toward zero; sub-unit parts carry the same sign -/
theorem accessors_spec (a : Delta) (ha : DInv a) :
    a.num_seconds = Int.tdiv (ns a) 1000000000 ∧ a.subsec_nanos = Int.tmod (ns a) 1000000000 ∧
    a.num_milliseconds = .ok (Int.tdiv (ns a) 1000000) ∧
    a.num_microseconds = optI64 (Int.tdiv (ns a) 1000) ∧
    a.num_nanoseconds = optI64 (ns a) ∧
    a.num_minutes = Int.tdiv (ns a) 60000000000 ∧ a.num_hours = Int.tdiv (ns a) 3600000000000 ∧
    a.num_days = Int.tdiv (ns a) 86400000000000 ∧ a.num_weeks = Int.tdiv (ns a) 604800000000000 ∧
    a.subsec_millis = Int.tdiv (Int.tmod (ns a) 1000000000) 1000000 ∧
    a.subsec_micros = Int.tdiv (Int.tmod (ns a) 1000000000) 1000 :=
  accessors_spec' a ha

/-- derived comparison is numeric order -/
theorem cmp_spec (a b : Delta) (ha : DInv a) (hb : DInv b) :
    Delta.cmp a b = (if ns a < ns b then -1 else if ns a > ns b then 1 else 0) :=
  cmp_spec' a b ha hb

/-- conversion to and from the unsigned standard duration is exact or refused -/
theorem std_spec (secs nanos : Int) (hs : 0 ≤ secs ∧ secs ≤ 18446744073709551615)
    (hn : 0 ≤ nanos ∧ nanos < 1000000000) (a : Delta) (ha : DInv a) :
    Delta.from_std secs nanos =
      (if nsInRange (secs * 1000000000 + nanos) then some ⟨secs, nanos⟩ else none) ∧
    Delta.to_std a = (if 0 ≤ ns a then some (a.secs, a.nanos) else none) :=
  std_spec' secs nanos hs hn a ha

/-- non-vacuity: the range ends satisfy the invariant; MAX + 1 ns is refused, MAX − 1 ns is not -/
example : DInv Delta.MAX ∧ Delta.checked_add Delta.MAX ⟨0, 1⟩ = .ok none ∧
    Delta.checked_sub Delta.MAX ⟨0, 1⟩ = .ok (some ⟨9223372036854775, 806999999⟩) ∧
    Delta.checked_mul Delta.MAX 2 = .ok none := by decide

end Chrono.Props.C06
