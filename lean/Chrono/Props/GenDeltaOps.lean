/-
  C06, code translation tie, second part (audit gap G1): the panicking constructors `weeks … milliseconds`,
  the constant functions `min_value` / `max_value` / `zero` and `impl Neg for TimeDelta`, as regenerated from
  src/time_delta.rs on every run by tools/extractors/rust2lean_delta_ops.py (translator: rust2lean.py;
  lean/Chrono/Extracted/GenDeltaOps.lean), equal the hand-written model (Model/DeltaOps.lean, Model/Delta.lean)
  for all arguments of the machine types.  The operator impls `Add`, `Sub`, `AddAssign`, `SubAssign`, `Mul<i32>`,
  `Div<i32>` are outside the translator's subset today (`Chrono.Gen.refusedDeltaOps`); `refused_ops_within` states
  that nothing else of this target list is refused.
-/
import Chrono.Props.GenDelta
import Chrono.Extracted.GenDeltaOps
import Chrono.Model.DeltaOps

namespace Chrono.Props.GenDeltaOps
open Chrono Chrono.M Chrono.Extracted Chrono.Proofs.GenL Chrono.Props.GenDelta

theorem expect_aux (o : Option Delta) :
    (match o.map dG with
      | some r1 => (Res.ok r1 : Res Gen.time_delta.TimeDelta)
      | none => .panic) = rmap dG (Delta.expect o) := by
  cases o <;> rfl

theorem gen_weeks_eq (n : Int) : Gen.time_delta.TimeDelta.weeks n = rmap dG (Delta.weeks n) := by
  unfold Gen.time_delta.TimeDelta.weeks Delta.weeks
  rw [gen_try_weeks_eq]; exact expect_aux _

theorem gen_days_eq (n : Int) : Gen.time_delta.TimeDelta.days n = rmap dG (Delta.days n) := by
  unfold Gen.time_delta.TimeDelta.days Delta.days
  rw [gen_try_days_eq]; exact expect_aux _

theorem gen_hours_eq (n : Int) : Gen.time_delta.TimeDelta.hours n = rmap dG (Delta.hours n) := by
  unfold Gen.time_delta.TimeDelta.hours Delta.hours
  rw [gen_try_hours_eq]; exact expect_aux _

theorem gen_minutes_eq (n : Int) : Gen.time_delta.TimeDelta.minutes n = rmap dG (Delta.minutes n) := by
  unfold Gen.time_delta.TimeDelta.minutes Delta.minutes
  rw [gen_try_minutes_eq]; exact expect_aux _

theorem gen_seconds_eq (n : Int) : Gen.time_delta.TimeDelta.seconds n = rmap dG (Delta.seconds n) := by
  unfold Gen.time_delta.TimeDelta.seconds Delta.seconds
  rw [gen_try_seconds_eq]; exact expect_aux _

theorem gen_milliseconds_eq (n : Int) (h : -9223372036854775808 ≤ n ∧ n ≤ 9223372036854775807) :
    Gen.time_delta.TimeDelta.milliseconds n = rmap dG (Delta.milliseconds n) := by
  unfold Gen.time_delta.TimeDelta.milliseconds Delta.milliseconds
  rw [gen_try_milliseconds_eq n h, bind_ok]; exact expect_aux _

theorem gen_consts_eq :
    Gen.time_delta.TimeDelta.min_value = dG Delta.min_value ∧
    Gen.time_delta.TimeDelta.max_value = dG Delta.max_value ∧
    Gen.time_delta.TimeDelta.zero = dG Delta.zero := by decide

/-- the trait impl `Neg` (the unary `-` the harness drives) has the body of the inherent `neg` -/
theorem gen_op_neg_eq (a : Delta) :
    Gen.time_delta.TimeDelta.Neg.neg (dG a) = rmap dG (Delta.neg a) := by
  unfold Gen.time_delta.TimeDelta.Neg.neg Delta.neg
  gdfacts
  gen_split
  all_goals (first | rfl | (exfalso; omega) | exact ok_mk_eq (by omega) (by omega))

/-- the only items of the second target list the translator may refuse are the six operator impls (they
are refused today: `Option::expect` method, `&mut self`, generic-trait impl); stated as an inclusion so that
a translator that learns these constructs does not break this file — the constructors, the constants and
`Neg` must stay translated, or the theorems above stop compiling -/
theorem refused_ops_within :
    ∀ x ∈ Gen.refusedDeltaOps.map (·.1), x ∈
      ["src/time_delta.rs: <TimeDelta as Add>::add", "src/time_delta.rs: <TimeDelta as Sub>::sub",
       "src/time_delta.rs: <TimeDelta as AddAssign>::add_assign",
       "src/time_delta.rs: <TimeDelta as SubAssign>::sub_assign",
       "src/time_delta.rs: <TimeDelta as Mul>::mul", "src/time_delta.rs: <TimeDelta as Div>::div"] := by decide

/-- non-vacuity: the translated constructors at a threshold -/
example : Gen.time_delta.TimeDelta.seconds 9223372036854775 = .ok ⟨9223372036854775, 0⟩ ∧
    Gen.time_delta.TimeDelta.seconds 9223372036854776 = .panic ∧
    Gen.time_delta.TimeDelta.milliseconds (-9223372036854775808) = .panic := by decide

end Chrono.Props.GenDeltaOps
