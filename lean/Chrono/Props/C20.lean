/-
  C20 — serialized forms deserialize to the same value.
  Property statements only (helper lemmas: Proofs/SerdeL.lean, on top of Proofs/TimestampL.lean (C02),
  Proofs/DeltaL.lean (C06), Props/C19.lean (names); Proofs/SerdeStrL.lean for the string forms, on top of
  Props/C09.lean (default text forms: `Debug` writers, `FromStr` readers) and Proofs/Rfc3339WriteL.lean,
  Proofs/RenderScanL.lean (the `write_rfc3339` text, C10)).

  Model: Model/SerdeTs.lean — the sixteen timestamp helper modules `{chrono::serde, chrono::naive::serde}::
  ts_{seconds, milliseconds, microseconds, nanoseconds}{, _option}` (`serialize`, `deserialize`, the visitors'
  `visit_i64` / `visit_u64`, the option visitors, `invalid_ts`) and the `TimeDelta` tuple form; weekday / month
  names: Model/Weekday.lean.  `serialize tg u`, `deserialize tg u`, `serialize_option tg u`,
  `deserialize_option tg u` select the module by target type `tg` (`DateTime<Utc>` / `NaiveDateTime`) and
  unit `u`; a `DateTime<Utc>` is its UTC reading.  `Res` = ok | panic, `SR` = Ok | Err.
  Specification: Spec/SerdeSpec.lean — `tsOf u dt = ⌊instNs dt / nsPer u⌋` (the exact integer timestamp),
  `truncTo u dt` (the value at the module's precision), `mustWrite` (the integer, or an error when it does not
  fit `i64`), data formats as parameters with the trusted behaviour `Faithful`; instants: Spec/InstantSpec.lean,
  Spec/TimestampSpec.lean (`NDTInv` = representation invariant, `NonLeap` = no leap-second representation,
  `TS_MIN/TS_MAX` = first/last representable second).  `/`, `%` on `Int` are floor division and its remainder.
  String forms: Model/SerdeStr.lean names, per type, the writer `collect_str` runs and the reader `visit_str`
  calls (`NaiveDateStr`, `NaiveTimeStr`, `NaiveDateTimeStr`, `DateTimeStr`: `.serialize`, `.visit_str`,
  `deserialize_fixed` / `deserialize_utc`); Spec/SerdeStrSpec.lean sends them through a text format
  (`strSerializeW`, `strDeserializeV`, `strRoundTrip`; `zoneText off` = `Z` for zero, else `+hh:mm`);
  Spec/TextFormsSpec.lean is the text of each value (`dateTextOf`, `timeText`, `naiveText 84` = date `T` time,
  `WholeMinute`); `DateInv` / `TStrict` (a leap second only on second :59) / `ZInv` are the invariants of C09.
  Whole domain (section "the whole domain of the string forms"): Spec/SerdeStrAnySpec.lean (`roundMin`,
  `zoneTextAny`, `shownTime`, `shownWallSecs`), Spec/ZonedSpec.lean (`wallSecs`, `InRangeSecs`); helper lemmas
  Proofs/SerdeAnyFin.lean, SerdeAnyL.lean, SerdeAnyZonedL.lean, SerdeVisitL.lean.
-/
import Chrono.Proofs.SerdeL
import Chrono.Proofs.SerdeStrL
import Chrono.Proofs.SerdeLocalL
import Chrono.Model.SerdeStr
import Chrono.Extracted.SerdeLits
import Chrono.Props.C19
import Chrono.Proofs.SerdeAnyZonedL
import Chrono.Proofs.SerdeVisitL
import Chrono.Proofs.SerdeTsBodiesL

namespace Chrono.Props.C20
open Chrono Chrono.M Chrono.M.Serde Chrono.Spec Chrono.Spec.Ts Chrono.Spec.Serde Chrono.Proofs.Serde
open Chrono.Proofs.Ts Chrono.Extracted Chrono.Spec.Text Chrono.Proofs.SerdeStr Chrono.Proofs.SerdeAny

/-! ## data tie -/

/-- what the sixteen modules call, and with which literals, as re-extracted from src/datetime/serde.rs and
src/naive/datetime/serde.rs on this run (tools/extractors/serde_ts.py), is what the model was written
against: `_ser` = the accessor `serialize` calls (0 timestamp, 1 _millis, 2 _micros, 3 _nanos_opt); `_i64` /
`_u64` = the constructor `visit_i64` / `visit_u64` calls (0 from_timestamp, 1 _millis, 2 _micros), whether it
divides the Euclidean way, and its integer literals in source order; `_some` = the inner visitor of the
`_option` module (0 Seconds … 3 NanoSeconds) -/
theorem literals_ok :
    SD_utc_ts_seconds_ser = [0] ∧
    SD_utc_ts_seconds_i64 = [0, 0, 0] ∧
    SD_utc_ts_seconds_u64 = [0, 0, 9223372036854775807, 0] ∧
    SD_utc_ts_seconds_option_ser = [0] ∧
    SD_utc_ts_seconds_option_some = [0] ∧
    SD_utc_ts_milliseconds_ser = [1] ∧
    SD_utc_ts_milliseconds_i64 = [1, 0] ∧
    SD_utc_ts_milliseconds_u64 = [0, 0, 1000, 1000, 1000000] ∧
    SD_utc_ts_milliseconds_option_ser = [1] ∧
    SD_utc_ts_milliseconds_option_some = [1] ∧
    SD_utc_ts_microseconds_ser = [2] ∧
    SD_utc_ts_microseconds_i64 = [0, 1, 1000000, 1000000, 1000] ∧
    SD_utc_ts_microseconds_u64 = [0, 0, 1000000, 1000000, 1000] ∧
    SD_utc_ts_microseconds_option_ser = [2] ∧
    SD_utc_ts_microseconds_option_some = [2] ∧
    SD_utc_ts_nanoseconds_ser = [3] ∧
    SD_utc_ts_nanoseconds_i64 = [0, 1, 1000000000, 1000000000] ∧
    SD_utc_ts_nanoseconds_u64 = [0, 0, 1000000000, 1000000000] ∧
    SD_utc_ts_nanoseconds_option_ser = [3] ∧
    SD_utc_ts_nanoseconds_option_some = [3] ∧
    SD_naive_ts_seconds_ser = [0] ∧
    SD_naive_ts_seconds_i64 = [0, 0, 0] ∧
    SD_naive_ts_seconds_u64 = [0, 0, 9223372036854775807, 0] ∧
    SD_naive_ts_seconds_option_ser = [0] ∧
    SD_naive_ts_seconds_option_some = [0] ∧
    SD_naive_ts_milliseconds_ser = [1] ∧
    SD_naive_ts_milliseconds_i64 = [1, 0] ∧
    SD_naive_ts_milliseconds_u64 = [0, 0, 1000, 1000, 1000000] ∧
    SD_naive_ts_milliseconds_option_ser = [1] ∧
    SD_naive_ts_milliseconds_option_some = [1] ∧
    SD_naive_ts_microseconds_ser = [2] ∧
    SD_naive_ts_microseconds_i64 = [2, 0] ∧
    SD_naive_ts_microseconds_u64 = [0, 0, 1000000, 1000000, 1000] ∧
    SD_naive_ts_microseconds_option_ser = [2] ∧
    SD_naive_ts_microseconds_option_some = [2] ∧
    SD_naive_ts_nanoseconds_ser = [3] ∧
    SD_naive_ts_nanoseconds_i64 = [0, 1, 1000000000, 1000000000] ∧
    SD_naive_ts_nanoseconds_u64 = [0, 0, 1000000000, 1000000000] ∧
    SD_naive_ts_nanoseconds_option_ser = [3] ∧
    SD_naive_ts_nanoseconds_option_some = [3] := by
  decide

/-- TIE OF THE SIXTEEN MODULES TO THE SOURCE (audit2 gap 2).  tools/extractors/serde_ts.py parses every body of
every `ts_*` module on every run into a term (Extracted/SerdeBodies.lean; types in Model/SerdeTsCode.lean) that
records each operator (`/` vs `%` vs `*`, `div_euclid` vs `rem_euclid`), each cast (`as i64` / `as u32` /
`as u64`), the comparison (`>`), the `from_timestamp*` constructor and whether `.map(|dt| dt.naive_utc())`
follows, the accessor `serialize` calls, `.and_utc()`, `.ok_or(..)?`, the `serialize_*` / `deserialize_*` method
requested, the visitor handed over and the `.map(..)` that follows.  Model/SerdeTsEval.lean is a generic
evaluator of such terms (Rust's debug integer semantics: truncating `/ %` with their panics, checked `*`,
wrapping `as`), knowing nothing of a particular module.  For all sixteen modules the evaluator applied to the
EXTRACTED terms is the model function the theorems below are about:
`serialize` on every value, `deserialize` on every wire integer whose payload fits the visitor method's
parameter type (`i64` for `visit_i64`, `u64` for `visit_u64`; for `u64` the truncating operators of the source
coincide with the Euclidean ones of the model), the `_option` modules on every wire option; and each
`deserialize` asks for `deserialize_i64` / `deserialize_option`, each `visit_some` for `deserialize_i64`
(what `WInt` / `WOpt` of the model stand for).  Visitor names are resolved through the extracted
`impl de::Visitor for …` rows, so a body that names another unit's visitor selects that unit's bodies. -/
theorem ts_bodies_ok (tg : Target) (u : TsUnit) :
    (∀ dt, Chrono.Proofs.SerdeTsBodies.genSerialize tg u dt = serialize tg u dt) ∧
    (∀ o, Chrono.Proofs.SerdeTsBodies.genSerializeOption tg u o = serialize_option tg u o) ∧
    ((Chrono.Proofs.SerdeTsBodies.deRow tg u).m = .deserialize_i64 ∧
      (Chrono.Proofs.SerdeTsBodies.deOptRow tg u).m = .deserialize_option ∧
      (Chrono.Proofs.SerdeTsBodies.someRow tg u).m = .deserialize_i64) ∧
    (∀ w, Chrono.Proofs.SerdeTsBodies.WIntOk w →
      Chrono.Proofs.SerdeTsBodies.genDeserialize tg u w = deserialize tg u w) ∧
    (∀ w, Chrono.Proofs.SerdeTsBodies.WOptOk w →
      Chrono.Proofs.SerdeTsBodies.genDeserializeOption tg u w = deserialize_option tg u w) :=
  ⟨Chrono.Proofs.SerdeTsBodies.gen_serialize_eq tg u, Chrono.Proofs.SerdeTsBodies.gen_serialize_option_eq tg u,
   Chrono.Proofs.SerdeTsBodies.methods_ok tg u, Chrono.Proofs.SerdeTsBodies.gen_deserialize_eq tg u,
   Chrono.Proofs.SerdeTsBodies.gen_deserialize_option_eq tg u⟩

/-- the 32 visitor bodies one by one: extracted term, evaluated = the model's method (for `visit_i64` on every
integer; for `visit_u64` on every `u64`) -/
theorem ts_visit_bodies_ok (v : Int) :
    Chrono.Proofs.SerdeTsBodies.evalVisitRows v = Chrono.Proofs.SerdeTsBodies.modelVisitRows v ∧
    (isU64 v → Chrono.Proofs.SerdeTsBodies.evalVisitRowsU v = Chrono.Proofs.SerdeTsBodies.modelVisitRowsU v) :=
  Chrono.Proofs.SerdeTsBodies.visit_rows_eq v

/-- non-vacuity and sensitivity of `ts_bodies_ok`: the evaluator does distinguish the operators — the
extracted `visit_u64` of `ts_milliseconds` with `/` and `%` exchanged, or with `as u32` dropped to the wrong
place, is a different function (it panics / answers differently on 1500), and the real one reads 1500 ms as
1.5 s after the epoch -/
example :
    Code.evalVisit .u64 1500 SB_utc_ts_milliseconds_u64 = Utc.MilliSecondsTimestampVisitor.visit_u64 1500 ∧
    Code.evalVisit .u64 1500 SB_utc_ts_milliseconds_u64 = .ok (.ok ⟨dateOfYo 1970 1, ⟨1, 500000000⟩⟩) ∧
    Code.evalVisit .u64 1500
      (.build .from_timestamp [(.cast (.rem .value (.lit 1000)) .i64),
        (.cast (.mul (.div .value (.lit 1000)) (.lit 1000000)) .u32)] false)
      ≠ Utc.MilliSecondsTimestampVisitor.visit_u64 1500 ∧
    Code.evalVisit .i64 (-1) (.build .from_timestamp [(.div .value (.lit 1000000)),
        (.cast (.mul (.rem .value (.lit 1000000)) (.lit 1000)) .u32)] false)
      ≠ Utc.MicroSecondsTimestampVisitor.visit_i64 (-1) := by
  decide +kernel

/-! ## the sixteen timestamp modules: what is written -/

/-- every module, every valid non-leap value: the module writes exactly the integer timestamp in its unit
(with `serialize_i64`, resp. `serialize_some` of that `i64` in the `_option` modules; `None` is written with
`serialize_none`), no intermediate overflow, no panic; only when that integer does not fit `i64` — which can
happen for the nanosecond modules alone — serialization returns an error instead -/
theorem ts_exact (tg : Target) (u : TsUnit) (dt : NaiveDT) (h : NDTInv dt) (hl : NonLeap dt) :
    serialize tg u dt = .ok ((mustWrite u dt).map .i64) ∧
    serialize_option tg u (some dt) = .ok ((mustWrite u dt).map .some) ∧
    serialize_option tg u none = .ok (.ok .none) ∧
    (u ≠ .nanos → mustWrite u dt = .ok (tsOf u dt)) := by
  obtain ⟨a1, a2, a3, a4⟩ := accessor_vals dt h hl
  have hb := fun u => (tsOf_bounds u dt h hl).2.2.2.2.1
  have mw : ∀ u, u ≠ TsUnit.nanos → mustWrite u dt = .ok (tsOf u dt) := fun u hu => by
    unfold mustWrite; rw [if_pos (hb u hu)]
  have m1 := mw .secs (by decide)
  have m2 := mw .millis (by decide)
  have m3 := mw .micros (by decide)
  have n1 : (NaiveDT.timestamp_nanos_opt dt).bind (fun o => match ok_or o with
      | .ok n => Res.ok (SR.ok (SOut.i64 n)) | .err => Res.ok SR.err) = .ok ((mustWrite .nanos dt).map .i64) := by
    rw [a4]; unfold mustWrite
    by_cases hi : isI64 (tsOf .nanos dt)
    · rw [if_pos hi, if_pos hi]; rfl
    · rw [if_neg hi, if_neg hi]; rfl
  have n2 : (NaiveDT.timestamp_nanos_opt dt).bind (fun o => match ok_or o with
      | .ok n => Res.ok (SR.ok (SOut.some n)) | .err => Res.ok SR.err) = .ok ((mustWrite .nanos dt).map .some) := by
    rw [a4]; unfold mustWrite
    by_cases hi : isI64 (tsOf .nanos dt)
    · rw [if_pos hi, if_pos hi]; rfl
    · rw [if_neg hi, if_neg hi]; rfl
  refine ⟨?_, ?_, ?_, mw u⟩
  · cases tg <;> cases u
    · show (NaiveDT.timestamp dt).bind _ = _; rw [a1, m1]; rfl
    · show (NaiveDT.timestamp_millis dt).bind _ = _; rw [a2, m2]; rfl
    · show (NaiveDT.timestamp_micros dt).bind _ = _; rw [a3, m3]; rfl
    · exact n1
    · show (NaiveDT.timestamp dt).bind _ = _; rw [a1, m1]; rfl
    · show (NaiveDT.timestamp_millis dt).bind _ = _; rw [a2, m2]; rfl
    · show (NaiveDT.timestamp_micros dt).bind _ = _; rw [a3, m3]; rfl
    · exact n1
  · cases tg <;> cases u
    · show (NaiveDT.timestamp dt).bind _ = _; rw [a1, m1]; rfl
    · show (NaiveDT.timestamp_millis dt).bind _ = _; rw [a2, m2]; rfl
    · show (NaiveDT.timestamp_micros dt).bind _ = _; rw [a3, m3]; rfl
    · exact n2
    · show (NaiveDT.timestamp dt).bind _ = _; rw [a1, m1]; rfl
    · show (NaiveDT.timestamp_millis dt).bind _ = _; rw [a2, m2]; rfl
    · show (NaiveDT.timestamp_micros dt).bind _ = _; rw [a3, m3]; rfl
    · exact n2
  · cases tg <;> cases u <;> rfl

/-- leap-second representations (nanosecond field ≥ 10⁹), which a timestamp cannot carry: the seconds
modules write the second the representation is attached to, the milli/microsecond modules continue
counting into the following second; nothing overflows or panics -/
theorem ts_exact_leap (tg : Target) (dt : NaiveDT) (h : NDTInv dt) :
    serialize tg .secs dt = .ok (.ok (.i64 (instSecs dt))) ∧
    serialize tg .millis dt = .ok (.ok (.i64 (instNs dt / 1000000))) ∧
    serialize tg .micros dt = .ok (.ok (.i64 (instNs dt / 1000))) := by
  have a1 := timestamp_spec dt h
  have a2 := timestamp_millis_spec dt h
  have a3 := timestamp_micros_spec dt h
  cases tg
  · exact ⟨by show (NaiveDT.timestamp dt).bind _ = _; rw [a1]; rfl,
      by show (NaiveDT.timestamp_millis dt).bind _ = _; rw [a2]; rfl,
      by show (NaiveDT.timestamp_micros dt).bind _ = _; rw [a3]; rfl⟩
  · exact ⟨by show (NaiveDT.timestamp dt).bind _ = _; rw [a1]; rfl,
      by show (NaiveDT.timestamp_millis dt).bind _ = _; rw [a2]; rfl,
      by show (NaiveDT.timestamp_micros dt).bind _ = _; rw [a3]; rfl⟩


/-- leap-second representations, the remaining modules (audit LOW-2): the nanosecond modules write the
position on the nanosecond line `instNs` (the fraction field ≥ 10⁹ counted as it is) when it fits `i64` and
refuse otherwise; every `_option` module writes `Some` of what its plain module writes; never a panic -/
theorem ts_exact_leap_full (tg : Target) (dt : NaiveDT) (h : NDTInv dt) :
    serialize tg .nanos dt = .ok ((if isI64 (instNs dt) then SR.ok (instNs dt) else SR.err).map .i64) ∧
    serialize_option tg .secs (some dt) = .ok (.ok (.some (instSecs dt))) ∧
    serialize_option tg .millis (some dt) = .ok (.ok (.some (instNs dt / 1000000))) ∧
    serialize_option tg .micros (some dt) = .ok (.ok (.some (instNs dt / 1000))) ∧
    serialize_option tg .nanos (some dt) =
      .ok ((if isI64 (instNs dt) then SR.ok (instNs dt) else SR.err).map .some) ∧
    serialize_option tg .nanos none = .ok (.ok .none) := by
  have a1 := timestamp_spec dt h
  have a2 := timestamp_millis_spec dt h
  have a3 := timestamp_micros_spec dt h
  have a4 : NaiveDT.timestamp_nanos_opt dt = .ok (optI64 (instNs dt)) := by
    unfold NaiveDT.timestamp_nanos_opt
    rw [a1]
    rfl
  have hin : ∀ x : Int, inI64 x = true ↔ isI64 x := by
    intro x
    unfold inI64 isI64
    have e1 : I64_MIN = -9223372036854775808 := rfl
    have e2 : I64_MAX = 9223372036854775807 := rfl
    simp only [Bool.and_eq_true, decide_eq_true_eq, e1, e2]
  have n1 : (NaiveDT.timestamp_nanos_opt dt).bind (fun o => match ok_or o with
      | .ok n => Res.ok (SR.ok (SOut.i64 n)) | .err => Res.ok SR.err) =
      .ok ((if isI64 (instNs dt) then SR.ok (instNs dt) else SR.err).map .i64) := by
    rw [a4]; unfold optI64
    by_cases hi : isI64 (instNs dt)
    · rw [if_pos hi, if_pos ((hin _).mpr hi)]; rfl
    · rw [if_neg hi, if_neg (fun hh => hi ((hin _).mp hh))]; rfl
  have n2 : (NaiveDT.timestamp_nanos_opt dt).bind (fun o => match ok_or o with
      | .ok n => Res.ok (SR.ok (SOut.some n)) | .err => Res.ok SR.err) =
      .ok ((if isI64 (instNs dt) then SR.ok (instNs dt) else SR.err).map .some) := by
    rw [a4]; unfold optI64
    by_cases hi : isI64 (instNs dt)
    · rw [if_pos hi, if_pos ((hin _).mpr hi)]; rfl
    · rw [if_neg hi, if_neg (fun hh => hi ((hin _).mp hh))]; rfl
  cases tg
  · exact ⟨n1, by show (NaiveDT.timestamp dt).bind _ = _; rw [a1]; rfl,
      by show (NaiveDT.timestamp_millis dt).bind _ = _; rw [a2]; rfl,
      by show (NaiveDT.timestamp_micros dt).bind _ = _; rw [a3]; rfl, n2, rfl⟩
  · exact ⟨n1, by show (NaiveDT.timestamp dt).bind _ = _; rw [a1]; rfl,
      by show (NaiveDT.timestamp_millis dt).bind _ = _; rw [a2]; rfl,
      by show (NaiveDT.timestamp_micros dt).bind _ = _; rw [a3]; rfl, n2, rfl⟩

/-- non-vacuity: the leap second 2015-06-30T23:59:60.5 in the nanosecond modules and an option module; a leap
representation in the last second before the 64-bit nanosecond window closes is refused -/
example :
    NDTInv ⟨dateOfYo 2015 181, ⟨86399, 1500000000⟩⟩ ∧
    serialize .utc .nanos ⟨dateOfYo 2015 181, ⟨86399, 1500000000⟩⟩ = .ok (.ok (.i64 1435708800500000000)) ∧
    serialize_option .naive .millis (some ⟨dateOfYo 2015 181, ⟨86399, 1500000000⟩⟩) = .ok (.ok (.some 1435708800500)) ∧
    serialize_option .utc .nanos (some ⟨dateOfYo 2262 101, ⟨85636, 1854775808⟩⟩) = .ok .err := by
  unfold NDTInv
  decide +kernel

/-! ## the sixteen timestamp modules: what is read -/

/-- every module, every `i64` handed to `visit_i64` and every `u64` handed to `visit_u64`: never a panic;
an error exactly when the floor second `v div (units per second)` lies outside the representable range
(in particular for every `u64` above `i64::MAX` in the seconds modules, which is refused before the
narrowing cast); otherwise the valid non-leap value exactly `v` units after the epoch (negative
fractional counts round toward −∞).  Anything that is not an integer is an error. -/
theorem ts_rejects (tg : Target) (u : TsUnit) (v : Int) :
    (isI64 v → ∃ r, deserialize tg u (.i64 v) = .ok r ∧
      (r = .err ↔ (v / perSec u < TS_MIN ∨ v / perSec u > TS_MAX)) ∧
      (∀ dt, r = .ok dt → NDTInv dt ∧ NonLeap dt ∧ instNs dt = v * nsPer u)) ∧
    (isU64 v → ∃ r, deserialize tg u (.u64 v) = .ok r ∧
      (r = .err ↔ v / perSec u > TS_MAX) ∧
      (∀ dt, r = .ok dt → NDTInv dt ∧ NonLeap dt ∧ instNs dt = v * nsPer u)) ∧
    deserialize tg u .other = .ok .err := by
  have hmin := ts_min_val
  have hmax := ts_max_val
  refine ⟨?_, ?_, de_other tg u⟩
  · intro hv
    rw [de_i64]
    exact canon_spec u v (by unfold isI64 at hv ⊢; cases u <;> (simp only [perSec]; omega))
  · intro hv
    rw [de_u64 tg u v hv]
    unfold isU64 at hv
    by_cases hs : u = .secs ∧ 9223372036854775807 < v
    · rw [if_pos hs]
      refine ⟨.err, rfl, ?_, fun dt hdt => by cases hdt⟩
      obtain ⟨hu, hv2⟩ := hs
      subst hu
      constructor
      · intro _; show v / 1 > TS_MAX; omega
      · intro _; rfl
    · rw [if_neg hs]
      have hq : isI64 (v / perSec u) := by
        unfold isI64
        cases u
        · have : v ≤ 9223372036854775807 := by
            by_cases hh : 9223372036854775807 < v
            · exact absurd ⟨rfl, hh⟩ hs
            · omega
          simp only [perSec]; omega
        all_goals (simp only [perSec]; omega)
      obtain ⟨r, r1, r2, r3⟩ := canon_spec u v hq
      refine ⟨r, r1, ?_, r3⟩
      rw [r2]
      have : ¬ (v / perSec u < TS_MIN) := by cases u <;> (simp only [perSec]; omega)
      constructor
      · intro hh; rcases hh with hh | hh
        · exact absurd hh this
        · exact hh
      · intro hh; exact Or.inr hh

/-- the eight `_option` modules read `Some(integer)` with the visitor of the plain module of the *same*
target and unit, `None` (and the unit value) as `None`, and refuse everything else -/
theorem ts_option_reads (tg : Target) (u : TsUnit) :
    (∀ x, deserialize_option tg u (.some x) = (deserialize tg u x).bind fun r => .ok (r.map some)) ∧
    deserialize_option tg u .none = .ok (.ok none) ∧ deserialize_option tg u .unit = .ok (.ok none) ∧
    deserialize_option tg u .other = .ok .err :=
  ⟨fun x => de_option_eq tg u (.some x), de_option_eq tg u .none, de_option_eq tg u .unit,
    de_option_eq tg u .other⟩

/-! ## the sixteen timestamp modules: round trip -/

/-- every module, every valid non-leap value whose integer timestamp fits `i64` (always, except for the
nanosecond modules outside 1677-09-21 … 2262-04-11): the integer the module writes, handed back as `i64`
or — when non-negative — as `u64`, is read as the same instant at the module's precision: the value with
its sub-second part cut down to a whole number of units (the value itself for nanoseconds) -/
theorem ts_roundtrip (tg : Target) (u : TsUnit) (dt : NaiveDT) (h : NDTInv dt) (hl : NonLeap dt)
    (hf : isI64 (tsOf u dt)) :
    deserialize tg u (.i64 (tsOf u dt)) = .ok (.ok (truncTo u dt)) ∧
    (0 ≤ tsOf u dt → deserialize tg u (.u64 (tsOf u dt)) = .ok (.ok (truncTo u dt))) ∧
    instNs (truncTo u dt) = tsOf u dt * nsPer u ∧ instNs dt - nsPer u < instNs (truncTo u dt) ∧
    instNs (truncTo u dt) ≤ instNs dt ∧ truncTo .nanos dt = dt := by
  obtain ⟨b1, b2, b3, b4, _, b6⟩ := tsOf_bounds u dt h hl
  have hr := instSecs_range dt h
  have key : ∀ r, (r = SR.err ↔ (tsOf u dt / perSec u < TS_MIN ∨ tsOf u dt / perSec u > TS_MAX)) →
      (∀ d, r = SR.ok d → NDTInv d ∧ NonLeap d ∧ instNs d = tsOf u dt * nsPer u) → r = .ok (truncTo u dt) := by
    intro r r2 r3
    cases r with
    | err => have := r2.1 rfl; rw [b1] at this; omega
    | ok d =>
      obtain ⟨c1, c2, c3⟩ := r3 d rfl
      rw [nonleap_unique d (truncTo u dt) c1 b3 c2 b4 (by rw [c3, b2])]
  obtain ⟨ti, tu, _⟩ := ts_rejects tg u (tsOf u dt)
  refine ⟨?_, ?_, b2, ?_, ?_, b6⟩
  · obtain ⟨r, r1, r2, r3⟩ := ti hf
    rw [r1, key r r2 r3]
  · intro h0
    obtain ⟨r, r1, r2, r3⟩ := tu (by unfold isI64 at hf; unfold isU64; omega)
    have r2' : r = SR.err ↔ (tsOf u dt / perSec u < TS_MIN ∨ tsOf u dt / perSec u > TS_MAX) := by
      rw [r2, b1]; constructor
      · intro hh; exact Or.inr hh
      · intro hh; omega
    rw [r1, key r r2' r3]
  · rw [b2]; unfold tsOf; cases u <;> (simp only [nsPer]; omega)
  · rw [b2]; unfold tsOf; cases u <;> (simp only [nsPer]; omega)

/-- end to end through any data format with the trusted behaviour (`Faithful`: an `i64` comes back as the
same integer, signed or — if non-negative — unsigned; `None` comes back as `None` or as the unit value), all
sixteen modules, every valid non-leap value: serialize, encode, decode, deserialize yields the value at the
module's precision; where the nanosecond count does not fit `i64` the module refuses to serialize (an error,
not a panic); `None` comes back as `None` -/
theorem ts_module_roundtrip (F : IntFormat) (hF : F.Faithful) (tg : Target) (u : TsUnit) (dt : NaiveDT)
    (h : NDTInv dt) (hl : NonLeap dt) :
    roundTrip F tg u dt = .ok (if isI64 (tsOf u dt) then .ok (truncTo u dt) else .err) ∧
    roundTripOpt F tg u (some dt) = .ok (if isI64 (tsOf u dt) then .ok (some (truncTo u dt)) else .err) ∧
    roundTripOpt F tg u none = .ok (.ok none) := by
  obtain ⟨e1, e2, e3, _⟩ := ts_exact tg u dt h hl
  obtain ⟨f1, f2, f3⟩ := hF
  refine ⟨?_, ?_, ?_⟩
  · unfold roundTrip
    rw [e1]; unfold mustWrite
    by_cases hf : isI64 (tsOf u dt)
    · rw [if_pos hf, if_pos hf]
      obtain ⟨r1, r2, _⟩ := ts_roundtrip tg u dt h hl hf
      show deserialize tg u (F.getInt (F.put (.i64 (tsOf u dt)))) = _
      rcases f1 _ hf with g | ⟨g0, g⟩
      · rw [g, r1]
      · rw [g, r2 g0]
    · rw [if_neg hf, if_neg hf]; rfl
  · unfold roundTripOpt
    rw [e2]; unfold mustWrite
    by_cases hf : isI64 (tsOf u dt)
    · rw [if_pos hf, if_pos hf]
      obtain ⟨r1, r2, _⟩ := ts_roundtrip tg u dt h hl hf
      show deserialize_option tg u (F.getOpt (F.put (.some (tsOf u dt)))) = _
      rcases f2 _ hf with g | ⟨g0, g⟩
      · rw [g, (ts_option_reads tg u).1, r1]; rfl
      · rw [g, (ts_option_reads tg u).1, r2 g0]; rfl
    · rw [if_neg hf, if_neg hf]; rfl
  · unfold roundTripOpt
    rw [e3]
    show deserialize_option tg u (F.getOpt (F.put .none)) = _
    rcases f3 with g | g
    · rw [g, (ts_option_reads tg u).2.1]
    · rw [g, (ts_option_reads tg u).2.2.1]

/-- the other direction, every module: an integer that a module accepts (from signed or unsigned input) is
exactly what the module writes for the value it built — so distinct accepted integers denote distinct values;
an accepted `u64` above `i64::MAX` (possible in the nanosecond modules only: years 2262 … 2554) is a value
the module then refuses to write -/
theorem ts_roundtrip_from (tg : Target) (u : TsUnit) (v : Int) (dt : NaiveDT) :
    (isI64 v → deserialize tg u (.i64 v) = .ok (.ok dt) → serialize tg u dt = .ok (.ok (.i64 v))) ∧
    (isU64 v → deserialize tg u (.u64 v) = .ok (.ok dt) →
      serialize tg u dt = .ok (if v ≤ 9223372036854775807 then .ok (.i64 v) else .err)) := by
  obtain ⟨ti, tu, _⟩ := ts_rejects tg u v
  have fin : NDTInv dt ∧ NonLeap dt ∧ instNs dt = v * nsPer u →
      serialize tg u dt = .ok ((if isI64 v then SR.ok v else SR.err).map .i64) := by
    intro ⟨c1, c2, c3⟩
    rw [(ts_exact tg u dt c1 c2).1]
    have e : tsOf u dt = v := by unfold tsOf; rw [c3]; cases u <;> (simp only [nsPer]; omega)
    unfold mustWrite; rw [e]
  constructor
  · intro hv hd
    obtain ⟨r, r1, _, r3⟩ := ti hv
    rw [r1] at hd; injection hd with hd
    rw [fin (r3 dt hd), if_pos hv]; rfl
  · intro hv hd
    obtain ⟨r, r1, _, r3⟩ := tu hv
    rw [r1] at hd; injection hd with hd
    rw [fin (r3 dt hd)]
    unfold isU64 at hv
    by_cases hm : v ≤ 9223372036854775807
    · rw [if_pos (by unfold isI64; omega), if_pos hm]; rfl
    · rw [if_neg (by unfold isI64; omega), if_neg hm]; rfl

/-- a leap second does not survive a timestamp (the property excepts it): 2015-06-30T23:59:60.5 is written as
second 1435708799 / millisecond 1435708800500 and read back as 23:59:59 resp. 00:00:00.5 of the next day -/
theorem leap_second_not_carried :
    let dt : NaiveDT := ⟨dateOfYo 2015 181, ⟨86399, 1500000000⟩⟩
    NDTInv dt ∧ ¬ NonLeap dt ∧
    roundTrip binLike .utc .secs dt = .ok (.ok ⟨dateOfYo 2015 181, ⟨86399, 0⟩⟩) ∧
    roundTrip jsonLike .naive .millis dt = .ok (.ok ⟨dateOfYo 2015 182, ⟨0, 500000000⟩⟩) := by
  decide +kernel

/-- LEAP VALUES THROUGH EVERY TIMESTAMP MODULE, universally (audit2 LOW-3; `leap_second_not_carried` is one
instance).  For every valid leap-second representation `dt` (nanosecond field in 10⁹..2·10⁹−1, on any second),
both targets:
* seconds modules — the integer written is the count of the second the representation is attached to (second
  :59 for everything the public constructors build), the SAME integer the non-leap value on that second with the
  fraction reduced by 10⁹ writes (the leap second collapses onto second :59's count); reading it always
  succeeds and gives the START of that second: leap second and fraction are both lost;
* milli- and microsecond modules — the fraction survives at the module's precision, counted INTO THE FOLLOWING
  second: the integer is `instNs / unit`, reading it gives the non-leap value at `instNs` cut down to the unit,
  which lies in the second after the one `dt` is attached to — or an error exactly when `dt` sits on the last
  second of the range (writable, not readable); never a panic.
The nanosecond modules are `ts_exact_leap_full` + `ts_rejects` (`instNs` itself, read back one second later). -/
theorem ts_leap_roundtrip (tg : Target) (dt : NaiveDT) (h : NDTInv dt) (hl : ¬ NonLeap dt) :
    (∃ dt', serialize tg .secs dt = .ok (.ok (.i64 (instSecs dt))) ∧
        serialize tg .secs ⟨dt.date, ⟨dt.time.secs, dt.time.frac - 1000000000⟩⟩ = serialize tg .secs dt ∧
        deserialize tg .secs (.i64 (instSecs dt)) = .ok (.ok dt') ∧ NDTInv dt' ∧ NonLeap dt' ∧
        instNs dt' = instSecs dt * 1000000000) ∧
    (∀ u, u = TsUnit.millis ∨ u = TsUnit.micros →
      ∃ r, serialize tg u dt = .ok (.ok (.i64 (instNs dt / nsPer u))) ∧
        deserialize tg u (.i64 (instNs dt / nsPer u)) = .ok r ∧
        (r = .err ↔ instSecs dt = TS_MAX) ∧
        ∀ dt', r = .ok dt' → NDTInv dt' ∧ NonLeap dt' ∧ instNs dt' = instNs dt / nsPer u * nsPer u ∧
          instSecs dt' = instSecs dt + 1) := by
  have hmin := ts_min_val
  have hmax := ts_max_val
  obtain ⟨w1, w2, w3⟩ := ts_exact_leap tg dt h
  have hr := instSecs_range dt h
  have hf : 1000000000 ≤ dt.time.frac ∧ dt.time.frac < 2000000000 := by
    unfold NonLeap at hl
    have := h.2
    unfold TValid at this
    omega
  have hns : instNs dt = instSecs dt * 1000000000 + dt.time.frac := rfl
  refine ⟨?_, ?_⟩
  · have hi : isI64 (instSecs dt) := by unfold isI64; omega
    obtain ⟨r, r1, r2, r3⟩ := (ts_rejects tg .secs (instSecs dt)).1 hi
    have hne : r ≠ .err := by
      intro he
      have := r2.1 he
      simp only [perSec] at this
      omega
    cases r with
    | err => exact absurd rfl hne
    | ok dt' =>
      obtain ⟨a, b, c⟩ := r3 dt' rfl
      refine ⟨dt', w1, ?_, r1, a, b, by rw [c]; rfl⟩
      have h' : NDTInv (⟨dt.date, ⟨dt.time.secs, dt.time.frac - 1000000000⟩⟩ : NaiveDT) := by
        refine ⟨h.1, ?_⟩
        have := h.2
        unfold TValid at this ⊢
        dsimp only
        omega
      rw [(ts_exact_leap tg _ h').1, w1]
      rfl
  · intro u hu
    have hsec : ∀ dt' : NaiveDT, NDTInv dt' → NonLeap dt' → ∀ k : Int, instNs dt' = k →
        (instSecs dt + 1) * 1000000000 ≤ k → k < (instSecs dt + 2) * 1000000000 →
        instSecs dt' = instSecs dt + 1 := by
      intro dt' a b k hk h1 h2
      have e : instNs dt' = instSecs dt' * 1000000000 + dt'.time.frac := rfl
      have := a.2
      unfold TValid at this
      unfold NonLeap at b
      omega
    rcases hu with hu | hu <;> subst hu
    · have hi : isI64 (instNs dt / nsPer .millis) := by unfold isI64; simp only [nsPer]; omega
      obtain ⟨r, r1, r2, r3⟩ := (ts_rejects tg .millis (instNs dt / nsPer .millis)).1 hi
      refine ⟨r, w2, r1, ?_, ?_⟩
      · rw [r2]; simp only [perSec, nsPer]; omega
      · intro dt' hd
        obtain ⟨a, b, c⟩ := r3 dt' hd
        refine ⟨a, b, c, hsec dt' a b _ c ?_ ?_⟩ <;> (simp only [nsPer]; omega)
    · have hi : isI64 (instNs dt / nsPer .micros) := by unfold isI64; simp only [nsPer]; omega
      obtain ⟨r, r1, r2, r3⟩ := (ts_rejects tg .micros (instNs dt / nsPer .micros)).1 hi
      refine ⟨r, w3, r1, ?_, ?_⟩
      · rw [r2]; simp only [perSec, nsPer]; omega
      · intro dt' hd
        obtain ⟨a, b, c⟩ := r3 dt' hd
        refine ⟨a, b, c, hsec dt' a b _ c ?_ ?_⟩ <;> (simp only [nsPer]; omega)

/-- non-vacuity of `ts_leap_roundtrip`: 2015-06-30T23:59:60.5 and a leap representation on the last second
of the range (where the milli/microsecond modules write but cannot read) satisfy its hypotheses -/
example :
    (NDTInv ⟨dateOfYo 2015 181, ⟨86399, 1500000000⟩⟩ ∧ ¬ NonLeap ⟨dateOfYo 2015 181, ⟨86399, 1500000000⟩⟩) ∧
    (NDTInv ⟨dateOfYo 262142 365, ⟨86399, 1999999999⟩⟩ ∧ ¬ NonLeap ⟨dateOfYo 262142 365, ⟨86399, 1999999999⟩⟩ ∧
      instSecs ⟨dateOfYo 262142 365, ⟨86399, 1999999999⟩⟩ = TS_MAX) := by
  decide +kernel

/-- both shapes of real formats satisfy the trusted behaviour as modelled: positional (`bincode`: the integer
comes back signed) and self-describing (`serde_json`: a non-negative integer comes back unsigned, `Some(n)`
and `n` share one text) -/
theorem formats_faithful : binLike.Faithful ∧ jsonLike.Faithful := by
  refine ⟨⟨fun n _ => Or.inl rfl, fun n _ => Or.inl rfl, Or.inl rfl⟩, ⟨?_, ?_, Or.inl rfl⟩⟩
  · intro n _
    by_cases hn : n < 0
    · left; show (if n < 0 then WInt.i64 n else WInt.u64 n) = _; rw [if_pos hn]
    · right; refine ⟨by omega, ?_⟩; show (if n < 0 then WInt.i64 n else WInt.u64 n) = _; rw [if_neg hn]
  · intro n _
    by_cases hn : n < 0
    · left; show WOpt.some (if n < 0 then WInt.i64 n else WInt.u64 n) = _; rw [if_pos hn]
    · right; refine ⟨by omega, ?_⟩
      show WOpt.some (if n < 0 then WInt.i64 n else WInt.u64 n) = _; rw [if_neg hn]

/-- non-vacuity for the timestamp families: a negative sub-second count in every unit through both format
shapes; the ends of the 64-bit nanosecond window and the first value beyond each; the range ends and the first
integers beyond them from signed and unsigned input; `u64` above `i64::MAX` -/
example :
    let dt : NaiveDT := ⟨dateOfYo 1969 365, ⟨86399, 999999999⟩⟩
    NDTInv dt ∧ NonLeap dt ∧
    serialize .utc .millis dt = .ok (.ok (.i64 (-1))) ∧ serialize .naive .nanos dt = .ok (.ok (.i64 (-1))) ∧
    deserialize .utc .micros (.i64 (-1)) = .ok (.ok ⟨dateOfYo 1969 365, ⟨86399, 999999000⟩⟩) ∧
    roundTrip jsonLike .naive .micros dt = .ok (.ok ⟨dateOfYo 1969 365, ⟨86399, 999999000⟩⟩) ∧
    roundTrip binLike .utc .secs dt = .ok (.ok ⟨dateOfYo 1969 365, ⟨86399, 0⟩⟩) ∧
    roundTripOpt jsonLike .utc .nanos (some dt) = .ok (.ok (some dt)) ∧
    roundTripOpt binLike .naive .millis none = .ok (.ok none) := by
  decide +kernel
example :
    serialize .utc .nanos ⟨dateOfYo 1677 264, ⟨763, 145224192⟩⟩ = .ok (.ok (.i64 (-9223372036854775808))) ∧
    serialize .utc .nanos ⟨dateOfYo 1677 264, ⟨763, 145224191⟩⟩ = .ok .err ∧
    serialize .naive .nanos ⟨dateOfYo 2262 101, ⟨85636, 854775807⟩⟩ = .ok (.ok (.i64 9223372036854775807)) ∧
    serialize_option .naive .nanos (some ⟨dateOfYo 2262 101, ⟨85636, 854775808⟩⟩) = .ok .err ∧
    roundTrip jsonLike .utc .nanos NaiveDT.MAX = .ok .err ∧
    roundTrip jsonLike .utc .micros NaiveDT.MAX = .ok (.ok ⟨Date.MAX, ⟨86399, 999999000⟩⟩) ∧
    deserialize .utc .secs (.i64 TS_MAX) = .ok (.ok ⟨Date.MAX, ⟨86399, 0⟩⟩) ∧
    deserialize .utc .secs (.u64 (TS_MAX + 1)) = .ok .err ∧
    deserialize .naive .secs (.i64 TS_MIN) = .ok (.ok NaiveDT.MIN) ∧
    deserialize .naive .secs (.i64 (TS_MIN - 1)) = .ok .err ∧
    deserialize .naive .millis (.i64 (TS_MIN * 1000 - 1)) = .ok .err ∧
    deserialize .utc .secs (.u64 18446744073709551615) = .ok .err ∧
    deserialize .naive .secs (.u64 9223372036854775808) = .ok .err ∧
    deserialize .utc .micros (.u64 18446744073709551615) = .ok .err ∧
    deserialize .utc .nanos (.u64 18446744073709551615) = .ok (.ok ⟨dateOfYo 2554 202, ⟨84873, 709551615⟩⟩) ∧
    deserialize .naive .millis (.i64 (-9223372036854775808)) = .ok .err := by
  decide +kernel

/-! ## durations: the `(i64, i32)` tuple -/

/-- every valid duration is written as a pair that fits `(i64, i32)` and is read back as itself -/
theorem delta_roundtrip (d : Delta) (h : DInv d) :
    isI64 (TimeDelta.serialize d).1 ∧ isI32 (TimeDelta.serialize d).2 ∧
    TimeDelta.deserialize (TimeDelta.serialize d) = .ok d := by
  obtain ⟨h0, h1, h2, h3⟩ := h
  unfold ns NS_MAX at h2 h3
  refine ⟨?_, ?_, ?_⟩
  · unfold TimeDelta.serialize isI64; dsimp only; omega
  · unfold TimeDelta.serialize isI32; dsimp only; omega
  · show TimeDelta.deserialize (d.secs, d.nanos) = .ok d
    rw [delta_de_eq d.secs d.nanos (by unfold isI32; omega), if_pos ⟨h0, h1, by unfold nsInRange NS_MAX; omega⟩]


/-- the same end to end through ANY tuple format that hands a pair fitting `(i64, i32)` back unchanged
(audit LOW-4: the carrier is now a parameter with a stated trusted behaviour, like the integer and text
formats): every valid duration comes back as itself -/
theorem delta_format_roundtrip (F : PairFormat) (hF : F.Faithful) (d : Delta) (h : DInv d) :
    deltaRoundTrip F d = .ok d := by
  obtain ⟨a, b, c⟩ := delta_roundtrip d h
  unfold deltaRoundTrip
  have : F.getPair (F.putPair (TimeDelta.serialize d)) = some (TimeDelta.serialize d) := hF _ _ a b
  rw [this]
  exact c

example : (⟨Int × Int, id, some⟩ : PairFormat).Faithful := fun _ _ _ _ => rfl

/-- reading any `(i64, i32)` pair: accepted exactly when the nanosecond field is in `0 .. 10⁹` and the
value lies within ±(2⁶³−1) ms, then it is that value and valid; otherwise an error (never a panic: the
result type has no such case; a negative `i32` nanosecond field becomes a large `u32` and is refused) -/
theorem delta_rejects_out_of_range (s n : Int) (hn : isI32 n) :
    TimeDelta.deserialize (s, n) =
      (if 0 ≤ n ∧ n < 1000000000 ∧ nsInRange (s * 1000000000 + n) then .ok ⟨s, n⟩ else .err) ∧
    (∀ d, TimeDelta.deserialize (s, n) = .ok d → DInv d) := by
  refine ⟨delta_de_eq s n hn, ?_⟩
  intro d hd
  rw [delta_de_eq s n hn] at hd
  split at hd
  · rename_i h
    injection hd with hd
    subst hd
    exact ⟨h.1, h.2.1, h.2.2⟩
  · cases hd

/-! ## weekday and month names -/

/-- a weekday is written as its `Display` text and read back by `FromStr`; a month as `name()` -/
theorem names_roundtrip (F : StrFormat) (hF : F.Faithful) :
    (∀ w : Weekday, strDeserialize F Weekday.parse (strSerialize F Weekday.display w) = .ok w) ∧
    (∀ m : Month, strDeserialize F Month.parse (strSerialize F Month.name m) = .ok m) := by
  constructor
  · intro w
    unfold strDeserialize strSerialize
    rw [hF]; dsimp only; rw [C19.weekday_parse_display]; rfl
  · intro m
    unfold strDeserialize strSerialize
    rw [hF]; dsimp only; rw [C19.month_parse_name]; rfl


/-- reading weekday / month names from ARBITRARY text through any faithful text format (`Deserialize for
Weekday` / `Month` = `visit_str` = `FromStr`): accepted as `w` exactly when the text, lower-cased, is the
three-letter or the full English name of `w` (`Spec.weekdayShort/Long`, `monthShort/Long`; so `"MONDAY"`,
`"mon"`, `"Mon"` all read as Monday and `"Mo"`, `"Mond"`, `" Mon"` are refused); what `Serialize` writes is one
of these (`names_roundtrip`).  The result type has no panic. -/
theorem names_deserialize_iff (F : StrFormat) (hF : F.Faithful) (s : List Nat) :
    (∀ w : Weekday, strDeserialize F Weekday.parse (F.putStr s) = .ok w ↔
      (lowerS s = weekdayShort w ∨ lowerS s = weekdayLong w)) ∧
    (∀ m : Month, strDeserialize F Month.parse (F.putStr s) = .ok m ↔
      (lowerS s = monthShort m ∨ lowerS s = monthLong m)) := by
  constructor
  · intro w
    unfold strDeserialize
    rw [hF, ← C19.weekday_parse_iff]
    dsimp only
    cases Weekday.parse s with
    | none => exact ⟨fun h => (by cases h), fun h => (by cases h)⟩
    | some v => exact ⟨fun h => (by injection h with h; rw [h]), fun h => (by injection h with h; rw [h]; rfl)⟩
  · intro m
    unfold strDeserialize
    rw [hF, ← C19.month_parse_iff]
    dsimp only
    cases Month.parse s with
    | none => exact ⟨fun h => (by cases h), fun h => (by cases h)⟩
    | some v => exact ⟨fun h => (by injection h with h; rw [h]), fun h => (by injection h with h; rw [h]; rfl)⟩


example : lowerS (asciiBytes "MONDAY") = weekdayLong .mon ∧ lowerS (asciiBytes "sEp") = monthShort .sep ∧
    lowerS (asciiBytes "Mond") ≠ weekdayLong .mon ∧ lowerS (asciiBytes "Mond") ≠ weekdayShort .mon := by
  decide

/-! ## zone-aware date-times: what the writer cannot express (witnesses of the known findings) -/

/-- Kernel-checked witnesses of the known findings F20 and F22, independent of any reader: the text written
for a zone-aware value does not determine the instant.  (F20) 12:34:06 at +01:00:50 and 12:34:06 at +01:01 —
ten seconds apart — are both written "2014-07-24T12:34:06+01:01": the offset is rounded to whole minutes, the
wall clock kept.  (F22) 00:00:30 with nanosecond field 1.5·10⁹ (a leap-second representation on a second
other than :59) and the ordinary 00:00:31.5 are both written "1970-01-01T00:00:31.500Z".  So no reader can
restore the instant for offsets with a seconds part, nor such leap representations; for whole-minute offsets
and leap seconds on :59 the round trip is `string_forms_roundtrip_datetime` below. -/
theorem datetime_text_collisions :
    DateTimeStr.serialize ⟨⟨dateOfYo 2014 205, ⟨41596, 0⟩⟩, 3650⟩ = .ok (some [50, 48, 49, 52, 45, 48, 55, 45, 50, 52, 84, 49, 50, 58, 51, 52, 58, 48, 54, 43, 48, 49, 58, 48, 49]) ∧
    DateTimeStr.serialize ⟨⟨dateOfYo 2014 205, ⟨41586, 0⟩⟩, 3660⟩ = .ok (some [50, 48, 49, 52, 45, 48, 55, 45, 50, 52, 84, 49, 50, 58, 51, 52, 58, 48, 54, 43, 48, 49, 58, 48, 49]) ∧
    zonedInstNs ⟨⟨dateOfYo 2014 205, ⟨41596, 0⟩⟩, 3650⟩ - zonedInstNs ⟨⟨dateOfYo 2014 205, ⟨41586, 0⟩⟩, 3660⟩
      = 10 * 1000000000 ∧
    DateTimeStr.serialize ⟨⟨dateOfYo 1970 1, ⟨30, 1500000000⟩⟩, 0⟩ = .ok (some [49, 57, 55, 48, 45, 48, 49, 45, 48, 49, 84, 48, 48, 58, 48, 48, 58, 51, 49, 46, 53, 48, 48, 90]) ∧
    DateTimeStr.serialize ⟨⟨dateOfYo 1970 1, ⟨31, 500000000⟩⟩, 0⟩ = .ok (some [49, 57, 55, 48, 45, 48, 49, 45, 48, 49, 84, 48, 48, 58, 48, 48, 58, 51, 49, 46, 53, 48, 48, 90]) := by
  decide +kernel

/-- Kernel-checked witnesses of the known findings F21, F23, F24 on the writer side (that the reader refuses
these texts is compared with the crate on every run, ops `sd.dt.de`): serializing never fails or panics at
the range ends (finding F06, repaired), but (F21) `MAX_UTC` seen at +01:00 is written with the year +262143,
which is no `NaiveDate`; (F23) an offset of +23:59:59 is written "+24:00", outside the reader's ±23:59;
(F24) `MIN_UTC` seen at +00:00:31 is written "…T00:00:31+00:01", i.e. as an instant 29 s before `MIN_UTC`. -/
theorem datetime_text_beyond_reader :
    DateTimeStr.serialize ⟨NaiveDT.MAX, 3600⟩ = .ok (some [43, 50, 54, 50, 49, 52, 51, 45, 48, 49, 45, 48, 49, 84, 48, 48, 58, 53, 57, 58, 53, 57, 46, 57, 57, 57, 57, 57, 57, 57, 57, 57, 43, 48, 49, 58, 48, 48]) ∧
    DateTimeStr.serialize ⟨NaiveDT.MIN, -3600⟩ = .ok (some [45, 50, 54, 50, 49, 52, 52, 45, 49, 50, 45, 51, 49, 84, 50, 51, 58, 48, 48, 58, 48, 48, 45, 48, 49, 58, 48, 48]) ∧
    DateTimeStr.serialize ⟨⟨dateOfYo 1970 2, ⟨0, 0⟩⟩, 86399⟩ = .ok (some [49, 57, 55, 48, 45, 48, 49, 45, 48, 50, 84, 50, 51, 58, 53, 57, 58, 53, 57, 43, 50, 52, 58, 48, 48]) ∧
    DateTimeStr.serialize ⟨NaiveDT.MIN, 31⟩ = .ok (some [45, 50, 54, 50, 49, 52, 51, 45, 48, 49, 45, 48, 49, 84, 48, 48, 58, 48, 48, 58, 51, 49, 43, 48, 48, 58, 48, 49]) := by
  decide +kernel

/-! ## string forms of dates, times and date-times -/

/-- **NaiveDate** through any faithful text format.  `Serialize for NaiveDate` is `collect_str` of the
`Debug` form (`TextForms.date_debug`), `Deserialize` is `visit_str` = `FromStr` (`TextForms.date_from_str`),
both the functions Props/C09 is about.  For every date of the supported range: serializing succeeds and
stores the text `[sign]YYYY-MM-DD` of Spec/TextFormsSpec.lean, and deserializing what was stored gives the
date back (no error, no panic).  No restriction beyond validity. -/
theorem string_forms_roundtrip_date (F : StrFormat) (hF : F.Faithful) (d : Date) (hd : DateInv d) :
    strSerializeW F NaiveDateStr.serialize d = .ok (.ok (F.putStr (dateTextOf d))) ∧
    strRoundTrip F NaiveDateStr.serialize NaiveDateStr.visit_str d = .ok (.ok d) := by
  obtain ⟨hw, hr⟩ := C09.roundtrip_NaiveDate d hd
  obtain ⟨a, _, c⟩ := glue_roundtrip F hF NaiveDateStr.serialize NaiveDateStr.visit_str d d _ hw
    (visitOf_ok _ _ hr)
  exact ⟨a, c⟩

/-- **NaiveTime** through any faithful text format (`collect_str(&self)`: `Display`, which forwards to
`Debug` = `TextForms.time_debug`; `visit_str` = `FromStr` = `TextForms.time_from_str`).  Domain: every time
of day whose leap-second representation, if any, sits on a second :59 (`TStrict`, the domain of C09: what
`from_hms_nano_opt` and the parsers build; `Timelike::with_nanosecond` can put a nanosecond field ≥ 10⁹ on any
second).  Such a value prints as the following second and does not come back — known finding F22, excluded
here by `TStrict` and characterised for every such value by `time_roundtrip_nonstrict` / `time_roundtrip_any`. -/
theorem string_forms_roundtrip_time (F : StrFormat) (hF : F.Faithful) (t : Time) (ht : TStrict t) :
    strSerializeW F NaiveTimeStr.serialize t = .ok (.ok (F.putStr (timeText t))) ∧
    strRoundTrip F NaiveTimeStr.serialize NaiveTimeStr.visit_str t = .ok (.ok t) := by
  obtain ⟨hw, hr⟩ := C09.roundtrip_NaiveTime t ht
  obtain ⟨a, _, c⟩ := glue_roundtrip F hF NaiveTimeStr.serialize NaiveTimeStr.visit_str t t _ hw
    (visitOf_ok (.ok (TextForms.time_from_str (timeText t))) t (by rw [hr]))
  exact ⟨a, c⟩

/-- **NaiveDateTime** through any faithful text format (`collect_str` of the `Debug` form, date `T` time =
`TextForms.naive_debug`; `visit_str` = `FromStr` = `TextForms.naive_from_str`).  Domain: every valid value
with a leap second only on second :59 (F22 as for `NaiveTime`).  The `Display` form, which `FromStr` refuses
(known finding F13), is not what serde writes. -/
theorem string_forms_roundtrip_naive (F : StrFormat) (hF : F.Faithful) (dt : NaiveDT) (h : NDTInv dt)
    (hs : TStrict dt.time) :
    strSerializeW F NaiveDateTimeStr.serialize dt = .ok (.ok (F.putStr (naiveText 84 dt))) ∧
    strRoundTrip F NaiveDateTimeStr.serialize NaiveDateTimeStr.visit_str dt = .ok (.ok dt) := by
  obtain ⟨hw, hr⟩ := C09.roundtrip_NaiveDateTime_debug dt h hs
  obtain ⟨a, _, c⟩ := glue_roundtrip F hF NaiveDateTimeStr.serialize NaiveDateTimeStr.visit_str dt dt _ hw
    (visitOf_ok _ _ hr)
  exact ⟨a, c⟩

/-- **DateTime<Tz>** (given by its UTC reading and its fixed offset `offset.fix()`) through any faithful text
format.  The writer is `write_rfc3339(overflowing_naive_local, offset, AutoSi, use_z = true)`
(`DateTimeStr.serialize`), the reader `FromStr for DateTime<FixedOffset>` (`TextForms.fixed_from_str`, the
relaxed reader of C09 — not `parse_from_rfc3339`), followed by `with_timezone(&Utc)` when the target is
`DateTime<Utc>`.  Domain = the domain of `C09.roundtrip_DateTime_FixedOffset`:
  * the offset is a whole number of minutes, less than a day (`WholeMinute`; otherwise F20: the offset is
    rounded and the instant moves, F23: ±23:59:30 and beyond is written `24:00`, F24);
  * a leap second sits on second :59 (`TStrict`; otherwise F22);
  * the wall clock is inside `NaiveDate`'s range (`naive_local z = .ok l`; otherwise F21 / F25: written, but
    refused by the reader).
Then: serializing succeeds and stores the wall clock as date `T` time followed by `Z` (offset zero) or
`+hh:mm` / `-hh:mm`; read as `DateTime<FixedOffset>` it is the same value (same instant, same offset); read
as `DateTime<Utc>` it is the same instant at offset zero. -/
theorem string_forms_roundtrip_datetime (F : StrFormat) (hF : F.Faithful) (z : Zoned) (hz : ZInv z)
    (hm : WholeMinute z.off) (hs : TStrict z.utc.time) (l : NaiveDT) (hl : Zoned.naive_local z = .ok l) :
    strSerializeW F DateTimeStr.serialize z = .ok (.ok (F.putStr (naiveText 84 l ++ zoneText z.off))) ∧
    strRoundTrip F DateTimeStr.serialize DateTimeStr.deserialize_fixed z = .ok (.ok z) ∧
    strRoundTrip F DateTimeStr.serialize DateTimeStr.deserialize_utc z = .ok (.ok ⟨z.utc, 0⟩) := by
  have hw := serde_datetime_text z hz hm hs l hl
  have hr := serde_datetime_read z hz hm hs l hl
  have hv : DateTimeStr.visit_str (naiveText 84 l ++ zoneText z.off) = .ok (.ok z) := visitOf_ok _ _ hr
  obtain ⟨a, _, c⟩ := glue_roundtrip F hF DateTimeStr.serialize DateTimeStr.deserialize_fixed z z _ hw hv
  obtain ⟨_, _, e⟩ := glue_roundtrip F hF DateTimeStr.serialize DateTimeStr.deserialize_utc z ⟨z.utc, 0⟩ _ hw
    (by unfold DateTimeStr.deserialize_utc; rw [hv]; rfl)
  exact ⟨a, c, e⟩

/-- **DateTime<Utc>** (its UTC reading `u`): every valid value with a leap second only on :59 is stored as
date `T` time `Z` and comes back as itself, into `DateTime<Utc>` and into `DateTime<FixedOffset>` (offset
zero).  No range restriction: the wall clock of a UTC value is the value. -/
theorem string_forms_roundtrip_datetime_utc (F : StrFormat) (hF : F.Faithful) (u : NaiveDT) (hu : NDTInv u)
    (hs : TStrict u.time) :
    strSerializeW F DateTimeStr.serialize ⟨u, 0⟩ = .ok (.ok (F.putStr (naiveText 84 u ++ [90]))) ∧
    strRoundTrip F DateTimeStr.serialize DateTimeStr.deserialize_utc ⟨u, 0⟩ = .ok (.ok ⟨u, 0⟩) ∧
    strRoundTrip F DateTimeStr.serialize DateTimeStr.deserialize_fixed ⟨u, 0⟩ = .ok (.ok ⟨u, 0⟩) := by
  have hz : ZInv ⟨u, 0⟩ := ⟨hu, by show OffValid 0; unfold OffValid; omega⟩
  obtain ⟨a, b, c⟩ := string_forms_roundtrip_datetime F hF ⟨u, 0⟩ hz (by show WholeMinute 0; unfold WholeMinute; omega) hs u
    (naive_local_utc u hu)
  exact ⟨a, c, b⟩

/-- The restrictions are needed, reader included (known findings F20 and F22 end to end on the models): the
value 12:34:06 at +01:00:50 is read back as the *different* value 12:34:06 at +01:01 (ten seconds earlier),
and 00:00:30 with nanosecond field 1.5·10⁹ as the ordinary 00:00:31.5 — both because the text written
coincides with the text of that other value (`datetime_text_collisions`), which is in the domain of
`string_forms_roundtrip_datetime` and therefore read back as itself. -/
theorem datetime_outside_domain_comes_back_different :
    DateTimeStr.roundTrip ⟨⟨dateOfYo 2014 205, ⟨41596, 0⟩⟩, 3650⟩ = .ok (.ok ⟨⟨dateOfYo 2014 205, ⟨41586, 0⟩⟩, 3660⟩) ∧
    DateTimeStr.roundTrip ⟨⟨dateOfYo 1970 1, ⟨30, 1500000000⟩⟩, 0⟩ = .ok (.ok ⟨⟨dateOfYo 1970 1, ⟨31, 500000000⟩⟩, 0⟩) := by
  obtain ⟨c1, c2, _, c4, c5⟩ := datetime_text_collisions
  have key : ∀ (bad good : Zoned) (text : List Nat), DateTimeStr.serialize bad = .ok (some text) →
      DateTimeStr.serialize good = .ok (some text) → ZInv good → WholeMinute good.off → TStrict good.utc.time →
      (∃ l, Zoned.naive_local good = .ok l) → DateTimeStr.roundTrip bad = .ok (.ok good) := by
    intro bad good text hb hg hz hm hs ⟨l, hl⟩
    have hw := serde_datetime_text good hz hm hs l hl
    rw [hg] at hw
    injection hw with hw; injection hw with hw
    unfold DateTimeStr.roundTrip
    rw [hb]
    show DateTimeStr.visit_str text = _
    rw [hw]
    exact visitOf_ok _ _ (serde_datetime_read good hz hm hs l hl)
  refine ⟨key _ _ _ c1 c2 ?_ ?_ ?_ ⟨⟨dateOfYo 2014 205, ⟨45246, 0⟩⟩, ?_⟩,
    key _ _ _ c4 c5 ?_ ?_ ?_ ⟨⟨dateOfYo 1970 1, ⟨31, 500000000⟩⟩, ?_⟩⟩
  · unfold ZInv NDTInv OffValid; decide +kernel
  · unfold WholeMinute; decide
  · decide +kernel
  · decide +kernel
  · unfold ZInv NDTInv OffValid; decide +kernel
  · unfold WholeMinute; decide
  · decide +kernel
  · decide +kernel


/-! ## the whole domain of the string forms (audit gaps HIGH-1, MEDIUM-1, MEDIUM-2, LOW-1)

Vocabulary (Spec/SerdeStrAnySpec.lean): `shownTime t` = `t`, except that a leap-second representation on a
second other than :59 (only `with_nanosecond` builds one) is the following second with the fraction reduced by
10⁹ — the same point of the nanosecond line; `roundMin off` = the offset with its magnitude rounded to whole
minutes (half up); `zoneTextAny off` = `Z` for zero, else the sign of `off` and `hh:mm` of `roundMin off`;
`shownWallSecs z` / `shownWallFrac z` = the wall-clock second / fraction field as shown (`shownTime`);
`wallSecs`, `InRangeSecs`, `ZInv`, `wallNs`, `zonedInstNs`: Spec/ZonedSpec.lean, Spec/InstantSpec.lean. -/

/-- **NaiveTime, every well-formed value** (leap representation on any second): serializing stores the text of
the time as shown, and the round trip gives `shownTime t` — `t` itself exactly when `t` is in the domain of
`string_forms_roundtrip_time`, and in every case the same position on the nanosecond line of the day -/
theorem time_roundtrip_any (F : StrFormat) (hF : F.Faithful) (t : Time) (ht : TValid t) :
    strSerializeW F NaiveTimeStr.serialize t = .ok (.ok (F.putStr (timeText (shownTime t)))) ∧
    strRoundTrip F NaiveTimeStr.serialize NaiveTimeStr.visit_str t = .ok (.ok (shownTime t)) ∧
    pos (shownTime t) = pos t ∧ (shownTime t = t ↔ TStrict t) := by
  have hw : NaiveTimeStr.serialize t = Format.wok (timeText (shownTime t)) := by
    rw [← timeText_shown t ht]; exact Chrono.Proofs.TextForms.time_debug_text t ht
  have hr := Chrono.Proofs.TextForms.time_roundtrip (shownTime t) (shownTime_strict t ht)
  obtain ⟨a, _, c⟩ := glue_roundtrip F hF NaiveTimeStr.serialize NaiveTimeStr.visit_str t (shownTime t) _ hw
    (visitOf_ok (.ok (TextForms.time_from_str (timeText (shownTime t)))) _ (by rw [hr]))
  refine ⟨a, c, ?_, ⟨fun h => by rw [← h]; exact shownTime_strict t ht, shownTime_of_strict t⟩⟩
  obtain ⟨ss, sf⟩ := shown_secs_frac t
  unfold pos
  rw [ss, sf]
  split <;> omega

/-- **F22 characterised (NaiveTime)**: a leap-second representation on a second other than :59 is read back
as the following second with the fraction reduced by 10⁹ — a different value (the finding), the same position
on the line.  Together with `string_forms_roundtrip_time` this covers every `NaiveTime`. -/
theorem time_roundtrip_nonstrict (F : StrFormat) (hF : F.Faithful) (t : Time) (ht : TValid t)
    (hn : ¬ TStrict t) :
    strRoundTrip F NaiveTimeStr.serialize NaiveTimeStr.visit_str t =
      .ok (.ok ⟨t.secs + 1, t.frac - 1000000000⟩) ∧
    (⟨t.secs + 1, t.frac - 1000000000⟩ : Time) ≠ t ∧ TStrict ⟨t.secs + 1, t.frac - 1000000000⟩ := by
  obtain ⟨_, b, _, _⟩ := time_roundtrip_any F hF t ht
  have hs := shownTime_strict t ht
  rw [shownTime_nonstrict t ht hn] at b hs
  refine ⟨b, ?_, hs⟩
  intro h
  have : t.secs + 1 = t.secs := congrArg Time.secs h
  omega

/-- **NaiveDateTime, every valid value**: the round trip gives the same date with the time as shown; the same
instant (`instNs`) in every case, the same value exactly when the leap condition `TStrict` holds -/
theorem naive_roundtrip_any (F : StrFormat) (hF : F.Faithful) (dt : NaiveDT) (h : NDTInv dt) :
    strSerializeW F NaiveDateTimeStr.serialize dt = .ok (.ok (F.putStr (naiveText 84 dt))) ∧
    strRoundTrip F NaiveDateTimeStr.serialize NaiveDateTimeStr.visit_str dt =
      .ok (.ok ⟨dt.date, shownTime dt.time⟩) ∧
    instNs ⟨dt.date, shownTime dt.time⟩ = instNs dt ∧
    ((⟨dt.date, shownTime dt.time⟩ : NaiveDT) = dt ↔ TStrict dt.time) := by
  obtain ⟨hvd, he, ht, _⟩ := Chrono.Proofs.TextForms.naive_of_inv dt h
  have hw : NaiveDateTimeStr.serialize dt = Format.wok (naiveText 84 dt) := by
    rw [ht]
    conv => lhs; rw [he]
    exact Chrono.Proofs.TextForms.naive_debug_text _ _ hvd _ h.2
  have hr : NaiveDateTimeStr.visit_str (naiveText 84 dt) = .ok (.ok ⟨dt.date, shownTime dt.time⟩) := by
    rw [ht, timeText_shown dt.time h.2]
    have hd : dt.date = dateOfYo dt.date.year dt.date.ordinal.toNat := congrArg NaiveDT.date he
    conv => rhs; rw [hd]
    exact visitOf_ok _ _ (Chrono.Proofs.TextForms.naive_debug_roundtrip _ _ hvd _ (shownTime_strict dt.time h.2))
  obtain ⟨a, _, c⟩ := glue_roundtrip F hF NaiveDateTimeStr.serialize NaiveDateTimeStr.visit_str dt _ _ hw hr
  obtain ⟨ss, sf⟩ := shown_secs_frac dt.time
  refine ⟨a, c, ?_, ⟨fun hh => ?_, fun hh => ?_⟩⟩
  · unfold instNs instSecs
    dsimp only
    rw [ss, sf]
    split <;> omega
  · have := congrArg NaiveDT.time hh
    dsimp only at this
    rw [← this]; exact shownTime_strict dt.time h.2
  · rw [shownTime_of_strict dt.time hh]

/-- **F22 characterised (NaiveDateTime)** -/
theorem naive_roundtrip_nonstrict (F : StrFormat) (hF : F.Faithful) (dt : NaiveDT) (h : NDTInv dt)
    (hn : ¬ TStrict dt.time) :
    strRoundTrip F NaiveDateTimeStr.serialize NaiveDateTimeStr.visit_str dt =
      .ok (.ok ⟨dt.date, ⟨dt.time.secs + 1, dt.time.frac - 1000000000⟩⟩) ∧
    instNs ⟨dt.date, ⟨dt.time.secs + 1, dt.time.frac - 1000000000⟩⟩ = instNs dt := by
  obtain ⟨_, b, c, _⟩ := naive_roundtrip_any F hF dt h
  rw [shownTime_nonstrict dt.time h.2 hn] at b c
  exact ⟨b, c⟩

/-- **DateTime<Tz>, every value whose wall clock is inside `NaiveDate`'s range — ANY offset of less than a
day (seconds part included), ANY well-formed time of day.**  This is what the round trip does where
`string_forms_roundtrip_datetime` is silent (known findings F20, F22, F23, F24 as one universal statement):
  * serializing succeeds (no error, no panic) and stores the wall clock `l` (the valid naive date-time
    `wallSecs z` seconds after the epoch with `z`'s fraction field) as date `T` time, then `zoneTextAny`;
  * deserializing never panics; it answers `Err` EXACTLY when the rounded offset is a whole day (`±24:00`,
    F23) or the shown wall clock minus the rounded offset leaves the representable range (F24);
  * otherwise the value read as `DateTime<FixedOffset>` has the ROUNDED offset and the SAME wall clock
    (`wallNs`), hence an instant moved by exactly `off − roundMin off` seconds — at most 30 s either way, zero
    when the offset is a whole number of minutes; it is the unique valid value with that offset whose UTC
    reading is at second `shownWallSecs z − roundMin off` with fraction field `shownWallFrac z`;
  * read as `DateTime<Utc>` it is that instant at offset zero. -/
theorem datetime_roundtrip_any_offset (F : StrFormat) (hF : F.Faithful) (z : Zoned) (hz : ZInv z)
    (hw : InRangeSecs (wallSecs z)) :
    (∃ l, NDTInv l ∧ instSecs l = wallSecs z ∧ l.time.frac = z.utc.time.frac ∧
      strSerializeW F DateTimeStr.serialize z = .ok (.ok (F.putStr (naiveText 84 l ++ zoneTextAny z.off)))) ∧
    (∃ r, strRoundTrip F DateTimeStr.serialize DateTimeStr.deserialize_fixed z = .ok r ∧
      strRoundTrip F DateTimeStr.serialize DateTimeStr.deserialize_utc z =
        .ok (r.map fun z' => z'.with_timezone 0) ∧
      (r = .err ↔ (86400 ≤ (roundMin z.off).natAbs ∨ ¬ InRangeSecs (shownWallSecs z - roundMin z.off))) ∧
      (∀ z', r = .ok z' → z'.off = roundMin z.off ∧ ZInv z' ∧
        instSecs z'.utc = shownWallSecs z - roundMin z.off ∧ z'.utc.time.frac = shownWallFrac z ∧
        wallNs z' = wallNs z ∧
        zonedInstNs z' = zonedInstNs z + (z.off - roundMin z.off) * 1000000000)) ∧
    (-30 ≤ z.off - roundMin z.off ∧ z.off - roundMin z.off ≤ 30 ∧ (z.off % 60 = 0 → roundMin z.off = z.off)) := by
  obtain ⟨l, text, l1, l2, l3, _, hser, htext, r, hr, riff, rok⟩ := serde_rt_in_range z hz hw
  obtain ⟨b1, b2, _, b4, b5⟩ := roundMin_bounds z.off hz.2
  have h1 : strSerializeW F DateTimeStr.serialize z = .ok (.ok (F.putStr text)) := by
    unfold strSerializeW; rw [hser]; rfl
  have h2 : ∀ (v : List Nat → Res (SR Zoned)),
      strRoundTrip F DateTimeStr.serialize v z = v text := by
    intro v
    unfold strRoundTrip
    rw [h1]
    show strDeserializeV F v (F.putStr text) = _
    unfold strDeserializeV
    rw [hF]
  refine ⟨⟨l, l1, l2, l3, by rw [h1, htext]⟩, ⟨r, ?_, ?_, riff, ?_⟩, b4, b5, roundMin_whole z.off⟩
  · rw [h2]; exact hr
  · rw [h2]; unfold DateTimeStr.deserialize_utc; rw [hr]; rfl
  · intro z' hz'
    obtain ⟨c1, c2, c3, c4⟩ := rok z' hz'
    have hoff : OffValid z'.off := by
      rw [c1]
      by_contra hc
      have : r = .err := riff.mpr (Or.inl (by unfold OffValid at hc; omega))
      rw [this] at hz'; cases hz'
    have hshown : shownWallSecs z * 1000000000 + shownWallFrac z = wallSecs z * 1000000000 + z.utc.time.frac := by
      unfold shownWallSecs shownWallFrac
      split <;> omega
    refine ⟨c1, ⟨c2, hoff⟩, c3, c4, ?_, ?_⟩
    · unfold wallNs instNs
      rw [c3, c4, c1]
      unfold wallSecs at hshown
      generalize shownWallSecs z = S at *
      generalize shownWallFrac z = Fr at *
      omega
    · unfold zonedInstNs instNs
      rw [c3, c4]
      unfold wallSecs at hshown
      generalize shownWallSecs z = S at *
      generalize shownWallFrac z = Fr at *
      omega

/-- **the instant clause of the property for whole-minute offsets, WITHOUT the leap condition**: for every
zone-aware value with a whole-minute offset whose wall clock is inside `NaiveDate`'s range — leap
representation on any second — the round trip succeeds and gives the same instant (`zonedInstNs`) with the
same offset, into both targets.  So a leap representation off second :59 (F22) violates only the clause
"the original value" of the naive types, not the zone-aware clause "the same instant". -/
theorem datetime_roundtrip_instant (F : StrFormat) (hF : F.Faithful) (z : Zoned) (hz : ZInv z)
    (hm : z.off % 60 = 0) (hw : InRangeSecs (wallSecs z)) :
    ∃ z', strRoundTrip F DateTimeStr.serialize DateTimeStr.deserialize_fixed z = .ok (.ok z') ∧
      strRoundTrip F DateTimeStr.serialize DateTimeStr.deserialize_utc z = .ok (.ok ⟨z'.utc, 0⟩) ∧
      z'.off = z.off ∧ ZInv z' ∧ zonedInstNs z' = zonedInstNs z ∧
      (TStrict z.utc.time → z' = z) := by
  obtain ⟨_, ⟨r, r1, r2, riff, rok⟩, _, _, hwm⟩ := datetime_roundtrip_any_offset F hF z hz hw
  have hR := hwm hm
  have hzo : OffValid z.off := hz.2
  unfold OffValid at hzo
  obtain ⟨hu1, hu2, hu3, hu4⟩ := hz.1.2
  -- the shown wall clock minus the offset is the UTC second (or the one after, same minute): in range
  have hin : InRangeSecs (shownWallSecs z - roundMin z.off) := by
    rw [hR]
    have hur := instSecs_range z.utc hz.1
    unfold shownWallSecs wallSecs
    have hsm : Chrono.Spec.SECS_MIN = TS_MIN * 1 ∧ Chrono.Spec.SECS_MAX = TS_MAX * 1 := by decide +kernel
    unfold InRangeSecs
    have hmax := ts_max_val
    have hmin := ts_min_val
    unfold instSecs at hur ⊢
    generalize dayNumOf z.utc.date = D at *
    have : EPOCH_DAY = 719163 := rfl
    split <;> omega
  cases r with
  | err =>
    exfalso
    rcases riff.mp rfl with h | h
    · rw [hR] at h; omega
    · exact h hin
  | ok z' =>
    obtain ⟨c1, c2, c3, c4, _, c6⟩ := rok z' rfl
    refine ⟨z', r1, by rw [r2]; rfl, by rw [c1, hR], c2, by rw [c6, hR]; omega, ?_⟩
    intro hs
    have hsw : shownWallSecs z = wallSecs z ∧ shownWallFrac z = z.utc.time.frac := by
      unfold shownWallSecs shownWallFrac wallSecs
      have : ¬ (z.utc.time.frac ≥ 1000000000 ∧ (instSecs z.utc + z.off) % 60 ≠ 59) := by
        intro hh
        rcases hs.2 with h | h
        · omega
        · unfold instSecs at hh
          generalize dayNumOf z.utc.date = D at *
          have : EPOCH_DAY = 719163 := rfl
          omega
      rw [if_neg this, if_neg this]; exact ⟨by omega, rfl⟩
    have hu : z'.utc = z.utc :=
      Chrono.Proofs.ndt_unique z'.utc z.utc ⟨((Chrono.Proofs.dateInv_iff _).mp c2.1.1).1, c2.1.2⟩
        ⟨((Chrono.Proofs.dateInv_iff _).mp hz.1.1).1, hz.1.2⟩
        (by rw [c3, hsw.1, hR]; unfold wallSecs; omega) (by rw [c4, hsw.2])
    cases z' with
    | mk u o => cases z with
      | mk u2 o2 =>
        dsimp only at hu c1 hR
        rw [hu, c1, hR]

/-- **wall clock outside `NaiveDate`'s range** (values within a day of `MIN_UTC` / `MAX_UTC` seen through a
non-zero offset; known finding F21), every such value, any offset, any time of day: serializing succeeds
(finding F06, repaired) and deserializing the stored text answers `Err` — never a value, never a panic — for
both targets.  With `datetime_roundtrip_any_offset` this decides the round trip of every well-formed
zone-aware value. -/
theorem datetime_roundtrip_wall_out_of_range (F : StrFormat) (hF : F.Faithful) (z : Zoned) (hz : ZInv z)
    (ho : ¬ InRangeSecs (wallSecs z)) :
    (∃ e, strSerializeW F DateTimeStr.serialize z = .ok (.ok e)) ∧
    strRoundTrip F DateTimeStr.serialize DateTimeStr.deserialize_fixed z = .ok .err ∧
    strRoundTrip F DateTimeStr.serialize DateTimeStr.deserialize_utc z = .ok .err := by
  obtain ⟨text, hser, hread⟩ := serde_rt_out_of_range z hz ho
  have h1 : strSerializeW F DateTimeStr.serialize z = .ok (.ok (F.putStr text)) := by
    unfold strSerializeW; rw [hser]; rfl
  have h2 : ∀ (v : List Nat → Res (SR Zoned)),
      strRoundTrip F DateTimeStr.serialize v z = v text := by
    intro v
    unfold strRoundTrip
    rw [h1]
    show strDeserializeV F v (F.putStr text) = _
    unfold strDeserializeV
    rw [hF]
  refine ⟨⟨_, h1⟩, ?_, ?_⟩
  · rw [h2]; exact hread
  · rw [h2]; unfold DateTimeStr.deserialize_utc; rw [hread]; rfl


/-- **target `DateTime<Local>`** (`Deserialize for DateTime<Local>` = the same visitor followed by
`with_timezone(&Local)`; `tzOff` = the offset the process time zone prescribes at a UTC instant, ANY function),
every well-formed zone-aware value: the result is the result for the target `DateTime<FixedOffset>` with the
UTC reading kept and the offset replaced by the local one — an error or a panic exactly where that one is;
and on the domain of the property's instant clause (whole-minute offset, wall clock inside the range; leap
representation on any second) it is a value with the SAME INSTANT at the local offset — the original UTC
reading itself when the leap condition holds.  A `DateTime<Local>` *source* is the generic
`Serialize for DateTime<Tz>` on `offset.fix()`, i.e. `DateTimeStr.serialize` on its fixed offset (which may
carry seconds for local-mean-time eras: `datetime_roundtrip_any_offset`). -/
theorem datetime_roundtrip_local (F : StrFormat) (hF : F.Faithful) (tzOff : NaiveDT → Int) (z : Zoned)
    (hz : ZInv z) :
    (∃ r, strRoundTrip F DateTimeStr.serialize DateTimeStr.deserialize_fixed z = .ok r ∧
      strRoundTrip F DateTimeStr.serialize (DateTimeStr.deserialize_local tzOff) z =
        .ok (r.map fun z' => ⟨z'.utc, tzOff z'.utc⟩)) ∧
    (z.off % 60 = 0 → InRangeSecs (wallSecs z) →
      ∃ z', strRoundTrip F DateTimeStr.serialize (DateTimeStr.deserialize_local tzOff) z = .ok (.ok z') ∧
        z'.off = tzOff z'.utc ∧ zonedInstNs z' = zonedInstNs z ∧
        (TStrict z.utc.time → z' = ⟨z.utc, tzOff z.utc⟩)) := by
  have hmap := strRoundTrip_map F DateTimeStr.serialize DateTimeStr.visit_str
    (fun z' : Zoned => z'.with_timezone (tzOff z'.utc)) z
  have hloc : ∀ r, strRoundTrip F DateTimeStr.serialize DateTimeStr.deserialize_fixed z = .ok r →
      strRoundTrip F DateTimeStr.serialize (DateTimeStr.deserialize_local tzOff) z =
        .ok (r.map fun z' => ⟨z'.utc, tzOff z'.utc⟩) := by
    intro r hr
    have hr' : strRoundTrip F DateTimeStr.serialize DateTimeStr.visit_str z = .ok r := hr
    show strRoundTrip F DateTimeStr.serialize (fun s => (DateTimeStr.visit_str s).bind fun r => .ok (r.map _)) z = _
    rw [hmap, hr']
    rfl
  constructor
  · by_cases hw : InRangeSecs (wallSecs z)
    · obtain ⟨_, ⟨r, r1, _⟩, _⟩ := datetime_roundtrip_any_offset F hF z hz hw
      exact ⟨r, r1, hloc r r1⟩
    · obtain ⟨_, r1, _⟩ := datetime_roundtrip_wall_out_of_range F hF z hz hw
      exact ⟨.err, r1, hloc _ r1⟩
  · intro hm hw
    obtain ⟨z', r1, _, c1, c2, c3, c4⟩ := datetime_roundtrip_instant F hF z hz hm hw
    refine ⟨⟨z'.utc, tzOff z'.utc⟩, hloc _ r1, rfl, c3, ?_⟩
    intro hs
    rw [c4 hs]

/-- **`string_forms_roundtrip_datetime` restated with Spec predicates only** (audit LOW-1): the hypothesis is
`InRangeSecs (wallSecs z)` instead of the model call `Zoned.naive_local z = .ok l`, and the stored text is that
of the valid naive date-time `l` at second `wallSecs z` with `z`'s fraction field. -/
theorem string_forms_roundtrip_datetime_spec (F : StrFormat) (hF : F.Faithful) (z : Zoned) (hz : ZInv z)
    (hm : WholeMinute z.off) (hs : TStrict z.utc.time) (hw : InRangeSecs (wallSecs z)) :
    (∃ l, NDTInv l ∧ instSecs l = wallSecs z ∧ l.time.frac = z.utc.time.frac ∧
      strSerializeW F DateTimeStr.serialize z = .ok (.ok (F.putStr (naiveText 84 l ++ zoneText z.off)))) ∧
    strRoundTrip F DateTimeStr.serialize DateTimeStr.deserialize_fixed z = .ok (.ok z) ∧
    strRoundTrip F DateTimeStr.serialize DateTimeStr.deserialize_utc z = .ok (.ok ⟨z.utc, 0⟩) := by
  obtain ⟨l, g1, g2, g3, g4, g5, g6⟩ := Chrono.Proofs.naive_local_spec z hz
  rw [if_pos hw] at g5
  obtain ⟨a, b, c⟩ := string_forms_roundtrip_datetime F hF z hz hm hs l g5
  exact ⟨⟨l, ⟨g6.mpr hw, g2.2⟩, g3, g4, a⟩, b, c⟩

/-- non-vacuity of the whole-domain theorems, and their agreement with the recorded witnesses: the F20 value
(offset +01:00:50: rounded to +01:01, instant 10 s earlier), an offset that rounds to zero but is not written
`Z`, the F23 offset (rounded to a whole day: `Err`), the F24 value (`MIN_UTC` at +00:00:31: the shown wall
clock minus the rounded offset is before `MIN_UTC`), a leap representation on second :30, and `MAX_UTC` at
+01:00 whose wall clock is outside the range -/
example :
    ZInv ⟨⟨dateOfYo 2014 205, ⟨41596, 0⟩⟩, 3650⟩ ∧ InRangeSecs (wallSecs ⟨⟨dateOfYo 2014 205, ⟨41596, 0⟩⟩, 3650⟩) ∧
    roundMin 3650 = 3660 ∧ zoneTextAny 3650 = asciiBytes "+01:01" ∧
    roundMin 29 = 0 ∧ zoneTextAny 29 = asciiBytes "+00:00" ∧ zoneTextAny (-29) = asciiBytes "-00:00" ∧
    zoneTextAny 0 = asciiBytes "Z" ∧ roundMin (-30) = -60 ∧
    roundMin 86399 = 86400 ∧ zoneTextAny (-86370) = asciiBytes "-24:00" ∧
    ZInv ⟨NaiveDT.MIN, 31⟩ ∧ InRangeSecs (wallSecs ⟨NaiveDT.MIN, 31⟩) ∧
    ¬ InRangeSecs (shownWallSecs ⟨NaiveDT.MIN, 31⟩ - roundMin 31) ∧
    shownTime ⟨30, 1500000000⟩ = ⟨31, 500000000⟩ ∧ TValid ⟨30, 1500000000⟩ ∧ ¬ TStrict ⟨30, 1500000000⟩ ∧
    shownWallSecs ⟨⟨dateOfYo 1970 1, ⟨30, 1500000000⟩⟩, 0⟩ = 31 ∧
    ZInv ⟨NaiveDT.MAX, 3600⟩ ∧ ¬ InRangeSecs (wallSecs ⟨NaiveDT.MAX, 3600⟩) := by
  unfold ZInv NDTInv OffValid InRangeSecs
  decide +kernel


/-- **`visit_str` on ARBITRARY text** (audit LOW-5; not only on text a writer produced): for every byte
string, each of the four string-form visitors — and the `DateTime<Utc>` / `DateTime<Local>` targets built on
`DateTimeVisitor` — answers an error or a VALID value, never a panic; and so does `Deserialize` through ANY
text format (faithful or not), whatever it stored.  (Parser totality: Proofs/C15TotalL.lean, property C15.) -/
theorem visit_str_never_panics (s : List Nat) (tzOff : NaiveDT → Int) (htz : ∀ u, OffValid (tzOff u)) :
    (∃ r, NaiveDateStr.visit_str s = .ok r ∧ ∀ d, r = .ok d → DateInv d) ∧
    (∃ r, NaiveTimeStr.visit_str s = .ok r ∧ ∀ t, r = .ok t → TValid t) ∧
    (∃ r, NaiveDateTimeStr.visit_str s = .ok r ∧ ∀ dt, r = .ok dt → NDTInv dt) ∧
    (∃ r, DateTimeStr.deserialize_fixed s = .ok r ∧ ∀ z, r = .ok z → ZInv z) ∧
    (∃ r, DateTimeStr.deserialize_utc s = .ok r ∧ ∀ z, r = .ok z → ZInv z ∧ z.off = 0) ∧
    (∃ r, DateTimeStr.deserialize_local tzOff s = .ok r ∧ ∀ z, r = .ok z → ZInv z ∧ z.off = tzOff z.utc) :=
  ⟨Chrono.Proofs.SerdeVisit.date_total s, Chrono.Proofs.SerdeVisit.time_total s,
    Chrono.Proofs.SerdeVisit.naive_total s, Chrono.Proofs.SerdeVisit.fixed_total s,
    Chrono.Proofs.SerdeVisit.mapped_total s (fun _ => 0) (fun _ => by unfold OffValid; omega),
    Chrono.Proofs.SerdeVisit.mapped_total s tzOff htz⟩

/-- … through any text format, whatever was stored -/
theorem deserialize_str_never_panics (F : StrFormat) (e : F.E) (tzOff : NaiveDT → Int)
    (htz : ∀ u, OffValid (tzOff u)) :
    (∃ r, strDeserializeV F NaiveDateStr.visit_str e = .ok r ∧ ∀ d, r = .ok d → DateInv d) ∧
    (∃ r, strDeserializeV F NaiveTimeStr.visit_str e = .ok r ∧ ∀ t, r = .ok t → TValid t) ∧
    (∃ r, strDeserializeV F NaiveDateTimeStr.visit_str e = .ok r ∧ ∀ dt, r = .ok dt → NDTInv dt) ∧
    (∃ r, strDeserializeV F DateTimeStr.deserialize_fixed e = .ok r ∧ ∀ z, r = .ok z → ZInv z) ∧
    (∃ r, strDeserializeV F DateTimeStr.deserialize_utc e = .ok r ∧ ∀ z, r = .ok z → ZInv z ∧ z.off = 0) ∧
    (∃ r, strDeserializeV F (DateTimeStr.deserialize_local tzOff) e = .ok r ∧
      ∀ z, r = .ok z → ZInv z ∧ z.off = tzOff z.utc) := by
  unfold strDeserializeV
  cases F.getStr e with
  | none =>
    exact ⟨⟨_, rfl, fun _ h => by cases h⟩, ⟨_, rfl, fun _ h => by cases h⟩, ⟨_, rfl, fun _ h => by cases h⟩,
      ⟨_, rfl, fun _ h => by cases h⟩, ⟨_, rfl, fun _ h => by cases h⟩, ⟨_, rfl, fun _ h => by cases h⟩⟩
  | some s => exact visit_str_never_panics s tzOff htz

/-- **`Deserialize for DateTime<Local>` with the REAL zone behind it** (audit 2, F32 repaired by
770977e): `DateTimeStr.deserialize_local_zone zn` (Model/SerdeLocal.lean) takes the process zone as a
zone VALUE and its answer as `Res` — `Local::offset_from_utc_datetime` with the `unwrap` modelled as a
panic — instead of the total function `tzOff` above.  For EVERY zone the readers accept — TZif bytes
(`parse`), or a `TZ` rule text (`from_tz_string`, zone built as `TimeZone::from_posix_tz` does) — and
EVERY byte string: an error or a valid value carrying the offset the zone prescribes at its instant,
never a panic.  The hypothesis `htz` of `visit_str_never_panics` is thereby discharged for zones that
come from the readers (`Props.C16.accepted_offsets_representable`, `local_offset_total`).  Before the
repair this was false: `TZ=XXX-24` was accepted and every input panicked
(`Props.C16.local_panics_pinned_before_F32`). -/
theorem deserialize_local_accepted_never_panics :
    (∀ (bytes : List Nat) (zn : Tz.Zone), Tz.parse bytes = .ok zn → ∀ s : List Nat,
      ∃ r, DateTimeStr.deserialize_local_zone zn s = .ok r ∧
        ∀ z, r = .ok z → ZInv z ∧ TzL.local_offset_from_utc_datetime zn (instSecs z.utc) = .ok z.off)
    ∧ (∀ (text : List Nat) (ext : Bool) (rule : Tz.Rule), Tz.from_tz_string text ext = .ok rule →
      ∀ s : List Nat,
      ∃ r, DateTimeStr.deserialize_local_zone (Chrono.Proofs.TzValid.zoneOfRule rule) s = .ok r ∧
        ∀ z, r = .ok z → ZInv z ∧
          TzL.local_offset_from_utc_datetime (Chrono.Proofs.TzValid.zoneOfRule rule) (instSecs z.utc) = .ok z.off) :=
  ⟨fun bytes zn h s => Chrono.Proofs.SerdeLocal.local_zone_total zn
      (Chrono.Proofs.TzLocal.parsed_instantSafe bytes zn h) (Chrono.Proofs.TzLocal.parsed_within bytes zn h) s,
   fun text ext rule h s => Chrono.Proofs.SerdeLocal.local_zone_total _
      (Chrono.Proofs.TzLocal.zoneOfRule_instantSafe rule)
      (fun t ht => Chrono.Proofs.TzLocal.rule_within text ext rule h t
        (Chrono.Proofs.TzLocal.zoneOfRule_types rule t ht)) s⟩

/-- non-vacuity: the zone of `TZ=XXX-23:59:59` (the largest offset there is) is accepted, so the theorem
applies to it; `TZ=XXX-24` is refused by the reader (and `Local` falls back, property C18) -/
example : Tz.from_tz_string (Chrono.Proofs.Tz.asc "XXX-23:59:59") false
      = .ok (.fixed ⟨86399, false, some (Chrono.Proofs.Tz.asc "XXX")⟩)
    ∧ Tz.from_tz_string (Chrono.Proofs.Tz.asc "XXX-24") false = .err := by
  refine ⟨by decide +kernel, by decide +kernel⟩

/-- non-vacuity: the hypotheses are met by a non-UTF-8 byte string and a local zone at +05:30 (the parsers
are defined by well-founded recursion, so concrete readings are compared with the crate, ops `sd.*.de`, not
evaluated in the kernel) -/
example : ∃ r, DateTimeStr.deserialize_local (fun _ => 19800) [0xff, 0x00, 0x3a] = .ok r ∧
    ∀ z, r = .ok z → ZInv z ∧ z.off = 19800 :=
  (visit_str_never_panics [0xff, 0x00, 0x3a] (fun _ => 19800) (fun _ => by unfold OffValid; omega)).2.2.2.2.2

/-- non-vacuity of the string-form theorems: the first date of the range (signed six-digit year), a leap
second with a fraction, the last representable naive value, and the leap second 2016-12-31T23:59:60.5Z seen
at +05:30 (wall clock in the next year) meet the hypotheses; the texts the modelled writers produce for them -/
example :
    DateInv (dateOfYo (-262143) 1) ∧
    NaiveDateStr.serialize (dateOfYo (-262143) 1) = .ok (some (asciiBytes "-262143-01-01")) ∧
    TStrict ⟨86399, 1500000000⟩ ∧
    NaiveTimeStr.serialize ⟨86399, 1500000000⟩ = .ok (some (asciiBytes "23:59:60.500")) ∧
    NDTInv NaiveDT.MAX ∧ TStrict NaiveDT.MAX.time ∧
    NaiveDateTimeStr.serialize NaiveDT.MAX = .ok (some (asciiBytes "+262142-12-31T23:59:59.999999999")) := by
  unfold NDTInv
  decide +kernel
example :
    let z : Zoned := ⟨⟨dateOfYo 2016 366, ⟨86399, 1500000000⟩⟩, 19800⟩
    ZInv z ∧ WholeMinute z.off ∧ TStrict z.utc.time ∧
    Zoned.naive_local z = .ok ⟨dateOfYo 2017 1, ⟨19799, 1500000000⟩⟩ ∧
    DateTimeStr.serialize z = .ok (some (asciiBytes "2017-01-01T05:29:60.500+05:30")) ∧
    DateTimeStr.serialize ⟨z.utc, 0⟩ = .ok (some (asciiBytes "2016-12-31T23:59:60.500Z")) ∧
    NDTInv NaiveDT.MIN ∧ TStrict NaiveDT.MIN.time ∧
    DateTimeStr.serialize ⟨NaiveDT.MIN, 0⟩ = .ok (some (asciiBytes "-262143-01-01T00:00:00Z")) := by
  unfold ZInv NDTInv OffValid WholeMinute
  decide +kernel

/-- non-vacuity: the range ends of `TimeDelta`, a negative nanosecond field, the first pair out of range;
a faithful text format exists -/
example :
    DInv Delta.MAX ∧ DInv Delta.MIN ∧
    TimeDelta.deserialize (TimeDelta.serialize Delta.MIN) = .ok Delta.MIN ∧
    TimeDelta.deserialize (5, -1) = .err ∧ TimeDelta.deserialize (9223372036854775, 807000001) = .err ∧
    TimeDelta.deserialize (-9223372036854776, 192999999) = .err ∧
    TimeDelta.deserialize (9223372036854775807, 0) = .err := by decide +kernel
example : (⟨List Nat, id, some⟩ : StrFormat).Faithful := fun _ => rfl

end Chrono.Props.C20
