/-
  C20 — serialized forms deserialize to the same value.
  Property statements only (helper lemmas: Proofs/SerdeL.lean).
  Model: Model/SerdeTs.lean (the sixteen timestamp modules, the `TimeDelta` tuple form); names: Model/Weekday.lean.
  Specification: Spec/SerdeSpec.lean (exact integer timestamp `tsOf`, data formats as parameters).
-/
import Chrono.Proofs.SerdeL
import Chrono.Props.C19

namespace Chrono.Props.C20
open Chrono Chrono.M Chrono.M.Serde Chrono.Spec Chrono.Spec.Serde Chrono.Proofs.Serde

/-! ## durations: the `(i64, i32)` tuple -/

/-- every valid duration is written as a pair that fits `(i64, i32)` and is read back as itself -/
theorem delta_roundtrip (d : Delta) (h : DInv d) :
    isI64 (TimeDelta.serialize d).1 ∧ isI32 (TimeDelta.serialize d).2 ∧
    TimeDelta.deserialize (TimeDelta.serialize d) = .ok d := by
  obtain ⟨h0, h1, h2, h3⟩ := h
  unfold ns NS_MAX at h2 h3
  refine ⟨?_, ?_, ?_⟩
  · unfold TimeDelta.serialize isI64; dsimp only; omega
  · unfold TimeDelta.serialize isI32; dsimp only; omega
  · show TimeDelta.deserialize (d.secs, d.nanos) = .ok d
    rw [delta_de_eq d.secs d.nanos (by unfold isI32; omega), if_pos ⟨h0, h1, by unfold nsInRange NS_MAX; omega⟩]

/-- reading any `(i64, i32)` pair: accepted exactly when the nanosecond field is in `0 .. 10⁹` and the
value lies within ±(2⁶³−1) ms, then it is that value and valid; otherwise an error (never a panic: the
result type has no such case; a negative `i32` nanosecond field becomes a large `u32` and is refused) -/
theorem delta_rejects_out_of_range (s n : Int) (hn : isI32 n) :
    TimeDelta.deserialize (s, n) =
      (if 0 ≤ n ∧ n < 1000000000 ∧ nsInRange (s * 1000000000 + n) then .ok ⟨s, n⟩ else .err) ∧
    (∀ d, TimeDelta.deserialize (s, n) = .ok d → DInv d) := by
  refine ⟨delta_de_eq s n hn, ?_⟩
  intro d hd
  rw [delta_de_eq s n hn] at hd
  split at hd
  · rename_i h
    injection hd with hd
    subst hd
    exact ⟨h.1, h.2.1, h.2.2⟩
  · cases hd

/-! ## weekday and month names -/

/-- a weekday is written as its `Display` text and read back by `FromStr`; a month as `name()` -/
theorem names_roundtrip (F : StrFormat) (hF : F.Faithful) :
    (∀ w : Weekday, strDeserialize F Weekday.parse (strSerialize F Weekday.display w) = .ok w) ∧
    (∀ m : Month, strDeserialize F Month.parse (strSerialize F Month.name m) = .ok m) := by
  constructor
  · intro w
    unfold strDeserialize strSerialize
    rw [hF]; dsimp only; rw [C19.weekday_parse_display]; rfl
  · intro m
    unfold strDeserialize strSerialize
    rw [hF]; dsimp only; rw [C19.month_parse_name]; rfl

/-! ## string forms of dates, times and date-times -/

/-- The serde glue of `NaiveDate`, `NaiveTime`, `NaiveDateTime` (writer = `Debug`, reader = `FromStr`) and
`DateTime<Tz>` (writer = RFC 3339 `AutoSi` with `Z`, reader = `FromStr for DateTime<FixedOffset>`) adds nothing
to the text round trip: through any faithful text format, `deserialize (serialize v) = v` for every `v` on
which the type's own `parse (print v) = v` holds.
MISSING for the full statement `string_forms_roundtrip`: the writers / readers themselves are modelled and
proved by Props/C09 (default text forms) and Props/C10 (RFC 3339), which are not part of this file; here
`print`, `parse` and their round trip `hrt` are hypotheses, and the four types are compared on the
implementation only (harness: value after a trip through serde_json and through bincode). -/
theorem string_forms_roundtrip_partial {α : Type} (F : StrFormat) (hF : F.Faithful)
    (print : α → List Nat) (parse : List Nat → Option α) (P : α → Prop)
    (hrt : ∀ v, P v → parse (print v) = some v) (v : α) (hv : P v) :
    strDeserialize F parse (strSerialize F print v) = .ok v := by
  unfold strDeserialize strSerialize
  rw [hF]; dsimp only; rw [hrt v hv]; rfl

/-- non-vacuity: the range ends of `TimeDelta`, a negative nanosecond field, the first pair out of range;
a faithful text format exists -/
example :
    DInv Delta.MAX ∧ DInv Delta.MIN ∧
    TimeDelta.deserialize (TimeDelta.serialize Delta.MIN) = .ok Delta.MIN ∧
    TimeDelta.deserialize (5, -1) = .err ∧ TimeDelta.deserialize (9223372036854775, 807000001) = .err ∧
    TimeDelta.deserialize (-9223372036854776, 192999999) = .err ∧
    TimeDelta.deserialize (9223372036854775807, 0) = .err := by decide +kernel
example : (⟨List Nat, id, some⟩ : StrFormat).Faithful := fun _ => rfl

end Chrono.Props.C20
