/-
  C07, END-TO-END: translated code = specification (audit2/C07.md, gap M1).

  Two halves existed and were never composed:
  * `Chrono.Props.GenTime` / `GenDateTime`: the definitions tools/extractors/rust2lean.py regenerates from the Rust
    source text on every run (`Chrono.Gen.naive_time.*`, `Chrono.Gen.naive_datetime.*`) equal the hand-written
    model, under hypotheses in the vocabulary of machine types (`U32Fields`, `Inv`, `DFields`, `DateOk`);
  * `Chrono.Props.C07`: the model equals the specification, under the property's vocabulary (`TValid`, `DInv`,
    `NDTInv`).
  Here each pair is composed into ONE statement whose left-hand side is the GENERATED definition and whose
  right-hand side is the SPECIFICATION (`addLeap`, `diffLeap`, `okFields`/`ofFields`, `shiftOff`, `IsDayShift`),
  under the property's own hypotheses only.  The model no longer occurs in the statements.  `tG`, `pG`, `dG`,
  `ndtG` only rename the two-field records (model record ↦ generated record, same fields).
-/
import Chrono.Props.C07
import Chrono.Props.GenDateTime

namespace Chrono.Props.C07
open Chrono Chrono.M Chrono.Spec Chrono.Proofs Chrono.Extracted Chrono.Proofs.GenL Chrono.Proofs.GenTimeL
open Chrono.Props.GenDateTime (ndtG DateOk)

/-! ### the two hypothesis vocabularies -/

namespace GenTie

theorem dfields_of_dinv (d : Delta) (hd : DInv d) : DFields d := by
  have h1 : NS_MAX = 9223372036854775807000000 := rfl
  unfold DInv nsInRange ns at hd
  unfold DFields
  omega

theorem u32_of_tvalid (t : Time) (ht : TValid t) : U32Fields t := by
  unfold TValid at ht; unfold U32Fields; omega

theorem inv_of_tvalid (t : Time) (ht : TValid t) : GenTimeL.Inv t := by
  unfold TValid at ht; unfold GenTimeL.Inv; omega

theorem dateok_of_dateinv (d : Date) (h : DateInv d) : DateOk d := by
  have h1 : MIN_YEAR = -262143 := rfl
  have h2 : MAX_YEAR = 262142 := rfl
  unfold DateInv Date.year at h
  unfold DateOk
  omega

end GenTie
open GenTie

/-! ### addition, subtraction, difference -/

/-- translated `NaiveTime::overflowing_add_signed` = the extended-line rule, for every valid time (leap
representation on any second) and every `TimeDelta` -/
theorem gen_add_spec (t : Time) (d : Delta) (ht : TValid t) (hd : DInv d) :
    Gen.naive_time.NaiveTime.overflowing_add_signed (tG t) (dG d) = .ok (pG (addLeap t (ns d))) := by
  rw [GenTime.gen_overflowing_add_signed_eq t d (dfields_of_dinv d hd), add_spec t d ht hd]
  rfl

/-- translated `NaiveTime::overflowing_sub_signed` = addition of the negated amount with negated carry -/
theorem gen_sub_spec (t : Time) (d : Delta) (ht : TValid t) (hd : DInv d) :
    Gen.naive_time.NaiveTime.overflowing_sub_signed (tG t) (dG d) =
      .ok (tG (addLeap t (-(ns d))).1, -(addLeap t (-(ns d))).2) := by
  rw [GenTime.gen_overflowing_sub_signed_eq t d, (sub_is_add_neg t d ht hd).2]
  rfl

/-- translated `NaiveTime::signed_duration_since` = the distance on the line holding the operands' leap seconds;
hence antisymmetric (`diffLeap b a = -(diffLeap a b)` is `omega` on the definition, stated here too) -/
theorem gen_diff_spec (a b : Time) (ha : TValid a) (hb : TValid b) :
    Gen.naive_time.NaiveTime.signed_duration_since (tG a) (tG b) = .ok (dG (ofNs (diffLeap a b))) ∧
    diffLeap b a = -(diffLeap a b) := by
  refine ⟨?_, ?_⟩
  · rw [GenTime.gen_signed_duration_since_eq a b (u32_of_tvalid a ha) (u32_of_tvalid b hb),
      (diff_spec a b ha hb).1]
    rfl
  · unfold diffLeap; omega

/-! ### constructors: accepted iff the statement's rule -/

/-- translated `from_hms_nano_opt`, all `u32` arguments: accepted exactly under `okFields` -/
theorem gen_from_hms_nano_spec (h m s n : Int) (hh : 0 ≤ h ∧ h ≤ 4294967295) (hm : 0 ≤ m ∧ m ≤ 4294967295)
    (hs : 0 ≤ s ∧ s ≤ 4294967295) (hn : 0 ≤ n ∧ n ≤ 4294967295) :
    Gen.naive_time.NaiveTime.from_hms_nano_opt h m s n =
      .ok (if okFields h m s n then some (tG (ofFields h m s n)) else none) := by
  rw [GenTime.gen_from_hms_nano_opt_eq h m s n hh hm hs hn, valid_iff_hms_nano]
  split <;> rfl

theorem gen_from_hms_spec (h m s : Int) (hh : 0 ≤ h ∧ h ≤ 4294967295) (hm : 0 ≤ m ∧ m ≤ 4294967295)
    (hs : 0 ≤ s ∧ s ≤ 4294967295) :
    Gen.naive_time.NaiveTime.from_hms_opt h m s =
      .ok (if h < 24 ∧ m < 60 ∧ s < 60 then some (tG (ofFields h m s 0)) else none) := by
  rw [GenTime.gen_from_hms_opt_eq h m s hh hm hs, valid_iff_hms]
  split <;> rfl

/-- translated `from_hms_milli_opt`: the `u32` `checked_mul` overflow coincides with rejection -/
theorem gen_from_hms_milli_spec (h m s ms : Int) (hh : 0 ≤ h ∧ h ≤ 4294967295)
    (hm : 0 ≤ m ∧ m ≤ 4294967295) (hs : 0 ≤ s ∧ s ≤ 4294967295) (hn : 0 ≤ ms ∧ ms ≤ 4294967295) :
    Gen.naive_time.NaiveTime.from_hms_milli_opt h m s ms =
      .ok (if h < 24 ∧ m < 60 ∧ s < 60 ∧ (ms < 1000 ∨ (s = 59 ∧ ms < 2000))
           then some (tG (ofFields h m s (ms * 1000000))) else none) := by
  rw [GenTime.gen_from_hms_milli_opt_eq h m s ms hh hm hs hn, valid_iff_hms_milli h m s ms hn.1]
  split <;> rfl

theorem gen_from_hms_micro_spec (h m s us : Int) (hh : 0 ≤ h ∧ h ≤ 4294967295)
    (hm : 0 ≤ m ∧ m ≤ 4294967295) (hs : 0 ≤ s ∧ s ≤ 4294967295) (hn : 0 ≤ us ∧ us ≤ 4294967295) :
    Gen.naive_time.NaiveTime.from_hms_micro_opt h m s us =
      .ok (if h < 24 ∧ m < 60 ∧ s < 60 ∧ (us < 1000000 ∨ (s = 59 ∧ us < 2000000))
           then some (tG (ofFields h m s (us * 1000))) else none) := by
  rw [GenTime.gen_from_hms_micro_opt_eq h m s us hh hm hs hn, valid_iff_hms_micro h m s us hn.1]
  split <;> rfl

theorem gen_from_num_seconds_spec (secs nano : Int) :
    Gen.naive_time.NaiveTime.from_num_seconds_from_midnight_opt secs nano =
      (if secs < 86400 ∧ (nano < 1000000000 ∨ (secs % 60 = 59 ∧ nano < 2000000000))
       then some (tG ⟨secs, nano⟩) else none) := by
  rw [GenTime.gen_from_num_seconds_from_midnight_opt_eq, valid_iff_num_seconds]
  split <;> rfl

/-! ### accessors and single-field replacement -/

/-- translated accessors (the `Timelike` impl, the inherent `hms`-based forms and the trait-default
`num_seconds_from_midnight` / `hour12`) return the unique decomposition of the second of the day -/
theorem gen_accessors_spec (t : Time) (ht : TValid t) :
    Gen.naive_time.NaiveTime.Timelike.hour (tG t) = hourOf t ∧
    Gen.naive_time.NaiveTime.Timelike.minute (tG t) = minuteOf t ∧
    Gen.naive_time.NaiveTime.Timelike.second (tG t) = secondOf t ∧
    Gen.naive_time.NaiveTime.Timelike.nanosecond (tG t) = t.frac ∧
    Gen.naive_time.NaiveTime.Timelike.num_seconds_from_midnight (tG t) = t.secs ∧
    Gen.traits.NaiveTime.Timelike.num_seconds_from_midnight (tG t) = .ok t.secs ∧
    Gen.traits.NaiveTime.Timelike.hour12 (tG t) =
      (decide (12 ≤ hourOf t), if hourOf t % 12 = 0 then 12 else hourOf t % 12) ∧
    hourOf t * 3600 + minuteOf t * 60 + secondOf t = t.secs := by
  obtain ⟨e1, e2, e3, e4, _, _, _, _, _, _, e5, e6, e7, e8⟩ := accessors_spec t ht
  refine ⟨?_, ?_, ?_, ?_, ?_, ?_, ?_, e5⟩
  · rw [GenTime.gen_hour_eq, e1]
  · rw [GenTime.gen_minute_eq, e2]
  · rw [GenTime.gen_second_eq, e3]
  · rw [(GenTime.gen_nanosecond_eq t).1, e4]
  · rw [(GenTime.gen_num_seconds_from_midnight_eq t).1, e6]
  · rw [GenTime.gen_num_seconds_from_midnight_default_eq, e7]
  · rw [GenTime.gen_hour12_eq, e8]

/-- translated `with_hour / with_minute / with_second / with_nanosecond`, every `u32` argument: refused iff out of
range, otherwise the time with exactly that field replaced (`ofFields` of the three old fields and the new one;
`with_field_reads_back` says `ofFields` has exactly those fields) -/
theorem gen_with_field_spec (t : Time) (v : Int) (ht : TValid t) (hv : 0 ≤ v ∧ v ≤ 4294967295) :
    Gen.naive_time.NaiveTime.Timelike.with_hour (tG t) v =
      .ok (if v < 24 then some (tG (ofFields v (minuteOf t) (secondOf t) t.frac)) else none) ∧
    Gen.naive_time.NaiveTime.Timelike.with_minute (tG t) v =
      .ok (if v < 60 then some (tG (ofFields (hourOf t) v (secondOf t) t.frac)) else none) ∧
    Gen.naive_time.NaiveTime.Timelike.with_second (tG t) v =
      .ok (if v < 60 then some (tG (ofFields (hourOf t) (minuteOf t) v t.frac)) else none) ∧
    Gen.naive_time.NaiveTime.Timelike.with_nanosecond (tG t) v =
      (if v < 2000000000 then some (tG (ofFields (hourOf t) (minuteOf t) (secondOf t) v)) else none) := by
  obtain ⟨w1, w2, w3, w4⟩ := with_field t v ht hv.1
  refine ⟨?_, ?_, ?_, ?_⟩
  · rw [GenTime.gen_with_hour_eq t v (u32_of_tvalid t ht) hv, w1]; split <;> rfl
  · rw [GenTime.gen_with_minute_eq t v (inv_of_tvalid t ht) hv, w2]; split <;> rfl
  · rw [GenTime.gen_with_second_eq t v (inv_of_tvalid t ht) hv, w3]; split <;> rfl
  · rw [GenTime.gen_with_nanosecond_eq t v, w4]; split <;> rfl

/-! ### offset shifts -/

theorem gen_offset_spec (t : Time) (off : Int) (ht : TValid t) (ho : -86400 < off ∧ off < 86400) :
    Gen.naive_time.NaiveTime.overflowing_add_offset (tG t) off = .ok (pG (shiftOff t off)) ∧
    Gen.naive_time.NaiveTime.overflowing_sub_offset (tG t) off = .ok (pG (shiftOff t (-off))) := by
  obtain ⟨o1, o2, _⟩ := offset_shift_keeps_frac t off ht ho
  exact ⟨by rw [GenTime.gen_overflowing_add_offset_eq, o1]; rfl,
         by rw [GenTime.gen_overflowing_sub_offset_eq, o2]; rfl⟩

/-! ### date-times: the carry on the date -/

/-- translated `NaiveDateTime::checked_add_signed / checked_sub_signed` (with the translated
`NaiveDate::checked_add_signed / checked_sub_signed`, `add_days`, `TimeDelta::try_seconds`, `num_days` beneath them):
for every valid date-time (leap representation on any second) and every `TimeDelta` they never panic, the time part
is the extended-line result, the date moves by exactly carry/86400 days in the sense of `IsDayShift` (refused exactly
outside `[NaiveDate::MIN, NaiveDate::MAX]`), a result is a valid date-time -/
theorem gen_datetime_leap_carry (dt : NaiveDT) (δ : Delta) (hdt : NDTInv dt) (hδ : DInv δ) :
    (∃ r, Gen.naive_datetime.NaiveDateTime.checked_add_signed (ndtG dt) (dG δ) = .ok (r.map ndtG) ∧
      IsDayShift dt.date ((addLeap dt.time (ns δ)).2 / 86400) (r.map (·.date)) ∧
      ∀ x, r = some x → x.time = (addLeap dt.time (ns δ)).1 ∧ NDTInv x) ∧
    (∃ r, Gen.naive_datetime.NaiveDateTime.checked_sub_signed (ndtG dt) (dG δ) = .ok (r.map ndtG) ∧
      IsDayShift dt.date ((addLeap dt.time (-(ns δ))).2 / 86400) (r.map (·.date)) ∧
      ∀ x, r = some x → x.time = (addLeap dt.time (-(ns δ))).1 ∧ NDTInv x) := by
  obtain ⟨⟨r1, e1, s1, v1⟩, ⟨r2, e2, s2, v2⟩⟩ := datetime_leap_carry dt δ hdt hδ
  have hok := dateok_of_dateinv dt.date hdt.1
  refine ⟨⟨r1, ?_, s1, v1⟩, ⟨r2, ?_, s2, v2⟩⟩
  · rw [GenDateTime.gen_checked_add_signed_eq dt δ hok (dfields_of_dinv δ hδ), e1]; rfl
  · rw [GenDateTime.gen_checked_sub_signed_eq dt δ hok, e2]; rfl

/-- translated `NaiveDateTime::signed_duration_since` = whole days between the dates plus the time-of-day distance;
antisymmetric -/
theorem gen_datetime_diff (a b : NaiveDT) (ha : NDTInv a) (hb : NDTInv b) :
    Gen.naive_datetime.NaiveDateTime.signed_duration_since (ndtG a) (ndtG b) =
      .ok (dG (ofNs ((dayNumOf a.date - dayNumOf b.date) * 86400000000000 + diffLeap a.time b.time))) ∧
    (dayNumOf b.date - dayNumOf a.date) * 86400000000000 + diffLeap b.time a.time =
      -((dayNumOf a.date - dayNumOf b.date) * 86400000000000 + diffLeap a.time b.time) := by
  obtain ⟨e, _, _, anti⟩ := datetime_diff a b ha hb
  refine ⟨?_, anti⟩
  rw [GenDateTime.gen_signed_duration_since_eq a b (dateok_of_dateinv a.date ha.1)
    (dateok_of_dateinv b.date hb.1) (u32_of_tvalid a.time ha.2) (u32_of_tvalid b.time hb.2), e]
  rfl

/-- non-vacuity on the GENERATED definitions: a leap second stayed in / left, a wrap with carry, a refused
constructor, a date-time carry into the next year and a refusal at `NaiveDate::MAX` -/
example : TValid ⟨10859, 1500000000⟩ ∧ DInv ⟨0, 500000000⟩ ∧ NDTInv ⟨dateOfYo 2016 366, ⟨86399, 1500000000⟩⟩ ∧
    Gen.naive_time.NaiveTime.overflowing_add_signed ⟨10859, 1500000000⟩ ⟨0, 499999999⟩ =
      .ok (⟨10859, 1999999999⟩, 0) ∧
    Gen.naive_time.NaiveTime.overflowing_add_signed ⟨10859, 1500000000⟩ ⟨0, 500000000⟩ = .ok (⟨10860, 0⟩, 0) ∧
    Gen.naive_time.NaiveTime.overflowing_sub_signed ⟨0, 1500000000⟩ ⟨2, 0⟩ = .ok (⟨86399, 500000000⟩, 86400) ∧
    Gen.naive_time.NaiveTime.signed_duration_since ⟨14459, 1900000000⟩ ⟨10859, 1100000000⟩ =
      .ok ⟨3601, 800000000⟩ ∧
    Gen.naive_time.NaiveTime.from_hms_nano_opt 23 59 58 1000000000 = .ok none ∧
    Gen.naive_time.NaiveTime.Timelike.with_second ⟨86399, 1500000000⟩ 30 = .ok (some ⟨86370, 1500000000⟩) ∧
    Gen.naive_datetime.NaiveDateTime.checked_add_signed ⟨(dateOfYo 2016 366).yof, ⟨86399, 1500000000⟩⟩
      ⟨0, 500000000⟩ = .ok (some ⟨(dateOfYo 2017 1).yof, ⟨0, 0⟩⟩) ∧
    Gen.naive_datetime.NaiveDateTime.checked_add_signed ⟨Date.MAX.yof, ⟨86399, 1500000000⟩⟩ ⟨0, 500000000⟩ =
      .ok none := by decide +kernel

end Chrono.Props.C07
