/-
  C06, code translation tie: the definitions that tools/extractors/rust2lean.py regenerates from
  src/time_delta.rs on every run (lean/Chrono/Extracted/Gen.lean, `Chrono.Gen.time_delta.*`) equal the
  hand-written model lean/Chrono/Model/Delta.lean for all arguments of the machine types (hypotheses state the
  ranges; `dG` maps the model's `Delta` to the generated two-field structure, `rmap` maps a `Res` result).
-/
import Chrono.Proofs.GenL

namespace Chrono.Props.GenDelta
open Chrono Chrono.M Chrono.Extracted Chrono.Proofs.GenL

theorem gen_new_eq (secs nanos : Int) (h0 : 0 ≤ nanos) (h1 : nanos ≤ 4294967295) :
    Gen.time_delta.TimeDelta.new secs nanos = (Delta.new secs nanos).map dG := by
  unfold Gen.time_delta.TimeDelta.new Delta.new
  gdfacts
  split <;> split <;> first | rfl | omega | skip
  have : asI32 nanos = nanos := Proofs.asI32_id (by omega) (by omega)
  simp only [Option.map, dG, this]

theorem gen_try_seconds_eq (s : Int) :
    Gen.time_delta.TimeDelta.try_seconds s = (Delta.try_seconds s).map dG := by
  unfold Gen.time_delta.TimeDelta.try_seconds Delta.try_seconds
  exact gen_new_eq s 0 (by omega) (by omega)

theorem try_unit_aux (u n : Int) :
    (match optI64 (n * u) with
      | some r1 => Gen.time_delta.TimeDelta.try_seconds r1
      | none => none) = (Delta.try_unit u n).map dG := by
  unfold Delta.try_unit
  cases optI64 (n * u) with
  | none => rfl
  | some s => exact gen_try_seconds_eq s

theorem gen_try_weeks_eq (n : Int) :
    Gen.time_delta.TimeDelta.try_weeks n = (Delta.try_weeks n).map dG := try_unit_aux 604800 n
theorem gen_try_days_eq (n : Int) :
    Gen.time_delta.TimeDelta.try_days n = (Delta.try_days n).map dG := try_unit_aux 86400 n
theorem gen_try_hours_eq (n : Int) :
    Gen.time_delta.TimeDelta.try_hours n = (Delta.try_hours n).map dG := try_unit_aux 3600 n
theorem gen_try_minutes_eq (n : Int) :
    Gen.time_delta.TimeDelta.try_minutes n = (Delta.try_minutes n).map dG := try_unit_aux 60 n

/-- `div_mod_floor_64(this, other)` for a positive divisor is Lean's `(/, %)`; never panics -/
theorem gen_div_mod_floor_64_eq (a b : Int) (hb : 0 < b)
    (ha : -9223372036854775808 ≤ a ∧ a ≤ 9223372036854775807) :
    Gen.time_delta.div_mod_floor_64 a b = .ok (a / b, a % b) := by
  unfold Gen.time_delta.div_mod_floor_64
  have h1 : a / b ≤ 9223372036854775807 := by
    by_cases h : a < 0
    · have := Int.ediv_neg_of_neg_of_pos h hb; omega
    · have := Int.ediv_le_self b (Int.not_lt.mp h); omega
  have h2 : -9223372036854775808 ≤ a / b := by
    by_cases h : a < 0
    · have h3 : a * b ≤ a := by
        have := Int.mul_le_mul_of_nonpos_left (a := a) (b := b) (c := 1) (by omega) (by omega)
        rwa [Int.mul_one] at this
      have := Int.le_ediv_of_mul_le hb h3; omega
    · have := Int.ediv_nonneg (Int.not_lt.mp h) (Int.le_of_lt hb); omega
  rw [edivCk_ok (by omega) ⟨h2, h1⟩, bind_ok, emodCk_ok (by omega) (by omega), bind_ok]

theorem gen_try_milliseconds_eq (ms : Int) (h : -9223372036854775808 ≤ ms ∧ ms ≤ 9223372036854775807) :
    Gen.time_delta.TimeDelta.try_milliseconds ms = .ok ((Delta.try_milliseconds ms).map dG) := by
  unfold Gen.time_delta.TimeDelta.try_milliseconds Delta.try_milliseconds
  gdfacts
  split
  · rw [Proofs.ite_pos' _ _ (by omega)]; rfl
  · rw [Proofs.ite_neg' _ _ (by omega)]
    simp only [gen_div_mod_floor_64_eq ms 1000 (by omega) h, bind_ok]
    rw [Proofs.asI32_id (by omega) (by omega), ckI32_ok (by omega), bind_ok]
    rfl

theorem gen_microseconds_eq (us : Int) (h : -9223372036854775808 ≤ us ∧ us ≤ 9223372036854775807) :
    Gen.time_delta.TimeDelta.microseconds us = .ok (dG (Delta.microseconds us)) := by
  unfold Gen.time_delta.TimeDelta.microseconds Delta.microseconds
  simp only [gen_div_mod_floor_64_eq us 1000000 (by omega) h, bind_ok]
  rw [Proofs.asI32_id (by omega) (by omega), ckI32_ok (by omega), bind_ok]
  rfl

theorem gen_nanoseconds_eq (ns : Int) (h : -9223372036854775808 ≤ ns ∧ ns ≤ 9223372036854775807) :
    Gen.time_delta.TimeDelta.nanoseconds ns = .ok (dG (Delta.nanoseconds ns)) := by
  unfold Gen.time_delta.TimeDelta.nanoseconds Delta.nanoseconds
  simp only [gen_div_mod_floor_64_eq ns 1000000000 (by omega) h, bind_ok]
  rw [Proofs.asI32_id (by omega) (by omega)]
  rfl

theorem gen_num_seconds_eq (d : Delta) (hs : -9223372036854775808 ≤ d.secs ∧ d.secs ≤ 9223372036854775807) :
    Gen.time_delta.TimeDelta.num_seconds (dG d) = .ok d.num_seconds := by
  unfold Gen.time_delta.TimeDelta.num_seconds Delta.num_seconds
  gen_split
  all_goals (first | rfl | omega | (exfalso; omega))

theorem gen_subsec_nanos_eq (d : Delta) (hn : -2147483648 ≤ d.nanos ∧ d.nanos ≤ 2147483647) :
    Gen.time_delta.TimeDelta.subsec_nanos (dG d) = .ok d.subsec_nanos := by
  unfold Gen.time_delta.TimeDelta.subsec_nanos Delta.subsec_nanos
  gdfacts
  gen_split
  all_goals (first | rfl | omega | (exfalso; omega))

theorem gen_num_minutes_eq (d : Delta) (hs : -9223372036854775808 ≤ d.secs ∧ d.secs ≤ 9223372036854775807) :
    Gen.time_delta.TimeDelta.num_minutes (dG d) = .ok d.num_minutes := by
  unfold Gen.time_delta.TimeDelta.num_minutes Delta.num_minutes
  rw [gen_num_seconds_eq d hs]; rfl
theorem gen_num_hours_eq (d : Delta) (hs : -9223372036854775808 ≤ d.secs ∧ d.secs ≤ 9223372036854775807) :
    Gen.time_delta.TimeDelta.num_hours (dG d) = .ok d.num_hours := by
  unfold Gen.time_delta.TimeDelta.num_hours Delta.num_hours
  rw [gen_num_seconds_eq d hs]; rfl
theorem gen_num_days_eq (d : Delta) (hs : -9223372036854775808 ≤ d.secs ∧ d.secs ≤ 9223372036854775807) :
    Gen.time_delta.TimeDelta.num_days (dG d) = .ok d.num_days := by
  unfold Gen.time_delta.TimeDelta.num_days Delta.num_days
  rw [gen_num_seconds_eq d hs]; rfl
theorem gen_num_weeks_eq (d : Delta) (hs : -9223372036854775808 ≤ d.secs ∧ d.secs ≤ 9223372036854775807) :
    Gen.time_delta.TimeDelta.num_weeks (dG d) = .ok d.num_weeks := by
  unfold Gen.time_delta.TimeDelta.num_weeks Delta.num_weeks
  rw [gen_num_days_eq d hs]; rfl
theorem gen_subsec_millis_eq (d : Delta) (hn : -2147483648 ≤ d.nanos ∧ d.nanos ≤ 2147483647) :
    Gen.time_delta.TimeDelta.subsec_millis (dG d) = .ok d.subsec_millis := by
  unfold Gen.time_delta.TimeDelta.subsec_millis Delta.subsec_millis
  rw [gen_subsec_nanos_eq d hn]; rfl
theorem gen_subsec_micros_eq (d : Delta) (hn : -2147483648 ≤ d.nanos ∧ d.nanos ≤ 2147483647) :
    Gen.time_delta.TimeDelta.subsec_micros (dG d) = .ok d.subsec_micros := by
  unfold Gen.time_delta.TimeDelta.subsec_micros Delta.subsec_micros
  rw [gen_subsec_nanos_eq d hn]; rfl

theorem gen_num_milliseconds_eq (d : Delta) (hs : -9223372036854775808 ≤ d.secs ∧ d.secs ≤ 9223372036854775807)
    (hn : -2147483648 ≤ d.nanos ∧ d.nanos ≤ 2147483647) :
    Gen.time_delta.TimeDelta.num_milliseconds (dG d) = d.num_milliseconds := by
  unfold Gen.time_delta.TimeDelta.num_milliseconds Delta.num_milliseconds
  rw [gen_num_seconds_eq d hs, gen_subsec_nanos_eq d hn]
  rfl

theorem gen_num_microseconds_eq (d : Delta) (hs : -9223372036854775808 ≤ d.secs ∧ d.secs ≤ 9223372036854775807)
    (hn : -2147483648 ≤ d.nanos ∧ d.nanos ≤ 2147483647) :
    Gen.time_delta.TimeDelta.num_microseconds (dG d) = .ok d.num_microseconds := by
  unfold Gen.time_delta.TimeDelta.num_microseconds Delta.num_microseconds
  rw [gen_num_seconds_eq d hs, gen_subsec_nanos_eq d hn, bind_ok]
  simp only [show MICROS_PER_SEC = 1000000 from rfl, show NANOS_PER_MICRO = 1000 from rfl]
  cases optI64 (d.num_seconds * 1000000) <;> rfl

theorem gen_num_nanoseconds_eq (d : Delta) (hs : -9223372036854775808 ≤ d.secs ∧ d.secs ≤ 9223372036854775807)
    (hn : -2147483648 ≤ d.nanos ∧ d.nanos ≤ 2147483647) :
    Gen.time_delta.TimeDelta.num_nanoseconds (dG d) = .ok d.num_nanoseconds := by
  unfold Gen.time_delta.TimeDelta.num_nanoseconds Delta.num_nanoseconds
  rw [gen_num_seconds_eq d hs, gen_subsec_nanos_eq d hn, bind_ok]
  simp only [show NANOS_PER_SEC = 1000000000 from rfl]
  cases optI64 (d.num_seconds * 1000000000) <;> rfl

theorem new_asU32 (s x y : Int) (h : x = y) :
    Res.ok (Gen.time_delta.TimeDelta.new s (asU32 x)) = Res.ok (Option.map dG (Delta.new s (asU32 y))) := by
  subst h
  exact congrArg Res.ok (gen_new_eq _ _ (asU32_range _).1 (asU32_range _).2)

theorem gen_checked_add_eq (a b : Delta) :
    Gen.time_delta.TimeDelta.checked_add (dG a) (dG b) = rmap (Option.map dG) (Delta.checked_add a b) := by
  unfold Gen.time_delta.TimeDelta.checked_add Delta.checked_add
  gdfacts
  gen_split
  all_goals (first | rfl | (exfalso; omega) | exact new_asU32 _ _ _ (by omega))

theorem gen_checked_sub_eq (a b : Delta) :
    Gen.time_delta.TimeDelta.checked_sub (dG a) (dG b) = rmap (Option.map dG) (Delta.checked_sub a b) := by
  unfold Gen.time_delta.TimeDelta.checked_sub Delta.checked_sub
  gdfacts
  gen_split
  all_goals (first | rfl | (exfalso; omega) | exact new_asU32 _ _ _ (by omega))

theorem gen_neg_eq (a : Delta) :
    Gen.time_delta.TimeDelta.neg (dG a) = rmap dG (Delta.neg a) := by
  unfold Gen.time_delta.TimeDelta.neg Delta.neg
  gdfacts
  gen_split
  all_goals (first | rfl | (exfalso; omega) | exact ok_mk_eq (by omega) (by omega))

theorem gen_abs_eq (a : Delta) :
    Gen.time_delta.TimeDelta.abs (dG a) = rmap dG (Delta.abs a) := by
  unfold Gen.time_delta.TimeDelta.abs Delta.abs
  simp only [absCk_eq]
  unfold Delta.absI64
  gdfacts
  gen_split
  all_goals (first | rfl | (exfalso; omega) | exact ok_mk_eq (by omega) (by omega))

theorem gen_is_zero_eq (a : Delta) :
    Gen.time_delta.TimeDelta.is_zero (dG a) = a.is_zero := by
  unfold Gen.time_delta.TimeDelta.is_zero Delta.is_zero
  by_cases h1 : a.secs = 0 <;> by_cases h2 : a.nanos = 0 <;> simp [h1, h2]

theorem gen_checked_div_eq (a : Delta) (rhs : Int)
    (hn : -2147483648 < a.nanos ∧ a.nanos ≤ 2147483647)
    (hs : -9223372036854775808 ≤ a.secs ∧ a.secs ≤ 9223372036854775807) :
    Gen.time_delta.TimeDelta.checked_div (dG a) rhs = rmap (Option.map dG) (Delta.checked_div a rhs) := by
  unfold Gen.time_delta.TimeDelta.checked_div Delta.checked_div
  gdfacts
  have _ := hs
  have h1 := Int.natAbs_tdiv_le_natAbs a.secs rhs
  have h2 := Int.natAbs_tdiv_le_natAbs a.nanos rhs
  have h3 := Int.natAbs_tdiv_le_natAbs (Int.tmod a.secs rhs * 1000000000) rhs
  have h4 : rhs = -1 → Int.tdiv a.secs rhs = -a.secs := by
    intro h; subst h; simp
  by_cases h0 : rhs = 0
  · rw [if_pos h0, if_pos h0]; rfl
  · rw [if_neg h0, if_neg h0, tdivCk64_eq _ _ h0]
    by_cases hq : -9223372036854775808 ≤ Int.tdiv a.secs rhs ∧ Int.tdiv a.secs rhs ≤ 9223372036854775807
    · simp only [ckI64_ok hq, bind_ok, Res.bind_ok]
      rw [tmodCk_ok h0 (by omega), bind_ok]
      show Res.bind (ckI64 (Int.tmod a.secs rhs * 1000000000)) _ = rmap _ (ckI64 (Int.tmod a.secs rhs * 1000000000) >>= _)
      by_cases hp : -9223372036854775808 ≤ Int.tmod a.secs rhs * 1000000000 ∧ Int.tmod a.secs rhs * 1000000000 ≤ 9223372036854775807
      · simp only [ckI64_ok hp, bind_ok, Res.bind_ok]
        rw [tdivCk_ok h0 (by omega), bind_ok, tdivCk_ok h0 (by omega), bind_ok]
        generalize Int.tdiv a.nanos rhs + asI32 (Int.tdiv (Int.tmod a.secs rhs * 1000000000) rhs) = x
        generalize Int.tdiv a.secs rhs = q at *
        gen_split
        all_goals (first | rfl | (exfalso; omega) | exact ok_some_mk_eq (by omega) (by omega))
      · have e : ckI64 (Int.tmod a.secs rhs * 1000000000) = .panic := by rw [ckI64_def, if_neg hp]
        simp only [e, bind_panic, Res.bind_panic]
    · have e : ckI64 (Int.tdiv a.secs rhs) = .panic := by rw [ckI64_def, if_neg hq]
      simp only [e, bind_panic, Res.bind_panic]

theorem gen_checked_mul_eq (a : Delta) (rhs : Int)
    (hs : -9223372036854775808 ≤ a.secs ∧ a.secs ≤ 9223372036854775807)
    (hr : -2147483648 ≤ rhs ∧ rhs ≤ 2147483647) :
    Gen.time_delta.TimeDelta.checked_mul (dG a) rhs = rmap (Option.map dG) (Delta.checked_mul a rhs) := by
  unfold Gen.time_delta.TimeDelta.checked_mul Delta.checked_mul
  gdfacts
  have hb := mul_bound a.secs rhs 9223372036854775808 2147483648 (by omega) (by omega)
  show Res.bind (ckI64 (a.nanos * rhs)) _ = rmap _ (ckI64 (a.nanos * rhs) >>= _)
  by_cases hp : -9223372036854775808 ≤ a.nanos * rhs ∧ a.nanos * rhs ≤ 9223372036854775807
  · simp only [ckI64_ok hp, bind_ok, Res.bind_ok, gen_div_mod_floor_64_eq _ 1000000000 (by omega) hp]
    generalize a.nanos * rhs = p at *
    generalize a.secs * rhs = m at *
    rw [ckI128_ok (by omega), bind_ok, ckI128_ok (by omega), bind_ok]
    have hd : p / NANOS_PER_SEC = p / 1000000000 := rfl
    split <;> split <;> first | rfl | (exfalso; omega) | skip
    have e : asI64 (m + p / 1000000000) = m + p / 1000000000 := by
      unfold asI64; simp only; split <;> omega
    rw [e]; exact new_asU32 _ _ _ rfl
  · have e : ckI64 (a.nanos * rhs) = .panic := by rw [ckI64_def, if_neg hp]
    simp only [e, bind_panic, Res.bind_panic]

/-- the theorems are about non-trivial values: −1.5 s plus itself, divided by 4, negated -/
example : Gen.time_delta.TimeDelta.checked_add ⟨-2, 500000000⟩ ⟨-2, 500000000⟩ = .ok (some ⟨-3, 0⟩)
    ∧ Gen.time_delta.TimeDelta.checked_div ⟨-2, 500000000⟩ 4 = .ok (some ⟨-1, 625000000⟩)
    ∧ Gen.time_delta.TimeDelta.neg ⟨-2, 500000000⟩ = .ok ⟨1, 500000000⟩ := by decide

end Chrono.Props.GenDelta
