/-
  C19, code translation tie: the definitions that tools/extractors/rust2lean.py regenerates from
  src/weekday.rs and src/month.rs on every run (lean/Chrono/Extracted/Gen.lean) equal the hand-written
  models of lean/Chrono/Model/Weekday.lean, for every weekday / month.  An enum value is translated as its
  discriminant (`Weekday::Mon = 0 … Sun = 6`, `Month::January = 0 … December = 11`: `toNat` in the model).
-/
import Chrono.Extracted.Gen
import Chrono.Model.Weekday

namespace Chrono.Props.GenWeekday
open Chrono Chrono.M

theorem gen_weekday_succ_eq (w : Weekday) :
    Gen.weekday.Weekday.succ w.toNat = (w.succ.toNat : Int) := by cases w <;> rfl

theorem gen_weekday_pred_eq (w : Weekday) :
    Gen.weekday.Weekday.pred w.toNat = (w.pred.toNat : Int) := by cases w <;> rfl

theorem gen_weekday_days_since_eq (a b : Weekday) :
    Gen.weekday.Weekday.days_since a.toNat b.toNat = .ok (a.days_since b : Int) := by
  cases a <;> cases b <;> rfl

theorem gen_weekday_num_days_from_monday_eq (w : Weekday) :
    Gen.weekday.Weekday.num_days_from_monday w.toNat = .ok (w.num_days_from_monday : Int) := by
  cases w <;> rfl

theorem gen_weekday_number_from_monday_eq (w : Weekday) :
    Gen.weekday.Weekday.number_from_monday w.toNat = .ok (w.number_from_monday : Int) := by
  cases w <;> rfl

theorem gen_weekday_num_days_from_sunday_eq (w : Weekday) :
    Gen.weekday.Weekday.num_days_from_sunday w.toNat = .ok (w.num_days_from_sunday : Int) := by
  cases w <;> rfl

theorem gen_weekday_number_from_sunday_eq (w : Weekday) :
    Gen.weekday.Weekday.number_from_sunday w.toNat = .ok (w.number_from_sunday : Int) := by
  cases w <;> rfl

theorem gen_month_succ_eq (m : Month) :
    Gen.month.Month.succ m.toNat = (m.succ.toNat : Int) := by cases m <;> rfl

theorem gen_month_pred_eq (m : Month) :
    Gen.month.Month.pred m.toNat = (m.pred.toNat : Int) := by cases m <;> rfl

theorem gen_month_number_from_month_eq (m : Month) :
    Gen.month.Month.number_from_month m.toNat = (m.number_from_month : Int) := by cases m <;> rfl

/-- the hypotheses are met by every value: e.g. Sunday -/
example : Gen.weekday.Weekday.succ 6 = 0 ∧ Gen.weekday.Weekday.days_since 0 6 = .ok 1 := by decide

end Chrono.Props.GenWeekday
