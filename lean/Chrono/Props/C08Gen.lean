/-
  C08, END-TO-END: generated code = specification (audit2/C08.md gap M3, the compositions).

  `Gen.*` are the definitions tools/extractors/rust2lean.py regenerates from the Rust source TEXT on every run
  (lean/Chrono/Extracted/Gen.lean).  Props/GenDateOps.lean, GenDateTime.lean, GenTime.lean prove "generated code =
  hand-written model" for all arguments of the machine types; Props/C08.lean proves "model = specification".  The
  theorems below compose the two, so that the hand-written model drops out of the trusted base for these functions:
  the translated Rust function, applied to the packed word (`Date.yof`, the `i32` a `NaiveDate` is) of ANY date of
  the supported range and ANY argument of its machine type, returns — without panicking — the packed word of the
  specification's answer (`addMonths?`, `ymdDate?`, `yoDate?`, `WholeYears`, `IsDateOfDayNum`, `nthWeekdayDay`,
  `HasFields`), all of which are defined in Spec/ without reference to chrono's tables.
  Trusted for this tie: the translator's reading of the Rust fragment (DESIGN.md 11.x) and `Prim`'s machine
  arithmetic.  Not translated (generic / trait-dispatch code): `DateTime<Tz>` forms, `impl Add/Sub<Months>`,
  `NaiveDateTime`'s `Datelike` / `Timelike` impls, `NaiveWeek::{checked_days, days}`, `Month::num_days`,
  `Datelike::{quarter, year_ce, num_days_in_month}` — those stay on pins + the dox.* / dto.* comparison.
-/
import Chrono.Props.C08b
import Chrono.Props.GenDateTime

namespace Chrono.Props.C08
open Chrono Chrono.M Chrono.Spec Chrono.Proofs Chrono.Proofs.ZN Chrono.Proofs.DTO Chrono.Extracted
  Chrono.Extracted.DateOps Chrono.Proofs.MOps Chrono.Proofs.TStrictL Chrono.Proofs.GenL Chrono.Proofs.GenTimeL

/-- the packed word of every date of the supported range is an `i32` with a non-zero ordinal field (the
hypotheses of the code-translation theorems) -/
theorem packed_word_ok (y : Int) (o : Nat) (hy : MIN_YEAR ≤ y ∧ y ≤ MAX_YEAR) (ho : 1 ≤ o ∧ o ≤ yearLen y) :
    (-2147483648 ≤ (dateOfYo y o).yof ∧ (dateOfYo y o).yof ≤ 2147483647) ∧ 1 ≤ (dateOfYo y o).ordinal := by
  have hyl := yearLen_ge y
  obtain ⟨hf, _⟩ := flagsOf_facts y
  obtain ⟨_, h2, _⟩ := dateOfYo_fields y o (by omega)
  have hMIN : MIN_YEAR = -262143 := rfl
  have hMAX : MAX_YEAR = 262142 := rfl
  refine ⟨?_, by omega⟩
  unfold dateOfYo; dsimp only; omega

/-! ### month stepping -/

/-- the translated `NaiveDate::checked_add_months` / `checked_sub_months`, every date of the range, every `u32`
(every natural) count: the packed word of the specification's `addMonths?` answer, no panic -/
theorem code_months_spec (y : Int) (o : Nat) (hy : MIN_YEAR ≤ y ∧ y ≤ MAX_YEAR) (ho : 1 ≤ o ∧ o ≤ yearLen y)
    (n : Nat) :
    Gen.naive_date.NaiveDate.checked_add_months (dateOfYo y o).yof n
      = .ok ((addMonths? y (monthOfYo y o) (dayOfYo y o) n).map Date.yof) ∧
    Gen.naive_date.NaiveDate.checked_sub_months (dateOfYo y o).yof n
      = .ok ((addMonths? y (monthOfYo y o) (dayOfYo y o) (-(n : Int))).map Date.yof) := by
  obtain ⟨hw, _⟩ := packed_word_ok y o hy ho
  obtain ⟨a, s⟩ := months_spec y o hy ho n
  refine ⟨?_, ?_⟩
  · rw [GenDateOps.gen_checked_add_months_eq _ n hw, a]; rfl
  · rw [GenDateOps.gen_checked_sub_months_eq _ n hw, s]; rfl

/-- the translated `NaiveDateTime::checked_add_months` / `checked_sub_months`: the date-level answer with the
time of day (any two `u32` fields) kept -/
theorem code_naive_datetime_months_spec (y : Int) (o : Nat) (hy : MIN_YEAR ≤ y ∧ y ≤ MAX_YEAR)
    (ho : 1 ≤ o ∧ o ≤ yearLen y) (t : Time) (n : Nat) :
    Gen.naive_datetime.NaiveDateTime.checked_add_months ⟨(dateOfYo y o).yof, tG t⟩ n
      = .ok ((addMonths? y (monthOfYo y o) (dayOfYo y o) n).map fun d => ⟨d.yof, tG t⟩) ∧
    Gen.naive_datetime.NaiveDateTime.checked_sub_months ⟨(dateOfYo y o).yof, tG t⟩ n
      = .ok ((addMonths? y (monthOfYo y o) (dayOfYo y o) (-(n : Int))).map fun d => ⟨d.yof, tG t⟩) := by
  obtain ⟨hw, hord⟩ := packed_word_ok y o hy ho
  obtain ⟨a, s, _⟩ := naive_datetime_spec y o hy ho t 0 n 0
  dsimp only at a s
  have e1 := GenDateTime.gen_checked_add_months_eq ⟨dateOfYo y o, t⟩ n ⟨hw, hord⟩
  have e2 := GenDateTime.gen_checked_sub_months_eq ⟨dateOfYo y o, t⟩ n ⟨hw, hord⟩
  rw [a] at e1
  rw [s] at e2
  refine ⟨?_, ?_⟩
  · rw [e1]; cases addMonths? y (monthOfYo y o) (dayOfYo y o) n <;> rfl
  · rw [e2]; cases addMonths? y (monthOfYo y o) (dayOfYo y o) (-(n : Int)) <;> rfl

/-! ### field replacement -/

/-- the translated `Datelike for NaiveDate` replacements `with_year` (every `i32`, indeed every integer) and
`with_month / month0 / day / day0 / ordinal / ordinal0` (every `u32`): the packed word of the date with exactly
that field replaced if it exists in range (`ymdDate?` / `yoDate?`, see `replaced_fields`), `None` otherwise, no
panic -/
theorem code_with_field_spec (y : Int) (o : Nat) (hy : MIN_YEAR ≤ y ∧ y ≤ MAX_YEAR) (ho : 1 ≤ o ∧ o ≤ yearLen y)
    (v : Nat) (hv : v ≤ 4294967295) (y' : Int) :
    Gen.naive_date.NaiveDate.Datelike.with_year (dateOfYo y o).yof y'
      = .ok ((ymdDate? y' (monthOfYo y o) (dayOfYo y o)).map Date.yof) ∧
    Gen.naive_date.NaiveDate.Datelike.with_month (dateOfYo y o).yof v
      = .ok ((ymdDate? y v (dayOfYo y o)).map Date.yof) ∧
    Gen.naive_date.NaiveDate.Datelike.with_month0 (dateOfYo y o).yof v
      = .ok ((ymdDate? y (v + 1) (dayOfYo y o)).map Date.yof) ∧
    Gen.naive_date.NaiveDate.Datelike.with_day (dateOfYo y o).yof v
      = .ok ((ymdDate? y (monthOfYo y o) v).map Date.yof) ∧
    Gen.naive_date.NaiveDate.Datelike.with_day0 (dateOfYo y o).yof v
      = .ok ((ymdDate? y (monthOfYo y o) (v + 1)).map Date.yof) ∧
    Gen.naive_date.NaiveDate.Datelike.with_ordinal (dateOfYo y o).yof v = .ok ((yoDate? y v).map Date.yof) ∧
    Gen.naive_date.NaiveDate.Datelike.with_ordinal0 (dateOfYo y o).yof v
      = .ok ((yoDate? y (v + 1)).map Date.yof) := by
  obtain ⟨hw, _⟩ := packed_word_ok y o hy ho
  obtain ⟨w1, w2, w3, w4, w5, w6, w7⟩ := with_field_spec y o hy ho v y'
  refine ⟨?_, ?_, ?_, ?_, ?_, ?_, ?_⟩
  · rw [GenDateOps.gen_with_year_eq, w1]; rfl
  · rw [GenDateOps.gen_with_month_eq _ v hw hv, w2]; rfl
  · rw [GenDateOps.gen_with_month0_eq _ v hw hv, w3]; rfl
  · rw [GenDateOps.gen_with_day_eq _ v hw hv, w4]; rfl
  · rw [GenDateOps.gen_with_day0_eq _ v hw hv, w5]; rfl
  · rw [GenDateOps.gen_with_ordinal_eq _ v hw hv, w6]; rfl
  · rw [GenDateOps.gen_with_ordinal0_eq _ v hw hv, w7]; rfl

/-! ### whole years -/

/-- the translated `NaiveDate::years_since` (before its final `as u32`, which `years_since_fits_u32` shows to be
the identity), every pair of dates of the range: `Some k` exactly for the number of whole calendar years
elapsed, `None` exactly when `base` is after `self`; no panic -/
theorem code_years_since_spec (y1 y0 : Int) (o1 o0 : Nat) (hy1 : MIN_YEAR ≤ y1 ∧ y1 ≤ MAX_YEAR)
    (hy0 : MIN_YEAR ≤ y0 ∧ y0 ≤ MAX_YEAR) (ho1 : 1 ≤ o1 ∧ o1 ≤ yearLen y1) (ho0 : 1 ≤ o0 ∧ o0 ≤ yearLen y0) :
    ∃ r, Gen.naive_date.NaiveDate.years_since (dateOfYo y1 o1).yof (dateOfYo y0 o0).yof = .ok r ∧
      (∀ k, r = some k ↔
        WholeYears y0 (monthOfYo y0 o0) (dayOfYo y0 o0) y1 (monthOfYo y1 o1) (dayOfYo y1 o1) k) ∧
      (r = none ↔ ymdLt y1 (monthOfYo y1 o1) (dayOfYo y1 o1) y0 (monthOfYo y0 o0) (dayOfYo y0 o0)) := by
  obtain ⟨r, h1, h2, h3, _⟩ := years_since_spec y1 y0 o1 o0 hy1 hy0 ho1 ho0
  exact ⟨r, by rw [GenDateOps.gen_years_since_eq, h1], h2, h3⟩

/-! ### weeks -/

/-- the translated `NaiveDate::week` + `NaiveWeek::{checked_first_day, checked_last_day, first_day, last_day}`,
every date of the range and every first weekday: with `k` = `daysBack …` in `0..6` the distance back to the most
recent `s`, the first day is the packed word of the date with day number `n − k` (`None` exactly when that
precedes `NaiveDate::MIN`), the last day that of `n − k + 6` (`None` exactly above `NaiveDate::MAX`); the
`expect`-ing forms panic exactly on `None` -/
theorem code_week_spec (y : Int) (o : Nat) (hy : MIN_YEAR ≤ y ∧ y ≤ MAX_YEAR) (ho : 1 ≤ o ∧ o ≤ yearLen y)
    (s : Weekday) :
    ∃ rf rl,
      Gen.naive.NaiveWeek.checked_first_day (Gen.naive_date.NaiveDate.week (dateOfYo y o).yof s.toNat)
        = .ok (rf.map Date.yof) ∧
      Gen.naive.NaiveWeek.checked_last_day (Gen.naive_date.NaiveDate.week (dateOfYo y o).yof s.toNat)
        = .ok (rl.map Date.yof) ∧
      Gen.naive.NaiveWeek.first_day (Gen.naive_date.NaiveDate.week (dateOfYo y o).yof s.toNat)
        = (match rf with | some a => .ok a.yof | none => .panic) ∧
      Gen.naive.NaiveWeek.last_day (Gen.naive_date.NaiveDate.week (dateOfYo y o).yof s.toNat)
        = (match rl with | some a => .ok a.yof | none => .panic) ∧
      weekdayOf (dayNumYo y o - daysBack (weekdayOf (dayNumYo y o)) s.toNat) = s.toNat ∧
      IsDateOfDayNum rf (dayNumYo y o - daysBack (weekdayOf (dayNumYo y o)) s.toNat) ∧
      IsDateOfDayNum rl (dayNumYo y o - daysBack (weekdayOf (dayNumYo y o)) s.toNat + 6) := by
  obtain ⟨hw, hord⟩ := packed_word_ok y o hy ho
  obtain ⟨rf, rl, hf, hl, _, hwd, sf, sl, _, hfd, hld, _⟩ := week_spec y o hy ho s
  have hG : Gen.naive_date.NaiveDate.week (dateOfYo y o).yof s.toNat = GenDateOps.wG ((dateOfYo y o).week s) :=
    GenDateOps.gen_week_eq _ _
  have c1 := GenDateOps.gen_checked_first_day_eq ((dateOfYo y o).week s) hw hord
  have c2 := GenDateOps.gen_checked_last_day_eq ((dateOfYo y o).week s) hw hord
  have c3 := GenDateOps.gen_first_day_eq ((dateOfYo y o).week s) hw hord
  have c4 := GenDateOps.gen_last_day_eq ((dateOfYo y o).week s) hw hord
  rw [hf] at c1
  rw [hl] at c2
  rw [hfd] at c3
  rw [hld] at c4
  refine ⟨rf, rl, ?_, ?_, ?_, ?_, hwd, sf, sl⟩
  · rw [hG, c1]; rfl
  · rw [hG, c2]; rfl
  · rw [hG, c3]; cases rf <;> rfl
  · rw [hG, c4]; cases rl <;> rfl

/-! ### n-th weekday of a month -/

/-- the translated `NaiveDate::from_weekday_of_month_opt`, every `(i32 year, u32 month, weekday, u8 n)`: `None`
for `n = 0`, otherwise the packed word of the date `(year, month, D)` if it exists in range, `D` being the n-th
day of the month that falls on the weekday (`nth_weekday_spec` says what `nthWeekdayDay` is); no panic -/
theorem code_nth_weekday_spec (y : Int) (m : Nat) (w : Weekday) (n : Nat) (hm : m ≤ 4294967295) (hn : n ≤ 255) :
    Gen.naive_date.NaiveDate.from_weekday_of_month_opt y m w.toNat n
      = .ok ((if n = 0 then none else ymdDate? y m (nthWeekdayDay y m w.toNat n)).map Date.yof) := by
  rw [GenDateOps.gen_from_weekday_of_month_opt_eq y m w n hm hn, (nth_weekday_spec y m w n).1]; rfl

/-! ### time-of-day replacement -/

/-- the translated `Timelike for NaiveTime` replacements, every well-formed time of day (leap representation on
any second) and every `u32` argument: no panic; `None` exactly when hour ≥ 24 / minute ≥ 60 / second ≥ 60 /
nanosecond ≥ 2·10⁹; otherwise the two `u32` fields of a well-formed time that shows the new value in the named
field and the old values in the three others -/
theorem code_time_with_field_spec (t : Time) (v : Int) (ht : TValid t) (hv : 0 ≤ v ∧ v ≤ 4294967295) :
    (∃ r, Gen.naive_time.NaiveTime.Timelike.with_hour (tG t) v = .ok (r.map tG) ∧ (r = none ↔ 24 ≤ v) ∧
      ∀ t', r = some t' → HasFields t' v t.minute t.second t.nanosecond) ∧
    (∃ r, Gen.naive_time.NaiveTime.Timelike.with_minute (tG t) v = .ok (r.map tG) ∧ (r = none ↔ 60 ≤ v) ∧
      ∀ t', r = some t' → HasFields t' t.hour v t.second t.nanosecond) ∧
    (∃ r, Gen.naive_time.NaiveTime.Timelike.with_second (tG t) v = .ok (r.map tG) ∧ (r = none ↔ 60 ≤ v) ∧
      ∀ t', r = some t' → HasFields t' t.hour t.minute v t.nanosecond) ∧
    (∃ r, Gen.naive_time.NaiveTime.Timelike.with_nanosecond (tG t) v = r.map tG ∧ (r = none ↔ 2000000000 ≤ v) ∧
      ∀ t', r = some t' → HasFields t' t.hour t.minute t.second v) := by
  obtain ⟨⟨a1, a2⟩, ⟨b1, b2⟩, ⟨c1, c2⟩, ⟨d1, d2⟩⟩ := time_with_field_spec t v ht hv.1
  obtain ⟨k1, k2, k3, k4⟩ := ht
  have hu : U32Fields t := ⟨⟨k1, by omega⟩, ⟨k3, by omega⟩⟩
  have hi : Inv t := ⟨⟨k1, k2⟩, ⟨k3, k4⟩⟩
  exact ⟨⟨_, GenTime.gen_with_hour_eq t v hu hv, a1, a2⟩, ⟨_, GenTime.gen_with_minute_eq t v hi hv, b1, b2⟩,
    ⟨_, GenTime.gen_with_second_eq t v hi hv, c1, c2⟩, ⟨_, GenTime.gen_with_nanosecond_eq t v, d1, d2⟩⟩

/-! ### non-vacuity: the generated code, evaluated by the kernel -/

/-- Jan 31 2024 + 1 month = Feb 29 (packed words), `with_day(30)` in February has no target, the 2nd Friday of
March 2017, the Sunday-based week of 1970-01-01, `with_nanosecond` building a leap representation -/
example :
    Gen.naive_date.NaiveDate.checked_add_months (dateOfYo 2024 31).yof 1 = .ok (some (dateOfYo 2024 60).yof) ∧
    Gen.naive_date.NaiveDate.checked_sub_months (dateOfYo (-262143) 31).yof 1 = .ok none ∧
    Gen.naive_date.NaiveDate.Datelike.with_day (dateOfYo 2024 32).yof 30 = .ok none ∧
    Gen.naive_date.NaiveDate.Datelike.with_ordinal0 (dateOfYo 2024 1).yof 365 = .ok (some (dateOfYo 2024 366).yof) ∧
    Gen.naive_date.NaiveDate.years_since (dateOfYo 2024 59).yof (dateOfYo 2000 60).yof = .ok (some 23) ∧
    Gen.naive_date.NaiveDate.from_weekday_of_month_opt 2017 3 Weekday.fri.toNat 2 = .ok (some (dateOfYo 2017 69).yof) ∧
    Gen.naive.NaiveWeek.checked_first_day (Gen.naive_date.NaiveDate.week (dateOfYo 1970 1).yof Weekday.sun.toNat)
      = .ok (some (dateOfYo 1969 362).yof) ∧
    Gen.naive.NaiveWeek.first_day (Gen.naive_date.NaiveDate.week Date.MIN.yof Weekday.sun.toNat) = .panic ∧
    Gen.naive_time.NaiveTime.Timelike.with_nanosecond (tG ⟨7, 0⟩) 1999999999 = some (tG ⟨7, 1999999999⟩) := by
  decide +kernel

end Chrono.Props.C08
