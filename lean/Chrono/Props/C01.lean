/-
  C01 — calendar, ordinal, ISO-week and day-count forms of a date agree.
  Property statements only (helper lemmas in Chrono/Proofs/DateL.lean).
-/
import Chrono.Proofs.DateL

namespace Chrono.Props.C01
open Chrono Chrono.M Chrono.Spec Chrono.Proofs Chrono.Extracted

/-- the four lookup tables, as re-extracted from the Rust source on this run, are exactly what the
independent calendar specification prescribes (every cell) -/
theorem tables_ok :
    YEAR_TO_FLAGS.length = 400 ∧ (∀ i < 400, YEAR_TO_FLAGS.getD i 0 = flagsOf i) ∧
    MDL_TO_OL.length = 832 ∧ (∀ i < 832, MDL_TO_OL.getD i 0 = mdlDelta i) ∧
    OL_TO_MDL.length = 733 ∧ (∀ i < 733, 1 < i → OL_TO_MDL.getD i 0 = olDelta i) ∧
    YEAR_DELTAS.length = 401 ∧ (∀ i < 401, YEAR_DELTAS.getD i 0 = leapsBefore i) :=
  tables_ok'

end Chrono.Props.C01
