/-
  C01 — calendar, ordinal, ISO-week and day-count forms of a date agree.
  Property statements only (helper lemmas: Proofs/DateFin.lean — kernel-evaluated finite facts —
  and Proofs/DateL.lean).  Specification: Spec/Calendar.lean (leap rule, month lengths, closed-form
  day number with 0001-01-01 = day 1, weekday of a day number), independent of chrono's tables.
  `dateOfYo y o` is the packed word `y·8192 + o·16 + flagsOf y` of the o-th day of year y.
-/
import Chrono.Proofs.DateL
import Chrono.Proofs.IsoL
import Chrono.Proofs.C01GapsL
import Chrono.Proofs.C01Round2L
import Chrono.Props.GenDate

namespace Chrono.Props.C01
open Chrono Chrono.M Chrono.Spec Chrono.Proofs Chrono.Extracted Chrono.Proofs.C01Gaps
  Chrono.Proofs.C01R2

/-- the four lookup tables, as re-extracted from the Rust source on this run, are exactly what the
independent calendar specification prescribes (every cell) -/
theorem tables_ok :
    YEAR_TO_FLAGS.length = 400 ∧ (∀ i < 400, YEAR_TO_FLAGS.getD i 0 = flagsOf i) ∧
    MDL_TO_OL.length = 832 ∧ (∀ i < 832, MDL_TO_OL.getD i 0 = mdlDelta i) ∧
    OL_TO_MDL.length = 733 ∧ (∀ i < 733, 1 < i → OL_TO_MDL.getD i 0 = olDelta i) ∧
    YEAR_DELTAS.length = 401 ∧ (∀ i < 401, YEAR_DELTAS.getD i 0 = leapsBefore i) :=
  tables_ok'

/-- the extracted range constants and the packed range ends -/
theorem consts_ok :
    MIN_YEAR = -262143 ∧ MAX_YEAR = 262142 ∧ MAX_OL = 732 ∧ DATE_MAX_OL = 5856 ∧
    Date.MIN = dateOfYo MIN_YEAR 1 ∧ Date.MAX = dateOfYo MAX_YEAR 365 ∧
    dayNumYo MIN_YEAR 1 = -95746129 ∧ dayNumYo MAX_YEAR 365 = 95745399 ∧
    dayNum 1970 1 1 = 719163 ∧ weekdayOf 719163 = 3 := by decide

/-- the literals inside `YearFlags::{ndays, isoweek_delta, nisoweeks}`, re-extracted from the source
on this run, are the ones the model's definitions were written against (`366 − flags>>3`, the
weekday mask 7 with "< 3 ⇒ + 7", and the 53-week mask `0b0000_0100_0000_0110`) -/
theorem year_flag_literals_ok :
    NDAYS_BASE = 366 ∧ NDAYS_SHIFT = 3 ∧ ISOWEEK_DELTA_MASK = 7 ∧ ISOWEEK_DELTA_MIN = 3 ∧
    ISOWEEK_DELTA_ADD = 7 ∧ NISOWEEKS_MASK = 1030 ∧
    (∀ f < 16, YearFlags.ndays f = (NDAYS_BASE - (f / 2 ^ NDAYS_SHIFT.toNat : Nat)).toNat) ∧
    (∀ f < 16, (YearFlags.nisoweeks f : Int) = 52 + (NISOWEEKS_MASK / 2 ^ f) % 2) := by decide

/-- year flags of **every** year (400-year periodicity of the leap rule and of the weekday):
the table lookup yields the leap status and the weekday of Dec 31 of the previous year -/
theorem year_flags_spec (y : Int) :
    YearFlags.from_year y = flagsOf y ∧ YearFlags.ndays (flagsOf y) = yearLen y ∧
    (flagsOf y / 8 = if isLeap y then 0 else 1) := by
  obtain ⟨h16, _, hl, _⟩ := flagsOf_facts y
  refine ⟨from_year_spec y, ?_, hl⟩
  unfold YearFlags.ndays yearLen
  rw [hl]; cases isLeap y <;> simp

/-- year-month-day constructor, every argument tuple: yields the date for exactly the tuples that
denote an existing date of the supported range, nothing otherwise, never panics -/
theorem ctor_ymd (y : Int) (m d : Nat) :
    Date.from_ymd_opt y m d =
      .ok (if MIN_YEAR ≤ y ∧ y ≤ MAX_YEAR ∧ validYmd y m d = true
           then some (dateOfYo y (ordinalOf y m d)) else none) := ctor_ymd' y m d

/-- year-ordinal constructor, every argument tuple -/
theorem ctor_yo (y : Int) (o : Nat) :
    Date.from_yo_opt y o =
      .ok (if MIN_YEAR ≤ y ∧ y ≤ MAX_YEAR ∧ 1 ≤ o ∧ o ≤ yearLen y then some (dateOfYo y o) else none) :=
  ctor_yo' y o

/-- day-number constructor, every `i32`: never panics, fails exactly outside the range, and the
result is a date of the range whose day number is the argument -/
theorem ctor_days (n : Int) (hn : -2147483648 ≤ n ∧ n ≤ 2147483647) :
    ∃ r, Date.from_num_days_from_ce_opt n = .ok r ∧
      (∀ d, r = some d → ∃ y o, d = dateOfYo y o ∧ MIN_YEAR ≤ y ∧ y ≤ MAX_YEAR ∧ 1 ≤ o ∧ o ≤ yearLen y ∧
        dayNumYo y o = n) ∧
      (r = none ↔ (n < dayNumYo MIN_YEAR 1 ∨ n > dayNumYo MAX_YEAR 365)) := ctor_days' n hn

/-- accessors of the o-th day of year y: year, ordinal, leap flag; month and day are the unique
valid calendar form with that ordinal; the day number is the closed form; the weekday is the
weekday of the day number -/
theorem accessors_ok (y : Int) (o : Nat) (hy : MIN_YEAR ≤ y ∧ y ≤ MAX_YEAR)
    (ho : 1 ≤ o ∧ o ≤ yearLen y) :
    (dateOfYo y o).year = y ∧ (dateOfYo y o).ordinal = o ∧ (dateOfYo y o).leap_year = isLeap y ∧
    (dateOfYo y o).month = .ok (monthOfYo y o) ∧ (dateOfYo y o).day = .ok (dayOfYo y o) ∧
    validYmd y (monthOfYo y o) (dayOfYo y o) = true ∧ ordinalOf y (monthOfYo y o) (dayOfYo y o) = o ∧
    (dateOfYo y o).num_days_from_ce = .ok (dayNumYo y o) ∧
    ((dateOfYo y o).weekday.toNat : Int) = weekdayOf (dayNumYo y o) := by
  have hyl := yearLen_ge y
  have hMIN : MIN_YEAR = -262143 := rfl
  have hMAX : MAX_YEAR = 262142 := rfl
  obtain ⟨h1, h2, _, _, _, h6⟩ := dateOfYo_fields y o (by omega)
  obtain ⟨m1, m2, m3, m4⟩ := month_day_spec y o ho.1 ho.2
  refine ⟨h1, h2, h6, m1, m2, m3, m4, ?_, weekday_spec y o (by omega)⟩
  have := num_days_spec (dateOfYo y o) (by rw [h1]; omega) (by rw [h1]; omega) (by rw [h2]; omega)
  rw [h1, h2] at this
  exact this

/-- exactly one calendar form: a valid (month, day) is recovered from its ordinal -/
theorem ymd_form_unique (y : Int) (m d : Nat) (h : validYmd y m d = true) :
    monthOfYo y (ordinalOf y m d) = m ∧ dayOfYo y (ordinalOf y m d) = d := ymd_unique y m d h

/-- date order (derived comparison of the packed word) equals day-number order, and two dates are
equal exactly when their day numbers are (one day number per date) -/
theorem order_iso (y1 y2 : Int) (o1 o2 : Nat) (h1 : 1 ≤ o1 ∧ o1 ≤ yearLen y1)
    (h2 : 1 ≤ o2 ∧ o2 ≤ yearLen y2) :
    ((dateOfYo y1 o1).yof < (dateOfYo y2 o2).yof ↔ dayNumYo y1 o1 < dayNumYo y2 o2) ∧
    ((dateOfYo y1 o1).yof = (dateOfYo y2 o2).yof ↔ dayNumYo y1 o1 = dayNumYo y2 o2) :=
  order_spec y1 y2 o1 o2 h1 h2

/-- the successor is the next day (day number + 1, next weekday) and exists unless the date is MAX -/
theorem succ_ok (y : Int) (o : Nat) (hy : MIN_YEAR ≤ y ∧ y ≤ MAX_YEAR) (ho : 1 ≤ o ∧ o ≤ yearLen y) :
    ∃ r, Date.succ_opt (dateOfYo y o) = .ok r ∧
      (r = none ↔ dateOfYo y o = Date.MAX) ∧
      (∀ d, r = some d → ∃ y' o', d = dateOfYo y' o' ∧ MIN_YEAR ≤ y' ∧ y' ≤ MAX_YEAR ∧ 1 ≤ o' ∧
        o' ≤ yearLen y' ∧ dayNumYo y' o' = dayNumYo y o + 1 ∧
        weekdayOf (dayNumYo y' o') = (weekdayOf (dayNumYo y o) + 1) % 7) :=
  succ_ok' y o hy ho

/-- the predecessor is the previous day and exists unless the date is MIN -/
theorem pred_ok (y : Int) (o : Nat) (hy : MIN_YEAR ≤ y ∧ y ≤ MAX_YEAR) (ho : 1 ≤ o ∧ o ≤ yearLen y) :
    ∃ r, Date.pred_opt (dateOfYo y o) = .ok r ∧
      (r = none ↔ dateOfYo y o = Date.MIN) ∧
      (∀ d, r = some d → ∃ y' o', d = dateOfYo y' o' ∧ MIN_YEAR ≤ y' ∧ y' ≤ MAX_YEAR ∧ 1 ≤ o' ∧
        o' ≤ yearLen y' ∧ dayNumYo y' o' = dayNumYo y o - 1) :=
  pred_ok' y o hy ho

/-- non-vacuity: a leap day, both range ends, a non-existent and an out-of-range tuple -/
example : Date.from_ymd_opt 2024 2 29 = .ok (some (dateOfYo 2024 60)) ∧
    Date.from_ymd_opt 2023 2 29 = .ok none ∧ Date.from_ymd_opt 262143 1 1 = .ok none ∧
    Date.from_yo_opt (-262143) 1 = .ok (some Date.MIN) ∧
    Date.succ_opt Date.MAX = .ok none ∧ (yearLen 2024 = 366 ∧ validYmd 2024 2 29 = true) := by
  decide +kernel

/-! ### ISO 8601 week dates (specification: Spec/IsoSpec.lean and `isoThursday` of Spec/Calendar.lean,
written with day numbers only; helper lemmas: Proofs/IsoFin.lean, Proofs/IsoL.lean) -/

/-- exactly one year-ordinal form per day number: a (year, ordinal) pair with an existing ordinal is
determined by its day number (so the `(Y, ot)` of `iso_week_spec` below is unique) -/
theorem yo_form_unique (y1 y2 : Int) (o1 o2 : Nat) (h1 : 1 ≤ o1 ∧ o1 ≤ yearLen y1)
    (h2 : 1 ≤ o2 ∧ o2 ≤ yearLen y2) (h : dayNumYo y1 o1 = dayNumYo y2 o2) : y1 = y2 ∧ o1 = o2 :=
  yo_unique y1 y2 o1 o2 h1 h2 h

/-- ISO-week accessor, every date of the range: `iso_week` never panics and returns the ISO 8601
week of the date's day number `n`: the Thursday `isoThursday n` of `n`'s Monday-based week is the
`ot`-th day of calendar year `Y`; the ISO year is `Y` and the week number is `(ot − 1)/7 + 1`
(so week 1 is the week with the year's first Thursday, i.e. the week containing 4 January).  The low
four bits of the packed value are the flags of `Y`.  Last conjunct (audit2 gap 6): `IsoWeek::week0` with
its `u32` subtraction as the source has it (`IsoWeek.week0r`, Model/DateViews.lean — `.panic` on a week
field of 0) returns `.ok`, i.e. the subtraction never underflows on the ISO week of a date. -/
theorem iso_week_spec (y : Int) (o : Nat) (hy : MIN_YEAR ≤ y ∧ y ≤ MAX_YEAR)
    (ho : 1 ≤ o ∧ o ≤ yearLen y) :
    ∃ (ywf Y : Int) (ot : Nat), Date.iso_week (dateOfYo y o) = .ok ywf ∧
      1 ≤ ot ∧ ot ≤ yearLen Y ∧ dayNumYo Y ot = isoThursday (dayNumYo y o) ∧
      IsoWeek.year ywf = Y ∧ IsoWeek.week ywf = ((ot - 1) / 7 + 1 : Nat) ∧
      IsoWeek.week0 ywf = ((ot - 1) / 7 : Nat) ∧ ywf % 16 = flagsOf Y ∧
      IsoWeek.week0r ywf = .ok ((ot - 1) / 7) := by
  obtain ⟨Y, ot, h1, h2, h3, h4⟩ := iso_week_spec' y o hy ho
  have hl := yearLen_ge Y
  have hf := (flagsOf_facts Y).1
  obtain ⟨f1, f2⟩ := ywf_fields Y ((ot - 1) / 7 + 1) (flagsOf Y) (by omega) hf
  refine ⟨_, Y, ot, h4, h1, h2, h3, f1, f2, ?_, by omega,
    week0r_spec Y ((ot - 1) / 7 + 1) (flagsOf Y) (by omega) (by omega) hf⟩
  unfold IsoWeek.week0; unfold IsoWeek.week at f2; rw [f2]; push_cast; omega

/-- the number of ISO weeks of **every** year: week `w` exists in ISO year `y` (its Thursday is a
day of calendar year `y`) exactly for `1 ≤ w ≤ 52` or `53` as the calendar rule says, and chrono's
bit mask `nisoweeks` applied to the looked-up flags is that number -/
theorem iso_weeks_in_year (y : Int) (w : Nat) :
    (isoWeekExists y w ↔ (1 ≤ w ∧ w ≤ isoWeeksInYear y)) ∧
    YearFlags.nisoweeks (YearFlags.from_year y) = isoWeeksInYear y := by
  rw [from_year_spec, ← nisoweeks_spec]
  exact ⟨isoWeekExists_iff y w, rfl⟩

/-- ISO year-week-weekday constructor, every argument tuple (all integers `y` including `i32::MIN`
and `i32::MAX`, all naturals `w`, all weekdays): never panics; returns nothing exactly when ISO year
`y` has no week `w` or the denoted day `isoDayNum y w wd` (Monday of week 1 = Monday of the week
containing 4 January, plus `7·(w−1) + wd`) lies outside [MIN, MAX]; otherwise returns the date of
the range with that day number -/
theorem ctor_isoywd (y : Int) (w : Nat) (wd : Weekday) :
    ∃ r, Date.from_isoywd_opt y w wd = .ok r ∧
      (∀ d, r = some d → ∃ Y o, d = dateOfYo Y o ∧ MIN_YEAR ≤ Y ∧ Y ≤ MAX_YEAR ∧ 1 ≤ o ∧
        o ≤ yearLen Y ∧ dayNumYo Y o = isoDayNum y w wd.toNat) ∧
      (r = none ↔ ¬ (isoWeekExists y w ∧ dayNumYo MIN_YEAR 1 ≤ isoDayNum y w wd.toNat ∧
        isoDayNum y w wd.toNat ≤ dayNumYo MAX_YEAR 365)) := ctor_isoywd' y w wd

/-- the constructed date has exactly the requested ISO week date: accessor and constructor agree -/
theorem isoywd_roundtrip (y : Int) (w : Nat) (wd : Weekday) (d : Date)
    (h : Date.from_isoywd_opt y w wd = .ok (some d)) :
    ∃ ywf, d.iso_week = .ok ywf ∧ IsoWeek.year ywf = y ∧ IsoWeek.week ywf = w ∧ d.weekday = wd :=
  isoywd_roundtrip' y w wd d h

/-- ISO weeks compare (derived order on the packed `ywf`) in chronological order: monotone in the
day number, strictly increasing only with the day number, and equal exactly for days of the same
Monday-based week -/
theorem iso_week_order (y1 y2 : Int) (o1 o2 : Nat) (hy1 : MIN_YEAR ≤ y1 ∧ y1 ≤ MAX_YEAR)
    (hy2 : MIN_YEAR ≤ y2 ∧ y2 ≤ MAX_YEAR) (h1 : 1 ≤ o1 ∧ o1 ≤ yearLen y1)
    (h2 : 1 ≤ o2 ∧ o2 ≤ yearLen y2) :
    ∃ a b, Date.iso_week (dateOfYo y1 o1) = .ok a ∧ Date.iso_week (dateOfYo y2 o2) = .ok b ∧
      (dayNumYo y1 o1 ≤ dayNumYo y2 o2 → a ≤ b) ∧
      (a < b → dayNumYo y1 o1 < dayNumYo y2 o2) ∧
      (a = b ↔ isoThursday (dayNumYo y1 o1) = isoThursday (dayNumYo y2 o2)) :=
  iso_week_order' y1 y2 o1 o2 hy1 hy2 h1 h2

/-- finding #1 (repaired in the tree under test): with the pinned source's plain `year - 1` the
constructor panics at `i32::MIN` (whose week 1 starts in the previous year), where the repaired code
returns `None`; elsewhere the two agree.  (`year + 1` cannot overflow: `i32::MAX` is a 52-week common
year starting on a Monday, so none of its weeks reaches into the next year.) -/
theorem isoywd_pinned_overflow :
    isoywdPinned (-2147483648) 1 .mon = .panic ∧ Date.from_isoywd_opt (-2147483648) 1 .mon = .ok none ∧
    isoywdPinned 2147483647 52 .sun = .ok none ∧ Date.from_isoywd_opt 2147483647 52 .sun = .ok none ∧
    isoywdPinned 2015 1 .mon = Date.from_isoywd_opt 2015 1 .mon := by decide +kernel

/-- non-vacuity: 2015-W01-Mon is 2014-12-29 (previous calendar year), 2020 has a week 53 reaching
into 2021, 2021 has none; MIN is the Thursday of week 1 of MIN_YEAR (Monday..Wednesday of that week
are out of range) and MAX is the Monday of week 1 of ISO year MAX_YEAR + 1 -/
example : Date.from_isoywd_opt 2015 1 .mon = .ok (some (dateOfYo 2014 363)) ∧
    Date.iso_week (dateOfYo 2014 363) = .ok (2015 * 1024 + 1 * 16 + flagsOf 2015) ∧
    Date.from_isoywd_opt 2020 53 .sun = .ok (some (dateOfYo 2021 3)) ∧
    Date.from_isoywd_opt 2021 53 .mon = .ok none ∧ Date.from_isoywd_opt 2021 0 .mon = .ok none ∧
    isoWeeksInYear 2020 = 53 ∧ isoWeeksInYear 2021 = 52 ∧
    isoDayNum 2015 1 0 = dayNumYo 2014 363 ∧ isoThursday (dayNumYo 2014 363) = dayNumYo 2015 1 ∧
    Date.from_isoywd_opt MIN_YEAR 1 .thu = .ok (some Date.MIN) ∧
    Date.from_isoywd_opt MIN_YEAR 1 .wed = .ok none ∧
    Date.from_isoywd_opt (MAX_YEAR + 1) 1 .mon = .ok (some Date.MAX) ∧
    Date.from_isoywd_opt (MAX_YEAR + 1) 1 .tue = .ok none ∧
    (Date.iso_week Date.MAX).isOk = true ∧
    Date.from_isoywd_opt MAX_YEAR 53 .mon = .ok none := by
  decide +kernel

/-! ### Audit gaps (audit/C01.md, closed 2026-09-30; helper lemmas: Proofs/C01GapsL.lean)

Accessor → constructor direction: every date of the range is in the image of each of the four
constructors, reached from the fields its own accessors report (so each date *has* a form of each
kind; `ymd_form_unique`, `yo_form_unique`, `isoywd_roundtrip` and `order_iso` say it has only one). -/

/-- **ISO week-date form exists** (audit gap MEDIUM): for every date of the range, `iso_week` succeeds
and `from_isoywd_opt` applied to the date's own ISO year, ISO week number and weekday returns exactly
that date.  With `isoywd_roundtrip` (constructor → accessor) this makes `from_isoywd_opt` and
`(iso_week, weekday)` mutually inverse on the whole range, and ties the accessor's specification
(`isoThursday`) to the constructor's (`isoDayNum` / `isoWeekExists`) on every date, not only on the
constructor's image. -/
theorem iso_form_exists (y : Int) (o : Nat) (hy : MIN_YEAR ≤ y ∧ y ≤ MAX_YEAR)
    (ho : 1 ≤ o ∧ o ≤ yearLen y) :
    ∃ ywf, Date.iso_week (dateOfYo y o) = .ok ywf ∧
      Date.from_isoywd_opt (IsoWeek.year ywf) (IsoWeek.week ywf).toNat (dateOfYo y o).weekday =
        .ok (some (dateOfYo y o)) := iso_form_exists' y o hy ho

/-- the specification-level core of `iso_form_exists`, for **every** day number `n` (no range): when
the Thursday of `n`'s Monday-based week is the `ot`-th day of calendar year `Y`, ISO year `Y` has week
`(ot − 1)/7 + 1` and the day of that week with `n`'s weekday is `n` -/
theorem iso_specs_agree (Y : Int) (ot : Nat) (n : Int) (h1 : 1 ≤ ot) (h2 : ot ≤ yearLen Y)
    (h : dayNumYo Y ot = isoThursday n) :
    isoWeekExists Y (((ot - 1) / 7 + 1 : Nat) : Int) ∧
    isoDayNum Y (((ot - 1) / 7 + 1 : Nat) : Int) (weekdayOf n) = n := thursday_form Y ot n h1 h2 h

/-- year-month-day form exists: `from_ymd_opt (year d) (month d) (day d) = d` for every date -/
theorem ymd_form_exists (y : Int) (o : Nat) (hy : MIN_YEAR ≤ y ∧ y ≤ MAX_YEAR)
    (ho : 1 ≤ o ∧ o ≤ yearLen y) :
    ∃ m dd, (dateOfYo y o).month = .ok m ∧ (dateOfYo y o).day = .ok dd ∧
      Date.from_ymd_opt (dateOfYo y o).year m dd = .ok (some (dateOfYo y o)) := ymd_form_exists' y o hy ho

/-- year-ordinal form exists: `from_yo_opt (year d) (ordinal d) = d` for every date -/
theorem yo_form_exists (y : Int) (o : Nat) (hy : MIN_YEAR ≤ y ∧ y ≤ MAX_YEAR)
    (ho : 1 ≤ o ∧ o ≤ yearLen y) :
    Date.from_yo_opt (dateOfYo y o).year (dateOfYo y o).ordinal.toNat = .ok (some (dateOfYo y o)) :=
  yo_form_exists' y o hy ho

/-- day-number form exists: `from_num_days_from_ce_opt (num_days_from_ce d) = d` for every date -/
theorem days_form_exists (y : Int) (o : Nat) (hy : MIN_YEAR ≤ y ∧ y ≤ MAX_YEAR)
    (ho : 1 ≤ o ∧ o ≤ yearLen y) :
    ∃ n, (dateOfYo y o).num_days_from_ce = .ok n ∧
      Date.from_num_days_from_ce_opt n = .ok (some (dateOfYo y o)) := days_form_exists' y o hy ho

/-- non-vacuity of the round trips: a date whose ISO year is the previous calendar year
(2021-01-03 is 2020-W53-Sun), one whose ISO year is the next (2014-12-29 is 2015-W01-Mon), a leap
day, and both range ends (MIN is the Thursday of W01 of MIN_YEAR, MAX the Monday of W01 of MAX_YEAR+1) -/
example : Date.iso_week (dateOfYo 2021 3) = .ok (2020 * 1024 + 53 * 16 + flagsOf 2020) ∧
    (dateOfYo 2021 3).weekday = .sun ∧
    Date.from_isoywd_opt 2020 53 .sun = .ok (some (dateOfYo 2021 3)) ∧
    Date.from_isoywd_opt 2015 1 .mon = .ok (some (dateOfYo 2014 363)) ∧
    (dateOfYo 2024 60).month = .ok 2 ∧ (dateOfYo 2024 60).day = .ok 29 ∧
    Date.from_ymd_opt 2024 2 29 = .ok (some (dateOfYo 2024 60)) ∧
    Date.iso_week Date.MIN = .ok (MIN_YEAR * 1024 + 1 * 16 + flagsOf MIN_YEAR) ∧ Date.MIN.weekday = .thu ∧
    Date.iso_week Date.MAX = .ok ((MAX_YEAR + 1) * 1024 + 1 * 16 + flagsOf (MAX_YEAR + 1)) ∧
    Date.MAX.weekday = .mon ∧
    Date.MAX.num_days_from_ce = .ok 95745399 ∧
    Date.from_num_days_from_ce_opt 95745399 = .ok (some Date.MAX) := by decide +kernel

/-- **date order on `Date.cmp`** (audit gap LOW; `Date.cmp` is the derived `Ord` the driver op `d.cmp`
evaluates): the comparison of two dates is the comparison of their day numbers -/
theorem order_cmp (y1 y2 : Int) (o1 o2 : Nat) (h1 : 1 ≤ o1 ∧ o1 ≤ yearLen y1)
    (h2 : 1 ≤ o2 ∧ o2 ≤ yearLen y2) :
    Date.cmp (dateOfYo y1 o1) (dateOfYo y2 o2) =
      (if dayNumYo y1 o1 < dayNumYo y2 o2 then -1 else if dayNumYo y1 o1 > dayNumYo y2 o2 then 1 else 0) :=
  cmp_spec y1 y2 o1 o2 h1 h2

/-- **ISO-week order on `IsoWeek.cmp`** (audit gap LOW; `Date.isocmp a b` models
`a.iso_week().cmp(&b.iso_week())`, the function the driver op `di.isocmp` evaluates): never panics,
and the ISO weeks of two dates compare exactly like the Thursdays of their Monday-based weeks — i.e.
chronologically, with equality exactly for days of the same week -/
theorem iso_week_cmp (y1 y2 : Int) (o1 o2 : Nat) (hy1 : MIN_YEAR ≤ y1 ∧ y1 ≤ MAX_YEAR)
    (hy2 : MIN_YEAR ≤ y2 ∧ y2 ≤ MAX_YEAR) (h1 : 1 ≤ o1 ∧ o1 ≤ yearLen y1)
    (h2 : 1 ≤ o2 ∧ o2 ≤ yearLen y2) :
    Date.isocmp (dateOfYo y1 o1) (dateOfYo y2 o2) =
      .ok (if isoThursday (dayNumYo y1 o1) < isoThursday (dayNumYo y2 o2) then -1
           else if isoThursday (dayNumYo y1 o1) > isoThursday (dayNumYo y2 o2) then 1 else 0) :=
  isocmp_spec y1 y2 o1 o2 hy1 hy2 h1 h2

/-- non-vacuity: all three outcomes of both comparisons (2021-01-03 and 2020-12-28 are different
days of the same ISO week 2020-W53) -/
example : Date.cmp (dateOfYo 2021 3) (dateOfYo 2020 363) = 1 ∧
    Date.isocmp (dateOfYo 2021 3) (dateOfYo 2020 363) = .ok 0 ∧
    Date.isocmp (dateOfYo 2021 4) (dateOfYo 2021 3) = .ok 1 ∧
    Date.isocmp Date.MIN Date.MAX = .ok (-1) ∧ Date.cmp Date.MIN Date.MAX = -1 ∧
    Date.cmp Date.MAX Date.MAX = 0 := by decide +kernel

/-- **`year_ce`** (audit gap LOW; "year 0 = 1 BCE" in its user-visible form, `Datelike::year_ce` of
src/traits.rs, model in Model/DateOps.lean shared with C08): for every date of the range the
common-era view is `(true, y)` from year 1 on and `(false, 1 − y)` before, so year 0 is 1 BCE and
year −1 is 2 BCE; never panics -/
theorem year_ce_ok (y : Int) (o : Nat) (hy : MIN_YEAR ≤ y ∧ y ≤ MAX_YEAR) (ho : 1 ≤ o ∧ o ≤ yearLen y) :
    (dateOfYo y o).year_ce = .ok (if y < 1 then (false, 1 - y) else (true, y)) :=
  year_ce_spec y o hy (by have := yearLen_ge y; omega)

example : (dateOfYo 0 366).year_ce = .ok (false, 1) ∧ (dateOfYo (-1) 1).year_ce = .ok (false, 2) ∧
    (dateOfYo 1 1).year_ce = .ok (true, 1) ∧ Date.MIN.year_ce = .ok (false, 262144) ∧
    isLeap 0 = true ∧ dayNumYo 0 366 = 0 := by decide +kernel

/-- **`isoweek_delta` literals** (audit gap LOW): the model's `isoweek_delta` is the source's
`let mut delta = flags & MASK; if delta < MIN { delta += ADD }` with the three literals as
re-extracted on this run, on every flags value -/
theorem isoweek_delta_literals_ok :
    ∀ f < 16, (YearFlags.isoweek_delta f : Int) =
      (if ((f &&& ISOWEEK_DELTA_MASK.toNat : Nat) : Int) < ISOWEEK_DELTA_MIN
       then ((f &&& ISOWEEK_DELTA_MASK.toNat : Nat) : Int) + ISOWEEK_DELTA_ADD
       else ((f &&& ISOWEEK_DELTA_MASK.toNat : Nat) : Int)) := by decide

/-- **range ends** (`NaiveDate::MIN` / `NaiveDate::MAX`): no date of the range lies before MIN or
after MAX; conversely every day number between the two is the day number of a date of the range; and
there are exactly 191,491,529 of them (the count in the property's quantifier) -/
theorem range_ends_ok :
    (∀ (y : Int) (o : Nat), MIN_YEAR ≤ y ∧ y ≤ MAX_YEAR → 1 ≤ o ∧ o ≤ yearLen y →
      dayNumYo MIN_YEAR 1 ≤ dayNumYo y o ∧ dayNumYo y o ≤ dayNumYo MAX_YEAR 365) ∧
    (∀ n : Int, dayNumYo MIN_YEAR 1 ≤ n ∧ n ≤ dayNumYo MAX_YEAR 365 →
      ∃ y o, MIN_YEAR ≤ y ∧ y ≤ MAX_YEAR ∧ 1 ≤ o ∧ o ≤ yearLen y ∧ dayNumYo y o = n) ∧
    dayNumYo MAX_YEAR 365 - dayNumYo MIN_YEAR 1 + 1 = 191491529 ∧
    Date.MIN.num_days_from_ce = .ok (dayNumYo MIN_YEAR 1) ∧
    Date.MAX.num_days_from_ce = .ok (dayNumYo MAX_YEAR 365) ∧
    yearLen MAX_YEAR = 365 :=
  ⟨range_ends, range_onto, by decide, by decide +kernel, by decide +kernel, by decide⟩

/-- **`add_days`** in C01's vocabulary (the proof is C03's `add_days_yo`, Proofs/DateArithL.lean —
referenced, not duplicated): for every date of the range and every `i32` count, never panics; refused
exactly when day `n + k` is outside [MIN, MAX]; otherwise the date of the range with day number
`n + k` -/
theorem add_days_ok (y : Int) (o : Nat) (k : Int) (hy : MIN_YEAR ≤ y ∧ y ≤ MAX_YEAR)
    (ho : 1 ≤ o ∧ o ≤ yearLen y) (hk : -2147483648 ≤ k ∧ k ≤ 2147483647) :
    ∃ r, Date.add_days (dateOfYo y o) k = .ok r ∧
      (r = none ↔ (dayNumYo y o + k < dayNumYo MIN_YEAR 1 ∨ dayNumYo MAX_YEAR 365 < dayNumYo y o + k)) ∧
      (∀ d, r = some d → ∃ y' o', d = dateOfYo y' o' ∧ MIN_YEAR ≤ y' ∧ y' ≤ MAX_YEAR ∧ 1 ≤ o' ∧
        o' ≤ yearLen y' ∧ dayNumYo y' o' = dayNumYo y o + k) := by
  obtain ⟨r, h1, h2⟩ := add_days_spec (dateOfYo y o) k (inv_of_yo y o hy ho).1 hk
  exact ⟨r, h1, shift_yo y o k r hy ho h2⟩

/-- `checked_add_days` / `checked_sub_days` (every `u64` count), same vocabulary; proofs are C03's
`checked_add_days_spec` / `checked_sub_days_spec` -/
theorem checked_days_ok (y : Int) (o : Nat) (c : Int) (hy : MIN_YEAR ≤ y ∧ y ≤ MAX_YEAR)
    (ho : 1 ≤ o ∧ o ≤ yearLen y) (hc : 0 ≤ c ∧ c ≤ 18446744073709551615) :
    (∃ r, Date.checked_add_days (dateOfYo y o) c = .ok r ∧
      (r = none ↔ (dayNumYo y o + c < dayNumYo MIN_YEAR 1 ∨ dayNumYo MAX_YEAR 365 < dayNumYo y o + c)) ∧
      (∀ d, r = some d → ∃ y' o', d = dateOfYo y' o' ∧ MIN_YEAR ≤ y' ∧ y' ≤ MAX_YEAR ∧ 1 ≤ o' ∧
        o' ≤ yearLen y' ∧ dayNumYo y' o' = dayNumYo y o + c)) ∧
    (∃ r, Date.checked_sub_days (dateOfYo y o) c = .ok r ∧
      (r = none ↔ (dayNumYo y o + -c < dayNumYo MIN_YEAR 1 ∨ dayNumYo MAX_YEAR 365 < dayNumYo y o + -c)) ∧
      (∀ d, r = some d → ∃ y' o', d = dateOfYo y' o' ∧ MIN_YEAR ≤ y' ∧ y' ≤ MAX_YEAR ∧ 1 ≤ o' ∧
        o' ≤ yearLen y' ∧ dayNumYo y' o' = dayNumYo y o + -c)) := by
  have hinv := (inv_of_yo y o hy ho).1
  obtain ⟨r1, a1, a2⟩ := checked_add_days_spec (dateOfYo y o) c hinv hc
  obtain ⟨r2, b1, b2⟩ := checked_sub_days_spec (dateOfYo y o) c hinv hc
  exact ⟨⟨r1, a1, shift_yo y o c r1 hy ho a2⟩, ⟨r2, b1, shift_yo y o (-c) r2 hy ho b2⟩⟩

example : Date.add_days (dateOfYo 2023 365) 1 = .ok (some (dateOfYo 2024 1)) ∧
    Date.add_days Date.MAX 1 = .ok none ∧ Date.add_days Date.MIN 191491528 = .ok (some Date.MAX) ∧
    Date.checked_sub_days (dateOfYo 2024 60) 60 = .ok (some (dateOfYo 2023 365)) ∧
    Date.checked_add_days Date.MIN 4294967296 = .ok none := by decide +kernel

/-- **0-based twins** (`Datelike::{month0, day0, ordinal0}` of `NaiveDate`, each "the 1-based accessor
minus one" on `u32`): for every date (any year) none of the subtractions underflows (no panic) and
the results are one less than the calendar form's month, day and ordinal -/
theorem zero_based_ok (y : Int) (o : Nat) (ho : 1 ≤ o ∧ o ≤ yearLen y) :
    (dateOfYo y o).month0 = .ok (monthOfYo y o - 1) ∧ (dateOfYo y o).day0 = .ok (dayOfYo y o - 1) ∧
    (dateOfYo y o).ordinal0 = .ok (o - 1) ∧ 1 ≤ monthOfYo y o ∧ 1 ≤ dayOfYo y o := zero_based' y o ho

example : (dateOfYo 2024 60).month0 = .ok 1 ∧ (dateOfYo 2024 60).day0 = .ok 28 ∧
    (dateOfYo 2024 60).ordinal0 = .ok 59 ∧ Date.MIN.month0 = .ok 0 ∧ Date.MAX.day0 = .ok 30 ∧
    Date.month0 ⟨0⟩ = .panic := by decide +kernel

/-- **the domain device is the representation invariant**: a packed word satisfies `DateInv` (year in
range, ordinal exists in that year, low bits are the year's flags — Spec/DateSpec.lean) exactly when it
is `dateOfYo y o` for a year of the range and an existing ordinal.  So the theorems of this file,
quantified over `dateOfYo y o`, are about exactly the values with the invariant (which C15 proves every
constructor and operation returns). -/
theorem date_invariant_iff (d : Date) :
    DateInv d ↔ ∃ (y : Int) (o : Nat), d = dateOfYo y o ∧ MIN_YEAR ≤ y ∧ y ≤ MAX_YEAR ∧ 1 ≤ o ∧
      o ≤ yearLen y := by
  constructor
  · intro h
    obtain ⟨he, p1, p2, _⟩ := inv_eq d h
    exact ⟨_, _, he, h.1, h.2.1, p1, p2⟩
  · rintro ⟨y, o, rfl, a, b, c, e⟩
    exact (inv_of_yo y o ⟨a, b⟩ ⟨c, e⟩).1

example : DateInv Date.MIN ∧ DateInv Date.MAX ∧ ¬ DateInv Date.BEFORE_MIN ∧ ¬ DateInv Date.AFTER_MAX ∧
    ¬ DateInv ⟨2023 * 8192 + 366 * 16 + flagsOf 2023⟩ ∧ ¬ DateInv ⟨2024 * 8192 + 60 * 16 + 0⟩ := by
  decide +kernel

/-- **week 1 contains 4 January** on the accessor itself: for every year of the range, 4 January has
ISO year = calendar year and ISO week 1 (the clause of the statement, read off `iso_week` directly) -/
theorem jan4_in_week1 (y : Int) (hy : MIN_YEAR ≤ y ∧ y ≤ MAX_YEAR) :
    ∃ ywf, Date.iso_week (dateOfYo y 4) = .ok ywf ∧ IsoWeek.year ywf = y ∧ IsoWeek.week ywf = 1 := by
  have hl := yearLen_ge y
  obtain ⟨ywf, Y, ot, h1, h2, h3, h4, h5, h6, _, _⟩ := iso_week_spec y 4 hy ⟨by omega, by omega⟩
  have hk : ∃ k : Nat, 1 ≤ k ∧ k ≤ 7 ∧ dayNumYo y k = isoThursday (dayNumYo y ((4 : Nat) : Int)) := by
    unfold isoThursday weekdayOf dayNumYo
    generalize daysBeforeYear y = D
    refine ⟨(7 - ((D + 4 + 6) % 7)).toNat, ?_, ?_, ?_⟩ <;> omega
  obtain ⟨k, k1, k2, k3⟩ := hk
  obtain ⟨u1, u2⟩ := yo_form_unique Y y ot k ⟨h2, h3⟩ ⟨k1, by omega⟩ (by rw [h4, k3])
  subst u1 u2
  refine ⟨ywf, h1, h5, ?_⟩
  rw [h6]
  have : (ot - 1) / 7 + 1 = 1 := by omega
  rw [this]; rfl

example : Date.iso_week (dateOfYo 2021 4) = .ok (2021 * 1024 + 1 * 16 + flagsOf 2021) ∧
    Date.iso_week (dateOfYo 2021 3) = .ok (2020 * 1024 + 53 * 16 + flagsOf 2020) ∧
    IsoWeek.week (2021 * 1024 + 1 * 16 + flagsOf 2021) = 1 := by decide +kernel

/-- **successor on the user-visible accessors**: when `succ_opt` returns a date, its `weekday()` is the
`Weekday::succ` of the date's and it compares greater (`Date.cmp = -1`); `succ_ok` gives the day number -/
theorem succ_weekday (y : Int) (o : Nat) (hy : MIN_YEAR ≤ y ∧ y ≤ MAX_YEAR) (ho : 1 ≤ o ∧ o ≤ yearLen y)
    (d' : Date) (h : Date.succ_opt (dateOfYo y o) = .ok (some d')) :
    d'.weekday = (dateOfYo y o).weekday.succ ∧ Date.cmp (dateOfYo y o) d' = -1 :=
  succ_weekday' y o hy ho d' h

/-- the predecessor has the previous weekday and compares smaller -/
theorem pred_weekday (y : Int) (o : Nat) (hy : MIN_YEAR ≤ y ∧ y ≤ MAX_YEAR) (ho : 1 ≤ o ∧ o ≤ yearLen y)
    (d' : Date) (h : Date.pred_opt (dateOfYo y o) = .ok (some d')) :
    d'.weekday = (dateOfYo y o).weekday.pred ∧ Date.cmp (dateOfYo y o) d' = 1 :=
  pred_weekday' y o hy ho d' h

example : Date.succ_opt (dateOfYo 2023 365) = .ok (some (dateOfYo 2024 1)) ∧
    (dateOfYo 2023 365).weekday = .sun ∧ (dateOfYo 2024 1).weekday = .mon ∧
    Date.pred_opt (dateOfYo 2024 1) = .ok (some (dateOfYo 2023 365)) := by decide +kernel

/-! ### Second audit (audit2/C01.md, closed 2026-09-30; helper lemmas: Proofs/C01Round2L.lean) -/

/-- **the calendar specification is coherent** (audit2 gap 2a), for **every** integer year (negative
years and year 0 included): the closed-form day number advances from one 1 January to the next by
exactly the length the leap rule gives the year, and by 146097 days over 400 years; the ordinal of
1 January is 1, the first day of each month follows the last day (by `monthLen`) of the month before,
and 31 December is day `yearLen`.  Together with the anchor `consts_ok` (1970-01-01 = day 719163, a
Thursday) this derives the closed form `daysBeforeYear` and the cumulative table inside `ordinalOf`
from the leap rule and the month lengths alone — a table with two months swapped, or a closed form
that drifts in negative years, would satisfy the bijection theorems (`ymd_form_unique`,
`accessors_ok`) but not this one.  (The external validation against Python / GNU date covers
years 1..9999 only; this theorem is what carries it to every other year.) -/
theorem spec_coherent (y : Int) :
    daysBeforeYear (y + 1) = daysBeforeYear y + yearLen y ∧
    daysBeforeYear (y + 400) = daysBeforeYear y + 146097 ∧
    ordinalOf y 1 1 = 1 ∧
    (∀ m, 1 ≤ m → m < 12 → ordinalOf y (m + 1) 1 = ordinalOf y m (monthLen y m) + 1) ∧
    ordinalOf y 12 31 = yearLen y ∧
    (∀ m d, validYmd y m d = true → 1 ≤ ordinalOf y m d ∧ ordinalOf y m d ≤ yearLen y) :=
  ⟨dby_step y, dby_400 y, ordinalOf_jan1 y, ordinalOf_month_step y, (ordinalOf_dec31 y).1,
    valid_ordinal_bounds y⟩

/-- non-vacuity: a leap year, a common century, year 0 (leap) and a negative leap year -/
example : yearLen 2024 = 366 ∧ yearLen 1900 = 365 ∧ yearLen 0 = 366 ∧ yearLen (-4) = 366 ∧
    daysBeforeYear 1 = 0 ∧ daysBeforeYear 0 = -366 ∧ daysBeforeYear (-399) = -146097 ∧
    ordinalOf 2024 3 1 = ordinalOf 2024 2 29 + 1 ∧ ordinalOf 2023 3 1 = ordinalOf 2023 2 28 + 1 ∧
    monthLen (-4) 2 = 29 := by decide

/-- **exactly one year-month-day form, at the user level** (audit2 gap 3): two argument tuples for
which `from_ymd_opt` returns the same date are the same tuple -/
theorem ymd_inj (y y' : Int) (m d m' d' : Nat) (x : Date)
    (h : Date.from_ymd_opt y m d = .ok (some x)) (h' : Date.from_ymd_opt y' m' d' = .ok (some x)) :
    y = y' ∧ m = m' ∧ d = d' := ymd_inj' y y' m d m' d' x h h'

/-- exactly one year-ordinal form: `from_yo_opt` is injective on the tuples it accepts -/
theorem yo_inj (y y' : Int) (o o' : Nat) (x : Date)
    (h : Date.from_yo_opt y o = .ok (some x)) (h' : Date.from_yo_opt y' o' = .ok (some x)) :
    y = y' ∧ o = o' := yo_inj' y y' o o' x h h'

/-- exactly one ISO week-date form: `from_isoywd_opt` is injective on the tuples it accepts (all
integers `y`, all naturals `w`, no range hypothesis) -/
theorem isoywd_inj (y y' : Int) (w w' : Nat) (wd wd' : Weekday) (x : Date)
    (h : Date.from_isoywd_opt y w wd = .ok (some x))
    (h' : Date.from_isoywd_opt y' w' wd' = .ok (some x)) : y = y' ∧ w = w' ∧ wd = wd' :=
  isoywd_inj' y y' w w' wd wd' x h h'

/-- exactly one day number: `from_num_days_from_ce_opt` is injective on the `i32`s it accepts -/
theorem days_inj (n n' : Int) (hn : -2147483648 ≤ n ∧ n ≤ 2147483647)
    (hn' : -2147483648 ≤ n' ∧ n' ≤ 2147483647) (x : Date)
    (h : Date.from_num_days_from_ce_opt n = .ok (some x))
    (h' : Date.from_num_days_from_ce_opt n' = .ok (some x)) : n = n' := days_inj' n n' hn hn' x h h'

/-- non-vacuity: the hypotheses are met (one date, its four accepted tuples), and the checked `week0`
does panic on a packed word whose week field is 0 while the ISO week of a date never has one -/
example : Date.from_ymd_opt 2024 2 29 = .ok (some (dateOfYo 2024 60)) ∧
    Date.from_yo_opt 2024 60 = .ok (some (dateOfYo 2024 60)) ∧
    Date.from_isoywd_opt 2024 9 .thu = .ok (some (dateOfYo 2024 60)) ∧
    Date.from_num_days_from_ce_opt 738945 = .ok (some (dateOfYo 2024 60)) ∧
    IsoWeek.week0r (2024 * 1024 + 0 * 16 + 6) = .panic ∧
    IsoWeek.week0r (2024 * 1024 + 9 * 16 + 6) = .ok 8 := by decide +kernel

/-! ### End to end: translated source text = specification

`Chrono.Props.GenDate.gen_*_eq` prove the definitions that tools/extractors/rust2lean.py regenerates from the
Rust source text on every run (lean/Chrono/Extracted/Gen.lean) equal to the hand-written model; the theorems
above prove the model equal to the specification.  Composed here, so that the statement about the
translated code does not mention the model at all.  A `NaiveDate` is its packed word (`Date.yof`).
Not composable yet: `from_isoywd_opt`, `iso_week`, the 0-based twins (no `gen_*_eq`, see audit2/C01.md gap 1). -/

/-- `NaiveDate::from_ymd_opt` as translated from the source, every `i32`/`u32` argument tuple -/
theorem code_from_ymd_opt (y : Int) (m d : Nat) (hm : m ≤ 4294967295) (hd : d ≤ 4294967295) :
    Gen.naive_date.NaiveDate.from_ymd_opt y m d =
      .ok (if MIN_YEAR ≤ y ∧ y ≤ MAX_YEAR ∧ validYmd y m d = true
           then some (dateOfYo y (ordinalOf y m d)).yof else none) := by
  rw [GenDate.gen_from_ymd_opt_eq y m d hm hd, ctor_ymd]
  by_cases c : MIN_YEAR ≤ y ∧ y ≤ MAX_YEAR ∧ validYmd y m d = true
  · rw [if_pos c, if_pos c]; rfl
  · rw [if_neg c, if_neg c]; rfl

/-- `NaiveDate::from_yo_opt` as translated from the source -/
theorem code_from_yo_opt (y : Int) (o : Nat) (ho : o ≤ 4294967295) :
    Gen.naive_date.NaiveDate.from_yo_opt y o =
      .ok (if MIN_YEAR ≤ y ∧ y ≤ MAX_YEAR ∧ 1 ≤ o ∧ o ≤ yearLen y then some (dateOfYo y o).yof else none) := by
  rw [GenDate.gen_from_yo_opt_eq y o ho, ctor_yo]
  by_cases c : MIN_YEAR ≤ y ∧ y ≤ MAX_YEAR ∧ 1 ≤ o ∧ o ≤ yearLen y
  · rw [if_pos c, if_pos c]; rfl
  · rw [if_neg c, if_neg c]; rfl

/-- `NaiveDate::from_num_days_from_ce_opt` as translated from the source, every `i32` -/
theorem code_from_num_days_from_ce_opt (n : Int) (hn : -2147483648 ≤ n ∧ n ≤ 2147483647) :
    ∃ r, Gen.naive_date.NaiveDate.from_num_days_from_ce_opt n = .ok r ∧
      (∀ w, r = some w → ∃ y o, w = (dateOfYo y o).yof ∧ MIN_YEAR ≤ y ∧ y ≤ MAX_YEAR ∧ 1 ≤ o ∧
        o ≤ yearLen y ∧ dayNumYo y o = n) ∧
      (r = none ↔ (n < dayNumYo MIN_YEAR 1 ∨ n > dayNumYo MAX_YEAR 365)) := by
  obtain ⟨r, h1, h2, h3⟩ := ctor_days n hn
  refine ⟨r.map Date.yof, ?_, ?_, ?_⟩
  · rw [GenDate.gen_from_num_days_from_ce_opt_eq n hn, h1]; rfl
  · intro w hw
    cases r with
    | none => exact absurd hw (by simp)
    | some d =>
      obtain ⟨y, o, e, rest⟩ := h2 d rfl
      refine ⟨y, o, ?_, rest⟩
      rw [← e]; exact (Option.some.inj hw).symm
  · rw [← h3]; cases r <;> simp

/-- the translated accessors on the packed word of the o-th day of year y: the calendar form, the
closed-form day number, the weekday of the day number -/
theorem code_accessors (y : Int) (o : Nat) (hy : MIN_YEAR ≤ y ∧ y ≤ MAX_YEAR) (ho : 1 ≤ o ∧ o ≤ yearLen y) :
    Gen.naive_date.NaiveDate.year (dateOfYo y o).yof = y ∧
    Gen.naive_date.NaiveDate.ordinal (dateOfYo y o).yof = o ∧
    Gen.naive_date.NaiveDate.leap_year (dateOfYo y o).yof = isLeap y ∧
    Gen.naive_date.NaiveDate.month (dateOfYo y o).yof = .ok (monthOfYo y o : Int) ∧
    Gen.naive_date.NaiveDate.day (dateOfYo y o).yof = .ok (dayOfYo y o : Int) ∧
    Gen.naive_date.NaiveDate.num_days_from_ce (dateOfYo y o).yof = .ok (dayNumYo y o) ∧
    Gen.traits.NaiveDate.Datelike.num_days_from_ce (dateOfYo y o).yof = .ok (dayNumYo y o) ∧
    (∃ w : Nat, Gen.naive_date.NaiveDate.weekday (dateOfYo y o).yof = .ok w ∧
      (w : Int) = weekdayOf (dayNumYo y o)) := by
  obtain ⟨a1, a2, a3, a4, a5, _, _, a8, a9⟩ := accessors_ok y o hy ho
  have hw : -2147483648 ≤ (dateOfYo y o).yof ∧ (dateOfYo y o).yof ≤ 2147483647 := by
    have hf := (flagsOf_facts y).1
    have hl := yearLen_ge y
    have hMIN : MIN_YEAR = -262143 := rfl
    have hMAX : MAX_YEAR = 262142 := rfl
    unfold dateOfYo; dsimp only; omega
  refine ⟨?_, ?_, ?_, ?_, ?_, ?_, ?_, ?_⟩
  · rw [GenDate.gen_year_eq, a1]
  · rw [GenDate.gen_ordinal_eq, a2]
  · rw [GenDate.gen_leap_year_eq, a3]
  · rw [GenDate.gen_month_eq, a4]; rfl
  · rw [GenDate.gen_day_eq, a5]; rfl
  · rw [GenDate.gen_num_days_from_ce_eq _ hw, a8]
  · rw [GenDate.gen_datelike_num_days_from_ce_eq _ hw, a8]
  · exact ⟨_, GenDate.gen_weekday_eq _, a9⟩

/-- `NaiveDate::succ_opt` as translated from the source: the next day, `None` exactly at MAX -/
theorem code_succ_opt (y : Int) (o : Nat) (hy : MIN_YEAR ≤ y ∧ y ≤ MAX_YEAR) (ho : 1 ≤ o ∧ o ≤ yearLen y) :
    ∃ r, Gen.naive_date.NaiveDate.succ_opt (dateOfYo y o).yof = .ok r ∧
      (r = none ↔ dateOfYo y o = Date.MAX) ∧
      (∀ w, r = some w → ∃ y' o', w = (dateOfYo y' o').yof ∧ MIN_YEAR ≤ y' ∧ y' ≤ MAX_YEAR ∧ 1 ≤ o' ∧
        o' ≤ yearLen y' ∧ dayNumYo y' o' = dayNumYo y o + 1) := by
  obtain ⟨r, h1, h2, h3⟩ := succ_ok y o hy ho
  have hw : -2147483648 ≤ (dateOfYo y o).yof ∧ (dateOfYo y o).yof ≤ 2147483647 := by
    have hf := (flagsOf_facts y).1
    have hl := yearLen_ge y
    have hMIN : MIN_YEAR = -262143 := rfl
    have hMAX : MAX_YEAR = 262142 := rfl
    unfold dateOfYo; dsimp only; omega
  refine ⟨r.map Date.yof, ?_, ?_, ?_⟩
  · rw [GenDate.gen_succ_opt_eq _ hw, h1]; rfl
  · rw [← h2]; cases r <;> simp
  · intro w hw'
    cases r with
    | none => exact absurd hw' (by simp)
    | some d =>
      obtain ⟨y', o', e, b1, b2, b3, b4, b5, _⟩ := h3 d rfl
      refine ⟨y', o', ?_, b1, b2, b3, b4, b5⟩
      rw [← e]; exact (Option.some.inj hw').symm

/-- `NaiveDate::pred_opt` as translated from the source: the previous day, `None` exactly at MIN -/
theorem code_pred_opt (y : Int) (o : Nat) (hy : MIN_YEAR ≤ y ∧ y ≤ MAX_YEAR) (ho : 1 ≤ o ∧ o ≤ yearLen y) :
    ∃ r, Gen.naive_date.NaiveDate.pred_opt (dateOfYo y o).yof = .ok r ∧
      (r = none ↔ dateOfYo y o = Date.MIN) ∧
      (∀ w, r = some w → ∃ y' o', w = (dateOfYo y' o').yof ∧ MIN_YEAR ≤ y' ∧ y' ≤ MAX_YEAR ∧ 1 ≤ o' ∧
        o' ≤ yearLen y' ∧ dayNumYo y' o' = dayNumYo y o - 1) := by
  obtain ⟨r, h1, h2, h3⟩ := pred_ok y o hy ho
  have hf := (flagsOf_facts y).1
  have hl := yearLen_ge y
  have hw : -2147483648 ≤ (dateOfYo y o).yof ∧ (dateOfYo y o).yof ≤ 2147483647 := by
    have hMIN : MIN_YEAR = -262143 := rfl
    have hMAX : MAX_YEAR = 262142 := rfl
    unfold dateOfYo; dsimp only; omega
  have hol : (dateOfYo y o).yof / 8 % 1024 ≤ 732 := by
    have hfl := (year_flags_spec y).2.2
    have ho2 := ho.2
    unfold yearLen at ho2
    unfold dateOfYo; dsimp only
    cases hq : isLeap y <;> simp [hq] at hfl ho2 <;> omega
  refine ⟨r.map Date.yof, ?_, ?_, ?_⟩
  · rw [GenDate.gen_pred_opt_eq _ hw hol, h1]; rfl
  · rw [← h2]; cases r <;> simp
  · intro w hw'
    cases r with
    | none => exact absurd hw' (by simp)
    | some d =>
      obtain ⟨y', o', e, rest⟩ := h3 d rfl
      refine ⟨y', o', ?_, rest⟩
      rw [← e]; exact (Option.some.inj hw').symm

/-- non-vacuity on the translated code itself -/
example : Gen.naive_date.NaiveDate.from_ymd_opt 2024 2 29 = .ok (some (dateOfYo 2024 60).yof) ∧
    Gen.naive_date.NaiveDate.from_ymd_opt 2023 2 29 = .ok none ∧
    Gen.naive_date.NaiveDate.from_yo_opt (-262143) 1 = .ok (some Date.MIN.yof) ∧
    Gen.naive_date.NaiveDate.succ_opt Date.MAX.yof = .ok none ∧
    Gen.naive_date.NaiveDate.pred_opt Date.MIN.yof = .ok none := by decide +kernel

end Chrono.Props.C01
