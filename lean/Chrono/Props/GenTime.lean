/-
  C07, code translation tie: the definitions that tools/extractors/rust2lean.py regenerates from
  src/naive/time/mod.rs, src/offset/fixed.rs and the `Timelike` default methods of src/traits.rs (read at
  `Self = NaiveTime`) on every run (lean/Chrono/Extracted/Gen.lean, `Chrono.Gen.naive_time.*`,
  `Chrono.Gen.offset_fixed.*`, `Chrono.Gen.traits.NaiveTime.*`) equal the hand-written model
  lean/Chrono/Model/Time.lean for all arguments of the machine types.  Hypotheses state the ranges of the
  parameter types (`u32` fields: `U32Fields`; `TimeDelta` fields: `DFields`) and, only where the code itself
  relies on it, the type invariant of `NaiveTime` (`Inv`).  `tG` maps the model's `Time` to the generated
  two-field structure, `pG` a `(Time, carry)` pair, `dG` a `Delta`, `rmap` a `Res` result.
-/
import Chrono.Proofs.GenTimeL
import Chrono.Props.GenDelta

namespace Chrono.Props.GenTime
open Chrono Chrono.M Chrono.Extracted Chrono.Proofs.GenL Chrono.Proofs.GenTimeL

/-! ### constructors -/

theorem gen_from_hms_nano_opt_eq (hour min sec nano : Int)
    (hh : 0 ≤ hour ∧ hour ≤ 4294967295) (hm : 0 ≤ min ∧ min ≤ 4294967295)
    (hs : 0 ≤ sec ∧ sec ≤ 4294967295) (_hn : 0 ≤ nano ∧ nano ≤ 4294967295) :
    Gen.naive_time.NaiveTime.from_hms_nano_opt hour min sec nano
      = .ok ((Time.from_hms_nano_opt hour min sec nano).map tG) := by
  unfold Gen.naive_time.NaiveTime.from_hms_nano_opt Time.from_hms_nano_opt
  by_cases h : (hour ≥ 24 ∨ min ≥ 60 ∨ sec ≥ 60) ∨ (nano ≥ 1000000000 ∧ sec ≠ 59) ∨ nano ≥ 2000000000
  · rw [if_pos h, if_pos (by omega)]; rfl
  · rw [if_neg h, if_neg (by omega)]
    rw [ckU32_ok (by omega), bind_ok, ckU32_ok (by omega), bind_ok, ckU32_ok (by omega), bind_ok,
      ckU32_ok (by omega), bind_ok]
    rfl

theorem gen_from_hms_opt_eq (hour min sec : Int)
    (hh : 0 ≤ hour ∧ hour ≤ 4294967295) (hm : 0 ≤ min ∧ min ≤ 4294967295)
    (hs : 0 ≤ sec ∧ sec ≤ 4294967295) :
    Gen.naive_time.NaiveTime.from_hms_opt hour min sec = .ok ((Time.from_hms_opt hour min sec).map tG) :=
  gen_from_hms_nano_opt_eq hour min sec 0 hh hm hs (by omega)

theorem gen_from_hms_milli_opt_eq (hour min sec milli : Int)
    (hh : 0 ≤ hour ∧ hour ≤ 4294967295) (hm : 0 ≤ min ∧ min ≤ 4294967295)
    (hs : 0 ≤ sec ∧ sec ≤ 4294967295) (_hn : 0 ≤ milli ∧ milli ≤ 4294967295) :
    Gen.naive_time.NaiveTime.from_hms_milli_opt hour min sec milli
      = .ok ((Time.from_hms_milli_opt hour min sec milli).map tG) := by
  unfold Gen.naive_time.NaiveTime.from_hms_milli_opt Time.from_hms_milli_opt
  rw [optU32_def]
  by_cases h : 0 ≤ milli * 1000000 ∧ milli * 1000000 ≤ 4294967295
  · rw [if_pos h]; exact gen_from_hms_nano_opt_eq hour min sec _ hh hm hs h
  · rw [if_neg h]; rfl

theorem gen_from_hms_micro_opt_eq (hour min sec micro : Int)
    (hh : 0 ≤ hour ∧ hour ≤ 4294967295) (hm : 0 ≤ min ∧ min ≤ 4294967295)
    (hs : 0 ≤ sec ∧ sec ≤ 4294967295) (_hn : 0 ≤ micro ∧ micro ≤ 4294967295) :
    Gen.naive_time.NaiveTime.from_hms_micro_opt hour min sec micro
      = .ok ((Time.from_hms_micro_opt hour min sec micro).map tG) := by
  unfold Gen.naive_time.NaiveTime.from_hms_micro_opt Time.from_hms_micro_opt
  rw [optU32_def]
  by_cases h : 0 ≤ micro * 1000 ∧ micro * 1000 ≤ 4294967295
  · rw [if_pos h]; exact gen_from_hms_nano_opt_eq hour min sec _ hh hm hs h
  · rw [if_neg h]; rfl

theorem gen_from_num_seconds_from_midnight_opt_eq (secs nano : Int) :
    Gen.naive_time.NaiveTime.from_num_seconds_from_midnight_opt secs nano
      = (Time.from_num_seconds_from_midnight_opt secs nano).map tG := by
  unfold Gen.naive_time.NaiveTime.from_num_seconds_from_midnight_opt Time.from_num_seconds_from_midnight_opt
  split <;> rfl

/-! ### accessors -/

theorem gen_hms_eq (t : Time) : Gen.naive_time.NaiveTime.hms (tG t) = t.hms := rfl
theorem gen_hour_eq (t : Time) : Gen.naive_time.NaiveTime.Timelike.hour (tG t) = t.hour := rfl
theorem gen_minute_eq (t : Time) : Gen.naive_time.NaiveTime.Timelike.minute (tG t) = t.minute := rfl
theorem gen_second_eq (t : Time) : Gen.naive_time.NaiveTime.Timelike.second (tG t) = t.second := rfl
theorem gen_nanosecond_eq (t : Time) :
    Gen.naive_time.NaiveTime.Timelike.nanosecond (tG t) = t.nanosecond
    ∧ Gen.naive_time.NaiveTime.nanosecond (tG t) = t.nanosecond := ⟨rfl, rfl⟩
theorem gen_num_seconds_from_midnight_eq (t : Time) :
    Gen.naive_time.NaiveTime.Timelike.num_seconds_from_midnight (tG t) = t.num_seconds_from_midnight
    ∧ Gen.naive_time.NaiveTime.num_seconds_from_midnight (tG t) = t.num_seconds_from_midnight := ⟨rfl, rfl⟩
/-- the `Timelike` default body (not the override) read at `Self = NaiveTime` -/
theorem gen_num_seconds_from_midnight_default_eq (t : Time) :
    Gen.traits.NaiveTime.Timelike.num_seconds_from_midnight (tG t) = t.num_seconds_from_midnight_default := rfl
theorem gen_hour12_eq (t : Time) : Gen.traits.NaiveTime.Timelike.hour12 (tG t) = t.hour12 := by
  unfold Gen.traits.NaiveTime.Timelike.hour12 Time.hour12
  generalize he : Gen.naive_time.NaiveTime.Timelike.hour (tG t) = x
  have hx : t.hour = x := he
  rw [hx]
  dsimp only
  split <;> rfl

/-! ### single-field replacement -/

theorem gen_with_hour_eq (t : Time) (hour : Int) (ht : U32Fields t) (hh : 0 ≤ hour ∧ hour ≤ 4294967295) :
    Gen.naive_time.NaiveTime.Timelike.with_hour (tG t) hour = .ok ((t.with_hour hour).map tG) := by
  unfold Gen.naive_time.NaiveTime.Timelike.with_hour Time.with_hour
  obtain ⟨hs, _⟩ := ht
  split
  · rfl
  · dsimp only
    rw [ckU32_ok (by omega), bind_ok, ckU32_ok (by omega), bind_ok]; rfl

theorem gen_with_minute_eq (t : Time) (min : Int) (ht : Inv t) (hm : 0 ≤ min ∧ min ≤ 4294967295) :
    Gen.naive_time.NaiveTime.Timelike.with_minute (tG t) min = .ok ((t.with_minute min).map tG) := by
  unfold Gen.naive_time.NaiveTime.Timelike.with_minute Time.with_minute
  obtain ⟨hs, _⟩ := ht
  split
  · rfl
  · dsimp only
    rw [ckU32_ok (by omega), bind_ok, ckU32_ok (by omega), bind_ok, ckU32_ok (by omega), bind_ok,
      ckU32_ok (by omega), bind_ok]; rfl

theorem gen_with_second_eq (t : Time) (sec : Int) (ht : Inv t) (hm : 0 ≤ sec ∧ sec ≤ 4294967295) :
    Gen.naive_time.NaiveTime.Timelike.with_second (tG t) sec = .ok ((t.with_second sec).map tG) := by
  unfold Gen.naive_time.NaiveTime.Timelike.with_second Time.with_second
  obtain ⟨hs, _⟩ := ht
  split
  · rfl
  · dsimp only
    rw [ckU32_ok (by omega), bind_ok, ckU32_ok (by omega), bind_ok]; rfl

theorem gen_with_nanosecond_eq (t : Time) (nano : Int) :
    Gen.naive_time.NaiveTime.Timelike.with_nanosecond (tG t) nano = (t.with_nanosecond nano).map tG := by
  unfold Gen.naive_time.NaiveTime.Timelike.with_nanosecond Time.with_nanosecond
  split <;> rfl

/-! ### arithmetic -/

theorem gen_overflowing_add_signed_eq (t : Time) (rhs : Delta) (hd : DFields rhs) :
    Gen.naive_time.NaiveTime.overflowing_add_signed (tG t) (dG rhs)
      = rmap pG (t.overflowing_add_signed rhs) := by
  rw [gen_oas_unfold]
  unfold Time.overflowing_add_signed
  rw [GenDelta.gen_num_seconds_eq rhs hd.1, GenDelta.gen_subsec_nanos_eq rhs hd.2]
  simp only [bind_ok, genTail_eq]
  have hn : -2147483648 ≤ rhs.subsec_nanos ∧ rhs.subsec_nanos ≤ 2147483647 := by
    unfold Delta.subsec_nanos; gdfacts; obtain ⟨_, h2⟩ := hd; split <;> omega
  generalize rhs.num_seconds = sa at *
  generalize rhs.subsec_nanos = fa at *
  have hf := asI32_range t.frac
  generalize asI32 t.frac = f at *
  generalize t.secs = s0
  gen_split
  all_goals first
    | rfl
    | (exfalso; omega)
    | (exfalso; simp only [decide_eq_true_eq, not_true_eq_false] at *; omega)
    | (exfalso; exact ‹¬True› trivial)
    | (exfalso; exact Bool.noConfusion ‹false = true›)

theorem gen_overflowing_sub_signed_eq (t : Time) (rhs : Delta) :
    Gen.naive_time.NaiveTime.overflowing_sub_signed (tG t) (dG rhs)
      = rmap pG (t.overflowing_sub_signed rhs) := by
  unfold Gen.naive_time.NaiveTime.overflowing_sub_signed Time.overflowing_sub_signed
  rw [GenDelta.gen_neg_eq]
  cases hneg : Delta.neg rhs with
  | panic => rfl
  | ok n =>
    simp only [rmap, bind_ok]
    rw [gen_overflowing_add_signed_eq t n (neg_fields rhs n hneg)]
    cases Time.overflowing_add_signed t n with
    | panic => rfl
    | ok p =>
      simp only [rmap, bind_ok]
      cases ckI64 (-p.2) <;> rfl

theorem sds_tail (s fr : Int) (hs : -9223372036854775808 ≤ s + fr / 1000000000 ∧ s + fr / 1000000000 ≤ 9223372036854775807) :
    (Res.bind (ckI64 (s + fr / 1000000000)) fun r =>
      match Gen.time_delta.TimeDelta.new r (asU32 (fr % 1000000000)) with
      | some r2 => Res.ok r2
      | none => Res.panic)
    = rmap dG (match Delta.new (s + fr / 1000000000) (asU32 (fr % 1000000000)) with
      | some d => Res.ok d
      | none => Res.panic) := by
  rw [ckI64_ok hs, bind_ok, GenDelta.gen_new_eq _ _ (asU32_range _).1 (asU32_range _).2]
  cases Delta.new (s + fr / 1000000000) (asU32 (fr % 1000000000)) <;> rfl

theorem gen_signed_duration_since_eq (a b : Time) (ha : U32Fields a) (hb : U32Fields b) :
    Gen.naive_time.NaiveTime.signed_duration_since (tG a) (tG b)
      = rmap dG (a.signed_duration_since b) := by
  unfold Gen.naive_time.NaiveTime.signed_duration_since Time.signed_duration_since
  obtain ⟨⟨a1, a2⟩, ⟨a3, a4⟩⟩ := ha
  obtain ⟨⟨b1, b2⟩, ⟨b3, b4⟩⟩ := hb
  dsimp only
  rw [ckI64_ok (by omega), bind_ok, ckI64_ok (by omega), bind_ok]
  by_cases h1 : a.secs > b.secs ∧ b.frac ≥ 1000000000
  · rw [if_pos h1, if_pos h1, ckI64_ok (by omega), bind_ok]
    exact sds_tail _ _ (by omega)
  · rw [if_neg h1, if_neg h1]
    by_cases h2 : a.secs < b.secs ∧ a.frac ≥ 1000000000
    · rw [if_pos h2, if_pos h2, ckI64_ok (by omega), bind_ok]
      exact sds_tail _ _ (by omega)
    · rw [if_neg h2, if_neg h2]
      exact sds_tail _ _ (by omega)

/-- `off` is the `FixedOffset` argument, represented by its only field `local_minus_utc : i32` -/
theorem gen_overflowing_add_offset_eq (t : Time) (off : Int) :
    Gen.naive_time.NaiveTime.overflowing_add_offset (tG t) off = rmap pG (t.overflowing_add_offset off) := by
  unfold Gen.naive_time.NaiveTime.overflowing_add_offset Time.overflowing_add_offset
    Gen.offset_fixed.FixedOffset.local_minus_utc
  dsimp only
  cases ckI32 (asI32 t.secs + off) <;> rfl

theorem gen_overflowing_sub_offset_eq (t : Time) (off : Int) :
    Gen.naive_time.NaiveTime.overflowing_sub_offset (tG t) off = rmap pG (t.overflowing_sub_offset off) := by
  unfold Gen.naive_time.NaiveTime.overflowing_sub_offset Time.overflowing_sub_offset
    Gen.offset_fixed.FixedOffset.local_minus_utc
  dsimp only
  cases ckI32 (asI32 t.secs - off) <;> rfl

/-- the theorems are about non-trivial values: 23:59:59 plus 1.5 s wraps with a day of carry; a leap second
minus half a second stays inside it; the leap second counts in a difference -/
example : Gen.naive_time.NaiveTime.overflowing_add_signed ⟨86399, 0⟩ ⟨1, 500000000⟩ = .ok (⟨0, 500000000⟩, 86400)
    ∧ Gen.naive_time.NaiveTime.overflowing_sub_signed ⟨86399, 1700000000⟩ ⟨0, 500000000⟩ = .ok (⟨86399, 1200000000⟩, 0)
    ∧ Gen.naive_time.NaiveTime.signed_duration_since ⟨3600, 0⟩ ⟨3599, 1500000000⟩ = .ok ⟨0, 500000000⟩
    ∧ Gen.naive_time.NaiveTime.from_hms_milli_opt 23 59 59 1999 = .ok (some ⟨86399, 1999000000⟩)
    ∧ Gen.naive_time.NaiveTime.Timelike.with_minute ⟨86399, 7⟩ 30 = .ok (some ⟨84659, 7⟩) := by decide

end Chrono.Props.GenTime
