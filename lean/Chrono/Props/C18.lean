/-
  C18 — `Local` uses the zone the environment names, and notices changes.
  Property statements only.  Model: `Chrono.M.LocalCache` (state machine with atomic steps, an
  abstract clock, the file system / rule reader / system zone name as parameters `World`).
  Specification: `Chrono.Spec.LocalCache` (`zoneFor`, `named`, `systemZone`, histories).
  Outside the model, hence not claimed: real thread scheduling, clock jumps,
  /etc/localtime changing without its mtime changing.
  Finding F33 (the cache keyed on a hash of the TZ text: a change between two colliding values was
  never noticed) is repaired in the crate; the cache — and the model — hold the text itself, and no
  theorem of this file assumes anything about a hash any more.  The pre-repair behaviour is pinned by
  `hash_collision_pinned_before_F33`.
-/
import Chrono.Proofs.LocalCacheNarrowL
import Chrono.Proofs.LocalCacheF33L
import Chrono.Proofs.LocalCacheWorldL

namespace Chrono.Props.C18
open Chrono.M.LocalCache Chrono.Spec.LocalCache Chrono.Proofs.LocalCache Chrono.Extracted.LocalCache
open Chrono.Proofs.LocalCacheWorld

/-- the constants re-extracted from the Rust source are the ones the property text names; and the
cache's environment source is the TEXT of TZ, compared as text, with no hasher in unix.rs (F33
repaired: if the hash comes back, the extractor writes `false` and this theorem fails) -/
theorem constants_ok :
    ZONE_INFO_DIRECTORIES = zoneinfoDirs ∧ TZDB_LOCATION = usrShareZoneinfo ∧
    LOCALTIME_NAME = localtimeWord ∧ UNSET_NAME = localtimeWord ∧
    LOCALTIME_PATH = etcLocaltime ∧ METADATA_PATH = etcLocaltime ∧ ENV_NAME = [84, 90] ∧
    FILE_PREFIX = colon ∧ REUSE_STRICT = true ∧ REUSE_SECS = 1 ∧ NANOS * REUSE_SECS = ONE_SECOND ∧
    ENV_SOURCE_IS_TEXT = true := by
  decide

/-- the zone `current_zone` builds is the zone the property demands, for every world and every
value of TZ (`none` = unset or not text) -/
theorem selection_spec (W : World) (tz : Option Bytes) :
    current_zone W tz = zoneFor W tz ∧ TimeZone.local W tz = named W tz :=
  ⟨current_zone_eq W tz, local_eq W tz⟩

/-- the selection table stated outright, one row per shape of TZ and per failure -/
theorem selection_table (W : World) :
    -- TZ unset: the system's /etc/localtime
    TimeZone.local W none = zoneIn W etcLocaltime ∧
    -- TZ empty: UTC
    TimeZone.local W (some []) = some .utc ∧
    -- TZ=localtime: /etc/localtime
    TimeZone.local W (some localtimeWord) = zoneIn W etcLocaltime ∧
    -- TZ=:/abs/path — that file, an error if it is missing, unreadable or not TZif
    (∀ p, TimeZone.local W (some (colon :: slash :: p)) =
        if exists_ W (slash :: p) = true then zoneIn W (slash :: p) else none) ∧
    -- TZ=:name — the first of the four zoneinfo directories that has the name; nothing else is tried
    (∀ n, n.head? ≠ some slash → TimeZone.local W (some (colon :: n)) =
        ((zoneinfoDirs.map (fun d => d ++ slash :: n)).find? (exists_ W)).bind (zoneIn W)) ∧
    -- TZ=name or /abs/path without colon, and such a file exists: that file (no rule reading)
    (∀ tz p, tz ≠ [] → tz ≠ localtimeWord → tz.head? ≠ some colon → fileNamed W tz = some p →
        TimeZone.local W (some tz) = zoneIn W p) ∧
    -- no such file: the POSIX rule the string holds (white space trimmed), an error if it is none
    (∀ tz, tz ≠ [] → tz ≠ localtimeWord → tz.head? ≠ some colon → fileNamed W tz = none →
        TimeZone.local W (some tz) = (W.rule (trimmed tz)).map (Zone.rule (trimmed tz))) ∧
    -- success is final; on an error the system zone, and finally UTC
    (∀ tz z, TimeZone.local W tz = some z → current_zone W tz = z) ∧
    (∀ tz, TimeZone.local W tz = none → current_zone W tz = (systemZone W).getD .utc) :=
  ⟨local_eq W none, rfl, by rw [local_eq]; rfl, row_colon_abs W, row_colon_rel W, row_plain_file W,
   row_plain_rule W, fun tz => (row_fallback W tz).1, fun tz => (row_fallback W tz).2⟩

/-- **Points the property text leaves open, as the code (and the specification) resolve them** —
behaviour a user would not infer from the statement:
1. a name that is both a file below a zoneinfo directory and a valid POSIX rule ("UTC", "EST5EDT") is
   read as the FILE, never as the rule — also when that file cannot be read or is not TZif (then: the
   system zone);
2. with a leading ':' the rule reader is never used: `:EST5EDT` with no such file is an error (system
   zone), not the rule;
3. "exists" means "can be opened": the FIRST candidate that exists decides, even if it is a directory
   or not TZif and a later zoneinfo directory holds a good file;
4. `TZ=localtime` (exactly, no colon) means /etc/localtime, not `<zoneinfo>/localtime`;
5. white space is trimmed only for the rule reading: the file lookup uses the string as it is. -/
theorem open_points_resolved (W : World) :
    (∀ tz p, tz ≠ [] → tz ≠ localtimeWord → tz.head? ≠ some colon → fileNamed W tz = some p →
      named W (some tz) = zoneIn W p ∧ (∀ s c, named W (some tz) ≠ some (.rule s c)) ∧
      (zoneIn W p = none → zoneFor W (some tz) = (systemZone W).getD .utc)) ∧
    (∀ n s c, named W (some (colon :: n)) ≠ some (.rule s c)) ∧
    (∀ n, fileNamed W n = (candidates n).find? (exists_ W)) ∧
    (∀ p, exists_ W p = true ↔ W.fs p ≠ .absent) ∧
    named W (some localtimeWord) = zoneIn W etcLocaltime ∧
    (∀ tz, tz ≠ [] → tz ≠ localtimeWord → tz.head? ≠ some colon → fileNamed W tz = none →
      named W (some tz) = (W.rule (trimmed tz)).map (Zone.rule (trimmed tz))) := by
  have hz : ∀ p s c, zoneIn W p ≠ some (.rule s c) := by
    intro p s c h
    unfold zoneIn at h
    split at h <;> simp at h
  refine ⟨?_, ?_, fun _ => rfl, ?_, rfl, ?_⟩
  · intro tz p h0 h1 h2 hf
    have e : named W (some tz) = zoneIn W p := by rw [← local_eq]; exact row_plain_file W tz p h0 h1 h2 hf
    refine ⟨e, fun s c => by rw [e]; exact hz p s c, fun hn => ?_⟩
    unfold zoneFor; rw [e, hn]; rfl
  · intro n s c h
    rw [named_cons] at h
    have h1 : ¬ (colon :: n = localtimeWord) := by simp [colon, localtimeWord]
    rw [if_neg h1, if_pos rfl] at h
    cases hf : fileNamed W n with
    | none => rw [hf] at h; simp at h
    | some p => rw [hf] at h; exact hz p s c h
  · intro p; unfold exists_; simp
  · intro tz h0 h1 h2 hf
    rw [← local_eq]; exact row_plain_rule W tz h0 h1 h2 hf

/-- the cache is reused exactly while less than one second has passed on a clock that did not go
backwards -/
theorem reuse_window (last now : Nat) :
    within_window last now = true ↔ last ≤ now ∧ now - last < ONE_SECOND :=
  within_window_iff last now

/-- **Every conversion uses the zone of a value TZ had within the last second.**  For every history
`h` of a process started with TZ = `e0` at clock `k0` (any mixture of changes of TZ, waiting,
conversions on any threads, threads starting) and a conversion made next on any thread `t` in either
direction: the history splits as `h = q ++ r` where less than one second passes in `r`, and the
conversion uses the zone demanded for the value TZ had after `q`.  (Model assumptions as everywhere in
this file: atomic steps, a clock that does not go backwards.  No assumption on the TZ values: the
cache compares the text of TZ, finding F33 repaired.) -/
theorem honoured_within_last_second (W : World) (e0 : EnvVal) (k0 : Nat) (h : List Step)
    (t : Nat) (localDir : Bool) :
    ∃ q r, h = q ++ r ∧ elapsed r < ONE_SECOND ∧
      zoneOfStep (step W (exec W (init e0 k0) h) (.convert t localDir)) =
        some (zoneFor W (env_var (envAfter e0 q))) :=
  honoured_within_last_second' W e0 k0 h t localDir

/-- **A change of TZ is honoured by EVERY conversion made at least one second later** — whatever
happens in between, further changes of TZ included: if the history is `a ++ [chg] ++ b` and at least
one second passes in `b`, the zone used is the one demanded for the value TZ had at some point `c` at
or after `chg` (and less than one second back): never the value from before `chg`. -/
theorem honoured_every_change (W : World) (e0 : EnvVal) (k0 : Nat) (a b : List Step) (chg : Step)
    (hwait : ONE_SECOND ≤ elapsed b) (t : Nat) (localDir : Bool) :
    ∃ c r, b = c ++ r ∧ elapsed r < ONE_SECOND ∧
      zoneOfStep (step W (exec W (init e0 k0) (a ++ chg :: b)) (.convert t localDir)) =
        some (zoneFor W (env_var (envAfter e0 (a ++ chg :: c)))) := by
  obtain ⟨q, r, e, hr, hz⟩ := honoured_within_last_second W e0 k0 (a ++ chg :: b) t localDir
  obtain ⟨c, hq, hb⟩ := split_after_change a b q r chg e (by omega)
  exact ⟨c, r, hb, hr, by rw [hz, hq]⟩

/-- the special case in which TZ does not change again after `chg` (the former main theorem): the
conversion uses the zone demanded for the current value of TZ -/
theorem honoured_after_1s (W : World) (e0 : EnvVal) (k0 : Nat) (p1 p2 : List Step) (chg : Step)
    (hno : ∀ x ∈ p2, isChange x = false)
    (hwait : ONE_SECOND ≤ elapsed p2) (t : Nat) (localDir : Bool) :
    zoneOfStep (step W (exec W (init e0 k0) (p1 ++ chg :: p2)) (.convert t localDir)) =
      some (zoneFor W (env_var (envAfter e0 (p1 ++ chg :: p2)))) := by
  obtain ⟨c, r, hb, _, hz⟩ := honoured_every_change W e0 k0 p1 p2 chg hwait t localDir
  rw [hz]
  have e1 : p1 ++ chg :: p2 = (p1 ++ chg :: c) ++ r := by rw [hb]; simp
  have e2 : envAfter e0 ((p1 ++ chg :: c) ++ r) = envAfter e0 (p1 ++ chg :: c) := by
    rw [envAfter_append (a := p1 ++ chg :: c)]
    exact envAfter_nochange _ r (fun x hx => hno x (by rw [hb]; exact List.mem_append_right _ hx))
  rw [e1, e2]

/-- formerly `honoured_after_1s` under a narrowed assumption on `DefaultHasher` (no earlier TZ value
shares its hash with the value the last change set).  Since the repair of F33 there is nothing left to
assume: the name is kept for the record and the statement is `honoured_after_1s` itself, for every
history and every value. -/
theorem honoured_after_1s_narrow (W : World) (e0 : EnvVal) (k0 : Nat) (p1 p2 : List Step) (chg : Step)
    (hno : ∀ x ∈ p2, isChange x = false) (hwait : ONE_SECOND ≤ elapsed p2)
    (t : Nat) (localDir : Bool) :
    zoneOfStep (step W (exec W (init e0 k0) (p1 ++ chg :: p2)) (.convert t localDir)) =
      some (zoneFor W (env_var (envAfter e0 (p1 ++ chg :: p2)))) :=
  honoured_after_1s W e0 k0 p1 p2 chg hno hwait t localDir

/-- **What the caller sees.**  The theorems above name the zone the cache lookup yields; a public
conversion returns what that one zone answers (`Lookups`: the zone's own lookup functions, C05/C16),
in the direction asked for.  For every history: both `offset_from_utc_datetime` and
`offset_from_local_datetime`, called next on any thread, return the answer of the zone demanded for
the value TZ had at a point less than one second back. -/
theorem honoured_result {β : Type} (L : Lookups β) (W : World) (e0 : EnvVal) (k0 : Nat) (h : List Step)
    (t : Nat) (d : Int) :
    ∃ q r, h = q ++ r ∧ elapsed r < ONE_SECOND ∧
      (Local.offset_from_utc_datetime L W (exec W (init e0 k0) h) t d).2 =
        L.utc (zoneFor W (env_var (envAfter e0 q))) d ∧
      (Local.offset_from_local_datetime L W (exec W (init e0 k0) h) t d).2 =
        L.loc (zoneFor W (env_var (envAfter e0 q))) d := by
  obtain ⟨q, r, e, hr, hz⟩ := honoured_within_last_second W e0 k0 h t false
  have hz' : (inner_offset W (exec W (init e0 k0) h) t).2.1 = zoneFor W (env_var (envAfter e0 q)) :=
    Option.some.inj hz
  exact ⟨q, r, e, hr, by show L.utc _ d = _; rw [hz'], by show L.loc _ d = _; rw [hz']⟩

/-- … and for a newly started thread: the answer of the zone demanded for the value TZ has at that
moment, in both directions -/
theorem new_thread_result {β : Type} (L : Lookups β) (W : World) (s0 : State) (pre mid : List Step)
    (t : Nat) (d : Int) (hmid : noConvertOn t mid = true) :
    (Local.offset_from_utc_datetime L W (exec W s0 (pre ++ .spawn t :: mid)) t d).2 =
      L.utc (zoneFor W (env_var (exec W s0 (pre ++ .spawn t :: mid)).env)) d ∧
    (Local.offset_from_local_datetime L W (exec W s0 (pre ++ .spawn t :: mid)) t d).2 =
      L.loc (zoneFor W (env_var (exec W s0 (pre ++ .spawn t :: mid)).env)) d := by
  have h := new_thread_immediate' W s0 pre mid t false hmid
  have hz : (inner_offset W (exec W s0 (pre ++ .spawn t :: mid)) t).2.1 =
      zoneFor W (env_var (exec W s0 (pre ++ .spawn t :: mid)).env) := by
    have := congrArg (Option.map Prod.fst) h
    exact Option.some.inj this
  exact ⟨by show L.utc _ d = _; rw [hz], by show L.loc _ d = _; rw [hz]⟩

/-- while TZ is never changed, every conversion uses the zone demanded for it (no assumption) -/
theorem honoured_without_change (W : World) (e0 : EnvVal) (k0 : Nat) (h : List Step)
    (hno : ∀ x ∈ h, isChange x = false) (t : Nat) (localDir : Bool) :
    zoneOfStep (step W (exec W (init e0 k0) h) (.convert t localDir)) = some (zoneFor W (env_var e0)) :=
  honoured_without_change' W e0 k0 h hno t localDir

/-- the underlying invariant, for any reachable state: every cache was filled under some TZ value
of the history, and that value is the current one unless the cache was last checked before the last
change of TZ -/
theorem cache_invariant (W : World) (e0 : EnvVal) (k0 : Nat) (h : List Step) :
    Inv W (valuesOf e0 h) (exec W (init e0 k0) h) (ghostRun W (init e0 k0) 0 h) :=
  exec_ok W _ h _ 0 (init_ok W e0 k0 h) (stepIn_valuesOf e0 h)

/-- the invariant behind `honoured_within_last_second`, for any reachable state: environment and
clock are those of the history, and every cache records the point `q` of the history at which it was
last checked: `last_checked` is the clock after `q`, source and zone are those of TZ's value after `q` -/
theorem cache_records_history (W : World) (e0 : EnvVal) (k0 : Nat) (h : List Step) :
    HistInv W e0 k0 h (exec W (init e0 k0) h) := by
  have := exec_at W e0 k0 h [] (init e0 k0) (init_at W e0 k0)
  simpa using this

/-- A change of TZ is honoured immediately on a new thread: after thread `t` starts, whatever else
happens (changes of TZ, waiting, conversions on other threads, other threads starting), its first
conversion builds a fresh cache and uses the zone demanded for the value TZ has at that moment.
Any start state. -/
theorem new_thread_immediate (W : World) (s0 : State) (pre mid : List Step) (t : Nat) (localDir : Bool)
    (hmid : noConvertOn t mid = true) :
    (step W (exec W s0 (pre ++ .spawn t :: mid)) (.convert t localDir)).2 =
      some (zoneFor W (env_var (exec W s0 (pre ++ .spawn t :: mid)).env), .created) :=
  new_thread_immediate' W s0 pre mid t localDir hmid

/-- No conversion mixes two zones: each public conversion performs one cache lookup; its result is
the lookup function applied to one zone value `z`, which is the zone the thread's cache holds when
the call returns and the zone the step reports. -/
theorem one_zone_per_conversion {β : Type} (L : Lookups β) (W : World) (s : State) (t : Nat) (d : Int) :
    ∃ z : Zone,
      (Local.offset_from_utc_datetime L W s t d).2 = L.utc z d ∧
      (Local.offset_from_local_datetime L W s t d).2 = L.loc z d ∧
      ((Local.offset_from_utc_datetime L W s t d).1.caches t).map Cache.zone = some z ∧
      ((Local.offset_from_local_datetime L W s t d).1.caches t).map Cache.zone = some z ∧
      zoneOfStep (step W s (.convert t false)) = some z ∧ zoneOfStep (step W s (.convert t true)) = some z :=
  one_zone' L W s t d

/-- **Every public entry point performs exactly one zone lookup.**  `Api.*` (Model/LocalCache.lean)
writes `impl TimeZone for Local`, `Local::now` and the trait defaults they reach as the calls they
make, over a state that counts `inner::offset_from_*_datetime` calls.  For each of the eight entry
points: the counter goes up by exactly one; the process state afterwards is that of one cache lookup;
the answer is the lookup function of the right direction (UTC → `L.utc`, local → `L.loc`; the date
forms ask at midnight, `now` at the instant `Utc::now()` returned) applied to the one zone that lookup
yielded, which is the zone left in the thread's cache.  Hence no conversion mixes two zones, and none
uses the wrong direction.  (Driver op `lc.off` runs these functions; the harness compares their answer
with `Local`'s for readings where the two directions differ.) -/
theorem one_lookup_per_entry_point {β : Type} (L : Lookups β) (W : World) (c : Counted) (t : Nat) (d : Int) :
    OneLookup L W c t d false (Api.offset_from_utc_datetime L W c t d).1 (Api.offset_from_utc_datetime L W c t d).2 ∧
    OneLookup L W c t d true (Api.offset_from_local_datetime L W c t d).1 (Api.offset_from_local_datetime L W c t d).2 ∧
    OneLookup L W c t d false (Api.offset_from_utc_date L W c t d).1 (Api.offset_from_utc_date L W c t d).2 ∧
    OneLookup L W c t d true (Api.offset_from_local_date L W c t d).1 (Api.offset_from_local_date L W c t d).2 ∧
    (OneLookup L W c t d false (Api.from_utc_datetime L W c t d).1 (Api.from_utc_datetime L W c t d).2.2 ∧
      (Api.from_utc_datetime L W c t d).2.1 = d) ∧
    (OneLookup L W c t d true (Api.from_local_datetime L W c t d).1 (Api.from_local_datetime L W c t d).2.2 ∧
      (Api.from_local_datetime L W c t d).2.1 = d) ∧
    (OneLookup L W c t d false (Api.with_timezone L W c t d).1 (Api.with_timezone L W c t d).2.2 ∧
      (Api.with_timezone L W c t d).2.1 = d) ∧
    (OneLookup L W c t d false (Api.now L W c t d).1 (Api.now L W c t d).2.2 ∧ (Api.now L W c t d).2.1 = d) :=
  ⟨inner_counted_one L W c t d false, inner_counted_one L W c t d true, inner_counted_one L W c t d false,
   inner_counted_one L W c t d true, ⟨inner_counted_one L W c t d false, rfl⟩,
   ⟨inner_counted_one L W c t d true, rfl⟩, ⟨inner_counted_one L W c t d false, rfl⟩,
   ⟨inner_counted_one L W c t d false, rfl⟩⟩

/-! ### witnesses: non-vacuity, and that the hypotheses cannot be dropped -/

/-- a small world: two zone files, one rule, system zone "S" -/
def W0 : World :=
  { fs := fun p =>
      if p = [47, 97] then .data (some 1)                       -- "/a"
      else if p = usrShareZoneinfo ++ [47, 98] then .data (some 2)     -- zoneinfo "b"
      else if p = usrShareZoneinfo ++ [47, 83] then .data (some 9)     -- zoneinfo "S"
      else if p = etcLocaltime then .data (some 7)
      else if p = [47, 100] then .unreadable                    -- "/d"
      else if p = [47, 120] then .data none                     -- "/x": not TZif
      else .absent
    rule := fun s => if s = [88, 89, 90, 45, 51] then some 3 else none    -- "XYZ-3"
    sysName := some [83]
    ltMtime := some 5 }

/-- a stand-in for a colliding `DefaultHasher` (used only with the pre-repair rule): equal on strings
of equal length -/
def lenHash (b : Bytes) : Nat := b.length

/-- the table on concrete values (absolute path with and without colon, relative name, rule with
white space, empty, unset, directory, non-TZif file, garbage → system zone) -/
example :
    current_zone W0 (some [58, 47, 97]) = .tzif [47, 97] 1 ∧
    current_zone W0 (some [47, 97]) = .tzif [47, 97] 1 ∧
    current_zone W0 (some [98]) = .tzif (usrShareZoneinfo ++ [47, 98]) 2 ∧
    current_zone W0 (some [58, 98]) = .tzif (usrShareZoneinfo ++ [47, 98]) 2 ∧
    current_zone W0 (some [32, 88, 89, 90, 45, 51, 9]) = .rule [88, 89, 90, 45, 51] 3 ∧
    current_zone W0 (some []) = .utc ∧
    current_zone W0 none = .tzif etcLocaltime 7 ∧
    current_zone W0 (some [47, 100]) = .tzif (usrShareZoneinfo ++ [47, 83]) 9 ∧
    current_zone W0 (some [58, 47, 120]) = .tzif (usrShareZoneinfo ++ [47, 83]) 9 ∧
    current_zone W0 (some [58, 88, 89, 90, 45, 51]) = .tzif (usrShareZoneinfo ++ [47, 83]) 9 ∧
    current_zone { W0 with sysName := none } (some [103]) = .utc := by decide

/-- the hypotheses of `honoured_after_1s` are met by a real history, and the bound of one second
is sharp: 0.999999999 s after the change the same thread still answers with the old zone, one
nanosecond later with the new one; a thread started in between answers with the new one at once -/
theorem window_is_sharp :
    run W0 (init .unset 100)
      [.setTZ [47, 97], .convert 0 false, .setTZ [98], .advance 999999999, .convert 0 true,
       .spawn 1, .convert 1 false, .advance 1, .convert 0 false, .convert 1 true] =
      [(.tzif [47, 97] 1, .created), (.tzif [47, 97] 1, .reused),
       (.tzif (usrShareZoneinfo ++ [47, 98]) 2, .created),
       (.tzif (usrShareZoneinfo ++ [47, 98]) 2, .reloaded),
       (.tzif (usrShareZoneinfo ++ [47, 98]) 2, .reused)] := by decide

/-- histories with changes inside the last second.  First (the audit's example): set A; convert;
+0.6 s; set B; +0.6 s; set C; +0.5 s; convert — 1.1 s after B: `honoured_every_change` with `chg` =
set B says the zone is that of B or of C, never A; the cache is 1.7 s old, is re-read, and gives C.
Second: a conversion 0.4 s after B on a cache filled 0.5 s before B still answers A (0.9 s old:
`honoured_within_last_second` with `q` = the history up to the first conversion); 0.6 s later it has
moved on to the value set in between -/
example :
    run W0 (init .unset 100)
      [.setTZ [47, 97], .convert 0 false, .advance 600000000, .setTZ [98], .advance 600000000,
       .setTZ [88, 89, 90, 45, 51], .advance 500000000, .convert 0 false] =
      [(.tzif [47, 97] 1, .created), (.rule [88, 89, 90, 45, 51] 3, .reloaded)] ∧
    run W0 (init .unset 100)
      [.setTZ [47, 97], .convert 0 false, .advance 500000000, .setTZ [98], .advance 400000000,
       .convert 0 false, .setTZ [88, 89, 90, 45, 51], .advance 600000000, .convert 0 true] =
      [(.tzif [47, 97] 1, .created), (.tzif [47, 97] 1, .reused),
       (.rule [88, 89, 90, 45, 51] 3, .reloaded)] := by decide

/-- **PINNED PRE-FIX BEHAVIOUR — finding F33, repaired.**  This is NOT a statement about the present
code: it is about the refresh rule as it was before the repair (`BeforeF33`: the source of the cache
holds a hash of the TZ text and `out_of_date` compares hashes).  For every world, every hash function
and every two DISTINCT values `a`, `b` with equal hash: on the history "TZ = a; convert; TZ = b; `n` ≥
1 s pass; convert" (same thread, any directions) the second conversion used the zone demanded for `a`
(decision `rechecked`: the environment was re-read and judged unchanged) — where the property demands
the zone of `b`, which is what the model of the repaired code answers on the very same history
(`reloaded`).  On the real crate: a = `<lVhnH9Y>-02<fch>,M3.2.0,M11.1.0`, b =
`<MIa3-7z>-11<h7b>,M3.2.0,M11.1.0`, both a46d3dde525f155a under `DefaultHasher::new()`: 7200 instead
of 39600, for ever (harness: the directed colliding histories of c18.rs; seeded/REGRESS-F33). -/
theorem hash_collision_pinned_before_F33 (W : World) (hash : Bytes → Nat) (a b : Bytes)
    (hab : a ≠ b) (hcoll : hash a = hash b) (e0 : EnvVal) (k0 : Nat) (t : Nat) (l1 l2 : Bool)
    (n : Nat) (hn : ONE_SECOND ≤ n) :
    -- before the repair: a's zone both times
    BeforeF33.run W hash (BeforeF33.init e0 k0)
        [.setTZ a, .convert t l1, .setTZ b, .advance n, .convert t l2] =
      [(zoneFor W (some a), .created), (zoneFor W (some a), .rechecked)] ∧
    -- the repaired code (the model), and the property: b's zone
    run W (init e0 k0) [.setTZ a, .convert t l1, .setTZ b, .advance n, .convert t l2] =
      [(zoneFor W (some a), .created), (zoneFor W (some b), .reloaded)] ∧
    zoneOfStep (step W (exec W (init e0 k0) [.setTZ a, .convert t l1, .setTZ b, .advance n])
      (.convert t l2)) = some (zoneFor W (env_var (envAfter e0 [.setTZ a, .convert t l1, .setTZ b, .advance n]))) := by
  refine ⟨?_, ?_, ?_⟩
  · rw [← current_zone_eq]; exact BeforeF33.collision_unnoticed W hash a b hcoll e0 k0 t l1 l2 n hn
  · rw [← current_zone_eq, ← current_zone_eq]; exact collision_noticed W a b hab e0 k0 t l1 l2 n hn
  · exact honoured_after_1s W e0 k0 [.setTZ a, .convert t l1] [.advance n] (.setTZ b)
      (by intro x hx; simp at hx; subst hx; rfl) (by simp [elapsed]; exact hn) t l2

/-- the pinned behaviour is a real difference: in `W0` with a hash that is equal on "b" and "g" the
pre-repair rule answers zone file "b" 2 s and 3 s after TZ was set to "g" (no such file, no such rule:
the system zone "S" is demanded); the model of the repaired code answers "S" -/
theorem hash_collision_pinned_before_F33_witness :
    BeforeF33.run W0 lenHash (BeforeF33.init .unset 100)
      [.setTZ [98], .convert 0 false, .setTZ [103], .advance 2000000000, .convert 0 false,
       .advance 1000000000, .convert 0 false] =
      [(.tzif (usrShareZoneinfo ++ [47, 98]) 2, .created),
       (.tzif (usrShareZoneinfo ++ [47, 98]) 2, .rechecked),
       (.tzif (usrShareZoneinfo ++ [47, 98]) 2, .rechecked)] ∧
    lenHash [98] = lenHash [103] ∧
    zoneFor W0 (some [103]) = .tzif (usrShareZoneinfo ++ [47, 83]) 9 ∧
    run W0 (init .unset 100)
      [.setTZ [98], .convert 0 false, .setTZ [103], .advance 2000000000, .convert 0 false,
       .advance 1000000000, .convert 0 false] =
      [(.tzif (usrShareZoneinfo ++ [47, 98]) 2, .created),
       (.tzif (usrShareZoneinfo ++ [47, 83]) 9, .reloaded),
       (.tzif (usrShareZoneinfo ++ [47, 83]) 9, .rechecked)] := by decide

/-- the former `hash_collision_is_not_covered` ("the assumption on the hash cannot be dropped") turned
round: there is no assumption left, and values that collide under any hash one may think of are
honoured like any others — every two distinct values, every world -/
theorem hash_collision_is_covered (W : World) (a b : Bytes) (hab : a ≠ b) (e0 : EnvVal) (k0 : Nat)
    (t : Nat) (l1 l2 : Bool) (n : Nat) (hn : ONE_SECOND ≤ n) :
    run W (init e0 k0) [.setTZ a, .convert t l1, .setTZ b, .advance n, .convert t l2] =
      [(zoneFor W (some a), .created), (zoneFor W (some b), .reloaded)] := by
  rw [← current_zone_eq, ← current_zone_eq]; exact collision_noticed W a b hab e0 k0 t l1 l2 n hn

/-- same value set again, and unset → unset with an unchanged mtime: re-checked, zone kept;
environment ↔ /etc/localtime: reloaded -/
example :
    run W0 (init .unset 0)
      [.convert 0 false, .advance 1000000000, .convert 0 false, .setTZ [98], .advance 1500000000,
       .convert 0 false, .setTZ [98], .advance 1000000000, .convert 0 false, .setNotUnicode,
       .advance 1000000000, .convert 0 true] =
      [(.tzif etcLocaltime 7, .created), (.tzif etcLocaltime 7, .rechecked),
       (.tzif (usrShareZoneinfo ++ [47, 98]) 2, .reloaded),
       (.tzif (usrShareZoneinfo ++ [47, 98]) 2, .rechecked),
       (.tzif etcLocaltime 7, .reloaded)] := by decide

/-- the five points on concrete values: "b" is a zone file and (here) also a rule; ":XYZ-3" is not
read as a rule; "/d" (a directory) and "/x" (not TZif) exist and therefore decide; padded "b" is not
found as a file -/
example :
    current_zone { W0 with rule := fun _ => some 3 } (some [98]) = .tzif (usrShareZoneinfo ++ [47, 98]) 2 ∧
    current_zone W0 (some [58, 88, 89, 90, 45, 51]) = .tzif (usrShareZoneinfo ++ [47, 83]) 9 ∧
    current_zone W0 (some [88, 89, 90, 45, 51]) = .rule [88, 89, 90, 45, 51] 3 ∧
    current_zone { W0 with rule := fun _ => some 3 } (some [47, 100]) = .tzif (usrShareZoneinfo ++ [47, 83]) 9 ∧
    current_zone { W0 with rule := fun _ => some 3 } (some [47, 120]) = .tzif (usrShareZoneinfo ++ [47, 83]) 9 ∧
    current_zone { W0 with rule := fun s => if s = [98] then some 4 else none } (some [32, 98]) = .rule [98] 4 := by
  decide

/-- values "b" and "g" (equal under `lenHash`), then unset, then a third value: every change is
honoured one second later -/
example :
    run W0 (init .unset 100)
      [.setTZ [98], .convert 0 false, .setTZ [103], .advance 2000000000, .convert 0 false,
       .unsetTZ, .advance 1000000000, .convert 0 false,
       .setTZ [47, 97], .advance 1000000000, .convert 0 true] =
      [(.tzif (usrShareZoneinfo ++ [47, 98]) 2, .created),
       (.tzif (usrShareZoneinfo ++ [47, 83]) 9, .reloaded),
       (.tzif etcLocaltime 7, .reloaded), (.tzif [47, 97] 1, .reloaded)] := by decide

/-! ### second review, round 3: /etc/localtime changes under the running process (G2), entry points (G5),
a clock that goes backwards (G6) -/

/-- **"…and notices changes": the mtime branch.**  Histories over `StepW` (Model/LocalCacheWorld.lean):
the steps of the process plus `setMtime` (touch) and `replaceLocaltime` (/etc/localtime re-linked: new
mtime, new content, new system zone name).  If a step `chg` gives /etc/localtime the mtime `m1`, every
mtime it had before (from the start of the process on) was available and different from `m1`, TZ is
unset (or not text) at that point and is not changed afterwards, and at least one second passes in the
process's further steps `b` (waiting, conversions on any threads, threads starting), then the conversion
made next on ANY thread — one that converted before the change, inside the last second, or never — uses
the zone demanded with TZ unset in the world AFTER the change (`worldAfter`, written in the
specification without reference to the model's step function).  Before `chg` anything may happen: TZ set
and unset, earlier re-links.  What is assumed and is not a property of the crate: mtimes never repeat
(`hfresh`; see `same_mtime_not_noticed`) and the metadata is readable. -/
theorem mtime_change_honoured (W0 : World) (e0 : EnvVal) (k0 : Nat) (a : List StepW) (chg : StepW)
    (b : List Step) (m1 : Nat)
    (hchg : mtimeSetBy chg = some (some m1))
    (hfresh : ∀ m ∈ mtimesOf W0 a, ∃ m0, m = some m0 ∧ m0 ≠ m1)
    (hunset : env_var (envAfter e0 (baseSteps a)) = none)
    (hquiet : ∀ x ∈ b, isChange x = false)
    (hwait : ONE_SECOND ≤ elapsed b) (t : Nat) (localDir : Bool) :
    zoneOfStepW (stepW (execW (initW W0 e0 k0) (a ++ chg :: b.map StepW.base)) (.base (.convert t localDir))) =
      some (zoneFor (worldAfter W0 (a ++ [chg])) none) :=
  mtime_change_honoured' W0 e0 k0 a chg b m1 hchg hfresh hunset hquiet hwait t localDir

/-- non-vacuity of `mtime_change_honoured`, and the window: TZ unset, convert (zone 7 of W0's
/etc/localtime, mtime 5); /etc/localtime replaced (mtime 6, content 8, system zone "b"); 0.999999999 s
later the same thread still answers 7, one nanosecond later 8 (`reloaded`); a thread that never
converted answers 8 at once; a touch (mtime 9, same content) is a reload to the same zone -/
example :
    runW (initW W0 .unset 100)
      [.base (.convert 0 false), .replaceLocaltime (some 6) (.data (some 8)) (some [98]),
       .base (.advance 999999999), .base (.convert 0 true), .base (.convert 1 false),
       .base (.advance 1), .base (.convert 0 false),
       .setMtime (some 9), .base (.advance 1000000000), .base (.convert 0 true)] =
      [(.tzif etcLocaltime 7, .created), (.tzif etcLocaltime 7, .reused), (.tzif etcLocaltime 8, .created),
       (.tzif etcLocaltime 8, .reloaded), (.tzif etcLocaltime 8, .reloaded)] ∧
    zoneFor (worldAfter W0 [.base (.convert 0 false), .replaceLocaltime (some 6) (.data (some 8)) (some [98])]) none =
      .tzif etcLocaltime 8 ∧
    mtimesOf W0 [.base (.convert 0 false)] = [some 5] := by decide

/-- **Declared limit, kernel-checked: /etc/localtime is noticed only through its mtime.**  In `W0`:
the file is replaced by another zone (content 8) but the link keeps mtime 5 — 2 s and 3 s later the
thread that converted before still answers the old zone 7 (`rechecked`), for ever; a new thread answers
8.  The hypothesis `hfresh` of `mtime_change_honoured` cannot be dropped.  (Real file systems stamp a
re-link with the current time, so this needs a forged or coarse mtime.) -/
theorem same_mtime_not_noticed :
    runW (initW W0 .unset 100)
      [.base (.convert 0 false), .replaceLocaltime (some 5) (.data (some 8)) (some [83]),
       .base (.advance 2000000000), .base (.convert 0 false), .base (.advance 1000000000),
       .base (.convert 0 true), .base (.convert 1 false)] =
      [(.tzif etcLocaltime 7, .created), (.tzif etcLocaltime 7, .rechecked),
       (.tzif etcLocaltime 7, .rechecked), (.tzif etcLocaltime 8, .created)] := by decide

/-- **A clock that went backwards never lets the cache be reused** (`now.duration_since(last_checked)`
answers `Err`, the `Ok(d) if d.as_secs() < 1` arm does not match): the source is re-read.  Stated for one
lookup from any cache; histories in this file only advance the clock. -/
theorem backwards_refreshes (W : World) (c : Cache) (now : Nat) (env : EnvVal)
    (hlt : now < c.last_checked) : (Cache.offset W c now env).2 ≠ .reused :=
  backwards_refreshes' W c now env hlt

example : (Cache.offset W0 { zone := .utc, source := .localTime 5, last_checked := 10 } 9 .unset).2 = .rechecked ∧
    (Cache.offset W0 { zone := .utc, source := .localTime 4, last_checked := 10 } 9 .unset).2 = .reloaded := by
  decide

/-- **`honoured_result` at the entry points the property's `observe_at` names.**  `Local.from_utc_datetime`
and `Local.from_local_datetime` (the `TimeZone` defaults, `Api.*`), called next on any thread after any
history, with any value of the lookup counter: the reading itself, paired with what the zone demanded for
a value TZ had less than one second back answers in that direction. -/
theorem honoured_entry_points {β : Type} (L : Lookups β) (W : World) (e0 : EnvVal) (k0 : Nat)
    (h : List Step) (t : Nat) (d : Int) (n : Nat) :
    ∃ q r, h = q ++ r ∧ elapsed r < ONE_SECOND ∧
      (Api.from_utc_datetime L W ⟨exec W (init e0 k0) h, n⟩ t d).2 =
        (d, L.utc (zoneFor W (env_var (envAfter e0 q))) d) ∧
      (Api.from_local_datetime L W ⟨exec W (init e0 k0) h, n⟩ t d).2 =
        (d, L.loc (zoneFor W (env_var (envAfter e0 q))) d) ∧
      (Api.with_timezone L W ⟨exec W (init e0 k0) h, n⟩ t d).2 =
        (d, L.utc (zoneFor W (env_var (envAfter e0 q))) d) := by
  obtain ⟨q, r, e, hr, hu, hl⟩ := honoured_result L W e0 k0 h t d
  refine ⟨q, r, e, hr, ?_, ?_, ?_⟩
  · show (d, (Local.offset_from_utc_datetime L W (exec W (init e0 k0) h) t d).2) = _
    rw [hu]
  · show (d, (Local.offset_from_local_datetime L W (exec W (init e0 k0) h) t d).2) = _
    rw [hl]
  · show (d, (Local.offset_from_utc_datetime L W (exec W (init e0 k0) h) t d).2) = _
    rw [hu]

end Chrono.Props.C18
