/-
  C01, code translation tie, `NaiveDate::from_isoywd_opt` (src/naive/date/mod.rs): the definition that
  tools/extractors/rust2lean.py regenerates from the Rust source text on every run
  (`Chrono.Gen.naive_date.NaiveDate.from_isoywd_opt`, lean/Chrono/Extracted/Gen.lean) equals the hand-written model
  `Chrono.M.Date.from_isoywd_opt` (lean/Chrono/Model/Date.lean) for every `year : i32`, every `week : u32` and every
  `Weekday` (passed to the generated code as its discriminant, Monday = 0).  The checked `u32` arithmetic of the
  source (`week * 7 + weekday`, `weekord + ndays - delta`, `weekord - delta`, `ordinal - ndays`) never overflows
  or underflows once `1 ≤ week ≤ nisoweeks ≤ 53`; for other weeks both sides answer `None` before any arithmetic.
  A `NaiveDate` is its packed word (`Date.yof`); `rmap` maps a `Res` result, `Option.map` an `Option` result.
-/
import Chrono.Props.GenDate

namespace Chrono.Props.GenIsoYwd
open Chrono Chrono.M Chrono.Extracted Chrono.Proofs.GenL Chrono.Proofs.GenDateL Chrono.Props.GenDate

def I32 (x : Int) : Prop := -2147483648 ≤ x ∧ x ≤ 2147483647

/-! ### ranges of the year-flag views used by the arithmetic -/

theorem wd_toNat_le (wd : Weekday) : wd.toNat ≤ 6 := by cases wd <;> decide

theorem isoweek_delta_range (f : Nat) : 3 ≤ YearFlags.isoweek_delta f ∧ YearFlags.isoweek_delta f ≤ 9 := by
  unfold YearFlags.isoweek_delta
  simp only []
  split <;> omega

theorem ndays_range (f : Nat) (hf : f < 16) : 365 ≤ YearFlags.ndays f ∧ YearFlags.ndays f ≤ 366 := by
  unfold YearFlags.ndays; omega

/-! ### the two year-crossing tails -/

/-- the `weekord ≤ delta` branch: the date lies in the previous year -/
theorem prev_branch (year : Int) (weekord delta : Nat) (hw : weekord ≤ delta) (hd : delta ≤ 9) :
    (match optI32 (year - 1) with
      | some prevyear =>
        Res.bind (Gen.naive_internals.YearFlags.from_year prevyear) fun prevflags =>
        Res.bind (Gen.naive_internals.YearFlags.ndays prevflags) fun r2 =>
        Res.bind (ckU32 ((weekord : Int) + r2)) fun r3 =>
        Res.bind (ckU32 (r3 - (delta : Int))) fun r4 =>
        Gen.naive_date.NaiveDate.from_ordinal_and_flags prevyear r4 prevflags
      | none => .ok none)
    = rmap (Option.map Date.yof)
      (match optI32 (year - 1) with
        | none => .ok none
        | some py =>
          Date.from_ordinal_and_flags py (weekord + YearFlags.ndays (YearFlags.from_year py) - delta)
            (YearFlags.from_year py)) := by
  cases optI32 (year - 1) with
  | none => rfl
  | some py =>
    simp only []
    have hF := from_year_lt py
    have hD := ndays_range _ hF
    rw [gen_from_year_eq, bind_ok, gen_ndays_eq _ (by omega), bind_ok, ckU32_ok (by omega), bind_ok,
      ckU32_ok (by omega), bind_ok]
    have e : (weekord : Int) + (YearFlags.ndays (YearFlags.from_year py) : Nat) - (delta : Int)
        = ((weekord + YearFlags.ndays (YearFlags.from_year py) - delta : Nat) : Int) := by omega
    rw [e]
    exact gen_from_ordinal_and_flags_eq py _ _ (by omega)

/-- the `ordinal > ndays` branch: the date lies in the next year -/
theorem next_branch (year : Int) (ordinal ndays : Nat) (h : ndays < ordinal) (ho : ordinal ≤ 4294967295) :
    (match optI32 (year + 1) with
      | some nextyear =>
        Res.bind (Gen.naive_internals.YearFlags.from_year nextyear) fun nextflags =>
        Res.bind (ckU32 ((ordinal : Int) - (ndays : Int))) fun r7 =>
        Gen.naive_date.NaiveDate.from_ordinal_and_flags nextyear r7 nextflags
      | none => .ok none)
    = rmap (Option.map Date.yof)
      (match optI32 (year + 1) with
        | none => .ok none
        | some ny => Date.from_ordinal_and_flags ny (ordinal - ndays) (YearFlags.from_year ny)) := by
  cases optI32 (year + 1) with
  | none => rfl
  | some ny =>
    simp only []
    rw [gen_from_year_eq, bind_ok, ckU32_ok (by omega), bind_ok]
    have e : (ordinal : Int) - (ndays : Int) = ((ordinal - ndays : Nat) : Int) := by omega
    rw [e]
    exact gen_from_ordinal_and_flags_eq ny _ _ (by omega)

/-! ### the tie -/

/-- `from_isoywd_opt`, for every `Int` year and every `Nat` week: neither range hypothesis is needed, because the
`i32` steps `year ± 1` are the same `optI32` on both sides and a week above `nisoweeks ≤ 53` is refused before any
`u32` arithmetic. -/
theorem gen_from_isoywd_opt_eq_unbounded (year : Int) (week : Nat) (wd : Weekday) :
    Gen.naive_date.NaiveDate.from_isoywd_opt year week (wd.toNat : Nat)
      = rmap (Option.map Date.yof) (Date.from_isoywd_opt year week wd) := by
  unfold Gen.naive_date.NaiveDate.from_isoywd_opt Date.from_isoywd_opt
  have hF := from_year_lt year
  have hN := nisoweeks_range _ hF
  have hD := isoweek_delta_range (YearFlags.from_year year)
  have hY := ndays_range _ hF
  have hW := wd_toNat_le wd
  rw [gen_from_year_eq, bind_ok, gen_nisoweeks_eq _ (by omega), bind_ok]
  simp only []
  by_cases h0 : week = 0 ∨ week > YearFlags.nisoweeks (YearFlags.from_year year)
  · rw [if_pos (by omega), if_pos h0]; rfl
  · rw [if_neg (by omega), if_neg h0, ckU32_ok (by omega), bind_ok, ckU32_ok (by omega), bind_ok,
      gen_isoweek_delta_eq _ (by omega), bind_ok]
    have ew : (week : Int) * 7 + (wd.toNat : Nat) = ((week * 7 + wd.toNat : Nat) : Int) := by omega
    rw [ew]
    by_cases h1 : week * 7 + wd.toNat ≤ YearFlags.isoweek_delta (YearFlags.from_year year)
    · rw [if_pos (by omega), if_pos h1]
      exact prev_branch year _ _ h1 hD.2
    · rw [if_neg (by omega), if_neg h1, ckU32_ok (by omega), bind_ok, gen_ndays_eq _ (by omega), bind_ok]
      have eo : ((week * 7 + wd.toNat : Nat) : Int) - (YearFlags.isoweek_delta (YearFlags.from_year year) : Nat)
          = ((week * 7 + wd.toNat - YearFlags.isoweek_delta (YearFlags.from_year year) : Nat) : Int) := by omega
      rw [eo]
      by_cases h2 : week * 7 + wd.toNat - YearFlags.isoweek_delta (YearFlags.from_year year)
          ≤ YearFlags.ndays (YearFlags.from_year year)
      · rw [if_pos (by omega), if_pos h2]
        exact gen_from_ordinal_and_flags_eq year _ _ (by omega)
      · rw [if_neg (by omega), if_neg h2]
        exact next_branch year _ _ (by omega) (by omega)

/-- `NaiveDate::from_isoywd_opt(year: i32, week: u32, weekday: Weekday)`: generated code = model, for all
arguments of the machine types (the two range hypotheses are the argument types; the proof does not use them, see
`gen_from_isoywd_opt_eq_unbounded`). -/
theorem gen_from_isoywd_opt_eq (year : Int) (week : Nat) (wd : Weekday) (_hy : I32 year)
    (_hw : (week : Int) ≤ 4294967295) :
    Gen.naive_date.NaiveDate.from_isoywd_opt year week (wd.toNat : Nat)
      = rmap (Option.map Date.yof) (Date.from_isoywd_opt year week wd) :=
  gen_from_isoywd_opt_eq_unbounded year week wd

/-! ### non-vacuity: the hypotheses are satisfiable and every branch of the source is reached with a date -/

/-- the tie instantiated at in-range arguments -/
example : Gen.naive_date.NaiveDate.from_isoywd_opt 2020 53 3
    = rmap (Option.map Date.yof) (Date.from_isoywd_opt 2020 53 .thu) :=
  gen_from_isoywd_opt_eq 2020 53 .thu (by unfold I32; omega) (by omega)

/-- same-year branch: 2020-W53-4 is 2020-12-31 (ordinal 366, year flags 0b0001) -/
example : Gen.naive_date.NaiveDate.from_isoywd_opt 2020 53 3 = .ok (some (2020 * 8192 + 366 * 16 + 1))
    ∧ Date.from_isoywd_opt 2020 53 .thu = .ok (some ⟨2020 * 8192 + 366 * 16 + 1⟩) := by decide +kernel

/-- `weekord ≤ delta` (previous-year branch): 2020-W01-1 is 2019-12-30 (ordinal 364) -/
example : Gen.naive_date.NaiveDate.from_isoywd_opt 2020 1 0 = .ok (some 16545487)
    ∧ Date.from_isoywd_opt 2020 1 .mon = .ok (some ⟨16545487⟩)
    ∧ (16545487 : Int) / 8192 = 2019 ∧ (16545487 : Int) / 16 % 512 = 364 := by decide +kernel

/-- `ordinal > ndays` (next-year branch): 2020-W53-7 is 2021-01-03 (ordinal 3) -/
example : Gen.naive_date.NaiveDate.from_isoywd_opt 2020 53 6 = .ok (some 16556091)
    ∧ Date.from_isoywd_opt 2020 53 .sun = .ok (some ⟨16556091⟩)
    ∧ (16556091 : Int) / 8192 = 2021 ∧ (16556091 : Int) / 16 % 512 = 3 := by decide +kernel

/-- the edges of the date range: the last ISO week of `MAX_YEAR` exists, the first ISO week of `MAX_YEAR + 1` starts
in `MAX_YEAR` (previous-year branch), the first ISO week of `MIN_YEAR` would start in `MIN_YEAR - 1`, a week number
above `nisoweeks` and week 0 are refused, and at `i32::MAX` / `i32::MIN` both sides answer `None` without a panic -/
example : Gen.naive_date.NaiveDate.from_isoywd_opt 262142 52 6 = .ok (some 2147473102)
    ∧ Date.from_isoywd_opt 262142 52 .sun = .ok (some ⟨2147473102⟩)
    ∧ Gen.naive_date.NaiveDate.from_isoywd_opt 262143 1 0 = .ok (some 2147473118)
    ∧ Date.from_isoywd_opt 262143 1 .mon = .ok (some ⟨2147473118⟩)
    ∧ Gen.naive_date.NaiveDate.from_isoywd_opt (-262143) 1 0 = .ok none
    ∧ Date.from_isoywd_opt (-262143) 1 .mon = .ok none
    ∧ Gen.naive_date.NaiveDate.from_isoywd_opt 2021 53 0 = .ok none
    ∧ Date.from_isoywd_opt 2021 53 .mon = .ok none
    ∧ Gen.naive_date.NaiveDate.from_isoywd_opt 2021 0 0 = .ok none
    ∧ Gen.naive_date.NaiveDate.from_isoywd_opt 2021 4294967295 6 = .ok none
    ∧ Date.from_isoywd_opt 2021 4294967295 .sun = .ok none
    ∧ Gen.naive_date.NaiveDate.from_isoywd_opt 2147483647 52 6 = .ok none
    ∧ Date.from_isoywd_opt 2147483647 52 .sun = .ok none
    ∧ Gen.naive_date.NaiveDate.from_isoywd_opt (-2147483648) 1 0 = .ok none
    ∧ Date.from_isoywd_opt (-2147483648) 1 .mon = .ok none := by decide +kernel

end Chrono.Props.GenIsoYwd
