/-
  C06, end to end on the translated code (second audit, gap G5).  The subject of every statement below is a
  definition that tools/extractors/rust2lean.py regenerates from src/time_delta.rs on every run
  (`Chrono.Gen.time_delta.TimeDelta.*`, lean/Chrono/Extracted/Gen.lean and GenDeltaOps.lean); the right-hand
  sides are the specification only (`Spec.ns`, `Spec.nsInRange`, `Spec.ofNs`, `Spec.DInv`, `Int.tdiv/tmod`).
  Each is the composition of a `gen_*_eq` theorem (Props/GenDelta, Props/GenDeltaOps: translation = model) with
  the C06 theorem about the model (Props/C06: model = specification); the side conditions of the `gen_*_eq`
  theorems (field ranges of the machine types) are discharged from `DInv`, so a mismatch between the
  hypotheses of the two layers would show up here as a failed proof.  `dG` maps a `(secs, nanos)` pair into
  the generated structure (same two fields).
-/
import Chrono.Props.C06
import Chrono.Props.GenDeltaOps
import Chrono.Proofs.DeltaGenL

namespace Chrono.Props.C06Gen
open Chrono Chrono.M Chrono.Spec Chrono.Extracted Chrono.Proofs Chrono.Proofs.GenL Chrono.Proofs.DeltaGenL
open Chrono.Props.GenDelta Chrono.Props.GenDeltaOps

/-- translated `TimeDelta::new`, every `i64`-or-wider secs and every `u32` nanos: accepts exactly the pairs
with a valid nanosecond field whose count is in range, and returns that pair -/
theorem gen_new_spec (secs nanos : Int) (h0 : 0 ≤ nanos) (h1 : nanos ≤ 4294967295) :
    Gen.time_delta.TimeDelta.new secs nanos =
      if nanos < 1000000000 ∧ nsInRange (ns ⟨secs, nanos⟩) then some ⟨secs, nanos⟩ else none := by
  rw [gen_new_eq secs nanos h0 h1, C06.new_iff secs nanos h0]
  exact map_ite _ _

/-- translated `try_weeks … try_seconds`, all `i64` arguments: exact or refused exactly out of range -/
theorem gen_try_unit_spec (n : Int) (hn : -9223372036854775808 ≤ n ∧ n ≤ 9223372036854775807) :
    Gen.time_delta.TimeDelta.try_weeks n = (if nsInRange (n * 604800 * 1000000000)
      then some (dG (ofNs (n * 604800 * 1000000000))) else none) ∧
    Gen.time_delta.TimeDelta.try_days n = (if nsInRange (n * 86400 * 1000000000)
      then some (dG (ofNs (n * 86400 * 1000000000))) else none) ∧
    Gen.time_delta.TimeDelta.try_hours n = (if nsInRange (n * 3600 * 1000000000)
      then some (dG (ofNs (n * 3600 * 1000000000))) else none) ∧
    Gen.time_delta.TimeDelta.try_minutes n = (if nsInRange (n * 60 * 1000000000)
      then some (dG (ofNs (n * 60 * 1000000000))) else none) ∧
    Gen.time_delta.TimeDelta.try_seconds n = (if nsInRange (n * 1 * 1000000000)
      then some (dG (ofNs (n * 1 * 1000000000))) else none) := by
  have tu : ∀ u, (u = 1 ∨ u = 60 ∨ u = 3600 ∨ u = 86400 ∨ u = 604800) →
      (Delta.try_unit u n).map dG =
        if nsInRange (n * u * 1000000000) then some (dG (ofNs (n * u * 1000000000))) else none := by
    intro u hu
    rw [C06.try_unit_exact u n hu hn]; exact map_ite _ _
  refine ⟨?_, ?_, ?_, ?_, ?_⟩
  · rw [gen_try_weeks_eq]; exact tu 604800 (by omega)
  · rw [gen_try_days_eq]; exact tu 86400 (by omega)
  · rw [gen_try_hours_eq]; exact tu 3600 (by omega)
  · rw [gen_try_minutes_eq]; exact tu 60 (by omega)
  · rw [gen_try_seconds_eq]
    have e : Delta.try_seconds n = Delta.try_unit 1 n := by
      unfold Delta.try_unit
      rw [Int.mul_one, (optI64_def n), if_pos hn]
    rw [e]; exact tu 1 (by omega)

/-- translated `try_milliseconds`, `microseconds`, `nanoseconds`, all `i64` arguments: no machine overflow,
the exact count, refused exactly out of range (`i64::MIN` ms) -/
theorem gen_sub_second_ctor_spec (x : Int) (h : -9223372036854775808 ≤ x ∧ x ≤ 9223372036854775807) :
    Gen.time_delta.TimeDelta.try_milliseconds x =
      .ok (if nsInRange (x * 1000000) then some (dG (ofNs (x * 1000000))) else none) ∧
    Gen.time_delta.TimeDelta.microseconds x = .ok (dG (ofNs (x * 1000))) ∧
    Gen.time_delta.TimeDelta.nanoseconds x = .ok (dG (ofNs x)) ∧
    DInv (ofNs (x * 1000)) ∧ DInv (ofNs x) := by
  obtain ⟨m1, m2, m3, m4⟩ := C06.micro_nano_exact x h
  refine ⟨?_, ?_, ?_, m1 ▸ m2, m3 ▸ m4⟩
  · rw [gen_try_milliseconds_eq x h, C06.try_milliseconds_exact x h]
    exact congrArg Res.ok (map_ite _ _)
  · rw [gen_microseconds_eq x h, m1]
  · rw [gen_nanoseconds_eq x h, m3]

/-- translated `checked_add` / `checked_sub`, all pairs of valid values: no machine overflow, the exact
sum / difference, refused exactly out of range -/
theorem gen_add_sub_spec (a b : Delta) (ha : DInv a) (hb : DInv b) :
    Gen.time_delta.TimeDelta.checked_add (dG a) (dG b) =
      .ok (if nsInRange (ns a + ns b) then some (dG (ofNs (ns a + ns b))) else none) ∧
    Gen.time_delta.TimeDelta.checked_sub (dG a) (dG b) =
      .ok (if nsInRange (ns a - ns b) then some (dG (ofNs (ns a - ns b))) else none) := by
  constructor
  · rw [gen_checked_add_eq, C06.add_exact a b ha hb]; exact rmap_ok_ite _ _
  · rw [gen_checked_sub_eq, C06.sub_exact a b ha hb]; exact rmap_ok_ite _ _

/-- translated `checked_mul`, every valid value and every `i32`: the exact product or refused -/
theorem gen_mul_spec (a : Delta) (k : Int) (ha : DInv a) (hk : -2147483648 ≤ k ∧ k ≤ 2147483647) :
    Gen.time_delta.TimeDelta.checked_mul (dG a) k =
      .ok (if nsInRange (ns a * k) then some (dG (ofNs (ns a * k))) else none) := by
  rw [gen_checked_mul_eq a k (dinv_machine a ha).1 hk, C06.mul_exact a k ha hk]
  exact rmap_ok_ite _ _

/-- translated `checked_div`, every valid value and every non-zero `i32`: `Some`, in range, less than two
nanoseconds from the exact quotient, no machine overflow on the way -/
theorem gen_div_spec (a : Delta) (k : Int) (ha : DInv a) (hk : -2147483648 ≤ k ∧ k ≤ 2147483647)
    (hk0 : k ≠ 0) :
    ∃ r, Gen.time_delta.TimeDelta.checked_div (dG a) k = .ok (some (dG r)) ∧ DInv r ∧
      (ns r * k - ns a).natAbs < 2 * k.natAbs := by
  obtain ⟨r, h1, h2, h3⟩ := C06.div_spec a k ha hk hk0
  refine ⟨r, ?_, h2, h3⟩
  rw [gen_checked_div_eq a k (dinv_machine a ha).2 (dinv_machine a ha).1, h1]; rfl

/-- translated `checked_div` by zero is `None` for every pair whose fields are of the machine types;
by `1` and `-1` it is exact for valid values -/
theorem gen_div_zero_unit (a : Delta) :
    (-2147483648 < a.nanos ∧ a.nanos ≤ 2147483647 →
      -9223372036854775808 ≤ a.secs ∧ a.secs ≤ 9223372036854775807 →
      Gen.time_delta.TimeDelta.checked_div (dG a) 0 = .ok none) ∧
    (DInv a → Gen.time_delta.TimeDelta.checked_div (dG a) 1 = .ok (some (dG a)) ∧
      Gen.time_delta.TimeDelta.checked_div (dG a) (-1) = .ok (some (dG (ofNs (-(ns a)))))) := by
  refine ⟨fun hn hs => ?_, fun ha => ⟨?_, ?_⟩⟩
  · rw [gen_checked_div_eq a 0 hn hs, C06.div_zero a]; rfl
  · rw [gen_checked_div_eq a 1 (dinv_machine a ha).2 (dinv_machine a ha).1, (C06.div_unit a ha).1]; rfl
  · rw [gen_checked_div_eq a (-1) (dinv_machine a ha).2 (dinv_machine a ha).1, (C06.div_unit a ha).2]; rfl

/-- translated inherent `neg`, `impl Neg` (unary `-`) and `abs`: total on valid values and exact -/
theorem gen_neg_abs_spec (a : Delta) (ha : DInv a) :
    Gen.time_delta.TimeDelta.neg (dG a) = .ok (dG (ofNs (-(ns a)))) ∧
    Gen.time_delta.TimeDelta.Neg.neg (dG a) = .ok (dG (ofNs (-(ns a)))) ∧
    Gen.time_delta.TimeDelta.abs (dG a) = .ok (dG (ofNs (if ns a < 0 then -(ns a) else ns a))) := by
  obtain ⟨h1, h2⟩ := C06.neg_abs_exact a ha
  refine ⟨?_, ?_, ?_⟩
  · rw [gen_neg_eq, h1]; rfl
  · rw [gen_op_neg_eq, h1]; rfl
  · rw [gen_abs_eq, h2]; rfl

/-- all eleven translated accessors and `is_zero` on every valid value: no machine overflow, truncation
toward zero, same-sign sub-unit parts; the micro- / nanosecond counts are `None` exactly outside `i64` -/
theorem gen_accessors_spec (a : Delta) (ha : DInv a) :
    Gen.time_delta.TimeDelta.num_seconds (dG a) = .ok (Int.tdiv (ns a) 1000000000) ∧
    Gen.time_delta.TimeDelta.subsec_nanos (dG a) = .ok (Int.tmod (ns a) 1000000000) ∧
    Gen.time_delta.TimeDelta.num_milliseconds (dG a) = .ok (Int.tdiv (ns a) 1000000) ∧
    Gen.time_delta.TimeDelta.num_microseconds (dG a) = .ok (optI64 (Int.tdiv (ns a) 1000)) ∧
    Gen.time_delta.TimeDelta.num_nanoseconds (dG a) = .ok (optI64 (ns a)) ∧
    Gen.time_delta.TimeDelta.num_minutes (dG a) = .ok (Int.tdiv (ns a) 60000000000) ∧
    Gen.time_delta.TimeDelta.num_hours (dG a) = .ok (Int.tdiv (ns a) 3600000000000) ∧
    Gen.time_delta.TimeDelta.num_days (dG a) = .ok (Int.tdiv (ns a) 86400000000000) ∧
    Gen.time_delta.TimeDelta.num_weeks (dG a) = .ok (Int.tdiv (ns a) 604800000000000) ∧
    Gen.time_delta.TimeDelta.subsec_millis (dG a) = .ok (Int.tdiv (Int.tmod (ns a) 1000000000) 1000000) ∧
    Gen.time_delta.TimeDelta.subsec_micros (dG a) = .ok (Int.tdiv (Int.tmod (ns a) 1000000000) 1000) ∧
    (Gen.time_delta.TimeDelta.is_zero (dG a) = true ↔ ns a = 0) := by
  obtain ⟨hs, hn⟩ := dinv_machine a ha
  have hn' : -2147483648 ≤ a.nanos ∧ a.nanos ≤ 2147483647 := ⟨by omega, hn.2⟩
  obtain ⟨a1, a2, a3, a4, a5, a6, a7, a8, a9, a10, a11⟩ := C06.accessors_spec a ha
  refine ⟨?_, ?_, ?_, ?_, ?_, ?_, ?_, ?_, ?_, ?_, ?_, ?_⟩
  · rw [gen_num_seconds_eq a hs, a1]
  · rw [gen_subsec_nanos_eq a hn', a2]
  · rw [gen_num_milliseconds_eq a hs hn', a3]
  · rw [gen_num_microseconds_eq a hs hn', a4]
  · rw [gen_num_nanoseconds_eq a hs hn', a5]
  · rw [gen_num_minutes_eq a hs, a6]
  · rw [gen_num_hours_eq a hs, a7]
  · rw [gen_num_days_eq a hs, a8]
  · rw [gen_num_weeks_eq a hs, a9]
  · rw [gen_subsec_millis_eq a hn', a10]
  · rw [gen_subsec_micros_eq a hn', a11]
  · rw [gen_is_zero_eq]; exact (C06.is_zero_spec a ha).1

/-- the translated panicking constructors, all `i64` arguments: the exact value, or a panic exactly when
`n · unit` is out of range -/
theorem gen_unit_panicking_spec (n : Int) (hn : -9223372036854775808 ≤ n ∧ n ≤ 9223372036854775807) :
    Gen.time_delta.TimeDelta.weeks n = (if nsInRange (n * 604800 * 1000000000)
      then .ok (dG (ofNs (n * 604800 * 1000000000))) else .panic) ∧
    Gen.time_delta.TimeDelta.days n = (if nsInRange (n * 86400 * 1000000000)
      then .ok (dG (ofNs (n * 86400 * 1000000000))) else .panic) ∧
    Gen.time_delta.TimeDelta.hours n = (if nsInRange (n * 3600 * 1000000000)
      then .ok (dG (ofNs (n * 3600 * 1000000000))) else .panic) ∧
    Gen.time_delta.TimeDelta.minutes n = (if nsInRange (n * 60 * 1000000000)
      then .ok (dG (ofNs (n * 60 * 1000000000))) else .panic) ∧
    Gen.time_delta.TimeDelta.seconds n = (if nsInRange (n * 1000000000)
      then .ok (dG (ofNs (n * 1000000000))) else .panic) ∧
    Gen.time_delta.TimeDelta.milliseconds n = (if nsInRange (n * 1000000)
      then .ok (dG (ofNs (n * 1000000))) else .panic) := by
  obtain ⟨w, d, h, m, s, ms⟩ := C06.unit_panicking n hn
  refine ⟨?_, ?_, ?_, ?_, ?_, ?_⟩
  · rw [gen_weeks_eq, w]; exact rmap_ite _ _
  · rw [gen_days_eq, d]; exact rmap_ite _ _
  · rw [gen_hours_eq, h]; exact rmap_ite _ _
  · rw [gen_minutes_eq, m]; exact rmap_ite _ _
  · rw [gen_seconds_eq, s]; exact rmap_ite _ _
  · rw [gen_milliseconds_eq n hn, ms]; exact rmap_ite _ _

/-- the translated constant functions are the canonical representations of 0 and of the range ends -/
theorem gen_consts_spec :
    Gen.time_delta.TimeDelta.zero = dG (ofNs 0) ∧
    Gen.time_delta.TimeDelta.min_value = dG (ofNs (-NS_MAX)) ∧
    Gen.time_delta.TimeDelta.max_value = dG (ofNs NS_MAX) := by decide

/-- closure on the translated code: whatever a translated checked operation, negation or `abs` returns on
(the images of) valid values is the image of a valid value -/
theorem gen_closed (a b : Delta) (k : Int) (ha : DInv a) (hb : DInv b)
    (hk : -2147483648 ≤ k ∧ k ≤ 2147483647) :
    (∀ g, Gen.time_delta.TimeDelta.checked_add (dG a) (dG b) = .ok (some g) → ∃ r, g = dG r ∧ DInv r) ∧
    (∀ g, Gen.time_delta.TimeDelta.checked_sub (dG a) (dG b) = .ok (some g) → ∃ r, g = dG r ∧ DInv r) ∧
    (∀ g, Gen.time_delta.TimeDelta.checked_mul (dG a) k = .ok (some g) → ∃ r, g = dG r ∧ DInv r) ∧
    (∀ g, Gen.time_delta.TimeDelta.checked_div (dG a) k = .ok (some g) → ∃ r, g = dG r ∧ DInv r) ∧
    (∀ g, Gen.time_delta.TimeDelta.neg (dG a) = .ok g → ∃ r, g = dG r ∧ DInv r) ∧
    (∀ g, Gen.time_delta.TimeDelta.abs (dG a) = .ok g → ∃ r, g = dG r ∧ DInv r) := by
  obtain ⟨hadd, hsub⟩ := gen_add_sub_spec a b ha hb
  obtain ⟨hneg, _, habs⟩ := gen_neg_abs_spec a ha
  have key : ∀ (n : Int) (g : Gen.time_delta.TimeDelta),
      (Res.ok (if nsInRange n then some (dG (ofNs n)) else none) : Res (Option Gen.time_delta.TimeDelta))
        = .ok (some g) → ∃ r, g = dG r ∧ DInv r := by
    intro n g h
    by_cases hc : nsInRange n
    · rw [ite_pos' _ _ hc] at h
      cases h
      exact ⟨ofNs n, rfl, (C06.ofNs_spec n hc).1⟩
    · rw [ite_neg' _ _ hc] at h; cases h
  have rs := C06.range_symm (ns a)
  refine ⟨fun g h => key _ g (hadd ▸ h), fun g h => key _ g (hsub ▸ h),
    fun g h => key _ g (gen_mul_spec a k ha hk ▸ h), fun g h => ?_, fun g h => ?_, fun g h => ?_⟩
  · by_cases hk0 : k = 0
    · subst hk0
      rw [(gen_div_zero_unit a).1 (dinv_machine a ha).2 (dinv_machine a ha).1] at h; cases h
    · obtain ⟨r, h1, h2, _⟩ := gen_div_spec a k ha hk hk0
      rw [h1] at h; cases h; exact ⟨r, rfl, h2⟩
  · rw [hneg] at h; cases h
    exact ⟨_, rfl, (C06.ofNs_spec _ (rs.mp ha.2.2)).1⟩
  · rw [habs] at h; cases h
    refine ⟨_, rfl, (C06.ofNs_spec _ ?_).1⟩
    split
    · exact rs.mp ha.2.2
    · exact ha.2.2

/-- non-vacuity (the translated definitions evaluated directly): the range ends, a refusal one nanosecond
beyond, a product that lands on `MIN`, a division with the downward carry, accessors at the top -/
example :
    Gen.time_delta.TimeDelta.checked_add (dG Delta.MAX) ⟨0, 1⟩ = .ok none ∧
    Gen.time_delta.TimeDelta.checked_sub (dG Delta.MAX) ⟨0, 1⟩ = .ok (some ⟨9223372036854775, 806999999⟩) ∧
    Gen.time_delta.TimeDelta.checked_mul (dG Delta.MAX) (-1) = .ok (some (dG Delta.MIN)) ∧
    Gen.time_delta.TimeDelta.checked_mul (dG Delta.MAX) 2 = .ok none ∧
    Gen.time_delta.TimeDelta.checked_div ⟨-3, 0⟩ 2 = .ok (some ⟨-2, 500000000⟩) ∧
    Gen.time_delta.TimeDelta.num_milliseconds (dG Delta.MAX) = .ok 9223372036854775807 ∧
    Gen.time_delta.TimeDelta.num_nanoseconds (dG Delta.MAX) = .ok none ∧
    Gen.time_delta.TimeDelta.new 0 4294967295 = none ∧
    Gen.time_delta.TimeDelta.new (-9223372036854776) 193000000 = some (dG Delta.MIN) ∧
    Gen.time_delta.TimeDelta.new (-9223372036854776) 192999999 = none ∧
    DInv Delta.MAX ∧ DInv Delta.MIN := by decide

end Chrono.Props.C06Gen
