/-
  C17 — Rounding and truncation land on the right multiple.  Property statements only.

  `duration_trunc/round/round_up` (Model/Round.lean) work on the wall-clock nanosecond stamp
  (`Option Int`: `None` = not representable in `i64`) and on the span `duration.num_nanoseconds()`
  (`Option Int`); the result `.ok (.ok d)` means `Ok(original ± TimeDelta::nanoseconds(|d|))`, i.e.
  the value moved by `d` ns.  `Res.panic` would be an overflow trap / `abs` of `i64::MIN`.
  Specification (Spec/RoundSpec.lean): `truncSpec s p = s − s mod p`, `upSpec s p = s + (−s) mod p`
  (Euclidean `mod`), `roundSpec` = the nearer of the two, a tie going up.
-/
import Chrono.Proofs.RoundCorL

namespace Chrono.Props.C17
open Chrono Chrono.M Chrono.M.Round Chrono.Spec Chrono.Spec.Round Chrono.Proofs.RoundL
open Chrono.Extracted.Round

/-- the data read from src/round.rs on this run is what the theorems below are about: the guard is
`span <= 0` in all three functions, a tie goes up (`delta_up <= delta_down`) in `duration_round` and in
`round_subsecs`, the stamp is in nanoseconds -/
theorem extracted_ok : SPAN_REFUSED_MAX_ROUND = 0 ∧ SPAN_REFUSED_MAX_TRUNC = 0 ∧
    SPAN_REFUSED_MAX_UP = 0 ∧ TIE_UP = true ∧ TIE_UP_SUBSEC = true ∧ STAMP_SCALE = 1000000000 ∧
    SPAN_TABLE.length = 9 ∧ SPAN_DEFAULT = 1 := by decide

/-- The closed forms are what the property says: `truncSpec` is the greatest multiple of the span
not after `s`, `upSpec` the least not before it, `roundSpec` is one of the two, no multiple is
nearer to `s`, and a tie goes up.  (About the specification only — independent of chrono.) -/
theorem spec_meaning (s span : Int) (hp : 0 < span) :
    (span ∣ truncSpec s span ∧ truncSpec s span ≤ s ∧
      ∀ m, span ∣ m → m ≤ s → m ≤ truncSpec s span) ∧
    (span ∣ upSpec s span ∧ s ≤ upSpec s span ∧
      ∀ m, span ∣ m → s ≤ m → upSpec s span ≤ m) ∧
    ((roundSpec s span = truncSpec s span ∨ roundSpec s span = upSpec s span) ∧
      (∀ m, span ∣ m → m ≤ s → roundSpec s span - s ≤ s - m ∧ s - roundSpec s span ≤ s - m) ∧
      (∀ m, span ∣ m → s ≤ m → roundSpec s span - s ≤ m - s ∧ s - roundSpec s span ≤ m - s) ∧
      (upSpec s span - s = s - truncSpec s span → roundSpec s span = upSpec s span)) :=
  spec_meaning' s span hp

/-- `duration_trunc`: for every stamp (in particular every `i64`) and every span `0 < span ≤ i64::MAX`
the `%`-with-sign-branches code moves the value to `truncSpec`; no step overflows or panics -/
theorem trunc_spec (s span : Int) (hp : 0 < span) (hp2 : span ≤ 9223372036854775807) :
    duration_trunc (some s) (some span) = .ok (.ok (truncSpec s span - s)) :=
  run_eval' .trunc s span hp hp2

/-- `duration_round_up` moves the value to `upSpec` -/
theorem up_spec (s span : Int) (hp : 0 < span) (hp2 : span ≤ 9223372036854775807) :
    duration_round_up (some s) (some span) = .ok (.ok (upSpec s span - s)) :=
  run_eval' .up s span hp hp2

/-- `duration_round` moves the value to `roundSpec` (nearer multiple, ties up) -/
theorem round_spec (s span : Int) (hp : 0 < span) (hp2 : span ≤ 9223372036854775807) :
    duration_round (some s) (some span) = .ok (.ok (roundSpec s span - s)) :=
  run_eval' .round s span hp hp2

example : duration_trunc (some (-7)) (some 4) = .ok (.ok (-1)) ∧ truncSpec (-7) 4 = -8 ∧
    duration_round_up (some (-7)) (some 4) = .ok (.ok 3) ∧ upSpec (-7) 4 = -4 ∧
    duration_round (some (-6)) (some 4) = .ok (.ok 2) ∧ roundSpec (-6) 4 = -4 ∧
    duration_round (some 6) (some 4) = .ok (.ok 2) ∧
    duration_trunc (some (-9223372036854775808)) (some 9223372036854775807) =
      .ok (.ok (-9223372036854775806)) := by decide

/-- the result is less than one span away from the input, on the right side of it, and for
`duration_round` at most half a span away -/
theorem lt_one_span (op : Op) (s span d : Int) (hp : 0 < span) (hp2 : span ≤ 9223372036854775807)
    (h : run op (some s) (some span) = .ok (.ok d)) :
    -span < d ∧ d < span ∧ (op = .trunc → d ≤ 0) ∧ (op = .up → 0 ≤ d) ∧
    (op = .round → 2 * d ≤ span ∧ -span < 2 * d) := by
  rw [run_eval' op s span hp hp2] at h
  have hd : d = specOf (kindOf op) s span - s := by
    have := Res.ok.inj h; exact (RR.ok.inj this).symm
  have hb := spec_bounds (kindOf op) s span hp
  have hs := spec_sides s span hp
  subst hd
  refine ⟨hb.1, hb.2, ?_, ?_, ?_⟩
  · intro e; subst e; show truncSpec s span - s ≤ 0; omega
  · intro e; subst e; show 0 ≤ upSpec s span - s; omega
  · intro e; subst e; show 2 * (roundSpec s span - s) ≤ span ∧ -span < 2 * (roundSpec s span - s); omega

/-- multiples of the span — and only they — are returned unchanged -/
theorem multiple_fixed (op : Op) (s span : Int) (hp : 0 < span) (hp2 : span ≤ 9223372036854775807) :
    span ∣ s ↔ run op (some s) (some span) = .ok (.ok 0) := by
  rw [run_eval' op s span hp hp2, spec_fixed_iff (kindOf op) s span hp]
  constructor
  · intro h; rw [h, Int.sub_self]
  · intro h
    have := RR.ok.inj (Res.ok.inj h)
    omega

/-- the result is a multiple of the span, and applying the operation to it again changes nothing.
(At the date-time level the result may have left the `i64` window — e.g. rounding up near
2262-04-11T23:47:16 — and the second call then reports `TimestampExceedsLimit`: `datetime_spec`.) -/
theorem idempotent (op : Op) (s span d : Int) (hp : 0 < span) (hp2 : span ≤ 9223372036854775807)
    (h : run op (some s) (some span) = .ok (.ok d)) :
    span ∣ (s + d) ∧ run op (some (s + d)) (some span) = .ok (.ok 0) := by
  rw [run_eval' op s span hp hp2] at h
  have hd : s + d = specOf (kindOf op) s span := by
    have := RR.ok.inj (Res.ok.inj h); omega
  rw [hd]
  exact ⟨spec_dvd _ s span hp, (multiple_fixed op _ span hp hp2).mp (spec_dvd _ s span hp)⟩

/-- truncation ≤ input ≤ rounding up; rounding lies between them; they are 0 or 1 span apart -/
theorem order (s span : Int) (hp : 0 < span) :
    truncSpec s span ≤ s ∧ s ≤ upSpec s span ∧
    truncSpec s span ≤ roundSpec s span ∧ roundSpec s span ≤ upSpec s span ∧
    (upSpec s span - truncSpec s span = 0 ∨ upSpec s span - truncSpec s span = span) :=
  ⟨(spec_sides s span hp).1, (spec_sides s span hp).2.1, spec_order s span hp⟩

example : run .round (some 1500000000) (some 1000000000) = .ok (.ok 500000000) ∧
    run .round (some 2000000000) (some 1000000000) = .ok (.ok 0) ∧
    (1000000000 : Int) ∣ 2000000000 := by decide

/-- Failure is reported exactly for: no span in nanoseconds / span ≤ 0 (`DurationExceedsLimit`,
checked first), no stamp in `i64` (`TimestampExceedsLimit`); otherwise `Ok`.  Never a panic, never
`DurationExceedsTimestamp`.  (`hspan`: a span that exists is an `i64`.) -/
theorem err_iff (op : Op) (stamp span : Option Int)
    (hspan : ∀ p, span = some p → p ≤ 9223372036854775807) :
    (run op stamp span = .ok (.err .DurationExceedsLimit) ↔
        (span = none ∨ ∃ p, span = some p ∧ p ≤ 0)) ∧
    (run op stamp span = .ok (.err .TimestampExceedsLimit) ↔
        ((∃ p, span = some p ∧ 0 < p) ∧ stamp = none)) ∧
    ((∃ d, run op stamp span = .ok (.ok d)) ↔
        ((∃ p, span = some p ∧ 0 < p) ∧ ∃ s, stamp = some s)) ∧
    run op stamp span ≠ .panic ∧
    run op stamp span ≠ .ok (.err .DurationExceedsTimestamp) :=
  err_iff' op stamp span hspan

example : run .trunc none (some 0) = .ok (.err .DurationExceedsLimit) ∧
    run .round none (some 5) = .ok (.err .TimestampExceedsLimit) ∧
    run .up (some 5) none = .ok (.err .DurationExceedsLimit) ∧
    run .up (some 5) (some (-3)) = .ok (.err .DurationExceedsLimit) := by decide

/-- The whole path for a date-time given by its UTC seconds, sub-second field (not in a leap
second) and offset (`0` for `NaiveDateTime`), and a valid `TimeDelta`: the stamp is the wall-clock
reading `(utc + off)·10⁹ + subsec`; the call fails exactly when the duration is not in
`1 ..= i64::MAX` ns or that stamp is not an `i64`; otherwise the value moves to the specified
multiple.  (`Spec.ns`/`DInv`: C06; stamp ↔ date-time: C02.) -/
theorem datetime_spec (op : Op) (utc sub off : Int) (dur : Delta) (hd : DInv dur)
    (h0 : 0 ≤ sub) (h1 : sub < 1000000000) :
    on_datetime op utc sub off dur =
      if ns dur ≤ 0 ∨ 9223372036854775807 < ns dur then .ok (.err .DurationExceedsLimit)
      else if ¬ InI64 ((utc + off) * 1000000000 + sub) then .ok (.err .TimestampExceedsLimit)
      else .ok (.ok (specOf (kindOf op) ((utc + off) * 1000000000 + sub) (ns dur)
                      - ((utc + off) * 1000000000 + sub))) :=
  on_datetime_eq op utc sub off dur hd h0 h1

/-- non-vacuity: 2262-04-11T23:47:16.854775807 (the last stamp) at +00:00 and one hour to the east;
a one-day span; a span one nanosecond too long -/
example : DInv ⟨86400, 0⟩ ∧ DInv ⟨9223372036, 854775808⟩ ∧
    on_datetime .trunc 9223372036 854775807 0 ⟨86400, 0⟩ = .ok (.ok (-85636854775807)) ∧
    on_datetime .trunc 9223372036 854775807 3600 ⟨86400, 0⟩ = .ok (.err .TimestampExceedsLimit) ∧
    on_datetime .trunc 9223372036 854775807 0 ⟨9223372036, 854775808⟩ = .ok (.err .DurationExceedsLimit) ∧
    on_datetime .up 9223372036 854775807 0 ⟨86400, 0⟩ = .ok (.ok 763145224193) ∧
    ¬ InI64 (9223372036854775807 + 763145224193) := by decide

/-- `span_for_digits` (table re-extracted from the source on every run) is 10^(9 − min 9 digits)
for every digit count -/
theorem span_for_digits_spec (digits : Nat) :
    span_for_digits digits = (10 : Int) ^ (9 - min 9 digits) :=
  span_for_digits_eq digits

/-- Sub-second truncation and rounding, for every nanosecond field (`< 2·10⁹`: leap seconds
included) and every digit count (all of `u16` and beyond): the model returns the specified
(field, carried seconds) pair; no step panics. -/
theorem subsec_spec (frac : Int) (digits : Nat) (h0 : 0 ≤ frac) (h1 : frac < 2000000000) :
    trunc_subsecs frac digits = .ok (truncSubsecSpec frac digits) ∧
    round_subsecs frac digits = .ok (roundSubsecSpec frac digits) := by
  have hlit := digitSpan_cases digits
  exact ⟨trunc_subsecs_lit frac _ digits (span_for_digits_eq digits) rfl h0 h1 hlit,
    round_subsecs_lit frac _ digits (span_for_digits_eq digits) rfl h0 h1 hlit⟩

/-- What the sub-second specification says: truncation stays in the second (a leap-second fraction
stays ≥ 10⁹) at the greatest multiple of 10^(9−digits) not after the field, less than one span below
it; rounding gives the nearer multiple (ties up) inside the second, or — when that multiple is the
end of the second — field 0 with one second carried; nine or more digits change nothing. -/
theorem subsec_meaning (frac : Int) (digits : Nat) (h0 : 0 ≤ frac) (h1 : frac < 2000000000) :
    let base := leapBase frac
    let t := truncSubsecSpec frac digits
    let r := roundSubsecSpec frac digits
    (t.2 = 0 ∧ t.1 = truncSpec frac (digitSpan digits) ∧ base ≤ t.1 ∧ t.1 ≤ frac ∧
      frac - t.1 < digitSpan digits) ∧
    ((r.2 = 0 ∧ r.1 = roundSpec frac (digitSpan digits) ∧ base ≤ r.1 ∧ r.1 < base + 1000000000) ∨
     (r.2 = 1 ∧ r.1 = 0 ∧ roundSpec frac (digitSpan digits) = base + 1000000000)) ∧
    (9 ≤ digits → t = (frac, 0) ∧ r = (frac, 0)) :=
  subsec_meaning' frac digits h0 h1

example : round_subsecs 154000000 2 = .ok (150000000, 0) ∧ round_subsecs 154000000 1 = .ok (200000000, 0) ∧
    round_subsecs 999999999 3 = .ok (0, 1) ∧ trunc_subsecs 1999999999 0 = .ok (1000000000, 0) ∧
    round_subsecs 1500000000 0 = .ok (0, 1) ∧ round_subsecs 1499999999 0 = .ok (1000000000, 0) ∧
    round_subsecs 123456789 65535 = .ok (123456789, 0) := by decide

/-- FINDING (kept visible; replayed on the crate by the harness).  A date-time inside a leap second
(sub-second field ≥ 10⁹) has the stamp of the following second, but `original + delta` counts the
leap second as a real second.  2016-12-31T23:59:60.5 rounded up to one minute moves by 59.5 s and
lands on 2017-01-01T00:00:59, whose timestamp is not a multiple of one minute (1 s short). -/
theorem leap_second_round_up_reads_back_short :
    on_datetime .up 1483228799 1500000000 0 ⟨60, 0⟩ = .ok (.ok 59500000000) ∧
    stamp_after (1483228799 * 1000000000 + 1500000000) 1500000000 59500000000
      = 1483228859 * 1000000000 ∧
    ¬ ((60000000000 : Int) ∣ 1483228859 * 1000000000) ∧
    (60000000000 : Int) ∣ 1483228860 * 1000000000 := by decide

end Chrono.Props.C17
