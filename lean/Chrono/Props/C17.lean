/-
  C17 — Rounding and truncation land on the right multiple.  Property statements only.

  `duration_trunc/round/round_up` (Model/Round.lean) work on the wall-clock nanosecond stamp
  (`Option Int`: `None` = not representable in `i64`) and on the span `duration.num_nanoseconds()`
  (`Option Int`); the result `.ok (.ok d)` means `Ok(original ± TimeDelta::nanoseconds(|d|))`, i.e.
  the value moved by `d` ns.  `Res.panic` would be an overflow trap / `abs` of `i64::MIN`.
  Specification (Spec/RoundSpec.lean): `truncSpec s p = s − s mod p`, `upSpec s p = s + (−s) mod p`
  (Euclidean `mod`), `roundSpec` = the nearer of the two, a tie going up.

  The first part of the file is about that integer part (`trunc_spec` … `datetime_spec`); the section
  "The returned value" composes it with C02 (stamps), C03/C07 (`original ± TimeDelta`) and C04
  (`overflowing_naive_local`) into statements about the value the call returns
  (`naive_result`, `zoned_result`, `…_properties`).
-/
import Chrono.Proofs.RoundCor2L
import Chrono.Props.GenDelta

namespace Chrono.Props.C17
open Chrono Chrono.M Chrono.M.Round Chrono.Spec Chrono.Spec.Round Chrono.Proofs.RoundL
open Chrono.Extracted.Round Chrono.Proofs.RoundDt

/-- the data read from src/round.rs on this run is what the theorems below are about: the guard is
`span <= 0` in all three functions, a tie goes up (`delta_up <= delta_down`) in `duration_round` and in
`round_subsecs`, the stamp is in nanoseconds -/
theorem extracted_ok : SPAN_REFUSED_MAX_ROUND = 0 ∧ SPAN_REFUSED_MAX_TRUNC = 0 ∧
    SPAN_REFUSED_MAX_UP = 0 ∧ TIE_UP = true ∧ TIE_UP_SUBSEC = true ∧ STAMP_SCALE = 1000000000 ∧
    SPAN_TABLE.length = 9 ∧ SPAN_DEFAULT = 1 := by decide

/-- The closed forms are what the property says: `truncSpec` is the greatest multiple of the span
not after `s`, `upSpec` the least not before it, `roundSpec` is one of the two, no multiple is
nearer to `s`, and a tie goes up.  (About the specification only — independent of chrono.) -/
theorem spec_meaning (s span : Int) (hp : 0 < span) :
    (span ∣ truncSpec s span ∧ truncSpec s span ≤ s ∧
      ∀ m, span ∣ m → m ≤ s → m ≤ truncSpec s span) ∧
    (span ∣ upSpec s span ∧ s ≤ upSpec s span ∧
      ∀ m, span ∣ m → s ≤ m → upSpec s span ≤ m) ∧
    ((roundSpec s span = truncSpec s span ∨ roundSpec s span = upSpec s span) ∧
      (∀ m, span ∣ m → m ≤ s → roundSpec s span - s ≤ s - m ∧ s - roundSpec s span ≤ s - m) ∧
      (∀ m, span ∣ m → s ≤ m → roundSpec s span - s ≤ m - s ∧ s - roundSpec s span ≤ m - s) ∧
      (upSpec s span - s = s - truncSpec s span → roundSpec s span = upSpec s span)) :=
  spec_meaning' s span hp

/-- `duration_trunc`: for every stamp (in particular every `i64`) and every span `0 < span ≤ i64::MAX`
the `%`-with-sign-branches code moves the value to `truncSpec`; no step overflows or panics -/
theorem trunc_spec (s span : Int) (hp : 0 < span) (hp2 : span ≤ 9223372036854775807) :
    duration_trunc (some s) (some span) = .ok (.ok (truncSpec s span - s)) :=
  run_eval' .trunc s span hp hp2

/-- `duration_round_up` moves the value to `upSpec` -/
theorem up_spec (s span : Int) (hp : 0 < span) (hp2 : span ≤ 9223372036854775807) :
    duration_round_up (some s) (some span) = .ok (.ok (upSpec s span - s)) :=
  run_eval' .up s span hp hp2

/-- `duration_round` moves the value to `roundSpec` (nearer multiple, ties up) -/
theorem round_spec (s span : Int) (hp : 0 < span) (hp2 : span ≤ 9223372036854775807) :
    duration_round (some s) (some span) = .ok (.ok (roundSpec s span - s)) :=
  run_eval' .round s span hp hp2

example : duration_trunc (some (-7)) (some 4) = .ok (.ok (-1)) ∧ truncSpec (-7) 4 = -8 ∧
    duration_round_up (some (-7)) (some 4) = .ok (.ok 3) ∧ upSpec (-7) 4 = -4 ∧
    duration_round (some (-6)) (some 4) = .ok (.ok 2) ∧ roundSpec (-6) 4 = -4 ∧
    duration_round (some 6) (some 4) = .ok (.ok 2) ∧
    duration_trunc (some (-9223372036854775808)) (some 9223372036854775807) =
      .ok (.ok (-9223372036854775806)) := by decide

/-- the result is less than one span away from the input, on the right side of it, and for
`duration_round` at most half a span away -/
theorem lt_one_span (op : Op) (s span d : Int) (hp : 0 < span) (hp2 : span ≤ 9223372036854775807)
    (h : run op (some s) (some span) = .ok (.ok d)) :
    -span < d ∧ d < span ∧ (op = .trunc → d ≤ 0) ∧ (op = .up → 0 ≤ d) ∧
    (op = .round → 2 * d ≤ span ∧ -span < 2 * d) := by
  rw [run_eval' op s span hp hp2] at h
  have hd : d = specOf (kindOf op) s span - s := by
    have := Res.ok.inj h; exact (RR.ok.inj this).symm
  have hb := spec_bounds (kindOf op) s span hp
  have hs := spec_sides s span hp
  subst hd
  refine ⟨hb.1, hb.2, ?_, ?_, ?_⟩
  · intro e; subst e; show truncSpec s span - s ≤ 0; omega
  · intro e; subst e; show 0 ≤ upSpec s span - s; omega
  · intro e; subst e; show 2 * (roundSpec s span - s) ≤ span ∧ -span < 2 * (roundSpec s span - s); omega

/-- multiples of the span — and only they — are returned unchanged -/
theorem multiple_fixed (op : Op) (s span : Int) (hp : 0 < span) (hp2 : span ≤ 9223372036854775807) :
    span ∣ s ↔ run op (some s) (some span) = .ok (.ok 0) := by
  rw [run_eval' op s span hp hp2, spec_fixed_iff (kindOf op) s span hp]
  constructor
  · intro h; rw [h, Int.sub_self]
  · intro h
    have := RR.ok.inj (Res.ok.inj h)
    omega

/-- on integers (no 64-bit window: `run` takes any `Int` as the stamp): the result is a multiple of
the span, and applying the operation to it again changes nothing.  On the values the second call may
find the result outside the `i64` window (rounding up near 2262-04-11T23:47:16) and then reports
`TimestampExceedsLimit`: the exact statement is the last conjunct of `naive_result_properties` /
`zoned_result_properties`. -/
theorem idempotent (op : Op) (s span d : Int) (hp : 0 < span) (hp2 : span ≤ 9223372036854775807)
    (h : run op (some s) (some span) = .ok (.ok d)) :
    span ∣ (s + d) ∧ run op (some (s + d)) (some span) = .ok (.ok 0) := by
  rw [run_eval' op s span hp hp2] at h
  have hd : s + d = specOf (kindOf op) s span := by
    have := RR.ok.inj (Res.ok.inj h); omega
  rw [hd]
  exact ⟨spec_dvd _ s span hp, (multiple_fixed op _ span hp hp2).mp (spec_dvd _ s span hp)⟩

/-- truncation ≤ input ≤ rounding up; rounding lies between them; they are 0 or 1 span apart -/
theorem order (s span : Int) (hp : 0 < span) :
    truncSpec s span ≤ s ∧ s ≤ upSpec s span ∧
    truncSpec s span ≤ roundSpec s span ∧ roundSpec s span ≤ upSpec s span ∧
    (upSpec s span - truncSpec s span = 0 ∨ upSpec s span - truncSpec s span = span) :=
  ⟨(spec_sides s span hp).1, (spec_sides s span hp).2.1, spec_order s span hp⟩

example : run .round (some 1500000000) (some 1000000000) = .ok (.ok 500000000) ∧
    run .round (some 2000000000) (some 1000000000) = .ok (.ok 0) ∧
    (1000000000 : Int) ∣ 2000000000 := by decide

/-- Failure is reported exactly for: no span in nanoseconds / span ≤ 0 (`DurationExceedsLimit`,
checked first), no stamp in `i64` (`TimestampExceedsLimit`); otherwise `Ok`.  Never a panic, never
`DurationExceedsTimestamp`.  (`hspan`: a span that exists is an `i64`.) -/
theorem err_iff (op : Op) (stamp span : Option Int)
    (hspan : ∀ p, span = some p → p ≤ 9223372036854775807) :
    (run op stamp span = .ok (.err .DurationExceedsLimit) ↔
        (span = none ∨ ∃ p, span = some p ∧ p ≤ 0)) ∧
    (run op stamp span = .ok (.err .TimestampExceedsLimit) ↔
        ((∃ p, span = some p ∧ 0 < p) ∧ stamp = none)) ∧
    ((∃ d, run op stamp span = .ok (.ok d)) ↔
        ((∃ p, span = some p ∧ 0 < p) ∧ ∃ s, stamp = some s)) ∧
    run op stamp span ≠ .panic ∧
    run op stamp span ≠ .ok (.err .DurationExceedsTimestamp) :=
  err_iff' op stamp span hspan

example : run .trunc none (some 0) = .ok (.err .DurationExceedsLimit) ∧
    run .round none (some 5) = .ok (.err .TimestampExceedsLimit) ∧
    run .up (some 5) none = .ok (.err .DurationExceedsLimit) ∧
    run .up (some 5) (some (-3)) = .ok (.err .DurationExceedsLimit) := by decide

/-- The whole integer path for a date-time given by its UTC seconds, sub-second field (any; a field
≥ 10⁹ is a leap second) and offset (`0` for `NaiveDateTime`), and a valid `TimeDelta`: the stamp is the
wall-clock reading `(utc + off)·10⁹ + subsec`; the call fails exactly when the duration is not in
`1 ..= i64::MAX` ns or that stamp is not an `i64`; otherwise the value is moved by the signed distance
to the specified multiple.  (`Spec.ns`/`DInv`: C06.  What the move does to the value: the section
"The returned value".) -/
theorem datetime_spec (op : Op) (utc sub off : Int) (dur : Delta) (hd : DInv dur) :
    on_datetime op utc sub off dur =
      if ns dur ≤ 0 ∨ 9223372036854775807 < ns dur then .ok (.err .DurationExceedsLimit)
      else if ¬ InI64 ((utc + off) * 1000000000 + sub) then .ok (.err .TimestampExceedsLimit)
      else .ok (.ok (specOf (kindOf op) ((utc + off) * 1000000000 + sub) (ns dur)
                      - ((utc + off) * 1000000000 + sub))) :=
  on_datetime_eq2 op utc sub off dur hd

/-- non-vacuity: 2262-04-11T23:47:16.854775807 (the last stamp) at +00:00 and one hour to the east;
a one-day span; a span one nanosecond too long -/
example : DInv ⟨86400, 0⟩ ∧ DInv ⟨9223372036, 854775808⟩ ∧
    on_datetime .trunc 9223372036 854775807 0 ⟨86400, 0⟩ = .ok (.ok (-85636854775807)) ∧
    on_datetime .trunc 9223372036 854775807 3600 ⟨86400, 0⟩ = .ok (.err .TimestampExceedsLimit) ∧
    on_datetime .trunc 9223372036 854775807 0 ⟨9223372036, 854775808⟩ = .ok (.err .DurationExceedsLimit) ∧
    on_datetime .up 9223372036 854775807 0 ⟨86400, 0⟩ = .ok (.ok 763145224193) ∧
    ¬ InI64 (9223372036854775807 + 763145224193) := by decide

/-! ### The returned value (NaiveDateTime and DateTime<FixedOffset>)

`naive_duration` / `zoned_duration` (Model/RoundDT.lean; driver ops `rd.n.*` / `rd.z.*`) are the
whole calls: span guard, `timestamp_nanos_opt` of the (wall-clock) reading, the integer part above,
and `Ok(original)` / `original + TimeDelta::nanoseconds(d)` / `original - TimeDelta::nanoseconds(-d)`
with the operator models of C03.  `instNs v` is the nanosecond timestamp of a value (C02),
`wallNs z = instNs z.utc + z.off·10⁹` that of the wall clock of a zone-aware value.  Every case below
is an equation `… = .ok …`: in particular no step of the call panics. -/

/-- the value-level functions run the integer path (`on_datetime`, what the theorems above and the
driver ops `rd.trunc/round/up` are about) on the stamp of the reading, then `finish`: pass an error
on, or move `original` by the signed count (`apply_move`) -/
theorem value_level_runs_integer_path (op : Op) (dt : NaiveDT) (z : Zoned) (dur : Delta)
    (hdt : NDTInv dt) (hz : ZInv z) :
    naive_duration op dt dur =
      finish NaiveDT.add NaiveDT.sub dt (on_datetime op (instSecs dt) dt.time.frac 0 dur) ∧
    zoned_duration op z dur =
      finish Zoned.add Zoned.sub z (on_datetime op (instSecs z.utc) z.utc.time.frac z.off dur) := by
  constructor
  · exact generic_eq op dt ⟨((Chrono.Proofs.dateInv_iff dt.date).mp hdt.1).1, hdt.2⟩ dt _ _ dur
  · obtain ⟨l, hl, hext, hsecs, hfrac, _, _⟩ := Chrono.Proofs.naive_local_spec z hz
    unfold zoned_duration
    rw [hl]
    simp only []
    rw [generic_eq op l hext z _ _ dur, hsecs, hfrac]
    unfold on_datetime wall_stamp wallSecs
    rw [Int.add_zero]

/-- **`NaiveDateTime`, every valid value outside a leap second, every valid `TimeDelta`.**  The call
returns `Err(DurationExceedsLimit)` exactly when the duration is not in `1 ..= i64::MAX` ns, else
`Err(TimestampExceedsLimit)` exactly when the value's nanosecond timestamp is not an `i64`, else
`Ok(v)` with `v` a valid non-leap value whose timestamp is the specified multiple — also as the
crate's own `timestamp_nanos_opt` reads it back. -/
theorem naive_result (op : Op) (dt : NaiveDT) (dur : Delta) (hdt : NDTInv dt) (hnl : NonLeap dt)
    (hd : DInv dur) :
    (ns dur ≤ 0 ∨ 9223372036854775807 < ns dur →
      naive_duration op dt dur = .ok (.err .DurationExceedsLimit)) ∧
    (0 < ns dur ∧ ns dur ≤ 9223372036854775807 → ¬ InI64 (instNs dt) →
      naive_duration op dt dur = .ok (.err .TimestampExceedsLimit)) ∧
    (0 < ns dur ∧ ns dur ≤ 9223372036854775807 → InI64 (instNs dt) →
      ∃ v, naive_duration op dt dur = .ok (.ok v) ∧ NDTInv v ∧ NonLeap v ∧
        instNs v = specOf (kindOf op) (instNs dt) (ns dur) ∧
        NaiveDT.timestamp_nanos_opt v = .ok (if InI64 (instNs v) then some (instNs v) else none)) := by
  obtain ⟨e1, e2, e3⟩ := naive_eval op dt dur hdt hd
  refine ⟨e1, e2, ?_⟩
  intro hg hin
  obtain ⟨x, hx, hm, _⟩ := e3 hg hin
  obtain ⟨a, b, c⟩ := moved_nonleap dt x _ hnl hm
  exact ⟨x, hx, a, b, by rw [c]; omega, stamp_of_result x a (strict_of_nonleap x a b)⟩

/-- **`DateTime<FixedOffset>`** (any offset of less than a day, `Utc` = offset 0), UTC reading valid
and outside a leap second: the same with the WALL-CLOCK timestamp `wallNs` in place of the
timestamp; the returned value keeps the offset; its UTC reading is valid and non-leap.  The wall
clock may lie outside chrono's date range (`MIN_UTC` viewed at a negative offset): that is a
`TimestampExceedsLimit`, not a panic. -/
theorem zoned_result (op : Op) (z : Zoned) (dur : Delta) (hz : ZInv z) (hnl : NonLeap z.utc)
    (hd : DInv dur) :
    (ns dur ≤ 0 ∨ 9223372036854775807 < ns dur →
      zoned_duration op z dur = .ok (.err .DurationExceedsLimit)) ∧
    (0 < ns dur ∧ ns dur ≤ 9223372036854775807 → ¬ InI64 (wallNs z) →
      zoned_duration op z dur = .ok (.err .TimestampExceedsLimit)) ∧
    (0 < ns dur ∧ ns dur ≤ 9223372036854775807 → InI64 (wallNs z) →
      ∃ v, zoned_duration op z dur = .ok (.ok v) ∧ v.off = z.off ∧ ZInv v ∧ NonLeap v.utc ∧
        wallNs v = specOf (kindOf op) (wallNs z) (ns dur)) := by
  obtain ⟨e1, e2, e3⟩ := zoned_eval op z dur hz hd
  refine ⟨e1, e2, ?_⟩
  intro hg hin
  obtain ⟨x, hx, hm, _⟩ := e3 hg hin
  obtain ⟨a, b, c⟩ := moved_nonleap z.utc x _ hnl hm
  refine ⟨⟨x, z.off⟩, hx, rfl, ⟨a, hz.2⟩, b, ?_⟩
  unfold wallNs at *
  dsimp only
  rw [c]; omega

/-- non-vacuity: 2018-01-11T12:00:00.154 to 10 ms, to one day (the doc examples), at +01:00 to one day
(the wall-clock midnight, 23:00 UTC); the last stamp of the window rounded up leaves the window and is
still returned; `MIN_UTC` at −00:00:01 has its wall clock outside chrono's range: an error, no panic -/
example : NDTInv ⟨dateOfYo 2018 11, ⟨43200, 154000000⟩⟩ ∧ NonLeap ⟨dateOfYo 2018 11, ⟨43200, 154000000⟩⟩ ∧
    naive_duration .round ⟨dateOfYo 2018 11, ⟨43200, 154000000⟩⟩ ⟨0, 10000000⟩ =
      .ok (.ok ⟨dateOfYo 2018 11, ⟨43200, 150000000⟩⟩) ∧
    naive_duration .up ⟨dateOfYo 2018 11, ⟨43200, 154000000⟩⟩ ⟨86400, 0⟩ =
      .ok (.ok ⟨dateOfYo 2018 12, ⟨0, 0⟩⟩) ∧
    zoned_duration .trunc ⟨⟨dateOfYo 2018 11, ⟨43200, 154000000⟩⟩, 3600⟩ ⟨86400, 0⟩ =
      .ok (.ok ⟨⟨dateOfYo 2018 10, ⟨82800, 0⟩⟩, 3600⟩) ∧
    naive_duration .up ⟨dateOfYo 2262 101, ⟨85636, 854775807⟩⟩ ⟨86400, 0⟩ =
      .ok (.ok ⟨dateOfYo 2262 102, ⟨0, 0⟩⟩) ∧
    naive_duration .up ⟨dateOfYo 2262 102, ⟨0, 0⟩⟩ ⟨86400, 0⟩ = .ok (.err .TimestampExceedsLimit) ∧
    ZInv ⟨NaiveDT.MIN, -1⟩ ∧
    zoned_duration .trunc ⟨NaiveDT.MIN, -1⟩ ⟨1, 0⟩ = .ok (.err .TimestampExceedsLimit) ∧
    naive_duration .trunc NaiveDT.MAX ⟨0, 0⟩ = .ok (.err .DurationExceedsLimit) := by decide +kernel

/-- **The clauses of the property on the returned `NaiveDateTime`** (input outside a leap second).
Whenever the call returns `Ok(v)`: the span is in `1 ..= i64::MAX` ns and the input in the window; the
timestamp `m` of `v` is a multiple of the span, less than one span from the input's `w`, on the right
side (`trunc`: not after, `round_up`: not before, `round`: at most half a span, a tie up); the value
is returned unchanged exactly when `w` is a multiple; and the operation is idempotent — unless the
result has left the 64-bit window (rounding up from the last 23:47:16 of the window), in which case
the second call reports `TimestampExceedsLimit`. -/
theorem naive_result_properties (op : Op) (dt v : NaiveDT) (dur : Delta) (hdt : NDTInv dt)
    (hnl : NonLeap dt) (hd : DInv dur) (h : naive_duration op dt dur = .ok (.ok v)) :
    (0 < ns dur ∧ ns dur ≤ 9223372036854775807) ∧ InI64 (instNs dt) ∧
    ns dur ∣ instNs v ∧ -(ns dur) < instNs v - instNs dt ∧ instNs v - instNs dt < ns dur ∧
    (op = .trunc → instNs v ≤ instNs dt) ∧ (op = .up → instNs dt ≤ instNs v) ∧
    (op = .round → 2 * (instNs v - instNs dt) ≤ ns dur ∧ -(ns dur) < 2 * (instNs v - instNs dt)) ∧
    (ns dur ∣ instNs dt ↔ v = dt) ∧
    naive_duration op v dur =
      if InI64 (instNs v) then .ok (.ok v) else .ok (.err .TimestampExceedsLimit) := by
  obtain ⟨hg, hs, hm, hz⟩ := naive_ok_inv op dt v dur hdt hd h
  obtain ⟨a, b, c⟩ := moved_nonleap dt v _ hnl hm
  have hc : instNs v = specOf (kindOf op) (instNs dt) (ns dur) := by rw [c]; omega
  obtain ⟨c1, c2, c3, c4, c5, c6, c7, c8⟩ := spec_corollaries op (instNs dt) (ns dur) hg.1
  rw [← hc] at c1 c2 c3 c4 c5 c6 c7
  refine ⟨hg, hs, c1, c2, c3, c4, c5, c6,
    ⟨fun hdv => hz (by rw [← hc]; exact c7.mp hdv), fun e => c7.mpr (by rw [e])⟩, ?_⟩
  obtain ⟨_, e2, e3⟩ := naive_result op v dur a b hd
  by_cases hin : InI64 (instNs v)
  · rw [if_pos hin]
    obtain ⟨x, hx, _, _, _, _⟩ := e3 hg hin
    obtain ⟨_, _, _, hz'⟩ := naive_ok_inv op v x dur a hd hx
    rw [hx, hz' (by rw [hc]; exact c8)]
  · rw [if_neg hin]; exact e2 hg hin

/-- **… and on the returned `DateTime<FixedOffset>`**, with the wall-clock timestamp `wallNs`; the
offset is kept -/
theorem zoned_result_properties (op : Op) (z v : Zoned) (dur : Delta) (hz : ZInv z)
    (hnl : NonLeap z.utc) (hd : DInv dur) (h : zoned_duration op z dur = .ok (.ok v)) :
    (0 < ns dur ∧ ns dur ≤ 9223372036854775807) ∧ InI64 (wallNs z) ∧ v.off = z.off ∧
    ns dur ∣ wallNs v ∧ -(ns dur) < wallNs v - wallNs z ∧ wallNs v - wallNs z < ns dur ∧
    (op = .trunc → wallNs v ≤ wallNs z) ∧ (op = .up → wallNs z ≤ wallNs v) ∧
    (op = .round → 2 * (wallNs v - wallNs z) ≤ ns dur ∧ -(ns dur) < 2 * (wallNs v - wallNs z)) ∧
    (ns dur ∣ wallNs z ↔ v = z) ∧
    zoned_duration op v dur =
      if InI64 (wallNs v) then .ok (.ok v) else .ok (.err .TimestampExceedsLimit) := by
  obtain ⟨hg, hs, hoff, hm, hzero⟩ := zoned_ok_inv op z v dur hz hd h
  obtain ⟨a, b, c⟩ := moved_nonleap z.utc v.utc _ hnl hm
  have hin : InI64 (wallNs z) := hs
  have hc : wallNs v = specOf (kindOf op) (wallNs z) (ns dur) := by
    unfold wallNs at *; rw [c, hoff]; omega
  obtain ⟨c1, c2, c3, c4, c5, c6, c7, c8⟩ := spec_corollaries op (wallNs z) (ns dur) hg.1
  rw [← hc] at c1 c2 c3 c4 c5 c6 c7
  have hzv : ZInv v := ⟨a, by rw [hoff]; exact hz.2⟩
  refine ⟨hg, hin, hoff, c1, c2, c3, c4, c5, c6,
    ⟨fun hdv => hzero (by rw [← hc]; exact c7.mp hdv), fun e => c7.mpr (by rw [e])⟩, ?_⟩
  obtain ⟨_, e2, e3⟩ := zoned_result op v dur hzv b hd
  by_cases hin' : InI64 (wallNs v)
  · rw [if_pos hin']
    obtain ⟨x, hx, _, _, _, _⟩ := e3 hg hin'
    obtain ⟨_, _, _, _, hz'⟩ := zoned_ok_inv op v x dur hzv hd hx
    rw [hx, hz' (by rw [hc]; exact c8)]
  · rw [if_neg hin']; exact e2 hg hin'

/-- idempotent inside the window; the one way out of it -/
example : naive_duration .round ⟨dateOfYo 2018 11, ⟨43200, 150000000⟩⟩ ⟨0, 10000000⟩ =
      .ok (.ok ⟨dateOfYo 2018 11, ⟨43200, 150000000⟩⟩) ∧
    zoned_duration .trunc ⟨⟨dateOfYo 2018 10, ⟨82800, 0⟩⟩, 3600⟩ ⟨86400, 0⟩ =
      .ok (.ok ⟨⟨dateOfYo 2018 10, ⟨82800, 0⟩⟩, 3600⟩) ∧
    ¬ InI64 (instNs ⟨dateOfYo 2262 102, ⟨0, 0⟩⟩) := by decide +kernel

/-! ### Inputs inside a leap second (nanosecond field ≥ 10⁹): what holds instead

The property's quantifier says "all date-times", but for a value inside a leap second the clause
"the result is the specified multiple" is FALSE (known finding F19).  `naive_result` / `zoned_result`
cover every valid value outside a leap second; the theorems below cover every valid value inside one,
so the two domains together are all valid values.  The stamp of such a value is the line position
`w = secs·10⁹ + field` (`instNs`, with field ≥ 10⁹: the leap second has the stamp of the following
second plus its own fraction); the span is found from `w` correctly (`d = specOf … w − w`), but
`original + d` counts the leap second as a real second (C07), so a move forwards past its end reads
back one second short.  The error cases are the same as outside a leap second (since fix 32de816 of
`timestamp_nanos_opt`, which used to refuse the wall-clock second −9223372038 with a leap-second field
although the count fits). -/

/-- the integer path (`rd.trunc/round/up`) for a leap-second field: `datetime_spec` (repeated here),
and the result `original + d` reads back (`stamp_after`) as the specified multiple exactly when the
move does not pass the end of the leap second, else exactly 10⁹ ns before it -/
theorem datetime_spec_leap (op : Op) (utc sub off : Int) (dur : Delta) (hd : DInv dur)
    (h0 : 1000000000 ≤ sub) (h1 : sub < 2000000000) :
    let w := (utc + off) * 1000000000 + sub
    let m := specOf (kindOf op) w (ns dur)
    on_datetime op utc sub off dur =
      (if ns dur ≤ 0 ∨ 9223372036854775807 < ns dur then .ok (.err .DurationExceedsLimit)
       else if ¬ InI64 w then .ok (.err .TimestampExceedsLimit)
       else .ok (.ok (m - w))) ∧
    (stamp_after w sub (m - w) = m ↔ sub + (m - w) < 2000000000) ∧
    (2000000000 ≤ sub + (m - w) → stamp_after w sub (m - w) = m - 1000000000) := by
  intro w m
  refine ⟨on_datetime_eq2 op utc sub off dur hd, ?_, ?_⟩
  · unfold stamp_after; split <;> omega
  · intro h; unfold stamp_after; rw [if_pos ⟨by omega, by omega⟩]; omega

/-- **`NaiveDateTime` inside a leap second**: errors as outside one; otherwise `Ok(v)`, `v` valid,
and with `m` the specified multiple and `d = m − w`: if the move stays before the end of the leap
second (`field + d < 2·10⁹`: every truncation, every round that goes down, and an upward move inside
the leap second) the timestamp of `v` is `m`; otherwise it is `m − 10⁹` and `v` is outside the leap
second.  `v` is itself a leap-second value exactly when it stays inside the same leap second. -/
theorem naive_result_leap (op : Op) (dt : NaiveDT) (dur : Delta) (hdt : NDTInv dt) (hl : ¬ NonLeap dt)
    (hd : DInv dur) :
    let w := instNs dt
    let m := specOf (kindOf op) w (ns dur)
    (ns dur ≤ 0 ∨ 9223372036854775807 < ns dur →
      naive_duration op dt dur = .ok (.err .DurationExceedsLimit)) ∧
    (0 < ns dur ∧ ns dur ≤ 9223372036854775807 → ¬ InI64 w →
      naive_duration op dt dur = .ok (.err .TimestampExceedsLimit)) ∧
    (0 < ns dur ∧ ns dur ≤ 9223372036854775807 → InI64 w →
      ∃ v, naive_duration op dt dur = .ok (.ok v) ∧ NDTInv v ∧
        (dt.time.frac + (m - w) < 2000000000 → instNs v = m) ∧
        (2000000000 ≤ dt.time.frac + (m - w) → instNs v = m - 1000000000 ∧ NonLeap v) ∧
        (¬ NonLeap v ↔ (1000000000 ≤ dt.time.frac + (m - w) ∧ dt.time.frac + (m - w) < 2000000000)) ∧
        (TStrict dt.time → TStrict v.time ∧
          NaiveDT.timestamp_nanos_opt v = .ok (if InI64 (instNs v) then some (instNs v) else none))) := by
  dsimp only
  obtain ⟨e1, e2, e3⟩ := naive_eval op dt dur hdt hd
  refine ⟨e1, e2, ?_⟩
  intro hg hin
  obtain ⟨x, hx, hm, _⟩ := e3 hg hin
  obtain ⟨a, b, c, d', e⟩ := moved_leap dt x _ hl hm
  refine ⟨x, hx, a, fun h => by rw [b h]; omega, fun h => ?_, d', fun hs => ?_⟩
  · obtain ⟨c1, c2⟩ := c h
    exact ⟨by rw [c1]; omega, c2⟩
  · exact ⟨e hs, stamp_of_result x a (e hs)⟩

/-- **`DateTime<FixedOffset>` whose UTC reading is inside a leap second**: the same on the wall clock;
the crate's own `timestamp_nanos_opt` (which reads the UTC instant of a `DateTime`) reads the result back
as `instNs` of its UTC reading -/
theorem zoned_result_leap (op : Op) (z : Zoned) (dur : Delta) (hz : ZInv z) (hl : ¬ NonLeap z.utc)
    (hd : DInv dur) :
    let w := wallNs z
    let m := specOf (kindOf op) w (ns dur)
    (ns dur ≤ 0 ∨ 9223372036854775807 < ns dur →
      zoned_duration op z dur = .ok (.err .DurationExceedsLimit)) ∧
    (0 < ns dur ∧ ns dur ≤ 9223372036854775807 → ¬ InI64 w →
      zoned_duration op z dur = .ok (.err .TimestampExceedsLimit)) ∧
    (0 < ns dur ∧ ns dur ≤ 9223372036854775807 → InI64 w →
      ∃ v, zoned_duration op z dur = .ok (.ok v) ∧ v.off = z.off ∧ ZInv v ∧
        (z.utc.time.frac + (m - w) < 2000000000 → wallNs v = m) ∧
        (2000000000 ≤ z.utc.time.frac + (m - w) → wallNs v = m - 1000000000 ∧ NonLeap v.utc) ∧
        (¬ NonLeap v.utc ↔
          (1000000000 ≤ z.utc.time.frac + (m - w) ∧ z.utc.time.frac + (m - w) < 2000000000)) ∧
        (TStrict z.utc.time → TStrict v.utc.time ∧
          NaiveDT.timestamp_nanos_opt v.utc =
            .ok (if InI64 (instNs v.utc) then some (instNs v.utc) else none))) := by
  dsimp only
  obtain ⟨e1, e2, e3⟩ := zoned_eval op z dur hz hd
  refine ⟨e1, e2, ?_⟩
  intro hg hin
  obtain ⟨x, hx, hm, _⟩ := e3 hg hin
  obtain ⟨a, b, c, d', e⟩ := moved_leap z.utc x _ hl hm
  have hwx : ∀ k, instNs x = instNs z.utc +
        (specOf (kindOf op) (wallNs z) (ns dur) - wallNs z) - k →
      wallNs (⟨x, z.off⟩ : Zoned) = specOf (kindOf op) (wallNs z) (ns dur) - k := by
    intro k hk
    show instNs x + z.off * 1000000000 = _
    rw [hk]
    generalize specOf (kindOf op) (wallNs z) (ns dur) = m
    unfold wallNs; omega
  refine ⟨⟨x, z.off⟩, hx, rfl, ⟨a, hz.2⟩, fun h => ?_, fun h => ?_, d',
    fun hs => ⟨e hs, stamp_of_result x a (e hs)⟩⟩
  · have := hwx 0 (by rw [b h]; omega)
    omega
  · obtain ⟨c1, c2⟩ := c h
    exact ⟨hwx 1000000000 c1, c2⟩

/-- non-vacuity, each branch: 2016-12-31T23:59:60.5 truncated to 300 ms stays inside the leap second
at the multiple; rounded up to one second it leaves the leap second by exactly its remaining half
second and lands on 00:00:00 — `m − 10⁹`; viewed at +05:30 the same on the wall clock; the leap second
1677-09-21T00:11:59(+1.5 s) UTC viewed at +00:00:43, whose wall-clock stamp −9223372036500000000 is just
inside the window (refused before fix 32de816), is truncated to the second -/
example : NDTInv ⟨dateOfYo 2016 366, ⟨86399, 1500000000⟩⟩ ∧ TStrict (⟨86399, 1500000000⟩ : Time) ∧
    ¬ NonLeap ⟨dateOfYo 2016 366, ⟨86399, 1500000000⟩⟩ ∧
    naive_duration .trunc ⟨dateOfYo 2016 366, ⟨86399, 1500000000⟩⟩ ⟨0, 300000000⟩ =
      .ok (.ok ⟨dateOfYo 2016 366, ⟨86399, 1300000000⟩⟩) ∧
    (300000000 : Int) ∣ instNs ⟨dateOfYo 2016 366, ⟨86399, 1300000000⟩⟩ ∧
    naive_duration .up ⟨dateOfYo 2016 366, ⟨86399, 1500000000⟩⟩ ⟨1, 0⟩ =
      .ok (.ok ⟨dateOfYo 2017 1, ⟨0, 0⟩⟩) ∧
    zoned_duration .up ⟨⟨dateOfYo 2016 366, ⟨86399, 1500000000⟩⟩, 19800⟩ ⟨1, 0⟩ =
      .ok (.ok ⟨⟨dateOfYo 2017 1, ⟨0, 0⟩⟩, 19800⟩) ∧
    ZInv ⟨⟨dateOfYo 1677 264, ⟨719, 1500000000⟩⟩, 43⟩ ∧
    wallNs ⟨⟨dateOfYo 1677 264, ⟨719, 1500000000⟩⟩, 43⟩ = -9223372036500000000 ∧
    zoned_duration .trunc ⟨⟨dateOfYo 1677 264, ⟨719, 1500000000⟩⟩, 43⟩ ⟨1, 0⟩ =
      .ok (.ok ⟨⟨dateOfYo 1677 264, ⟨719, 1000000000⟩⟩, 43⟩) := by decide +kernel

/-- **The corollaries for a `NaiveDateTime` inside a leap second** (audit 2, LOW-1).  Whenever the call
returns `Ok(v)`: span and stamp are in range; `v` is the input itself exactly when the input's line
position `w` is a multiple of the span (as outside a leap second); if the move does not pass the end of
the leap second, the timestamp of `v` is the specified multiple `m`, within one span of `w`, and the
SECOND call returns `v` again — unless `m` has left the 64-bit window (`TimestampExceedsLimit`); if the
move passes the end of the leap second, `v` is an ordinary value with timestamp `m − 10⁹` and the second
call returns `v` again exactly when the span divides one second (and `m − 10⁹` is in the window): for
any other span the operation is NOT idempotent there (finding F19 again: `m − 10⁹` is not a multiple). -/
theorem naive_result_leap_properties (op : Op) (dt v : NaiveDT) (dur : Delta) (hdt : NDTInv dt)
    (hl : ¬ NonLeap dt) (hd : DInv dur) (h : naive_duration op dt dur = .ok (.ok v)) :
    let w := instNs dt
    let m := specOf (kindOf op) w (ns dur)
    (0 < ns dur ∧ ns dur ≤ 9223372036854775807) ∧ InI64 w ∧
    (ns dur ∣ w ↔ v = dt) ∧
    (dt.time.frac + (m - w) < 2000000000 →
      instNs v = m ∧ ns dur ∣ instNs v ∧ -(ns dur) < instNs v - w ∧ instNs v - w < ns dur ∧
      naive_duration op v dur =
        if InI64 m then .ok (.ok v) else .ok (.err .TimestampExceedsLimit)) ∧
    (2000000000 ≤ dt.time.frac + (m - w) →
      instNs v = m - 1000000000 ∧ NonLeap v ∧
      (naive_duration op v dur = .ok (.ok v) ↔ (InI64 (m - 1000000000) ∧ ns dur ∣ 1000000000))) := by
  dsimp only
  obtain ⟨hg, hs, hm, hzero⟩ := naive_ok_inv op dt v dur hdt hd h
  obtain ⟨a, b, c, _, _⟩ := moved_leap dt v _ hl hm
  obtain ⟨c1, c2, c3, _, _, _, c7, c8⟩ := spec_corollaries op (instNs dt) (ns dur) hg.1
  refine ⟨hg, hs, ⟨fun hdv => hzero (c7.mp hdv), fun e => ?_⟩, fun hlt => ?_, fun hge => ?_⟩
  · subst e
    have := moved_leap_self v _ hl hm
    exact c7.mpr (by omega)
  · have hv : instNs v = specOf (kindOf op) (instNs dt) (ns dur) := by rw [b hlt]; omega
    refine ⟨hv, by rw [hv]; exact c1, by rw [hv]; exact c2, by rw [hv]; exact c3, ?_⟩
    obtain ⟨_, e2, e3⟩ := naive_eval op v dur a hd
    rw [← hv]
    by_cases hin : InI64 (instNs v)
    · rw [if_pos hin]
      obtain ⟨x, hx, _, hz'⟩ := e3 hg hin
      rw [hx, hz' (by rw [hv]; exact c8)]
    · rw [if_neg hin]; exact e2 hg hin
  · obtain ⟨hv, hnl⟩ := c hge
    have hv' : instNs v = specOf (kindOf op) (instNs dt) (ns dur) - 1000000000 := by rw [hv]; omega
    refine ⟨hv', hnl, ?_⟩
    rw [← hv']
    obtain ⟨_, e2, e3⟩ := naive_eval op v dur a hd
    have hfix := spec_fixed_iff (kindOf op) (instNs v) (ns dur) hg.1
    constructor
    · intro hcall
      obtain ⟨_, hs', hm', _⟩ := naive_ok_inv op v v dur a hd hcall
      obtain ⟨_, _, hst⟩ := moved_nonleap v v _ hnl hm'
      have hdv : ns dur ∣ instNs v := hfix.mpr (by omega)
      rw [hv'] at hdv
      exact ⟨hs', dvd_of_sub_const _ _ c1 hdv⟩
    · intro ⟨hin, hdv⟩
      obtain ⟨x, hx, _, hz'⟩ := e3 hg hin
      have : ns dur ∣ instNs v := by rw [hv']; exact dvd_sub_const _ _ c1 hdv
      rw [hx, hz' (hfix.mp this)]

/-- **… and for a `DateTime<FixedOffset>` whose UTC reading is inside a leap second**, on the wall clock -/
theorem zoned_result_leap_properties (op : Op) (z v : Zoned) (dur : Delta) (hz : ZInv z)
    (hl : ¬ NonLeap z.utc) (hd : DInv dur) (h : zoned_duration op z dur = .ok (.ok v)) :
    let w := wallNs z
    let m := specOf (kindOf op) w (ns dur)
    (0 < ns dur ∧ ns dur ≤ 9223372036854775807) ∧ InI64 w ∧ v.off = z.off ∧
    (ns dur ∣ w ↔ v = z) ∧
    (z.utc.time.frac + (m - w) < 2000000000 →
      wallNs v = m ∧ ns dur ∣ wallNs v ∧ -(ns dur) < wallNs v - w ∧ wallNs v - w < ns dur ∧
      zoned_duration op v dur =
        if InI64 m then .ok (.ok v) else .ok (.err .TimestampExceedsLimit)) ∧
    (2000000000 ≤ z.utc.time.frac + (m - w) →
      wallNs v = m - 1000000000 ∧ NonLeap v.utc ∧
      (zoned_duration op v dur = .ok (.ok v) ↔ (InI64 (m - 1000000000) ∧ ns dur ∣ 1000000000))) := by
  dsimp only
  obtain ⟨hg, hs, hoff, hm, hzero⟩ := zoned_ok_inv op z v dur hz hd h
  obtain ⟨a, b, c, _, _⟩ := moved_leap z.utc v.utc _ hl hm
  obtain ⟨c1, c2, c3, _, _, _, c7, c8⟩ := spec_corollaries op (wallNs z) (ns dur) hg.1
  have hzv : ZInv v := ⟨a, by rw [hoff]; exact hz.2⟩
  have hwv : wallNs v = instNs v.utc + z.off * 1000000000 := by unfold wallNs; rw [hoff]
  have hwz : wallNs z = instNs z.utc + z.off * 1000000000 := rfl
  refine ⟨hg, hs, hoff, ⟨fun hdv => hzero (c7.mp hdv), fun e => ?_⟩, fun hlt => ?_, fun hge => ?_⟩
  · subst e
    have := moved_leap_self v.utc _ hl hm
    exact c7.mpr (by omega)
  · have hv : wallNs v = specOf (kindOf op) (wallNs z) (ns dur) := by rw [hwv, b hlt]; omega
    refine ⟨hv, by rw [hv]; exact c1, by rw [hv]; exact c2, by rw [hv]; exact c3, ?_⟩
    obtain ⟨_, e2, e3⟩ := zoned_eval op v dur hzv hd
    rw [← hv]
    by_cases hin : InI64 (wallNs v)
    · rw [if_pos hin]
      obtain ⟨x, hx, _, hz'⟩ := e3 hg hin
      rw [hx, hz' (by rw [hv]; exact c8)]
    · rw [if_neg hin]; exact e2 hg hin
  · obtain ⟨hv, hnl⟩ := c hge
    have hv' : wallNs v = specOf (kindOf op) (wallNs z) (ns dur) - 1000000000 := by rw [hwv, hv]; omega
    refine ⟨hv', hnl, ?_⟩
    rw [← hv']
    obtain ⟨_, e2, e3⟩ := zoned_eval op v dur hzv hd
    have hfix := spec_fixed_iff (kindOf op) (wallNs v) (ns dur) hg.1
    constructor
    · intro hcall
      obtain ⟨_, hs', _, hm', _⟩ := zoned_ok_inv op v v dur hzv hd hcall
      obtain ⟨_, _, hst⟩ := moved_nonleap v.utc v.utc _ hnl hm'
      have hdv : ns dur ∣ wallNs v := hfix.mpr (by omega)
      rw [hv'] at hdv
      exact ⟨hs', dvd_of_sub_const _ _ c1 hdv⟩
    · intro ⟨hin, hdv⟩
      obtain ⟨x, hx, _, hz'⟩ := e3 hg hin
      have : ns dur ∣ wallNs v := by rw [hv']; exact dvd_sub_const _ _ c1 hdv
      rw [hx, hz' (hfix.mp this)]

/-- non-vacuity, each branch (kernel-checked on the model; the harness replays the calls on the crate):
2016-12-31T23:59:60.5 truncated to 300 ms stays in the leap second and is a fixed point; rounded up to one
second it passes the end and lands on 00:00:00 — one second divides one second: a fixed point; rounded up to
one minute it lands on 00:00:59, and the second call moves it on to 00:01:00: not idempotent -/
example : naive_duration .trunc ⟨dateOfYo 2016 366, ⟨86399, 1300000000⟩⟩ ⟨0, 300000000⟩ =
      .ok (.ok ⟨dateOfYo 2016 366, ⟨86399, 1300000000⟩⟩) ∧
    naive_duration .up ⟨dateOfYo 2017 1, ⟨0, 0⟩⟩ ⟨1, 0⟩ = .ok (.ok ⟨dateOfYo 2017 1, ⟨0, 0⟩⟩) ∧
    naive_duration .up ⟨dateOfYo 2016 366, ⟨86399, 1500000000⟩⟩ ⟨60, 0⟩ =
      .ok (.ok ⟨dateOfYo 2017 1, ⟨59, 0⟩⟩) ∧
    naive_duration .up ⟨dateOfYo 2017 1, ⟨59, 0⟩⟩ ⟨60, 0⟩ = .ok (.ok ⟨dateOfYo 2017 1, ⟨60, 0⟩⟩) ∧
    ¬ ((60000000000 : Int) ∣ 1000000000) := by decide +kernel

/-- COUNTEREXAMPLE to "the result is the least multiple not before the input" (finding F19), on the
value-level model and checked by the kernel: 2016-12-31T23:59:60.5 `.duration_round_up(1 min)` returns
2017-01-01T00:00:59, whose timestamp is one second short of the specified multiple (and not a multiple
of one minute at all).  The harness replays it on the crate. -/
theorem leap_round_up_is_not_the_multiple :
    NDTInv ⟨dateOfYo 2016 366, ⟨86399, 1500000000⟩⟩ ∧ TStrict (⟨86399, 1500000000⟩ : Time) ∧
    naive_duration .up ⟨dateOfYo 2016 366, ⟨86399, 1500000000⟩⟩ ⟨60, 0⟩ =
      .ok (.ok ⟨dateOfYo 2017 1, ⟨59, 0⟩⟩) ∧
    instNs ⟨dateOfYo 2017 1, ⟨59, 0⟩⟩ = 1483228859000000000 ∧
    specOf .up (instNs ⟨dateOfYo 2016 366, ⟨86399, 1500000000⟩⟩) (ns ⟨60, 0⟩) = 1483228860000000000 ∧
    ¬ ((60000000000 : Int) ∣ 1483228859000000000) := by decide +kernel

/-- `span_for_digits` (table re-extracted from the source on every run) is 10^(9 − min 9 digits)
for every digit count -/
theorem span_for_digits_spec (digits : Nat) :
    span_for_digits digits = (10 : Int) ^ (9 - min 9 digits) :=
  span_for_digits_eq digits

/-- Sub-second truncation and rounding, for every nanosecond field (`< 2·10⁹`: leap seconds
included) and every digit count (all of `u16` and beyond): the model returns the specified
(field, carried seconds) pair; no step panics. -/
theorem subsec_spec (frac : Int) (digits : Nat) (h0 : 0 ≤ frac) (h1 : frac < 2000000000) :
    trunc_subsecs frac digits = .ok (truncSubsecSpec frac digits) ∧
    round_subsecs frac digits = .ok (roundSubsecSpec frac digits) := by
  have hlit := digitSpan_cases digits
  exact ⟨trunc_subsecs_lit frac _ digits (span_for_digits_eq digits) rfl h0 h1 hlit,
    round_subsecs_lit frac _ digits (span_for_digits_eq digits) rfl h0 h1 hlit⟩

/-- What the sub-second specification says: truncation stays in the second (a leap-second fraction
stays ≥ 10⁹) at the greatest multiple of 10^(9−digits) not after the field, less than one span below
it; rounding gives the nearer multiple (ties up) inside the second, or — when that multiple is the
end of the second — field 0 with one second carried; nine or more digits change nothing. -/
theorem subsec_meaning (frac : Int) (digits : Nat) (h0 : 0 ≤ frac) (h1 : frac < 2000000000) :
    let base := leapBase frac
    let t := truncSubsecSpec frac digits
    let r := roundSubsecSpec frac digits
    (t.2 = 0 ∧ t.1 = truncSpec frac (digitSpan digits) ∧ base ≤ t.1 ∧ t.1 ≤ frac ∧
      frac - t.1 < digitSpan digits) ∧
    ((r.2 = 0 ∧ r.1 = roundSpec frac (digitSpan digits) ∧ base ≤ r.1 ∧ r.1 < base + 1000000000) ∨
     (r.2 = 1 ∧ r.1 = 0 ∧ roundSpec frac (digitSpan digits) = base + 1000000000)) ∧
    (9 ≤ digits → t = (frac, 0) ∧ r = (frac, 0)) :=
  subsec_meaning' frac digits h0 h1

example : round_subsecs 154000000 2 = .ok (150000000, 0) ∧ round_subsecs 154000000 1 = .ok (200000000, 0) ∧
    round_subsecs 999999999 3 = .ok (0, 1) ∧ trunc_subsecs 1999999999 0 = .ok (1000000000, 0) ∧
    round_subsecs 1500000000 0 = .ok (0, 1) ∧ round_subsecs 1499999999 0 = .ok (1000000000, 0) ∧
    round_subsecs 123456789 65535 = .ok (123456789, 0) := by decide

/-! ### Sub-second rounding: the returned value

`subsec_spec` above is about the nanosecond field and uses `apply_within` for "adding less than a
second, seen on the field".  Here that step is tied to C07's addition (`addLeap`, which
`Time.overflowing_add_signed` equals by C07 `add_spec`), and the three `SubsecRound` impls are stated
on the values: `time_subsecs` (NaiveTime), `naive_subsecs` (NaiveDateTime), `zoned_subsecs`
(DateTime<FixedOffset>) of Model/RoundDT.lean, driver ops `rd.t.*`, `rd.n.rsub/tsub`, `rd.z.rsub/tsub`.
`subsecSpec round frac digits` is the specified (field, carried seconds) pair of `subsec_meaning`. -/

/-- `apply_within` is C07's extended-line addition: when the move `d` lands inside the current second
(`c = 0`, field `f = frac + d`, leap fraction kept) or exactly on its end (`c = 1`, field 0), the sum
`t + d` of C07 has field `f`, second count `t.secs + c` modulo a day, carries the whole day when that
passes midnight — and `apply_within` returns exactly `(f, c)` -/
theorem apply_within_is_add (t : Time) (d f c : Int) (ht : TValid t)
    (h : (c = 0 ∧ f = t.frac + d ∧ leapBase t.frac ≤ f ∧ f < leapBase t.frac + 1000000000) ∨
      (c = 1 ∧ f = 0 ∧ t.frac + d = leapBase t.frac + 1000000000)) :
    addLeap t d = (⟨(t.secs + c) % 86400, f⟩, (t.secs + c) / 86400 * 86400) ∧
    apply_within t.frac d = (f, c) :=
  addLeap_within t d f c ht h

/-- the integer-level functions are the decision (`subsecMove`, equal to the specified move)
followed by `apply_within`, and the move always lands as `apply_within_is_add` requires -/
theorem subsecs_decompose (frac : Int) (digits : Nat) (h0 : 0 ≤ frac) (h1 : frac < 2000000000) :
    round_subsecs frac digits = .ok (apply_within frac (subsecMove true frac digits)) ∧
    trunc_subsecs frac digits = .ok (apply_within frac (subsecMove false frac digits)) ∧
    ∀ round, subsec_move round frac digits = .ok (subsecMove round frac digits) ∧
      -1000000000 < subsecMove round frac digits ∧ subsecMove round frac digits < 1000000000 ∧
      (((subsecSpec round frac digits).2 = 0 ∧
          (subsecSpec round frac digits).1 = frac + subsecMove round frac digits ∧
          leapBase frac ≤ (subsecSpec round frac digits).1 ∧
          (subsecSpec round frac digits).1 < leapBase frac + 1000000000) ∨
        ((subsecSpec round frac digits).2 = 1 ∧ (subsecSpec round frac digits).1 = 0 ∧
          frac + subsecMove round frac digits = leapBase frac + 1000000000)) :=
  ⟨(subsecs_are_move_within frac digits h0 h1).1, (subsecs_are_move_within frac digits h0 h1).2,
    fun round => ⟨subsec_move_eq round frac digits h0 h1, (subsecMove_bounds round frac digits h0 h1).1,
      (subsecMove_bounds round frac digits h0 h1).2, subsec_move_lands round frac digits h0 h1⟩⟩

/-- **`NaiveTime`**, every valid time (leap-second fields included), every digit count: the call
returns the time with the specified field and the second count moved by the specified carry, wrapping
at midnight (23:59:59.9 rounds to 00:00:00); never a panic -/
theorem time_subsecs_spec (round : Bool) (t : Time) (digits : Nat) (ht : TValid t) :
    time_subsecs round t digits =
      .ok ⟨(t.secs + (subsecSpec round t.frac digits).2) % 86400, (subsecSpec round t.frac digits).1⟩ :=
  time_subsecs_eval round t digits ht

/-- **`NaiveDateTime`**, every valid value: the returned value is valid, has the specified field, and
is the specified carry (0 or 1 s) later on the timestamp line — date carry included.  The exact
exception: when that carried second lies after `NaiveDateTime::MAX` (only for a value in the last
second of the range whose field rounds up to the next second) the `+` operator panics. -/
theorem naive_subsecs_spec (round : Bool) (dt : NaiveDT) (digits : Nat) (hdt : NDTInv dt) :
    (instSecs dt + (subsecSpec round dt.time.frac digits).2 ≤ instSecs NaiveDT.MAX →
      ∃ v, naive_subsecs round dt digits = .ok v ∧ NDTInv v ∧
        v.time.frac = (subsecSpec round dt.time.frac digits).1 ∧
        instSecs v = instSecs dt + (subsecSpec round dt.time.frac digits).2) ∧
    (instSecs NaiveDT.MAX < instSecs dt + (subsecSpec round dt.time.frac digits).2 →
      naive_subsecs round dt digits = .panic) :=
  naive_subsecs_eval round dt digits hdt

/-- **`DateTime<FixedOffset>`**: the same on the UTC reading; the offset is kept (the nanosecond field
of the wall clock is that of the UTC reading) -/
theorem zoned_subsecs_spec (round : Bool) (z : Zoned) (digits : Nat) (hz : ZInv z) :
    (instSecs z.utc + (subsecSpec round z.utc.time.frac digits).2 ≤ instSecs NaiveDT.MAX →
      ∃ v, zoned_subsecs round z digits = .ok ⟨v, z.off⟩ ∧ NDTInv v ∧
        v.time.frac = (subsecSpec round z.utc.time.frac digits).1 ∧
        instSecs v = instSecs z.utc + (subsecSpec round z.utc.time.frac digits).2) ∧
    (instSecs NaiveDT.MAX < instSecs z.utc + (subsecSpec round z.utc.time.frac digits).2 →
      zoned_subsecs round z digits = .panic) :=
  zoned_subsecs_eval round z digits hz

/-- non-vacuity: midnight wrap of a `NaiveTime`; date carry of a `NaiveDateTime` on New Year's Eve,
out of a leap second; the documented panic at the very end of the range, and its neighbour that does
not round up; a zone-aware value -/
example : time_subsecs true ⟨86399, 950000000⟩ 1 = .ok ⟨0, 0⟩ ∧
    time_subsecs false ⟨86399, 950000000⟩ 1 = .ok ⟨86399, 900000000⟩ ∧
    naive_subsecs true ⟨dateOfYo 2016 366, ⟨86399, 1999999999⟩⟩ 3 = .ok ⟨dateOfYo 2017 1, ⟨0, 0⟩⟩ ∧
    naive_subsecs false ⟨dateOfYo 2016 366, ⟨86399, 1999999999⟩⟩ 3 =
      .ok ⟨dateOfYo 2016 366, ⟨86399, 1999000000⟩⟩ ∧
    naive_subsecs true NaiveDT.MAX 0 = .panic ∧
    naive_subsecs true ⟨Date.MAX, ⟨86399, 499999999⟩⟩ 0 = .ok ⟨Date.MAX, ⟨86399, 0⟩⟩ ∧
    zoned_subsecs true ⟨⟨dateOfYo 2018 11, ⟨43200, 154000000⟩⟩, 3600⟩ 2 =
      .ok ⟨⟨dateOfYo 2018 11, ⟨43200, 150000000⟩⟩, 3600⟩ := by decide +kernel

/-- **Sub-second, `NaiveTime`: multiples unchanged, idempotent** (audit 2, LOW-2).  For every valid
time and digit count the call returns a valid time whose field is a multiple of `10^(9−digits)`; the
second call returns it again; and the value is returned unchanged exactly when its field is a multiple -/
theorem time_subsecs_idem (round : Bool) (t : Time) (digits : Nat) (ht : TValid t) :
    ∃ v, time_subsecs round t digits = .ok v ∧ TValid v ∧ digitSpan digits ∣ v.frac ∧
      time_subsecs round v digits = .ok v ∧ (digitSpan digits ∣ t.frac ↔ v = t) := by
  obtain ⟨t0, t1, t2, t3⟩ := ht
  obtain ⟨f1, f2, f3, f4, _⟩ := subsecSpec_field round t.frac digits t2 t3
  have hv : TValid (⟨(t.secs + (subsecSpec round t.frac digits).2) % 86400,
      (subsecSpec round t.frac digits).1⟩ : Time) := ⟨by dsimp only; omega, by dsimp only; omega, f2, f3⟩
  refine ⟨_, time_subsecs_eval round t digits ⟨t0, t1, t2, t3⟩, hv, f1, ?_, ?_, ?_⟩
  · rw [time_subsecs_eval round _ digits hv]
    dsimp only
    rw [(subsecSpec_of_dvd round _ digits f2 f3 f1).1]
    dsimp only
    have e : ((t.secs + (subsecSpec round t.frac digits).2) % 86400 + 0) % 86400 =
        (t.secs + (subsecSpec round t.frac digits).2) % 86400 := by omega
    rw [e]
  · intro hdv
    rw [(subsecSpec_of_dvd round t.frac digits t2 t3 hdv).1]
    dsimp only
    have e : (t.secs + 0) % 86400 = t.secs := by omega
    rw [e]
  · intro e
    have : (subsecSpec round t.frac digits).1 = t.frac := congrArg Time.frac e
    rw [← this]; exact f1

/-- **… `NaiveDateTime`**, under the no-panic condition of `naive_subsecs_spec` -/
theorem naive_subsecs_idem (round : Bool) (dt : NaiveDT) (digits : Nat) (hdt : NDTInv dt)
    (hno : instSecs dt + (subsecSpec round dt.time.frac digits).2 ≤ instSecs NaiveDT.MAX) :
    ∃ v, naive_subsecs round dt digits = .ok v ∧ NDTInv v ∧ digitSpan digits ∣ v.time.frac ∧
      naive_subsecs round v digits = .ok v ∧ (digitSpan digits ∣ dt.time.frac ↔ v = dt) := by
  have hf := hdt.2.2.2
  obtain ⟨f1, f2, f3, _, _⟩ := subsecSpec_field round dt.time.frac digits hf.1 hf.2
  obtain ⟨v, hv, hinv, hfr, _⟩ := (naive_subsecs_eval round dt digits hdt).1 hno
  have hfix : ∀ x : NaiveDT, 0 ≤ x.time.frac → x.time.frac < 2000000000 →
      digitSpan digits ∣ x.time.frac → naive_subsecs round x digits = .ok x := fun x a b c =>
    subsec_generic_fixed round x.time.frac x NaiveDT.add NaiveDT.sub digits a b c
  refine ⟨v, hv, hinv, by rw [hfr]; exact f1, hfix v (by rw [hfr]; exact f2) (by rw [hfr]; exact f3)
    (by rw [hfr]; exact f1), fun hdv => ?_, fun e => ?_⟩
  · rw [hfix dt hf.1 hf.2 hdv] at hv
    exact (Res.ok.inj hv).symm
  · rw [← e, hfr]; exact f1

/-- **… `DateTime<FixedOffset>`** (the nanosecond field is that of the UTC reading) -/
theorem zoned_subsecs_idem (round : Bool) (z : Zoned) (digits : Nat) (hz : ZInv z)
    (hno : instSecs z.utc + (subsecSpec round z.utc.time.frac digits).2 ≤ instSecs NaiveDT.MAX) :
    ∃ v, zoned_subsecs round z digits = .ok v ∧ ZInv v ∧ v.off = z.off ∧
      digitSpan digits ∣ v.utc.time.frac ∧
      zoned_subsecs round v digits = .ok v ∧ (digitSpan digits ∣ z.utc.time.frac ↔ v = z) := by
  have hf := hz.1.2.2.2
  obtain ⟨f1, f2, f3, _, _⟩ := subsecSpec_field round z.utc.time.frac digits hf.1 hf.2
  obtain ⟨u, hv, hinv, hfr, _⟩ := (zoned_subsecs_eval round z digits hz).1 hno
  have hfix : ∀ x : Zoned, ZInv x → digitSpan digits ∣ x.utc.time.frac →
      zoned_subsecs round x digits = .ok x := fun x hx c => by
    unfold zoned_subsecs
    rw [zoned_nanosecond_eq x hx]
    exact subsec_generic_fixed round x.utc.time.frac x Zoned.add Zoned.sub digits hx.1.2.2.2.1
      hx.1.2.2.2.2 c
  have hzv : ZInv (⟨u, z.off⟩ : Zoned) := ⟨hinv, hz.2⟩
  refine ⟨⟨u, z.off⟩, hv, hzv, rfl, by dsimp only; rw [hfr]; exact f1,
    hfix _ hzv (by dsimp only; rw [hfr]; exact f1), fun hdv => ?_, fun e => ?_⟩
  · rw [hfix z hz hdv] at hv
    exact (Res.ok.inj hv).symm
  · have : u = z.utc := congrArg Zoned.utc e
    rw [← this, hfr]; exact f1

/-- non-vacuity: 12:00:00.154 to 2 digits, then again; a multiple stays; the second call after a carry -/
example : time_subsecs true ⟨43200, 154000000⟩ 2 = .ok ⟨43200, 150000000⟩ ∧
    time_subsecs true ⟨43200, 150000000⟩ 2 = .ok ⟨43200, 150000000⟩ ∧
    digitSpan 2 = 10000000 ∧
    naive_subsecs true ⟨dateOfYo 2016 366, ⟨86399, 1999999999⟩⟩ 3 = .ok ⟨dateOfYo 2017 1, ⟨0, 0⟩⟩ ∧
    naive_subsecs true ⟨dateOfYo 2017 1, ⟨0, 0⟩⟩ 3 = .ok ⟨dateOfYo 2017 1, ⟨0, 0⟩⟩ ∧
    zoned_subsecs false ⟨⟨dateOfYo 2016 366, ⟨86399, 1999000000⟩⟩, 43⟩ 3 =
      .ok ⟨⟨dateOfYo 2016 366, ⟨86399, 1999000000⟩⟩, 43⟩ := by decide +kernel

/-! ### OBSERVATION, outside the quantifier: a `DateTime<Tz>` whose zone changes its offset

C17 quantifies over "date-times × spans × offsets": fixed offsets, the theorems above.  `impl<Tz: TimeZone>
DurationRound for DateTime<Tz>` also accepts a zone with daylight-saving rules (`Local`, a tz database
zone).  There the span is found on the wall clock AT THE OFFSET THE VALUE CARRIES, and the move is applied
to the UTC instant, after which the zone is asked for its offset again (`tz.from_utc_datetime`).
`tz_duration offAt` (Model/RoundTz.lean) is that call with the zone's answer `offAt` left free.  What
holds for every zone is an INSTANT-level statement; the wall-clock clause of the property holds exactly
when the zone's offset at the result equals the offset of the input. -/

/-- **Any zone, exactly.**  The call in a zone is the call at the fixed offset `z.off` (every theorem
above), followed by re-reading the offset when the value was moved: the same errors, never a panic, the
same UTC reading of the result. -/
theorem tz_vs_fixed (offAt : NaiveDT → Int) (op : Op) (z : Zoned) (dur : Delta) (hz : ZInv z)
    (hd : DInv dur) :
    tz_duration offAt op z dur =
      match zoned_duration op z dur with
      | .panic => .panic
      | .ok (.err e) => .ok (.err e)
      | .ok (.ok v) =>
        .ok (.ok (retag offAt z (specOf (kindOf op) (wallNs z) (ns dur) - wallNs z) v)) :=
  tz_vs_fixed' offAt op z dur hz hd

/-- **Any zone, UTC reading outside a leap second: what the result is.**  Errors exactly as for a fixed
offset (on the wall clock at the input's offset); otherwise `Ok(v)`: the INSTANT of `v` is the input's
instant moved by the distance from the input's wall-clock stamp `w` to the specified multiple `m`; an
input that is a multiple is returned as it is; a moved value carries the zone's offset at the new
instant; hence the wall-clock stamp of `v` is `m + (v.off − z.off)·10⁹` — the specified multiple exactly
when the zone has the same offset at the result as at the input (always, for a fixed offset). -/
theorem tz_result (offAt : NaiveDT → Int) (op : Op) (z : Zoned) (dur : Delta) (hz : ZInv z)
    (hnl : NonLeap z.utc) (hd : DInv dur) :
    let w := wallNs z
    let m := specOf (kindOf op) w (ns dur)
    (ns dur ≤ 0 ∨ 9223372036854775807 < ns dur →
      tz_duration offAt op z dur = .ok (.err .DurationExceedsLimit)) ∧
    (0 < ns dur ∧ ns dur ≤ 9223372036854775807 → ¬ InI64 w →
      tz_duration offAt op z dur = .ok (.err .TimestampExceedsLimit)) ∧
    (0 < ns dur ∧ ns dur ≤ 9223372036854775807 → InI64 w →
      ∃ v, tz_duration offAt op z dur = .ok (.ok v) ∧ NDTInv v.utc ∧ NonLeap v.utc ∧
        instNs v.utc = instNs z.utc + (m - w) ∧
        (m = w → v = z) ∧ (m ≠ w → v.off = offAt v.utc) ∧
        wallNs v = m + (v.off - z.off) * 1000000000 ∧
        (wallNs v = m ↔ v.off = z.off)) := by
  dsimp only
  have hrel := tz_vs_fixed' offAt op z dur hz hd
  obtain ⟨e1, e2, e3⟩ := zoned_eval op z dur hz hd
  refine ⟨fun hb => by rw [hrel, e1 hb], fun hg hw => by rw [hrel, e2 hg hw], fun hg hw => ?_⟩
  obtain ⟨x, hx, hm, hzero⟩ := e3 hg hw
  obtain ⟨a, b, c⟩ := moved_nonleap z.utc x _ hnl hm
  rw [hx] at hrel
  refine ⟨_, hrel, ?_⟩
  unfold retag
  by_cases h0 : specOf (kindOf op) (wallNs z) (ns dur) - wallNs z = 0
  · rw [if_pos h0]
    refine ⟨hz.1, hnl, by omega, fun _ => rfl, fun h => absurd h (by omega), by omega, by omega⟩
  · rw [if_neg h0]
    dsimp only
    refine ⟨a, b, c, fun h => absurd h (by omega), fun _ => rfl, ?_, ?_⟩
    · unfold wallNs at *; dsimp only; omega
    · unfold wallNs at *; dsimp only; omega

/-- a fixed offset is the zone that always answers with it: then `tz_duration` IS `zoned_duration` -/
theorem tz_fixed_is_zoned (op : Op) (z : Zoned) (dur : Delta) (hz : ZInv z) (hd : DInv dur) :
    tz_duration (fun _ => z.off) op z dur = zoned_duration op z dur := by
  rw [tz_vs_fixed' _ op z dur hz hd]
  cases h : zoned_duration op z dur with
  | panic => rfl
  | ok r =>
    cases r with
    | err e => rfl
    | ok v =>
      obtain ⟨_, _, hoff, _, hzero⟩ := zoned_ok_inv op z v dur hz hd h
      dsimp only
      unfold retag
      by_cases h0 : specOf (kindOf op) (wallNs z) (ns dur) - wallNs z = 0
      · rw [if_pos h0, hzero (by omega)]
      · rw [if_neg h0, ← hoff]

/-- **`SubsecRound` in any zone**: the call at the fixed offset, offset re-read when the value moved
(the nanosecond field of the wall clock is that of the UTC reading at every offset of whole seconds) -/
theorem tz_subsecs_vs_fixed (offAt : NaiveDT → Int) (round : Bool) (z : Zoned) (digits : Nat)
    (hz : ZInv z) :
    tz_subsecs offAt round z digits =
      match zoned_subsecs round z digits with
      | .panic => .panic
      | .ok v => .ok (retag offAt z (subsecMove round z.utc.time.frac digits) v) :=
  tz_subsecs_vs_fixed' offAt round z digits hz

/-- THE OBSERVATION, kernel-checked on the model and replayed on the crate by the harness
(`TZ=America/New_York`, counted under `observation:dst-zone`): a zone at −04:00 before
2024-11-03T06:00:00Z and at −05:00 from then on.  2024-11-03 12:00:00 −05:00 truncated to one day: the
span is found on the wall clock at −05:00 (midnight −05:00 = 05:00Z, twelve hours back), the instant is
moved by those twelve hours, and at 05:00Z the zone is still at −04:00: the result is 01:00:00 −04:00,
whose wall-clock stamp is one hour past the multiple.  At a fixed −05:00 the result is midnight. -/
theorem dst_zone_trunc_is_not_wall_clock_midnight :
    tz_duration (fun u => if instSecs u < 1730613600 then -14400 else -18000) .trunc
        ⟨⟨dateOfYo 2024 308, ⟨61200, 0⟩⟩, -18000⟩ ⟨86400, 0⟩ =
      .ok (.ok ⟨⟨dateOfYo 2024 308, ⟨18000, 0⟩⟩, -14400⟩) ∧
    wallNs ⟨⟨dateOfYo 2024 308, ⟨18000, 0⟩⟩, -14400⟩ =
      specOf .trunc (wallNs ⟨⟨dateOfYo 2024 308, ⟨61200, 0⟩⟩, -18000⟩) (ns ⟨86400, 0⟩) + 3600000000000 ∧
    zoned_duration .trunc ⟨⟨dateOfYo 2024 308, ⟨61200, 0⟩⟩, -18000⟩ ⟨86400, 0⟩ =
      .ok (.ok ⟨⟨dateOfYo 2024 308, ⟨18000, 0⟩⟩, -18000⟩) ∧
    instSecs ⟨dateOfYo 2024 308, ⟨18000, 0⟩⟩ = 1730610000 := by decide +kernel

/-! ### End to end for the translated callees (generated code = specification)

src/round.rs itself has no code translation yet (audit 2, MEDIUM-2: the translator's owner extends the
translated set); two callees on C17's path have one (Props/GenDelta.lean: generated code = model).
Composed here with the model = specification theorems used above. -/

/-- `duration.num_nanoseconds()` — the span every `duration_*` function starts from — as TRANSLATED from
src/time_delta.rs, for every valid `TimeDelta`: the exact nanosecond count when it is an `i64`, else
`None` (which the guard turns into `DurationExceedsLimit`); no panic -/
theorem gen_span_is_spec (dur : Delta) (hd : DInv dur) :
    Gen.time_delta.TimeDelta.num_nanoseconds (Chrono.Proofs.GenL.dG dur) =
      .ok (if InI64 (ns dur) then some (ns dur) else none) := by
  obtain ⟨h0, h1, h2⟩ := hd
  have hN : NS_MAX = 9223372036854775807 * 1000000 := rfl
  unfold nsInRange at h2
  have hns : ns dur = dur.secs * 1000000000 + dur.nanos := rfl
  rw [Chrono.Props.GenDelta.gen_num_nanoseconds_eq dur (by omega) (by omega),
    Chrono.Proofs.RoundL.num_nanoseconds_eq dur ⟨h0, h1, h2⟩]
  by_cases h : InI64 (ns dur)
  · rw [if_pos h, Chrono.Proofs.optI64_some h.1 h.2]
  · rw [if_neg h, Chrono.Proofs.optI64_none (by unfold InI64 at h; omega)]

/-- `TimeDelta::nanoseconds(d)` — the amount `original ± …` is moved by — as TRANSLATED from
src/time_delta.rs, for every move the integer part can produce (`|d| ≤ i64::MAX`): a valid `TimeDelta`
of exactly `d` nanoseconds -/
theorem gen_move_is_spec (d : Int) (h : -9223372036854775807 ≤ d ∧ d ≤ 9223372036854775807) :
    Gen.time_delta.TimeDelta.nanoseconds d = .ok (Chrono.Proofs.GenL.dG (Delta.nanoseconds d)) ∧
    DInv (Delta.nanoseconds d) ∧ ns (Delta.nanoseconds d) = d :=
  ⟨Chrono.Props.GenDelta.gen_nanoseconds_eq d ⟨by omega, h.2⟩, nanos_delta d h⟩

example : DInv ⟨86400, 0⟩ ∧ InI64 (ns ⟨86400, 0⟩) ∧ ¬ InI64 (ns ⟨9223372036, 854775808⟩) ∧
    DInv ⟨9223372036, 854775808⟩ := by decide

/-- FINDING (kept visible; replayed on the crate by the harness).  A date-time inside a leap second
(sub-second field ≥ 10⁹) has the stamp of the following second, but `original + delta` counts the
leap second as a real second.  2016-12-31T23:59:60.5 rounded up to one minute moves by 59.5 s and
lands on 2017-01-01T00:00:59, whose timestamp is not a multiple of one minute (1 s short). -/
theorem leap_second_round_up_reads_back_short :
    on_datetime .up 1483228799 1500000000 0 ⟨60, 0⟩ = .ok (.ok 59500000000) ∧
    stamp_after (1483228799 * 1000000000 + 1500000000) 1500000000 59500000000
      = 1483228859 * 1000000000 ∧
    ¬ ((60000000000 : Int) ∣ 1483228859 * 1000000000) ∧
    (60000000000 : Int) ∣ 1483228860 * 1000000000 := by decide

end Chrono.Props.C17
