/-
  C17 — Rounding and truncation land on the right multiple.  (stage 1 placeholder: sanity theorems;
  the full statements follow)
-/
import Chrono.Model.Round
import Chrono.Spec.RoundSpec

namespace Chrono.Props.C17
open Chrono Chrono.M Chrono.M.Round Chrono.Spec.Round

theorem samples_partial :
    duration_trunc (some (-7)) (some 4) = .ok (.ok (-1)) ∧
    duration_round_up (some (-7)) (some 4) = .ok (.ok 3) ∧
    duration_round (some (-6)) (some 4) = .ok (.ok 2) := by decide

end Chrono.Props.C17
