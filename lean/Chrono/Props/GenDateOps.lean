/-
  C03 / C08, code translation tie for the `NaiveDate` operations of src/naive/date/mod.rs that GenDate.lean does not
  cover (day and month stepping, `TimeDelta` arithmetic, differences) and for `NaiveWeek` (src/naive/mod.rs): the
  definitions that tools/extractors/rust2lean.py regenerates from the Rust source text on every run equal the
  hand-written models lean/Chrono/Model/DateArith.lean and DateOps.lean for all arguments of the machine types.
  A `NaiveDate` is its packed word (`Date.yof`, an `i32`: hypothesis `hd`); `ho` is the part of the type invariant
  (ordinal ≥ 1) that `add_days` relies on; `Days(u64)` and `Months(u32)` are their field; `dG` maps a `Delta`.
-/
import Chrono.Proofs.GenDateL
import Chrono.Props.GenDate
import Chrono.Props.GenDelta
import Chrono.Props.GenWeekday
import Chrono.Proofs.GenTimeL
import Chrono.Model.DateArith
import Chrono.Model.DateOps

namespace Chrono.Props.GenDateOps
open Chrono Chrono.M Chrono.Extracted Chrono.Extracted.DateOps Chrono.Proofs.GenL Chrono.Proofs.GenDateL
open Chrono.Proofs.GenTimeL

/-! ### day stepping -/

theorem gen_checked_add_days_eq (d : Date) (days : Int) (hd : -2147483648 ≤ d.yof ∧ d.yof ≤ 2147483647)
    (ho : 1 ≤ d.ordinal) :
    Gen.naive_date.NaiveDate.checked_add_days d.yof days
      = rmap (Option.map Date.yof) (d.checked_add_days days) := by
  unfold Gen.naive_date.NaiveDate.checked_add_days Date.checked_add_days
  have hI : I32_MAX = 2147483647 := rfl
  by_cases h : days ≤ 2147483647
  · rw [if_pos h, if_pos (by omega)]
    exact GenDate.gen_add_days_eq d _ hd (asI32_range _) ho
  · rw [if_neg h, if_neg (by omega)]; rfl

theorem gen_checked_sub_days_eq (d : Date) (days : Int) (hd : -2147483648 ≤ d.yof ∧ d.yof ≤ 2147483647)
    (ho : 1 ≤ d.ordinal) :
    Gen.naive_date.NaiveDate.checked_sub_days d.yof days
      = rmap (Option.map Date.yof) (d.checked_sub_days days) := by
  unfold Gen.naive_date.NaiveDate.checked_sub_days Date.checked_sub_days
  have hI : I32_MAX = 2147483647 := rfl
  by_cases h : days ≤ 2147483647
  · rw [if_pos h, if_pos (by omega)]
    have hr := asI32_range days
    by_cases h2 : -2147483648 ≤ -(asI32 days) ∧ -(asI32 days) ≤ 2147483647
    · rw [ckI32_ok h2, bind_ok]
      exact GenDate.gen_add_days_eq d _ hd h2 ho
    · have e : ckI32 (-(asI32 days)) = .panic := by rw [ckI32_def, if_neg h2]
      rw [e]; rfl
  · rw [if_neg h, if_neg (by omega)]; rfl

theorem gen_checked_add_signed_eq (d : Date) (rhs : Delta) (hd : -2147483648 ≤ d.yof ∧ d.yof ≤ 2147483647)
    (ho : 1 ≤ d.ordinal) (hr : DFields rhs) :
    Gen.naive_date.NaiveDate.checked_add_signed d.yof (dG rhs)
      = rmap (Option.map Date.yof) (d.checked_add_signed rhs) := by
  unfold Gen.naive_date.NaiveDate.checked_add_signed Date.checked_add_signed
  rw [GenDelta.gen_num_days_eq rhs hr.1, bind_ok]
  have hI : I32_MAX = 2147483647 := rfl
  have hJ : I32_MIN = -2147483648 := rfl
  dsimp only
  by_cases h : rhs.num_days < -2147483648 ∨ rhs.num_days > 2147483647
  · rw [if_pos h, if_pos (by omega)]; rfl
  · rw [if_neg h, if_neg (by omega)]
    exact GenDate.gen_add_days_eq d _ hd (asI32_range _) ho

theorem gen_checked_sub_signed_eq (d : Date) (rhs : Delta) (hd : -2147483648 ≤ d.yof ∧ d.yof ≤ 2147483647)
    (ho : 1 ≤ d.ordinal) (hr : DFields rhs) :
    Gen.naive_date.NaiveDate.checked_sub_signed d.yof (dG rhs)
      = rmap (Option.map Date.yof) (d.checked_sub_signed rhs) := by
  unfold Gen.naive_date.NaiveDate.checked_sub_signed Date.checked_sub_signed
  rw [GenDelta.gen_num_days_eq rhs hr.1, bind_ok]
  have hI : I32_MAX = 2147483647 := rfl
  have hJ : I32_MIN = -2147483648 := rfl
  cases ckI64 (-rhs.num_days) with
  | panic => rfl
  | ok days =>
    simp only [bind_ok]
    by_cases h : days < -2147483648 ∨ days > 2147483647
    · rw [if_pos h, if_pos (by omega)]; rfl
    · rw [if_neg h, if_neg (by omega)]
      exact GenDate.gen_add_days_eq d _ hd (asI32_range _) ho

/-! ### month stepping (`Months(u32)`) -/

theorem gen_checked_add_months_eq (d : Date) (n : Nat) (hd : -2147483648 ≤ d.yof ∧ d.yof ≤ 2147483647) :
    Gen.naive_date.NaiveDate.checked_add_months d.yof n
      = rmap (Option.map Date.yof) (d.checked_add_months n) := by
  unfold Gen.naive_date.NaiveDate.checked_add_months Date.checked_add_months
  have hI : I32_MAX = 2147483647 := rfl
  by_cases h0 : n = 0
  · rw [if_pos (by omega), if_pos h0]; rfl
  · rw [if_neg (by omega), if_neg h0]
    by_cases h : (n : Int) ≤ 2147483647
    · rw [if_pos h, if_pos (by omega), Proofs.asI32_id (by omega) (by omega)]
      exact GenDate.gen_diff_months_eq d _ hd
    · rw [if_neg h, if_neg (by omega)]; rfl

theorem gen_checked_sub_months_eq (d : Date) (n : Nat) (hd : -2147483648 ≤ d.yof ∧ d.yof ≤ 2147483647) :
    Gen.naive_date.NaiveDate.checked_sub_months d.yof n
      = rmap (Option.map Date.yof) (d.checked_sub_months n) := by
  unfold Gen.naive_date.NaiveDate.checked_sub_months Date.checked_sub_months
  have hI : I32_MAX = 2147483647 := rfl
  by_cases h0 : n = 0
  · rw [if_pos (by omega), if_pos h0]; rfl
  · rw [if_neg (by omega), if_neg h0]
    by_cases h : (n : Int) ≤ 2147483647
    · rw [if_pos h, if_pos (by omega), Proofs.asI32_id (by omega) (by omega), ckI32_ok (by omega), bind_ok]
      exact GenDate.gen_diff_months_eq d _ hd
    · rw [if_neg h, if_neg (by omega)]; rfl

/-! ### differences -/

theorem yo_to_cycle_le (ym o : Nat) (h1 : ym ≤ 400) : Date.yo_to_cycle ym o ≤ ym * 365 + 97 + o := by
  unfold Date.yo_to_cycle
  have := tbl_yd.2.2 ym (by omega)
  omega

theorem gen_date_signed_duration_since_eq (a b : Date)
    (ha : -2147483648 ≤ a.yof ∧ a.yof ≤ 2147483647) (hb : -2147483648 ≤ b.yof ∧ b.yof ≤ 2147483647)
    (hoa : 1 ≤ a.ordinal) (hob : 1 ≤ b.ordinal) :
    Gen.naive_date.NaiveDate.signed_duration_since a.yof b.yof
      = rmap dG (a.signed_duration_since b) := by
  unfold Gen.naive_date.NaiveDate.signed_duration_since Date.signed_duration_since
  simp only [GenDate.gen_year_eq, GenDate.gen_ordinal_eq]
  have hya : -262144 ≤ a.year ∧ a.year ≤ 262143 := by unfold Date.year; omega
  have hyb : -262144 ≤ b.year ∧ b.year ≤ 262143 := by unfold Date.year; omega
  have hoa2 : a.ordinal ≤ 511 := by unfold Date.ordinal; omega
  have hob2 : b.ordinal ≤ 511 := by unfold Date.ordinal; omega
  rw [GenDate.gen_div_mod_floor_eq _ 400 (by omega) (by omega), bind_ok,
    GenDate.gen_div_mod_floor_eq _ 400 (by omega) (by omega), bind_ok]
  dsimp only
  have e1 : asU32 (a.year % 400) = ((a.year % 400).toNat : Int) := by unfold asU32; omega
  have e2 : asU32 (b.year % 400) = ((b.year % 400).toNat : Int) := by unfold asU32; omega
  have e3 : a.ordinal = (a.ordinal.toNat : Int) := by omega
  have e4 : b.ordinal = (b.ordinal.toNat : Int) := by omega
  rw [e1, e2]
  have g1 := GenDate.gen_yo_to_cycle_eq (a.year % 400).toNat a.ordinal.toNat (by omega) (by omega) (by omega)
  have g2 := GenDate.gen_yo_to_cycle_eq (b.year % 400).toNat b.ordinal.toNat (by omega) (by omega) (by omega)
  rw [← e3] at g1
  rw [← e4] at g2
  rw [g1, bind_ok, g2, bind_ok]
  have b1 := yo_to_cycle_le (a.year % 400).toNat a.ordinal.toNat (by omega)
  have b2 := yo_to_cycle_le (b.year % 400).toNat b.ordinal.toNat (by omega)
  generalize Date.yo_to_cycle (a.year % 400).toNat a.ordinal.toNat = c1 at *
  generalize Date.yo_to_cycle (b.year % 400).toNat b.ordinal.toNat = c2 at *
  rw [ckI64_ok (by omega), bind_ok, ckI64_ok (by omega), bind_ok, ckI64_ok (by omega), bind_ok,
    ckI64_ok (by omega), bind_ok, GenDelta.gen_try_days_eq]
  dsimp only
  cases Delta.try_days ((a.year / 400 - b.year / 400) * 146097 + ((c1 : Int) - (c2 : Int))) <;> rfl

/-! ### field replacement (`impl Datelike for NaiveDate`; `u32` arguments are `Nat`s of the `u32` range) -/

theorem mdf_lt (d : Date) (m : Nat) (h : d.mdf = .ok m) : m < 8192 := by
  unfold Date.mdf Mdf.from_ol at h
  have hM : MAX_OL = 732 := rfl
  have hv := tbl_ol.2
  by_cases hc : 1 < d.ol ∧ (d.ol : Int) ≤ MAX_OL
  · rw [if_pos hc] at h
    have := hv d.ol (by omega)
    have hf : d.flags < 16 := by unfold Date.flags; omega
    generalize OL_TO_MDL.getD d.ol 0 = v at h this
    simp only [] at h
    injection h with h
    have hmx : max ((d.ol + v) % 2) (d.flags / 8 % 2) ≤ 1 := by
      rw [Nat.max_def]; split <;> omega
    omega
  · rw [if_neg hc] at h; cases h

theorem gen_with_year_eq (d : Date) (year : Int) :
    Gen.naive_date.NaiveDate.Datelike.with_year d.yof year
      = rmap (Option.map Date.yof) (d.with_year year) := by
  unfold Gen.naive_date.NaiveDate.Datelike.with_year Date.with_year
  rw [GenDate.gen_mdf_eq]
  cases hm : d.mdf with
  | panic => rfl
  | ok m =>
    have hlt := mdf_lt d m hm
    simp only [rmap, bind_ok]
    rw [GenDate.gen_from_year_eq, bind_ok]
    have hF := from_year_lt year
    show Gen.naive_date.NaiveDate.from_mdf year (Gen.naive_internals.Mdf.with_flags (m : Nat) (YearFlags.from_year year : Nat)) = _
    rw [GenDate.gen_mdf_with_flags_eq m _ (by omega) hF]
    have hw : Mdf.with_flags m (YearFlags.from_year year) ≤ 4294967295 := by unfold Mdf.with_flags; omega
    exact GenDate.gen_from_mdf_eq year _ hw

theorem gen_with_month_eq (d : Date) (month : Nat) (hd : -2147483648 ≤ d.yof ∧ d.yof ≤ 2147483647)
    (hm : month ≤ 4294967295) :
    Gen.naive_date.NaiveDate.Datelike.with_month d.yof month
      = rmap (Option.map Date.yof) (d.with_month month) := by
  unfold Gen.naive_date.NaiveDate.Datelike.with_month Date.with_month
  rw [GenDate.gen_mdf_eq]
  cases hmdf : d.mdf with
  | panic => rfl
  | ok m =>
    have hlt := mdf_lt d m hmdf
    simp only [rmap, bind_ok]
    show (match Gen.naive_internals.Mdf.with_month (m : Nat) (month : Nat) with
      | some r2 => Gen.naive_date.NaiveDate.with_mdf d.yof r2 | none => Res.ok none) = _
    rw [GenDate.gen_mdf_with_month_eq m month hm]
    cases hw : Mdf.with_month m month with
    | none => rfl
    | some m2 =>
      have : m2 ≤ 4294967295 := by
        unfold Mdf.with_month at hw; split at hw
        · cases hw
        · injection hw with hw; omega
      exact GenDate.gen_with_mdf_eq d m2 hd this

theorem gen_with_day_eq (d : Date) (day : Nat) (hd : -2147483648 ≤ d.yof ∧ d.yof ≤ 2147483647)
    (hm : day ≤ 4294967295) :
    Gen.naive_date.NaiveDate.Datelike.with_day d.yof day
      = rmap (Option.map Date.yof) (d.with_day day) := by
  unfold Gen.naive_date.NaiveDate.Datelike.with_day Date.with_day
  rw [GenDate.gen_mdf_eq]
  cases hmdf : d.mdf with
  | panic => rfl
  | ok m =>
    have hlt := mdf_lt d m hmdf
    simp only [rmap, bind_ok]
    show (match Gen.naive_internals.Mdf.with_day (m : Nat) (day : Nat) with
      | some r2 => Gen.naive_date.NaiveDate.with_mdf d.yof r2 | none => Res.ok none) = _
    rw [GenDate.gen_mdf_with_day_eq m day (by omega) hm]
    cases hw : Mdf.with_day m day with
    | none => rfl
    | some m2 =>
      have : m2 ≤ 4294967295 := by
        unfold Mdf.with_day at hw; split at hw
        · cases hw
        · injection hw with hw; omega
      exact GenDate.gen_with_mdf_eq d m2 hd this

theorem gen_with_month0_unfold (yof x : Int) :
    Gen.naive_date.NaiveDate.Datelike.with_month0 yof x =
      (match optU32 (x + 1) with
      | some v => Gen.naive_date.NaiveDate.Datelike.with_month yof v
      | none => .ok none) := rfl

theorem gen_with_month0_eq (d : Date) (month0 : Nat) (hd : -2147483648 ≤ d.yof ∧ d.yof ≤ 2147483647)
    (hm : month0 ≤ 4294967295) :
    Gen.naive_date.NaiveDate.Datelike.with_month0 d.yof month0
      = rmap (Option.map Date.yof) (d.with_month0 month0) := by
  rw [gen_with_month0_unfold]
  unfold Date.with_month0
  have hU : U32_MAX = 4294967295 := rfl
  rw [optU32_def]
  by_cases h : 0 ≤ (month0 : Int) + 1 ∧ (month0 : Int) + 1 ≤ 4294967295
  · rw [if_pos h, if_pos (by omega)]
    have := gen_with_month_eq d (month0 + 1) hd (by omega)
    have e : ((month0 + 1 : Nat) : Int) = (month0 : Int) + 1 := by omega
    rw [e] at this
    exact this
  · rw [if_neg h, if_neg (by omega)]; rfl

theorem gen_with_day0_unfold (yof x : Int) :
    Gen.naive_date.NaiveDate.Datelike.with_day0 yof x =
      (match optU32 (x + 1) with
      | some v => Gen.naive_date.NaiveDate.Datelike.with_day yof v
      | none => .ok none) := rfl

theorem gen_with_day0_eq (d : Date) (day0 : Nat) (hd : -2147483648 ≤ d.yof ∧ d.yof ≤ 2147483647)
    (hm : day0 ≤ 4294967295) :
    Gen.naive_date.NaiveDate.Datelike.with_day0 d.yof day0
      = rmap (Option.map Date.yof) (d.with_day0 day0) := by
  rw [gen_with_day0_unfold]
  unfold Date.with_day0
  have hU : U32_MAX = 4294967295 := rfl
  rw [optU32_def]
  by_cases h : 0 ≤ (day0 : Int) + 1 ∧ (day0 : Int) + 1 ≤ 4294967295
  · rw [if_pos h, if_pos (by omega)]
    have := gen_with_day_eq d (day0 + 1) hd (by omega)
    have e : ((day0 + 1 : Nat) : Int) = (day0 : Int) + 1 := by omega
    rw [e] at this
    exact this
  · rw [if_neg h, if_neg (by omega)]; rfl

/-- `u32`: `b` lies in bits 0…4, which are clear in `a` (`(month << 5) | day`) -/
theorem lorU_field_0_5 (a b : Int) (ha : 0 ≤ a) (hb : 0 ≤ b) (h1 : a % 32 = 0) (h3 : b < 32) :
    GenRt.lorU a b = a + b := by
  unfold GenRt.lorU
  have := nat_lor_field a.toNat b.toNat 0 5 1 32 (by decide) (by decide) (by omega) (by omega) (by omega)
  rw [this]
  show ((a.toNat + b.toNat : Nat) : Int) = a + b
  omega

theorem gen_years_since_eq (d base : Date) :
    Gen.naive_date.NaiveDate.years_since d.yof base.yof = d.years_since base := by
  unfold Gen.naive_date.NaiveDate.years_since Date.years_since
  simp only [GenDate.gen_year_eq, GenDate.gen_month_eq, GenDate.gen_day_eq]
  cases hy : ckI32 (d.year - base.year) <;> cases hm1 : d.month <;> cases hd1 : d.day <;>
    cases hm0 : base.month <;> cases hd0 : base.day <;> try rfl
  rename_i years m1 d1 m0 d0
  have r1 := month_day_range d m1 d1 hm1 hd1
  have r0 := month_day_range base m0 d0 hm0 hd0
  simp only [rmap, bind_ok]
  have hyr : -2147483648 ≤ years ∧ years ≤ 2147483647 := by
    rw [ckI32_def] at hy; split at hy
    · injection hy with hy; omega
    · cases hy
  have e1 : GenRt.lorU (Int.ofNat m1 * 32 % 4294967296) (Int.ofNat d1) = (m1 : Int) * 32 + d1 := by
    simp only [Int.ofNat_eq_natCast]
    rw [lorU_field_0_5 _ _ (by omega) (by omega) (by omega) (by omega)]; omega
  have e0 : GenRt.lorU (Int.ofNat m0 * 32 % 4294967296) (Int.ofNat d0) = (m0 : Int) * 32 + d0 := by
    simp only [Int.ofNat_eq_natCast]
    rw [lorU_field_0_5 _ _ (by omega) (by omega) (by omega) (by omega)]; omega
  rw [e1, e0]
  have hau : ∀ y : Int, 0 ≤ y → y ≤ 2147483647 → asU32 y = y := fun y h1 h2 => Proofs.asU32_id h1 (by omega)
  by_cases hlt : m1 * 32 + d1 < m0 * 32 + d0
  · rw [if_pos (by omega), if_pos hlt]
    by_cases hk : -2147483648 ≤ years - 1 ∧ years - 1 ≤ 2147483647
    · rw [ckI32_ok hk, bind_ok]
      dsimp only
      by_cases h0 : years - 1 ≥ 0
      · rw [if_pos h0, if_pos h0, hau _ (by omega) (by omega)]
      · rw [if_neg h0, if_neg h0]
    · have e : ckI32 (years - 1) = .panic := by rw [ckI32_def, if_neg hk]
      rw [e]; rfl
  · rw [if_neg (by omega), if_neg hlt]
    dsimp only
    by_cases h0 : years ≥ 0
    · rw [if_pos h0, if_pos h0, hau _ (by omega) (by omega)]
    · rw [if_neg h0, if_neg h0]

theorem gen_with_ordinal_eq (d : Date) (ordinal : Nat) (hd : -2147483648 ≤ d.yof ∧ d.yof ≤ 2147483647)
    (_ho : ordinal ≤ 4294967295) :
    Gen.naive_date.NaiveDate.Datelike.with_ordinal d.yof ordinal
      = rmap (Option.map Date.yof) (d.with_ordinal ordinal) := by
  unfold Gen.naive_date.NaiveDate.Datelike.with_ordinal Date.with_ordinal Gen.naive_date.NaiveDate.yof
  have h1 : WO_ZERO = 0 := rfl
  have h2 : WO_MAX = 366 := rfl
  have h3 : DATE_MAX_OL = 5856 := rfl
  by_cases hc : (ordinal : Int) = 0 ∨ (ordinal : Int) > 366
  · rw [if_pos hc, if_pos (show ordinal = WO_ZERO ∨ ordinal > WO_MAX by omega)]; rfl
  · rw [if_neg hc, if_neg (show ¬(ordinal = WO_ZERO ∨ ordinal > WO_MAX) by omega)]
    have e1 : asI32 ((ordinal : Int) * 16 % 4294967296) = (ordinal : Int) * 16 := by
      rw [Proofs.asI32_id (by omega) (by omega)]; omega
    have e2 : GenRt.lorI 32 asI32 (d.yof - d.yof / 16 % 512 * 16) ((ordinal : Int) * 16)
        = d.yof - d.ordinal * 16 + (ordinal : Int) * 16 := by
      rw [lorI_field_4_9 _ _ (by omega) (by omega) (by omega) (by omega) (by omega)]; rfl
    rw [e1]
    dsimp only
    rw [e2]
    generalize d.yof - d.ordinal * 16 + (ordinal : Int) * 16 = y
    by_cases hy : y / 8 % 1024 * 8 ≤ 5856
    · rw [if_pos hy, if_pos (by omega), GenDate.gen_from_yof_eq y (by omega)]
      cases Date.from_yof y <;> rfl
    · rw [if_neg hy, if_neg (by omega)]; rfl

theorem gen_with_ordinal0_unfold (yof x : Int) :
    Gen.naive_date.NaiveDate.Datelike.with_ordinal0 yof x =
      (match optU32 (x + 1) with
      | some v => Gen.naive_date.NaiveDate.Datelike.with_ordinal yof v
      | none => .ok none) := rfl

theorem gen_with_ordinal0_eq (d : Date) (ordinal0 : Nat) (hd : -2147483648 ≤ d.yof ∧ d.yof ≤ 2147483647)
    (hm : ordinal0 ≤ 4294967295) :
    Gen.naive_date.NaiveDate.Datelike.with_ordinal0 d.yof ordinal0
      = rmap (Option.map Date.yof) (d.with_ordinal0 ordinal0) := by
  rw [gen_with_ordinal0_unfold]
  unfold Date.with_ordinal0
  have hU : U32_MAX = 4294967295 := rfl
  rw [optU32_def]
  by_cases h : 0 ≤ (ordinal0 : Int) + 1 ∧ (ordinal0 : Int) + 1 ≤ 4294967295
  · rw [if_pos h, if_pos (by omega)]
    have := gen_with_ordinal_eq d (ordinal0 + 1) hd (by omega)
    have e : ((ordinal0 + 1 : Nat) : Int) = (ordinal0 : Int) + 1 := by omega
    rw [e] at this
    exact this
  · rw [if_neg h, if_neg (by omega)]; rfl

/-! ### `NaiveDate::week` / `NaiveWeek` (a `Weekday` is its discriminant, Monday = 0) -/

theorem gen_week_eq (d : Date) (start : Weekday) :
    Gen.naive_date.NaiveDate.week d.yof (start.toNat : Nat)
      = ⟨(d.week start).date.yof, ((d.week start).start.toNat : Nat)⟩ := rfl

theorem nfm_range (w : Weekday) : 1 ≤ w.number_from_monday ∧ w.number_from_monday ≤ 7 := by
  cases w <;> decide

theorem gen_from_weekday_of_month_opt_eq (year : Int) (month : Nat) (weekday : Weekday) (n : Nat)
    (hm : month ≤ 4294967295) (hn : n ≤ 255) :
    Gen.naive_date.NaiveDate.from_weekday_of_month_opt year month (weekday.toNat : Nat) n
      = rmap (Option.map Date.yof) (Date.from_weekday_of_month_opt year month weekday n) := by
  unfold Gen.naive_date.NaiveDate.from_weekday_of_month_opt Date.from_weekday_of_month_opt
  by_cases h0 : n = 0
  · rw [if_pos (by omega), if_pos h0]; rfl
  · rw [if_neg (by omega), if_neg h0]
    have g1 : Gen.naive_date.NaiveDate.from_ymd_opt year month 1
        = rmap (Option.map Date.yof) (Date.from_ymd_opt year month 1) :=
      GenDate.gen_from_ymd_opt_eq year month 1 hm (by omega)
    rw [g1]
    cases Date.from_ymd_opt year month 1 with
    | panic => rfl
    | ok o =>
      cases o with
      | none => rfl
      | some f =>
        simp only [rmap, bind_ok, Option.map]
        rw [GenDate.gen_weekday_eq f, bind_ok, GenWeekday.gen_weekday_number_from_monday_eq, bind_ok]
        have ra := nfm_range weekday
        have rb := nfm_range f.weekday
        rw [ckU32_ok (by omega), bind_ok, GenWeekday.gen_weekday_number_from_monday_eq, bind_ok,
          ckU32_ok (by omega), bind_ok]
        have e8 : GenRt.ckU8 ((n : Int) - 1) = .ok ((n : Int) - 1) := by
          unfold GenRt.ckU8
          rw [if_pos (by simp only [Bool.and_eq_true, decide_eq_true_eq]; omega)]
        rw [e8, bind_ok, ckU32_ok (by omega), bind_ok, ckU32_ok (by omega), bind_ok, ckU32_ok (by omega), bind_ok]
        have ed : ((n : Int) - 1) * 7 + (7 + (weekday.number_from_monday : Int) - (f.weekday.number_from_monday : Int)) % 7 + 1
            = (((n - 1) * 7 + (7 + weekday.number_from_monday - f.weekday.number_from_monday) % 7 + 1 : Nat) : Int) := by
          omega
        rw [ed]
        exact GenDate.gen_from_ymd_opt_eq year month _ hm (by omega)

/-- the generated `NaiveWeek` of a model value -/
abbrev wG (w : NaiveWeek) : Gen.naive.NaiveWeek := ⟨w.date.yof, (w.start.toNat : Nat)⟩

theorem ndfm_le (w : Weekday) : w.num_days_from_monday ≤ 6 := by cases w <;> decide

theorem gen_checked_first_day_eq (w : NaiveWeek) (hd : -2147483648 ≤ w.date.yof ∧ w.date.yof ≤ 2147483647)
    (ho : 1 ≤ w.date.ordinal) :
    Gen.naive.NaiveWeek.checked_first_day (wG w) = rmap (Option.map Date.yof) w.checked_first_day := by
  unfold Gen.naive.NaiveWeek.checked_first_day NaiveWeek.checked_first_day
  dsimp only
  rw [GenWeekday.gen_weekday_num_days_from_monday_eq, bind_ok, GenDate.gen_weekday_eq, bind_ok,
    GenWeekday.gen_weekday_num_days_from_monday_eq, bind_ok]
  have h1 : 0 ≤ (w.start.num_days_from_monday : Int) ∧ (w.start.num_days_from_monday : Int) ≤ 6 := by
    have := ndfm_le w.start; omega
  have h2 : 0 ≤ (w.date.weekday.num_days_from_monday : Int) ∧ (w.date.weekday.num_days_from_monday : Int) ≤ 6 := by
    have := ndfm_le w.date.weekday; omega
  rw [Proofs.asI32_id (by omega) (by omega), Proofs.asI32_id (by omega) (by omega)]
  generalize (w.start.num_days_from_monday : Int) = s at *
  generalize (w.date.weekday.num_days_from_monday : Int) = r at *
  rw [ckI32_ok (by omega), bind_ok, ckI32_ok (by split <;> omega), bind_ok]
  exact GenDate.gen_add_days_eq w.date _ hd (by split <;> omega) ho

theorem gen_checked_last_day_eq (w : NaiveWeek) (hd : -2147483648 ≤ w.date.yof ∧ w.date.yof ≤ 2147483647)
    (ho : 1 ≤ w.date.ordinal) :
    Gen.naive.NaiveWeek.checked_last_day (wG w) = rmap (Option.map Date.yof) w.checked_last_day := by
  unfold Gen.naive.NaiveWeek.checked_last_day NaiveWeek.checked_last_day
  dsimp only
  rw [GenWeekday.gen_weekday_pred_eq, GenWeekday.gen_weekday_num_days_from_monday_eq, bind_ok,
    GenDate.gen_weekday_eq, bind_ok, GenWeekday.gen_weekday_num_days_from_monday_eq, bind_ok]
  have h1 : 0 ≤ (w.start.pred.num_days_from_monday : Int) ∧ (w.start.pred.num_days_from_monday : Int) ≤ 6 := by
    have := ndfm_le w.start.pred; omega
  have h2 : 0 ≤ (w.date.weekday.num_days_from_monday : Int) ∧ (w.date.weekday.num_days_from_monday : Int) ≤ 6 := by
    have := ndfm_le w.date.weekday; omega
  rw [Proofs.asI32_id (by omega) (by omega), Proofs.asI32_id (by omega) (by omega)]
  generalize (w.start.pred.num_days_from_monday : Int) = s at *
  generalize (w.date.weekday.num_days_from_monday : Int) = r at *
  rw [ckI32_ok (by omega), bind_ok, ckI32_ok (by split <;> omega), bind_ok]
  exact GenDate.gen_add_days_eq w.date _ hd (by split <;> omega) ho

theorem gen_first_day_eq (w : NaiveWeek) (hd : -2147483648 ≤ w.date.yof ∧ w.date.yof ≤ 2147483647)
    (ho : 1 ≤ w.date.ordinal) :
    Gen.naive.NaiveWeek.first_day (wG w) = rmap Date.yof w.first_day := by
  unfold Gen.naive.NaiveWeek.first_day NaiveWeek.first_day
  rw [gen_checked_first_day_eq w hd ho]
  cases w.checked_first_day with
  | panic => rfl
  | ok o => cases o <;> rfl

theorem gen_last_day_eq (w : NaiveWeek) (hd : -2147483648 ≤ w.date.yof ∧ w.date.yof ≤ 2147483647)
    (ho : 1 ≤ w.date.ordinal) :
    Gen.naive.NaiveWeek.last_day (wG w) = rmap Date.yof w.last_day := by
  unfold Gen.naive.NaiveWeek.last_day NaiveWeek.last_day
  rw [gen_checked_last_day_eq w hd ho]
  cases w.checked_last_day with
  | panic => rfl
  | ok o => cases o <;> rfl

end Chrono.Props.GenDateOps
