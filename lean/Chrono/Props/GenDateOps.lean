/-
  C03 / C08, code translation tie for the `NaiveDate` operations of src/naive/date/mod.rs that GenDate.lean does not
  cover (day and month stepping, `TimeDelta` arithmetic, differences) and for `NaiveWeek` (src/naive/mod.rs): the
  definitions that tools/extractors/rust2lean.py regenerates from the Rust source text on every run equal the
  hand-written models lean/Chrono/Model/DateArith.lean and DateOps.lean for all arguments of the machine types.
  A `NaiveDate` is its packed word (`Date.yof`, an `i32`: hypothesis `hd`); `ho` is the part of the type invariant
  (ordinal ≥ 1) that `add_days` relies on; `Days(u64)` and `Months(u32)` are their field; `dG` maps a `Delta`.
-/
import Chrono.Proofs.GenDateL
import Chrono.Props.GenDate
import Chrono.Props.GenDelta
import Chrono.Proofs.GenTimeL
import Chrono.Model.DateArith

namespace Chrono.Props.GenDateOps
open Chrono Chrono.M Chrono.Extracted Chrono.Extracted.DateOps Chrono.Proofs.GenL Chrono.Proofs.GenDateL
open Chrono.Proofs.GenTimeL

/-! ### day stepping -/

theorem gen_checked_add_days_eq (d : Date) (days : Int) (hd : -2147483648 ≤ d.yof ∧ d.yof ≤ 2147483647)
    (ho : 1 ≤ d.ordinal) :
    Gen.naive_date.NaiveDate.checked_add_days d.yof days
      = rmap (Option.map Date.yof) (d.checked_add_days days) := by
  unfold Gen.naive_date.NaiveDate.checked_add_days Date.checked_add_days
  have hI : I32_MAX = 2147483647 := rfl
  by_cases h : days ≤ 2147483647
  · rw [if_pos h, if_pos (by omega)]
    exact GenDate.gen_add_days_eq d _ hd (asI32_range _) ho
  · rw [if_neg h, if_neg (by omega)]; rfl

theorem gen_checked_sub_days_eq (d : Date) (days : Int) (hd : -2147483648 ≤ d.yof ∧ d.yof ≤ 2147483647)
    (ho : 1 ≤ d.ordinal) :
    Gen.naive_date.NaiveDate.checked_sub_days d.yof days
      = rmap (Option.map Date.yof) (d.checked_sub_days days) := by
  unfold Gen.naive_date.NaiveDate.checked_sub_days Date.checked_sub_days
  have hI : I32_MAX = 2147483647 := rfl
  by_cases h : days ≤ 2147483647
  · rw [if_pos h, if_pos (by omega)]
    have hr := asI32_range days
    by_cases h2 : -2147483648 ≤ -(asI32 days) ∧ -(asI32 days) ≤ 2147483647
    · rw [ckI32_ok h2, bind_ok]
      exact GenDate.gen_add_days_eq d _ hd h2 ho
    · have e : ckI32 (-(asI32 days)) = .panic := by rw [ckI32_def, if_neg h2]
      rw [e]; rfl
  · rw [if_neg h, if_neg (by omega)]; rfl

theorem gen_checked_add_signed_eq (d : Date) (rhs : Delta) (hd : -2147483648 ≤ d.yof ∧ d.yof ≤ 2147483647)
    (ho : 1 ≤ d.ordinal) (hr : DFields rhs) :
    Gen.naive_date.NaiveDate.checked_add_signed d.yof (dG rhs)
      = rmap (Option.map Date.yof) (d.checked_add_signed rhs) := by
  unfold Gen.naive_date.NaiveDate.checked_add_signed Date.checked_add_signed
  rw [GenDelta.gen_num_days_eq rhs hr.1, bind_ok]
  have hI : I32_MAX = 2147483647 := rfl
  have hJ : I32_MIN = -2147483648 := rfl
  dsimp only
  by_cases h : rhs.num_days < -2147483648 ∨ rhs.num_days > 2147483647
  · rw [if_pos h, if_pos (by omega)]; rfl
  · rw [if_neg h, if_neg (by omega)]
    exact GenDate.gen_add_days_eq d _ hd (asI32_range _) ho

theorem gen_checked_sub_signed_eq (d : Date) (rhs : Delta) (hd : -2147483648 ≤ d.yof ∧ d.yof ≤ 2147483647)
    (ho : 1 ≤ d.ordinal) (hr : DFields rhs) :
    Gen.naive_date.NaiveDate.checked_sub_signed d.yof (dG rhs)
      = rmap (Option.map Date.yof) (d.checked_sub_signed rhs) := by
  unfold Gen.naive_date.NaiveDate.checked_sub_signed Date.checked_sub_signed
  rw [GenDelta.gen_num_days_eq rhs hr.1, bind_ok]
  have hI : I32_MAX = 2147483647 := rfl
  have hJ : I32_MIN = -2147483648 := rfl
  cases ckI64 (-rhs.num_days) with
  | panic => rfl
  | ok days =>
    simp only [bind_ok]
    by_cases h : days < -2147483648 ∨ days > 2147483647
    · rw [if_pos h, if_pos (by omega)]; rfl
    · rw [if_neg h, if_neg (by omega)]
      exact GenDate.gen_add_days_eq d _ hd (asI32_range _) ho

/-! ### month stepping (`Months(u32)`) -/

theorem gen_checked_add_months_eq (d : Date) (n : Nat) (hd : -2147483648 ≤ d.yof ∧ d.yof ≤ 2147483647) :
    Gen.naive_date.NaiveDate.checked_add_months d.yof n
      = rmap (Option.map Date.yof) (d.checked_add_months n) := by
  unfold Gen.naive_date.NaiveDate.checked_add_months Date.checked_add_months
  have hI : I32_MAX = 2147483647 := rfl
  by_cases h0 : n = 0
  · rw [if_pos (by omega), if_pos h0]; rfl
  · rw [if_neg (by omega), if_neg h0]
    by_cases h : (n : Int) ≤ 2147483647
    · rw [if_pos h, if_pos (by omega), Proofs.asI32_id (by omega) (by omega)]
      exact GenDate.gen_diff_months_eq d _ hd
    · rw [if_neg h, if_neg (by omega)]; rfl

theorem gen_checked_sub_months_eq (d : Date) (n : Nat) (hd : -2147483648 ≤ d.yof ∧ d.yof ≤ 2147483647) :
    Gen.naive_date.NaiveDate.checked_sub_months d.yof n
      = rmap (Option.map Date.yof) (d.checked_sub_months n) := by
  unfold Gen.naive_date.NaiveDate.checked_sub_months Date.checked_sub_months
  have hI : I32_MAX = 2147483647 := rfl
  by_cases h0 : n = 0
  · rw [if_pos (by omega), if_pos h0]; rfl
  · rw [if_neg (by omega), if_neg h0]
    by_cases h : (n : Int) ≤ 2147483647
    · rw [if_pos h, if_pos (by omega), Proofs.asI32_id (by omega) (by omega), ckI32_ok (by omega), bind_ok]
      exact GenDate.gen_diff_months_eq d _ hd
    · rw [if_neg h, if_neg (by omega)]; rfl

/-! ### differences -/

theorem yo_to_cycle_le (ym o : Nat) (h1 : ym ≤ 400) : Date.yo_to_cycle ym o ≤ ym * 365 + 97 + o := by
  unfold Date.yo_to_cycle
  have := tbl_yd.2.2 ym (by omega)
  omega

theorem gen_date_signed_duration_since_eq (a b : Date)
    (ha : -2147483648 ≤ a.yof ∧ a.yof ≤ 2147483647) (hb : -2147483648 ≤ b.yof ∧ b.yof ≤ 2147483647)
    (hoa : 1 ≤ a.ordinal) (hob : 1 ≤ b.ordinal) :
    Gen.naive_date.NaiveDate.signed_duration_since a.yof b.yof
      = rmap dG (a.signed_duration_since b) := by
  unfold Gen.naive_date.NaiveDate.signed_duration_since Date.signed_duration_since
  simp only [GenDate.gen_year_eq, GenDate.gen_ordinal_eq]
  have hya : -262144 ≤ a.year ∧ a.year ≤ 262143 := by unfold Date.year; omega
  have hyb : -262144 ≤ b.year ∧ b.year ≤ 262143 := by unfold Date.year; omega
  have hoa2 : a.ordinal ≤ 511 := by unfold Date.ordinal; omega
  have hob2 : b.ordinal ≤ 511 := by unfold Date.ordinal; omega
  rw [GenDate.gen_div_mod_floor_eq _ 400 (by omega) (by omega), bind_ok,
    GenDate.gen_div_mod_floor_eq _ 400 (by omega) (by omega), bind_ok]
  dsimp only
  have e1 : asU32 (a.year % 400) = ((a.year % 400).toNat : Int) := by unfold asU32; omega
  have e2 : asU32 (b.year % 400) = ((b.year % 400).toNat : Int) := by unfold asU32; omega
  have e3 : a.ordinal = (a.ordinal.toNat : Int) := by omega
  have e4 : b.ordinal = (b.ordinal.toNat : Int) := by omega
  rw [e1, e2]
  have g1 := GenDate.gen_yo_to_cycle_eq (a.year % 400).toNat a.ordinal.toNat (by omega) (by omega) (by omega)
  have g2 := GenDate.gen_yo_to_cycle_eq (b.year % 400).toNat b.ordinal.toNat (by omega) (by omega) (by omega)
  rw [← e3] at g1
  rw [← e4] at g2
  rw [g1, bind_ok, g2, bind_ok]
  have b1 := yo_to_cycle_le (a.year % 400).toNat a.ordinal.toNat (by omega)
  have b2 := yo_to_cycle_le (b.year % 400).toNat b.ordinal.toNat (by omega)
  generalize Date.yo_to_cycle (a.year % 400).toNat a.ordinal.toNat = c1 at *
  generalize Date.yo_to_cycle (b.year % 400).toNat b.ordinal.toNat = c2 at *
  rw [ckI64_ok (by omega), bind_ok, ckI64_ok (by omega), bind_ok, ckI64_ok (by omega), bind_ok,
    ckI64_ok (by omega), bind_ok, GenDelta.gen_try_days_eq]
  dsimp only
  cases Delta.try_days ((a.year / 400 - b.year / 400) * 146097 + ((c1 : Int) - (c2 : Int))) <;> rfl

end Chrono.Props.GenDateOps
