/-
  C01, code translation tie, further views of a date: `IsoWeek::{year, week, week0}` (src/naive/isoweek.rs),
  `<NaiveDate as Datelike>::{iso_week, ordinal0, month0, year, month, day, ordinal, weekday}` (src/naive/date/mod.rs)
  and the `Datelike` default `year_ce` read at `Self = NaiveDate` (src/traits.rs), as regenerated from the Rust source
  text on every run (tools/extractors/rust2lean.py), equal the hand-written models (Model/Date.lean, DateViews.lean,
  MonthsOps.lean) for every packed date word of the machine type.  `IsoWeek::week0` is `week() - 1` on `u32`: the
  model subtracts on `Int`, so the tie needs `week ≥ 1` (the type invariant of `IsoWeek`);
  `gen_isoweek_week0_zero` states the exact difference on a word with week field 0 (the source panics).
-/
import Chrono.Props.GenDate
import Chrono.Model.DateViews
import Chrono.Model.MonthsOps

namespace Chrono.Props.GenDateViews
open Chrono Chrono.M Chrono.Extracted Chrono.Proofs.GenL

def I32 (x : Int) : Prop := -2147483648 ≤ x ∧ x ≤ 2147483647

/-! ### `IsoWeek` accessors (`ywf = year << 10 | week << 4 | flags`) -/

theorem gen_isoweek_year_eq (ywf : Int) : Gen.naive_isoweek.IsoWeek.year ywf = IsoWeek.year ywf := rfl

theorem gen_isoweek_week_eq (ywf : Int) : Gen.naive_isoweek.IsoWeek.week ywf = IsoWeek.week ywf := by
  unfold Gen.naive_isoweek.IsoWeek.week IsoWeek.week asU32; omega

theorem gen_isoweek_week0_eq (ywf : Int) (hw : 1 ≤ (ywf / 16) % 64) :
    Gen.naive_isoweek.IsoWeek.week0 ywf = .ok (IsoWeek.week0 ywf) := by
  unfold Gen.naive_isoweek.IsoWeek.week0 IsoWeek.week0
  have e : asU32 ((ywf / 16) % 64) = (ywf / 16) % 64 := by unfold asU32; omega
  rw [e, ckU32_ok (by omega)]

/-- the exact difference: on a word whose week field is 0 the source panics (`0u32 - 1`), the model yields −1 -/
theorem gen_isoweek_week0_zero (ywf : Int) (hw : (ywf / 16) % 64 = 0) :
    Gen.naive_isoweek.IsoWeek.week0 ywf = .panic ∧ IsoWeek.week0 ywf = -1 := by
  unfold Gen.naive_isoweek.IsoWeek.week0 IsoWeek.week0
  have e : asU32 ((ywf / 16) % 64) = 0 := by unfold asU32; omega
  rw [e, hw]
  exact ⟨by decide, by decide⟩

/-! ### `impl Datelike for NaiveDate` -/

theorem gen_datelike_simple_eq (d : Date) :
    Gen.naive_date.NaiveDate.Datelike.year d.yof = d.year
    ∧ Gen.naive_date.NaiveDate.Datelike.month d.yof = rmap Int.ofNat d.month
    ∧ Gen.naive_date.NaiveDate.Datelike.day d.yof = rmap Int.ofNat d.day :=
  ⟨rfl, GenDate.gen_month_eq d, GenDate.gen_day_eq d⟩

theorem gen_datelike_ordinal_eq (d : Date) : Gen.naive_date.NaiveDate.Datelike.ordinal d.yof = d.ordinal := by
  unfold Gen.naive_date.NaiveDate.Datelike.ordinal Gen.naive_date.NaiveDate.yof Date.ordinal asU32; omega

theorem gen_iso_week_eq (d : Date) (hd : I32 d.yof) :
    Gen.naive_date.NaiveDate.Datelike.iso_week d.yof = d.iso_week := by
  unfold Gen.naive_date.NaiveDate.Datelike.iso_week Date.iso_week
  rw [GenDate.gen_year_eq, GenDate.gen_ordinal_eq, GenDate.gen_year_flags_eq]
  have ho : 0 ≤ d.ordinal ∧ d.ordinal ≤ 511 := by unfold Date.ordinal; omega
  have hy : -262144 ≤ d.year ∧ d.year ≤ 262143 := by unfold Date.year I32 at *; omega
  have hf : d.flags < 16 := by unfold Date.flags; omega
  have e : d.ordinal = ((d.ordinal.toNat : Nat) : Int) := by omega
  rw [e]
  exact GenDate.gen_isoweek_from_yof_eq d.year d.ordinal.toNat d.flags (by omega) (by omega) hf

theorem gen_ordinal0_eq (d : Date) :
    Gen.naive_date.NaiveDate.Datelike.ordinal0 d.yof = rmap Int.ofNat (Date.ordinal0 d) := by
  unfold Gen.naive_date.NaiveDate.Datelike.ordinal0 Date.ordinal0 Date.subOne
  rw [GenDate.gen_ordinal_eq]
  have ho : 0 ≤ d.ordinal ∧ d.ordinal ≤ 511 := by unfold Date.ordinal; omega
  by_cases h : d.ordinal.toNat = 0
  · rw [if_pos h, ckU32_def, if_neg (by omega)]; rfl
  · rw [if_neg h, ckU32_ok (by omega)]
    show Res.ok (d.ordinal - 1) = Res.ok (Int.ofNat (d.ordinal.toNat - 1))
    congr 1
    have h2 : (Int.ofNat (d.ordinal.toNat - 1)) = ((d.ordinal.toNat - 1 : Nat) : Int) := rfl
    rw [h2]; omega

/-- `year_ce` (trait default body read at `Self = NaiveDate`) -/
theorem gen_year_ce_eq (d : Date) :
    Gen.traits.NaiveDate.Datelike.year_ce d.yof = Datelike.year_ce (.ok d.year) := by
  unfold Gen.traits.NaiveDate.Datelike.year_ce Datelike.year_ce
  have hy : Gen.naive_date.NaiveDate.Datelike.year d.yof = d.year := rfl
  rw [hy]
  simp only [Res.bind]
  split
  · cases ckI32 (1 - d.year) <;> rfl
  · rfl

/-- non-trivial values: the ISO week word of 2020-W53 (flags of 2020), its accessors; ordinal0 of 1 January -/
example : Gen.naive_isoweek.IsoWeek.week (2020 * 1024 + 53 * 16 + 3) = 53
    ∧ Gen.naive_isoweek.IsoWeek.week0 (2020 * 1024 + 53 * 16 + 3) = .ok 52
    ∧ Gen.naive_isoweek.IsoWeek.year (2020 * 1024 + 53 * 16 + 3) = 2020
    ∧ Gen.naive_date.NaiveDate.Datelike.ordinal0 16138266 = .ok 0
    ∧ Gen.traits.NaiveDate.Datelike.year_ce (0 * 8192 + 16 + 5) = .ok (false, 1) := by decide +kernel

end Chrono.Props.GenDateViews
